package main

// Random call histories on the compiled probe object.

import (
	"bufio"
	"fmt"
	"io"
	"os"
	"os/exec"
	"path/filepath"
	"strings"
	"sync"
	"time"

	"wvh/hlib"
)

type probeProc struct {
	cmd *exec.Cmd
	in  io.WriteCloser
	out *bufio.Reader
}

func startProbe(bin string) (*probeProc, error) {
	cmd := exec.Command(bin)
	cmd.Env = append(os.Environ(), "ASAN_OPTIONS=detect_leaks=0:abort_on_error=0", "UBSAN_OPTIONS=print_stacktrace=1:halt_on_error=1")
	in, err := cmd.StdinPipe()
	if err != nil {
		return nil, err
	}
	out, err := cmd.StdoutPipe()
	if err != nil {
		return nil, err
	}
	cmd.Stderr = nil
	if err := cmd.Start(); err != nil {
		return nil, err
	}
	return &probeProc{cmd: cmd, in: in, out: bufio.NewReaderSize(out, 1<<16)}, nil
}

// ask sends one line; "crash" if the process died or did not answer within 120 s.
func (p *probeProc) ask(line string) string {
	if _, err := io.WriteString(p.in, line+"\n"); err != nil {
		return "crash"
	}
	ch := make(chan string, 1)
	go func() {
		s, err := p.out.ReadString('\n')
		if err != nil {
			ch <- "crash"
			return
		}
		ch <- strings.TrimRight(s, "\n")
	}()
	select {
	case s := <-ch:
		return s
	case <-time.After(120 * time.Second):
		p.cmd.Process.Kill()
		return "crash"
	}
}

func (p *probeProc) close() {
	p.in.Close()
	done := make(chan struct{})
	go func() { p.cmd.Wait(); close(done) }()
	select {
	case <-done:
	case <-time.After(5 * time.Second):
		p.cmd.Process.Kill()
	}
}

// buildProbeDriver compiles snapshot(base core) + generated probe + driver.
func buildProbeDriver(r *hlib.Run, probe *pkgData, snapshot, work string) (string, error) {
	gen := strings.Replace(probe.csrc, "#include \"./wuffs-base.c\"", "", 1)
	src := "#define WUFFS_IMPLEMENTATION\n#define WUFFS_CONFIG__MODULES\n#define WUFFS_CONFIG__MODULE__BASE__CORE\n#define WUFFS_CONFIG__MODULE__PROBE\n" +
		"#include \"" + snapshot + "\"\n" + gen + "\n" + probeDriverC
	cfile := filepath.Join(work, "probe_drv.c")
	if err := os.WriteFile(cfile, []byte(src), 0o644); err != nil {
		return "", err
	}
	bin := filepath.Join(work, "probe_drv")
	t0 := time.Now()
	err := hlib.CC("clang", "-O1", "-g", "-w", "-fsanitize=address,undefined", "-fno-sanitize-recover=all", "-o", bin, cfile)
	if err != nil {
		r.Note("clang+sanitizers failed for the probe driver, falling back to gcc: " + firstLine(err.Error()))
		err = hlib.CC("gcc", "-O1", "-w", "-o", bin, cfile)
	}
	r.Extra("probe_compile_s", time.Since(t0).Seconds())
	return bin, err
}

func firstLine(s string) string {
	if i := strings.IndexByte(s, '\n'); i >= 0 {
		return s[:i]
	}
	return s
}

type histOut struct {
	ops, impl []string
	fails     []hlib.Failure
	counts    map[string]int
	sig       string
	nontriv   bool
}

func (h *histOut) op(o, i string) { h.ops = append(h.ops, o); h.impl = append(h.impl, i) }
func (h *histOut) count(k string) { h.counts[k]++ }

func methodDescs(ms []*methodInfo) string {
	if len(ms) == 0 {
		return "-"
	}
	d := make([]string, len(ms))
	for i, m := range ms {
		d[i] = m.desc()
	}
	return strings.Join(d, ";")
}

var probeVersions = []struct {
	v   string
	bad bool
}{{"0", false}, {"0", false}, {"0", false}, {"5", false}, {"65535", false}, {"4294967296", true}, {"65536", true}, {"18446744069414584320", true}, {"131072", true}}

// one random history on the probe object
func probeHistory(rng *hlib.Rand, p *probeProc, probe *pkgData, idx int) *histOut {
	h := &histOut{counts: map[string]int{}}
	ms := probe.methods
	// a third of the histories concentrate on the I/O side: valid initialize first, mostly the bytecode
	// interpreter and the two reader/writer coroutines, re-initialise as soon as the object is disabled
	focus := rng.Chance(1, 3)
	fill := 0
	if rng.Chance(1, 3) && !focus {
		fill = []int{0xAA, 0x01, 0xFF, 0x3C, 0x71}[rng.Intn(5)]
	}
	ans := p.ask(fmt.Sprintf("new %d", fill))
	var sizeof int
	if _, err := fmt.Sscanf(ans, "ok %d", &sizeof); err != nil {
		h.op(fmt.Sprintf("reset %d 0 0 0 %s", fill, methodDescs(ms)), "harness-error:"+ans)
		return h
	}
	h.op(fmt.Sprintf("reset %d %d 0 0 %s", fill, sizeof, methodDescs(ms)), "ok")
	replay := []string{fmt.Sprintf("probe history %d: new %d", idx, fill)}
	st := protoState{}
	n := rng.Range(4, 30)
	var sigb strings.Builder
	srcMode, dstMode := 1, 1
	srcDesc, dstDesc := "", ""
	lastProg := ""
	setSrc := func() {
		srcMode = 1
		if rng.Chance(1, 8) && !(focus && rng.Chance(4, 5)) {
			srcMode = 0
		} else if rng.Chance(1, 10) {
			srcMode = 2
		}
		ln := rng.Intn(7)
		data := rng.Bytes(ln)
		for i := range data {
			if rng.Chance(1, 3) {
				data[i] = byte(rng.Intn(3))
			}
		}
		ri := 0
		if ln > 0 {
			ri = rng.Intn(ln + 1)
		}
		wi := ri + rng.Intn(ln-ri+1)
		closed := 0
		if rng.Chance(1, 3) {
			closed = 1
		}
		if srcMode != 1 {
			data, ri, wi = nil, 0, 0
			if srcMode == 0 {
				closed = 0
			}
		}
		cmd := fmt.Sprintf("src %d %s %d %d %d", srcMode, hlib.Hex(data), ri, wi, closed)
		srcDesc = fmt.Sprintf("%d,%s,%d,%d,%d", srcMode, hlib.Hex(data), ri, wi, closed)
		replay = append(replay, cmd)
		p.ask(cmd)
	}
	setDst := func() {
		dstMode = 1
		if rng.Chance(1, 8) && !(focus && rng.Chance(4, 5)) {
			dstMode = 0
		} else if rng.Chance(1, 10) {
			dstMode = 2
		}
		ln := rng.Intn(9)
		data := rng.Bytes(ln)
		wi := 0
		if ln > 0 {
			wi = rng.Intn(ln + 1)
		}
		ri := 0
		if wi > 0 {
			ri = rng.Intn(wi + 1)
		}
		closed := 0
		if rng.Chance(1, 6) {
			closed = 1
		}
		if dstMode != 1 {
			data, ri, wi = nil, 0, 0
			if dstMode == 0 {
				closed = 0
			}
		}
		cmd := fmt.Sprintf("dst %d %s %d %d %d", dstMode, hlib.Hex(data), ri, wi, closed)
		dstDesc = fmt.Sprintf("%d,%s,%d,%d,%d", dstMode, hlib.Hex(data), ri, wi, closed)
		replay = append(replay, cmd)
		p.ask(cmd)
	}
	setSrc()
	setDst()
	lastMagic := ""
	for k := 0; k < n; k++ {
		needInit := focus && (k == 0 || lastMagic != "magic")
		if needInit || (!focus && (rng.Chance(1, 6) || (k == 0 && rng.Chance(2, 3)))) {
			// initialize
			selfnull := 0
			sz := sizeof
			ver := probeVersions[rng.Intn(len(probeVersions))]
			opts := []int{0, 0, 0, 1, 2, 3}[rng.Intn(6)]
			kind := "ok"
			variant := rng.Intn(10)
			if needInit {
				variant, opts, ver = 9, []int{0, 2}[rng.Intn(2)], probeVersions[0]
			}
			switch variant {
			case 0:
				sz = sizeof - 1
				kind = "sizeof"
			case 1:
				sz = sizeof + 8
				kind = "sizeof"
			case 2:
				sz = 0
				kind = "sizeof"
			case 3:
				selfnull = 1
				kind = "null"
			}
			if !rng.Chance(1, 3) {
				ver = probeVersions[0]
			}
			cmd := fmt.Sprintf("init %d %d %s %d", selfnull, sz, ver.v, opts)
			replay = append(replay, cmd)
			ans := p.ask(cmd)
			f := strings.Fields(ans)
			if len(f) != 3 {
				h.op(cmd, "harness-error:"+ans)
				h.fails = append(h.fails, hlib.Failure{Key: "crash:probe:initialize", Desc: "the probe driver died or answered garbage on " + cmd + ": " + ans, Replay: strings.Join(replay, "\n")})
				return h
			}
			status := f[0]
			h.op(cmd, fmt.Sprintf("%s %s %s", status, magicClass(f[1]), f[2]))
			h.count("probe:init:" + status)
			// oracle: init_rejects
			want := ""
			switch {
			case selfnull == 1:
				want = stBadRecv
			case kind == "sizeof":
				want = stBadSizeof
			case ver.bad:
				want = stBadVersion
				kind = "version"
			}
			if want != "" && status != want {
				h.fails = append(h.fails, hlib.Failure{Key: "init-rejects:probe:" + kind, Desc: fmt.Sprintf("initialize with a wrong %s returned %s, want %s", kind, status, want), Replay: strings.Join(replay, "\n")})
			}
			if want == "" && status != "ok" && status != stFalsely {
				h.fails = append(h.fails, hlib.Failure{Key: "init-rejects:probe:valid-rejected", Desc: "a valid initialize returned " + status, Replay: strings.Join(replay, "\n")})
			}
			st.onInit(status)
			lastMagic = magicClass(f[1])
			fmt.Fprintf(&sigb, "I%s,%s,%s;", shortStatus(status), magicClass(f[1]), f[2])
			if status != "ok" {
				h.nontriv = true
			}
			continue
		}
		mi := rng.Intn(len(ms))
		m := ms[mi]
		if rng.Chance(1, 3) {
			// prefer coroutines
			for t := 0; t < 4 && m.Effect != 'c'; t++ {
				mi = rng.Intn(len(ms))
				m = ms[mi]
			}
		}
		if focus {
			want := "vm"
			if rng.Chance(1, 4) {
				want = []string{"co_a", "co_b"}[rng.Intn(2)]
			}
			for j, x := range ms {
				if x.Name == want {
					mi, m = j, x
				}
			}
		}
		if rng.Chance(1, 4) {
			setSrc()
		}
		if rng.Chance(1, 4) {
			setDst()
		}
		selfnull := 0
		if rng.Chance(1, 30) && !focus {
			selfnull = 1
		}
		c := []int{0, 0, 0, 1, 2, 3, 3, 4, 5, 6, 7, 8, 9, 2, 100, 101, 1000}[rng.Intn(17)]
		pflag := 1
		if rng.Chance(1, 4) {
			pflag = 0
		}
		prog := ""
		if m.Name == "vm" {
			// fresh buffers before every vm call, so that the op line describes them completely
			setSrc()
			setDst()
			if lastProg == "" || rng.Chance(1, 4) {
				pl := rng.Intn(12)
				pb := make([]byte, pl)
				for i := range pb {
					pb[i] = []byte{0, 1, 2, 3, 3, 4, 4, 4, 5, 5, 6, 7, 7, 7, 9, 9, 10, 11, 11, 12, 13, 13, 14, 14, 15, 15, 15, 16, 16, 17}[rng.Intn(30)]
				}
				lastProg = hlib.Hex(pb)
			}
			prog = " " + lastProg
		}
		// model arguments
		var av []string
		argsBad := false
		for _, a := range m.Args {
			switch {
			case a.Spec == "p":
				null := false
				switch a.Name {
				case "src":
					null = srcMode == 0
				case "dst":
					null = dstMode == 0
				default:
					null = pflag == 0
				}
				if null {
					av = append(av, "p0")
					argsBad = true
				} else {
					av = append(av, "p1")
				}
			case strings.HasPrefix(a.Spec, "r"):
				av = append(av, fmt.Sprintf("n%d", c))
				var lo, hi string
				sp := strings.SplitN(a.Spec[1:], "..", 2)
				lo, hi = sp[0], sp[1]
				var v int
				if lo != "_" {
					fmt.Sscan(lo, &v)
					if c < v {
						argsBad = true
					}
				}
				if hi != "_" {
					fmt.Sscan(hi, &v)
					if c > v {
						argsBad = true
					}
				}
			default:
				av = append(av, "o")
			}
		}
		avs := "-"
		if len(av) > 0 {
			avs = strings.Join(av, "/")
		}
		cmd := fmt.Sprintf("call %s %d %d %d%s", m.Name, selfnull, c, pflag, prog)
		replay = append(replay, cmd)
		ans := p.ask(cmd)
		f := strings.Fields(ans)
		if len(f) < 7 {
			h.op(fmt.Sprintf("call %d %d %s -", mi, selfnull, avs), "harness-error:"+ans)
			h.fails = append(h.fails, hlib.Failure{Key: "crash:probe:" + m.Name, Desc: "the probe driver died (sanitizer abort / signal) in " + cmd, Replay: strings.Join(replay, "\n")})
			return h
		}
		status := f[0]
		hint := status
		if status == stBadArg {
			// no body of the probe returns "#bad argument" itself: if the model lets the body run it
			// answers `body-ran:ok`, which differs from the implementation's answer
			hint = "ok"
		}
		lastMagic = magicClass(f[1])
		if m.Name == "vm" {
			// exact prediction of the body by Model/ProbeVM.lean: buffers, pc, resume point
			var pcs, ps, scr string
			for _, fld := range f[5:] {
				switch {
				case strings.HasPrefix(fld, "pc="):
					pcs = fld
				case strings.HasPrefix(fld, "p="):
					ps = fld
				case strings.HasPrefix(fld, "scratch="):
					scr = fld
				}
			}
			if ps != "p=3" && ps != "p=4" {
				scr = "scratch=0"
			}
			h.op(fmt.Sprintf("vm %d %d %s %s %s", mi, selfnull, srcDesc, dstDesc, strings.TrimSpace(prog)),
				fmt.Sprintf("%s %s %s %s %s %s %s %s", status, magicClass(f[1]), f[2], f[3], f[4], pcs, ps, scr))
			h.count("probe:vm-exact")
		} else {
			h.op(fmt.Sprintf("call %d %d %s %s", mi, selfnull, avs, hint), fmt.Sprintf("%s %s %s", status, magicClass(f[1]), f[2]))
		}
		h.count("probe:" + m.Name + ":" + shortStatus(status))
		fmt.Fprintf(&sigb, "%d%s,%s,%s;", mi, shortStatus(status), magicClass(f[1]), f[2])
		if status != "ok" && status != "v" && status != "-" {
			h.nontriv = true
		}
		// oracle 1: the C-side I/O contract checks
		for _, fld := range f[3:] {
			if strings.HasPrefix(fld, "checks=") && fld != "checks=ok" {
				for _, nm := range strings.Split(fld[7:], ",") {
					h.fails = append(h.fails, hlib.Failure{Key: "iocontract:probe:" + m.Name + ":" + nm, Desc: "I/O buffer contract broken after " + cmd + ": " + ans, Replay: strings.Join(replay, "\n")})
				}
			}
			if strings.HasPrefix(fld, "info=") && fld != "info=-" {
				for _, nm := range strings.Split(fld[5:], ",") {
					h.count("probe:info:" + nm)
				}
			}
		}
		// oracle 2: the protocol clauses on the statuses
		if selfnull == 1 {
			if m.Out == 's' || m.Effect == 'c' {
				if status != stBadRecv {
					h.fails = append(h.fails, hlib.Failure{Key: "null-receiver:probe:" + m.Name, Desc: "NULL receiver answered " + status, Replay: strings.Join(replay, "\n")})
				}
			}
			continue
		}
		if m.Out == 's' || m.Effect == 'c' {
			if key := st.onCall(m, status, argsBad); key != "" {
				if m.Effect == 'p' && key == "disabled-not-sticky" {
					h.count("probe:observation:pure-status-method-answers-from-disabled-object")
				} else {
					h.fails = append(h.fails, hlib.Failure{Key: key + ":probe:" + m.Name, Desc: fmt.Sprintf("clause %s violated: %s returned %s", key, m.Name, status), Replay: strings.Join(replay, "\n")})
				}
			}
		}
	}
	h.sig = "probe|" + sigb.String()
	return h
}

// probeSweep: every opcode of the interpreter (alone, and after a byte was read and one written)
// against every combination of buffer shapes: ordinary, empty, data.ptr == NULL, closed, full/exhausted.
// One fresh object per case; exact prediction by the `vm` op, contract checks and crash detection as
// in the random histories.
func probeSweep(p *probeProc, probe *pkgData) []*histOut {
	ms := probe.methods
	vmIdx := -1
	for j, x := range ms {
		if x.Name == "vm" {
			vmIdx = j
		}
	}
	if vmIdx < 0 {
		return nil
	}
	type bufCase struct {
		mode           int
		hex            string
		ri, wi, closed int
	}
	srcs := []bufCase{{1, "0102030405", 1, 4, 0}, {1, "0102030405", 1, 4, 1}, {1, "0102", 2, 2, 0}, {1, "-", 0, 0, 1}, {2, "-", 0, 0, 0}}
	dsts := []bufCase{{1, "a0a1a2a3a4a5a6", 0, 3, 0}, {1, "a0a1a2a3a4a5a6", 2, 3, 1}, {1, "a0a1", 1, 2, 0}, {1, "-", 0, 0, 0}, {2, "-", 0, 0, 0}}
	var outs []*histOut
	idx := 0
	for op := 0; op <= 17; op++ {
		for _, prefix := range []string{"", "0407"} {
			for _, sc := range srcs {
				for _, dc := range dsts {
					h := &histOut{counts: map[string]int{}}
					outs = append(outs, h)
					idx++
					ans := p.ask("new 0")
					var sizeof int
					if _, err := fmt.Sscanf(ans, "ok %d", &sizeof); err != nil {
						h.op(fmt.Sprintf("reset 0 0 0 0 %s", methodDescs(ms)), "harness-error:"+ans)
						return outs
					}
					h.op(fmt.Sprintf("reset 0 %d 0 0 %s", sizeof, methodDescs(ms)), "ok")
					replay := []string{fmt.Sprintf("probe sweep case %d: new 0", idx)}
					ask := func(cmd string) string { replay = append(replay, cmd); return p.ask(cmd) }
					ini := fmt.Sprintf("init 0 %d 0 0", sizeof)
					f := strings.Fields(ask(ini))
					if len(f) != 3 {
						h.op(ini, "harness-error:init")
						continue
					}
					h.op(ini, fmt.Sprintf("%s %s %s", f[0], magicClass(f[1]), f[2]))
					ask(fmt.Sprintf("src %d %s %d %d %d", sc.mode, sc.hex, sc.ri, sc.wi, sc.closed))
					ask(fmt.Sprintf("dst %d %s %d %d %d", dc.mode, dc.hex, dc.ri, dc.wi, dc.closed))
					prog := fmt.Sprintf("%s%02x00", prefix, op)
					cmd := fmt.Sprintf("call vm 0 0 1 %s", prog)
					ans = ask(cmd)
					f = strings.Fields(ans)
					srcDesc := fmt.Sprintf("%d,%s,%d,%d,%d", sc.mode, sc.hex, sc.ri, sc.wi, sc.closed)
					dstDesc := fmt.Sprintf("%d,%s,%d,%d,%d", dc.mode, dc.hex, dc.ri, dc.wi, dc.closed)
					opline := fmt.Sprintf("vm %d 0 %s %s %s", vmIdx, srcDesc, dstDesc, prog)
					if len(f) < 7 {
						h.op(opline, "harness-error:"+ans)
						h.fails = append(h.fails, hlib.Failure{Key: "crash:probe:vm", Desc: "the probe driver died (sanitizer abort / signal) in " + cmd, Replay: strings.Join(replay, "\n")})
						p.close()
						np, err := startProbe(p.cmd.Path)
						if err != nil {
							return outs
						}
						*p = *np
						continue
					}
					var pcs, ps, scr string
					for _, fld := range f[5:] {
						switch {
						case strings.HasPrefix(fld, "pc="):
							pcs = fld
						case strings.HasPrefix(fld, "p="):
							ps = fld
						case strings.HasPrefix(fld, "scratch="):
							scr = fld
						case strings.HasPrefix(fld, "checks=") && fld != "checks=ok":
							for _, nm := range strings.Split(fld[7:], ",") {
								h.fails = append(h.fails, hlib.Failure{Key: "iocontract:probe:vm:" + nm, Desc: "I/O buffer contract broken after " + cmd + ": " + ans, Replay: strings.Join(replay, "\n")})
							}
						}
					}
					if ps != "p=3" && ps != "p=4" {
						scr = "scratch=0"
					}
					h.op(opline, fmt.Sprintf("%s %s %s %s %s %s %s %s", f[0], magicClass(f[1]), f[2], f[3], f[4], pcs, ps, scr))
					h.count("probe:sweep:" + shortStatus(f[0]))
					h.sig = fmt.Sprintf("sweep|%s|%s|%s|%s", prog, srcDesc, dstDesc, f[0])
					h.nontriv = f[0] != "ok"
				}
			}
		}
	}
	return outs
}

func shortStatus(s string) string {
	switch {
	case s == "ok" || s == "v" || s == "z" || s == "-":
		return s
	case strings.HasPrefix(s, "#base:_"):
		return "#" + s[7:]
	case strings.HasPrefix(s, "$base:_"):
		return "$" + s[7:]
	case strings.HasPrefix(s, "@base:_"):
		return "@" + s[7:]
	}
	return s
}

func runProbeHistories(r *hlib.Run, probe *pkgData, snapshot, work string) {
	bin, err := buildProbeDriver(r, probe, snapshot, work)
	if err != nil {
		r.Op("reset 0 0 0 0 -", "harness-error:probe-driver-does-not-compile")
		r.Note("probe driver: " + err.Error())
		return
	}
	// deterministic sweep first (it contains the minimised past failures, corpus/C08)
	if p, err := startProbe(bin); err == nil {
		emit(r, probeSweep(p, probe), "probe-sweep")
		p.close()
	}
	total := 1500
	if r.Thorough {
		total = 40000
	}
	workers := 8
	if r.Thorough {
		workers = 14
	}
	seeds := make([]*hlib.Rand, total)
	for i := range seeds {
		seeds[i] = r.Rand.Fork()
	}
	outs := make([]*histOut, total)
	var wg sync.WaitGroup
	for w := 0; w < workers; w++ {
		wg.Add(1)
		go func(w int) {
			defer wg.Done()
			p, err := startProbe(bin)
			if err != nil {
				return
			}
			for i := w; i < total; i += workers {
				outs[i] = probeHistory(seeds[i], p, probe, i)
				if len(outs[i].impl) > 0 && strings.HasPrefix(outs[i].impl[len(outs[i].impl)-1], "harness-error") {
					p.close()
					p, err = startProbe(bin)
					if err != nil {
						return
					}
				}
			}
			p.close()
		}(w)
	}
	wg.Wait()
	// shrink the replay of the first few failures the C side detects (contract checks, crashes)
	shrunk := 0
	for _, h := range outs {
		if h == nil {
			continue
		}
		for i := range h.fails {
			f := &h.fails[i]
			if shrunk < 5 && (strings.HasPrefix(f.Key, "iocontract:probe:") || strings.HasPrefix(f.Key, "crash:probe:")) {
				f.Replay = shrinkProbeReplay(bin, f.Key, f.Replay)
				shrunk++
			}
		}
	}
	emit(r, outs, "probe")
}

// probeReplayFails re-runs raw driver commands and says whether the failure with this key shows again
// (a crash, or the named contract check in the answer to the last command).
func probeReplayFails(bin, key string, cmds []string) bool {
	p, err := startProbe(bin)
	if err != nil {
		return false
	}
	defer p.close()
	last := ""
	for _, c := range cmds {
		last = p.ask(c)
		if last == "crash" {
			return strings.HasPrefix(key, "crash:")
		}
	}
	if strings.HasPrefix(key, "crash:") {
		return false
	}
	name := key[strings.LastIndexByte(key, ':')+1:]
	for _, fld := range strings.Fields(last) {
		if strings.HasPrefix(fld, "checks=") {
			for _, nm := range strings.Split(fld[7:], ",") {
				if nm == name {
					return true
				}
			}
		}
	}
	return false
}

// shrinkProbeReplay drops commands (greedily, to a fixpoint) while the failure stays.
func shrinkProbeReplay(bin, key, replay string) string {
	lines := strings.Split(replay, "\n")
	if len(lines) < 3 {
		return replay
	}
	head := lines[0]
	cmds := lines[1:]
	first := "new 0"
	if i := strings.LastIndex(head, ": "); i >= 0 {
		first = head[i+2:]
	}
	all := append([]string{first}, cmds...)
	if !probeReplayFails(bin, key, all) {
		return replay
	}
	for changed := true; changed; {
		changed = false
		for i := len(all) - 2; i >= 1; i-- { // keep `new …` and the failing last command
			cand := append(append([]string{}, all[:i]...), all[i+1:]...)
			if probeReplayFails(bin, key, cand) {
				all = cand
				changed = true
			}
		}
	}
	return head + " (shrunk to " + fmt.Sprint(len(all)) + " driver commands)\n" + strings.Join(all[1:], "\n")
}

var failsPerKey = map[string]int{}

func emit(r *hlib.Run, outs []*histOut, what string) {
	for _, h := range outs {
		if h == nil {
			r.Count(what + ":history-not-run")
			continue
		}
		for i := range h.ops {
			r.Op(h.ops[i], h.impl[i])
		}
		for k, v := range h.counts {
			r.CountN(k, v)
		}
		for _, f := range h.fails {
			// hlib keeps the first 200 failures of a run: no key may crowd the others out
			failsPerKey[f.Key]++
			if failsPerKey[f.Key] <= 5 {
				r.Fail(f.Key, f.Desc, f.Replay)
			} else {
				r.Count("oracle-failure-not-listed-again:" + f.Key)
			}
		}
		r.Count(what + ":histories")
		if h.nontriv && h.sig != "" {
			r.Nontrivial(h.sig)
		}
	}
}
