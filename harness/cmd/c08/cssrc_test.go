package main

import (
	"fmt"
	"os"
	"path/filepath"
	"testing"
)

func TestCSSrcDump(t *testing.T) {
	fs, _ := filepath.Glob("/repo/std/*/decode_*.wuffs")
	for _, f := range fs {
		b, _ := os.ReadFile(f)
		sh := callSeqShapes(string(b))
		if len(sh) == 0 {
			continue
		}
		codec := filepath.Base(filepath.Dir(f))
		for _, x := range sh {
			fmt.Printf("SHAPE\t%s\t%s\t%s\t%s\n", csClass(codec, x.Name), codec, x.Name, x.Shape)
		}
	}
}
