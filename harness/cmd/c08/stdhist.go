package main

// Random call histories on the std decoders through the shared C driver
// (wvh/cdrv, command `proto`: one object per command, I/O-contract checks in C
// after every call, `peek` = magic word + active_coroutine, `cs` = call_sequence).

import (
	"fmt"
	"os"
	"path/filepath"
	"regexp"
	"strconv"
	"strings"
	"sync"

	"wvh/cdrv"
	"wvh/hlib"
)

type stdCodec struct {
	name  string
	kind  byte // T io_transformer, I image_decoder, K token_decoder, h hasher
	strct string
	files []string
}

// embedsSub[codec]: the struct has a field that is an object of another package with status-returning
// methods (set by runStdHistories from the parsed source, before the workers start: webp→vp8, png→zlib,
// zlib/gzip→deflate, xz/lzip→lzma)
var embedsSub = map[string]bool{}

var stdCodecs = []stdCodec{
	{"gif", 'I', "decoder", []string{"pjw-thumbnail.gif", "hippopotamus.regular.gif", "animated-red-blue.gif", "hippopotamus.interlaced.truncated.gif", "artificial-gif/metadata-full.gif", "artificial-gif/metadata-empty.gif", "artificial-gif/no-frames.gif", "artificial-gif/multiple-loop-counts.gif"}},
	{"png", 'I', "decoder", []string{"pjw-thumbnail.png", "hippopotamus.regular.png", "animated-red-blue.apng", "red-blue-gradient.gamma2dot2.png", "red-blue-gradient.dcip3d65-no-chrm-no-gama.png", "hippopotamus.regular.truncated.png", "artificial-png/exif.png", "artificial-png/key-value-pairs.png", "artificial-png/apng-skip-idat.png"}},
	{"bmp", 'I', "decoder", []string{"pjw-thumbnail.bmp", "hippopotamus.bmp"}},
	{"wbmp", 'I', "decoder", []string{"muybridge-frame-000.wbmp"}},
	{"nie", 'I', "decoder", []string{"crude-flag.nie", "animated-red-blue.nia", "crude-flag.nia"}},
	{"jpeg", 'I', "decoder", []string{"bricks-gray.jpeg", "pjw-thumbnail.jpeg"}},
	{"qoi", 'I', "decoder", []string{"bricks-color.qoi"}},
	{"targa", 'I', "decoder", []string{"bricks-gray.tga", "bricks-nodither.tga"}},
	{"netpbm", 'I', "decoder", []string{"hippopotamus.pgm", "hippopotamus.ppm"}},
	{"webp", 'I', "decoder", []string{"pjw-thumbnail.lossless.webp", "pjw-thumbnail.lossy.webp"}},
	{"etc2", 'I', "decoder", []string{"mona-lisa.21x32.etc2.pkm", "bricks-color.etc2.pkm"}},
	{"handsum", 'I', "decoder", []string{"mona-lisa.21x32.handsum"}},
	{"thumbhash", 'I', "decoder", []string{"mona-lisa.21x32.th"}},
	{"deflate", 'T', "decoder", []string{"romeo.txt.deflate", "romeo.txt.fixed-huff.deflate"}},
	{"zlib", 'T', "decoder", []string{"romeo.txt.zlib"}},
	{"gzip", 'T', "decoder", []string{"romeo.txt.gz"}},
	{"lzw", 'T', "decoder", []string{"romeo.txt.deflate"}},
	{"bzip2", 'T', "decoder", []string{"romeo.txt.bz2", "abraca.txt.bz2"}},
	{"lzma", 'T', "decoder", []string{"romeo.txt.lzma"}},
	{"xz", 'T', "decoder", []string{"romeo.txt.xz", "romeo.txt.delta1.xz"}},
	{"lzip", 'T', "decoder", []string{"romeo.txt.lz"}},
	{"json", 'K', "decoder", []string{"json-things.unformatted.json", "rfc-6901-json-pointer.json"}},
	{"cbor", 'K', "decoder", []string{"json-things.cbor"}},
	{"adler32", 'h', "hasher", []string{"romeo.txt.deflate"}},
	{"crc32", 'h', "ieee_hasher", []string{"romeo.txt.deflate"}},
	{"crc64", 'h', "ecma_hasher", []string{"romeo.txt.deflate"}},
	{"sha256", 'h', "hasher", []string{"romeo.txt.deflate"}},
	{"xxhash32", 'h', "hasher", []string{"romeo.txt.deflate"}},
}

// what one script item means for the model
type sitem struct {
	text     string
	method   string // "" = configuration item (no model op)
	isInit   bool
	selfnull bool
	// buffer flags at the time of the call
	srcNull, dstNull, pixNull bool
}

var itemMethod = map[string]string{
	"tio": "transform_io", "dic": "decode_image_config", "dic0": "decode_image_config", "dfc": "decode_frame_config", "dfc0": "decode_frame_config",
	"df": "decode_frame", "rf": "restart_frame", "tmm": "tell_me_more", "srm": "set_report_metadata", "setq": "set_quirk", "getq": "get_quirk",
	"wlen": "workbuf_len", "hist": "dst_history_retain_length", "ndfc": "num_decoded_frame_configs", "ndf": "num_decoded_frames",
	"nal": "num_animation_loops", "fdr": "frame_dirty_rect", "dt": "decode_tokens", "up": "update",
}

var initItems = []string{"init", "init", "init", "init:1", "init:2", "init:3", "init:0:-1", "init:0:+1", "init:0:7", "init:0:ok:maj+", "init:0:ok:min+", "init:0:ok:maj-", "init:2:ok:min+", "null:init"}

func genScript(rng *hlib.Rand, c *stdCodec, inputLen int) []sitem {
	var it []sitem
	add := func(s string) { it = append(it, sitem{text: s}) }
	srcNull, dstNull, pixNull := false, false, false
	call := func(s string) {
		x := sitem{text: s, srcNull: srcNull, dstNull: dstNull, pixNull: pixNull}
		t := s
		if strings.HasPrefix(t, "null:") {
			x.selfnull = true
			t = t[5:]
		}
		name := t
		if i := strings.IndexByte(t, ':'); i >= 0 {
			name = t[:i]
		}
		if name == "init" {
			x.isInit = true
		} else {
			x.method = itemMethod[name]
		}
		it = append(it, x)
	}
	if rng.Chance(1, 4) {
		add("fill:" + []string{"aa", "01", "ff", "5a"}[rng.Intn(4)])
	}
	if rng.Chance(1, 3) {
		add("via:vtable")
	} else {
		add("via:direct")
	}
	n := rng.Range(5, 28)
	initedOnce := false
	for k := 0; k < n; k++ {
		x := rng.Intn(100)
		switch {
		case x < 14 || (k == 0 && x < 70) || (!initedOnce && x < 30):
			s := initItems[rng.Intn(len(initItems))]
			if !initedOnce && rng.Chance(1, 2) {
				s = "init"
			}
			if s == "init" || s == "init:2" {
				initedOnce = true
			}
			call(s)
		case x < 26:
			switch rng.Intn(6) {
			case 0:
				add("src:*c")
			case 1:
				add("src:*")
			case 2:
				add(fmt.Sprintf("src:%dc", rng.Intn(inputLen+1)))
			default:
				add(fmt.Sprintf("src:%d", []int{0, 1, 2, 3, 7, 16, 100, 300, 1000}[rng.Intn(9)]))
			}
		case x < 34:
			if c.kind == 'K' {
				add(fmt.Sprintf("tok:%d", []int{0, 1, 2, 8, 64, 4096}[rng.Intn(6)]))
			} else {
				cl := ""
				if rng.Chance(1, 5) {
					cl = "c"
				}
				add(fmt.Sprintf("dst:%d%s", []int{0, 1, 2, 5, 64, 1000, 70000}[rng.Intn(7)], cl))
			}
		case x < 38:
			srcNull = rng.Chance(1, 2)
			add(fmt.Sprintf("srcnull:%d", b2i(srcNull)))
		case x < 42:
			dstNull = rng.Chance(1, 2)
			add(fmt.Sprintf("dstnull:%d", b2i(dstNull)))
		case x < 45 && c.kind == 'I':
			pixNull = rng.Chance(1, 2)
			add(fmt.Sprintf("pixnull:%d", b2i(pixNull)))
		case x < 49 && c.kind != 'h':
			add("work:" + []string{"auto", "max", "min", "min-1", "null", "0", "1"}[rng.Intn(7)])
		case x < 53:
			call(fmt.Sprintf("setq:%d:%d", []uint32{0, 1, 2, 3, 0x3FF8C001, 0x3FF8C002, 1041635328, 1041635329, 1280975872, 2113790976}[rng.Intn(10)], rng.Intn(3)))
		case x < 56:
			call(fmt.Sprintf("getq:%d", []uint32{0, 1, 1041635328, 1280975872}[rng.Intn(4)]))
		default:
			pre := ""
			if rng.Chance(1, 25) {
				pre = "null:"
			}
			switch c.kind {
			case 'T':
				switch rng.Intn(8) {
				case 0:
					call(pre + "hist")
				case 1:
					call(pre + "wlen")
				default:
					call(pre + "tio")
				}
			case 'K':
				if rng.Chance(1, 8) {
					call(pre + "wlen")
				} else {
					call(pre + "dt")
				}
			case 'h':
				switch rng.Intn(3) {
				case 0:
					call(pre + fmt.Sprintf("up:%d", rng.Intn(40)))
				case 1:
					add(pre + fmt.Sprintf("upv:%d", rng.Intn(40)))
				default:
					add(pre + "sum")
				}
			case 'I':
				switch y := rng.Intn(24); {
				case y < 4:
					call(pre + []string{"dic", "dic", "dic0"}[rng.Intn(3)])
				case y < 9:
					call(pre + []string{"dfc", "dfc", "dfc0"}[rng.Intn(3)])
				case y < 14:
					call(pre + "df")
				case y < 16:
					add("pix")
				case y < 18:
					call(pre + fmt.Sprintf("rf:%d:%s", rng.Intn(3), []string{"ffio", "fcio", "0", "13", "ffio"}[rng.Intn(5)]))
				case y < 19:
					add("seek:" + []string{"ffio", "fcio", "0"}[rng.Intn(3)])
				case y < 21:
					call(pre + "tmm")
				case y < 22:
					call(pre + fmt.Sprintf("srm:%d:%d", []uint32{0x47414D41, 0x49434350, 0x4348524D, 0x584D5020, 0x4B565020, 0x53524742, 0x45584946}[rng.Intn(7)], rng.Intn(2)))
				default:
					call(pre + []string{"ndfc", "ndf", "nal", "fdr", "wlen"}[rng.Intn(5)])
				}
			}
		}
	}
	return it
}

func b2i(b bool) int {
	if b {
		return 1
	}
	return 0
}

var rePix = regexp.MustCompile(`^\d+x\d+$`)
var rePeek = regexp.MustCompile(`^m=([0-9a-f]{8})_co=(\d+)$`)

// stdHistory runs one script and turns the answer into op lines + oracle verdicts.
// slot: token indexes of one script item (and of the peek / cs that follow a call)
type slot struct{ item, peek, cs int }

// buildScript turns items into the proto script: `peek` (+ `cs`) at the start and after every call item.
func buildScript(c *stdCodec, items []sitem) (script []string, slots []slot, fill int) {
	isImg := c.kind == 'I'
	slots = make([]slot, len(items))
	tok := 0
	push := func(s string) int { script = append(script, s); tok++; return tok - 1 }
	push("peek")
	if isImg {
		push("cs")
	}
	for i, x := range items {
		slots[i] = slot{item: push(x.text), peek: -1, cs: -1}
		if strings.HasPrefix(x.text, "fill:") {
			v, _ := strconv.ParseUint(x.text[5:], 16, 8)
			fill = int(v)
			slots[i].peek = push("peek")
			if isImg {
				slots[i].cs = push("cs")
			}
		}
		if x.isInit || x.method != "" {
			slots[i].peek = push("peek")
			if isImg {
				slots[i].cs = push("cs")
			}
		}
	}
	return
}

// stdHistory runs one script and turns the answer into op lines + oracle verdicts.
func stdHistory(rng *hlib.Rand, d *cdrv.Driver, c *stdCodec, ms []*methodInfo, sizeof int, input []byte, idx int) *histOut {
	h := &histOut{counts: map[string]int{}}
	var items []sitem
	if c.kind == 'I' && rng.Chance(2, 3) {
		items = genGuided(rng, d, c, input)
		h.count("std:guided-image-histories")
	} else {
		items = genScript(rng, c, len(input))
	}
	isImg := c.kind == 'I'
	script, slots, fill := buildScript(c, items)
	tok := len(script)
	cmd := "proto " + c.name + " " + strings.Join(script, ";") + " " + hlib.Hex(input)
	replay := fmt.Sprintf("std history %d (send to the cdrv driver, plain-gcc):\n%s", idx, cmd)
	line, err := d.Run(cmd)
	if err != nil {
		kind := "crash"
		if ce, ok := err.(*cdrv.CrashError); ok {
			kind = ce.Kind()
		}
		h.op(fmt.Sprintf("reset 0 %d 0 0 %s", sizeof, methodDescs(ms)), "harness-error:driver-"+kind)
		h.fails = append(h.fails, hlib.Failure{Key: "crash:" + c.name + ":" + kind, Desc: "the compiled " + c.name + " object crashed the driver (" + kind + ") during a call history", Replay: replay})
		return h
	}
	f := strings.Fields(line)
	if len(f) < 2 || f[0] != "ok" {
		h.op(fmt.Sprintf("reset 0 %d 0 0 %s", sizeof, methodDescs(ms)), "harness-error:"+firstN(line, 200))
		return h
	}
	toks := strings.Split(f[1], ";")
	if len(toks) != tok {
		h.op(fmt.Sprintf("reset 0 %d 0 0 %s", sizeof, methodDescs(ms)), fmt.Sprintf("harness-error:token-count-%d-vs-%d", len(toks), tok))
		return h
	}
	// a `fill:` item comes first if at all: the model is reset with that fill
	h.op(fmt.Sprintf("reset %d %d 0 0 %s", fill, sizeof, methodDescs(ms)), "ok")
	st := protoState{}
	cs := -1
	if isImg {
		cs = parseCS(toks[1])
	}
	active, magic := 0, "zero"
	if m := rePeek.FindStringSubmatch(toks[0]); m != nil {
		active, _ = strconv.Atoi(m[2])
		magic = magicClass(m[1])
	}
	haveDst, pixOK := false, false
	var sigb strings.Builder
	cfgDone, metaPending := false, false
	redirected := false // bmp answered "@I/O redirect": a state the document does not describe
	for i, x := range items {
		tk := toks[slots[i].item]
		name := x.text
		if strings.HasPrefix(name, "null:") {
			name = name[5:]
		}
		if j := strings.IndexByte(name, ':'); j >= 0 {
			name = name[:j]
		}
		switch name {
		case "dst":
			haveDst = true
		case "pix":
			pixOK = rePix.MatchString(tk)
		case "fill":
			if m := rePeek.FindStringSubmatch(toks[slots[i].peek]); m != nil {
				active, _ = strconv.Atoi(m[2])
				magic = magicClass(m[1])
			}
		}
		if !x.isInit && x.method == "" {
			continue
		}
		pk := rePeek.FindStringSubmatch(toks[slots[i].peek])
		if pk == nil {
			h.op("call 0 0 - -", "harness-error:no-peek:"+toks[slots[i].peek])
			return h
		}
		activeBefore, magicBefore := active, magic
		active, _ = strconv.Atoi(pk[2])
		magic = magicClass(pk[1])
		csBefore := cs
		if isImg {
			cs = parseCS(toks[slots[i].cs])
		}
		status, checks := splitToken(tk)
		for _, nm := range checks {
			h.fails = append(h.fails, hlib.Failure{Key: "iocontract:" + c.name + ":" + nm, Desc: fmt.Sprintf("I/O buffer contract check %s failed after item %d (%s) → %s", nm, i, x.text, tk), Replay: replay})
		}
		if x.isInit {
			szArg, ver, opts := initArgs(x.text, sizeof)
			h.op(fmt.Sprintf("init %d %d %s %d", b2i(x.selfnull), szArg, ver, opts), fmt.Sprintf("%s %s %s", status, magicClass(pk[1]), pk[2]))
			h.count("std:init:" + shortStatus(status))
			want := ""
			switch {
			case x.selfnull:
				want = stBadRecv
			case szArg != sizeof:
				want = stBadSizeof
			case ver != "0":
				want = stBadVersion
			}
			if want != "" && status != want {
				h.fails = append(h.fails, hlib.Failure{Key: "init-rejects:" + c.name, Desc: fmt.Sprintf("%s returned %s, want %s", x.text, status, want), Replay: replay})
			}
			if want == "" && status != "ok" && status != stFalsely {
				h.fails = append(h.fails, hlib.Failure{Key: "init-rejects:" + c.name + ":valid-rejected", Desc: fmt.Sprintf("%s returned %s", x.text, status), Replay: replay})
			}
			st.onInit(status)
			if status == "ok" {
				cfgDone, metaPending = false, false
				redirected = false
			}
			if status != "ok" {
				h.nontriv = true
			}
			fmt.Fprintf(&sigb, "I%s,%s,%s;", shortStatus(status), magicClass(pk[1]), pk[2])
			continue
		}
		// a method call
		mi := -1
		for j, m := range ms {
			if m.Name == x.method {
				mi = j
			}
		}
		if mi < 0 {
			h.count("std:method-not-in-source:" + x.method)
			continue
		}
		m := ms[mi]
		var av []string
		argsBad := false
		for _, a := range m.Args {
			if a.Spec != "p" {
				if strings.HasPrefix(a.Spec, "r") {
					av = append(av, "n0")
				} else {
					av = append(av, "o")
				}
				continue
			}
			null := false
			switch a.Name {
			case "src":
				null = x.srcNull
			case "dst":
				switch name {
				case "df":
					null = x.pixNull || !pixOK
				case "dt":
					null = x.dstNull
				default:
					null = x.dstNull || !haveDst
				}
			}
			if null {
				av = append(av, "p0")
				argsBad = true
			} else {
				av = append(av, "p1")
			}
		}
		avs := "-"
		if len(av) > 0 {
			avs = strings.Join(av, "/")
		}
		returnsStatus := m.Out == 's' || m.Effect == 'c'
		hint, implStatus := "-", "-"
		if returnsStatus {
			hint, implStatus = status, status
		}
		// Did the OUTER protocol layer let this call through? A coroutine of an object that embeds
		// sub-objects can return a protocol status that a SUB-object's protocol layer produced (std/webp
		// calling vp8.decode_frame? while vp8.decode_image_config? is suspended). The outer object's own
		// words tell the two apart: the outer prologue rejects only if magic != MAGIC, an argument is bad
		// or another coroutine is active, and then returns early: `interleaved` leaves active_coroutine
		// as it was (non-zero), `disabled`/`not initialised` leave the magic word as it was; an error from
		// the body goes through the epilogue: magic = DISABLED, active_coroutine = 0.
		innerBody := false
		if returnsStatus && !x.selfnull && embedsSub[c.name] && m.Effect == 'c' && !argsBad &&
			(status == stInterleaved || status == stDisabled || status == stNotInit) &&
			magicBefore == "magic" && (activeBefore == 0 || activeBefore == m.CoroID) &&
			magic == "disabled" && active == 0 {
			innerBody = true
			hint = "inner:" + status
			h.count("std:" + c.name + ":" + x.method + ":sub-object-protocol-status-from-body")
		}
		h.op(fmt.Sprintf("call %d %d %s %s", mi, b2i(x.selfnull), avs, hint), fmt.Sprintf("%s %s %s", implStatus, magicClass(pk[1]), pk[2]))
		h.count("std:" + c.name + ":" + x.method + ":" + shortStatus(implStatus))
		fmt.Fprintf(&sigb, "%d%s,%s,%s;", mi, shortStatus(implStatus), magicClass(pk[1]), pk[2])
		if returnsStatus && status != "ok" {
			h.nontriv = true
		}
		if !returnsStatus {
			continue
		}
		if x.selfnull {
			if status != stBadRecv {
				h.fails = append(h.fails, hlib.Failure{Key: "null-receiver:" + c.name + ":" + x.method, Desc: "NULL receiver answered " + status, Replay: replay})
			}
			continue
		}
		wasUsable := st.inited && !st.poisoned
		resumed := m.Effect == 'c' && activeBefore != 0 && activeBefore == m.CoroID
		otherSuspended := activeBefore != 0 && !resumed
		if key := st.onCall(m, status, argsBad); key != "" {
			h.fails = append(h.fails, hlib.Failure{Key: key + ":" + c.name + ":" + x.method, Desc: fmt.Sprintf("clause %s violated at item %d: %s returned %s", key, i, x.text, status), Replay: replay})
		}
		// call_sequence: only calls whose body ran (not rejected by the protocol prologue)
		prologue := ((status == stNotInit || status == stDisabled || status == stInterleaved) && !innerBody) || (argsBad && status == stBadArg)
		var meth string
		switch x.method {
		case "decode_image_config":
			meth = "dic"
		case "decode_frame_config":
			meth = "dfc"
		case "decode_frame":
			meth = "df"
		case "tell_me_more":
			meth = "tmm"
		case "restart_frame":
			meth = "rf"
		}
		if !isImg || meth == "" || prologue || !wasUsable || csBefore < 0 || cs < 0 {
			continue
		}
		cls := "err"
		switch {
		case status == "#base:_bad_call_sequence":
			cls = "bcs"
		case status == "ok":
			cls = "ok"
		case status == "@base:_end_of_data":
			cls = "eod"
		case status == "@base:_metadata_reported":
			cls = "meta"
		case strings.HasPrefix(status, "$"):
			cls = "susp"
		}
		{
			// the automaton of Model/CallSeq.lean (op `cseq`)
			class := csClass(c.name, "")
			if c.name == "webp" {
				// a lossy WebP is handed to the embedded vp8 decoder, whose own call_sequence moves while
				// the outer one stays at 0x20: only the document's rules below apply
				class = "delegating"
			} else {
				impl := fmt.Sprintf("allowed %d", cs)
				if cls == "bcs" && cs == csBefore && !resumed {
					impl = "rejected"
				}
				h.op(fmt.Sprintf("cseq %s %d %s %d %s %d", class, csBefore, meth, b2i(resumed), cls, cs), impl)
			}
			h.count(fmt.Sprintf("cseq:%s:%s:%02x->%s", class, meth, csBefore, cls))
			// the document's rules, from the history of answers alone
			if !resumed && !otherSuspended && !redirected {
				out := false
				switch meth {
				case "dic":
					out = cfgDone || metaPending
				case "tmm":
					out = !metaPending
				case "rf":
					out = !cfgDone
				case "dfc", "df":
					out = metaPending
				}
				if out && cls != "bcs" {
					key := "callseq:" + c.name + ":" + meth + "-out-of-order-not-rejected"
					if meth == "tmm" && status == "#base:_no_more_information" && c.name != "gif" && c.name != "png" {
						// rejected (an error, the object is disabled), but not with the status the document names:
						// the finding repaired by fixes/C08-tmm-bad-call-sequence.patch (KNOWN_FINDINGS.txt: fixed)
						key = "callseq:tmm-without-metadata:no-more-information"
					}
					h.fails = append(h.fails, hlib.Failure{Key: key, Desc: fmt.Sprintf("%s item %d: %s is out of order here (config decoded: %v, metadata pending: %v) but returned %s", c.name, i, x.text, cfgDone, metaPending, status), Replay: replay})
				}
				if !out && cls == "bcs" {
					h.fails = append(h.fails, hlib.Failure{Key: "callseq:" + c.name + ":" + meth + "-in-order-rejected", Desc: fmt.Sprintf("item %d: %s is in order here (config decoded: %v, metadata pending: %v) but returned bad call sequence", i, x.text, cfgDone, metaPending), Replay: replay})
				}
			}
		}
		// track the document-level state
		if status == "@base:_I/O_redirect" {
			redirected = true
		}
		switch {
		case cls == "meta":
			metaPending = true
		case meth == "tmm" && cls == "ok":
			metaPending = false
		case meth == "rf" && cls == "ok":
			metaPending = false
		}
		if (meth == "dic" || meth == "dfc" || meth == "df") && (cls == "ok" || cls == "eod") {
			cfgDone = true
		}
		if meth != "rf" && (cls == "susp" || (cls == "err" && false)) {
			// a suspended decode call may already have passed the image configuration: the document-level
			// state is unknown until it completes; rules are skipped while something is suspended.
		}
	}
	h.sig = c.name + "|" + sigb.String()
	return h
}

func firstN(s string, n int) string {
	if len(s) > n {
		return s[:n]
	}
	return s
}

func parseCS(t string) int {
	if !strings.HasPrefix(t, "cs=") || t == "cs=-" {
		return -1
	}
	v, err := strconv.Atoi(t[3:])
	if err != nil {
		return -1
	}
	return v
}

// splitToken: "<status>[!check…][/r…][/w…]" → status, failed checks
func splitToken(t string) (string, []string) {
	head := t
	if i := strings.IndexByte(t, '/'); i >= 0 {
		head = t[:i]
	}
	parts := strings.Split(head, "!")
	return parts[0], parts[1:]
}

// initArgs mirrors the `init[:flags[:size[:version]]]` item of the driver.
func initArgs(text string, sizeof int) (sz int, ver string, opts int) {
	t := strings.TrimPrefix(text, "null:")
	a := strings.Split(t, ":")
	sz, ver, opts = sizeof, "0", 0
	if len(a) >= 2 {
		v, _ := strconv.ParseUint(a[1], 16, 32)
		opts = int(v)
	}
	if len(a) >= 3 {
		switch a[2] {
		case "ok":
		case "-1":
			sz = sizeof - 1
		case "+1":
			sz = sizeof + 1
		default:
			sz, _ = strconv.Atoi(a[2])
		}
	}
	if len(a) >= 4 {
		switch a[3] {
		case "ok":
		case "maj+":
			ver = "4294967296"
		case "maj-":
			ver = "18446744069414584320"
		case "min+":
			ver = "65536"
		default:
			ver = a[3]
		}
	}
	return
}

func runStdHistories(r *hlib.Run, std []*pkgData) {
	d, err := cdrv.Build(r.Repo, cdrv.PlainGcc)
	if err != nil {
		r.Op("reset 0 0 0 0 -", "harness-error:shared-c-driver-does-not-build")
		r.Note("cdrv.Build: " + err.Error())
		return
	}
	defer d.Close()
	byName := map[string]*pkgData{}
	for _, p := range std {
		byName[p.name] = p
	}
	perCodec := 60
	if r.Thorough {
		perCodec = 600
	}
	type job struct {
		c      *stdCodec
		ms     []*methodInfo
		sizeof int
		input  []byte
		rng    *hlib.Rand
	}
	var jobs []job
	for ci := range stdCodecs {
		c := &stdCodecs[ci]
		p := byName[c.name]
		if p == nil {
			r.Count("std:codec-not-in-tree:" + c.name)
			continue
		}
		var ms []*methodInfo
		for _, m := range p.methods {
			if m.Recv == c.strct {
				ms = append(ms, m)
			}
		}
		for _, sub := range subObjects[c.name+"."+c.strct] {
			j := strings.IndexByte(sub, '.')
			if sp := byName[sub[:j]]; sp != nil {
				for _, m := range sp.methods {
					if m.Recv == sub[j+1:] && (m.Effect == 'c' || m.Out == 's') {
						embedsSub[c.name] = true
					}
				}
			}
		}
		if embedsSub[c.name] {
			r.Count("std:codecs-embedding-sub-objects")
		}
		line, err := d.Run("sizeof " + c.name)
		var sizeof int
		if err != nil {
			r.Count("std:codec-not-in-driver:" + c.name)
			continue
		}
		if _, e := fmt.Sscanf(line, "ok %d", &sizeof); e != nil {
			r.Count("std:codec-not-in-driver:" + c.name)
			continue
		}
		var inputs [][]byte
		for _, fn := range c.files {
			b, err := os.ReadFile(filepath.Join(r.Repo, "test", "data", fn))
			if err != nil {
				r.Count("std:missing-test-file")
				continue
			}
			inputs = append(inputs, b)
		}
		if len(inputs) == 0 {
			inputs = append(inputs, []byte("no test data"))
		}
		n := perCodec
		if c.kind == 'I' && (c.name == "gif" || c.name == "png") {
			n *= 4
		} else if c.kind == 'I' && csClass(c.name, "") == "still" {
			n = n * 2 / 3 // eleven decoders share one call_sequence text
		}
		for k := 0; k < n; k++ {
			rng := r.Rand.Fork()
			in := inputs[rng.Intn(len(inputs))]
			if rng.Chance(1, 5) && len(in) > 4 {
				// malformed stream: flip or cut
				in = append([]byte(nil), in...)
				if rng.Bool() {
					in = in[:rng.Intn(len(in))]
				} else {
					for t := 0; t < 3; t++ {
						in[rng.Intn(len(in))] ^= byte(1 << rng.Intn(8))
					}
				}
			}
			jobs = append(jobs, job{c, ms, sizeof, in, rng})
		}
	}
	outs := make([]*histOut, len(jobs))
	workers := 8
	if r.Thorough {
		workers = 14
	}
	var wg sync.WaitGroup
	for w := 0; w < workers; w++ {
		wg.Add(1)
		go func(w int) {
			defer wg.Done()
			dw := d.Spawn()
			defer dw.Close()
			for i := w; i < len(jobs); i += workers {
				j := jobs[i]
				outs[i] = stdHistory(j.rng, dw, j.c, j.ms, j.sizeof, j.input, i)
			}
		}(w)
	}
	wg.Wait()
	emit(r, outs, "std")
}
