package main

// Guided call histories for image decoders. A random script poisons the object
// with its first out-of-order coroutine call, so the deeper call_sequence states
// (metadata pending 0x10 / 0x30, restarted 0x28, frame decoded, end of data) are
// hardly ever reached. Here the script is grown one item at a time: the prefix
// is run on the compiled decoder, `call_sequence`, the magic word and the last
// status are read back, and the next item is mostly the call the canonical
// sequence allows in that state (resuming a suspended call after feeding more
// input), sometimes an out-of-order call, another coroutine while one is
// suspended, a restart, or a re-initialisation after the object was disabled.
// The finished script is then run and judged like any other history.

import (
	"fmt"
	"strconv"
	"strings"

	"wvh/cdrv"
	"wvh/hlib"
)

type scout struct {
	status    string
	cs        int
	magic     string
	active    int
	srcRi     int
	ok        bool
	lastIsPix bool
}

// probeScript runs the items so far and reads back the state after the last item.
func probeScript(d *cdrv.Driver, c *stdCodec, items []sitem, input []byte) scout {
	script, slots, _ := buildScript(c, items)
	script = append(script, "peek", "cs")
	line, err := d.Run("proto " + c.name + " " + strings.Join(script, ";") + " " + hlib.Hex(input))
	if err != nil {
		return scout{}
	}
	f := strings.Fields(line)
	if len(f) < 2 || f[0] != "ok" {
		return scout{}
	}
	toks := strings.Split(f[1], ";")
	if len(toks) != len(script) {
		return scout{}
	}
	s := scout{ok: true, cs: parseCS(toks[len(toks)-1])}
	if m := rePeek.FindStringSubmatch(toks[len(toks)-2]); m != nil {
		s.magic = magicClass(m[1])
		s.active, _ = strconv.Atoi(m[2])
	}
	// the last call item's status
	for i := len(items) - 1; i >= 0; i-- {
		if items[i].isInit || items[i].method != "" {
			tk := toks[slots[i].item]
			s.status, _ = splitToken(tk)
			if j := strings.Index(tk, "/r"); j >= 0 {
				rest := tk[j+2:]
				if k := strings.IndexByte(rest, '/'); k >= 0 {
					rest = rest[:k]
				}
				s.srcRi, _ = strconv.Atoi(rest)
			}
			break
		}
	}
	return s
}

var guidedFourccs = map[string][]uint32{
	"gif": {0x49434350, 0x584D5020},
	"png": {0x47414D41, 0x49434350, 0x4348524D, 0x584D5020, 0x4B565020, 0x53524742, 0x45584946},
}

func genGuided(rng *hlib.Rand, d *cdrv.Driver, c *stdCodec, input []byte) []sitem {
	var it []sitem
	add := func(s string) { it = append(it, sitem{text: s}) }
	call := func(s string) {
		x := sitem{text: s}
		name := s
		if i := strings.IndexByte(s, ':'); i >= 0 {
			name = s[:i]
		}
		if name == "init" {
			x.isInit = true
		} else {
			x.method = itemMethod[name]
		}
		it = append(it, x)
	}
	if rng.Chance(1, 3) {
		add("via:vtable")
	} else {
		add("via:direct")
	}
	setup := func() {
		call([]string{"init", "init", "init:2"}[rng.Intn(3)])
		for _, fc := range guidedFourccs[c.name] {
			if rng.Chance(3, 5) {
				call(fmt.Sprintf("srm:%d:1", fc))
			}
		}
	}
	setup()
	add("dst:4096")
	add("work:auto")
	chunked := rng.Chance(1, 2)
	feed := func() {
		if chunked {
			add(fmt.Sprintf("src:%d", []int{1, 2, 7, 16, 64, 300, 1000, 5000}[rng.Intn(8)]))
		} else if rng.Chance(1, 2) {
			add("src:*c")
		} else {
			add("src:*")
		}
	}
	feed()
	coros := []string{"dic", "dfc", "df", "tmm"}
	last := "" // the last coroutine item called
	havePix := false
	steps := rng.Range(6, 26)
	for k := 0; k < steps; k++ {
		s := probeScript(d, c, it, input)
		if !s.ok {
			break
		}
		if s.magic != "magic" {
			// disabled (or never initialised): a few more calls to see the error stick, or start over
			if rng.Chance(1, 2) {
				add("seek:0")
				setup()
				feed()
				havePix = false
				last = ""
				continue
			}
			for t := rng.Range(1, 3); t > 0; t-- {
				call([]string{"dic", "dfc", "df", "tmm", "rf:0:ffio", "ndfc", "wlen"}[rng.Intn(7)])
			}
			break
		}
		if strings.HasPrefix(s.status, "$") && last != "" {
			// a suspended coroutine: usually feed and resume, sometimes call another one
			if s.status == "$base:_short_read" {
				feed()
			} else if s.status == "$base:_short_write" {
				add("dst:4096")
			}
			if rng.Chance(1, 8) {
				o := coros[rng.Intn(4)]
				call(o)
				last = o
			} else {
				call(last)
			}
			continue
		}
		// nothing suspended: pick by call_sequence
		var inOrder, outOrder []string
		cs := s.cs
		switch {
		case cs < 0:
			inOrder = []string{"dic", "dfc", "df"}
		case cs&0x10 != 0:
			// metadata pending: only tell_me_more is in order; restart_frame is the one out-of-order
			// call that does not disable the object (it is not a coroutine), so it is tried often
			inOrder = []string{"tmm", "tmm", "tmm"}
			outOrder = []string{"rf:0:ffio", "rf:0:13", "rf:1:13", "rf:0:ffio", "dic", "dfc", "df"}
			if rng.Chance(1, 4) {
				inOrder = outOrder[:4]
			}
		case cs == 0:
			inOrder = []string{"dic", "dic", "dic", "dic0", "dfc", "df"}
			outOrder = []string{"tmm", "rf:0:ffio", "rf:1:13"}
		case cs == 0x20:
			inOrder = []string{"dfc", "dfc", "dfc", "dfc0", "df", "rf:0:ffio"}
			outOrder = []string{"dic", "tmm"}
		case cs == 0x28:
			inOrder = []string{"dfc", "dfc", "df", "rf:0:ffio"}
			outOrder = []string{"dic", "tmm"}
		case cs == 0x40:
			inOrder = []string{"df", "df", "df", "dfc", "rf:0:ffio", "rf:0:fcio"}
			outOrder = []string{"dic", "tmm"}
		default:
			inOrder = []string{"dfc", "df", "rf:0:ffio", "rf:0:ffio"}
			outOrder = []string{"dic", "tmm"}
		}
		pick := inOrder[rng.Intn(len(inOrder))]
		if len(outOrder) > 0 && rng.Chance(1, 6) {
			pick = outOrder[rng.Intn(len(outOrder))]
		}
		switch {
		case strings.HasPrefix(pick, "rf"):
			call(pick)
			// an accepted restart is followed by repositioning the source (sometimes to the wrong place or
			// not at all: `#bad restart`)
			if pos := strings.SplitN(pick, ":", 3)[2]; cs >= 0x20 && cs&0x10 == 0 && rng.Chance(5, 6) {
				if n, err := strconv.Atoi(pos); err != nil || n <= len(input) {
					add("seek:" + pos)
				}
				feed()
			}
			last = ""
		case pick == "df":
			if !havePix && cs >= 0x20 && rng.Chance(5, 6) {
				add("pix")
				havePix = true
			}
			call(pick)
			last = "df"
		default:
			call(pick)
			last = strings.TrimSuffix(pick, "0")
			if last == "dic" && !havePix && rng.Chance(1, 2) {
				// the pixel buffer needs a decoded image config; try again later if this one did not complete
				ps := probeScript(d, c, it, input)
				if ps.ok && ps.status == "ok" {
					add("pix")
					havePix = true
				}
			}
		}
		if rng.Chance(1, 10) {
			call([]string{"ndfc", "ndf", "nal", "fdr", "wlen"}[rng.Intn(5)])
		}
	}
	return it
}
