package main

// The probe package: one struct with every kind of public method the protocol
// templates distinguish (pure / impure / coroutine × status / value / nothing ×
// no / refined / pointer / io arguments × with and without suspension points),
// bodies that return ok / note / suspension / error on command, and a small
// bytecode interpreter `vm?` over the built-in reader/writer methods,
// `io_limit` and a private helper that is handed both buffers. Compiled from the working tree's wuffs-c on every run.

const probeWuffs = `pub status "#probe error"
pub status "@probe note"
pub status "$probe suspension"

pub struct thing?(
        x  : base.u32,
        n  : base.u32,
        pc : base.u64,
)

pub func thing.get_x() base.u32 {
    return this.x ~mod+ 1
}

pub func thing.get_st() base.status {
    if this.x == 1 {
        return "#probe error"
    }
    return ok
}

pub func thing.set_x!(x: base.u32) {
    this.x = args.x
}

pub func thing.set_r!(r: base.u32[..= 8]) {
    this.x = args.r
}

pub func thing.set_b!(b: base.u32[3 ..= 8]) {
    this.x = args.b
}

pub func thing.set_rs!(r: base.u32[..= 8]) base.status {
    if args.r == 1 {
        return "#probe error"
    }
    this.x = args.r
    return ok
}

pub func thing.set_p!(p: ptr base.image_config) {
    this.x = 7
}

pub func thing.set_np!(p: nptr base.image_config) {
    this.x = 8
}

pub func thing.cmd!(c: base.u32) base.status {
    var st : base.status
    this.n ~mod+= 1
    if args.c == 1 {
        return "#probe error"
    } else if args.c == 2 {
        return "@probe note"
    } else if args.c == 5 {
        st = "$probe suspension"
        return st
    }
    return ok
}

pub func thing.co_a?(c: base.u32, src: base.io_reader) {
    var b  : base.u8
    var st : base.status
    this.n ~mod+= 1
    if args.c == 1 {
        return "#probe error"
    } else if args.c == 2 {
        return "@probe note"
    } else if args.c == 3 {
        yield? "$probe suspension"
    } else if args.c == 5 {
        st = "$probe suspension"
        return st
    } else if args.c == 6 {
        yield? "@probe note"
    }
    b = args.src.read_u8?()
    if b == 1 {
        return "#probe error"
    }
}

pub func thing.co_b?(c: base.u32[..= 100], dst: base.io_writer, src: base.io_reader) {
    var b : base.u8
    b = args.src.read_u8?()
    args.dst.write_u8?(a: b)
    if args.c == 1 {
        return "#probe error"
    }
}

pub func thing.co_c?(c: base.u32) {
    if args.c == 1 {
        return "#probe error"
    } else if args.c == 2 {
        return "@probe note"
    }
}

pub func thing.vm?(dst: base.io_writer, src: base.io_reader, prog: roslice base.u8) {
    var op : base.u8
    var b  : base.u8
    var n  : base.u32
    var k  : base.u32
    var l1 : base.u64
    var l2 : base.u64
    var l3 : base.u64

    l1 = 1
    l2 = 2
    l3 = 3
    while true {
        if this.pc >= args.prog.length() {
            break
        }
        op = args.prog[this.pc]
        this.pc ~mod+= 1
        if op == 0 {
            break
        } else if op == 1 {
            return "#probe error"
        } else if op == 2 {
            return "@probe note"
        } else if op == 3 {
            yield? "$probe suspension"
        } else if op == 4 {
            b = args.src.read_u8?()
            this.x = b as base.u32
        } else if op == 5 {
            args.src.skip_u32?(n: 3)
        } else if op == 6 {
            if args.src.can_undo_byte() {
                args.src.undo_byte!()
            }
        } else if op == 7 {
            args.dst.write_u8?(a: 0xA7)
        } else if op == 9 {
            n = args.dst.limited_copy_u32_from_history!(up_to: 5, distance: 2)
        } else if op == 10 {
            if args.dst.can_undo_byte() {
                args.dst.undo_byte!()
            }
        } else if op == 11 {
            io_limit (io: args.src, limit: l2) {
                k = args.dst.limited_copy_u32_from_reader!(up_to: 4, r: args.src)
            }
        } else if op == 12 {
            io_limit (io: args.src, limit: l1) {
                if args.src.length() >= 1 {
                    args.src.skip_u32_fast!(actual: 1, worst_case: 1)
                }
            }
            return "#probe error"
        } else if op == 13 {
            io_limit (io: args.dst, limit: l3) {
                k = args.dst.limited_copy_u32_from_reader!(up_to: 8, r: args.src)
            }
        } else if op == 14 {
            k = args.dst.limited_copy_u32_from_reader!(up_to: 3, r: args.src)
        } else if op == 15 {
            k = this.helper!(dst: args.dst, src: args.src)
        } else if op == 16 {
            io_limit (io: args.src, limit: l1) {
                k = this.helper!(dst: args.dst, src: args.src)
            }
        }
    }
    this.pc = 0
}

pri func thing.helper!(dst: base.io_writer, src: base.io_reader) base.u32 {
    var n : base.u32
    n = args.dst.limited_copy_u32_from_reader!(up_to: 2, r: args.src)
    return n
}
`

// probeVariants: further packages for the template tie only (never compiled by
// a C compiler: some shapes the generator emits for them are not valid C, which
// is C11's subject). They cover method kinds std/ does not have.
const probeTmplOnly = `pub status "#probe error"

pub struct widget?(
        x : base.u32,
)

pub func widget.pure_refined(r: base.u32[..= 8]) base.u32 {
    return args.r
}

pub func widget.impure_status_refined!(r: base.u32[1 ..= 8]) base.status {
    this.x = args.r
    return ok
}

pub func widget.impure_status_io!(src: base.io_reader) base.status {
    if args.src.length() < 1 {
        return "#probe error"
    }
    args.src.skip_u32_fast!(actual: 1, worst_case: 1)
    return ok
}

pub func widget.impure_void_io!(dst: base.io_writer) {
    if args.dst.length() >= 1 {
        args.dst.write_u8_fast!(a: 1)
    }
}

pub func widget.impure_value_io!(src: base.io_reader) base.u32 {
    if args.src.length() >= 1 {
        args.src.skip_u32_fast!(actual: 1, worst_case: 1)
        return 1
    }
    return 0
}

pub func widget.co_unused_io?(src: base.io_reader) {
    this.x = 1
}

pub func widget.co_token?(dst: base.token_writer, src: base.io_reader) {
    var c : base.u8
    c = args.src.read_u8?()
    this.x = c as base.u32
}

pub func widget.co_second?(a: base.u8[..= 7], b: base.i32[-5 ..= 5], p: ptr base.pixel_buffer, q: nptr base.frame_config) {
    yield? base."$short read"
}
`

const probeDriverC = `// probe driver for C08: line protocol over one wuffs_probe__thing (see probe.go / main.go).
#include <inttypes.h>
#include <stdio.h>
#include <stdlib.h>
#include <string.h>

typedef struct {
  int mode;  // 0 NULL pointer, 1 valid, 2 buffer with NULL data.ptr
  wuffs_base__io_buffer buf;
  uint8_t* mem;   // exact-size block
  size_t cap;
  uint8_t* snap;
  wuffs_base__io_buffer before;
} iobuf;

static uint8_t* obj = NULL;
static size_t objsize = 0;
static iobuf S, D;

static int hexv(int c) {
  if (c >= '0' && c <= '9') return c - '0';
  if (c >= 'a' && c <= 'f') return c - 'a' + 10;
  return -1;
}
static size_t unhex(const char* s, uint8_t** out) {
  if (!strcmp(s, "-")) { *out = (uint8_t*)malloc(1); return 0; }
  size_t n = strlen(s) / 2;
  uint8_t* p = (uint8_t*)malloc(n ? n : 1);
  for (size_t i = 0; i < n; i++) p[i] = (uint8_t)(hexv(s[2 * i]) * 16 + hexv(s[2 * i + 1]));
  *out = p;
  return n;
}
static void puthex(const uint8_t* p, size_t n) {
  if (!n) { fputs("-", stdout); return; }
  for (size_t i = 0; i < n; i++) printf("%02x", p[i]);
}
static void putstatus(const char* r) {
  if (!r) { fputs("ok", stdout); return; }
  for (; *r; r++) putchar(*r == ' ' ? '_' : *r);
}
static void setbuf_(iobuf* b, int mode, const char* hex, size_t ri, size_t wi, int closed) {
  free(b->mem); free(b->snap);
  b->mem = NULL; b->snap = NULL; b->cap = 0;
  b->mode = mode;
  memset(&b->buf, 0, sizeof b->buf);
  if (mode == 1) {
    b->cap = unhex(hex, &b->mem);
    b->snap = (uint8_t*)malloc(b->cap ? b->cap : 1);
    b->buf.data.ptr = b->mem;
    b->buf.data.len = b->cap;
    b->buf.meta.ri = ri;
    b->buf.meta.wi = wi;
    b->buf.meta.closed = closed != 0;
  } else if (mode == 2) {
    b->buf.meta.closed = closed != 0;
  }
}
static wuffs_base__io_buffer* bufptr(iobuf* b) { return b->mode == 0 ? NULL : &b->buf; }
static void before(iobuf* b) {
  b->before = b->buf;
  if (b->mode == 1 && b->cap) memcpy(b->snap, b->mem, b->cap);
}
static void putbuf(const char* name, iobuf* b, int withmem) {
  printf(" %s=%d,%zu,%zu,%zu,%d", name, b->mode, b->buf.meta.ri, b->buf.meta.wi, b->buf.data.len, (int)b->buf.meta.closed);
  if (withmem) { putchar(','); puthex(b->mem, b->mode == 1 ? b->cap : 0); }
}
#define ADD(list, name) do { if (*(list)) strcat(list, ","); strcat(list, name); } while (0)
static void check(iobuf* b, int writer, char* bad, char* info) {
  if (b->mode == 0) return;
  const char* p = writer ? "dst" : "src";
  char nm[64];
  if (!(b->buf.meta.ri <= b->buf.meta.wi && b->buf.meta.wi <= b->buf.data.len)) { snprintf(nm, sizeof nm, "%s_index_order", p); ADD(bad, nm); }
  if (b->buf.data.ptr != b->before.data.ptr) { snprintf(nm, sizeof nm, "%s_ptr_changed", p); ADD(bad, nm); }
  if (b->buf.data.len > b->cap) { snprintf(nm, sizeof nm, "%s_len_grew", p); ADD(bad, nm); }
  if (!writer) {
    if (b->buf.meta.ri < b->before.meta.ri) ADD(bad, "src_ri_back");
    if (b->mode == 1 && b->cap && memcmp(b->snap, b->mem, b->cap)) ADD(bad, "src_bytes_changed");
    if (b->buf.meta.wi != b->before.meta.wi) ADD(info, "src_wi_moved");
    if (b->buf.data.len != b->before.data.len) ADD(info, "src_len_changed");
    if (b->buf.meta.closed != b->before.meta.closed) ADD(info, "src_closed_changed");
  } else {
    if (b->buf.meta.wi < b->before.meta.wi) ADD(bad, "dst_wi_back");
    size_t h = b->before.meta.wi <= b->cap ? b->before.meta.wi : b->cap;
    if (b->mode == 1 && h && memcmp(b->snap, b->mem, h)) ADD(bad, "dst_history_changed");
    if (b->buf.meta.ri != b->before.meta.ri) ADD(info, "dst_ri_moved");
    if (b->buf.data.len != b->before.data.len) ADD(info, "dst_len_changed");
    if (b->buf.meta.closed != b->before.meta.closed) ADD(info, "dst_closed_changed");
  }
  if (b->buf.meta.pos != b->before.meta.pos) { snprintf(nm, sizeof nm, "%s_pos_changed", p); ADD(info, nm); }
}
static void putobj(void) {
  uint32_t m[2] = {0, 0};
  if (obj) memcpy(m, obj, 8);
  printf(" %08" PRIx32 " %" PRIu32, m[0], m[1]);
}

int main(void) {
  char* line = NULL;
  size_t cap = 0;
  static wuffs_base__image_config ic;
  memset(&S, 0, sizeof S);
  memset(&D, 0, sizeof D);
  while (getline(&line, &cap, stdin) > 0) {
    char* f[8];
    int nf = 0;
    for (char* t = strtok(line, " \n"); t && nf < 8; t = strtok(NULL, " \n")) f[nf++] = t;
    if (nf == 0) { puts("bad-op"); fflush(stdout); continue; }
    if (!strcmp(f[0], "new") && nf == 2) {
      free(obj);
      objsize = sizeof__wuffs_probe__thing();
      obj = (uint8_t*)malloc(objsize);
      memset(obj, (int)strtoul(f[1], NULL, 10), objsize);
      printf("ok %zu\n", objsize);
    } else if (!strcmp(f[0], "init") && nf == 5) {
      wuffs_probe__thing* self = atoi(f[1]) ? NULL : (wuffs_probe__thing*)obj;
      wuffs_base__status s = wuffs_probe__thing__initialize(self, (size_t)strtoull(f[2], NULL, 10), strtoull(f[3], NULL, 10), (uint32_t)strtoul(f[4], NULL, 10));
      putstatus(s.repr);
      putobj();
      putchar('\n');
    } else if ((!strcmp(f[0], "src") || !strcmp(f[0], "dst")) && nf == 6) {
      setbuf_(f[0][0] == 's' ? &S : &D, atoi(f[1]), f[2], (size_t)strtoull(f[3], NULL, 10), (size_t)strtoull(f[4], NULL, 10), atoi(f[5]));
      puts("ok");
    } else if (!strcmp(f[0], "call") && nf >= 5) {
      const char* nm = f[1];
      wuffs_probe__thing* self = atoi(f[2]) ? NULL : (wuffs_probe__thing*)obj;
      uint32_t c = (uint32_t)strtoul(f[3], NULL, 10);
      int pflag = atoi(f[4]);
      wuffs_base__status s;
      int kind = 0;  // 0 status, 1 value, 2 void
      uint32_t val = 0;
      int usesS = 0, usesD = 0;
      uint8_t* prog = NULL;
      size_t proglen = 0;
      s.repr = NULL;
      before(&S);
      before(&D);
      if (!strcmp(nm, "get_x")) { kind = 1; val = wuffs_probe__thing__get_x(self); }
      else if (!strcmp(nm, "get_st")) { s = wuffs_probe__thing__get_st(self); }
      else if (!strcmp(nm, "set_x")) { kind = 2; wuffs_probe__thing__set_x(self, c); }
      else if (!strcmp(nm, "set_r")) { kind = 2; wuffs_probe__thing__set_r(self, c); }
      else if (!strcmp(nm, "set_b")) { kind = 2; wuffs_probe__thing__set_b(self, c); }
      else if (!strcmp(nm, "set_rs")) { s = wuffs_probe__thing__set_rs(self, c); }
      else if (!strcmp(nm, "set_p")) { kind = 2; wuffs_probe__thing__set_p(self, pflag ? &ic : NULL); }
      else if (!strcmp(nm, "set_np")) { kind = 2; wuffs_probe__thing__set_np(self, pflag ? &ic : NULL); }
      else if (!strcmp(nm, "cmd")) { s = wuffs_probe__thing__cmd(self, c); }
      else if (!strcmp(nm, "co_a")) { usesS = 1; s = wuffs_probe__thing__co_a(self, c, bufptr(&S)); }
      else if (!strcmp(nm, "co_b")) { usesS = usesD = 1; s = wuffs_probe__thing__co_b(self, c, bufptr(&D), bufptr(&S)); }
      else if (!strcmp(nm, "co_c")) { s = wuffs_probe__thing__co_c(self, c); }
      else if (!strcmp(nm, "vm") && nf == 6) {
        usesS = usesD = 1;
        proglen = unhex(f[5], &prog);
        s = wuffs_probe__thing__vm(self, bufptr(&D), bufptr(&S), wuffs_base__make_slice_u8(prog, proglen));
        free(prog);
      } else { puts("bad-op"); fflush(stdout); continue; }
      if (kind == 0) putstatus(s.repr);
      else if (kind == 1) fputs(val ? "v" : "z", stdout);
      else fputs("-", stdout);
      putobj();
      char bad[512] = "", info[512] = "";
      if (usesS) check(&S, 0, bad, info);
      if (usesD) check(&D, 1, bad, info);
      putbuf("src", &S, 0);
      putbuf("dst", &D, 1);
      printf(" checks=%s info=%s", *bad ? bad : "ok", *info ? info : "-");
      if (obj) {
        wuffs_probe__thing* t = (wuffs_probe__thing*)obj;
        printf(" pc=%" PRIu64 " p=%" PRIu32 " scratch=%" PRIu64, t->private_impl.f_pc, t->private_impl.p_vm, t->private_data.s_vm.scratch);
      }
      putchar('\n');
    } else {
      puts("bad-op");
    }
    fflush(stdout);
  }
  return 0;
}
`
