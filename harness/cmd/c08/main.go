// Harness for C08: generated objects enforce their call protocol and the I/O
// buffer contract. See /verif/DESIGN.md §2 C08 and lean/Driver/C08.lean for the ops.
//
//  1. template tie (`tmpl`, `tmplinit`): for two probe packages and every public
//     method of every std/ package, the protocol code wuffs-c (built from the
//     working tree) emits is reduced to a feature vector and compared with the
//     vector the Lean model predicts from the method kind.
//  2. probe histories: random call histories on a compiled probe object
//     (`reset`/`init`/`call`, `vm`): status, magic word and active_coroutine
//     after every call vs the model's `step`; the property's clauses evaluated
//     by this program on the C answers (oracle); I/O contract checked in C.
//  3. std histories: the same through the shared driver (wvh/cdrv, `proto`) on
//     the std decoders, plus the call_sequence automaton (`cseq`) on gif and png.
package main

import (
	"fmt"
	"os"
	"path/filepath"
	"sort"
	"strings"
	"time"

	"wvh/cdrv"
	"wvh/hlib"
)

type pkgData struct {
	name    string
	methods []*methodInfo
	csrc    string
}

func main() {
	r := hlib.Start("C08")
	defer cdrv.Cleanup()
	t0 := time.Now()

	snapshot, scratch, err := cdrv.Snapshot(r.Repo)
	if err != nil {
		fmt.Fprintln(os.Stderr, "c08:", err)
		r.Op("tmplinit", "harness-error:regenerating-std-failed")
		r.Note("cdrv.Snapshot failed: " + err.Error())
		r.Finish("nothing ran: the working tree's std/ could not be regenerated")
		return
	}
	binDir := filepath.Join(filepath.Dir(scratch), "bin")
	r.Extra("gen_std_s", time.Since(t0).Seconds())
	work, cleanup := hlib.NewScratchDir("c08")
	defer cleanup()

	// ---- 1. template tie
	probe := genProbe(r, binDir, work, "probe", probeWuffs)
	widget := genProbe(r, binDir, work, "widget", probeTmplOnly)
	var pkgs []*pkgData
	if probe != nil {
		pkgs = append(pkgs, probe)
	}
	if widget != nil {
		pkgs = append(pkgs, widget)
	}
	std := loadStd(r, scratch)
	pkgs = append(pkgs, std...)
	for _, p := range pkgs {
		templateTie(r, p)
	}
	callSeqTie(r, scratch)
	r.Extra("tie_done_s", time.Since(t0).Seconds())

	// ---- 2. probe histories
	if probe != nil {
		runProbeHistories(r, probe, snapshot, work)
	}

	r.Extra("probe_done_s", time.Since(t0).Seconds())

	// ---- 2b. the two known contract breaks (jumps out of / into io blocks)
	runQuirkScenarios(r, binDir, snapshot, work)

	// ---- 3. std histories (C08_ONLY=probe skips them: a development aid, never set by ./check)
	if os.Getenv("C08_ONLY") != "probe" {
		runStdHistories(r, std)
	}

	r.Extra("wall_total_s", time.Since(t0).Seconds())
	r.Finish("templates: every public method with a receiver of the probe packages and of std/ (distinct = distinct feature vectors); " +
		"histories: random call sequences (initialize variants incl. wrong size/version/flags and NULL self, every public method with valid / NULL / " +
		"out-of-refinement arguments, NULL / empty / undersized / closed buffers, error then call, suspend then other coroutine, re-initialise and reuse, " +
		"calls before initialize on zeroed or garbage memory); a history is non-trivial if at least one call returned something other than ok; " +
		"distinct = distinct (object kind, sequence of (method, status class, magic class, active)) signatures")
}

// genProbe writes a probe package, runs the working tree's wuffs-c on it and loads its methods.
func genProbe(r *hlib.Run, binDir, work, name, src string) *pkgData {
	dir := filepath.Join(work, name)
	os.MkdirAll(dir, 0o755)
	wf := filepath.Join(dir, name+".wuffs")
	if err := os.WriteFile(wf, []byte(src), 0o644); err != nil {
		r.Note(err.Error())
		return nil
	}
	c, e, err := hlib.GenPkg(filepath.Join(binDir, "wuffs-c"), name, wf)
	if err != nil {
		r.Op("tmplinit", "harness-error:wuffs-c-failed-on-"+name)
		r.Note(fmt.Sprintf("wuffs-c gen %s: %v %s", name, err, e))
		return nil
	}
	ms, err := loadPackage(name, []string{wf}, "")
	if err != nil {
		r.Op("tmplinit", "harness-error:parse-failed-on-"+name)
		r.Note(fmt.Sprintf("parse %s: %v", name, err))
		return nil
	}
	return &pkgData{name: name, methods: ms, csrc: string(c)}
}

func loadStd(r *hlib.Run, scratch string) []*pkgData {
	var out []*pkgData
	es, _ := os.ReadDir(filepath.Join(scratch, "std"))
	var names []string
	for _, e := range es {
		if e.IsDir() {
			names = append(names, e.Name())
		}
	}
	sort.Strings(names)
	for _, n := range names {
		files := wuffsFilesIn(filepath.Join(scratch, "std", n))
		if len(files) == 0 {
			continue
		}
		c, err := os.ReadFile(filepath.Join(scratch, "gen", "c", "wuffs-std-"+n+".c"))
		if err != nil {
			r.Count("std-pkg-without-generated-c")
			continue
		}
		ms, err := loadPackage(n, files, scratch)
		if err != nil {
			r.Op("tmplinit", "harness-error:parse-failed-on-std/"+n)
			r.Note(fmt.Sprintf("parse std/%s: %v", n, err))
			continue
		}
		out = append(out, &pkgData{name: n, methods: ms, csrc: string(c)})
	}
	return out
}

// callSeqTie: the call_sequence statements of every image decoder's source vs the text the
// automaton of Model/CallSeq.lean was written from (see cssrc.go).
func callSeqTie(r *hlib.Run, scratch string) {
	es, _ := os.ReadDir(filepath.Join(scratch, "std"))
	var names []string
	for _, e := range es {
		if e.IsDir() {
			names = append(names, e.Name())
		}
	}
	sort.Strings(names)
	for _, n := range names {
		var all []csFunc
		for _, f := range wuffsFilesIn(filepath.Join(scratch, "std", n)) {
			b, err := os.ReadFile(f)
			if err != nil {
				continue
			}
			all = append(all, callSeqShapes(string(b))...)
		}
		if len(all) == 0 {
			continue
		}
		var fns []string
		for _, x := range all {
			fns = append(fns, x.Name)
			r.Op(fmt.Sprintf("cssrc %s %s %s", csClass(n, x.Name), n, x.Name), x.Shape)
			r.Count("cssrc:functions")
			r.Nontrivial("cssrc|" + x.Shape)
		}
		sort.Strings(fns)
		r.Op(fmt.Sprintf("cssrc %s %s *", csClass(n, "*"), n), strings.Join(fns, ","))
		r.Count("cssrc:decoders")
	}
}

func templateTie(r *hlib.Run, p *pkgData) {
	chunks := funcChunks(p.csrc, p.name)
	structs := map[string]bool{}
	for _, m := range p.methods {
		if !structs[m.Recv] {
			structs[m.Recv] = true
			if s, ok := initShapeOfC(p.csrc, p.name, m.Recv); ok {
				r.Op("tmplinit", s)
				r.Count("tmpl:initializer")
			} else {
				r.Op("tmplinit", "initializer-not-found:"+p.name+"."+m.Recv)
			}
		}
		chunk, ok := chunks[m.Recv+"."+m.Name]
		if !ok {
			r.Count("tmpl:no-c-for-method")
			continue
		}
		shape, ok := shapeOfC(chunk, m)
		if !ok {
			r.Count("tmpl:skipped-choosy-or-cpu-arch")
			continue
		}
		m.HaveC = true
		dv := "-"
		if len(m.Derived) > 0 {
			dv = strings.Join(m.Derived, ",")
		}
		sp, ber := 0, 0
		if m.SuspPoints {
			sp = 1
		}
		if m.BodyEndsWithReturn {
			ber = 1
		}
		eb := 0
		if m.EmptyBody {
			eb = 1
		}
		op := fmt.Sprintf("tmpl %c %c %d %s %d %d %d %s", m.Effect, m.Out, m.CoroID, dv, sp, ber, eb, m.namedArgSpecs())
		r.Op(op, shape)
		r.Count(fmt.Sprintf("tmpl:kind:%c%c", m.Effect, m.Out))
		if strings.Contains(shape, "args:") && !strings.Contains(shape, "args:none") {
			r.Count("tmpl:with-arg-checks")
		}
		if len(m.Derived) > 0 {
			r.Count("tmpl:with-derived-io-vars")
		}
		r.Nontrivial("tmpl|" + shape)
		r.Sample(p.name + "." + m.Recv + "." + m.Name + " -> " + shape)
	}
}

// ---- shared by the two history runners

func magicClass(hex string) string {
	switch strings.ToLower(hex) {
	case "00000000":
		return "zero"
	case "3ccb6c71":
		return "magic"
	case "075ae3d2":
		return "disabled"
	}
	return "other"
}

// protoState is the property's own reading of a history, from the statuses alone
// (independent of the Lean model): which clause applies to the next call.
type protoState struct {
	inited    bool   // an initialize returned ok since the memory was made
	poisoned  bool   // a coroutine call returned an error since then
	suspended string // the coroutine that returned a suspension last (and has not completed since)
}

const (
	stNotInit     = "#base:_initialize_not_called"
	stDisabled    = "#base:_disabled_by_previous_error"
	stInterleaved = "#base:_interleaved_coroutine_calls"
	stBadArg      = "#base:_bad_argument"
	stBadRecv     = "#base:_bad_receiver"
	stBadSizeof   = "#base:_bad_sizeof_receiver"
	stBadVersion  = "#base:_bad_wuffs_version"
	stFalsely     = "#base:_initialize_falsely_claimed_already_zeroed"
)

func (p *protoState) onInit(status string) {
	if status == "ok" {
		*p = protoState{inited: true}
	}
}

// onCall checks the clauses for one status-returning method call on a non-null
// receiver and returns a failure key ("" if fine).
func (p *protoState) onCall(m *methodInfo, status string, argsBad bool) string {
	isErr := strings.HasPrefix(status, "#")
	key := ""
	switch {
	case !p.inited:
		if status != stNotInit {
			key = "not-initialized"
		}
		return key
	case p.poisoned:
		if m.Effect != 'p' && status != stDisabled {
			key = "disabled-not-sticky"
		}
		return key
	}
	if m.Effect == 'c' {
		if p.suspended != "" && p.suspended != m.Name {
			// a different coroutine while one is suspended: must fail (interleaved; bad argument is
			// checked first) and disable
			if !(status == stInterleaved || (argsBad && status == stBadArg)) && status != stDisabled {
				key = "interleave-not-rejected"
			}
		}
		if argsBad && status != stBadArg && status != stDisabled && status != stInterleaved {
			key = "bad-argument-accepted"
		}
		if isErr {
			p.poisoned = true
			p.suspended = ""
		} else if strings.HasPrefix(status, "$") {
			p.suspended = m.Name
		} else if p.suspended == m.Name || p.suspended == "" {
			p.suspended = ""
		}
	}
	return key
}
