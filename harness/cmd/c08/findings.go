package main

// Two scenarios in which a coroutine jump leaves or re-enters an io_limit /
// io_forget_history block (findings/C08/README.txt): a `return` inside
// io_forget_history(args.dst) and a suspension inside io_limit(args.src). Until
// fixes/C08-check-io-block-escapes.patch the compiler accepted both programs and the
// generated objects broke the I/O buffer contract; lang/check now rejects them. Each
// program is offered to the working tree's compiler on its own (so that either rule of
// the checker is exercised alone): if it is rejected there is nothing to run; if it is
// accepted it is compiled and run, and the caller's buffer must satisfy the contract
// afterwards (the keys are those of the former known findings, now `fixed:`).

import (
	"fmt"
	"os"
	"path/filepath"
	"regexp"
	"strconv"
	"strings"
	"time"

	"wvh/hlib"
)

// the block contains nothing but the return: only the rule about rets applies
const quirkForgetWuffs = `pub status "#quirk error"

pub struct thing?(
        x : base.u32,
)

pub func thing.ret_in_forget?(dst: base.io_writer, c: base.u32) {
    args.dst.write_u8?(a: 0x11)
    args.dst.write_u8?(a: 0x22)
    io_forget_history (io: args.dst) {
        if args.c == 1 {
            return "#quirk error"
        }
    }
}
`

// the block contains a coroutine call that is not written `status =? …`
const quirkLimitWuffs = `pub struct thing?(
        x : base.u32,
)

pub func thing.susp_in_limit?(src: base.io_reader) {
    var b  : base.u8
    var l4 : base.u64
    l4 = 4
    io_limit (io: args.src, limit: l4) {
        b = args.src.read_u8?()
        this.x = b as base.u32
    }
    b = args.src.read_u8?()
    this.x ~mod+= b as base.u32
}
`

const quirkDriverHead = `
#include <stdio.h>
static void __attribute__((noinline)) paint(void) {
  volatile uint8_t buf[8192];
  for (size_t i = 0; i < sizeof buf; i++) buf[i] = 0xAB;
}
static void show(const char* tag, wuffs_base__status s, wuffs_base__io_buffer* b, uint8_t* mem) {
  printf("%s status=", tag);
  for (const char* r = s.repr ? s.repr : "ok"; *r; r++) putchar(*r == ' ' ? '_' : *r);
  printf(" ptr_off=%ld len=%zu ri=%zu wi=%zu pos=%llu\n", (long)(b->data.ptr - mem), b->data.len, b->meta.ri, b->meta.wi,
         (unsigned long long)b->meta.pos);
}
`

const quirkForgetMain = `
int main(void) {
  wuffs_quirkf__thing t;
  wuffs_base__status s;
  s = wuffs_quirkf__thing__initialize(&t, sizeof t, WUFFS_VERSION, 0);
  uint8_t mem[16] = {1, 2, 3, 4, 5, 6, 7, 8, 9, 10, 11, 12, 13, 14, 15, 16};
  wuffs_base__io_buffer d = wuffs_base__ptr_u8__writer(mem, 16);
  d.meta.wi = 5;
  show("forget-before", s, &d, mem);
  s = wuffs_quirkf__thing__ret_in_forget(&t, &d, 1);
  show("forget-after", s, &d, mem);
  (void)paint;
  return 0;
}
`

const quirkLimitMain = `
int main(void) {
  wuffs_quirkl__thing t;
  wuffs_base__status s;
  s = wuffs_quirkl__thing__initialize(&t, sizeof t, WUFFS_VERSION, 0);
  uint8_t smem[8] = {7, 7, 7, 7, 7, 7, 7, 7};
  wuffs_base__io_buffer b = wuffs_base__ptr_u8__reader(smem, 8, false);
  b.meta.wi = 0;
  s = wuffs_quirkl__thing__susp_in_limit(&t, &b);
  show("limit-suspended", s, &b, smem);
  b.meta.wi = 3;
  show("limit-before-resume", s, &b, smem);
  paint();
  s = wuffs_quirkl__thing__susp_in_limit(&t, &b);
  show("limit-after-resume", s, &b, smem);
  return 0;
}
`

var reShow = regexp.MustCompile(`^(\S+) status=(\S+) ptr_off=(-?\d+) len=(\d+) ri=(\d+) wi=(\d+) pos=(\d+)$`)

func runQuirkScenarios(r *hlib.Run, binDir, snapshot, work string) {
	dir := filepath.Join(work, "quirk")
	os.MkdirAll(dir, 0o755)
	vals := map[string][]int64{}
	outs := ""
	for _, q := range []struct{ pkg, module, wuffs, main string }{
		{"quirkf", "QUIRKF", quirkForgetWuffs, quirkForgetMain},
		{"quirkl", "QUIRKL", quirkLimitWuffs, quirkLimitMain},
	} {
		wf := filepath.Join(dir, q.pkg+".wuffs")
		os.WriteFile(wf, []byte(q.wuffs), 0o644)
		c, e, err := hlib.GenPkg(filepath.Join(binDir, "wuffs-c"), q.pkg, wf)
		if err != nil {
			// lang/check rejects leaving / re-entering an io block: nothing to run
			r.Count("quirk:" + q.pkg + ":rejected-by-the-compiler")
			r.Note(q.pkg + ".wuffs rejected by the working tree's compiler: " + firstLine(string(e)))
			continue
		}
		r.Count("quirk:" + q.pkg + ":accepted-by-the-compiler")
		gen := strings.Replace(string(c), "#include \"./wuffs-base.c\"", "", 1)
		src := "#define WUFFS_IMPLEMENTATION\n#define WUFFS_CONFIG__MODULES\n#define WUFFS_CONFIG__MODULE__BASE__CORE\n#define WUFFS_CONFIG__MODULE__" + q.module + "\n" +
			"#include \"" + snapshot + "\"\n" + gen + "\n" + quirkDriverHead + q.main
		cfile := filepath.Join(dir, q.pkg+"_drv.c")
		os.WriteFile(cfile, []byte(src), 0o644)
		bin := filepath.Join(dir, q.pkg+"_drv")
		if err := hlib.CC("gcc", "-O0", "-w", "-o", bin, cfile); err != nil {
			r.Count("quirk:driver-does-not-compile")
			r.Note("quirk driver " + q.pkg + ": " + firstLine(err.Error()))
			continue
		}
		o, _, err := hlib.RunCmd(60*time.Second, dir, nil, nil, bin)
		out := string(o)
		outs += out
		if err != nil {
			r.Fail("iocontract:quirk:driver-crashed", "the quirk scenario "+q.pkg+" crashed: "+err.Error(),
				"findings/C08/quirk.wuffs + findings/C08/quirk_driver.c (gcc -O0); output:\n"+out)
			continue
		}
		r.Count("quirk:scenarios-run")
		for _, l := range strings.Split(out, "\n") {
			if m := reShow.FindStringSubmatch(strings.TrimSpace(l)); m != nil {
				var v []int64
				for _, s := range m[3:] {
					x, err := strconv.ParseInt(s, 10, 64)
					if err != nil {
						x = 1 << 62 // does not fit: certainly beyond len
					}
					v = append(v, x)
				}
				vals[m[1]] = v // ptr_off len ri wi pos
			}
		}
	}
	if outs == "" {
		return
	}
	replay := "findings/C08/quirk.wuffs + findings/C08/quirk_driver.c (gcc -O0); output:\n" + outs
	r.Extra("quirk_output", outs)
	if b, a := vals["forget-before"], vals["forget-after"]; b != nil && a != nil {
		if a[0] != b[0] || a[3] < b[3] || !(a[2] <= a[3] && a[3] <= a[1]) {
			r.Fail("iocontract:quirk:return-inside-io_forget_history",
				fmt.Sprintf("the compiler accepts a `return` inside io_forget_history(args.dst), and the generated code hands the caller's destination buffer back with data.ptr moved by %d, len %d→%d and wi %d→%d (write index moved backwards)", a[0]-b[0], b[1], a[1], b[3], a[3]), replay)
		}
	}
	if b, a := vals["limit-before-resume"], vals["limit-after-resume"]; b != nil && a != nil {
		if !(a[2] <= a[3] && a[3] <= a[1]) || a[2] < b[2] || a[0] != b[0] {
			r.Fail("iocontract:quirk:suspension-inside-io_limit",
				fmt.Sprintf("the compiler accepts a suspending call inside io_limit(args.src); resuming it jumps past the block's saved variables and the caller's source buffer comes back with ri=%d wi=%d len=%d (ri <= wi <= len broken)", a[2], a[3], a[1]), replay)
		}
	}
}
