package main

// Control skeleton of an emitted C function body — the tie of the statement
// lowering model (lean/WuffsVerif/Model/CStmt.lean `lowerL`, the subject of
// Props/C04Stmt.lean stmt_lowering_correct) to the working tree's cgen.
//
// The package is translated a second time with `-genlinenum` (the same C, plus
// a `// file.wuffs:N` comment in front of the code of every statement; this is
// checked): the method body starts at the first such comment, behind the
// prologue (receiver / magic / argument checks, variable declarations) that
// func.go writes.  Every C statement of the body becomes one token:
//
//	W{ … }   while (…) {          D{ … }   do { … } while (0);
//	I{ … }E{ … }  /  }EI{         if / else / else if
//	B  C     break; continue;     G:k:b  G:k:c   goto label__X__break / __continue
//	L:k:b  L:k:c   label__X__…:;  R  return …;    A   any other statement
//
// where k numbers the label names in order of first appearance.  The Lean
// driver prints the same for `lowerL` applied to the method's AST (op `skel`).

import (
	"regexp"
	"strings"
	"time"

	"wvh/hlib"
)

var reLineComment = regexp.MustCompile(`^\s*// \S+\.wuffs:\d+$`)
var reGoto = regexp.MustCompile(`^goto label__(.+)__(break|continue);$`)
var reLabel = regexp.MustCompile(`^label__(.+)__(break|continue):;$`)

// genWithLineNumbers runs wuffs-c gen -genlinenum.
func genWithLineNumbers(wuffsC, pkg, file string) (string, error) {
	o, _, err := hlib.RunCmd(2*time.Minute, "", nil, nil, wuffsC, "gen", "-package_name", pkg, "-genlinenum", file)
	return string(o), err
}

// stripLineComments removes the `// file.wuffs:N` lines, and the lines of the
// `-Wconversion` pragma dance around a small-integer op-assign: cgen merges
// two adjacent dances (buffer.undoWrites) only when nothing was written in
// between, which a line comment is.
func stripLineComments(csrc string) string {
	var b strings.Builder
	for _, l := range strings.SplitAfter(csrc, "\n") {
		t := strings.TrimSpace(l)
		if reLineComment.MatchString(strings.TrimRight(l, "\n")) {
			continue
		}
		switch t {
		case "#if defined(__GNUC__)", "#pragma GCC diagnostic push", "#pragma GCC diagnostic ignored \"-Wconversion\"",
			"#pragma GCC diagnostic pop", "#endif":
			continue
		}
		b.WriteString(l)
	}
	return b.String()
}

// cSkeleton returns the skeleton of the body of the definition of function fn
// in csrc (generated with -genlinenum).
func cSkeleton(csrc, fn string) string {
	body, ok := cFuncBody(csrc, fn)
	if !ok {
		return "no-such-function"
	}
	lines := strings.Split(body, "\n")
	start := -1
	// a coroutine: the statements are those between the `case 0:` of the resume
	// switch (WUFFS_BASE__COROUTINE_SUSPENSION_POINT_0) and the last `goto ok;`
	// (what follows stores the suspension point and the live variables — the
	// subject of C09 / C10, not of the statement lowering)
	coro := false
	for i, l := range lines {
		if strings.TrimSpace(l) == "WUFFS_BASE__COROUTINE_SUSPENSION_POINT_0;" {
			coro = true
			start = i + 1
			end := -1
			for k := len(lines) - 1; k > i; k-- {
				if strings.TrimSpace(lines[k]) == "goto ok;" {
					end = k
					break
				}
			}
			if end < 0 {
				return "coroutine-without-goto-ok"
			}
			lines = lines[:end]
			break
		}
	}
	for i, l := range lines {
		if coro {
			break
		}
		if reLineComment.MatchString(l) {
			start = i
			break
		}
	}
	if start < 0 {
		// no statement at all: only the epilogue can follow the prologue
		start = len(lines)
		for i := len(lines) - 1; i >= 0; i-- {
			if t := strings.TrimSpace(lines[i]); t != "" {
				if strings.HasPrefix(t, "return ") && !strings.HasPrefix(lines[i], "    ") {
					start = i
				}
				break
			}
		}
	}
	var toks []string
	names := map[string]int{}
	num := func(n string) int {
		if k, ok := names[n]; ok {
			return k
		}
		names[n] = len(names)
		return names[n]
	}
	cur := ""
	for _, l := range lines[start:] {
		t := strings.TrimSpace(l)
		if t == "" || strings.HasPrefix(t, "//") || strings.HasPrefix(t, "#") {
			continue
		}
		if cur == "" {
			cur = t
		} else {
			cur += " " + t
		}
		if !(strings.HasSuffix(cur, "{") || strings.HasSuffix(cur, ";") || cur == "}") {
			continue // a statement that is wrapped over several lines
		}
		s := cur
		cur = ""
		switch {
		case s == "}" || s == "} while (0);":
			toks = append(toks, "}")
		case strings.HasPrefix(s, "} else if ("):
			toks = append(toks, "}EI{")
		case s == "} else {":
			toks = append(toks, "}E{")
		case strings.HasPrefix(s, "while ("):
			toks = append(toks, "W{")
		case s == "do {":
			toks = append(toks, "D{")
		case strings.HasPrefix(s, "if ("):
			toks = append(toks, "I{")
		case s == "break;":
			toks = append(toks, "B")
		case s == "continue;":
			toks = append(toks, "C")
		case s == "{":
			toks = append(toks, "{")
		case strings.HasPrefix(s, "return ") || s == "return;":
			toks = append(toks, "R")
		case strings.HasPrefix(s, "WUFFS_BASE__COROUTINE_SUSPENSION_POINT("):
			toks = append(toks, "P")
		case s == "goto suspend;":
			toks = append(toks, "G:s")
		case s == "goto ok;":
			toks = append(toks, "G:ok")
		case s == "goto exit;":
			toks = append(toks, "G:x")
		default:
			if m := reGoto.FindStringSubmatch(s); m != nil {
				toks = append(toks, "G:"+itoa(num(m[1]))+":"+m[2][:1])
			} else if m := reLabel.FindStringSubmatch(s); m != nil {
				toks = append(toks, "L:"+itoa(num(m[1]))+":"+m[2][:1])
			} else if strings.HasPrefix(s, "goto ") {
				toks = append(toks, "G?")
			} else {
				toks = append(toks, "A")
			}
		}
	}
	if cur != "" {
		toks = append(toks, "unterminated:"+slug(cur))
	}
	if coro {
		toks = append(toks, "END")
	}
	if len(toks) == 0 {
		return "-"
	}
	return strings.Join(toks, " ")
}

func itoa(n int) string {
	if n == 0 {
		return "0"
	}
	s := ""
	for n > 0 {
		s = string(rune('0'+n%10)) + s
		n /= 10
	}
	return s
}
