package main

// I/O coroutines: programs whose public coroutine `parse?` takes a
// base.io_reader (and possibly a base.io_writer) and uses the SUSPENDING
// built-ins — io_reader.read_u8? … read_u64le? (every row of cgen's
// readMethods), skip?, skip_u32?, io_writer.write_u8? — in sequences, loops,
// branches and private sub-coroutines.
//
// The language defines what such a coroutine means independently of how the
// input arrives: when an I/O argument runs out, the call returns a suspension
// ("$short read" / "$short write") and the next call goes on from there.  So
// every program is driven over EVERY split point of a short input (the first k
// bytes, then all of it), byte by byte, and in a few three-piece splits (and
// the destination's room grows in steps as well); each call gets a freshly
// allocated, exactly-sized buffer, so that ASan sees any access beyond what
// the call was given.
//
//   - oracle on the implementation (no model involved): the calls that end an
//     activation, and the last call, report the same status, the same number
//     of consumed input bytes, the same output bytes and the same receiver
//     fields whatever the split was (key io-split-diff…); no sanitizer report;
//   - reference: every call is also interpreted by the Lean reference
//     semantics of the source (Model/WSem.lean, ops `iocall`), from the AST of
//     the real front end (key io-ref-diff…);
//   - tie of the modelled C templates: the control skeleton of the C emitted
//     for every coroutine (suspension points included) == what
//     Model/CStmt.lean + Model/CCoro.lean write (op `skel`).

import (
	"fmt"
	"os"
	"sort"
	"strings"

	"wvh/hlib"
)

type ioRead struct {
	name string
	n    int  // bytes taken from the stream
	bits int  // width of the result type
	be   bool // big-endian
}

// every suspending read of lang/builtin/builtin.go (= cgen's readMethods table)
var ioReads = []ioRead{
	{"read_u8", 1, 8, true},
	{"read_u8_as_u16", 1, 16, true},
	{"read_u16be", 2, 16, true},
	{"read_u16le", 2, 16, false},
	{"read_u8_as_u32", 1, 32, true},
	{"read_u16be_as_u32", 2, 32, true},
	{"read_u16le_as_u32", 2, 32, false},
	{"read_u24be_as_u32", 3, 32, true},
	{"read_u24le_as_u32", 3, 32, false},
	{"read_u32be", 4, 32, true},
	{"read_u32le", 4, 32, false},
	{"read_u8_as_u64", 1, 64, true},
	{"read_u16be_as_u64", 2, 64, true},
	{"read_u16le_as_u64", 2, 64, false},
	{"read_u24be_as_u64", 3, 64, true},
	{"read_u24le_as_u64", 3, 64, false},
	{"read_u32be_as_u64", 4, 64, true},
	{"read_u32le_as_u64", 4, 64, false},
	{"read_u40be_as_u64", 5, 64, true},
	{"read_u40le_as_u64", 5, 64, false},
	{"read_u48be_as_u64", 6, 64, true},
	{"read_u48le_as_u64", 6, 64, false},
	{"read_u56be_as_u64", 7, 64, true},
	{"read_u56le_as_u64", 7, 64, false},
	{"read_u64be", 8, 64, true},
	{"read_u64le", 8, 64, false},
}

type ioSched struct {
	src []int // available input after the k-th "$short read" (increasing, last = all)
	dst []int // room of the destination after the k-th "$short write" (increasing)
}

type ioProg struct {
	sname   string
	fields  []slot
	src     string
	hasDst  bool
	methods []string // all coroutines of the struct (for the skeleton check); parse is the public one
	data    []byte
	scheds  []ioSched
	battery bool
	nOps    map[string]int
}

const ioMaxDst = 48

func wtyOfBits(bits int) wty {
	for _, w := range wtys {
		if w.bits == bits {
			return w
		}
	}
	return wtys[3]
}

// ---- the fixed battery

func ioBattery() []*ioProg {
	var out []*ioProg
	// (1) every read method, in an order that mixes widths and endianness, each
	// into its own field; twice, so that every read also starts with whatever
	// the previous read left in the scratch word
	for _, grp := range []struct {
		name string
		keep func(r ioRead) bool
	}{
		{"rle", func(r ioRead) bool { return !r.be }},
		{"rbe", func(r ioRead) bool { return r.be && r.n > 1 }},
	} {
		p := &ioProg{sname: grp.name, battery: true, nOps: map[string]int{}}
		var body []string
		var sel []ioRead
		for _, r := range ioReads {
			if grp.keep(r) {
				sel = append(sel, r)
			}
		}
		// widest first, then alternating from both ends
		order := []ioRead{}
		for i, j := len(sel)-1, 0; j <= i; i, j = i-1, j+1 {
			order = append(order, sel[i])
			if j != i {
				order = append(order, sel[j])
			}
		}
		for k, r := range order {
			f := fmt.Sprintf("f%d", k)
			p.fields = append(p.fields, slot{name: f, expr: "this." + f, t: numT(wtyOfBits(r.bits))})
			body = append(body, fmt.Sprintf("    this.%s = args.src.%s?()", f, r.name))
			p.nOps["io:"+r.name]++
		}
		p.src = ioRender(p, nil, body, "")
		out = append(out, p)
	}
	// (2) one-byte reads and skips: constant 0 / 1 / n, computed from what was read
	{
		p := &ioProg{sname: "rsk", battery: true, nOps: map[string]int{}}
		for k, t := range []wty{wtys[0], wtys[1], wtys[2], wtys[3], wtys[2], wtys[3], wtys[0]} {
			f := fmt.Sprintf("f%d", k)
			p.fields = append(p.fields, slot{name: f, expr: "this." + f, t: numT(t)})
		}
		body := strings.Split(strings.Trim(`
    this.f0 = args.src.read_u8?()
    args.src.skip?(n: 1)
    this.f1 = args.src.read_u8_as_u16?()
    args.src.skip?(n: 3)
    this.f2 = args.src.read_u8_as_u32?()
    args.src.skip_u32?(n: 1)
    this.f3 = args.src.read_u8_as_u64?()
    args.src.skip_u32?(n: 2)
    args.src.skip?(n: 0)
    this.f4 = args.src.read_u16le_as_u32?()
    args.src.skip_u32?(n: this.f4 & 3)
    this.f5 = args.src.read_u24be_as_u64?()
    args.src.skip?(n: this.f5 & 7)
    v = args.src.read_u16be_as_u32?()
    args.src.skip_u32?(n: v & 1)
    args.src.skip?(n: ((v >> 8) & 3) as base.u64)
    this.f6 = args.src.read_u8?()
    args.src.skip?(n: (this.f6 & 3) as base.u64)
    this.f4 ~mod+= args.src.read_u32le?()
`, "\n"), "\n")
		p.nOps["io:skip"] += 6
		p.nOps["io:skip_u32"] += 4
		p.src = ioRender(p, []string{"    var v : base.u32"}, body, "")
		out = append(out, p)
	}
	// (3) loops (locals live across suspensions), branches on what was read,
	// private sub-coroutines (nested resume)
	{
		p := &ioProg{sname: "rlp", battery: true, nOps: map[string]int{}}
		for k, t := range []wty{wtys[2], wtys[3], wtys[2], wtys[0], wtys[1]} {
			f := fmt.Sprintf("f%d", k)
			p.fields = append(p.fields, slot{name: f, expr: "this." + f, t: numT(t)})
		}
		sub := `pri func rlp.sub?(src: base.io_reader) {
    var v : base.u32
    var k : base.u32
    v = args.src.read_u16be_as_u32?()
    this.f2 ~mod+= v
    args.src.skip_u32?(n: (v & 3))
    while k < 2 {
        v = args.src.read_u24le_as_u32?()
        this.f2 = (this.f2 ~mod* 7) ~mod+ v
        k += 1
    }
}

pri func rlp.deep?(src: base.io_reader) {
    this.f4 = args.src.read_u16le?()
    this.sub?(src: args.src)
    this.f4 ~mod+= args.src.read_u16be?()
}

`
		body := strings.Split(strings.Trim(`
    this.f0 = args.src.read_u16le_as_u32?()
    while i < 3 {
        v = args.src.read_u24be_as_u32?()
        this.f0 = (this.f0 ~mod* 31) ~mod+ v
        w = args.src.read_u40le_as_u64?()
        acc = (acc ~mod* 1000003) ~mod+ w
        i += 1
    }
    this.f1 = acc
    this.sub?(src: args.src)
    this.f3 = args.src.read_u8?()
    if (this.f3 & 1) == 0 {
        v = args.src.read_u16be_as_u32?()
    } else if (this.f3 & 2) == 0 {
        v = args.src.read_u24le_as_u32?()
        args.src.skip?(n: 2)
    } else {
        v = args.src.read_u32be?()
    }
    this.f0 ~mod+= v
    i = 0
    while.outer i < 2 {
        i += 1
        while true {
            w = args.src.read_u16le_as_u64?()
            if (w & 1) == 1 {
                continue.outer
            }
            acc ~mod+= w
            if (w & 2) == 2 {
                break.outer
            }
            break
        }
        this.deep?(src: args.src)
    }.outer
    this.f1 ~mod+= acc
    this.f1 ~mod+= args.src.read_u64be?()
`, "\n"), "\n")
		p.methods = []string{"sub", "deep"}
		p.nOps["io:loops"] += 3
		p.nOps["io:sub-coroutine-call"] += 3
		p.src = ioRender(p, []string{"    var i : base.u32", "    var v : base.u32", "    var w : base.u64", "    var acc : base.u64"}, body, sub)
		out = append(out, p)
	}
	// (4) a writer: copy until a zero byte, two bytes out per two-byte read, trailer
	{
		p := &ioProg{sname: "wcp", battery: true, hasDst: true, nOps: map[string]int{}}
		for k, t := range []wty{wtys[2], wtys[2], wtys[3]} {
			f := fmt.Sprintf("f%d", k)
			p.fields = append(p.fields, slot{name: f, expr: "this." + f, t: numT(t)})
		}
		body := strings.Split(strings.Trim(`
    while true {
        c = args.src.read_u8?()
        if c == 0 {
            break
        }
        args.dst.write_u8?(a: c ~mod+ 1)
        this.f0 ~mod+= 1
    }
    while i < 3 {
        v = args.src.read_u16le_as_u32?()
        args.dst.write_u8?(a: ((v >> 8) & 0xFF) as base.u8)
        args.dst.write_u8?(a: (v & 0xFF) as base.u8)
        this.f1 = (this.f1 ~mod* 257) ~mod+ v
        i += 1
    }
    this.f2 = args.src.read_u48be_as_u64?()
    args.dst.write_u8?(a: (this.f2 & 0xFF) as base.u8)
`, "\n"), "\n")
		p.nOps["io:write_u8"] += 4
		p.src = ioRender(p, []string{"    var c : base.u8", "    var i : base.u32", "    var v : base.u32"}, body, "")
		out = append(out, p)
	}
	return out
}

// ioRender writes the struct, the private coroutines `extra` and the public
// coroutine parse? with the given locals and body.
func ioRender(p *ioProg, locals, body []string, extra string) string {
	var b strings.Builder
	fmt.Fprintf(&b, "pub struct %s?(\n", p.sname)
	for _, f := range p.fields {
		fmt.Fprintf(&b, "    %s : %s,\n", f.name, f.t.src())
	}
	b.WriteString(")\n\n")
	b.WriteString(extra)
	if p.hasDst {
		fmt.Fprintf(&b, "pub func %s.parse?(dst: base.io_writer, src: base.io_reader) {\n", p.sname)
	} else {
		fmt.Fprintf(&b, "pub func %s.parse?(src: base.io_reader) {\n", p.sname)
	}
	for _, l := range locals {
		b.WriteString(l + "\n")
	}
	for _, l := range body {
		b.WriteString(l + "\n")
	}
	b.WriteString("}\n\n")
	p.methods = append(p.methods, "parse")
	return b.String()
}

// ---- random programs

type ioGen struct {
	r      *hlib.Rand
	p      *ioProg
	nloop  int
	budget int
	dst    bool
}

func (g *ioGen) field(bits int) string {
	var c []string
	for _, f := range g.p.fields {
		if f.t.w.bits == bits {
			c = append(c, f.expr)
		}
	}
	return c[g.r.Intn(len(c))]
}

// a read whose result has the given width
func (g *ioGen) readOf(bits int) ioRead {
	var c []ioRead
	for _, r := range ioReads {
		if r.bits == bits {
			c = append(c, r)
		}
	}
	r := c[g.r.Intn(len(c))]
	g.p.nOps["io:"+r.name]++
	return r
}

func (g *ioGen) stmts(lv, n int, loops []string, out *[]string) {
	for i := 0; i < n && g.budget > 0; i++ {
		g.stmt(lv, loops, out)
	}
}

func (g *ioGen) stmt(lv int, loops []string, out *[]string) {
	g.budget--
	emit := func(s string) { *out = append(*out, ind(lv)+s) }
	bits := []int{8, 16, 32, 64}[g.r.Intn(4)]
	choice := g.r.Intn(14)
	if lv >= 3 && choice >= 9 {
		choice = g.r.Intn(9)
	}
	switch choice {
	case 0, 1, 2: // field = read
		emit(fmt.Sprintf("%s = args.src.%s?()", g.field(bits), g.readOf(bits).name))
	case 3, 4: // accumulate through a local
		b := []int{32, 64}[g.r.Intn(2)]
		v := map[int]string{32: "v", 64: "w"}[b]
		emit(fmt.Sprintf("%s = args.src.%s?()", v, g.readOf(b).name))
		f := g.field(b)
		emit(fmt.Sprintf("%s = (%s ~mod* %d) ~mod+ %s", f, f, []int{3, 31, 257, 65599}[g.r.Intn(4)], v))
	case 5: // op-assign straight from a read
		f := g.field(bits)
		emit(fmt.Sprintf("%s ~mod+= args.src.%s?()", f, g.readOf(bits).name))
	case 6: // constant skip
		m := []string{"skip", "skip_u32"}[g.r.Intn(2)]
		emit(fmt.Sprintf("args.src.%s?(n: %d)", m, []int{0, 1, 1, 2, 3, 5}[g.r.Intn(6)]))
		g.p.nOps["io:"+m]++
	case 7: // computed skip
		if g.r.Bool() {
			emit(fmt.Sprintf("args.src.skip_u32?(n: %s & %d)", g.field(32), []int{1, 3, 7}[g.r.Intn(3)]))
			g.p.nOps["io:skip_u32"]++
		} else {
			b := []int{8, 16, 32, 64}[g.r.Intn(4)]
			e := fmt.Sprintf("%s & %d", g.field(b), []int{1, 3, 7}[g.r.Intn(3)])
			if b != 64 {
				e = "(" + e + ") as base.u64"
			}
			emit("args.src.skip?(n: " + e + ")")
			g.p.nOps["io:skip"]++
		}
	case 8: // write
		if g.dst {
			b := []int{8, 16, 32, 64}[g.r.Intn(4)]
			e := g.field(b)
			if b != 8 {
				e = fmt.Sprintf("((%s >> %d) & 0xFF) as base.u8", e, []int{0, 8}[g.r.Intn(2)])
			}
			emit("args.dst.write_u8?(a: " + e + ")")
			g.p.nOps["io:write_u8"]++
		} else {
			emit(fmt.Sprintf("%s = args.src.%s?()", g.field(bits), g.readOf(bits).name))
		}
	case 9, 10: // counted loop
		if g.nloop < 3 {
			c := fmt.Sprintf("c%d", g.nloop)
			label := ""
			if g.r.Bool() {
				label = fmt.Sprintf(".l%d", g.nloop)
			}
			g.nloop++
			emit(c + " = 0")
			emit(fmt.Sprintf("while%s %s < %d {", label, c, 1+g.r.Intn(3)))
			*out = append(*out, ind(lv+1)+c+" += 1")
			g.stmts(lv+1, 1+g.r.Intn(3), append(loops, strings.TrimPrefix(label, ".")), out)
			emit("}" + label)
			g.p.nOps["io:loops"]++
		} else {
			emit(fmt.Sprintf("%s = args.src.%s?()", g.field(bits), g.readOf(bits).name))
		}
	case 11: // branch on data
		emit(fmt.Sprintf("if (%s & %d) == 0 {", g.field(bits), []int{1, 2, 4}[g.r.Intn(3)]))
		g.stmts(lv+1, 1+g.r.Intn(2), loops, out)
		if g.r.Bool() {
			emit("} else {")
			g.stmts(lv+1, 1+g.r.Intn(2), loops, out)
		}
		emit("}")
	case 12: // jump out of / to the top of an enclosing loop, depending on data
		if len(loops) > 0 {
			i := g.r.Intn(len(loops))
			if loops[i] == "" {
				i = len(loops) - 1
			}
			l := loops[i]
			kw := []string{"break", "continue"}[g.r.Intn(2)]
			if l != "" {
				kw += "." + l
			}
			emit(fmt.Sprintf("if (%s & %d) == %d {", g.field(bits), 3, g.r.Intn(4)))
			*out = append(*out, ind(lv+1)+kw)
			emit("}")
			g.p.nOps["io:jump-in-coroutine"]++
		} else {
			emit(fmt.Sprintf("%s = args.src.%s?()", g.field(bits), g.readOf(bits).name))
		}
	case 13: // sub-coroutine
		emit("this.sub?(src: args.src)")
		g.p.nOps["io:sub-coroutine-call"]++
	}
}

func genIOProg(r *hlib.Rand, sname string) *ioProg {
	p := &ioProg{sname: sname, nOps: map[string]int{}}
	g := &ioGen{r: r, p: p}
	p.hasDst = r.Intn(3) == 0
	g.dst = p.hasDst
	k := 0
	for _, w := range wtys {
		for j := 0; j < 1+r.Intn(2); j++ {
			f := fmt.Sprintf("f%d", k)
			k++
			p.fields = append(p.fields, slot{name: f, expr: "this." + f, t: numT(w)})
		}
	}
	// the private sub-coroutine
	g.budget = 2 + r.Intn(3)
	var sb []string
	g.dst = false
	g.nloop = 3 // no loops in the sub-coroutine (its counters are parse's)
	for g.budget > 0 {
		ch := g.budget
		g.stmt(1, nil, &sb)
		if g.budget == ch {
			g.budget--
		}
	}
	// no recursion: drop calls of itself
	for i, l := range sb {
		if strings.Contains(l, "this.sub?") {
			sb[i] = strings.Repeat(" ", len(l)-len(strings.TrimLeft(l, " "))) + "args.src.skip?(n: 1)"
		}
	}
	sub := fmt.Sprintf("pri func %s.sub?(src: base.io_reader) {\n    var v : base.u32\n    var w : base.u64\n%s\n}\n\n", sname, strings.Join(sb, "\n"))
	g.dst = p.hasDst
	g.nloop = 0
	g.budget = 5 + r.Intn(8)
	var body []string
	g.stmts(1, 4+r.Intn(6), nil, &body)
	locals := []string{"    var v : base.u32", "    var w : base.u64", "    var c0 : base.u32", "    var c1 : base.u32", "    var c2 : base.u32"}
	p.methods = []string{"sub"}
	p.src = ioRender(p, locals, body, sub)
	return p
}

// ---- data and schedules

func ioData(r *hlib.Rand, n int, forWriter bool) []byte {
	d := make([]byte, n)
	for i := range d {
		// every byte non-zero, most with the top bit set (sign / carry bugs show)
		d[i] = byte(1 + r.Intn(255))
		if r.Intn(3) != 0 {
			d[i] |= 0x80
		}
	}
	if forWriter && n > 12 {
		d[5+r.Intn(6)] = 0 // the terminator of a copy loop
	}
	return d
}

func ioSchedules(r *hlib.Rand, n int, hasDst bool, thorough bool) []ioSched {
	full := []int{ioMaxDst}
	var out []ioSched
	dstFor := func(k int) []int {
		if !hasDst {
			return full
		}
		switch k % 4 {
		case 0:
			return full
		case 1:
			return []int{k % 7, ioMaxDst}
		case 2:
			var s []int
			for c := 0; c <= ioMaxDst; c++ {
				s = append(s, c)
			}
			return s
		}
		return []int{0, 1 + k%5, 6 + k%11, ioMaxDst}
	}
	out = append(out, ioSched{src: []int{n}, dst: full}) // one shot: the reference run of the oracle
	for k := 0; k < n; k++ {                              // every split point
		out = append(out, ioSched{src: []int{k, n}, dst: dstFor(k)})
	}
	var one []int
	for k := 1; k <= n; k++ {
		one = append(one, k)
	}
	out = append(out, ioSched{src: one, dst: full}) // byte by byte
	if hasDst {
		out = append(out, ioSched{src: []int{n}, dst: dstFor(2)}, ioSched{src: one, dst: dstFor(2)})
	}
	extra := 6
	if thorough {
		extra = 40
	}
	for i := 0; i < extra; i++ { // three / four pieces
		a := r.Intn(n)
		b := a + r.Intn(n-a)
		s := []int{a, b, n}
		if r.Bool() {
			s = []int{a, b, b + r.Intn(n-b+1), n}
		}
		// strictly increasing
		var t []int
		for _, v := range s {
			if len(t) == 0 || v > t[len(t)-1] {
				t = append(t, v)
			}
		}
		out = append(out, ioSched{src: t, dst: dstFor(i)})
	}
	return out
}

// ---- the C driver

func ioMain(pkg string, progs []*ioProg) string {
	var b strings.Builder
	up := strings.ToUpper(pkg)
	fmt.Fprintf(&b, "#define WUFFS_IMPLEMENTATION\n#define WUFFS_CONFIG__MODULES\n#define WUFFS_CONFIG__MODULE__%s\n", up)
	fmt.Fprintf(&b, "#include \"%s.c\"\n#include <stdio.h>\n#include <stdlib.h>\n#include <string.h>\n\n", pkg)
	b.WriteString("typedef struct { int ns; const int* s; int nt; const int* t; } wv_sched;\n")
	b.WriteString("static void hex(const uint8_t* p, size_t n) { if (!n) printf(\"-\"); for (size_t i = 0; i < n; i++) printf(\"%02x\", p[i]); }\n")
	b.WriteString("static const char* stname(const char* s, char* buf) { if (!s) return \"ok\"; size_t i = 0; for (; s[i] && i < 90; i++) buf[i] = (s[i] == ' ') ? '_' : s[i]; buf[i] = 0; return buf; }\n\n")
	for i, p := range progs {
		ty := fmt.Sprintf("wuffs_%s__%s", pkg, p.sname)
		fmt.Fprintf(&b, "static const uint8_t data_%d[%d] = {", i, len(p.data)+1)
		for _, c := range p.data {
			fmt.Fprintf(&b, "%d,", c)
		}
		b.WriteString("0};\n")
		for k, sc := range p.scheds {
			fmt.Fprintf(&b, "static const int s_%d_%d[] = {%s}; static const int t_%d_%d[] = {%s};\n", i, k, joinInts(sc.src), i, k, joinInts(sc.dst))
		}
		fmt.Fprintf(&b, "static const wv_sched sched_%d[] = {\n", i)
		for k, sc := range p.scheds {
			fmt.Fprintf(&b, "  {%d, s_%d_%d, %d, t_%d_%d},\n", len(sc.src), i, k, len(sc.dst), i, k)
		}
		b.WriteString("};\n")
		fmt.Fprintf(&b, "static void dump_%d(%s* o) {\n", i, ty)
		for _, f := range p.fields {
			fmt.Fprintf(&b, "  printf(\" %%llu\", (unsigned long long)o->private_impl.f_%s);\n", f.name)
		}
		b.WriteString("  printf(\"\\n\"); fflush(stdout);\n}\n")
		fmt.Fprintf(&b, "static void run_%d(const wv_sched* sc) {\n  %s o;\n  memset(&o, 0xA5, sizeof o);\n", i, ty)
		fmt.Fprintf(&b, "  wuffs_base__status st = %s__initialize(&o, sizeof o, WUFFS_VERSION, 0);\n", ty)
		b.WriteString("  printf(\"init %s\\n\", st.repr ? st.repr : \"ok\"); fflush(stdout);\n")
		fmt.Fprintf(&b, "  const uint8_t* data = data_%d; size_t n = %d;\n", i, len(p.data))
		b.WriteString("  size_t ri = 0, wi = 0; int si = 0, ti = 0, acts = 0; uint8_t out[256]; char nb[100];\n")
		b.WriteString("  for (int calls = 0; calls < 600; calls++) {\n")
		b.WriteString("    size_t avail = (size_t)sc->s[si], cap = (size_t)sc->t[ti];\n")
		b.WriteString("    if (avail > n) avail = n;\n")
		// fresh, exactly-sized buffers: ASan reports any access beyond them
		b.WriteString("    uint8_t* sb = (uint8_t*)malloc(avail ? avail : 1); memcpy(sb, data, avail);\n")
		b.WriteString("    uint8_t* db = (uint8_t*)malloc(cap ? cap : 1); memcpy(db, out, wi);\n")
		b.WriteString("    wuffs_base__io_buffer src = wuffs_base__make_io_buffer(wuffs_base__make_slice_u8(sb, avail), wuffs_base__make_io_buffer_meta(avail, ri, 0, false));\n")
		b.WriteString("    wuffs_base__io_buffer dst = wuffs_base__make_io_buffer(wuffs_base__make_slice_u8(db, cap), wuffs_base__make_io_buffer_meta(wi, 0, 0, false));\n")
		if p.hasDst {
			fmt.Fprintf(&b, "    st = %s__parse(&o, &dst, &src);\n", ty)
		} else {
			fmt.Fprintf(&b, "    st = %s__parse(&o, &src);\n", ty)
		}
		b.WriteString("    ri = src.meta.ri; wi = dst.meta.wi; if (wi > sizeof out) wi = sizeof out; memcpy(out, db, wi);\n")
		b.WriteString("    printf(\"@ %zu %zu r %s %zu %zu \", avail, cap, stname(st.repr, nb), ri, wi); hex(out, wi); printf(\" |\");\n")
		fmt.Fprintf(&b, "    dump_%d(&o);\n    free(sb); free(db);\n", i)
		b.WriteString("    if (st.repr == wuffs_base__suspension__short_read) { if (si + 1 < sc->ns) si++; else break; }\n")
		b.WriteString("    else if (st.repr == wuffs_base__suspension__short_write) { if (ti + 1 < sc->nt) ti++; else break; }\n")
		// finished: the next call starts another activation (at most three)
		b.WriteString("    else if (!st.repr) { if (ri < n && ++acts < 3) continue; break; }\n")
		b.WriteString("    else break;\n  }\n}\n")
	}
	// case numbering: all schedules of program 0, then of program 1, …
	b.WriteString("int main(int argc, char** argv) {\n  int k0 = argc > 1 ? atoi(argv[1]) : 0;\n  int k = 0;\n")
	for i, p := range progs {
		fmt.Fprintf(&b, "  for (int j = 0; j < %d; j++, k++) { if (k < k0) continue; printf(\"#case %%d\\n\", k); fflush(stdout); run_%d(&sched_%d[j]); }\n", len(p.scheds), i, i)
	}
	b.WriteString("  return 0;\n}\n")
	return b.String()
}

func joinInts(xs []int) string {
	s := make([]string, len(xs))
	for i, x := range xs {
		s[i] = fmt.Sprint(x)
	}
	return strings.Join(s, ",")
}

// ---- the phase

func runIO(r *rec, tc *toolchain) {
	nRandom := 8
	if r.Thorough {
		nRandom = 120
	}
	// generate: battery + random programs, 8 per package
	var progs []*ioProg
	for _, p := range ioBattery() {
		n := 0
		switch p.sname {
		case "rle":
			n = 52
		case "rbe":
			n = 50
		case "rsk":
			n = 36
		case "rlp":
			n = 66
		case "wcp":
			n = 24
		}
		rr := r.Rand.Fork()
		p.data = ioData(rr, n, p.hasDst)
		p.scheds = ioSchedules(rr, n, p.hasDst, r.Thorough)
		progs = append(progs, p)
	}
	rnds := make([]*hlib.Rand, nRandom)
	for i := range rnds {
		rnds[i] = r.Rand.Fork()
	}
	rprogs := make([]*ioProg, nRandom)
	rej := make([][]string, nRandom)
	parallelDo(nRandom, 12, func(i int) {
		for try := 0; try < 4; try++ {
			q := genIOProg(rnds[i].Fork(), fmt.Sprintf("q%d", i))
			if _, err := parseAndCheck("io.wuffs", []byte(q.src)); err != nil {
				rej[i] = append(rej[i], "io program rejected: "+firstLines(err.Error(), 1))
				if os.Getenv("C04_DEBUG") != "" {
					fmt.Fprintf(os.Stderr, "IO REJECTED: %v\n%s\n", err, q.src)
				}
				continue
			}
			n := 28 + rnds[i].Intn(20)
			q.data = ioData(rnds[i], n, q.hasDst)
			q.scheds = ioSchedules(rnds[i], n, q.hasDst, r.Thorough)
			rprogs[i] = q
			break
		}
	})
	for i, q := range rprogs {
		for _, s := range rej[i] {
			r.Count("discard:checker-rejected")
			r.Sample(s)
		}
		if q != nil {
			progs = append(progs, q)
		}
	}
	// packages
	type ioJob struct {
		name  string
		progs []*ioProg
		src   string
		fe    *frontEnd
		feErr string
		res   *pkgResult
	}
	var jobs []*ioJob
	per := 5
	for i := 0; i < len(progs); i += per {
		j := &ioJob{name: fmt.Sprintf("io%d", len(jobs))}
		for k := i; k < i+per && k < len(progs); k++ {
			j.progs = append(j.progs, progs[k])
			j.src += progs[k].src
		}
		jobs = append(jobs, j)
	}
	parallelDo(len(jobs), 6, func(i int) {
		j := jobs[i]
		fe, err := parseAndCheck(j.name+".wuffs", []byte(j.src))
		if err != nil {
			j.feErr = err.Error()
			return
		}
		j.fe = fe
		n := 0
		for _, p := range j.progs {
			n += len(p.scheds)
		}
		j.res = tc.buildAndRunMain(j.name, j.src, n, func() string { return ioMain(j.name, j.progs) })
	})
	// ops + oracle
	var pend []*pendingCase
	type caseInfo struct {
		p     *ioProg
		sched int
		lines []string // the `r …` part of every call
		bad   bool
	}
	var infos []*caseInfo
	for _, j := range jobs {
		if j.feErr != "" {
			r.Fail("io:package-rejected", "the I/O battery / generated I/O programs are rejected by the front end: "+firstLines(j.feErr, 3), j.src)
			continue
		}
		if j.res.genErr != "" {
			r.Fail("io:cgen-error", "wuffs-c gen fails on an accepted package of I/O coroutines: "+firstLines(j.res.genErr, 4), j.src)
			continue
		}
		if len(j.res.ccErr) > 0 {
			ccs := []string{}
			for cc := range j.res.ccErr {
				ccs = append(ccs, cc)
			}
			sort.Strings(ccs)
			e := j.res.ccErr[ccs[0]]
			key := "cc-reject"
			for _, l := range strings.Split(e, "\n") {
				if i := strings.Index(l, "error:"); i >= 0 {
					key = "cc-reject:" + slug(l[i+6:])
					break
				}
			}
			r.Fail("io:"+key, "the C emitted for an accepted package of I/O coroutines is rejected by "+ccs[0]+":\n"+firstLines(e, 12), j.src)
			continue
		}
		k := 0
		for _, p := range j.progs {
			sx := j.fe.serializeStruct(p.sname)
			for si, sc := range p.scheds {
				cl := j.res.runs["clang"][k]
				gc := j.res.runs["gcc"][k]
				k++
				replay := fmt.Sprintf("// package %s struct %s: call parse? repeatedly; input %s\n// input made available in steps %v, room of dst in steps %v (one step further after each suspension)\n%s",
					j.name, p.sname, hlib.Hex(p.data), sc.src, sc.dst, p.src)
				var ops, outs []string
				if si == 0 {
					ops = append(ops, "case "+j.name+"."+p.sname+" "+sx)
				} else {
					ops = append(ops, "reinit")
				}
				line0 := "abort"
				if len(cl.lines) > 0 {
					line0 = cl.lines[0]
				}
				outs = append(outs, line0)
				nSkel := 0
				if si == 0 {
					if j.res.csrcLN != "" && !j.res.lnDiffer {
						for _, m := range p.methods {
							ops = append(ops, "skel "+m)
							outs = append(outs, cSkeleton(j.res.csrcLN, "wuffs_"+j.name+"__"+p.sname+"__"+m))
							nSkel++
						}
					} else {
						r.Count("skel:no-line-number-variant")
					}
				}
				ci := &caseInfo{p: p, sched: si}
				for _, l := range cl.lines[imin(1, len(cl.lines)):] {
					// "@ avail cap r …"
					f := strings.SplitN(l, " ", 4)
					if len(f) != 4 || f[0] != "@" {
						ci.bad = true
						break
					}
					var avail int
					fmt.Sscan(f[1], &avail)
					if avail > len(p.data) {
						ci.bad = true
						break
					}
					src := "-"
					if avail > 0 {
						src = hlib.Hex(p.data[:avail])
					}
					ops = append(ops, "iocall parse "+src+" "+f[2])
					outs = append(outs, f[3])
					ci.lines = append(ci.lines, f[3])
				}
				san := cl.failed || ci.bad || len(cl.lines) < 2
				if san {
					key := sanitizerKey(cl.stderr)
					if strings.Contains(cl.stderr, "timeout") || cl.stderr == "" {
						key = "hang-or-abort"
					}
					r.Fail("io:"+key, "clang -fsanitize=undefined,address build of an accepted I/O coroutine stops after "+
						fmt.Sprint(len(cl.lines))+" output lines:\n"+firstLines(cl.stderr, 6), replay)
				} else if gc.failed || strings.Join(gc.lines, "\n") != strings.Join(cl.lines, "\n") {
					r.Fail("io:cc-diff", "gcc -O2 and clang -O1 builds of the same generated C print different traces:\nclang: "+
						strings.Join(cl.lines, " / ")+"\ngcc:   "+strings.Join(gc.lines, " / ")+"\n"+firstLines(gc.stderr, 4), replay)
				}
				pend = append(pend, &pendingCase{ops: ops, outs: outs, nSkel: nSkel, replay: replay, sanFailed: san})
				infos = append(infos, ci)
			}
		}
	}
	// the property's own oracle on the implementation: the split must not matter
	summary := func(ci *caseInfo) string {
		var s []string
		for i, l := range ci.lines {
			if !strings.HasPrefix(l, "r $") || i == len(ci.lines)-1 {
				s = append(s, l)
			}
		}
		return strings.Join(s, "\n")
	}
	var oneShot *caseInfo
	reported := map[string]bool{}
	for i, ci := range infos {
		if ci.sched == 0 {
			oneShot = ci
		}
		if ci.bad || pend[i].sanFailed || oneShot == nil || oneShot.p != ci.p || ci.sched == 0 {
			continue
		}
		if a, b := summary(oneShot), summary(ci); a != b && !reported[ci.p.sname] {
			reported[ci.p.sname] = true
			key := "io-split-diff"
			if ci.p.battery {
				key += ":" + ci.p.sname
			}
			r.Fail(key, "a coroutine computes something else when its input arrives in pieces than when it arrives at once "+
				"(calls that end an activation + the last call: status, bytes read, bytes written, output, fields):\n  in one piece: "+
				strings.ReplaceAll(a, "\n", " / ")+"\n  in pieces:    "+strings.ReplaceAll(b, "\n", " / ")+"\n  all calls:    "+strings.Join(ci.lines, " / "), pend[i].replay)
		}
	}
	// reference semantics + skeletons
	ref := runReference(r, pend)
	ncalls := 0
	refReported := map[string]bool{}
	for i, pc := range pend {
		ci := infos[i]
		undef := false
		diff := -1
		if ref != nil {
			for k := range pc.ops {
				m := ref[i][k]
				if k >= 1 && k <= pc.nSkel {
					if m != pc.outs[k] && !refReported["skel:"+ci.p.sname] {
						refReported["skel:"+ci.p.sname] = true
						r.Fail("skel-diff:coroutine", "the control skeleton of the C emitted for coroutine `"+strings.TrimPrefix(pc.ops[k], "skel ")+
							"` differs from what the modelled lowering (Model/CStmt.lean lowerL + Model/CCoro.lean templates) writes:\n  emitted C: "+pc.outs[k]+
							"\n  model:     "+m, pc.replay)
					}
					continue
				}
				if strings.HasPrefix(m, "undef:") || strings.HasPrefix(m, "unsupported:") {
					undef = true
					r.Note("reference says " + m + " on I/O program " + ci.p.sname)
					break
				}
				if m != pc.outs[k] && diff < 0 {
					diff = k
				}
			}
		}
		if undef {
			r.Count("discard:reference-undef")
			continue
		}
		for k := range pc.ops {
			r.Op(pc.ops[k], pc.outs[k])
			if k >= 1 && k <= pc.nSkel {
				r.Count("skel:coroutines")
			} else if k > 0 {
				ncalls++
				r.Count("io:calls")
				if strings.HasPrefix(pc.outs[k], "r $base:_short_read") {
					r.Count("io:calls-suspended-short-read")
				} else if strings.HasPrefix(pc.outs[k], "r $base:_short_write") {
					r.Count("io:calls-suspended-short-write")
				}
			}
		}
		if diff >= 0 && !pc.sanFailed && !refReported[ci.p.sname] {
			refReported[ci.p.sname] = true
			key := "io-ref-diff"
			if ci.p.battery {
				key += ":" + ci.p.sname
			}
			r.Fail(key, "the compiled C and the reference semantics of the Wuffs source disagree at `"+pc.ops[diff][:imin(60, len(pc.ops[diff]))]+
				"…` (call "+fmt.Sprint(diff-pc.nSkel)+" of this run):\n  C (clang build): "+pc.outs[diff]+"\n  reference:       "+ref[i][diff], pc.replay)
		}
		if ci.sched == 0 {
			r.Nontrivial(ci.p.src + hlib.Hex(ci.p.data))
			for k, v := range ci.p.nOps {
				r.CountN(k, v)
			}
			r.Count("io:programs")
		}
		r.Count("io:runs")
	}
	r.Extra("io_calls", ncalls)
	nIOCalls = ncalls
}

func imin(a, b int) int {
	if a < b {
		return a
	}
	return b
}
