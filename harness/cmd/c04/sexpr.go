package main

// Front end: the REAL Wuffs front end (token.Tokenize, parse.Parse,
// check.Check from /repo's working tree) on generated source text, and a
// generic serialiser of the resulting type-checked AST into a line of
// space-separated tokens for the Lean reference interpreter
// (lean/WuffsVerif/Model/WSem.lean).
//
// Node format (every token is space-free; "-" = absent):
//
//   ( Kind flagsHex id0 id1 id2 constValue mtype lhs mhs rhs [ list0 ] [ list1 ] [ list2 ] )
//
// where lhs/mhs/rhs are nodes or "-", ids are rendered by idStr and mtype is
// the compact type string of typeStr (for KTypeExpr nodes: of the node itself).

import (
	"fmt"
	"strings"

	a "github.com/google/wuffs/lang/ast"
	"github.com/google/wuffs/lang/check"
	"github.com/google/wuffs/lang/parse"
	t "github.com/google/wuffs/lang/token"
)

type frontEnd struct {
	tm    *t.Map
	files []*a.File
}

// parseAndCheck runs the real front end. A non-nil error means the program is
// rejected (the caller discards it and counts).
func parseAndCheck(filename string, src []byte) (fe *frontEnd, err error) {
	defer func() {
		if e := recover(); e != nil {
			fe, err = nil, fmt.Errorf("front end panic: %v", e)
		}
	}()
	tm := &t.Map{}
	tokens, _, err := t.Tokenize(tm, filename, src)
	if err != nil {
		return nil, err
	}
	f, err := parse.Parse(tm, filename, tokens, nil)
	if err != nil {
		return nil, err
	}
	files := []*a.File{f}
	if _, err := check.Check(tm, files, nil); err != nil {
		return nil, err
	}
	return &frontEnd{tm: tm, files: files}, nil
}

func sanitize(s string) string {
	if s == "" {
		return "#empty"
	}
	if strings.ContainsAny(s, " \t\n()[]") {
		r := strings.NewReplacer(" ", "_", "\t", "_", "\n", "_", "(", "{", ")", "}", "[", "{", "]", "}")
		s = r.Replace(s)
	}
	return s
}

// idStr renders a token ID. The disambiguated operator forms (IDXBinaryPlus
// …), which have no source text of their own, are rendered as U/B/A + the
// ambiguous form's text: "B+", "B~mod*", "Bas", "A+", "Unot".
func idStr(tm *t.Map, id t.ID) string {
	if id == 0 {
		return "-"
	}
	switch {
	case id.IsXUnaryOp():
		return "U" + sanitize(id.AmbiguousForm().Str(tm))
	case id.IsXBinaryOp():
		return "B" + sanitize(id.AmbiguousForm().Str(tm))
	case id.IsXAssociativeOp():
		return "A" + sanitize(id.AmbiguousForm().Str(tm))
	}
	s := tm.ByID(id)
	if s == "" {
		return fmt.Sprintf("#%d", uint32(id))
	}
	if s == "-" {
		return "minus"
	}
	if s == "(" {
		return "call"
	}
	if s == "[" {
		return "index"
	}
	if s == ")" || s == "]" {
		return "close"
	}
	return sanitize(s)
}

// typeStr is the compact rendering of a TypeExpr:
//
//	T:<pkg>.<name>:<min>:<max>   numeric / bool / other named types (min, max "" if unrefined)
//	A:<len>:<inner>  array   R:<len>:<inner>  roarray
//	X:<decorator>    anything else (outside the fragment)
func typeStr(tm *t.Map, n *a.TypeExpr) string {
	if n == nil {
		return "-"
	}
	switch n.Decorator() {
	case 0:
		lo, hi := "", ""
		if n.IsRefined() {
			if x := n.Min(); x != nil && x.ConstValue() != nil {
				lo = x.ConstValue().String()
			}
			if x := n.Max(); x != nil && x.ConstValue() != nil {
				hi = x.ConstValue().String()
			}
		}
		q := n.QID()
		return "T:" + sanitize(q[0].Str(tm)) + "." + sanitize(q[1].Str(tm)) + ":" + lo + ":" + hi
	case t.IDArray, t.IDRoarray:
		k := "A"
		if n.Decorator() == t.IDRoarray {
			k = "R"
		}
		l := "?"
		if x := n.ArrayLength(); x != nil && x.ConstValue() != nil {
			l = x.ConstValue().String()
		}
		return k + ":" + l + ":" + typeStr(tm, n.Inner())
	}
	return "X:" + sanitize(n.Decorator().Str(tm))
}

func (fe *frontEnd) writeNode(b *strings.Builder, n *a.Node) {
	if n == nil {
		b.WriteString("- ")
		return
	}
	raw := n.AsRaw()
	ids := raw.VerifC04IDs()
	b.WriteString("( ")
	b.WriteString(n.Kind().String())
	fmt.Fprintf(b, " %x ", uint32(raw.Flags()))
	for _, id := range ids {
		b.WriteString(idStr(fe.tm, id))
		b.WriteByte(' ')
	}
	if cv := n.AsExpr().ConstValue(); cv != nil && n.Kind() == a.KExpr {
		b.WriteString(cv.String())
	} else {
		b.WriteByte('-')
	}
	b.WriteByte(' ')
	if n.Kind() == a.KTypeExpr {
		b.WriteString(typeStr(fe.tm, n.AsTypeExpr()))
	} else {
		b.WriteString(typeStr(fe.tm, n.MType()))
	}
	b.WriteByte(' ')
	sub := raw.SubNodes()
	if n.Kind() == a.KTypeExpr {
		// The compact type string carries everything the interpreter needs.
		sub = [3]*a.Node{}
	}
	for _, o := range sub {
		fe.writeNode(b, o)
	}
	for _, l := range raw.SubLists() {
		b.WriteString("[ ")
		if n.Kind() != a.KTypeExpr {
			for _, o := range l {
				fe.writeNode(b, o)
			}
		}
		b.WriteString("] ")
	}
	b.WriteString(") ")
}

// serialize returns the one-line token form of the (single) checked file.
func (fe *frontEnd) serialize() string {
	var b strings.Builder
	fe.writeNode(&b, fe.files[0].AsNode())
	return strings.TrimRight(b.String(), " ")
}
