package main

// Shape check and table generation.
//
// genTables renders internal/cgen's cOpNames / cTypeNames (through the
// verif-tagged exports) as Lean definitions: Gen/C04_Tables.lean.  The Lean
// `lower` (Model/CExpr.lean) picks its C operators from this table, so a
// changed table entry changes the theorems' subject on the next run.

import (
	"fmt"
	"strings"

	"github.com/google/wuffs/internal/cgen"
	t "github.com/google/wuffs/lang/token"
	"wvh/hlib"
)

var cBinLean = map[string]string{
	"+": "add", "-": "sub", "*": "mul", "/": "div", "%": "rem", "<<": "shl", ">>": "shr",
	"&": "band", "|": "bor", "^": "bxor", "<": "lt", "<=": "le", ">": "gt", ">=": "ge",
	"==": "eq", "!=": "ne", "&&": "land", "||": "lor",
}

type wopRow struct {
	lean   string
	binary t.ID
	assign t.ID
	assoc  t.ID
}

var wopRows = []wopRow{
	{"add", t.IDXBinaryPlus, t.IDPlusEq, t.IDXAssociativePlus},
	{"sub", t.IDXBinaryMinus, t.IDMinusEq, 0},
	{"mul", t.IDXBinaryStar, t.IDStarEq, t.IDXAssociativeStar},
	{"div", t.IDXBinarySlash, t.IDSlashEq, 0},
	{"shl", t.IDXBinaryShiftL, t.IDShiftLEq, 0},
	{"shr", t.IDXBinaryShiftR, t.IDShiftREq, 0},
	{"band", t.IDXBinaryAmp, t.IDAmpEq, t.IDXAssociativeAmp},
	{"bor", t.IDXBinaryPipe, t.IDPipeEq, t.IDXAssociativePipe},
	{"bxor", t.IDXBinaryHat, t.IDHatEq, t.IDXAssociativeHat},
	{"rem", t.IDXBinaryPercent, t.IDPercentEq, 0},
	{"modAdd", t.IDXBinaryTildeModPlus, t.IDTildeModPlusEq, 0},
	{"modSub", t.IDXBinaryTildeModMinus, t.IDTildeModMinusEq, 0},
	{"modMul", t.IDXBinaryTildeModStar, t.IDTildeModStarEq, 0},
	{"modShl", t.IDXBinaryTildeModShiftL, t.IDTildeModShiftLEq, 0},
	{"satAdd", t.IDXBinaryTildeSatPlus, t.IDTildeSatPlusEq, 0},
	{"satSub", t.IDXBinaryTildeSatMinus, t.IDTildeSatMinusEq, 0},
	{"ne", t.IDXBinaryNotEq, 0, 0},
	{"lt", t.IDXBinaryLessThan, 0, 0},
	{"le", t.IDXBinaryLessEq, 0, 0},
	{"eq", t.IDXBinaryEqEq, 0, 0},
	{"ge", t.IDXBinaryGreaterEq, 0, 0},
	{"gt", t.IDXBinaryGreaterThan, 0, 0},
	{"land", t.IDXBinaryAnd, 0, t.IDXAssociativeAnd},
	{"lor", t.IDXBinaryOr, 0, t.IDXAssociativeOr},
}

func leanCBin(id t.ID, compound bool) (string, string) {
	if id == 0 {
		return "none", "(no such Wuffs operator)"
	}
	s := cgen.VerifC04COpName(id)
	if s == cgen.VerifC04NoSuchCOperator {
		return "none", "noSuchCOperator"
	}
	k := strings.TrimSpace(s)
	if compound {
		k = strings.TrimSuffix(k, "=")
	}
	if l, ok := cBinLean[k]; ok {
		return "some .CBin." + l, fmt.Sprintf("%q", s)
	}
	return "none", fmt.Sprintf("UNRECOGNISED %q", s)
}

func genTables() string {
	var b strings.Builder
	b.WriteString("/- GENERATED on every run by `wvh_c04 -mode gen` from /repo/internal/cgen/expr.go\n" +
		"   (cOpNames, cTypeNames, through internal/cgen/verif_export_c04.go).  Do not edit. -/\n" +
		"import WuffsVerif.Model.CSyntax\n\nnamespace WuffsVerif.Gen.C04\nopen WuffsVerif.WOps WuffsVerif.C\n\n")
	tab := func(name, doc string, f func(r wopRow) (string, string)) {
		fmt.Fprintf(&b, "/-- %s -/\ndef %s : WOp → Option CBin\n", doc, name)
		for _, r := range wopRows {
			v, c := f(r)
			v = strings.Replace(v, ".CBin.", "CBin.", 1)
			fmt.Fprintf(&b, "  | .%s => %s  -- %s\n", r.lean, v, c)
		}
		b.WriteString("\n")
	}
	tab("cBinOf", "cOpNames[t.IDXBinary…]: the C infix operator of a binary operator", func(r wopRow) (string, string) { return leanCBin(r.binary, false) })
	tab("cAssignOf", "cOpNames[t.ID…Eq]: the C compound-assignment operator (without its `=`)", func(r wopRow) (string, string) { return leanCBin(r.assign, true) })
	tab("cAssocOf", "cOpNames[t.IDXAssociative…]", func(r wopRow) (string, string) { return leanCBin(r.assoc, false) })
	un := func(id t.ID) string {
		switch strings.TrimSpace(cgen.VerifC04COpName(id)) {
		case "+":
			return "some CUn.pos"
		case "-":
			return "some CUn.neg"
		case "!":
			return "some CUn.lnot"
		}
		return "none"
	}
	fmt.Fprintf(&b, "/-- cOpNames[t.IDXUnary…] -/\ndef cUnOf : WUn → Option CUn\n  | .pos => %s\n  | .neg => %s\n  | .lnot => %s\n\n",
		un(t.IDXUnaryPlus), un(t.IDXUnaryMinus), un(t.IDXUnaryNot))
	ty := func(id t.ID) string {
		switch cgen.VerifC04CTypeName(id) {
		case "uint8_t":
			return "some CTy.u8"
		case "uint16_t":
			return "some CTy.u16"
		case "uint32_t":
			return "some CTy.u32"
		case "uint64_t":
			return "some CTy.u64"
		}
		return "none"
	}
	fmt.Fprintf(&b, "/-- cTypeNames -/\ndef cTypeOf : WTy → Option CTy\n  | .u8 => %s\n  | .u16 => %s\n  | .u32 => %s\n  | .u64 => %s\n\n",
		ty(t.IDU8), ty(t.IDU16), ty(t.IDU32), ty(t.IDU64))
	b.WriteString("end WuffsVerif.Gen.C04\n")
	return b.String()
}

func shapeCheck(r *hlib.Run, tc *toolchain) {}
