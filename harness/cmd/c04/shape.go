package main

import "wvh/hlib"

func genTables() string { return "" }

func shapeCheck(r *hlib.Run, tc *toolchain) {}
