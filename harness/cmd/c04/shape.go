package main

// Shape check and table generation.
//
// genTables renders internal/cgen's cOpNames / cTypeNames (through the
// verif-tagged exports) as Lean definitions: Gen/C04_Tables.lean.  The Lean
// `lower` (Model/CExpr.lean) picks its C operators from this table, so a
// changed table entry changes the theorems' subject on the next run.

import (
	"fmt"
	"math/big"
	"os"
	"path/filepath"
	"strings"

	cgen "github.com/google/wuffs/lang/verifc04"
	t "github.com/google/wuffs/lang/token"
	"wvh/hlib"
)

var cBinLean = map[string]string{
	"+": "add", "-": "sub", "*": "mul", "/": "div", "%": "rem", "<<": "shl", ">>": "shr",
	"&": "band", "|": "bor", "^": "bxor", "<": "lt", "<=": "le", ">": "gt", ">=": "ge",
	"==": "eq", "!=": "ne", "&&": "land", "||": "lor",
}

type wopRow struct {
	lean   string
	binary t.ID
	assign t.ID
	assoc  t.ID
}

var wopRows = []wopRow{
	{"add", t.IDXBinaryPlus, t.IDPlusEq, t.IDXAssociativePlus},
	{"sub", t.IDXBinaryMinus, t.IDMinusEq, 0},
	{"mul", t.IDXBinaryStar, t.IDStarEq, t.IDXAssociativeStar},
	{"div", t.IDXBinarySlash, t.IDSlashEq, 0},
	{"shl", t.IDXBinaryShiftL, t.IDShiftLEq, 0},
	{"shr", t.IDXBinaryShiftR, t.IDShiftREq, 0},
	{"band", t.IDXBinaryAmp, t.IDAmpEq, t.IDXAssociativeAmp},
	{"bor", t.IDXBinaryPipe, t.IDPipeEq, t.IDXAssociativePipe},
	{"bxor", t.IDXBinaryHat, t.IDHatEq, t.IDXAssociativeHat},
	{"rem", t.IDXBinaryPercent, t.IDPercentEq, 0},
	{"modAdd", t.IDXBinaryTildeModPlus, t.IDTildeModPlusEq, 0},
	{"modSub", t.IDXBinaryTildeModMinus, t.IDTildeModMinusEq, 0},
	{"modMul", t.IDXBinaryTildeModStar, t.IDTildeModStarEq, 0},
	{"modShl", t.IDXBinaryTildeModShiftL, t.IDTildeModShiftLEq, 0},
	{"satAdd", t.IDXBinaryTildeSatPlus, t.IDTildeSatPlusEq, 0},
	{"satSub", t.IDXBinaryTildeSatMinus, t.IDTildeSatMinusEq, 0},
	{"ne", t.IDXBinaryNotEq, 0, 0},
	{"lt", t.IDXBinaryLessThan, 0, 0},
	{"le", t.IDXBinaryLessEq, 0, 0},
	{"eq", t.IDXBinaryEqEq, 0, 0},
	{"ge", t.IDXBinaryGreaterEq, 0, 0},
	{"gt", t.IDXBinaryGreaterThan, 0, 0},
	{"land", t.IDXBinaryAnd, 0, t.IDXAssociativeAnd},
	{"lor", t.IDXBinaryOr, 0, t.IDXAssociativeOr},
}

func leanCBin(id t.ID, compound bool) (string, string) {
	if id == 0 {
		return "none", "(no such Wuffs operator)"
	}
	s := cgen.COpName(id)
	if s == cgen.NoSuchCOperator {
		return "none", "noSuchCOperator"
	}
	k := strings.TrimSpace(s)
	if compound {
		k = strings.TrimSuffix(k, "=")
	}
	if l, ok := cBinLean[k]; ok {
		return "some .CBin." + l, fmt.Sprintf("%q", s)
	}
	return "none", fmt.Sprintf("UNRECOGNISED %q", s)
}

func genTables() string {
	var b strings.Builder
	b.WriteString("/- GENERATED on every run by `wvh_c04 -mode gen` from /repo/internal/cgen/expr.go\n" +
		"   (cOpNames, cTypeNames, through internal/cgen/verif_export_c04.go).  Do not edit. -/\n" +
		"import WuffsVerif.Model.CSyntax\n\nnamespace WuffsVerif.Gen.C04\nopen WuffsVerif.WOps WuffsVerif.C\n\n")
	tab := func(name, doc string, f func(r wopRow) (string, string)) {
		fmt.Fprintf(&b, "/-- %s -/\ndef %s : WOp → Option CBin\n", doc, name)
		for _, r := range wopRows {
			v, c := f(r)
			v = strings.Replace(v, ".CBin.", "CBin.", 1)
			fmt.Fprintf(&b, "  | .%s => %s  -- %s\n", r.lean, v, c)
		}
		b.WriteString("\n")
	}
	tab("cBinOf", "cOpNames[t.IDXBinary…]: the C infix operator of a binary operator", func(r wopRow) (string, string) { return leanCBin(r.binary, false) })
	tab("cAssignOf", "cOpNames[t.ID…Eq]: the C compound-assignment operator (without its `=`)", func(r wopRow) (string, string) { return leanCBin(r.assign, true) })
	tab("cAssocOf", "cOpNames[t.IDXAssociative…]", func(r wopRow) (string, string) { return leanCBin(r.assoc, false) })
	un := func(id t.ID) string {
		switch strings.TrimSpace(cgen.COpName(id)) {
		case "+":
			return "some CUn.pos"
		case "-":
			return "some CUn.neg"
		case "!":
			return "some CUn.lnot"
		}
		return "none"
	}
	fmt.Fprintf(&b, "/-- cOpNames[t.IDXUnary…] -/\ndef cUnOf : WUn → Option CUn\n  | .pos => %s\n  | .neg => %s\n  | .lnot => %s\n\n",
		un(t.IDXUnaryPlus), un(t.IDXUnaryMinus), un(t.IDXUnaryNot))
	ty := func(id t.ID) string {
		switch cgen.CTypeName(id) {
		case "uint8_t":
			return "some CTy.u8"
		case "uint16_t":
			return "some CTy.u16"
		case "uint32_t":
			return "some CTy.u32"
		case "uint64_t":
			return "some CTy.u64"
		}
		return "none"
	}
	fmt.Fprintf(&b, "/-- cTypeNames -/\ndef cTypeOf : WTy → Option CTy\n  | .u8 => %s\n  | .u16 => %s\n  | .u32 => %s\n  | .u64 => %s\n\n",
		ty(t.IDU8), ty(t.IDU16), ty(t.IDU32), ty(t.IDU64))
	b.WriteString("end WuffsVerif.Gen.C04\n")
	return b.String()
}


// ---- a small C-expression reader (for the text wuffs-c emits) -> canonical prefix form

type ctok struct {
	kind int // 0 ident, 1 number, 2 punct
	s    string
}

func clex(src string) ([]ctok, error) { return clexSfx(src, false) }

// clexSfx: keepU keeps a `u` / `U` suffix of a number in its token ("5u")
func clexSfx(src string, keepU bool) ([]ctok, error) {
	var out []ctok
	i := 0
	for i < len(src) {
		c := src[i]
		switch {
		case c == ' ' || c == '\n' || c == '\t':
			i++
		case c >= '0' && c <= '9':
			j := i
			for j < len(src) && ((src[j] >= '0' && src[j] <= '9') || src[j] == 'x' || (src[j] >= 'a' && src[j] <= 'f') || (src[j] >= 'A' && src[j] <= 'F')) {
				j++
			}
			num := src[i:j]
			hasU := false
			for j < len(src) && (src[j] == 'u' || src[j] == 'U' || src[j] == 'l' || src[j] == 'L') {
				hasU = hasU || src[j] == 'u' || src[j] == 'U'
				j++
			}
			if keepU && hasU {
				num += "u"
			}
			out = append(out, ctok{1, num})
			i = j
		case c == '_' || (c >= 'a' && c <= 'z') || (c >= 'A' && c <= 'Z'):
			j := i
			for j < len(src) && (src[j] == '_' || (src[j] >= 'a' && src[j] <= 'z') || (src[j] >= 'A' && src[j] <= 'Z') || (src[j] >= '0' && src[j] <= '9')) {
				j++
			}
			out = append(out, ctok{0, src[i:j]})
			i = j
		default:
			for _, op := range []string{"<<=", ">>=", "<<", ">>", "<=", ">=", "==", "!=", "&&", "||", "+=", "-=", "*=", "/=", "%=", "&=", "|=", "^="} {
				if strings.HasPrefix(src[i:], op) {
					out = append(out, ctok{2, op})
					i += len(op)
					goto next
				}
			}
			if strings.ContainsRune("()+-*/%&|^<>!=,;~", rune(c)) {
				out = append(out, ctok{2, string(c)})
				i++
			} else {
				return nil, fmt.Errorf("unexpected character %q", c)
			}
		next:
		}
	}
	return out, nil
}

type cparser struct {
	toks []ctok
	pos  int
}

var cTypeWords = map[string]bool{"uint8_t": true, "uint16_t": true, "uint32_t": true, "uint64_t": true, "bool": true, "int": true, "size_t": true}

var cIdentNames = map[string]string{"a_x": "x", "a_y": "y", "a_z": "z", "a_w": "w", "v_v": "v"}

func (p *cparser) peek() ctok {
	if p.pos < len(p.toks) {
		return p.toks[p.pos]
	}
	return ctok{2, "<eof>"}
}
func (p *cparser) next() ctok { t := p.peek(); p.pos++; return t }
func (p *cparser) accept(s string) bool {
	if t := p.peek(); t.kind == 2 && t.s == s {
		p.pos++
		return true
	}
	return false
}

// C binary operator precedence (higher binds tighter)
var cPrec = map[string]int{"*": 10, "/": 10, "%": 10, "+": 9, "-": 9, "<<": 8, ">>": 8, "<": 7, "<=": 7, ">": 7, ">=": 7,
	"==": 6, "!=": 6, "&": 5, "^": 4, "|": 3, "&&": 2, "||": 1}

func (p *cparser) expr(minPrec int) (string, error) {
	lhs, err := p.unary()
	if err != nil {
		return "", err
	}
	for {
		t := p.peek()
		pr, ok := cPrec[t.s]
		if t.kind != 2 || !ok || pr < minPrec {
			return lhs, nil
		}
		p.next()
		rhs, err := p.expr(pr + 1)
		if err != nil {
			return "", err
		}
		lhs = "(" + t.s + " " + lhs + " " + rhs + ")"
	}
}

func (p *cparser) unary() (string, error) {
	t := p.peek()
	if t.kind == 2 {
		switch t.s {
		case "!", "-", "+", "&":
			p.next()
			e, err := p.unary()
			if err != nil {
				return "", err
			}
			name := map[string]string{"!": "not", "-": "neg", "+": "pos", "&": "addr"}[t.s]
			return "(" + name + " " + e + ")", nil
		case "(":
			// cast or parenthesised expression
			if p.pos+2 < len(p.toks) && p.toks[p.pos+1].kind == 0 && cTypeWords[p.toks[p.pos+1].s] && p.toks[p.pos+2].s == ")" {
				ty := p.toks[p.pos+1].s
				p.pos += 3
				e, err := p.unary()
				if err != nil {
					return "", err
				}
				return "(cast " + ty + " " + e + ")", nil
			}
			p.next()
			var parts []string
			for {
				e, err := p.expr(1)
				if err != nil {
					return "", err
				}
				parts = append(parts, e)
				if !p.accept(",") {
					break
				}
			}
			if !p.accept(")") {
				return "", fmt.Errorf("expected ) at token %d", p.pos)
			}
			if len(parts) > 1 {
				return "(comma " + strings.Join(parts, " ") + ")", nil
			}
			return parts[0], nil
		}
		return "", fmt.Errorf("unexpected %q", t.s)
	}
	p.next()
	if t.kind == 1 {
		v := new(big.Int)
		digits, sfx := t.s, ""
		if strings.HasSuffix(digits, "u") {
			digits, sfx = strings.TrimSuffix(digits, "u"), "u"
		}
		if _, ok := v.SetString(digits, 0); !ok {
			return "", fmt.Errorf("bad number %q", t.s)
		}
		return v.String() + sfx, nil
	}
	name := t.s
	if n, ok := cIdentNames[name]; ok {
		name = n
	}
	if p.accept("(") { // call
		var args []string
		if !p.accept(")") {
			for {
				e, err := p.expr(1)
				if err != nil {
					return "", err
				}
				args = append(args, e)
				if p.accept(")") {
					break
				}
				if !p.accept(",") {
					return "", fmt.Errorf("expected , or ) in call")
				}
			}
		}
		return "(call " + name + " " + strings.Join(args, " ") + ")", nil
	}
	return name, nil
}

// readCExpr parses a complete C expression.
func readCExpr(src string) (string, error) {
	toks, err := clex(src)
	if err != nil {
		return "", err
	}
	p := &cparser{toks: toks}
	e, err := p.expr(1)
	if err != nil {
		return "", err
	}
	if p.pos != len(toks) {
		return "", fmt.Errorf("trailing tokens after expression: %v", toks[p.pos:])
	}
	return e, nil
}

// readCExprSfx is readCExpr that keeps the `u` suffix of the literals (`5u`).
func readCExprSfx(src string) (string, error) {
	toks, err := clexSfx(src, true)
	if err != nil {
		return "", err
	}
	p := &cparser{toks: toks}
	e, err := p.expr(1)
	if err != nil {
		return "", err
	}
	if p.pos != len(toks) {
		return "", fmt.Errorf("trailing tokens after expression: %v", toks[p.pos:])
	}
	return e, nil
}

// readCStmt parses `lhs op= expr;` or an expression statement.
func readCStmt(src string) (string, error) {
	src = strings.TrimSuffix(strings.TrimSpace(src), ";")
	toks, err := clex(src)
	if err != nil {
		return "", err
	}
	p := &cparser{toks: toks}
	lhs, err := p.unary()
	if err != nil {
		return "", err
	}
	t := p.peek()
	if t.kind == 2 && (t.s == "=" || (strings.HasSuffix(t.s, "=") && len(t.s) >= 2 && cPrec[strings.TrimSuffix(t.s, "=")] > 0)) {
		p.next()
		rhs, err := p.expr(1)
		if err != nil {
			return "", err
		}
		if p.pos != len(toks) {
			return "", fmt.Errorf("trailing tokens")
		}
		return "(assign " + t.s + " " + lhs + " " + rhs + ")", nil
	}
	if p.pos != len(toks) {
		return "", fmt.Errorf("not a statement form this reader knows")
	}
	return lhs, nil
}

// ---- probe package

type probe struct {
	name string // method name
	src  string // method source
	op   string // op line for the Lean driver
	stmt bool   // extract the op-assign statement instead of the return expression
	sfx  bool   // read the expression with the literal suffixes kept (signed operands)
}

var probeTypes = []string{"u8", "u16", "u32", "u64"}

func probeBits(ty string) int {
	return map[string]int{"u8": 8, "u16": 16, "u32": 32, "u64": 64}[ty]
}

type binSpec struct {
	wuffs, lean string
	xT, yT      string // refinement suffixes for the operand types ("" = unrefined); %d = bits-1
	lc, rc      string // constants for the c-kinds
	boolOut     bool
}

var binSpecs = []binSpec{
	{"+", "B+", "[..= 100]", "[..= 100]", "3", "3", false},
	{"-", "B-", "[100 ..= 200]", "[..= 100]", "200", "3", false},
	{"*", "B*", "[..= 15]", "[..= 15]", "3", "3", false},
	{"/", "B/", "", "[1 ..= 200]", "200", "3", false},
	{"%", "B%", "", "[1 ..= 200]", "200", "3", false},
	{"<<", "B<<", "[..= 1]", "[..= 7]", "1", "3", false},
	{">>", "B>>", "", "[..= 7]", "200", "3", false},
	{"&", "B&", "", "", "200", "3", false},
	{"|", "B|", "", "", "200", "3", false},
	{"^", "B^", "", "", "200", "3", false},
	{"~mod+", "B~mod+", "", "", "200", "3", false},
	{"~mod-", "B~mod-", "", "", "200", "3", false},
	{"~mod*", "B~mod*", "", "", "200", "3", false},
	{"~mod<<", "B~mod<<", "", "[..= 7]", "200", "3", false},
	{"~sat+", "B~sat+", "", "", "200", "3", false},
	{"~sat-", "B~sat-", "", "", "200", "3", false},
	{"<>", "B<>", "", "", "200", "3", true},
	{"<", "B<", "", "", "200", "3", true},
	{"<=", "B<=", "", "", "200", "3", true},
	{"==", "B==", "", "", "200", "3", true},
	{">=", "B>=", "", "", "200", "3", true},
	{">", "B>", "", "", "200", "3", true},
}

func buildProbes() []probe {
	var ps []probe
	n := 0
	name := func(prefix string) string { n++; return fmt.Sprintf("%s%d", prefix, n) }
	for _, sp := range binSpecs {
		for _, ty := range probeTypes {
			T := "base." + ty
			for _, k := range []string{"vv", "vc", "cv"} {
				l, r := "args.x", "args.y"
				lk, rk := "v", "v"
				if k == "vc" {
					r, rk = sp.rc, "c"+sp.rc
				}
				if k == "cv" {
					l, lk = sp.lc, "c"+sp.lc
					if sp.wuffs == "<<" || sp.wuffs == ">>" || sp.wuffs == "~mod<<" {
						l = "(" + sp.lc + " as " + T + ")"
					}
				}
				out := T
				if sp.boolOut {
					out = "base.bool"
				}
				nm := name("b")
				src := fmt.Sprintf("pri func s.%s(x: %s%s, y: %s%s) %s {\n    return %s %s %s\n}\n", nm, T, sp.xT, T, sp.yT, out, l, sp.wuffs, r)
				ps = append(ps, probe{name: nm, src: src, op: fmt.Sprintf("lower %s %s %s %s", sp.lean, ty, lk, rk)})
			}
		}
	}
	// signed operand types: the constant operand is written without the `u`
	// suffix, whichever side it is on (Model/CSigned.lean lowerSigned,
	// Props/C04Signed.lean signed_node_correct)
	for _, sp := range [][3]string{{"+", "add", ""}, {"-", "sub", ""}, {"*", "mul", ""}, {"<", "lt", "b"}, {"<=", "le", "b"},
		{">", "gt", "b"}, {">=", "ge", "b"}, {"==", "eq", "b"}, {"<>", "ne", "b"}} {
		for _, ty := range []string{"i8", "i16", "i32", "i64"} {
			T := "base." + ty + "[-5 ..= 5]"
			for _, k := range []string{"vv", "vc", "cv"} {
				l, r, lk, rk := "args.x", "args.y", "v", "v"
				if k == "vc" {
					r, rk = "3", "c3"
				}
				if k == "cv" {
					l, lk = "4", "c4"
				}
				out := "base." + ty
				if sp[2] == "b" {
					out = "base.bool"
				}
				nm := name("g")
				src := fmt.Sprintf("pri func s.%s(x: %s, y: %s) %s {\n    return %s %s %s\n}\n", nm, T, T, out, l, sp[0], r)
				ps = append(ps, probe{name: nm, src: src, sfx: true, op: fmt.Sprintf("lowersigned %s %s %s %s", sp[1], ty, lk, rk)})
			}
		}
	}
	// logical operators
	for _, lo := range [][2]string{{"and", "Band"}, {"or", "Bor"}} {
		nm := name("b")
		ps = append(ps, probe{name: nm, op: "lower " + lo[1] + " u8 v v",
			src: fmt.Sprintf("pri func s.%s(x: base.bool, y: base.bool) base.bool {\n    return args.x %s args.y\n}\n", nm, lo[0])})
	}
	// unary
	for _, u := range [][3]string{{"+", "U+", "base.u8"}, {"-", "U-", "base.u8[..= 0]"}} {
		nm := name("u")
		ps = append(ps, probe{name: nm, op: "lowerun " + u[1],
			src: fmt.Sprintf("pri func s.%s(x: %s) base.u8 {\n    return %sargs.x\n}\n", nm, u[2], u[0])})
	}
	{
		nm := name("u")
		ps = append(ps, probe{name: nm, op: "lowerun Unot",
			src: fmt.Sprintf("pri func s.%s(x: base.bool) base.bool {\n    return not args.x\n}\n", nm)})
	}
	// associative
	for _, as := range [][3]string{{"+", "A+", "[..= 50]"}, {"*", "A*", "[..= 3]"}, {"&", "A&", ""}, {"|", "A|", ""}, {"^", "A^", ""}} {
		for _, ty := range probeTypes {
			for _, cnt := range []int{3, 4} {
				T := "base." + ty + as[2]
				nm := name("s")
				expr := "args.x " + as[0] + " args.y " + as[0] + " args.z"
				params := fmt.Sprintf("x: %s, y: %s, z: %s", T, T, T)
				if cnt == 4 {
					expr += " " + as[0] + " args.w"
					params += ", w: " + T
				}
				ps = append(ps, probe{name: nm, op: fmt.Sprintf("lowerassoc %s %s %d", as[1], ty, cnt-2),
					src: fmt.Sprintf("pri func s.%s(%s) base.%s {\n    return %s\n}\n", nm, params, ty, expr)})
			}
		}
	}
	// associative with two leading constants (the checker folds only all-constant
	// nodes): on base.u64 the first literal is converted to uint64_t
	// (fixes/C04-assoc-leading-constants.patch)
	for _, as := range [][2]string{{"+", "A+"}, {"*", "A*"}, {"&", "A&"}, {"|", "A|"}, {"^", "A^"}} {
		for _, ty := range probeTypes {
			c0, c1, ref := "3", "5", "[..= 7]"
			if ty == "u64" {
				c0, c1, ref = "4294967295", "4294967293", "[..= 1]"
			} else if ty == "u32" {
				c0, c1 = "60000", "70000"
				if as[0] == "*" {
					c0, c1 = "600", "700"
				}
			}
			nm := name("k")
			ps = append(ps, probe{name: nm, op: fmt.Sprintf("lowerassoc %s %s 1 c%s c%s", as[1], ty, c0, c1),
				src: fmt.Sprintf("pri func s.%s(z: base.%s%s) base.%s {\n    return %s %s %s %s args.z\n}\n", nm, ty, ref, ty, c0, as[0], c1, as[0])})
		}
	}
	for _, lo := range [][2]string{{"and", "Aand"}, {"or", "Aor"}} {
		nm := name("s")
		ps = append(ps, probe{name: nm, op: "lowerassoc " + lo[1] + " u8 1",
			src: fmt.Sprintf("pri func s.%s(x: base.bool, y: base.bool, z: base.bool) base.bool {\n    return args.x %s args.y %s args.z\n}\n", nm, lo[0], lo[0])})
	}
	// as
	for _, from := range probeTypes {
		for _, to := range probeTypes {
			if from == to {
				continue
			}
			ref := ""
			if probeBits(from) > probeBits(to) {
				ref = "[..= 200]"
			}
			nm := name("c")
			ps = append(ps, probe{name: nm, op: fmt.Sprintf("loweras %s %s plain", from, to),
				src: fmt.Sprintf("pri func s.%s(x: base.%s%s) base.%s {\n    return args.x as base.%s\n}\n", nm, from, ref, to, to)})
			if probeBits(from) > probeBits(to) {
				full := new(big.Int).Sub(new(big.Int).Lsh(big.NewInt(1), uint(probeBits(to))), big.NewInt(1))
				for _, m := range []string{full.String(), "127"} {
					nm := name("c")
					ps = append(ps, probe{name: nm, op: fmt.Sprintf("loweras %s %s maskR:%s", from, to, m),
						src: fmt.Sprintf("pri func s.%s(x: base.%s) base.%s {\n    return (args.x & %s) as base.%s\n}\n", nm, from, to, m, to)})
					nm = name("c")
					ps = append(ps, probe{name: nm, op: fmt.Sprintf("loweras %s %s maskL:%s", from, to, m),
						src: fmt.Sprintf("pri func s.%s(x: base.%s) base.%s {\n    return (%s & args.x) as base.%s\n}\n", nm, from, to, m, to)})
				}
			}
		}
	}
	// op-assign
	for _, sp := range binSpecs {
		if sp.boolOut {
			continue
		}
		for _, ty := range probeTypes {
			T := "base." + ty
			for _, k := range []string{"v", "c"} {
				r, rk := "args.y", "v"
				if k == "c" {
					r, rk = sp.rc, "c"+sp.rc
				}
				nm := name("a")
				src := fmt.Sprintf("pri func s.%s(x: %s%s, y: %s%s) %s {\n    var v : %s\n    v = args.x\n    v %s= %s\n    return v\n}\n",
					nm, T, sp.xT, T, sp.yT, T, T, sp.wuffs, r)
				ps = append(ps, probe{name: nm, src: src, stmt: true, op: fmt.Sprintf("lowerassign %s= %s %s", sp.wuffs, ty, rk)})
			}
		}
	}
	return ps
}

// cFuncBody returns the body text of the definition of function fn.
func cFuncBody(csrc, fn string) (string, bool) {
	key := fn + "("
	i := 0
	for {
		j := strings.Index(csrc[i:], key)
		if j < 0 {
			return "", false
		}
		j += i
		k := strings.Index(csrc[j:], ")")
		if k < 0 {
			return "", false
		}
		rest := strings.TrimLeft(csrc[j+k+1:], " \n")
		if strings.HasPrefix(rest, "{") {
			end := strings.Index(rest, "\n}\n")
			if end < 0 {
				return "", false
			}
			return rest[1:end], true
		}
		i = j + len(key)
	}
}

func readProbeExpr(p probe, src string) (string, error) {
	if p.sfx {
		return readCExprSfx(src)
	}
	return readCExpr(src)
}

func shapeCheck(r *rec, tc *toolchain) {
	probes := buildProbes()
	var kept []probe
	head := "pub struct s?(\n    f : base.u8,\n)\n\n"
	var src strings.Builder
	src.WriteString(head)
	srcs := make([]string, len(probes))
	for i, p := range probes {
		srcs[i] = p.src
	}
	acc, why := acceptedAll("probe.wuffs", head, srcs)
	for i, p := range probes {
		if !acc[i] {
			r.Count("shape:probe-rejected-by-checker")
			r.Note("shape probe rejected: " + p.op + ": " + why[i])
			continue
		}
		kept = append(kept, p)
		src.WriteString(p.src + "\n")
	}
	dir := filepath.Join(tc.dir, "probe")
	os.MkdirAll(dir, 0o755)
	wf := filepath.Join(dir, "probe.wuffs")
	os.WriteFile(wf, []byte(src.String()), 0o644)
	csrc, stderr, err := hlib.GenPkg(tc.wuffsC, "probe", wf)
	if err != nil {
		r.Fail("shape:cgen-error", "wuffs-c gen fails on the operator probe package: "+firstLines(string(stderr), 5), src.String())
		return
	}
	for _, p := range kept {
		body, ok := cFuncBody(string(csrc), "wuffs_probe__s__"+p.name)
		got := ""
		if !ok {
			got = "no-such-function"
		} else if !p.stmt {
			i := strings.Index(body, "return ")
			j := strings.LastIndex(body, ";")
			if i < 0 || j < i {
				got = "no-return"
			} else if e, err := readProbeExpr(p, body[i+7:j]); err != nil {
				got = "unreadable: " + strings.Join(strings.Fields(body[i+7:j]), " ")
			} else {
				got = e
			}
		} else {
			var stmts []string
			for _, l := range strings.Split(body, "\n") {
				l = strings.TrimSpace(l)
				if l == "" || strings.HasPrefix(l, "#") || strings.HasPrefix(l, "return ") || l == "v_v = a_x;" ||
					(strings.HasPrefix(l, "uint") && strings.HasSuffix(l, " v_v = 0;")) {
					continue
				}
				stmts = append(stmts, l)
			}
			if len(stmts) != 1 {
				got = "statements: " + strings.Join(stmts, " ")
			} else if e, err := readCStmt(stmts[0]); err != nil {
				got = "unreadable: " + stmts[0]
			} else {
				got = e
			}
		}
		r.Op(p.op, got)
		r.Count("shape:pairs")
	}
	// the probe package must also be accepted by the C compilers
	os.WriteFile(filepath.Join(dir, "probe.c"), csrc, 0o644)
	os.Symlink(tc.baseC, filepath.Join(dir, "wuffs-base.c"))
	main := "#define WUFFS_IMPLEMENTATION\n#define WUFFS_CONFIG__MODULES\n#define WUFFS_CONFIG__MODULE__PROBE\n#include \"probe.c\"\nint main(void) { return 0; }\n"
	os.WriteFile(filepath.Join(dir, "main.c"), []byte(main), 0o644)
	if err := hlib.CC("gcc", "-O0", "-w", "-c", "-o", filepath.Join(dir, "probe.o"), filepath.Join(dir, "main.c")); err != nil {
		key := "cc-reject"
		for _, l := range strings.Split(err.Error(), "\n") {
			if i := strings.Index(l, "error:"); i >= 0 {
				key = "cc-reject:" + slug(l[i+6:])
				break
			}
		}
		r.Fail(key, "the C emitted for the operator probe package is rejected by gcc:\n"+firstLines(err.Error(), 10), src.String())
	}
}
