package main

// Tie of Model/Iterate.lean (the list-transformer model of
// writeStatementIterate / writeIterateRound that `iterate_unroll_equiv` is
// about) to the working tree's cgen: a probe package with `iterate` loops over
// a roslice argument logs, per body execution, the first byte of the chunk
// (= its offset: the source is 0,1,2,…) and the block index; the emitted C is
// compiled and run for slice lengths 0..40, and the visit list must equal what
// the Lean model `cChain` computes (op `iterchain <n> <L:A:U,…>`).

import (
	"fmt"
	"os"
	"path/filepath"
	"strings"
	"time"

	"wvh/hlib"
)

var iterChains = [][][3]int{
	{{8, 8, 2}, {1, 1, 1}},
	{{5, 3, 2}},
	{{1, 1, 1}},
	{{1, 1, 8}},
	{{4, 2, 3}, {2, 1, 1}},
	{{3, 3, 1}, {2, 2, 1}, {1, 1, 1}},
	{{6, 1, 4}},
	{{7, 7, 3}, {3, 2, 2}},
	{{2, 2, 2}, {1, 1, 1}},
	{{16, 16, 1}, {4, 4, 2}, {1, 1, 4}},
}

const iterMaxN = 40

func iterSpec(c [][3]int) string {
	var ps []string
	for _, b := range c {
		ps = append(ps, fmt.Sprintf("%d:%d:%d", b[0], b[1], b[2]))
	}
	return strings.Join(ps, ",")
}

// iterMeaning: the chunks (offset, length) an iterate chain visits on n bytes.
func iterMeaning(n int, c [][3]int) string {
	var vs []string
	p := 0
	for _, b := range c {
		for n-p >= b[0] {
			vs = append(vs, fmt.Sprintf("(%d,%d)", p, b[0]))
			p += b[1]
		}
	}
	return "v " + strings.Join(vs, "")
}

func iterateCheck(r *rec, tc *toolchain) {
	var src strings.Builder
	src.WriteString("pub struct it?(\n    cnt : base.u32,\n    log : array[64] base.u8,\n    tag : array[64] base.u8,\n)\n\n")
	for k, c := range iterChains {
		fmt.Fprintf(&src, "pub func it.r%d!(src: roslice base.u8) {\n    var c : roslice base.u8\n", k)
		for bi, b := range c {
			if bi == 0 {
				fmt.Fprintf(&src, "    iterate (c = args.src)(length: %d, advance: %d, unroll: %d) {\n", b[0], b[1], b[2])
			} else {
				fmt.Fprintf(&src, "    } else (length: %d, advance: %d, unroll: %d) {\n", b[0], b[1], b[2])
			}
			fmt.Fprintf(&src, "        this.log[this.cnt & 63] = c[0]\n        this.tag[this.cnt & 63] = %d\n        this.cnt ~mod+= 1\n", bi)
		}
		src.WriteString("    }\n}\n\n")
	}
	if _, err := parseAndCheck("itp.wuffs", []byte(src.String())); err != nil {
		r.Note("iterate probe rejected by the checker: " + firstLines(err.Error(), 2))
		r.Count("iterate:probe-rejected")
		return
	}
	dir := filepath.Join(tc.dir, "itp")
	os.MkdirAll(dir, 0o755)
	wf := filepath.Join(dir, "itp.wuffs")
	os.WriteFile(wf, []byte(src.String()), 0o644)
	csrc, stderr, err := hlib.GenPkg(tc.wuffsC, "itp", wf)
	if err != nil {
		r.Fail("iterate:cgen-error", "wuffs-c gen fails on the iterate probe package: "+firstLines(string(stderr), 5), src.String())
		return
	}
	os.WriteFile(filepath.Join(dir, "itp.c"), csrc, 0o644)
	os.Symlink(tc.baseC, filepath.Join(dir, "wuffs-base.c"))
	var m strings.Builder
	m.WriteString("#define WUFFS_IMPLEMENTATION\n#define WUFFS_CONFIG__MODULES\n#define WUFFS_CONFIG__MODULE__ITP\n#include \"itp.c\"\n#include <stdio.h>\n#include <stdlib.h>\n#include <string.h>\n")
	m.WriteString("static void run(int k, size_t n) {\n  wuffs_itp__it o;\n  wuffs_itp__it__initialize(&o, sizeof o, WUFFS_VERSION, 0);\n")
	// an exactly-sized heap buffer, so that ASan sees any chunk that leaves the slice
	m.WriteString("  uint8_t* buf = (uint8_t*)malloc(n ? n : 1);\n  for (size_t i = 0; i < n; i++) buf[i] = (uint8_t)i;\n  wuffs_base__slice_u8 s = wuffs_base__make_slice_u8(buf, n);\n  switch (k) {\n")
	for k := range iterChains {
		fmt.Fprintf(&m, "  case %d: wuffs_itp__it__r%d(&o, s); break;\n", k, k)
	}
	m.WriteString("  }\n  printf(\"v\");\n  for (uint32_t i = 0; i < o.private_impl.f_cnt && i < 64; i++) printf(\" %u:%u\", o.private_impl.f_log[i], o.private_impl.f_tag[i]);\n  printf(\"\\n\"); fflush(stdout);\n  free(buf);\n}\n")
	fmt.Fprintf(&m, "int main(void) {\n  for (int k = 0; k < %d; k++) for (size_t n = 0; n <= %d; n++) run(k, n);\n  return 0;\n}\n", len(iterChains), iterMaxN)
	os.WriteFile(filepath.Join(dir, "main.c"), []byte(m.String()), 0o644)
	exe := filepath.Join(dir, "m_clang")
	args := append([]string{}, clangFlags...)
	args = append(args, "-o", exe, filepath.Join(dir, "main.c"), tc.baseObj["clang"])
	if err := hlib.CC("clang", args...); err != nil {
		r.Fail("iterate:cc-reject", "the C emitted for the iterate probe is rejected by clang:\n"+firstLines(err.Error(), 10), src.String())
		return
	}
	o, e, err := hlib.RunCmd(60*time.Second, dir, []string{"ASAN_OPTIONS=detect_leaks=0"}, nil, exe)
	lines := strings.Split(strings.TrimRight(string(o), "\n"), "\n")
	if err != nil {
		r.Fail("iterate:"+sanitizerKey(string(e)), "the iterate probe stops under clang -fsanitize=undefined,address after "+
			fmt.Sprint(len(lines))+" lines:\n"+firstLines(string(e), 6), src.String())
	}
	i := 0
	for k, c := range iterChains {
		for n := 0; n <= iterMaxN; n++ {
			got := "abort"
			if i < len(lines) && strings.HasPrefix(lines[i], "v") {
				// "off:tag" -> "(off,len)"
				var vs []string
				for _, f := range strings.Fields(lines[i])[1:] {
					var off, tag int
					fmt.Sscanf(f, "%d:%d", &off, &tag)
					l := -1
					if tag < len(c) {
						l = c[tag][0]
					}
					vs = append(vs, fmt.Sprintf("(%d,%d)", off, l))
				}
				got = "v " + strings.Join(vs, "")
			}
			i++
			r.Op(fmt.Sprintf("iterchain %d %s", n, iterSpec(c)), got)
			r.Count("iterate:runs")
			// the property's own oracle (independent of the Lean model): what
			// doc/note/iterate-loops.md says the loop means — block after block,
			// chunks of the block's length while that many bytes remain
			if want := iterMeaning(n, c); got != want && got != "abort" {
				r.Fail("iterate:visits-differ", fmt.Sprintf("iterate chain %s on a %d-byte slice visits other chunks than the source means:\n  C:        %s\n  expected: %s",
					iterSpec(c), n, got, want), fmt.Sprintf("// method r%d of the package below, called on the %d bytes 0,1,…\n%s", k, n, src.String()))
			}
		}
	}
}

// iterateJumpCheck: `break` / `continue` whose target is an iterate loop. The
// parser and checker accept them; the meaning can only be "next chunk" /
// "leave the iterate statement" (doc/note/iterate-loops.md: unrolling "affects
// performance but not semantics"). wuffs-c either refuses to translate such a
// program (counted) or must emit C that does exactly that: each probe runs
// under a watchdog (the unrepaired cgen wrote a C `continue` that skips the
// chunk-pointer advance: the call never returns) and its visit log is compared
// with the expected one (fixes/C04-iterate-jump.patch).
func iterateJumpCheck(r *rec, tc *toolchain) {
	type jp struct {
		name, body string
		want       func(n int) []int // logged bytes for the source 0,1,…,n-1
	}
	log := "this.log[this.cnt & 63] = c[0]\n        this.cnt ~mod+= 1\n"
	probes := []jp{
		{"continue-unroll2", "    iterate (c = args.src)(length: 1, advance: 1, unroll: 2) {\n        if c[0] == 2 {\n            continue\n        }\n        " + log + "    }\n",
			func(n int) (o []int) {
				for i := 0; i < n; i++ {
					if i != 2 {
						o = append(o, i)
					}
				}
				return
			}},
		{"continue-unroll1", "    iterate (c = args.src)(length: 2, advance: 2, unroll: 1) {\n        if c[0] == 2 {\n            continue\n        }\n        " + log + "    }\n",
			func(n int) (o []int) {
				for i := 0; i+2 <= n; i += 2 {
					if i != 2 {
						o = append(o, i)
					}
				}
				return
			}},
		{"break-else", "    iterate (c = args.src)(length: 2, advance: 2, unroll: 1) {\n        if c[0] == 2 {\n            break\n        }\n        " + log + "    } else (length: 1, advance: 1, unroll: 1) {\n        " + log + "    }\n",
			func(n int) (o []int) {
				i := 0
				for ; i+2 <= n; i += 2 {
					if i == 2 {
						return
					}
					o = append(o, i)
				}
				for ; i < n; i++ {
					o = append(o, i)
				}
				return
			}},
		{"deep-break", "    iterate.outer (c = args.src)(length: 1, advance: 1, unroll: 1) {\n        v = c[0]\n        while true {\n            if v == 3 {\n                break.outer\n            }\n            break\n        }\n        this.log[this.cnt & 63] = v\n        this.cnt ~mod+= 1\n    }\n",
			func(n int) (o []int) {
				for i := 0; i < n && i != 3; i++ {
					o = append(o, i)
				}
				return
			}},
	}
	const maxN = 7
	for k, p := range probes {
		pkg := fmt.Sprintf("itj%d", k)
		src := "pub struct it?(\n    cnt : base.u32,\n    log : array[64] base.u8,\n)\n\npub func it.r!(src: roslice base.u8) {\n    var c : roslice base.u8\n    var v : base.u8\n" + p.body + "}\n"
		if _, err := parseAndCheck(pkg+".wuffs", []byte(src)); err != nil {
			r.Count("iterate-jump:rejected-by-checker")
			continue
		}
		dir := filepath.Join(tc.dir, pkg)
		os.MkdirAll(dir, 0o755)
		wf := filepath.Join(dir, pkg+".wuffs")
		os.WriteFile(wf, []byte(src), 0o644)
		csrc, stderr, err := hlib.GenPkg(tc.wuffsC, pkg, wf)
		if err != nil {
			if strings.Contains(string(stderr), "within an iterate loop") {
				r.Count("iterate-jump:refused-by-wuffs-c")
			} else {
				r.Fail("iterate-jump:cgen-error:"+p.name, "wuffs-c gen fails on an accepted iterate loop with a jump: "+firstLines(string(stderr), 5), src)
			}
			continue
		}
		os.WriteFile(filepath.Join(dir, pkg+".c"), csrc, 0o644)
		os.Symlink(tc.baseC, filepath.Join(dir, "wuffs-base.c"))
		var m strings.Builder
		fmt.Fprintf(&m, "#define WUFFS_IMPLEMENTATION\n#define WUFFS_CONFIG__MODULES\n#define WUFFS_CONFIG__MODULE__%s\n#include \"%s.c\"\n#include <stdio.h>\n#include <stdlib.h>\n", strings.ToUpper(pkg), pkg)
		fmt.Fprintf(&m, "int main(int argc, char** argv) {\n  size_t n = (size_t)atoi(argv[1]);\n  wuffs_%s__it o;\n  wuffs_%s__it__initialize(&o, sizeof o, WUFFS_VERSION, 0);\n", pkg, pkg)
		m.WriteString("  uint8_t* buf = (uint8_t*)malloc(n ? n : 1);\n  for (size_t i = 0; i < n; i++) buf[i] = (uint8_t)i;\n")
		fmt.Fprintf(&m, "  wuffs_%s__it__r(&o, wuffs_base__make_slice_u8(buf, n));\n  printf(\"v\");\n", pkg)
		m.WriteString("  for (uint32_t i = 0; i < o.private_impl.f_cnt && i < 64; i++) printf(\" %u\", o.private_impl.f_log[i]);\n  printf(\"\\n\");\n  return 0;\n}\n")
		os.WriteFile(filepath.Join(dir, "main.c"), []byte(m.String()), 0o644)
		exe := filepath.Join(dir, "m_clang")
		args := append([]string{}, clangFlags...)
		args = append(args, "-o", exe, filepath.Join(dir, "main.c"), tc.baseObj["clang"])
		if err := hlib.CC("clang", args...); err != nil {
			key := "cc-reject"
			for _, l := range strings.Split(err.Error(), "\n") {
				if i := strings.Index(l, "error:"); i >= 0 {
					key = "cc-reject:" + slug(l[i+6:])
					break
				}
			}
			r.Fail("iterate-jump:"+key, "the C emitted for an accepted iterate loop with a jump ("+p.name+") is rejected by clang:\n"+firstLines(err.Error(), 8), src)
			continue
		}
		for n := 0; n <= maxN; n++ {
			var ws []string
			for _, v := range p.want(n) {
				ws = append(ws, fmt.Sprint(v))
			}
			want := strings.TrimSpace("v " + strings.Join(ws, " "))
			o, e, err := hlib.RunCmd(30*time.Second, dir, []string{"ASAN_OPTIONS=detect_leaks=0"}, nil, exe, fmt.Sprint(n))
			got := strings.TrimSpace(string(o))
			r.Count("iterate-jump:runs")
			replay := fmt.Sprintf("// iterate loop with a jump (%s); call r on the %d bytes 0,1,…\n%s", p.name, n, src)
			if err != nil {
				if strings.Contains(err.Error(), "timeout") {
					r.Fail("iterate-jump:hang:"+p.name, fmt.Sprintf("the C emitted for an iterate loop with a jump does not return within 30 s on a %d-byte slice (%v)", n, err), replay)
				} else {
					r.Fail("iterate-jump:"+sanitizerKey(string(e)), "sanitizer report / crash:\n"+firstLines(string(e), 6), replay)
				}
				break
			}
			if got != want {
				r.Fail("iterate-jump:diff:"+p.name, "visited chunks differ from the meaning of the source:\n  C:        "+got+"\n  expected: "+want, replay)
				break
			}
		}
	}
}
