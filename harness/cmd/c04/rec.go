package main

// The phases of the C04 harness (shape, nested expressions, iterate, call
// histories, I/O coroutines) run concurrently; each one records what it has to
// say to hlib.Run in a `rec`, and main replays the recordings in a fixed order,
// so that ops.txt / impl.txt / stats.json are deterministic for a seed.

import (
	"wvh/hlib"
)

type rec struct {
	Thorough bool
	Rand     *hlib.Rand
	acts     []func(*hlib.Run)
}

func newRec(r *hlib.Run) *rec {
	return &rec{Thorough: r.Thorough, Rand: r.Rand.Fork()}
}

func (c *rec) do(f func(*hlib.Run)) { c.acts = append(c.acts, f) }

func (c *rec) Op(op, out string)             { c.do(func(r *hlib.Run) { r.Op(op, out) }) }
func (c *rec) Fail(key, desc, replay string) { c.do(func(r *hlib.Run) { r.Fail(key, desc, replay) }) }
func (c *rec) Count(k string)                { c.do(func(r *hlib.Run) { r.Count(k) }) }
func (c *rec) CountN(k string, n int)        { c.do(func(r *hlib.Run) { r.CountN(k, n) }) }
func (c *rec) Note(s string)                 { c.do(func(r *hlib.Run) { r.Note(s) }) }
func (c *rec) Sample(s string)               { c.do(func(r *hlib.Run) { r.Sample(s) }) }
func (c *rec) Nontrivial(s string)           { c.do(func(r *hlib.Run) { r.Nontrivial(s) }) }
func (c *rec) Extra(k string, v interface{}) { c.do(func(r *hlib.Run) { r.Extra(k, v) }) }

func (c *rec) flush(r *hlib.Run) {
	for _, f := range c.acts {
		f(r)
	}
	c.acts = nil
}

// parallelDo runs f(0) … f(n-1) on up to `workers` goroutines.
func parallelDo(n, workers int, f func(i int)) {
	if workers > n {
		workers = n
	}
	if workers <= 1 {
		for i := 0; i < n; i++ {
			f(i)
		}
		return
	}
	ch := make(chan int)
	done := make(chan struct{})
	for w := 0; w < workers; w++ {
		go func() {
			for i := range ch {
				f(i)
			}
			done <- struct{}{}
		}()
	}
	for i := 0; i < n; i++ {
		ch <- i
	}
	close(ch)
	for w := 0; w < workers; w++ {
		<-done
	}
}

// acceptedAll: which of the probe functions (each a complete top-level
// declaration, to be placed behind `head`) the real front end accepts. Fast
// path: the whole package at once; only when that is rejected, one by one.
func acceptedAll(file, head string, srcs []string) (ok []bool, firstErr []string) {
	ok = make([]bool, len(srcs))
	firstErr = make([]string, len(srcs))
	whole := head
	for _, s := range srcs {
		whole += s + "\n"
	}
	if _, err := parseAndCheck(file, []byte(whole)); err == nil {
		for i := range ok {
			ok[i] = true
		}
		return
	}
	parallelDo(len(srcs), 12, func(i int) {
		if _, err := parseAndCheck(file, []byte(head+srcs[i])); err != nil {
			firstErr[i] = firstLines(err.Error(), 1)
		} else {
			ok[i] = true
		}
	})
	return
}
