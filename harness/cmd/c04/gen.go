package main

// Generator of Wuffs programs of the C04 fragment (one struct + methods per
// program) together with call histories.  Type- and range-directed: every
// expression carries the static interval the checker (lang/check/bounds.go)
// will derive for it — computed with /repo's own lib/interval — so that plain
// arithmetic stays provably in range and the program is accepted; the windows
// are chosen tight, so that boundary argument values drive results exactly to
// the ends of the types (0, max, 2^k±1).  Anything the checker nevertheless
// rejects is discarded and counted.

import (
	"fmt"
	"math/big"
	"strings"

	"github.com/google/wuffs/lib/interval"
	"wvh/hlib"
)

type wty struct {
	name string
	bits int
}

var wtys = [4]wty{{"u8", 8}, {"u16", 16}, {"u32", 32}, {"u64", 64}}

func (w wty) max() *big.Int {
	m := new(big.Int).Lsh(big.NewInt(1), uint(w.bits))
	return m.Sub(m, big.NewInt(1))
}
func (w wty) src() string { return "base." + w.name }
func (w wty) ctype() string {
	return fmt.Sprintf("uint%d_t", w.bits)
}

const (
	kNum = iota
	kBool
	kArr
)

// vtype is a declared type: numeric (maybe refined), bool, or array of numeric.
type vtype struct {
	kind    int
	w       wty
	lo, hi  *big.Int // effective bounds of a numeric (element) type
	refined bool
	n       int // array length
}

func numT(w wty) vtype { return vtype{kind: kNum, w: w, lo: big.NewInt(0), hi: w.max()} }
func refT(w wty, lo, hi *big.Int) vtype {
	return vtype{kind: kNum, w: w, lo: lo, hi: hi, refined: true}
}
func boolT() vtype { return vtype{kind: kBool, lo: big.NewInt(0), hi: big.NewInt(1)} }
func arrT(n int, w wty) vtype {
	return vtype{kind: kArr, w: w, lo: big.NewInt(0), hi: w.max(), n: n}
}

func (t vtype) elemSrc() string {
	s := t.w.src()
	if t.refined {
		if t.lo.Sign() == 0 {
			s += fmt.Sprintf("[..= %s]", t.hi)
		} else {
			s += fmt.Sprintf("[%s ..= %s]", t.lo, t.hi)
		}
	}
	return s
}

func (t vtype) src() string {
	switch t.kind {
	case kBool:
		return "base.bool"
	case kArr:
		return fmt.Sprintf("array[%d] %s", t.n, t.elemSrc())
	}
	return t.elemSrc()
}

type slot struct {
	name     string // bare name
	expr     string // Wuffs expression that reads it: x, args.x, this.x
	t        vtype
	writable bool
}

type ex struct {
	s     string
	b     interval.IntRange
	konst bool
}

type method struct {
	name    string
	pub     bool
	impure  bool
	params  []slot
	out     *vtype
	locals  []slot
	body    []string
	hasLoop bool
}

type program struct {
	sname   string
	consts  []slot // package-level consts (names carry the struct name)
	cdecls  []string
	fields  []slot
	methods []*method
	src     string
	nOps    map[string]int
	failKey string // key of a reference mismatch on this program (default ref-diff)
}

type call struct {
	m    *method
	args []*big.Int
}

type gctx struct {
	r       *hlib.Rand
	p       *program
	m       *method
	helpers []*method // pure methods callable inside expressions
	callees []*method // impure methods callable as statements
	loops   []string  // labels of enclosing loops ("" = unlabelled)
	nloop   int
	budget  int
}

func bi(n int64) *big.Int { return big.NewInt(n) }
func rng(lo, hi *big.Int) interval.IntRange {
	return interval.IntRange{new(big.Int).Set(lo), new(big.Int).Set(hi)}
}
func within(b interval.IntRange, lo, hi *big.Int) bool {
	return b[0] != nil && b[1] != nil && b[0].Cmp(lo) >= 0 && b[1].Cmp(hi) <= 0
}
func minB(a, b *big.Int) *big.Int {
	if a.Cmp(b) < 0 {
		return a
	}
	return b
}

// randBig returns a value in [lo, hi], biased to the ends and to 2^k±1.
func (g *gctx) randBig(lo, hi *big.Int) *big.Int {
	if lo.Cmp(hi) >= 0 {
		return new(big.Int).Set(lo)
	}
	span := new(big.Int).Sub(hi, lo)
	clip := func(v *big.Int) *big.Int {
		if v.Cmp(lo) < 0 {
			return new(big.Int).Set(lo)
		}
		if v.Cmp(hi) > 0 {
			return new(big.Int).Set(hi)
		}
		return v
	}
	switch g.r.Intn(10) {
	case 0:
		return new(big.Int).Set(lo)
	case 1:
		return new(big.Int).Set(hi)
	case 2:
		return clip(new(big.Int).Add(lo, bi(1)))
	case 3:
		return clip(new(big.Int).Sub(hi, bi(1)))
	case 4, 5:
		k := uint(g.r.Intn(hi.BitLen() + 1))
		v := new(big.Int).Lsh(bi(1), k)
		v.Add(v, bi(int64(g.r.Intn(3)-1)))
		return clip(v)
	case 6:
		return clip(bi(int64(g.r.Intn(17))))
	}
	v := new(big.Int).SetUint64(g.r.Uint64())
	if span.BitLen() > 64 {
		v.Lsh(v, 1)
	}
	v.Mod(v, new(big.Int).Add(span, bi(1)))
	return v.Add(v, lo)
}

func lit(v *big.Int, r *hlib.Rand) string {
	if r.Intn(4) == 0 && v.BitLen() > 3 {
		return "0x" + strings.ToUpper(v.Text(16))
	}
	return v.String()
}

func (g *gctx) constEx(lo, hi *big.Int) ex {
	v := g.randBig(lo, hi)
	return ex{s: lit(v, g.r), b: rng(v, v), konst: true}
}

func (g *gctx) count(k string) { g.p.nOps[k]++ }

// numSlots lists the readable numeric atoms of type w inside the window.
func (g *gctx) numAtoms(w wty, lo, hi *big.Int) []ex {
	var out []ex
	add := func(s slot) {
		switch s.t.kind {
		case kNum:
			if s.t.w == w && s.t.lo.Cmp(lo) >= 0 && s.t.hi.Cmp(hi) <= 0 {
				out = append(out, ex{s: s.expr, b: rng(s.t.lo, s.t.hi)})
			}
		case kArr:
			if s.t.w == w && s.t.lo.Cmp(lo) >= 0 && s.t.hi.Cmp(hi) <= 0 {
				out = append(out, ex{s: s.expr + "[" + g.indexExpr(s.t.n) + "]", b: rng(s.t.lo, s.t.hi)})
			}
		}
	}
	for _, s := range g.m.locals {
		add(s)
	}
	for _, s := range g.m.params {
		add(s)
	}
	for _, s := range g.p.fields {
		add(s)
	}
	for _, s := range g.p.consts {
		if s.t.kind == kNum {
			// a scalar const is a typed constant (ConstValue set, not ideal)
			if s.t.w == w && s.t.lo.Cmp(lo) >= 0 && s.t.hi.Cmp(hi) <= 0 {
				out = append(out, ex{s: s.expr, b: rng(s.t.lo, s.t.hi), konst: true})
			}
		} else {
			add(s)
		}
	}
	return out
}

// indexExpr yields an index expression provably inside [0, n-1].
func (g *gctx) indexExpr(n int) string {
	switch g.r.Intn(4) {
	case 0:
		return fmt.Sprint(g.r.Intn(n))
	case 1:
		// a refined index variable, if the method has one that fits
		for _, s := range g.m.locals {
			if s.t.kind == kNum && s.t.refined && s.t.hi.Cmp(bi(int64(n-1))) <= 0 {
				return s.expr
			}
		}
	}
	// (e & (n-1)) for power-of-two n, else (e % n)
	w := wtys[g.r.Intn(4)]
	e := g.atomOrConst(w)
	if n&(n-1) == 0 {
		return fmt.Sprintf("(%s & %d)", e.s, n-1)
	}
	return fmt.Sprintf("(%s %% %d)", e.s, n)
}

func (g *gctx) atomOrConst(w wty) ex {
	as := g.simpleAtoms(w)
	if len(as) > 0 && g.r.Intn(8) != 0 {
		return as[g.r.Intn(len(as))]
	}
	return g.constEx(bi(0), w.max())
}

// nonConst: some non-constant expression of type w (c0 is always declared).
func (g *gctx) nonConst(w wty) ex {
	if as := g.simpleAtoms(w); len(as) > 0 {
		return as[g.r.Intn(len(as))]
	}
	switch w.bits {
	case 32:
		return ex{s: "c0", b: rng(bi(0), w.max())}
	case 64:
		return ex{s: "(c0 as base.u64)", b: rng(bi(0), wtys[2].max())}
	}
	return ex{s: fmt.Sprintf("((c0 & %s) as %s)", w.max(), w.src()), b: rng(bi(0), w.max())}
}

// simpleAtoms: scalar (non-indexed, non-const) atoms of exactly type w.
func (g *gctx) simpleAtoms(w wty) []ex {
	var out []ex
	add := func(s slot) {
		if s.t.kind == kNum && s.t.w == w {
			out = append(out, ex{s: s.expr, b: rng(s.t.lo, s.t.hi)})
		}
	}
	for _, s := range g.m.locals {
		add(s)
	}
	for _, s := range g.m.params {
		add(s)
	}
	for _, s := range g.p.fields {
		add(s)
	}
	return out
}

// opBounds mirrors bcheckExprBinaryOp1 for the operators the generator uses.
func opBounds(op string, w wty, l, r interval.IntRange) (interval.IntRange, bool) {
	zero, one := bi(0), bi(1)
	switch op {
	case "+":
		return l.Add(r), true
	case "-":
		return l.Sub(r), true
	case "*":
		return l.Mul(r), true
	case "/":
		if r[0].Sign() <= 0 {
			return interval.IntRange{}, false
		}
		return l.TryQuo(r)
	case "%":
		if r[0].Sign() <= 0 {
			return interval.IntRange{}, false
		}
		return interval.IntRange{zero, new(big.Int).Sub(r[1], one)}, true
	case "<<", ">>", "~mod<<":
		if r[0].Sign() < 0 || r[1].Cmp(bi(int64(w.bits-1))) > 0 {
			return interval.IntRange{}, false
		}
		if op == ">>" {
			return l.TryRsh(r)
		}
		z, ok := l.TryLsh(r)
		if !ok {
			return z, false
		}
		if op == "~mod<<" {
			z[1] = minB(z[1], w.max())
		}
		return z, true
	case "&":
		return l.And(r), true
	case "|":
		return l.Or(r), true
	case "^":
		z := l[1]
		if r[1].Cmp(z) > 0 {
			z = r[1]
		}
		m := new(big.Int).Lsh(one, uint(z.BitLen()))
		return interval.IntRange{zero, m.Sub(m, one)}, true
	case "~mod+", "~mod-", "~mod*":
		return interval.IntRange{zero, w.max()}, true
	case "~sat+":
		z := l.Add(r)
		return interval.IntRange{minB(z[0], w.max()), minB(z[1], w.max())}, true
	case "~sat-":
		z := l.Sub(r)
		if z[0].Sign() < 0 {
			z[0] = zero
		}
		if z[1].Sign() < 0 {
			z[1] = zero
		}
		return z, true
	}
	return interval.IntRange{}, false
}

func (g *gctx) bin(op string, w wty, a, b ex) (ex, bool) {
	if a.konst && b.konst {
		return ex{}, false // would be folded (and is an error for the ~ forms)
	}
	nb, ok := opBounds(op, w, a.b, b.b)
	if !ok || nb[0] == nil || nb[1] == nil {
		return ex{}, false
	}
	if a.konst && (op == "<<" || op == ">>" || op == "~mod<<") {
		// "cannot shift an ideal number by a non-ideal number": give it a type
		// (this is the constant-LHS case of writeExprBinaryOp's lhsCast)
		a.s = "(" + a.s + " as " + w.src() + ")"
	}
	return ex{s: "(" + a.s + " " + op + " " + b.s + ")", b: nb}, true
}

func floorPow2m1(v *big.Int) *big.Int {
	// largest 2^k-1 <= v
	k := new(big.Int).Add(v, bi(1)).BitLen() - 1
	m := new(big.Int).Lsh(bi(1), uint(k))
	return m.Sub(m, bi(1))
}

// genNum returns an expression of type w whose checker-derived bounds lie in
// [lo, hi] (0 <= lo <= hi <= w.max).
func (g *gctx) genNum(w wty, d int, lo, hi *big.Int) ex {
	zero := bi(0)
	full := lo.Sign() == 0 && hi.Cmp(w.max()) == 0
	for try := 0; try < 8; try++ {
		var e ex
		ok := false
		choice := g.r.Intn(26)
		if d <= 0 {
			choice = g.r.Intn(3)
		}
		switch choice {
		case 0:
			e, ok = g.constEx(lo, hi), true
		case 1, 2, 3:
			if as := g.numAtoms(w, lo, hi); len(as) > 0 {
				e, ok = as[g.r.Intn(len(as))], true
			}
		case 4: // (A & c)
			if lo.Sign() == 0 {
				a := g.genNum(w, d-1, zero, w.max())
				c := g.constEx(zero, hi)
				if g.r.Intn(3) == 0 {
					c = ex{s: lit(floorPow2m1(hi), g.r), b: rng(floorPow2m1(hi), floorPow2m1(hi)), konst: true}
				}
				if g.r.Bool() {
					e, ok = g.bin("&", w, a, c)
				} else {
					e, ok = g.bin("&", w, c, a)
				}
				g.count("op:&")
			}
		case 5: // (A % c)
			if lo.Sign() == 0 {
				a := g.genNum(w, d-1, zero, w.max())
				c := g.constEx(bi(1), minB(new(big.Int).Add(hi, bi(1)), w.max()))
				e, ok = g.bin("%", w, a, c)
				g.count("op:%")
			}
		case 6: // (A >> s)
			if lo.Sign() == 0 {
				a := g.genNum(w, d-1, zero, w.max())
				s := g.shiftAmount(w, d-1, w.bits-1)
				e, ok = g.bin(">>", w, a, s)
				g.count("op:>>")
			}
		case 7: // (A / B)
			if lo.Sign() == 0 {
				a := g.genNum(w, d-1, zero, w.max())
				b := g.genNum(w, d-1, bi(1), w.max())
				e, ok = g.bin("/", w, a, b)
				g.count("op:/")
			}
		case 8, 9: // (A + B)
			hiA := g.randBig(lo, hi)
			a := g.genNum(w, d-1, lo, hiA)
			rest := new(big.Int).Sub(hi, a.b[1])
			b := g.genNum(w, d-1, zero, rest)
			e, ok = g.bin("+", w, a, b)
			g.count("op:+")
		case 10: // (A - B)
			loA := g.randBig(lo, hi)
			a := g.genNum(w, d-1, loA, hi)
			room := new(big.Int).Sub(a.b[0], lo)
			b := g.genNum(w, d-1, zero, room)
			e, ok = g.bin("-", w, a, b)
			g.count("op:-")
		case 11: // (A * B)
			if lo.Sign() == 0 && hi.Sign() > 0 {
				hiA := g.randBig(bi(1), hi)
				a := g.genNum(w, d-1, zero, hiA)
				q := new(big.Int).Set(hi)
				if a.b[1].Sign() > 0 {
					q.Quo(hi, a.b[1])
				}
				b := g.genNum(w, d-1, zero, minB(q, w.max()))
				e, ok = g.bin("*", w, a, b)
				g.count("op:*")
			}
		case 12: // (A << s)
			if lo.Sign() == 0 {
				smax := g.r.Intn(w.bits)
				a := g.genNum(w, d-1, zero, new(big.Int).Rsh(hi, uint(smax)))
				s := g.shiftAmount(w, d-1, smax)
				e, ok = g.bin("<<", w, a, s)
				g.count("op:<<")
			}
		case 13: // | and ^
			if lo.Sign() == 0 {
				m := floorPow2m1(hi)
				a := g.genNum(w, d-1, zero, m)
				b := g.genNum(w, d-1, zero, m)
				op := "|"
				if g.r.Bool() {
					op = "^"
				}
				e, ok = g.bin(op, w, a, b)
				g.count("op:" + op)
			}
		case 14, 15, 16: // modular
			if full {
				op := []string{"~mod+", "~mod-", "~mod*"}[g.r.Intn(3)]
				a := g.genNum(w, d-1, zero, w.max())
				b := g.genNum(w, d-1, zero, w.max())
				e, ok = g.bin(op, w, a, b)
				g.count("op:" + op)
			}
		case 17: // ~mod<<
			if full {
				a := g.genNum(w, d-1, zero, w.max())
				s := g.shiftAmount(w, d-1, w.bits-1)
				e, ok = g.bin("~mod<<", w, a, s)
				g.count("op:~mod<<")
			}
		case 18: // saturating
			a := g.genNum(w, d-1, zero, hi)
			b := g.genNum(w, d-1, zero, w.max())
			op := "~sat-"
			if hi.Cmp(w.max()) == 0 && g.r.Bool() {
				op = "~sat+"
				a = g.genNum(w, d-1, lo, w.max())
			}
			e, ok = g.bin(op, w, a, b)
			g.count("op:" + op)
		case 19, 20: // (E as w)
			w2 := wtys[g.r.Intn(4)]
			if w2 != w && lo.Cmp(w2.max()) <= 0 {
				h2 := minB(hi, w2.max())
				inner := g.genNum(w2, d-1, lo, h2)
				if w2.bits > w.bits && g.r.Intn(3) == 0 && lo.Sign() == 0 && hi.Cmp(w.max()) == 0 {
					// the "& redundantMask" idiom, dropped by writeExprAs
					inner0 := g.genNum(w2, d-1, zero, w2.max())
					mk := ex{s: lit(w.max(), g.r), b: rng(w.max(), w.max()), konst: true}
					var okk bool
					if g.r.Bool() {
						inner, okk = g.bin("&", w2, inner0, mk)
					} else {
						inner, okk = g.bin("&", w2, mk, inner0)
					}
					if !okk {
						break
					}
					g.count("as:redundant-mask")
				}
				e, ok = ex{s: "(" + inner.s + " as " + w.src() + ")", b: inner.b, konst: inner.konst}, true
				g.count(fmt.Sprintf("as:%s->%s", w2.name, w.name))
			}
		case 21: // pure helper call
			var cands []*method
			for _, h := range g.helpers {
				if h.out != nil && h.out.kind == kNum && h.out.w == w && h.out.lo.Cmp(lo) >= 0 && h.out.hi.Cmp(hi) <= 0 {
					cands = append(cands, h)
				}
			}
			if len(cands) > 0 {
				h := cands[g.r.Intn(len(cands))]
				e, ok = ex{s: g.callSrc(h, d-1), b: rng(h.out.lo, h.out.hi)}, true
				g.count("call:pure")
			}
		case 22: // associative + * & | ^
			e, ok = g.assoc(w, d, lo, hi)
		case 23: // constant-LHS shift (the lhsCast rule)
			if full {
				c := g.constEx(zero, w.max())
				s := g.shiftAmount(w, d-1, w.bits-1)
				if !s.konst {
					op := []string{"~mod<<", ">>"}[g.r.Intn(2)]
					c.s = "(" + c.s + " as " + w.src() + ")"
					c.konst = false // typed constant: not ideal, but still a ConstValue node
					e, ok = g.bin(op, w, c, s)
					g.count("op:const-lhs" + op)
				}
			}
		case 24: // checked << with constant LHS
			if lo.Sign() == 0 && hi.Sign() > 0 {
				smax := g.r.Intn(w.bits)
				c := g.constEx(zero, new(big.Int).Rsh(hi, uint(smax)))
				s := g.shiftAmount(w, d-1, smax)
				if !s.konst {
					c.s = "(" + c.s + " as " + w.src() + ")"
					c.konst = false
					e, ok = g.bin("<<", w, c, s)
					g.count("op:const-lhs<<")
				}
			}
		case 25: // unary plus
			a := g.genNum(w, d-1, lo, hi)
			if !a.konst && g.r.Intn(3) == 0 {
				e, ok = ex{s: "(+" + a.s + ")", b: a.b}, true
				g.count("op:unary+")
			}
		}
		if ok && within(e.b, lo, hi) {
			return e
		}
	}
	return g.constEx(lo, hi)
}

// shiftAmount: an expression of ANY unsigned type with bounds inside [0, smax].
func (g *gctx) shiftAmount(w wty, d int, smax int) ex {
	if g.r.Intn(3) == 0 {
		return g.constEx(bi(0), bi(int64(smax)))
	}
	w2 := wtys[g.r.Intn(4)]
	return g.genNum(w2, d, bi(0), bi(int64(smax)))
}

func (g *gctx) assoc(w wty, d int, lo, hi *big.Int) (ex, bool) {
	zero := bi(0)
	n := 3 + g.r.Intn(2)
	op := []string{"+", "*", "&", "|", "^"}[g.r.Intn(5)]
	if lo.Sign() != 0 && op != "+" {
		return ex{}, false
	}
	var parts []ex
	acc := interval.IntRange{}
	// on base.u64, sometimes start with two constants just below 2^32: C literals
	// of type `unsigned int` whose sum / product needs 64 bits
	// (fixes/C04-assoc-leading-constants.patch)
	leadConst := w.bits == 64 && (op == "+" || op == "*") && g.r.Intn(3) == 0
	c31, c32 := new(big.Int).Lsh(bi(1), 31), new(big.Int).Sub(new(big.Int).Lsh(bi(1), 32), bi(1))
	for i := 0; i < n; i++ {
		var p ex
		switch op {
		case "+":
			l := zero
			if i == 0 {
				l = lo
			}
			room := new(big.Int).Set(hi)
			if i > 0 {
				room.Sub(hi, acc[1])
			}
			if room.Cmp(l) < 0 {
				return ex{}, false
			}
			if leadConst && i < 2 && l.Cmp(c31) <= 0 && c31.Cmp(room) <= 0 {
				p = g.constEx(c31, minB(room, c32))
				g.count("op:assoc-leading-constants")
			} else {
				p = g.genNum(w, d-1, l, g.randBig(l, room))
			}
		case "*":
			room := new(big.Int).Set(hi)
			if i > 0 && acc[1].Sign() > 0 {
				room.Quo(hi, acc[1])
			}
			if leadConst && i < 2 && c31.Cmp(room) <= 0 {
				p = g.constEx(c31, minB(room, c32))
				g.count("op:assoc-leading-constants")
			} else {
				p = g.genNum(w, d-1, zero, minB(room, w.max()))
			}
		case "&":
			if i == 0 {
				p = g.genNum(w, d-1, zero, hi)
			} else {
				p = g.genNum(w, d-1, zero, w.max())
			}
		default:
			p = g.genNum(w, d-1, zero, floorPow2m1(hi))
		}
		parts = append(parts, p)
		if i == 0 {
			acc = p.b
		} else {
			nb, ok := opBounds(op, w, acc, p.b)
			if !ok {
				return ex{}, false
			}
			acc = nb
		}
	}
	allConst := true
	ss := make([]string, len(parts))
	for i, p := range parts {
		ss[i] = p.s
		allConst = allConst && p.konst
	}
	if allConst {
		return ex{}, false
	}
	g.count("op:assoc" + op)
	return ex{s: "(" + strings.Join(ss, " "+op+" ") + ")", b: acc}, true
}

func (g *gctx) callSrc(h *method, d int) string {
	var as []string
	for _, p := range h.params {
		var a string
		if p.t.kind == kBool {
			a = g.genBool(d)
		} else {
			a = g.genNum(p.t.w, d, p.t.lo, p.t.hi).s
		}
		as = append(as, p.name+": "+a)
	}
	bang := ""
	if h.impure {
		bang = "!"
	}
	return "this." + h.name + bang + "(" + strings.Join(as, ", ") + ")"
}

func (g *gctx) boolAtoms() []string {
	var out []string
	add := func(s slot) {
		if s.t.kind == kBool {
			out = append(out, s.expr)
		}
	}
	for _, s := range g.m.locals {
		add(s)
	}
	for _, s := range g.m.params {
		add(s)
	}
	for _, s := range g.p.fields {
		add(s)
	}
	return out
}

func (g *gctx) genBool(d int) string {
	choice := g.r.Intn(12)
	if d <= 0 {
		choice = g.r.Intn(5)
	}
	switch choice {
	case 0, 1:
		if as := g.boolAtoms(); len(as) > 0 {
			return as[g.r.Intn(len(as))]
		}
		fallthrough
	case 2, 3, 4, 5, 6, 7:
		w := wtys[g.r.Intn(4)]
		op := []string{"==", "<>", "<", "<=", ">", ">="}[g.r.Intn(6)]
		a := g.genNum(w, d-1, bi(0), w.max())
		var b ex
		if g.r.Intn(3) == 0 {
			b = g.constEx(bi(0), w.max())
		} else {
			b = g.genNum(w, d-1, bi(0), w.max())
		}
		if a.konst && b.konst {
			a = g.nonConst(w)
		}
		g.count("cmp:" + op)
		return "(" + a.s + " " + op + " " + b.s + ")"
	case 8:
		g.count("op:not")
		return "(not " + g.genBool(d-1) + ")"
	case 9:
		g.count("op:and")
		return "(" + g.genBool(d-1) + " and " + g.genBool(d-1) + ")"
	case 10:
		g.count("op:or")
		return "(" + g.genBool(d-1) + " or " + g.genBool(d-1) + ")"
	}
	op := []string{"and", "or"}[g.r.Intn(2)]
	g.count("op:assoc-" + op)
	return "(" + g.genBool(d-1) + " " + op + " " + g.genBool(d-1) + " " + op + " " + g.genBool(d-1) + ")"
}

// ---- statements

func (g *gctx) writableNum() []slot {
	var out []slot
	for _, s := range g.m.locals {
		if s.writable && s.t.kind != kBool {
			out = append(out, s)
		}
	}
	if g.m.impure {
		for _, s := range g.p.fields {
			if s.t.kind != kBool {
				out = append(out, s)
			}
		}
	}
	return out
}

func (g *gctx) writableBool() []slot {
	var out []slot
	for _, s := range g.m.locals {
		if s.writable && s.t.kind == kBool {
			out = append(out, s)
		}
	}
	if g.m.impure {
		for _, s := range g.p.fields {
			if s.t.kind == kBool {
				out = append(out, s)
			}
		}
	}
	return out
}

func ind(n int) string { return strings.Repeat("    ", n) }

// target picks an assignable place: (expression, element type)
func (g *gctx) target() (string, vtype, bool) {
	ws := g.writableNum()
	if len(ws) == 0 {
		return "", vtype{}, false
	}
	s := ws[g.r.Intn(len(ws))]
	if s.t.kind == kArr {
		et := s.t
		et.kind = kNum
		return s.expr + "[" + g.indexExpr(s.t.n) + "]", et, true
	}
	return s.expr, s.t, true
}

func (g *gctx) genStmts(lv int, n int, out *[]string) {
	for i := 0; i < n && g.budget > 0; i++ {
		g.genStmt(lv, out)
	}
}

func (g *gctx) genStmt(lv int, out *[]string) {
	g.budget--
	for try := 0; try < 4; try++ {
		if g.genStmt1(lv, out) {
			return
		}
	}
	// fallback: a modular op-assign, always valid
	if tgt, t, ok := g.target(); ok && !t.refined {
		e := g.genNum(t.w, 1, bi(0), t.w.max())
		*out = append(*out, ind(lv)+tgt+" ~mod+= "+e.s)
		g.count("opassign:~mod+=:" + t.w.name)
	}
}

func (g *gctx) genStmt1(lv int, out *[]string) bool {
	emit := func(s string) { *out = append(*out, ind(lv)+s) }
	d := 1 + g.r.Intn(3)
	choice := g.r.Intn(20)
	if lv >= 4 && choice >= 12 && choice <= 16 {
		choice = g.r.Intn(8)
	}
	switch choice {
	case 0, 1, 2, 3: // plain assignment
		if tgt, t, ok := g.target(); ok {
			e := g.genNum(t.w, d, t.lo, t.hi)
			emit(tgt + " = " + e.s)
			g.count("stmt:assign")
			return true
		}
	case 4: // bool assignment
		if ws := g.writableBool(); len(ws) > 0 {
			emit(ws[g.r.Intn(len(ws))].expr + " = " + g.genBool(d))
			g.count("stmt:assign-bool")
			return true
		}
	case 5, 6, 7: // always-accepted op-assign
		if tgt, t, ok := g.target(); ok && !t.refined {
			op := []string{"~mod+=", "~mod-=", "~mod*=", "~mod<<=", "~sat+=", "~sat-=", "&=", "|=", "^=", ">>=", "/=", "%="}[g.r.Intn(12)]
			var e ex
			switch op {
			case "~mod<<=", ">>=":
				e = g.shiftAmount(t.w, d, t.w.bits-1)
			case "/=", "%=":
				e = g.genNum(t.w, d, bi(1), t.w.max())
			default:
				e = g.genNum(t.w, d, bi(0), t.w.max())
			}
			emit(tgt + " " + op + " " + e.s)
			g.count("opassign:" + op + ":" + t.w.name)
			return true
		}
	case 8, 9: // guarded checked op-assign: if v < K { v += e }
		ws := g.writableNum()
		var cands []slot
		for _, s := range ws {
			if s.t.kind == kNum && !s.t.refined {
				cands = append(cands, s)
			}
		}
		if len(cands) > 0 {
			s := cands[g.r.Intn(len(cands))]
			w := s.t.w
			// forget what the checker knows about s (a guard that contradicts a
			// known fact is rejected as inconsistent)
			emit(s.expr + " ~mod+= " + g.genNumNoRef(w, 1, bi(0), w.max(), s.expr).s)
			switch g.r.Intn(4) {
			case 0: // +=
				k := g.randBig(bi(1), w.max())
				room := new(big.Int).Sub(w.max(), new(big.Int).Sub(k, bi(1)))
				e := g.genNumNoRef(w, d, bi(0), room, s.expr)
				emit(fmt.Sprintf("if %s < %s {", s.expr, lit(k, g.r)))
				*out = append(*out, ind(lv+1)+s.expr+" += "+e.s)
				emit("}")
				g.count("opassign:+=:" + w.name)
			case 1: // -=
				k := g.randBig(bi(0), w.max())
				e := g.genNumNoRef(w, d, bi(0), k, s.expr)
				emit(fmt.Sprintf("if %s >= %s {", s.expr, lit(k, g.r)))
				*out = append(*out, ind(lv+1)+s.expr+" -= "+e.s)
				emit("}")
				g.count("opassign:-=:" + w.name)
			case 2: // *=
				c := g.randBig(bi(1), bi(255))
				k := new(big.Int).Quo(w.max(), c) // v <= k  =>  v*c <= max
				emit(fmt.Sprintf("if %s <= %s {", s.expr, lit(k, g.r)))
				*out = append(*out, ind(lv+1)+s.expr+" *= "+lit(c, g.r))
				emit("}")
				g.count("opassign:*=:" + w.name)
			case 3: // <<=
				sh := g.r.Intn(w.bits)
				k := new(big.Int).Rsh(w.max(), uint(sh))
				emit(fmt.Sprintf("if %s <= %s {", s.expr, lit(k, g.r)))
				*out = append(*out, ind(lv+1)+s.expr+fmt.Sprintf(" <<= %d", sh))
				emit("}")
				g.count("opassign:<<=:" + w.name)
			}
			return true
		}
	case 10: // fact-based subtraction: if a >= b { t = a - b }
		w := wtys[g.r.Intn(4)]
		as := g.simpleAtoms(w)
		if tgt, t, ok := g.target(); ok && !t.refined && t.w == w && len(as) >= 2 {
			a, b := as[g.r.Intn(len(as))], as[g.r.Intn(len(as))]
			if a.s != b.s && tgt != a.s && tgt != b.s {
				emit(fmt.Sprintf("if %s >= %s {", a.s, b.s))
				*out = append(*out, ind(lv+1)+fmt.Sprintf("%s = %s - %s", tgt, a.s, b.s))
				emit("}")
				g.count("stmt:fact-sub")
				return true
			}
		}
	case 11: // call statement
		if len(g.callees) > 0 && g.m.impure {
			h := g.callees[g.r.Intn(len(g.callees))]
			c := g.callSrc(h, 1)
			if h.out != nil {
				// assign the result to an unrefined place of the same type
				var cands []slot
				for _, s := range g.writableNum() {
					if s.t.kind == kNum && !s.t.refined && h.out.kind == kNum && s.t.w == h.out.w {
						cands = append(cands, s)
					}
				}
				if h.out.kind == kBool {
					cands = g.writableBool()
				}
				if len(cands) > 0 {
					emit(cands[g.r.Intn(len(cands))].expr + " = " + c)
					g.count("stmt:call-assign")
					return true
				}
			} else {
				emit(c)
				g.count("stmt:call")
				return true
			}
		}
	case 12, 13: // if / else if / else
		emit("if " + g.genBool(d) + " {")
		g.genStmts(lv+1, 1+g.r.Intn(3), out)
		for g.r.Intn(3) == 0 {
			emit("} else if " + g.genBool(d) + " {")
			g.genStmts(lv+1, 1+g.r.Intn(2), out)
		}
		if g.r.Bool() {
			emit("} else {")
			g.genStmts(lv+1, 1+g.r.Intn(2), out)
		}
		emit("}")
		g.count("stmt:if")
		return true
	case 14, 15: // counted while loop
		if g.nloop < 3 && len(g.loops) < 3 {
			g.genWhile(lv, out)
			return true
		}
	case 16: // "while true { … break }" (lowered to do { } while (0) when it has no continue)
		if len(g.loops) < 3 {
			label := ""
			if g.r.Intn(3) == 0 {
				label = fmt.Sprintf("t%d", g.nloop)
				if g.r.Intn(2) == 0 {
					label = g.depthLabel()
				}
			}
			g.nloop++
			dot := ""
			if label != "" {
				dot = "." + label
			}
			emit("while" + dot + " true {")
			// no unlabelled continue may target this loop: it would never end
			g.loops = append(g.loops, "!"+label)
			g.genStmts(lv+1, 1+g.r.Intn(3), out)
			g.loops = g.loops[:len(g.loops)-1]
			// the last statement: usually this loop's own `break` (the trivial
			// do-while(0) form); sometimes a jump to an ENCLOSING labelled loop
			// (`break.outer` / `continue.outer`), which must not be mistaken for it
			last := "break" + dot
			var outer []string
			for _, l := range g.loops {
				if strings.TrimPrefix(l, "!") != "" {
					outer = append(outer, l)
				}
			}
			if len(outer) > 0 && g.r.Intn(3) == 0 {
				l := outer[g.r.Intn(len(outer))]
				if !strings.HasPrefix(l, "!") && g.r.Bool() {
					last = "continue." + l
					g.count("stmt:while-true-ends-in-outer-continue")
				} else {
					last = "break." + strings.TrimPrefix(l, "!")
					g.count("stmt:while-true-ends-in-outer-break")
				}
			}
			*out = append(*out, ind(lv+1)+last)
			emit("}" + dot)
			g.count("stmt:while-true")
			g.m.hasLoop = true
			return true
		}
	case 17: // jump
		if len(g.loops) > 0 {
			g.genJump(lv, out)
			return true
		}
	case 18: // early return
		if g.r.Intn(2) == 0 {
			emit("if " + g.genBool(1) + " {")
			*out = append(*out, ind(lv+1)+g.retStmt(d))
			emit("}")
			g.count("stmt:early-return")
			return true
		}
	}
	return false
}

// genNumNoRef is genNum that must not mention the variable `avoid` (the
// guarded op-assign patterns rely on the fact about it surviving).
func (g *gctx) genNumNoRef(w wty, d int, lo, hi *big.Int, avoid string) ex {
	for i := 0; i < 6; i++ {
		e := g.genNum(w, d, lo, hi)
		if !strings.Contains(e.s, avoid) && !strings.Contains(e.s, "this.") {
			return e
		}
	}
	return g.constEx(lo, hi)
}

// depthLabel names a loop after its nesting depth: distinct from the labels of
// the enclosing loops (all that the language demands), but shared by sibling
// loops of the same method (C labels, however, have function scope).
func (g *gctx) depthLabel() string {
	g.count("stmt:label-shared-by-siblings")
	return fmt.Sprintf("d%d", len(g.loops))
}

func (g *gctx) genWhile(lv int, out *[]string) {
	emit := func(s string) { *out = append(*out, ind(lv)+s) }
	ctr := fmt.Sprintf("c%d", g.nloop)
	label := ""
	if g.r.Intn(2) == 0 {
		label = fmt.Sprintf("w%d", g.nloop)
		if g.r.Intn(2) == 0 {
			label = g.depthLabel()
		}
	}
	g.nloop++
	n := 1 + g.r.Intn(5)
	dot := ""
	if label != "" {
		dot = "." + label
	}
	emit(ctr + " = 0")
	if g.r.Intn(3) == 0 {
		// `while true` that is NOT the trivial do-while(0) form: counter test inside
		emit(fmt.Sprintf("while%s true {", dot))
		*out = append(*out, ind(lv+1)+ctr+" ~mod+= 1")
		*out = append(*out, ind(lv+1)+fmt.Sprintf("if %s > %d {", ctr, n))
		*out = append(*out, ind(lv+2)+"break"+dot)
		*out = append(*out, ind(lv+1)+"}")
		g.count("stmt:while-true-counted")
	} else {
		emit(fmt.Sprintf("while%s %s < %d {", dot, ctr, n))
		*out = append(*out, ind(lv+1)+ctr+" ~mod+= 1")
	}
	g.loops = append(g.loops, label)
	g.genStmts(lv+1, 1+g.r.Intn(4), out)
	g.loops = g.loops[:len(g.loops)-1]
	emit("}" + dot)
	g.count("stmt:while")
	g.m.hasLoop = true
}

func (g *gctx) genJump(lv int, out *[]string) {
	emit := func(s string) { *out = append(*out, ind(lv)+s) }
	// pick a target among the enclosing loops; "!label" marks a while-true
	// loop, which must not be continued. A labelled loop must be named; an
	// unlabelled one can only be the innermost.
	var cands []int
	for i, l := range g.loops {
		if strings.TrimPrefix(l, "!") != "" || i == len(g.loops)-1 {
			cands = append(cands, i)
		}
	}
	i := cands[g.r.Intn(len(cands))]
	l := g.loops[i]
	isTrue := strings.HasPrefix(l, "!")
	l = strings.TrimPrefix(l, "!")
	kw := "break"
	if !isTrue && g.r.Bool() {
		kw = "continue"
	}
	stmt := kw
	if l != "" {
		stmt = kw + "." + l
	}
	emit("if " + g.genBool(1) + " {")
	*out = append(*out, ind(lv+1)+stmt)
	emit("}")
	g.count("stmt:" + kw)
	if i != len(g.loops)-1 {
		g.count("stmt:deep-" + kw)
	}
}

func (g *gctx) retStmt(d int) string {
	if g.m.out == nil {
		return "return nothing"
	}
	if g.m.out.kind == kBool {
		return "return " + g.genBool(d)
	}
	return "return " + g.genNum(g.m.out.w, d, g.m.out.lo, g.m.out.hi).s
}

// ---- program

func (g *gctx) randType(allowRef bool) vtype {
	w := wtys[g.r.Intn(4)]
	switch g.r.Intn(8) {
	case 0:
		return boolT()
	case 1, 2:
		if allowRef {
			hi := g.randBig(bi(0), w.max())
			return refT(w, bi(0), hi)
		}
	}
	return numT(w)
}

func genProgram(r *hlib.Rand, sname string) *program {
	p := &program{sname: sname, nOps: map[string]int{}}
	g := &gctx{r: r, p: p}
	g.m = &method{} // for const generation helpers

	// consts
	nc := r.Intn(3)
	for i := 0; i < nc; i++ {
		w := wtys[r.Intn(4)]
		name := fmt.Sprintf("K_%s_%d", strings.ToUpper(sname), i)
		if r.Intn(3) == 0 {
			n := []int{2, 3, 4, 8}[r.Intn(4)]
			vals := make([]string, n)
			for j := range vals {
				vals[j] = lit(g.randBig(bi(0), w.max()), r)
			}
			t := arrT(n, w)
			p.consts = append(p.consts, slot{name: name, expr: name, t: t})
			p.cdecls = append(p.cdecls, fmt.Sprintf("pri const %s : roarray[%d] %s = [%s]", name, n, w.src(), strings.Join(vals, ", ")))
		} else {
			v := g.randBig(bi(0), w.max())
			p.consts = append(p.consts, slot{name: name, expr: name, t: refT(w, v, v)})
			p.cdecls = append(p.cdecls, fmt.Sprintf("pri const %s : %s = %s", name, w.src(), lit(v, r)))
		}
	}

	// fields
	nf := 2 + r.Intn(5)
	for i := 0; i < nf; i++ {
		name := fmt.Sprintf("f%d", i)
		var t vtype
		if r.Intn(5) == 0 {
			t = arrT([]int{2, 3, 4, 8}[r.Intn(4)], wtys[r.Intn(4)])
		} else {
			t = g.randType(true)
		}
		p.fields = append(p.fields, slot{name: name, expr: "this." + name, t: t, writable: true})
	}

	// methods: pure helpers first, then impure ones; each may use the earlier ones
	nm := 2 + r.Intn(4)
	for i := 0; i < nm; i++ {
		m := &method{name: fmt.Sprintf("m%d", i)}
		m.impure = i >= 1 && r.Intn(4) != 0
		m.pub = r.Intn(3) != 0
		np := r.Intn(4)
		for j := 0; j < np; j++ {
			name := fmt.Sprintf("a%d", j)
			t := g.randType(true)
			// a public method with a refined argument must return nothing (the
			// generated argument check returns an empty struct), and must be
			// impure (the check writes self->private_impl.magic).
			m.params = append(m.params, slot{name: name, expr: "args." + name, t: t})
		}
		hasRef := false
		for _, s := range m.params {
			hasRef = hasRef || s.t.refined
		}
		switch {
		case m.pub && hasRef:
			m.impure = true
			m.out = nil
		case !m.impure || r.Intn(4) != 0:
			t := g.randType(true)
			for m.pub && t.kind == kBool {
				// cgen cannot emit the disabled-object return value of a public
				// method returning bool ("cannot write the zero value of type base.bool")
				t = g.randType(true)
			}
			m.out = &t
		}
		// locals
		for _, w := range wtys {
			for k := 0; k < 2; k++ {
				if r.Intn(3) != 0 {
					name := fmt.Sprintf("v%d%c", w.bits, 'a'+k)
					m.locals = append(m.locals, slot{name: name, expr: name, t: numT(w), writable: true})
				}
			}
		}
		if r.Bool() {
			m.locals = append(m.locals, slot{name: "ix", expr: "ix", t: refT(wtys[2], bi(0), bi(int64([]int{1, 3, 7}[r.Intn(3)]))), writable: true})
		}
		if r.Bool() {
			w := wtys[r.Intn(4)]
			m.locals = append(m.locals, slot{name: "rr", expr: "rr", t: refT(w, bi(0), g.randBig(bi(1), w.max())), writable: true})
		}
		for k := 0; k < 2; k++ {
			if r.Bool() {
				name := fmt.Sprintf("b%c", 'a'+k)
				m.locals = append(m.locals, slot{name: name, expr: name, t: boolT(), writable: true})
			}
		}
		if r.Intn(3) == 0 {
			m.locals = append(m.locals, slot{name: "la", expr: "la", t: arrT([]int{2, 4}[r.Intn(2)], wtys[r.Intn(4)]), writable: true})
		}
		for k := 0; k < 3; k++ {
			name := fmt.Sprintf("c%d", k)
			m.locals = append(m.locals, slot{name: name, expr: name, t: numT(wtys[2]), writable: false})
		}
		g.m = m
		g.loops = nil
		g.nloop = 0
		g.budget = 6 + r.Intn(14)
		var body []string
		// seed some locals from arguments / fields / constants, so that
		// interesting values flow through the body
		for _, l := range m.locals {
			if l.writable && l.t.kind == kNum && r.Intn(2) == 0 {
				body = append(body, ind(1)+l.expr+" = "+g.genNum(l.t.w, 2, l.t.lo, l.t.hi).s)
			}
		}
		g.genStmts(1, 2+r.Intn(7), &body)
		if m.impure {
			// make the work observable: store into fields
			for _, f := range p.fields {
				if r.Intn(2) == 0 {
					switch f.t.kind {
					case kNum:
						body = append(body, ind(1)+f.expr+" = "+g.genNum(f.t.w, 2, f.t.lo, f.t.hi).s)
					case kBool:
						body = append(body, ind(1)+f.expr+" = "+g.genBool(2))
					case kArr:
						body = append(body, ind(1)+f.expr+"["+g.indexExpr(f.t.n)+"] = "+g.genNum(f.t.w, 2, f.t.lo, f.t.hi).s)
					}
				}
			}
		}
		if m.out != nil || r.Bool() {
			body = append(body, ind(1)+g.retStmt(2))
		}
		m.body = body
		p.methods = append(p.methods, m)
		if m.impure {
			g.callees = append(g.callees, m)
		} else {
			g.helpers = append(g.helpers, m)
		}
	}
	p.src = p.render()
	return p
}

func (m *method) sig(sname string) string {
	var ps []string
	for _, s := range m.params {
		ps = append(ps, s.name+": "+s.t.src())
	}
	vis := "pri"
	if m.pub {
		vis = "pub"
	}
	bang := ""
	if m.impure {
		bang = "!"
	}
	out := ""
	if m.out != nil {
		out = " " + m.out.src()
	}
	return fmt.Sprintf("%s func %s.%s%s(%s)%s", vis, sname, m.name, bang, strings.Join(ps, ", "), out)
}

func (p *program) render() string {
	var b strings.Builder
	for _, c := range p.cdecls {
		b.WriteString(c + "\n")
	}
	if len(p.cdecls) > 0 {
		b.WriteString("\n")
	}
	fmt.Fprintf(&b, "pub struct %s?(\n", p.sname)
	for _, f := range p.fields {
		fmt.Fprintf(&b, "    %s : %s,\n", f.name, f.t.src())
	}
	b.WriteString(")\n\n")
	for _, m := range p.methods {
		b.WriteString(m.sig(p.sname) + " {\n")
		for _, l := range m.locals {
			fmt.Fprintf(&b, "    var %s : %s\n", l.name, l.t.src())
		}
		for _, l := range m.body {
			b.WriteString(l + "\n")
		}
		b.WriteString("}\n\n")
	}
	return b.String()
}

// genHistory: calls with boundary-biased argument values inside the declared
// parameter ranges (and, rarely, outside them for public methods, which
// disables the object).
func genHistory(r *hlib.Rand, p *program) []call {
	g := &gctx{r: r, p: p, m: &method{}}
	n := 3 + r.Intn(8)
	var h []call
	for i := 0; i < n; i++ {
		m := p.methods[r.Intn(len(p.methods))]
		c := call{m: m}
		for _, s := range m.params {
			var v *big.Int
			if s.t.kind == kBool {
				v = bi(int64(r.Intn(2)))
			} else {
				v = g.randBig(s.t.lo, s.t.hi)
				if m.pub && s.t.refined && s.t.hi.Cmp(s.t.w.max()) < 0 && r.Intn(25) == 0 {
					v = new(big.Int).Add(s.t.hi, bi(1)) // just outside: the object gets disabled
				}
			}
			c.args = append(c.args, v)
		}
		h = append(h, c)
	}
	return h
}
