package main

// Nested-expression probes — the tie of the expression-tree model
// (lean/WuffsVerif/Model/CExprTree.lean lowerN / lowerB, the subject of
// Props/C04Expr.lean exprN_correct / exprB_correct) to the working tree's
// writeExpr recursion: random, fully parenthesised expression trees over four
// arguments x, y (of one unsigned type) and z, w (of another) are put through
// the real front end and wuffs-c; the C text of each `return` expression is
// read by the C-expression reader of shape.go and must equal what the Lean
// driver prints for the expression's AST (op `lowerexpr`).  The trees use the
// always-accepted operators (~mod, ~sat, bitwise, shifts and divisions by
// constants), `as` in both directions (narrowing behind a mask: the redundant
// one that writeExprAs drops, and others), range-safe + - * on widened
// operands, comparisons, and / or / not.

import (
	"fmt"
	"math/big"
	"os"
	"path/filepath"
	"strings"

	a "github.com/google/wuffs/lang/ast"
	"wvh/hlib"
)

type etGen struct {
	r      *hlib.Rand
	t1, t2 int // widths (index into wtys) of x,y and of z,w
}

func (g *etGen) varsOf(wi int) []string {
	var vs []string
	if g.t1 == wi {
		vs = append(vs, "args.x", "args.y")
	}
	if g.t2 == wi {
		vs = append(vs, "args.z", "args.w")
	}
	return vs
}

// atom returns a non-constant expression of width wi.
func (g *etGen) atom(wi int) string {
	if vs := g.varsOf(wi); len(vs) > 0 && g.r.Intn(4) != 0 {
		return vs[g.r.Intn(len(vs))]
	}
	// convert a variable of another width
	src, name := g.t1, []string{"args.x", "args.y"}[g.r.Intn(2)]
	if g.r.Bool() {
		src, name = g.t2, []string{"args.z", "args.w"}[g.r.Intn(2)]
	}
	T := wtys[wi].src()
	switch {
	case src == wi:
		return name
	case src < wi:
		return "(" + name + " as " + T + ")"
	default:
		mask := wtys[wi].max()
		if g.r.Intn(3) == 0 { // a mask that is not the redundant one
			mask = new(big.Int).Rsh(mask, uint(1+g.r.Intn(3)))
		}
		if g.r.Bool() {
			return "((" + name + " & " + mask.String() + ") as " + T + ")"
		}
		return "((" + mask.String() + " & " + name + ") as " + T + ")"
	}
}

func (g *etGen) num(wi int, d int) string {
	if d <= 0 {
		if g.r.Intn(5) == 0 {
			return fmt.Sprint(g.r.Intn(200))
		}
		return g.atom(wi)
	}
	w := wtys[wi]
	T := w.src()
	l := g.num(wi, d-1-g.r.Intn(2))
	if _, err := fmt.Sscanf(l, "%d", new(int)); err == nil && !strings.ContainsAny(l, "( ") {
		l = g.atom(wi) // keep the left operand non-constant (two constants are folded)
	}
	switch g.r.Intn(16) {
	case 0, 1:
		return "(" + l + " ~mod+ " + g.num(wi, d-1) + ")"
	case 2:
		return "(" + l + " ~mod- " + g.num(wi, d-1) + ")"
	case 3, 4:
		return "(" + l + " ~mod* " + g.num(wi, d-1) + ")"
	case 5:
		return "(" + l + " & " + g.num(wi, d-1) + ")"
	case 6:
		return "(" + l + " | " + g.num(wi, d-1) + ")"
	case 7:
		return "(" + l + " ^ " + g.num(wi, d-1) + ")"
	case 8:
		return "(" + l + " ~sat+ " + g.num(wi, d-1) + ")"
	case 9:
		return "(" + l + " ~sat- " + g.num(wi, d-1) + ")"
	case 10:
		return fmt.Sprintf("(%s >> %d)", l, g.r.Intn(w.bits))
	case 11:
		return fmt.Sprintf("(%s ~mod<< %d)", l, g.r.Intn(w.bits))
	case 12:
		return fmt.Sprintf("(%s / %d)", l, 1+g.r.Intn(9))
	case 13:
		return fmt.Sprintf("(%s %% %d)", l, 1+g.r.Intn(9))
	case 14:
		// range-safe + or * on operands widened from a narrower type
		if wi > 0 {
			n := wtys[wi-1]
			x, y := g.num(wi-1, d-1), g.num(wi-1, d-1)
			if _, err := fmt.Sscanf(x, "%d", new(int)); err == nil && !strings.ContainsAny(x, "( ") {
				x = g.atom(wi - 1)
			}
			_ = n
			op := []string{"+", "*"}[g.r.Intn(2)]
			return "((" + x + " as " + T + ") " + op + " (" + y + " as " + T + "))"
		}
		return "(" + l + " ~mod+ 1)"
	default:
		// narrowing of a wider tree behind the redundant mask, or widening
		if wi < 3 && g.r.Bool() {
			e := g.num(wi+1, d-1)
			if _, err := fmt.Sscanf(e, "%d", new(int)); err == nil && !strings.ContainsAny(e, "( ") {
				e = g.atom(wi + 1)
			}
			return "((" + e + " & " + w.max().String() + ") as " + T + ")"
		}
		if wi > 0 {
			e := g.num(wi-1, d-1)
			if _, err := fmt.Sscanf(e, "%d", new(int)); err == nil && !strings.ContainsAny(e, "( ") {
				e = g.atom(wi - 1)
			}
			return "(" + e + " as " + T + ")"
		}
		return "(" + l + " ^ 85)"
	}
}

func (g *etGen) boolean(d int) string {
	if d <= 0 || g.r.Intn(3) == 0 {
		wi := g.r.Intn(4)
		l := g.num(wi, 1+g.r.Intn(2))
		op := []string{"<", "<=", "==", "<>", ">=", ">"}[g.r.Intn(6)]
		return "(" + l + " " + op + " " + g.num(wi, g.r.Intn(2)) + ")"
	}
	switch g.r.Intn(3) {
	case 0:
		return "(" + g.boolean(d-1) + " and " + g.boolean(d-1) + ")"
	case 1:
		return "(" + g.boolean(d-1) + " or " + g.boolean(d-1) + ")"
	}
	return "(not " + g.boolean(d-1) + ")"
}

// retExprSexpr serialises the value of the first `return` of function fn.
func (fe *frontEnd) retExprSexpr(fn string) (string, bool) {
	for _, d := range fe.files[0].TopLevelDecls() {
		if d.Kind() != a.KFunc || d.AsFunc().FuncName().Str(fe.tm) != fn {
			continue
		}
		for _, s := range d.AsFunc().Body() {
			if s.Kind() == a.KRet {
				var b strings.Builder
				fe.writeNode(&b, s.AsRet().Value().AsNode())
				return strings.TrimRight(b.String(), " "), true
			}
		}
	}
	return "", false
}

func exprTreeCheck(r *rec, tc *toolchain) {
	n := 60
	if r.Thorough {
		n = 1500
	}
	head := "pub struct s?(\n    f : base.u8,\n)\n\n"
	type pr struct{ name, src string }
	var kept []pr
	var src strings.Builder
	src.WriteString(head)
	cands := make([]pr, n)
	srcs := make([]string, n)
	for k := 0; k < n; k++ {
		g := &etGen{r: r.Rand.Fork()}
		g.t1, g.t2 = g.r.Intn(4), g.r.Intn(4)
		name := fmt.Sprintf("n%d", k)
		params := fmt.Sprintf("x: %s, y: %s, z: %s, w: %s", wtys[g.t1].src(), wtys[g.t1].src(), wtys[g.t2].src(), wtys[g.t2].src())
		var out, e string
		if k%4 == 3 {
			out, e = "base.bool", g.boolean(1+g.r.Intn(2))
		} else {
			wi := g.r.Intn(4)
			out, e = wtys[wi].src(), g.num(wi, 1+g.r.Intn(3))
		}
		fsrc := fmt.Sprintf("pri func s.%s(%s) %s {\n    return %s\n}\n", name, params, out, e)
		cands[k] = pr{name, fsrc}
		srcs[k] = fsrc
	}
	acc, why := acceptedAll("et.wuffs", head, srcs)
	for k := range cands {
		if !acc[k] {
			r.Count("exprtree:probe-rejected-by-checker")
			if os.Getenv("C04_DEBUG") != "" {
				fmt.Fprintf(os.Stderr, "exprtree rejected: %v\n%s\n", why[k], srcs[k])
			}
			continue
		}
		kept = append(kept, cands[k])
		src.WriteString(srcs[k] + "\n")
	}
	fe, err := parseAndCheck("et.wuffs", []byte(src.String()))
	if err != nil {
		r.Note("exprtree package rejected although its functions were accepted one by one: " + firstLines(err.Error(), 2))
		return
	}
	dir := filepath.Join(tc.dir, "et")
	os.MkdirAll(dir, 0o755)
	wf := filepath.Join(dir, "et.wuffs")
	os.WriteFile(wf, []byte(src.String()), 0o644)
	csrc, stderr, err := hlib.GenPkg(tc.wuffsC, "et", wf)
	if err != nil {
		r.Fail("exprtree:cgen-error", "wuffs-c gen fails on the nested-expression probe package: "+firstLines(string(stderr), 5), src.String())
		return
	}
	for _, p := range kept {
		sx, ok := fe.retExprSexpr(p.name)
		if !ok {
			continue
		}
		body, ok := cFuncBody(string(csrc), "wuffs_et__s__"+p.name)
		got := "no-such-function"
		if ok {
			i := strings.Index(body, "return ")
			j := strings.LastIndex(body, ";")
			if i < 0 || j < i {
				got = "no-return"
			} else if e, err := readCExpr(body[i+7 : j]); err != nil {
				got = "unreadable: " + strings.Join(strings.Fields(body[i+7:j]), " ")
			} else {
				got = e
			}
		}
		r.Op("lowerexpr "+sx, got)
		r.Count("exprtree:probes")
		if strings.Contains(p.src, "base.bool {") {
			r.Count("exprtree:boolean")
		}
	}
	// the probe package must be accepted by a C compiler, too
	os.WriteFile(filepath.Join(dir, "et.c"), csrc, 0o644)
	os.Symlink(tc.baseC, filepath.Join(dir, "wuffs-base.c"))
	main := "#define WUFFS_IMPLEMENTATION\n#define WUFFS_CONFIG__MODULES\n#define WUFFS_CONFIG__MODULE__ET\n#include \"et.c\"\nint main(void) { return 0; }\n"
	os.WriteFile(filepath.Join(dir, "main.c"), []byte(main), 0o644)
	if err := hlib.CC("gcc", "-O0", "-w", "-c", "-o", filepath.Join(dir, "et.o"), filepath.Join(dir, "main.c")); err != nil {
		r.Fail("exprtree:cc-reject", "the C emitted for the nested-expression probe package is rejected by gcc:\n"+firstLines(err.Error(), 10), src.String())
	}
}
