// C04 harness: "generated C computes exactly what the Wuffs source means".
//
//	(a) shape check  — every (operator, type) pair, op-assign and `as` pair is
//	    put through the working tree's wuffs-c; the emitted C expression is read
//	    by a small C-expression reader and must equal what the Lean model's
//	    `lower` prints (op lines `lower …`, `lowerassign …`, `loweras …`).
//	(b) execution    — generated programs of the fragment are translated by the
//	    working tree's wuffs-c, compiled with clang (UBSan+ASan) and gcc -O2,
//	    and driven through call histories; every call's return value and the
//	    receiver's fields are compared with the Lean reference interpreter
//	    (op lines `case …` / `call …`).
//
// Oracle on the implementation, independent of the model: a sanitizer report
// or crash on an accepted program, emitted C that a C compiler rejects, or any
// difference between the clang and the gcc build.
package main

import (
	"fmt"
	"os"
	"regexp"
	"sort"
	"strings"
	"sync"
	"time"

	a "github.com/google/wuffs/lang/ast"
	"wvh/hlib"
)

type pkgJob struct {
	name  string
	progs []*program
	hists [][]call
	src   string
	// results
	sexprs []string
	feErr  string
	res    *pkgResult
}

func (fe *frontEnd) serializeStruct(sname string) string {
	var b strings.Builder
	b.WriteString("( KFile 0 - - - - - - - - [ ")
	prefix := "K_" + strings.ToUpper(sname) + "_"
	for _, d := range fe.files[0].TopLevelDecls() {
		keep := false
		switch d.Kind() {
		case a.KConst:
			keep = strings.HasPrefix(d.AsConst().QID()[1].Str(fe.tm), prefix)
		case a.KStruct:
			keep = d.AsStruct().QID()[1].Str(fe.tm) == sname
		case a.KFunc:
			keep = d.AsFunc().Receiver()[1].Str(fe.tm) == sname
		}
		if keep {
			fe.writeNode(&b, d)
		}
	}
	b.WriteString("] [ ] [ ] )")
	return b.String()
}

var reNum = regexp.MustCompile(`[0-9]+`)
var reSan = regexp.MustCompile(`runtime error: ([^\n]*)`)

func slug(s string) string {
	s = reNum.ReplaceAllString(s, "N")
	s = strings.Map(func(r rune) rune {
		switch {
		case r >= 'a' && r <= 'z', r >= 'A' && r <= 'Z', r >= '0' && r <= '9':
			return r
		}
		return '-'
	}, s)
	for strings.Contains(s, "--") {
		s = strings.ReplaceAll(s, "--", "-")
	}
	s = strings.Trim(s, "-")
	if len(s) > 70 {
		s = s[:70]
	}
	return s
}

func sanitizerKey(stderr string) string {
	if m := reSan.FindStringSubmatch(stderr); m != nil {
		msg := m[1]
		// "signed integer overflow: 65535 * 65535 cannot be represented in type 'int'"
		return "ubsan:" + slug(msg)
	}
	if strings.Contains(stderr, "AddressSanitizer") {
		i := strings.Index(stderr, "AddressSanitizer")
		return "asan:" + slug(firstLines(stderr[i:], 1))
	}
	return "crash:" + slug(firstLines(stderr, 1))
}

func histText(h []call) string {
	var b strings.Builder
	for _, c := range h {
		b.WriteString(callLine(c) + "\n")
	}
	return b.String()
}

func callLine(c call) string {
	s := "call " + c.m.name
	for j, v := range c.args {
		s += " " + c.m.params[j].name + "=" + v.String()
	}
	return s
}

func main() {
	r := hlib.Start("C04")
	if r.IsGen() {
		r.WriteGen("C04_Tables.lean", genTables())
		return
	}
	if r.Mode == "battery" { // debugging aid: print the battery package and check it
		for _, j := range batteryJobs() {
			fmt.Println(j.src)
			if _, err := parseAndCheck(j.name+".wuffs", []byte(j.src)); err != nil {
				fmt.Println("REJECTED:", err)
			}
		}
		return
	}
	if r.Mode == "sexpr" { // debugging aid: -mode sexpr -replay file.wuffs
		src, err := os.ReadFile(r.Replay)
		if err != nil {
			panic(err)
		}
		fe, err := parseAndCheck("t.wuffs", src)
		if err != nil {
			fmt.Println("rejected:", err)
			return
		}
		fmt.Println(fe.serialize())
		return
	}
	t0 := time.Now()
	tc, err := setupToolchain(r.Repo)
	r.Extra("seconds_toolchain", secs(t0))
	if err != nil {
		r.Note("toolchain: " + err.Error())
		r.Fail("toolchain", "cannot build wuffs-c / base from the working tree: "+firstLines(err.Error(), 12), "")
		r.Finish("toolchain failure")
		return
	}
	r.Extra("base_objects_from_cache", tc.cacheHits)
	if r.Mode == "exprtree" { // debugging aid: only the nested-expression probes
		c := newRec(r)
		exprTreeCheck(c, tc)
		c.flush(r)
		tc.cleanup()
		r.Finish("nested-expression probes only")
		return
	}
	if os.Getenv("C04_KEEP") == "" {
		defer tc.cleanup()
	} else {
		fmt.Fprintln(os.Stderr, "keeping", tc.dir)
	}

	// the phases run concurrently, each into its own recording (rec.go)
	type phase struct {
		name string
		f    func(*rec, *toolchain)
		c    *rec
		secs float64
	}
	phases := []*phase{
		{name: "shape", f: shapeCheck},
		{name: "exprtree", f: exprTreeCheck},
		{name: "iterate", f: func(c *rec, tc *toolchain) { iterateCheck(c, tc); iterateJumpCheck(c, tc) }},
		{name: "exec", f: runExec},
		{name: "io", f: runIO},
	}
	only := os.Getenv("C04_ONLY") // debugging aid: comma-separated phase names
	var wg sync.WaitGroup
	for _, ph := range phases {
		ph.c = newRec(r) // forks r.Rand: in this fixed order
		if only != "" && !strings.Contains(","+only+",", ","+ph.name+",") {
			continue
		}
		wg.Add(1)
		go func(ph *phase) {
			defer wg.Done()
			t := time.Now()
			ph.f(ph.c, tc)
			ph.secs = secs(t)
		}(ph)
	}
	wg.Wait()
	for _, ph := range phases {
		ph.c.flush(r)
		r.Extra("seconds_"+ph.name, ph.secs)
	}
	r.Extra("seconds_harness", secs(t0))
	r.Extra("oracle_cases", nExecCalls+nIOCalls)

	r.Finish("programs: one struct + 2-5 methods over u8/u16/u32/u64 (refined or not), bool, arrays, consts; all " +
		"operators incl. ~mod/~sat, as, op-assign, if/else-if, (labelled) while/break/continue, calls; range-directed so " +
		"the checker accepts; histories of 2-7 calls with boundary arguments; I/O coroutines (every suspending built-in) " +
		"driven over every split of a short input. non-trivial = accepted program whose " +
		"history ran; distinct by (source, history)")
}

func secs(t time.Time) float64 { return float64(int(time.Since(t).Seconds()*10)) / 10 }

func runExec(r *rec, tc *toolchain) {
	nPkgs, perPkg, workers := 4, 10, 8
	if r.Thorough {
		nPkgs, perPkg, workers = 150, 12, 12
	}
	t0 := time.Now()
	// phase 1: generate (one forked generator per program slot, so the slots can
	// be filled concurrently and the result is still a function of the seed)
	jobs := make([]*pkgJob, nPkgs)
	type slotT struct {
		rnd      *hlib.Rand
		p        *program
		h        []call
		rejected []string
	}
	slots := make([]slotT, nPkgs*perPkg)
	for i := range slots {
		slots[i].rnd = r.Rand.Fork()
	}
	parallelDo(len(slots), 12, func(i int) {
		sl := &slots[i]
		for try := 0; try < 4; try++ {
			q := genProgram(sl.rnd.Fork(), fmt.Sprintf("s%d", i%perPkg))
			if _, err := parseAndCheck("p.wuffs", []byte(q.src)); err != nil {
				if os.Getenv("C04_DEBUG") != "" {
					fmt.Fprintf(os.Stderr, "REJECTED: %v\n%s\n", err, q.src)
				}
				sl.rejected = append(sl.rejected, "rejected: "+firstLines(err.Error(), 1))
				continue
			}
			sl.p = q
			break
		}
		if sl.p != nil {
			sl.h = genHistory(sl.rnd.Fork(), sl.p)
		}
	})
	for i := range jobs {
		j := &pkgJob{name: fmt.Sprintf("p%d", i)}
		for k := 0; k < perPkg; k++ {
			sl := &slots[i*perPkg+k]
			for _, rj := range sl.rejected {
				r.Count("discard:checker-rejected")
				r.Sample(rj)
			}
			if sl.p == nil {
				continue
			}
			j.progs = append(j.progs, sl.p)
			j.hists = append(j.hists, sl.h)
		}
		var b strings.Builder
		for _, p := range j.progs {
			b.WriteString(p.src)
		}
		j.src = b.String()
		jobs[i] = j
	}
	jobs = append(batteryJobs(), jobs...)
	t1 := time.Now()
	// phase 2: translate, compile, run (parallel)
	var wg sync.WaitGroup
	ch := make(chan *pkgJob)
	for w := 0; w < workers; w++ {
		wg.Add(1)
		go func() {
			defer wg.Done()
			for j := range ch {
				if len(j.progs) == 0 {
					continue
				}
				fe, err := parseAndCheck(j.name+".wuffs", []byte(j.src))
				if err != nil {
					j.feErr = err.Error()
					continue
				}
				for _, p := range j.progs {
					j.sexprs = append(j.sexprs, fe.serializeStruct(p.sname))
				}
				j.res = tc.buildAndRun(j.name, j.src, j.progs, j.hists)
			}
		}()
	}
	for _, j := range jobs {
		ch <- j
	}
	close(ch)
	wg.Wait()
	r.Extra("gen_seconds", t1.Sub(t0).Seconds())
	r.Extra("compile_run_seconds", time.Since(t1).Seconds())

	// phase 3: ops + oracle (sequential, in order)
	ncalls := 0
	var pend []*pendingCase
	for _, j := range jobs {
		if len(j.progs) == 0 {
			continue
		}
		if j.feErr != "" {
			r.Count("discard:package-rejected")
			r.Note("package rejected although its structs were accepted one by one: " + firstLines(j.feErr, 2))
			continue
		}
		if j.res.genErr != "" {
			r.Count("discard:cgen-error")
			r.Note("wuffs-c gen error: " + firstLines(j.res.genErr, 2))
			continue
		}
		if len(j.res.ccErr) > 0 {
			ccs := []string{}
			for cc := range j.res.ccErr {
				ccs = append(ccs, cc)
			}
			sort.Strings(ccs)
			e := j.res.ccErr[ccs[0]]
			// keep the first "error:" line for the key
			key := "cc-reject"
			for _, l := range strings.Split(e, "\n") {
				if i := strings.Index(l, "error:"); i >= 0 {
					key = "cc-reject:" + slug(l[i+6:])
					break
				}
			}
			r.Fail(key, "the C emitted for an accepted package is rejected by "+ccs[0]+":\n"+firstLines(e, 12), j.src)
			continue
		}
		for i, p := range j.progs {
			h := j.hists[i]
			cl := j.res.runs["clang"][i]
			gc := j.res.runs["gcc"][i]
			line := func(rr runResult, k int) string {
				if k < len(rr.lines) {
					return rr.lines[k]
				}
				return "abort"
			}
			ops := []string{"case " + j.name + "." + p.sname + " " + j.sexprs[i]}
			outs := []string{line(cl, 0)}
			// the control skeleton of every method's emitted C body vs the
			// modelled statement lowering (skel.go)
			nSkel := 0
			if j.res.csrcLN != "" && !j.res.lnDiffer {
				for _, m := range p.methods {
					ops = append(ops, "skel "+m.name)
					outs = append(outs, cSkeleton(j.res.csrcLN, "wuffs_"+j.name+"__"+p.sname+"__"+m.name))
					nSkel++
				}
			} else {
				r.Count("skel:no-line-number-variant")
			}
			for k, c := range h {
				ops = append(ops, callLine(c))
				outs = append(outs, line(cl, k+1))
			}
			replay := "// package " + j.name + " struct " + p.sname + "\n" + p.src + "\n// history\n" + histText(h)
			if cl.failed || len(cl.lines) != len(h)+1 {
				key := sanitizerKey(cl.stderr)
				r.Fail(key, "clang -fsanitize=undefined,address build of an accepted program stops after "+
					fmt.Sprint(len(cl.lines))+" output lines:\n"+firstLines(cl.stderr, 6), replay)
			} else if gc.failed || strings.Join(gc.lines, "\n") != strings.Join(cl.lines, "\n") {
				r.Fail("cc-diff", "gcc -O2 and clang -O1 builds of the same generated C print different traces:\nclang: "+
					strings.Join(cl.lines, " / ")+"\ngcc:   "+strings.Join(gc.lines, " / ")+"\n"+firstLines(gc.stderr, 4), replay)
			}
			pend = append(pend, &pendingCase{ops: ops, outs: outs, nSkel: nSkel, replay: replay, prog: p, hist: h, sanFailed: cl.failed || len(cl.lines) != len(h)+1})
		}
	}
	// phase 4: the reference semantics (Lean interpreter) on the same cases; a
	// case the reference marks `undef` is one the checker should not have
	// accepted (a C01 matter): discarded and counted.
	ref := runReference(r, pend)
	for ci, pc := range pend {
		undef := false
		diff := -1
		if ref != nil {
			for k := 1; k <= pc.nSkel; k++ {
				if m := ref[ci][k]; m != pc.outs[k] {
					r.Fail("skel-diff", "the control skeleton of the C emitted for method `"+strings.TrimPrefix(pc.ops[k], "skel ")+
						"` differs from what the modelled statement lowering (Model/CStmt.lean lowerL) writes:\n  emitted C: "+pc.outs[k]+
						"\n  model:     "+m, pc.replay)
					break
				}
			}
			for k := range pc.ops {
				if k >= 1 && k <= pc.nSkel {
					continue
				}
				m := ref[ci][k]
				if strings.HasPrefix(m, "undef:") || strings.HasPrefix(m, "unsupported:") {
					undef = true
					r.Note("reference says " + m + " on " + pc.ops[0][:strings.Index(pc.ops[0], " (")])
					break
				}
				if m != pc.outs[k] && diff < 0 {
					diff = k
				}
			}
		}
		if undef {
			r.Count("discard:reference-undef")
			continue
		}
		prev := ""
		for k := range pc.ops {
			r.Op(pc.ops[k], pc.outs[k])
			if k == 0 {
				continue
			}
			if k <= pc.nSkel {
				r.Count("skel:methods")
				if strings.Contains(pc.outs[k], "G:") {
					r.Count("skel:methods-with-goto")
				}
				if strings.Contains(pc.outs[k], "D{") {
					r.Count("skel:methods-with-do-while-0")
				}
				continue
			}
			out := pc.outs[k]
			ncalls++
			if i := strings.Index(out, "|"); i > 0 {
				if !strings.HasPrefix(out, "r 0 ") && !strings.HasPrefix(out, "r - ") {
					r.Count("trace:nonzero-return")
				}
				if out[i:] != prev && k > 1 {
					r.Count("trace:state-changed")
				}
				prev = out[i:]
			}
			r.Count("trace:calls")
		}
		if len(pc.ops) > 1 {
			r.Sample(pc.ops[len(pc.ops)-1] + " -> " + pc.outs[len(pc.outs)-1])
		}
		if diff >= 0 && !pc.sanFailed {
			key := "ref-diff"
			if pc.prog.failKey != "" {
				key = pc.prog.failKey
			}
			r.Fail(key, "the compiled C and the reference semantics of the Wuffs source disagree at `"+pc.ops[diff]+
				"`:\n  C (clang build): "+pc.outs[diff]+"\n  reference:       "+ref[ci][diff], pc.replay)
		}
		r.Nontrivial(pc.prog.src + histText(pc.hist))
		for k, v := range pc.prog.nOps {
			r.CountN(k, v)
		}
		r.Count("programs")
	}
	r.Extra("exec_calls", ncalls)
	nExecCalls = ncalls
}

// calls executed and compared by the exec and io phases (set when the phase ends)
var nExecCalls, nIOCalls int

type pendingCase struct {
	ops, outs []string
	nSkel     int // ops[1 : 1+nSkel] are the `skel` ops
	replay    string
	prog      *program
	hist      []call
	sanFailed bool
}

// runReference pipes the cases through the compiled Lean driver (built by
// ./check before the harness runs). Returns nil when it is not available.
func runReference(r *rec, pend []*pendingCase) [][]string {
	bin := os.Getenv("VERIF_C04_MODEL")
	if bin == "" {
		bin = "lean/.lake/build/bin/wv_c04"
	}
	if _, err := os.Stat(bin); err != nil {
		r.Note("reference driver " + bin + " not found: traces are compared by ./check only")
		return nil
	}
	var in strings.Builder
	n := 0
	for _, pc := range pend {
		for _, o := range pc.ops {
			in.WriteString(o + "\n")
			n++
		}
	}
	o, e, err := hlib.RunCmd(20*time.Minute, "", nil, []byte(in.String()), bin)
	if err != nil {
		r.Note("reference driver failed: " + err.Error() + " " + firstLines(string(e), 2))
		return nil
	}
	lines := strings.Split(strings.TrimRight(string(o), "\n"), "\n")
	if len(lines) != n {
		r.Note(fmt.Sprintf("reference driver printed %d lines for %d ops", len(lines), n))
		return nil
	}
	out := make([][]string, len(pend))
	k := 0
	for i, pc := range pend {
		out[i] = lines[k : k+len(pc.ops)]
		k += len(pc.ops)
	}
	return out
}
