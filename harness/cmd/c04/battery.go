package main

// The operator battery: a fixed (not random) set of programs in which every
// (operator, type) pair is applied to boundary operand pairs and its result is
// widened to base.u64 — so that a missing or wrong cast in the lowering shows
// in the returned VALUE (and in UBSan), not only in the shape check.

import (
	"fmt"
	"math/big"
	"strings"
)

type batSpec struct {
	op         string
	xLo, xHi   func(w wty) *big.Int
	yLo, yHi   func(w wty) *big.Int
	shiftRight bool // y is a shift amount
}

func cst(v int64) func(w wty) *big.Int { return func(w wty) *big.Int { return bi(v) } }
func wmax(w wty) *big.Int              { return w.max() }
func wmaxDiv(d int64) func(w wty) *big.Int {
	return func(w wty) *big.Int { return new(big.Int).Quo(w.max(), bi(d)) }
}
func bitsM1(w wty) *big.Int { return bi(int64(w.bits - 1)) }

func sqrtFloor(w wty) *big.Int { return new(big.Int).Sqrt(w.max()) }

var batSpecs = []batSpec{
	{op: "+", xLo: cst(0), xHi: wmaxDiv(2), yLo: cst(0), yHi: func(w wty) *big.Int { return new(big.Int).Sub(w.max(), wmaxDiv(2)(w)) }},
	{op: "-", xLo: wmaxDiv(2), xHi: wmax, yLo: cst(0), yHi: wmaxDiv(2)},
	{op: "*", xLo: cst(0), xHi: sqrtFloor, yLo: cst(0), yHi: sqrtFloor},
	{op: "/", xLo: cst(0), xHi: wmax, yLo: cst(1), yHi: wmax},
	{op: "%", xLo: cst(0), xHi: wmax, yLo: cst(1), yHi: wmax},
	{op: "<<", xLo: cst(0), xHi: cst(1), yLo: cst(0), yHi: bitsM1, shiftRight: true},
	{op: ">>", xLo: cst(0), xHi: wmax, yLo: cst(0), yHi: bitsM1, shiftRight: true},
	{op: "&", xLo: cst(0), xHi: wmax, yLo: cst(0), yHi: wmax},
	{op: "|", xLo: cst(0), xHi: wmax, yLo: cst(0), yHi: wmax},
	{op: "^", xLo: cst(0), xHi: wmax, yLo: cst(0), yHi: wmax},
	{op: "~mod+", xLo: cst(0), xHi: wmax, yLo: cst(0), yHi: wmax},
	{op: "~mod-", xLo: cst(0), xHi: wmax, yLo: cst(0), yHi: wmax},
	{op: "~mod*", xLo: cst(0), xHi: wmax, yLo: cst(0), yHi: wmax},
	{op: "~mod<<", xLo: cst(0), xHi: wmax, yLo: cst(0), yHi: bitsM1, shiftRight: true},
	{op: "~sat+", xLo: cst(0), xHi: wmax, yLo: cst(0), yHi: wmax},
	{op: "~sat-", xLo: cst(0), xHi: wmax, yLo: cst(0), yHi: wmax},
}

func refOrPlain(w wty, lo, hi *big.Int) vtype {
	if lo.Sign() == 0 && hi.Cmp(w.max()) == 0 {
		return numT(w)
	}
	return refT(w, lo, hi)
}

func boundaryValues(lo, hi *big.Int) []*big.Int {
	seen := map[string]bool{}
	var out []*big.Int
	add := func(v *big.Int) {
		if v.Cmp(lo) >= 0 && v.Cmp(hi) <= 0 && !seen[v.String()] {
			seen[v.String()] = true
			out = append(out, v)
		}
	}
	add(lo)
	add(hi)
	add(new(big.Int).Add(lo, bi(1)))
	add(new(big.Int).Sub(hi, bi(1)))
	mid := new(big.Int).Add(lo, hi)
	add(mid.Rsh(mid, 1))
	for _, k := range []uint{7, 8, 15, 16, 31, 32, 63} {
		p := new(big.Int).Lsh(bi(1), k)
		add(p)
		add(new(big.Int).Sub(p, bi(1)))
		add(new(big.Int).Add(p, bi(1)))
	}
	return out
}

// batteryJobs: one package; per type one struct with one method per operator
// (expression form, widened) and one per op-assign form; histories = boundary pairs.
func batteryJobs() []*pkgJob {
	j := &pkgJob{name: "bat"}
	for _, w := range wtys {
		p := &program{sname: "b" + w.name, nOps: map[string]int{}}
		p.fields = []slot{{name: "acc", expr: "this.acc", t: numT(wtys[3]), writable: true}}
		var hist []call
		for i, sp := range batSpecs {
			xt := refOrPlain(w, sp.xLo(w), sp.xHi(w))
			yt := refOrPlain(w, sp.yLo(w), sp.yHi(w))
			out := numT(wtys[3])
			// expression form: the result flows, un-stored, into a wider context
			m := &method{name: fmt.Sprintf("e%d", i), pub: false, impure: false, out: &out,
				params: []slot{{name: "x", expr: "args.x", t: xt}, {name: "y", expr: "args.y", t: yt}}}
			m.body = []string{fmt.Sprintf("    return ((args.x %s args.y) as base.u64) ~mod+ (((args.x %s args.y) >> 1) as base.u64)", sp.op, sp.op)}
			p.methods = append(p.methods, m)
			// op-assign form on a local and on a field-sized accumulator
			m2 := &method{name: fmt.Sprintf("a%d", i), pub: false, impure: true, out: &out,
				params: []slot{{name: "x", expr: "args.x", t: xt}, {name: "y", expr: "args.y", t: yt}},
				locals: []slot{{name: "v", expr: "v", t: numT(w), writable: true}}}
			m2.body = []string{"    v = args.x", fmt.Sprintf("    v %s= args.y", sp.op), "    this.acc ~mod+= (v as base.u64)", "    return (v as base.u64)"}
			p.methods = append(p.methods, m2)
			xs := boundaryValues(xt.lo, xt.hi)
			ys := boundaryValues(yt.lo, yt.hi)
			n := 0
			for a, x := range xs {
				for b, y := range ys {
					// all corner pairs, a diagonal of the rest
					if a < 4 && b < 4 || (a+b)%5 == 0 {
						hist = append(hist, call{m: m, args: []*big.Int{x, y}}, call{m: m2, args: []*big.Int{x, y}})
						n++
					}
				}
			}
			p.nOps["battery:"+sp.op] += n
		}
		if w.bits <= 16 {
			// associative `*` whose whole product is in range only because the last
			// factor is 0: the intermediate product leaves the type (and, in C, `int`)
			zt := refT(w, bi(0), bi(0))
			ps := []slot{{name: "x", expr: "args.x", t: numT(w)}, {name: "y", expr: "args.y", t: numT(w)},
				{name: "u", expr: "args.u", t: numT(w)}, {name: "v", expr: "args.v", t: numT(w)}, {name: "z", expr: "args.z", t: zt}}
			out := numT(wtys[3])
			m := &method{name: "assoc", out: &out, params: ps}
			m.body = []string{"    return ((args.x * args.y * args.u * args.v * args.z) as base.u64) ~mod+ 5"}
			p.methods = append(p.methods, m)
			mx := w.max()
			for _, vs := range [][]*big.Int{{mx, mx, mx, mx, bi(0)}, {mx, mx, bi(1), bi(1), bi(0)}, {bi(3), bi(5), bi(7), bi(2), bi(0)}} {
				hist = append(hist, call{m: m, args: vs})
			}
			p.nOps["battery:assoc-mul-zero"] += 3
		}
		if w.bits == 64 {
			// associative + and * whose first two operands are constants below
			// 2^32 (C literals of type `unsigned int`) with a 64-bit partial result
			// (fixes/C04-assoc-leading-constants.patch)
			out := numT(wtys[3])
			for k, body := range []string{
				"    return 4294967295 + 4294967295 + args.x",
				"    return 4294967295 * 4294967295 * args.x",
				"    return 65536 * 65536 * 3 * args.x",
				"    return 4000000000 + 4000000000 + 4000000000 + args.x + 5",
				"    return args.x + 4294967295 + 4294967295",
				"    return 4294967295 | 4294967296 | args.x",
			} {
				m := &method{name: fmt.Sprintf("ac%d", k), out: &out,
					params: []slot{{name: "x", expr: "args.x", t: refT(w, bi(0), bi(1))}}}
				m.body = []string{body}
				p.methods = append(p.methods, m)
				hist = append(hist, call{m: m, args: []*big.Int{bi(0)}}, call{m: m, args: []*big.Int{bi(1)}})
			}
			p.nOps["battery:assoc-leading-constants"] += 12
		}
		p.src = p.render()
		j.progs = append(j.progs, p)
		j.hists = append(j.hists, hist)
	}
	sp, sh := signedBattery()
	j.progs = append(j.progs, sp)
	j.hists = append(j.hists, sh)
	cp, ch := controlBattery()
	j.progs = append(j.progs, cp)
	j.hists = append(j.hists, ch)
	mp, mh := maskBattery()
	j.progs = append(j.progs, mp)
	j.hists = append(j.hists, mh)
	// one package per struct: they are translated and compiled concurrently
	var out []*pkgJob
	for i, p := range j.progs {
		out = append(out, &pkgJob{name: "bat" + p.sname, progs: []*program{p}, hists: [][]call{j.hists[i]}, src: p.src})
	}
	return out
}

// maskBattery: narrowing conversions behind a mask, `(x & M) as T` and
// `(M & x) as T`, for every wider source type: with M the redundant mask that
// writeExprAs drops (2^bits(T) - 1), masks just below it (which must NOT be
// dropped: the C conversion alone would keep the higher bits), 1 and 0; driven
// with all-ones, the mask, mask + 1 and other boundary arguments.
func maskBattery() (*program, []call) {
	p := &program{sname: "bmask", nOps: map[string]int{}}
	p.fields = []slot{{name: "acc", expr: "this.acc", t: numT(wtys[3]), writable: true}}
	out := numT(wtys[3])
	var hist []call
	n := 0
	for fi := 1; fi < 4; fi++ {
		for ti := 0; ti < fi; ti++ {
			from, to := wtys[fi], wtys[ti]
			full := to.max()
			masks := []*big.Int{full, new(big.Int).Rsh(full, 1), new(big.Int).Sub(full, bi(1)), new(big.Int).Rsh(full, 3), bi(1), bi(0)}
			for mi, m := range masks {
				for side := 0; side < 2; side++ {
					e := fmt.Sprintf("(args.x & %s)", m)
					if side == 1 {
						e = fmt.Sprintf("(%s & args.x)", m)
					}
					mt := &method{name: fmt.Sprintf("m%d", n), out: &out, params: []slot{{name: "x", expr: "args.x", t: numT(from)}}}
					n++
					mt.body = []string{fmt.Sprintf("    return ((%s as %s) as base.u64) ~mod+ 1", e, to.src())}
					p.methods = append(p.methods, mt)
					vals := []*big.Int{from.max(), full, new(big.Int).Add(full, bi(1)), m, new(big.Int).Add(m, bi(1)),
						new(big.Int).Lsh(bi(1), uint(from.bits-1)), bi(0), new(big.Int).Add(new(big.Int).Lsh(full, 1), bi(1))}
					for _, v := range vals {
						if v.Cmp(from.max()) <= 0 {
							hist = append(hist, call{m: mt, args: []*big.Int{v}})
						}
					}
					_ = mi
				}
			}
		}
	}
	p.nOps["battery:mask-as"] = len(hist)
	p.src = p.render()
	return p, hist
}

// signedBattery: signed operands next to non-negative constants (written with
// a `u` suffix before fixes/C04-signed-operand-literal.patch, which made C
// convert the signed operand to unsigned).
func signedBattery() (*program, []call) {
	p := &program{sname: "bsig", nOps: map[string]int{}}
	p.fields = []slot{{name: "acc", expr: "this.acc", t: numT(wtys[3]), writable: true}}
	out := numT(wtys[0])
	var hist []call
	for i, bits := range []int{8, 16, 32, 64} {
		w := wty{fmt.Sprintf("i%d", bits), bits}
		lo := new(big.Int).Neg(new(big.Int).Lsh(bi(1), uint(bits-1)))
		hi := new(big.Int).Sub(new(big.Int).Lsh(bi(1), uint(bits-1)), bi(1))
		full := vtype{kind: kNum, w: w, lo: lo, hi: hi}
		small := vtype{kind: kNum, w: w, lo: bi(-50), hi: bi(50), refined: true}
		mk := func(name string, t vtype, body ...string) *method {
			m := &method{name: fmt.Sprintf("%s%d", name, i), out: &out, params: []slot{{name: "x", expr: "args.x", t: t}}}
			m.body = body
			p.methods = append(p.methods, m)
			return m
		}
		ms := []*method{
			mk("lt", full, "    if args.x < 100 {", "        return 1", "    }", "    return 0"),
			mk("ge", full, "    if args.x >= 0 {", "        return 1", "    }", "    return 0"),
			mk("cl", full, "    if 7 > args.x {", "        return 1", "    }", "    return 0"),
		}
		sm := []*method{
			mk("ad", small, "    if (args.x + 1) < 1 {", "        return 1", "    }", "    return 0"),
			mk("as", small, "    if (args.x + 1 + 2) <= 2 {", "        return 1", "    }", "    return 0"),
			mk("mu", small, "    if (args.x * 2) < (args.x - 1) {", "        return 1", "    }", "    return 0"),
		}
		for _, v := range []*big.Int{lo, hi, bi(-1), bi(0), bi(1), bi(99), bi(100), bi(7), bi(6), new(big.Int).Add(lo, bi(1))} {
			for _, m := range ms {
				hist = append(hist, call{m: m, args: []*big.Int{v}})
			}
		}
		for _, v := range []*big.Int{bi(-50), bi(-2), bi(-1), bi(0), bi(1), bi(50)} {
			for _, m := range sm {
				hist = append(hist, call{m: m, args: []*big.Int{v}})
			}
		}
		p.nOps["battery:signed"] += 6
	}
	p.failKey = "ref-diff:signed-operand-unsigned-literal"
	p.src = p.render()
	return p, hist
}

// controlBattery: fixed programs with nested, labelled loops whose deep
// break / continue (lowered to goto), innermost break / continue, the
// `while true { … break }` form (lowered to do { } while (0)), else-if chains
// and early returns are all driven by the two arguments, over all 8 x 8 pairs.
func controlBattery() (*program, []call) {
	p := &program{sname: "bcf", nOps: map[string]int{}}
	p.fields = []slot{
		{name: "acc", expr: "this.acc", t: numT(wtys[2]), writable: true},
		{name: "n", expr: "this.n", t: numT(wtys[2]), writable: true},
	}
	out := numT(wtys[2])
	arg := refT(wtys[2], bi(0), bi(7))
	locals := []slot{}
	for _, n := range []string{"i", "j", "k", "acc"} {
		locals = append(locals, slot{name: n, expr: n, t: numT(wtys[2]), writable: true})
	}
	locals = append(locals, slot{name: "f", expr: "f", t: boolT(), writable: true})
	mk := func(name string, body string) *method {
		m := &method{name: name, pub: false, impure: true, out: &out, locals: locals,
			params: []slot{{name: "a", expr: "args.a", t: arg}, {name: "b", expr: "args.b", t: arg}}}
		m.body = strings.Split(strings.Trim(body, "\n"), "\n")
		p.methods = append(p.methods, m)
		return m
	}
	mk("deep", `
    while.outer i < 5 {
        i ~mod+= 1
        j = 0
        while.inner j < 5 {
            j ~mod+= 1
            if j == args.a {
                continue.outer
            }
            if (i == args.b) and (j == 2) {
                break.outer
            }
            if j == 4 {
                break.inner
            }
            acc = (acc ~mod* 31) ~mod+ ((i ~mod* 8) ~mod+ j)
        }.inner
        acc ~mod+= 1000
    }.outer
    this.acc ~mod+= acc
    this.n ~mod+= 1
    return acc`)
	mk("plain", `
    while i < 6 {
        i ~mod+= 1
        if i == args.a {
            continue
        } else if i == args.b {
            break
        } else if (i & 1) == 0 {
            acc ~mod+= 7
        } else {
            acc = (acc ~mod* 3) ~mod+ i
        }
        j = 0
        while j < 3 {
            j ~mod+= 1
            if j == args.b {
                break
            }
            acc ~mod+= (j ~mod* 100)
        }
    }
    this.acc ~mod+= acc
    return acc`)
	mk("dowhile", `
    while.outer i < 4 {
        i ~mod+= 1
        while.once true {
            if i == args.a {
                break.once
            }
            acc ~mod+= 10
            if i == args.b {
                continue.outer
            }
            acc ~mod+= 100
            while true {
                if (i ~mod+ 4) == args.a {
                    break.outer
                }
                acc ~mod+= 1000
                break
            }
            break.once
        }.once
        acc = (acc ~mod* 7) ~mod+ i
    }.outer
    this.acc ~mod+= acc
    return acc`)
	mk("triple", `
    while.l1 i < 3 {
        i ~mod+= 1
        j = 0
        while.l2 j < 3 {
            j ~mod+= 1
            k = 0
            while.l3 k < 3 {
                k ~mod+= 1
                acc = (acc ~mod* 5) ~mod+ (((i ~mod* 16) ~mod+ (j ~mod* 4)) ~mod+ k)
                if ((i ~mod* 3) ~mod+ j) == args.a {
                    continue.l2
                }
                if ((j ~mod* 3) ~mod+ k) == args.b {
                    break.l2
                }
                if ((i ~mod+ j) ~mod+ k) == (args.a ~mod+ args.b) {
                    continue.l1
                }
                if (k == 2) and (args.a == 7) and (j == args.b) {
                    break.l1
                }
            }.l3
            acc ~mod+= 50
        }.l2
        acc ~mod+= 500
    }.l1
    this.acc ~mod+= acc
    return acc`)
	mk("early", `
    f = args.a > args.b
    if f {
        if args.a == 7 {
            return 1
        }
        acc = 2
    } else if args.a == args.b {
        return 3
    } else {
        acc = 4
        if not (args.b > 5) {
            return acc ~mod+ this.n
        }
    }
    while true {
        acc ~mod+= 10
        if acc > 30 {
            return acc
        }
    }
    return 0`)
	// `while true { …; break }` WITH a continue: must stay a real loop (the
	// do { } while (0) form would turn the continue into an exit)
	mk("wtcont", `
    while true {
        i ~mod+= 1
        if i < args.a {
            continue
        }
        acc ~mod+= (i ~mod* 10)
        break
    }
    while.t true {
        j ~mod+= 1
        k = 0
        while k < 2 {
            k ~mod+= 1
            if (j ~mod+ k) < args.b {
                continue.t
            }
            acc ~mod+= 1
        }
        acc ~mod+= (j ~mod* 100)
        break.t
    }.t
    this.acc ~mod+= acc
    return acc`)
	// sibling loops that share a label (only nested loops must differ), each
	// with deep jumps: C labels have function scope
	// (fixes/C04-duplicate-jump-label.patch)
	mk("siblings", `
    while.w i < 4 {
        i ~mod+= 1
        j = 0
        while.v j < 4 {
            j ~mod+= 1
            if j == args.a {
                continue.w
            }
            if (i ~mod+ j) == args.b {
                break.w
            }
            acc = (acc ~mod* 3) ~mod+ j
        }.v
        acc ~mod+= 100
    }.w
    i = 0
    while.w i < 3 {
        i ~mod+= 1
        j = 0
        while.v j < 3 {
            j ~mod+= 1
            if (j ~mod+ 1) == args.a {
                break.w
            }
            if (i ~mod* j) == args.b {
                continue.w
            }
            acc = (acc ~mod* 5) ~mod+ i
        }.v
        acc ~mod+= 1000
    }.w
    k = 0
    while k < 2 {
        k ~mod+= 1
        j = 0
        while.v j < 3 {
            j ~mod+= 1
            while true {
                if j == args.b {
                    break.v
                }
                acc ~mod+= 7
                break
            }
        }.v
    }
    this.acc ~mod+= acc
    return acc`)
	// an inner `while true` without continue whose LAST statement is a jump to
	// an OUTER loop: not the trivial `…; break` form — written as do-while(0)
	// with the jump dropped, control would fall into the rest of the outer body
	// (seeded/C04-m2). All shapes: break / continue, to the next loop out and
	// two loops out, the inner loop labelled or not, with and without an own
	// `break` earlier in the body, and a jump behind an `if true`-less block.
	mk("lastjump", `
    while.outer i < 6 {
        i ~mod+= 1
        while true {
            if i < args.a {
                break
            }
            acc ~mod+= 1
            break.outer
        }
        acc ~mod+= 10
    }.outer
    i = 0
    while.outer i < 6 {
        i ~mod+= 1
        while true {
            if i == args.b {
                break
            }
            acc ~mod+= 100
            continue.outer
        }
        acc ~mod+= 1000
    }.outer
    i = 0
    while.l1 i < 4 {
        i ~mod+= 1
        j = 0
        while.l2 j < 4 {
            j ~mod+= 1
            while.l3 true {
                if (i ~mod+ j) < args.a {
                    break.l3
                }
                if j == args.b {
                    acc ~mod+= 7
                    break.l2
                }
                acc ~mod+= 10000
                break.l1
            }.l3
            acc ~mod+= 100000
        }.l2
        acc ~mod+= 1000000
    }.l1
    this.acc ~mod+= acc
    return acc`)
	mk("lastjump2", `
    while.l1 i < 4 {
        i ~mod+= 1
        j = 0
        while.l2 j < 3 {
            j ~mod+= 1
            while true {
                acc ~mod+= 1
                if ((i ~mod* 3) ~mod+ j) == args.a {
                    break
                }
                continue.l1
            }
            acc ~mod+= 10
            while.t true {
                acc ~mod+= 100
                break.l2
            }.t
        }.l2
        acc ~mod+= 1000
        while true {
            k ~mod+= 1
            while true {
                if k == args.b {
                    break.l1
                }
                break
            }
            acc ~mod+= 10000
            break.l1
        }
    }.l1
    this.acc ~mod+= acc
    return acc`)
	var hist []call
	for a := int64(0); a < 8; a++ {
		for b := int64(0); b < 8; b++ {
			for _, m := range p.methods {
				hist = append(hist, call{m: m, args: []*big.Int{bi(a), bi(b)}})
			}
		}
	}
	p.nOps["battery:control"] = len(hist)
	p.src = p.render()
	return p, hist
}
