package main

// Per-function correspondence (round 2): emitBits, emitHuffmanRun and encodeBlock
// of lib/lowleveljpeg/lowleveljpeg.go are run in isolation on a scratch Encoder
// (hooks VerifEmitBits / VerifEmitHuffmanRun / VerifEncodeBlock) and compared with
// the model functions of the same name (Model/Jpeg/Encoder.lean) through the driver
// ops
//
//   emitbits <bitsV> <bitsN> <v> <n>                          -> v <hex> <bitsV'> <bitsN'>
//   huffrun  <bitsV> <bitsN> <whichHuffman> <run> <value>     -> v <hex> <bitsV'> <bitsN'>
//   encblock <bitsV> <bitsN> <p0> <p1> <p2> <q0> <q1> <comp> <block>
//                                                             -> v <hex> <bitsV'> <bitsN'> <p0'> <p1'> <p2'>
//
// so that a change inside one of these functions shows as a one-line difference
// with the function's arguments as the failing input, instead of a difference in
// the bytes of a whole AddN call.  Each op also has its own oracle, independent of
// the model:
//   emitbits: un-stuffing the bytes written and appending the pending bits gives
//             exactly (old pending bits ++ the n low bits of v);
//   huffrun:  the bits written are a code word of the table T.81 Annex C derives
//             from the emitted DHT segment for symbol (run<<4 | SSSS), followed by
//             SSSS bits which EXTEND to `value`  (refdec.go: decodeOneRun);
//   encblock: decoding the bits with the independent decoder gives the 64
//             quantised coefficients roundDiv(b[i], q[i]) and leaves no bits over.
// The arguments respect the preconditions the callers establish (bitsN < 8, the
// top bitsN bits of bitsV only, n <= 16 for a code word / <= 11 for magnitude
// bits, |value| <= 2047, run <= 15, valid blocks, non-zero quantisation factors).

import (
	"fmt"
	"strings"

	lj "github.com/google/wuffs/lib/lowleveljpeg"
	"wvh/hlib"
)

// bit string helpers (independent of the package under test)

func bitsOfBytes(p []byte) []byte {
	out := make([]byte, 0, 8*len(p))
	for _, b := range p {
		for k := 7; k >= 0; k-- {
			out = append(out, (b>>uint(k))&1)
		}
	}
	return out
}

func lowBits(v uint32, n uint32) []byte {
	out := make([]byte, 0, n)
	for k := int(n) - 1; k >= 0; k-- {
		out = append(out, byte((v>>uint(k))&1))
	}
	return out
}

func pendingBits(bitsV uint32, bitsN uint32) []byte {
	out := make([]byte, 0, bitsN)
	for k := uint32(0); k < bitsN; k++ {
		out = append(out, byte((bitsV>>(31-k))&1))
	}
	return out
}

// unstuff removes the 0x00 after every 0xFF; ok=false if a 0xFF is not followed by 0x00.
func unstuff(p []byte) (out []byte, ok bool) {
	for i := 0; i < len(p); i++ {
		out = append(out, p[i])
		if p[i] == 0xFF {
			if i+1 >= len(p) || p[i+1] != 0 {
				return out, false
			}
			i++
		}
	}
	return out, true
}

func sameBits(a, b []byte) bool {
	if len(a) != len(b) {
		return false
	}
	for i := range a {
		if a[i] != b[i] {
			return false
		}
	}
	return true
}

func bitString(b []byte) string {
	var sb strings.Builder
	for _, x := range b {
		sb.WriteByte('0' + x)
	}
	return sb.String()
}

// randAcc returns a consistent bit accumulator: bitsN < 8 and only the top bitsN bits of bitsV set.
func randAcc(rng *hlib.Rand) (bitsV uint32, bitsN uint32) {
	bitsN = uint32(rng.Intn(8))
	if rng.Intn(4) == 0 {
		bitsN = 7
	}
	if bitsN == 0 {
		return 0, 0
	}
	top := uint32(rng.Uint64()) & ((1 << bitsN) - 1)
	if rng.Intn(3) == 0 {
		top = (1 << bitsN) - 1 // all ones: the next byte is likely 0xFF (stuffing)
	}
	return top << (32 - bitsN), bitsN
}

// writtenBits: the logical bit string after a call = unstuffed bytes ++ pending bits.
func writtenBits(out []byte, bitsV, bitsN uint32) ([]byte, bool) {
	raw, ok := unstuff(out)
	if !ok {
		return nil, false
	}
	return append(bitsOfBytes(raw), pendingBits(bitsV, bitsN)...), true
}

func perFunctionOps(r *hlib.Run, dht *refTables) {
	rng := r.Rand.Fork()
	nBits, nRun, nBlk := 1200, 1500, 250
	if r.Thorough {
		nBits, nRun, nBlk = 40000, 60000, 6000
	}

	// ---- emitBits
	for i := 0; i < nBits; i++ {
		bitsV, bitsN := randAcc(rng)
		n := uint32(rng.Intn(17))
		switch rng.Intn(8) {
		case 0:
			n = 16
		case 1:
			n = uint32(8 - int(bitsN)) // completes exactly one byte
			if n > 16 {
				n = 8
			}
		case 2:
			n = 0
		}
		v := uint32(rng.Uint64())
		switch rng.Intn(4) {
		case 0:
			v = 0xFFFFFFFF // stuffing
		case 1:
			v &= (1 << n) - 1
		}
		line := fmt.Sprintf("emitbits %d %d %d %d", bitsV, bitsN, v, n)
		var out []byte
		var v2, n2 uint32
		ans := hlib.Guard(func() string {
			out, v2, n2 = lj.VerifEmitBits(bitsV, bitsN, v, n)
			return fmt.Sprintf("v %s %d %d", hlib.Hex(out), v2, n2)
		})
		r.Op(line, ans)
		r.Count("perfunc:emitbits")
		if !strings.HasPrefix(ans, "v ") {
			r.Fail("panic:emitBits", "emitBits panicked: "+ans, line)
			continue
		}
		want := append(pendingBits(bitsV, bitsN), lowBits(v, n)...)
		got, ok := writtenBits(out, v2, n2)
		if !ok || n2 >= 8 || !sameBits(got, want) || v2&((1<<(32-n2))-1) != 0 && n2 > 0 || (n2 == 0 && v2 != 0) {
			r.Fail("emitbits:wrong-bits", fmt.Sprintf("emitBits wrote %s (pending %d) for pending+new bits %s", hlib.Hex(out), n2, bitString(want)), line)
		}
		for _, b := range out {
			if b == 0xFF {
				r.Count("perfunc:emitbits-stuffed")
				break
			}
		}
	}

	// ---- emitHuffmanRun
	for i := 0; i < nRun; i++ {
		bitsV, bitsN := randAcc(rng)
		which := rng.Intn(4)
		run := uint32(0)
		var value int32
		isDC := which%2 == 0
		mag := func(maxCat int) int32 {
			c := 1 + rng.Intn(maxCat)
			lo, hi := 1<<(c-1), (1<<c)-1
			x := int32(lo + rng.Intn(hi-lo+1))
			switch rng.Intn(4) {
			case 0:
				x = int32(lo)
			case 1:
				x = int32(hi)
			}
			if rng.Bool() {
				x = -x
			}
			return x
		}
		if isDC {
			value = mag(11)
			if rng.Intn(12) == 0 {
				value = 0
			}
		} else {
			run = uint32(rng.Intn(16))
			value = mag(10)
		}
		line := fmt.Sprintf("huffrun %d %d %d %d %d", bitsV, bitsN, which, run, value)
		var out []byte
		var v2, n2 uint32
		ans := hlib.Guard(func() string {
			out, v2, n2 = lj.VerifEmitHuffmanRun(bitsV, bitsN, which, run, value)
			return fmt.Sprintf("v %s %d %d", hlib.Hex(out), v2, n2)
		})
		r.Op(line, ans)
		r.Count(fmt.Sprintf("perfunc:huffrun-cat%d", cat(int(value))))
		if !strings.HasPrefix(ans, "v ") {
			r.Fail("panic:emitHuffmanRun", "emitHuffmanRun panicked: "+ans, line)
			continue
		}
		got, ok := writtenBits(out, v2, n2)
		pend := pendingBits(bitsV, bitsN)
		if !ok || len(got) < len(pend) || !sameBits(got[:len(pend)], pend) {
			r.Fail("huffrun:wrong-bits", "emitHuffmanRun destroyed the pending bits or the stuffing", line)
			continue
		}
		sym, val, rest, err := dht.decodeOneRun(which, got[len(pend):])
		if err != "" || len(rest) != 0 || sym != int(run)<<4|cat(int(value)) || val != int(value) {
			r.Fail("huffrun:does-not-decode", fmt.Sprintf("emitHuffmanRun(table %d, run %d, value %d) decodes to symbol 0x%02X value %d, %d bits left, %s", which, run, value, sym, val, len(rest), err), line)
		}
	}

	// ---- encodeBlock
	sq := &seq{r: r, rng: rng, zz: dht.zz}
	for i := 0; i < nBlk; i++ {
		bitsV, bitsN := randAcc(rng)
		var prev [3]int16
		for k := range prev {
			switch rng.Intn(4) {
			case 0:
				prev[k] = 0
			case 1:
				prev[k] = -1024
			case 2:
				prev[k] = 1023
			default:
				prev[k] = int16(rng.Range(-1024, 1023))
			}
		}
		q, _, qkind := sq.genQuants()
		if q == nil {
			q = &lj.Array2QuantizationFactors{}
			q.SetToStandardValues(lj.DefaultQuality)
			qkind = "default"
		}
		valid := q[0].IsValid() && q[1].IsValid()
		if !valid {
			continue // Reset never installs such tables
		}
		comp := rng.Intn(3)
		sq.quants = *q
		for k := range prev {
			sq.prevDC[k] = int(prev[k])
		}
		b, kind := sq.genBlock(b2i(comp > 0), comp)
		if !b.IsValid() {
			continue
		}
		line := fmt.Sprintf("encblock %d %d %d %d %d %s %s %d %s", bitsV, bitsN, prev[0], prev[1], prev[2],
			hlib.Hex(q[0][:]), hlib.Hex(q[1][:]), comp, blockText(&b))
		var out []byte
		var v2, n2 uint32
		var prev2 [3]int16
		ans := hlib.Guard(func() string {
			out, v2, n2, prev2 = lj.VerifEncodeBlock(bitsV, bitsN, prev, q, byte(comp), &b)
			return fmt.Sprintf("v %s %d %d %d %d %d", hlib.Hex(out), v2, n2, prev2[0], prev2[1], prev2[2])
		})
		r.Op(line, ans)
		r.Count("perfunc:encblock:" + strings.SplitN(kind, "-", 2)[0])
		r.Count("perfunc:encblock-quant:" + qkind)
		if !strings.HasPrefix(ans, "v ") {
			r.Fail("panic:encodeBlock", "encodeBlock panicked: "+ans, line)
			continue
		}
		if len(out) > 448 {
			r.Fail("encblock:more-than-448-bytes", fmt.Sprintf("encodeBlock wrote %d bytes; the buffer is sized for 448 per block", len(out)), line)
		}
		got, ok := writtenBits(out, v2, n2)
		pend := pendingBits(bitsV, bitsN)
		if !ok || len(got) < len(pend) || !sameBits(got[:len(pend)], pend) {
			r.Fail("encblock:wrong-bits", "encodeBlock destroyed the pending bits or the stuffing", line)
			continue
		}
		base := 0
		if comp > 0 {
			base = 2
		}
		coefs, rest, err := dht.decodeOneBlock(base, int(prev[comp]), got[len(pend):])
		bad := err != "" || len(rest) != 0
		if !bad {
			for k := 0; k < 64; k++ {
				if coefs[k] != roundDiv(int(b[k]), int(q[base/2][k])) {
					bad = true
				}
			}
			if int(prev2[comp]) != coefs[0] {
				bad = true
			}
			for k := range prev {
				if k != comp && prev2[k] != prev[k] {
					bad = true
				}
			}
		}
		if bad {
			r.Fail("encblock:does-not-decode", fmt.Sprintf("encodeBlock(component %d) output does not decode to round(b/q) (%s, %d bits left) or the predictors are wrong", comp, err, len(rest)), line)
		}
	}
}
