// C18 harness: /repo/lib/lowleveljpeg (Encoder, ForwardDCTFrom, InverseDCTFrom)
// against the Lean model (Model/Jpeg/*.lean, driver wv_c18), plus the property's
// own oracle evaluated on the implementation, independent of the model:
//
//   - every Reset/AddN call is run under recover(); the bytes passed to the
//     io.Writer (or the error class) are the op's answer (correspondence);
//   - a complete file must be accepted by an independent baseline decoder written
//     from ITU-T T.81 (refdec.go): dimensions, sampling factors, quantisation
//     tables as given, and every block equal to the input coefficient divided by
//     its quantisation factor rounded to nearest (ties away from zero), block for
//     block; image/jpeg must accept it with the right size and subsampling;
//   - exactly ceil(w/8)*ceil(h/8) (or /16 for 4:2:0) units are accepted; before
//     the last one the stream is not a complete image; the last one ends the file
//     with EOI; one more is ErrTooManyAddNCalls; wrong N / invalid block / nil /
//     after-an-error give the documented error, are sticky, and write nothing;
//   - testing.AllocsPerRun == 0;
//   - ForwardDCT of a BlockU8 IsValid; max |IDCT(FDCT b) - b| <= 1 (see dct.go for
//     how the known counterexamples to this last clause are keyed).
package main

import (
	"bytes"
	"errors"
	"fmt"
	"image"
	"image/jpeg"
	"strconv"
	"strings"
	"testing"

	lj "github.com/google/wuffs/lib/lowleveljpeg"
	"wvh/hlib"
)

var errWrite = errors.New("harness: write error")

// capWriter records what was written; optionally fails.
type capWriter struct {
	buf    []byte
	nCalls int
	fail   bool
}

func (w *capWriter) Write(p []byte) (int, error) {
	w.nCalls++
	if w.fail {
		return 0, errWrite
	}
	w.buf = append(w.buf, p...)
	return len(p), nil
}

type nopWriter struct{ n int }

func (w *nopWriter) Write(p []byte) (int, error) { w.n += len(p); return len(p), nil }

func errWord(err error) string {
	switch err {
	case lj.ErrBadAddNForColorType:
		return "bad-addn"
	case lj.ErrBadArgument:
		return "bad-argument"
	case lj.ErrInvalidBlockI16:
		return "invalid-block"
	case lj.ErrPreviouslyReturnedError:
		return "previously-returned"
	case lj.ErrTooManyAddNCalls:
		return "too-many"
	case errWrite:
		return "write"
	case lj.ErrNilReceiver:
		return "nil-receiver"
	}
	return "other-error"
}

func blockText(b *lj.BlockI16) string {
	var sb strings.Builder
	for i, v := range b {
		if i > 0 {
			sb.WriteByte(',')
		}
		sb.WriteString(strconv.Itoa(int(v)))
	}
	return sb.String()
}

func b2i(b bool) int {
	if b {
		return 1
	}
	return 0
}

// roundDiv is the property's "divided by its quantisation factor rounded to
// nearest": nearest integer of a/b, ties away from zero (b > 0).
func roundDiv(a, b int) int {
	if a >= 0 {
		return (2*a + b) / (2 * b)
	}
	return -((2*(-a) + b) / (2 * b))
}

func expectedUnits(ct lj.ColorType, w, h int) int {
	if ct == lj.ColorTypeYCbCr420 {
		return ((w + 15) / 16) * ((h + 15) / 16)
	}
	return ((w + 7) / 8) * ((h + 7) / 8)
}

// ---- one stateful sequence ("case")

type seq struct {
	r    *hlib.Run
	rng  *hlib.Rand
	enc  *lj.Encoder
	w    *capWriter
	ops  []string // op lines of this case (replay)
	id   int
	zz   [64]int
	fail bool // an oracle failed in this case

	// the current image
	ct     lj.ColorType
	width  int
	height int
	quants lj.Array2QuantizationFactors // effective tables
	file   []byte
	blocks []lj.BlockI16 // blocks accepted so far
	prevDC [3]int        // harness's own bookkeeping for DC-delta targeting
}

func (s *seq) op(line, ans string) {
	s.ops = append(s.ops, line)
	s.r.Op(line, ans)
}

func (s *seq) replay() string { return strings.Join(s.ops, "\n") }

func (s *seq) failf(key, format string, a ...interface{}) {
	s.fail = true
	s.r.Fail(key, fmt.Sprintf(format, a...), s.replay())
}

func hexOrDash(q *lj.QuantizationFactors) string { return hlib.Hex(q[:]) }

// reset calls Encoder.Reset. q == nil means nil options.
func (s *seq) reset(ct lj.ColorType, width, height int, q *lj.Array2QuantizationFactors, nilInner bool, wfail bool) (ans string) {
	s.w = &capWriter{fail: wfail}
	var opts *lj.EncoderOptions
	q0, q1 := "-", "-"
	if q != nil {
		opts = &lj.EncoderOptions{QuantizationFactors: q}
		q0, q1 = hexOrDash(&q[0]), hexOrDash(&q[1])
	} else if nilInner {
		opts = &lj.EncoderOptions{}
	}
	var err error
	ans, msg := hlib.GuardMsg(func() string {
		err = s.enc.Reset(s.w, ct, width, height, opts)
		if err != nil {
			return "err " + errWord(err)
		}
		return "ok " + hlib.Hex(s.w.buf)
	})
	line := fmt.Sprintf("reset %d %d %d %d %s %s", b2i(wfail), int(ct), width, height, q0, q1)
	s.op(line, ans)
	if ans == "panic" {
		s.failf("panic:reset", "Encoder.Reset panicked: %s", msg)
		return ans
	}
	if err != nil && !wfail && s.w.nCalls != 0 {
		s.failf("write-after-error:reset", "Reset returned %v but wrote to the io.Writer", err)
	}
	if err == nil {
		s.ct, s.width, s.height = ct, width, height
		if q != nil {
			s.quants = *q
		} else {
			s.quants.SetToStandardValues(lj.DefaultQuality)
		}
		s.file = append([]byte(nil), s.w.buf...)
		s.blocks = s.blocks[:0]
		s.prevDC = [3]int{}
		if s.w.nCalls != 1 {
			s.failf("reset-write-calls", "Reset made %d Write calls", s.w.nCalls)
		}
	}
	return ans
}

// add calls AddN. blocks == nil means a nil pointer.
func (s *seq) add(n int, blocks []lj.BlockI16, wfail bool) (ans string) {
	s.w.fail = wfail
	before := s.w.nCalls
	lenBefore := len(s.w.buf)
	var err error
	ans, msg := hlib.GuardMsg(func() string {
		switch n {
		case 1:
			var p *lj.Array1BlockI16
			if blocks != nil {
				p = &lj.Array1BlockI16{}
				copy(p[:], blocks)
			}
			err = s.enc.Add1(s.w, p)
		case 3:
			var p *lj.Array3BlockI16
			if blocks != nil {
				p = &lj.Array3BlockI16{}
				copy(p[:], blocks)
			}
			err = s.enc.Add3(s.w, p)
		case 6:
			var p *lj.Array6BlockI16
			if blocks != nil {
				p = &lj.Array6BlockI16{}
				copy(p[:], blocks)
			}
			err = s.enc.Add6(s.w, p)
		}
		if err != nil {
			return "err " + errWord(err)
		}
		return "ok " + hlib.Hex(s.w.buf[lenBefore:])
	})
	var sb strings.Builder
	fmt.Fprintf(&sb, "add %d %d", n, b2i(wfail))
	if blocks == nil {
		sb.WriteString(" nil")
	} else {
		for i := range blocks {
			sb.WriteByte(' ')
			sb.WriteString(blockText(&blocks[i]))
		}
	}
	s.op(sb.String(), ans)
	s.r.Count("add:" + strings.SplitN(ans, " ", 3)[0] + ":" + func() string {
		if err != nil {
			return errWord(err)
		}
		return "ok"
	}())
	if ans == "panic" {
		s.failf("panic:add", "Encoder.Add%d panicked: %s", n, msg)
		return ans
	}
	if err != nil && !wfail && s.w.nCalls != before {
		s.failf("write-after-error:add", "Add%d returned %v but wrote to the io.Writer", n, err)
	}
	if err == nil {
		s.file = append(s.file, s.w.buf[lenBefore:]...)
		s.blocks = append(s.blocks, blocks...)
		if s.w.nCalls != before+1 {
			s.failf("add-write-calls", "Add%d made %d Write calls", n, s.w.nCalls-before)
		}
	}
	return ans
}

func (s *seq) state() {
	he, ct, pdc, nar, bv, bn := s.enc.VerifState()
	s.op("state", fmt.Sprintf("st %d %d %d %d %d %d %d %d", b2i(he), int(ct), pdc[0], pdc[1], pdc[2], nar, bv, bn))
}

func (s *seq) expect(ans, want, what string) {
	if ans != want && ans != "panic" {
		key := "protocol:" + what
		s.failf(key, "%s: got %q, want %q", what, ans, want)
	}
}

// ---- generators

var ctypes = []lj.ColorType{lj.ColorTypeGray, lj.ColorTypeYCbCr444, lj.ColorTypeYCbCr420}

func (s *seq) genQuants() (q *lj.Array2QuantizationFactors, nilInner bool, kind string) {
	rng := s.rng
	q = &lj.Array2QuantizationFactors{}
	switch rng.Intn(8) {
	case 0:
		return nil, false, "nil"
	case 1:
		return nil, true, "nil-inner"
	case 2:
		for i := 0; i < 64; i++ {
			q[0][i], q[1][i] = 1, 1
		}
		return q, false, "all-1"
	case 3:
		for i := 0; i < 64; i++ {
			q[0][i], q[1][i] = 255, 255
		}
		return q, false, "all-255"
	case 4:
		q.SetToStandardValues(rng.Range(-5, 110))
		return q, false, "standard"
	case 5:
		for i := 0; i < 64; i++ {
			q[0][i], q[1][i] = byte(rng.Range(1, 4)), byte(rng.Range(1, 4))
		}
		return q, false, "small"
	default:
		for i := 0; i < 64; i++ {
			q[0][i], q[1][i] = byte(rng.Range(1, 255)), byte(rng.Range(1, 255))
		}
		return q, false, "random"
	}
}

func (s *seq) genSize(maxUnits int, ct lj.ColorType) (w, h int) {
	rng := s.rng
	mcu := 8
	if ct == lj.ColorTypeYCbCr420 {
		mcu = 16
	}
	pick := func() int {
		switch rng.Intn(8) {
		case 0:
			return 1
		case 1:
			return mcu*rng.Range(1, 6) + rng.Range(-1, 1) // around a multiple of the MCU size
		case 2:
			return 8*rng.Range(1, 9) + []int{-1, 0, 1, 7, 8, 9}[rng.Intn(6)]
		case 3:
			return rng.Range(1, 40)
		default:
			return rng.Range(1, 100)
		}
	}
	for {
		w, h = pick(), pick()
		if w >= 1 && h >= 1 && expectedUnits(ct, w, h) <= maxUnits {
			return w, h
		}
	}
}

// cat returns the JPEG magnitude category of v.
func cat(v int) int {
	if v < 0 {
		v = -v
	}
	n := 0
	for v > 0 {
		n++
		v >>= 1
	}
	return n
}

// genBlock makes one valid block for component class comp (0 luma, 1 chroma);
// kind selects the branch structure that is aimed at.
func (s *seq) genBlock(comp int, compIdx int) (b lj.BlockI16, kind string) {
	rng := s.rng
	q := &s.quants[comp]
	zz := &s.zz
	// a value at zigzag position z that survives quantisation as a non-zero number
	nz := func(z int, mag int) int16 {
		i := zz[z]
		v := int(q[i]) * mag
		if v > 1023 {
			v = 1023
		}
		if v < int(q[i]+1)/2 { // cannot happen (mag >= 1), kept for clarity
			v = 1023
		}
		if rng.Bool() {
			v = -v
		}
		return int16(v)
	}
	signed := func(v int) int16 {
		if rng.Bool() {
			return int16(-v)
		}
		return int16(v)
	}
	k := rng.Intn(16)
	switch k {
	case 0:
		kind = "zero"
	case 1:
		kind = "sparse"
		for n := rng.Range(1, 5); n > 0; n-- {
			b[rng.Intn(64)] = signed(rng.Range(1, 1023))
		}
	case 2:
		kind = "dense-small"
		for i := range b {
			b[i] = int16(rng.Range(-15, 15))
		}
	case 3:
		kind = "dense-full"
		for i := range b {
			b[i] = int16(rng.Range(-1023, 1023))
		}
		b[0] = int16(rng.Range(-1024, 1023))
	case 4:
		kind = "extreme"
		for i := range b {
			b[i] = signed(1023)
		}
		b[0] = []int16{-1024, 1023}[rng.Intn(2)]
	case 5:
		kind = "extreme-plus" // adjusted diff all ones => 0xFF bytes and stuffing
		for i := range b {
			b[i] = 1023
		}
	case 6:
		kind = "dc-swing" // DC delta +-2047 against the previous block of this component
		if s.prevDC[compIdx] >= 0 {
			b[0] = -1024
		} else {
			b[0] = 1023
		}
		if rng.Bool() {
			b[zz[rng.Range(1, 63)]] = signed(1)
		}
	case 7, 8:
		kind = "runs"
		gap := []int{14, 15, 16, 17, 30, 31, 32, 33, 47, 48, 49, 61, 62}[rng.Intn(13)]
		z := 1 + rng.Intn(3)
		if rng.Intn(3) == 0 {
			z = 1 + gap // the run starts right after DC
		}
		for z <= 63 {
			b[zz[z]] = nz(z, rng.Range(1, 3))
			z += gap + 1
		}
		kind = fmt.Sprintf("runs-%d", gap)
	case 9:
		kind = "last-only"
		b[zz[63]] = nz(63, 1)
		b[0] = int16(rng.Range(-1024, 1023))
	case 10:
		// trailing zero run of an exact length
		t := []int{1, 2, 15, 16, 17, 31, 32, 33, 62}[rng.Intn(9)]
		kind = fmt.Sprintf("tail-%d", t)
		for z := 1; z <= 63-t; z++ {
			if z == 63-t || rng.Intn(3) == 0 {
				b[zz[z]] = nz(z, rng.Range(1, 4))
			}
		}
	case 11:
		kind = "category-bounds"
		for i := range b {
			if rng.Intn(3) != 0 {
				c := rng.Range(1, 10)
				v := []int{1<<uint(c) - 1, 1 << uint(c-1), 1<<uint(c-1) + 1}[rng.Intn(3)]
				if v > 1023 {
					v = 1023
				}
				b[i] = signed(v)
			}
		}
		b[0] = []int16{-1024, -1023, -512, -511, 0, 511, 512, 1023}[rng.Intn(8)]
	case 12:
		kind = "rounding-ties" // values around q/2, 3q/2: the rounding of div
		for i := range b {
			qq := int(q[i])
			v := qq*rng.Intn(3) + qq/2 + rng.Range(-1, 1)
			if v > 1023 {
				v = 1023
			}
			b[i] = signed(v)
		}
	case 13:
		kind = "ones" // values whose codes are mostly 1 bits
		for z := 1; z <= 63; z++ {
			switch rng.Intn(4) {
			case 0:
				b[zz[z]] = 1023
			case 1:
				b[zz[z]] = 511
			case 2:
				b[zz[z]] = -1023
			}
		}
		b[0] = 1023
	default:
		kind = "mixed"
		for i := range b {
			switch rng.Intn(5) {
			case 0:
				b[i] = int16(rng.Range(-1023, 1023))
			case 1:
				b[i] = int16(rng.Range(-3, 3))
			}
		}
		b[0] = int16(rng.Range(-1024, 1023))
	}
	return b, kind
}

func invalidBlock(rng *hlib.Rand) lj.BlockI16 {
	var b lj.BlockI16
	switch rng.Intn(6) {
	case 0:
		b[0] = 1024
	case 1:
		b[0] = -1025
	case 2:
		b[rng.Range(1, 63)] = 1024
	case 3:
		b[rng.Range(1, 63)] = -1024
	case 4:
		b[rng.Intn(64)] = 32767
	default:
		b[rng.Intn(64)] = -32768
	}
	return b
}

func compClass(n int, i int) (class int, idx int) {
	switch n {
	case 3:
		return b2i(i > 0), i
	case 6:
		if i < 4 {
			return 0, 0
		}
		return 1, i - 3
	}
	return 0, 0
}

func (s *seq) genUnit(n int) []lj.BlockI16 {
	bs := make([]lj.BlockI16, n)
	for i := range bs {
		class, idx := compClass(n, i)
		var kind string
		bs[i], kind = s.genBlock(class, idx)
		if s.quants[class][0] != 0 {
			s.prevDC[idx] = roundDiv(int(bs[i][0]), int(s.quants[class][0]))
		}
		s.r.Count("block:" + strings.SplitN(kind, "-", 2)[0])
	}
	return bs
}

// ---- oracle on a complete file

func (s *seq) checkFile(specOp bool) {
	n := int(s.ct)
	img, err := refDecode(s.file)
	if err != nil {
		s.failf("refdecode:rejects", "independent T.81 baseline decoder rejects the output: %v", err)
		return
	}
	if img.w != s.width || img.h != s.height {
		s.failf("header:dimensions", "SOF0 declares %dx%d, want %dx%d", img.w, img.h, s.width, s.height)
	}
	wantComps := 1
	if n != 1 {
		wantComps = 3
	}
	okSampling := len(img.comps) == wantComps
	if okSampling {
		for i, c := range img.comps {
			wh, wv := 1, 1
			if n == 6 && i == 0 {
				wh, wv = 2, 2
			}
			if c.h != wh || c.v != wv {
				okSampling = false
			}
			class := b2i(i > 0)
			if img.qt[c.tq] == nil {
				okSampling = false
				continue
			}
			for k := 0; k < 64; k++ {
				if img.qt[c.tq][k] != int(s.quants[class][k]) {
					s.failf("header:quant-table", "component %d: DQT table %d entry %d is %d, want %d", i, c.tq, k, img.qt[c.tq][k], s.quants[class][k])
					return
				}
			}
		}
	}
	if !okSampling {
		s.failf("header:sampling", "components %v do not match colour type %d", img.comps, n)
		return
	}
	if len(img.blocks) != len(s.blocks) {
		s.failf("entropy:block-count", "decoded %d blocks, %d were added", len(img.blocks), len(s.blocks))
		return
	}
	for bi := range s.blocks {
		class, _ := compClass(n, bi%n)
		for k := 0; k < 64; k++ {
			want := roundDiv(int(s.blocks[bi][k]), int(s.quants[class][k]))
			if int(img.blocks[bi][k]) != want {
				s.failf("entropy:coefficient", "block %d coefficient %d decodes to %d, want round(%d/%d) = %d",
					bi, k, img.blocks[bi][k], s.blocks[bi][k], s.quants[class][k], want)
				return
			}
		}
	}
	// image/jpeg
	if s.width*s.height <= 1<<22 {
		m, err := jpeg.Decode(bytes.NewReader(s.file))
		if err != nil {
			s.failf("imagejpeg:rejects", "image/jpeg.Decode: %v", err)
		} else {
			if m.Bounds() != image.Rect(0, 0, s.width, s.height) {
				s.failf("imagejpeg:bounds", "image/jpeg bounds %v, want %dx%d", m.Bounds(), s.width, s.height)
			}
			switch mm := m.(type) {
			case *image.Gray:
				if n != 1 {
					s.failf("imagejpeg:type", "image/jpeg returns Gray for colour type %d", n)
				}
			case *image.YCbCr:
				want := image.YCbCrSubsampleRatio444
				if n == 6 {
					want = image.YCbCrSubsampleRatio420
				}
				if n == 1 || mm.SubsampleRatio != want {
					s.failf("imagejpeg:type", "image/jpeg returns YCbCr %v for colour type %d", mm.SubsampleRatio, n)
				}
			default:
				s.failf("imagejpeg:type", "image/jpeg returns %T", m)
			}
		}
		s.r.Count("oracle:imagejpeg-decode")
	} else {
		cfg, err := jpeg.DecodeConfig(bytes.NewReader(s.file))
		if err != nil || cfg.Width != s.width || cfg.Height != s.height {
			s.failf("imagejpeg:config", "image/jpeg.DecodeConfig: %v %dx%d", err, cfg.Width, cfg.Height)
		}
		s.r.Count("oracle:imagejpeg-config")
	}
	s.r.Count("oracle:file-decoded")
	s.r.CountN("oracle:blocks-compared", len(s.blocks))
	stuffed := bytes.Count(s.file, []byte{0xFF, 0x00})
	if stuffed > 0 {
		s.r.Count("file:has-stuffing")
	}
	sig := fmt.Sprintf("%d/%dx%d/%x", n, s.width, s.height, hashBytes(s.file))
	s.r.Nontrivial(sig)

	if specOp {
		// the Lean Spec decoder must return exactly what was put in
		var sb strings.Builder
		fmt.Fprintf(&sb, "ok %d %d ", s.width, s.height)
		switch n {
		case 1:
			sb.WriteString("1:1:1:0 " + hlib.Hex(s.quants[0][:]))
		case 3:
			sb.WriteString("1:1:1:0,2:1:1:1,3:1:1:1 " + hlib.Hex(s.quants[0][:]) + "," + hlib.Hex(s.quants[1][:]) + "," + hlib.Hex(s.quants[1][:]))
		case 6:
			sb.WriteString("1:2:2:0,2:1:1:1,3:1:1:1 " + hlib.Hex(s.quants[0][:]) + "," + hlib.Hex(s.quants[1][:]) + "," + hlib.Hex(s.quants[1][:]))
		}
		sb.WriteByte(' ')
		for bi := range s.blocks {
			if bi > 0 {
				sb.WriteByte(';')
			}
			class, _ := compClass(n, bi%n)
			for k := 0; k < 64; k++ {
				if k > 0 {
					sb.WriteByte(',')
				}
				sb.WriteString(strconv.Itoa(roundDiv(int(s.blocks[bi][k]), int(s.quants[class][k]))))
			}
		}
		s.op("specdecode "+hlib.Hex(s.file), sb.String())
		s.r.Count("oracle:lean-spec-decode")
		if len(s.file) <= 2500 {
			s.malformedSpecOps()
		}
	}
}

func hashBytes(b []byte) uint64 {
	h := uint64(14695981039346656037)
	for _, c := range b {
		h ^= uint64(c)
		h *= 1099511628211
	}
	return h
}

// finishImage adds the remaining units (all valid), checks the end-of-file protocol.
func (s *seq) finishImage(remaining int, decodable bool) {
	n := int(s.ct)
	for i := 0; i < remaining; i++ {
		if i == remaining-1 && decodable {
			// before the last unit the output is not a complete image
			if _, err := refDecode(s.file); err == nil {
				s.failf("protocol:complete-too-early", "output is a complete JPEG before the last unit was added")
			}
		}
		ans := s.add(n, s.genUnit(n), false)
		if !strings.HasPrefix(ans, "ok ") {
			s.expect(ans, "ok …", "valid-unit-accepted")
			return
		}
		last := i == remaining-1
		hasEOI := bytes.HasSuffix(s.file, []byte{0xFF, 0xD9})
		if last && !hasEOI {
			s.failf("protocol:no-eoi", "the last unit did not end the file with EOI")
		}
		if !last && hasEOI {
			s.failf("protocol:eoi-too-early", "EOI written with %d units remaining", remaining-1-i)
		}
	}
	if s.rng.Intn(4) == 0 {
		s.state()
	}
	if decodable && !s.fail {
		s.checkFile(len(s.file) <= 24000 && s.rng.Intn(3) != 0)
	}
	// too many
	ans := s.add(n, s.genUnit(n), false)
	s.expect(ans, "err too-many", "too-many")
	ans = s.add(n, s.genUnit(n), false)
	s.expect(ans, "err previously-returned", "sticky-after-too-many")
}

func (s *seq) run(maxUnits int) {
	rng := s.rng
	s.op(fmt.Sprintf("case %d", s.id), "ok")

	if rng.Intn(10) == 0 { // AddN on a zero-value Encoder
		s.r.Count("scenario:add-before-reset")
		n := int(ctypes[rng.Intn(3)])
		s.w = &capWriter{}
		ans := s.add(n, make([]lj.BlockI16, n), false)
		s.expect(ans, "err bad-addn", "add-before-reset")
		ans = s.add(n, make([]lj.BlockI16, n), false)
		s.expect(ans, "err previously-returned", "sticky-before-reset")
	}

	rounds := 1 + rng.Intn(2)
	for round := 0; round < rounds; round++ {
		ct := ctypes[rng.Intn(3)]
		n := int(ct)
		q, nilInner, qkind := s.genQuants()
		w, h := s.genSize(maxUnits, ct)
		s.r.Count("quant:" + qkind)
		s.r.Count(fmt.Sprintf("colortype:%d", n))

		// invalid Reset arguments
		if rng.Intn(7) == 0 {
			s.r.Count("scenario:bad-reset")
			bw, bh, bct, bq := w, h, ct, q
			switch rng.Intn(7) {
			case 0:
				bw = []int{0, -1, 65536, 1 << 20, -65535}[rng.Intn(5)]
			case 1:
				bh = []int{0, -1, 65536, 1 << 20, -65535}[rng.Intn(5)]
			case 2:
				bct = lj.ColorType([]int{0, 2, 4, 5, 7, 255}[rng.Intn(6)])
			default:
				bq = &lj.Array2QuantizationFactors{}
				for i := 0; i < 64; i++ {
					bq[0][i], bq[1][i] = byte(rng.Range(1, 255)), byte(rng.Range(1, 255))
				}
				bq[rng.Intn(2)][rng.Intn(64)] = 0
			}
			ans := s.reset(bct, bw, bh, bq, false, false)
			s.expect(ans, "err bad-argument", "bad-reset-argument")
			s.w = &capWriter{}
			ans = s.add(n, s.genUnit(n), false)
			s.expect(ans, "err previously-returned", "sticky-after-bad-reset")
			if rng.Bool() {
				s.state()
			}
		}

		// huge images: check the unit count, then jump close to the end
		if rng.Intn(9) == 0 {
			s.r.Count("scenario:huge")
			w = []int{65535, 65535, 65529, 65521, 40000, 1, 8, 16, 17}[rng.Intn(9)]
			h = []int{65535, 1, 65535, 65520, 30001, 9}[rng.Intn(6)]
			ans := s.reset(ct, w, h, q, nilInner, false)
			if !strings.HasPrefix(ans, "ok ") {
				s.expect(ans, "ok …", "reset-accepted")
				return
			}
			_, _, _, nar, _, _ := s.enc.VerifState()
			if int(nar) != expectedUnits(ct, w, h) {
				s.failf("units:count", "%dx%d colour type %d: numAddsRemaining = %d, want %d", w, h, n, nar, expectedUnits(ct, w, h))
			}
			s.state()
			if cfg, err := jpeg.DecodeConfig(bytes.NewReader(append(append([]byte(nil), s.file...), 0xFF, 0xD9))); err != nil || cfg.Width != w || cfg.Height != h {
				s.failf("imagejpeg:config", "image/jpeg.DecodeConfig on the header: %v %dx%d", err, cfg.Width, cfg.Height)
			}
			k := rng.Range(1, 4)
			if expectedUnits(ct, w, h) > k {
				s.enc.VerifSetNumAddsRemaining(uint32(k))
				s.op(fmt.Sprintf("setadds %d", k), "ok")
				s.finishImage(k, false)
			} else {
				s.finishImage(expectedUnits(ct, w, h), true)
			}
			continue
		}

		wfailReset := rng.Intn(25) == 0
		ans := s.reset(ct, w, h, q, nilInner, wfailReset)
		if wfailReset {
			s.r.Count("scenario:reset-write-error")
			s.expect(ans, "err write", "reset-write-error")
			ans = s.add(n, s.genUnit(n), false)
			s.expect(ans, "err previously-returned", "sticky-after-reset-write-error")
			continue
		}
		if !strings.HasPrefix(ans, "ok ") {
			s.expect(ans, "ok …", "reset-accepted")
			return
		}
		units := expectedUnits(ct, w, h)
		_, _, _, nar, _, _ := s.enc.VerifState()
		if int(nar) != units {
			s.failf("units:count", "%dx%d colour type %d: numAddsRemaining = %d, want %d", w, h, n, nar, units)
		}
		s.r.Count(fmt.Sprintf("size:w%%8=%d", w%8))
		if w%16 != 0 && h%16 != 0 && n == 6 {
			s.r.Count("size:420-non-multiple-of-16")
		}

		scenario := rng.Intn(20)
		errAt := rng.Intn(units)
		switch {
		case scenario < 11:
			s.r.Count("scenario:complete")
			s.finishImage(units, true)
		case scenario < 13:
			s.r.Count("scenario:too-few")
			for i := 0; i < errAt; i++ {
				s.add(n, s.genUnit(n), false)
			}
			if _, err := refDecode(s.file); err == nil {
				s.failf("protocol:complete-too-early", "output is a complete JPEG after %d of %d units", errAt, units)
			}
			s.state()
		default:
			for i := 0; i < errAt; i++ {
				s.add(n, s.genUnit(n), false)
			}
			switch scenario {
			case 13, 14:
				s.r.Count("scenario:wrong-n")
				wrong := int(ctypes[rng.Intn(3)])
				for wrong == n {
					wrong = int(ctypes[rng.Intn(3)])
				}
				ans = s.add(wrong, make([]lj.BlockI16, wrong), false)
				s.expect(ans, "err bad-addn", "wrong-n")
			case 15, 16:
				s.r.Count("scenario:invalid-block")
				u := s.genUnit(n)
				u[rng.Intn(n)] = invalidBlock(rng)
				ans = s.add(n, u, false)
				s.expect(ans, "err invalid-block", "invalid-block")
			case 17:
				s.r.Count("scenario:nil-block")
				ans = s.add(n, nil, false)
				s.expect(ans, "err bad-argument", "nil-block")
			default:
				s.r.Count("scenario:write-error")
				ans = s.add(n, s.genUnit(n), true)
				s.expect(ans, "err write", "write-error")
			}
			for k := rng.Range(1, 2); k > 0; k-- {
				ans = s.add(n, s.genUnit(n), false)
				s.expect(ans, "err previously-returned", "sticky-after-error")
			}
			if rng.Bool() {
				s.state()
			}
		}
	}
}

func allocCheck(r *hlib.Run) {
	w := &nopWriter{}
	enc := &lj.Encoder{}
	q := &lj.Array2QuantizationFactors{}
	for i := 0; i < 64; i++ {
		q[0][i], q[1][i] = 1, 1
	}
	opts := &lj.EncoderOptions{QuantizationFactors: q}
	b1 := &lj.Array1BlockI16{}
	b3 := &lj.Array3BlockI16{}
	b6 := &lj.Array6BlockI16{}
	for i := 0; i < 64; i++ {
		for j := range b6 {
			b6[j][i] = 1023
		}
		for j := range b3 {
			b3[j][i] = -1023
		}
		b1[0][i] = int16(i * 7)
	}
	var firstErr error
	note := func(err error) {
		if err != nil && firstErr == nil {
			firstErr = err
		}
	}
	allocs := testing.AllocsPerRun(50, func() {
		note(enc.Reset(w, lj.ColorTypeGray, 9, 9, nil))
		for i := 0; i < 4; i++ {
			note(enc.Add1(w, b1))
		}
		note(enc.Reset(w, lj.ColorTypeYCbCr444, 8, 16, opts))
		note(enc.Add3(w, b3))
		note(enc.Add3(w, b3))
		note(enc.Reset(w, lj.ColorTypeYCbCr420, 17, 16, opts))
		note(enc.Add6(w, b6))
		note(enc.Add6(w, b6))
		// error paths must not allocate either
		enc.Add6(w, b6)
		enc.Add6(w, b6)
	})
	r.Extra("allocs_per_run", allocs)
	if allocs != 0 {
		r.Fail("alloc:encoder", fmt.Sprintf("testing.AllocsPerRun = %v for Reset/AddN sequences", allocs), "allocCheck in harness/cmd/c18/main.go")
	}
	if firstErr != nil {
		r.Fail("alloc:unexpected-error", fmt.Sprintf("valid sequence returned %v", firstErr), "allocCheck in harness/cmd/c18/main.go")
	}
}

// hugeImage (thorough tier): a full 65535x65535 4:2:0 image, 4096*4096 real Add6 calls into
// a counting writer: exactly that many units are accepted, only the last one writes EOI, one
// more is ErrTooManyAddNCalls. Implementation-side oracle only (no op lines).
type tailWriter struct {
	n        int64
	last     [2]byte
	eoiEarly bool
}

func (w *tailWriter) Write(p []byte) (int, error) {
	if len(p) >= 2 {
		w.last[0], w.last[1] = p[len(p)-2], p[len(p)-1]
	} else if len(p) == 1 {
		w.last[0], w.last[1] = w.last[1], p[0]
	}
	w.n += int64(len(p))
	return len(p), nil
}

func hugeImage(r *hlib.Run) {
	enc := &lj.Encoder{}
	w := &tailWriter{}
	out := hlib.Guard(func() string {
		if err := enc.Reset(w, lj.ColorTypeYCbCr420, 65535, 65535, nil); err != nil {
			return "reset: " + err.Error()
		}
		total := 4096 * 4096
		b := &lj.Array6BlockI16{}
		for i := 0; i < total; i++ {
			b[0][0] = int16(i%2047 - 1023)
			b[i%6][1+i%63] = int16(i%511 - 255)
			if err := enc.Add6(w, b); err != nil {
				return fmt.Sprintf("unit %d of %d: %v", i, total, err)
			}
			b[i%6][1+i%63] = 0
			isEOI := w.last == [2]byte{0xFF, 0xD9}
			if isEOI != (i == total-1) {
				return fmt.Sprintf("unit %d of %d: EOI written = %v", i, total, isEOI)
			}
		}
		if err := enc.Add6(w, b); err != lj.ErrTooManyAddNCalls {
			return fmt.Sprintf("unit %d: got %v, want ErrTooManyAddNCalls", total, err)
		}
		return "ok"
	})
	r.Extra("huge_image_bytes", w.n)
	r.Count("oracle:huge-image-65535x65535-420")
	if out != "ok" {
		r.Fail("protocol:huge-image", "65535x65535 4:2:0, all 16777216 units: "+out, "hugeImage in harness/cmd/c18/main.go (Reset 65535x65535 colour type 6, Add6 x 16777216)")
	}
}

func main() {
	r := hlib.Start("C18")
	if r.IsGen() {
		r.WriteGen("C18_Tables.lean", genTables())
		return
	}
	if r.Mode == "witness" { // developer tool: print blocks with round-trip error >= 2
		findWitnesses(r)
		return
	}
	nCases, maxUnits := 260, 40
	if r.Thorough {
		nCases, maxUnits = 1500, 200
	}
	zz := refZigzag()
	id := 0
	runCase := func(maxU int) {
		s := &seq{r: r, rng: r.Rand.Fork(), enc: &lj.Encoder{}, w: &capWriter{}, id: id, zz: zz}
		id++
		s.run(maxU)
	}
	for i := 0; i < nCases; i++ {
		runCase(maxUnits)
	}
	// one long strip: 65535x1 gray needs 8192 units
	{
		s := &seq{r: r, rng: r.Rand.Fork(), enc: &lj.Encoder{}, w: &capWriter{}, id: id, zz: zz}
		id++
		s.op(fmt.Sprintf("case %d", s.id), "ok")
		w, h := 65535, 1
		if r.Rand.Bool() {
			w, h = 1, 65535
		}
		ans := s.reset(lj.ColorTypeGray, w, h, nil, false, false)
		if strings.HasPrefix(ans, "ok ") {
			s.finishImage(expectedUnits(lj.ColorTypeGray, w, h), true)
		}
	}

	if r.Thorough {
		hugeImage(r)
	}
	divOps(r)
	if dht, err := newRefTables(); err != nil {
		r.Fail("header:dht-unreadable", "the DHT segments of a Reset header cannot be read back: "+err.Error(), "reset 0 3 8 8 - -")
	} else {
		perFunctionOps(r, dht)
	}
	dctChecks(r)
	allocCheck(r) // last, so that a failing case with a replayable op sequence is reported first

	r.Extra("oracle_cases", r.NOps())
	r.Finish("cases = stateful Reset/AddN sequences on lowleveljpeg.Encoder over sizes (1x1, around multiples of 8/16, 65535x1, 65535x65535 via setadds), three colour types, nil/standard/all-1/all-255/random quantisation tables and blocks aimed at code-length, run-length (15/16/17/62), category and stuffing branches, with protocol errors injected; distinct non-trivial = complete files (colour type, size, content hash) decoded by the independent T.81 decoder and compared coefficient by coefficient; plus div, FDCT/IDCT ops")
}
