package main

// An independent reference decoder for single-scan baseline JPEG, written from
// ITU-T T.81 (Annex B marker segments, Annex C Huffman table generation,
// F.2.2 entropy decoding, A.2.3 MCU order). It shares no code or table with
// /repo/lib/lowleveljpeg: Huffman codes come from the DHT segments found in
// the file, the zig-zag order is computed. It returns the QUANTISED
// coefficients (no dequantisation, no IDCT), natural order inside a block.

import (
	"errors"
	"fmt"
)

type refComp struct{ id, h, v, tq int }

type refImage struct {
	w, h   int
	comps  []refComp
	qt     [4]*[64]int // natural order
	blocks [][64]int32 // coding order
}

type refHuff struct {
	// codes[len] maps code -> symbol for codes of that length (1..16)
	codes [17]map[uint32]byte
}

func refZigzag() (zz [64]int) {
	z := 0
	for d := 0; d < 15; d++ {
		var cells []int
		for r := 0; r < 8; r++ {
			c := d - r
			if c >= 0 && c < 8 {
				cells = append(cells, 8*r+c)
			}
		}
		if d%2 == 0 { // even diagonals run from bottom-left to top-right
			for i, j := 0, len(cells)-1; i < j; i, j = i+1, j-1 {
				cells[i], cells[j] = cells[j], cells[i]
			}
		}
		for _, c := range cells {
			zz[z] = c
			z++
		}
	}
	return zz
}

func refBuildHuff(bits []byte, vals []byte) (*refHuff, error) {
	h := &refHuff{}
	for i := range h.codes {
		h.codes[i] = map[uint32]byte{}
	}
	code := uint32(0)
	k := 0
	for l := 1; l <= 16; l++ {
		for i := 0; i < int(bits[l-1]); i++ {
			if code >= 1<<uint(l) {
				return nil, errors.New("DHT: code overflow")
			}
			h.codes[l][code] = vals[k]
			k++
			code++
		}
		code <<= 1
	}
	return h, nil
}

type refBits struct {
	data []byte // unstuffed entropy-coded bytes
	pos  int    // bit position
}

func (b *refBits) bit() (uint32, error) {
	if b.pos >= 8*len(b.data) {
		return 0, errors.New("entropy data exhausted")
	}
	v := (b.data[b.pos>>3] >> (7 - uint(b.pos&7))) & 1
	b.pos++
	return uint32(v), nil
}

func (b *refBits) decode(h *refHuff) (byte, error) {
	code := uint32(0)
	for l := 1; l <= 16; l++ {
		x, err := b.bit()
		if err != nil {
			return 0, err
		}
		code = code<<1 | x
		if s, ok := h.codes[l][code]; ok {
			return s, nil
		}
	}
	return 0, errors.New("bad Huffman code")
}

func (b *refBits) receive(n int) (int32, error) {
	v := int32(0)
	for i := 0; i < n; i++ {
		x, err := b.bit()
		if err != nil {
			return 0, err
		}
		v = v<<1 | int32(x)
	}
	return v, nil
}

func refExtend(v int32, t int) int32 {
	if t == 0 {
		return 0
	}
	if v < 1<<uint(t-1) {
		return v - (1 << uint(t)) + 1
	}
	return v
}

func refDecode(file []byte) (*refImage, error) {
	zz := refZigzag()
	if len(file) < 4 || file[0] != 0xFF || file[1] != 0xD8 {
		return nil, errors.New("no SOI")
	}
	img := &refImage{}
	var dcT, acT [4]*refHuff
	p := 2
	haveFrame := false
	for {
		if p+4 > len(file) {
			return nil, errors.New("truncated before SOS")
		}
		if file[p] != 0xFF {
			return nil, fmt.Errorf("expected marker at %d", p)
		}
		m := file[p+1]
		l := int(file[p+2])<<8 | int(file[p+3])
		if l < 2 || p+2+l > len(file) {
			return nil, errors.New("bad segment length")
		}
		pay := file[p+4 : p+2+l]
		p += 2 + l
		switch {
		case m == 0xDB:
			for len(pay) > 0 {
				if pay[0]>>4 != 0 || pay[0]&15 > 3 || len(pay) < 65 {
					return nil, errors.New("bad DQT")
				}
				t := &[64]int{}
				for z := 0; z < 64; z++ {
					t[zz[z]] = int(pay[1+z])
				}
				img.qt[pay[0]&15] = t
				pay = pay[65:]
			}
		case m == 0xC4:
			for len(pay) > 0 {
				if len(pay) < 17 {
					return nil, errors.New("bad DHT")
				}
				tc, th := pay[0]>>4, pay[0]&15
				if tc > 1 || th > 1 {
					return nil, errors.New("bad DHT class/id for baseline")
				}
				n := 0
				for _, b := range pay[1:17] {
					n += int(b)
				}
				if n > 256 || len(pay) < 17+n {
					return nil, errors.New("bad DHT length")
				}
				h, err := refBuildHuff(pay[1:17], pay[17:17+n])
				if err != nil {
					return nil, err
				}
				if tc == 0 {
					dcT[th] = h
				} else {
					acT[th] = h
				}
				pay = pay[17+n:]
			}
		case m == 0xC0:
			if haveFrame || len(pay) < 6 || pay[0] != 8 {
				return nil, errors.New("bad SOF0")
			}
			haveFrame = true
			img.h = int(pay[1])<<8 | int(pay[2])
			img.w = int(pay[3])<<8 | int(pay[4])
			nf := int(pay[5])
			if img.h == 0 || img.w == 0 || nf == 0 || nf > 4 || len(pay) != 6+3*nf {
				return nil, errors.New("bad SOF0 fields")
			}
			for i := 0; i < nf; i++ {
				c := refComp{int(pay[6+3*i]), int(pay[7+3*i] >> 4), int(pay[7+3*i] & 15), int(pay[8+3*i])}
				if c.h == 0 || c.h > 4 || c.v == 0 || c.v > 4 || c.tq > 3 {
					return nil, errors.New("bad component")
				}
				img.comps = append(img.comps, c)
			}
		case m == 0xDA:
			if !haveFrame {
				return nil, errors.New("SOS before SOF")
			}
			ns := len(img.comps)
			if len(pay) != 1+2*ns+3 || int(pay[0]) != ns {
				return nil, errors.New("bad SOS")
			}
			type sel struct{ dc, ac *refHuff }
			sels := make([]sel, ns)
			for i := 0; i < ns; i++ {
				if int(pay[1+2*i]) != img.comps[i].id {
					return nil, errors.New("SOS component mismatch")
				}
				td, ta := pay[2+2*i]>>4, pay[2+2*i]&15
				if td > 1 || ta > 1 || dcT[td] == nil || acT[ta] == nil {
					return nil, errors.New("SOS table selector")
				}
				sels[i] = sel{dcT[td], acT[ta]}
				if img.qt[img.comps[i].tq] == nil {
					return nil, errors.New("missing quantisation table")
				}
			}
			if pay[1+2*ns] != 0 || pay[2+2*ns] != 63 || pay[3+2*ns] != 0 {
				return nil, errors.New("not a baseline scan")
			}
			if ns > 1 { // B.2.3: the sum of Hj*Vj over the scan's components is at most 10
				sum := 0
				for _, c := range img.comps {
					sum += c.h * c.v
				}
				if sum > 10 {
					return nil, errors.New("more than 10 data units per MCU")
				}
			}
			// entropy-coded segment: up to the next marker, unstuffed
			var ecs []byte
			for {
				if p >= len(file) {
					return nil, errors.New("no marker after entropy data")
				}
				b := file[p]
				if b != 0xFF {
					ecs = append(ecs, b)
					p++
					continue
				}
				if p+1 >= len(file) {
					return nil, errors.New("dangling 0xFF")
				}
				if file[p+1] == 0 {
					ecs = append(ecs, 0xFF)
					p += 2
					continue
				}
				break
			}
			hmax, vmax := 0, 0
			for _, c := range img.comps {
				if c.h > hmax {
					hmax = c.h
				}
				if c.v > vmax {
					vmax = c.v
				}
			}
			cdiv := func(a, b int) int { return (a + b - 1) / b }
			nmcu := 0
			if ns == 1 {
				c := img.comps[0]
				nmcu = cdiv(cdiv(img.w*c.h, hmax), 8) * cdiv(cdiv(img.h*c.v, vmax), 8)
			} else {
				nmcu = cdiv(img.w, 8*hmax) * cdiv(img.h, 8*vmax)
			}
			br := &refBits{data: ecs}
			pred := make([]int32, ns)
			for mcu := 0; mcu < nmcu; mcu++ {
				for ci, c := range img.comps {
					nb := c.h * c.v
					if ns == 1 {
						nb = 1
					}
					for k := 0; k < nb; k++ {
						var blk [64]int32
						t, err := br.decode(sels[ci].dc)
						if err != nil {
							return nil, err
						}
						if t > 11 {
							return nil, errors.New("DC category > 11")
						}
						v, err := br.receive(int(t))
						if err != nil {
							return nil, err
						}
						pred[ci] += refExtend(v, int(t))
						blk[0] = pred[ci]
						for kk := 1; kk <= 63; {
							rs, err := br.decode(sels[ci].ac)
							if err != nil {
								return nil, err
							}
							r, s := int(rs>>4), int(rs&15)
							if s == 0 {
								if r == 15 {
									kk += 16
									if kk > 63 {
										return nil, errors.New("ZRL past end of block")
									}
									continue
								}
								if r != 0 {
									return nil, errors.New("EOBn in baseline")
								}
								break
							}
							if s > 10 {
								return nil, errors.New("AC category > 10")
							}
							kk += r
							if kk > 63 {
								return nil, errors.New("run past end of block")
							}
							v, err := br.receive(s)
							if err != nil {
								return nil, err
							}
							blk[zz[kk]] = refExtend(v, s)
							kk++
						}
						img.blocks = append(img.blocks, blk)
					}
				}
			}
			// padding: fewer than 8 bits, all ones
			rem := 8*len(ecs) - br.pos
			if rem >= 8 {
				return nil, fmt.Errorf("%d unused bits of entropy data", rem)
			}
			for i := 0; i < rem; i++ {
				x, _ := br.bit()
				if x != 1 {
					return nil, errors.New("padding bit is 0")
				}
			}
			if p+2 != len(file) || file[p] != 0xFF || file[p+1] != 0xD9 {
				return nil, errors.New("no EOI at the end of the entropy data, or bytes after EOI")
			}
			return img, nil
		case (m >= 0xE0 && m <= 0xEF) || m == 0xFE:
			// APPn, COM: skip
		default:
			return nil, fmt.Errorf("unsupported marker %02x", m)
		}
	}
}
