package main

// Bit-level pieces of the independent reference decoder (refdec.go), for the
// per-function oracles of perfunc.go: the Huffman tables are built (T.81 Annex C)
// from the DHT segments of a header the Encoder itself emitted; nothing is shared
// with the tables of /repo/lib/lowleveljpeg.

import (
	"errors"

	lj "github.com/google/wuffs/lib/lowleveljpeg"
)

type refTables struct {
	dc, ac [2]*refHuff
	zz     [64]int
}

// newRefTables: Reset a fresh Encoder for a colour image and read the DHT segments back.
func newRefTables() (*refTables, error) {
	w := &capWriter{}
	enc := &lj.Encoder{}
	if err := enc.Reset(w, lj.ColorTypeYCbCr444, 8, 8, nil); err != nil {
		return nil, err
	}
	file := w.buf
	t := &refTables{zz: refZigzag()}
	if len(file) < 4 || file[0] != 0xFF || file[1] != 0xD8 {
		return nil, errors.New("no SOI")
	}
	p := 2
	for p+4 <= len(file) {
		if file[p] != 0xFF {
			return nil, errors.New("expected marker")
		}
		m := file[p+1]
		l := int(file[p+2])<<8 | int(file[p+3])
		if l < 2 || p+2+l > len(file) {
			return nil, errors.New("bad segment length")
		}
		pay := file[p+4 : p+2+l]
		p += 2 + l
		if m == 0xC4 {
			for len(pay) > 0 {
				if len(pay) < 17 {
					return nil, errors.New("bad DHT")
				}
				tc, th := pay[0]>>4, pay[0]&15
				n := 0
				for _, b := range pay[1:17] {
					n += int(b)
				}
				if tc > 1 || th > 1 || n > 256 || len(pay) < 17+n {
					return nil, errors.New("bad DHT")
				}
				h, err := refBuildHuff(pay[1:17], pay[17:17+n])
				if err != nil {
					return nil, err
				}
				if tc == 0 {
					t.dc[th] = h
				} else {
					t.ac[th] = h
				}
				pay = pay[17+n:]
			}
		}
		if m == 0xDA {
			break
		}
	}
	for i := 0; i < 2; i++ {
		if t.dc[i] == nil || t.ac[i] == nil {
			return nil, errors.New("a DHT table is missing from the header")
		}
	}
	return t, nil
}

type bitList struct {
	bits []byte
	pos  int
}

func (b *bitList) bit() (uint32, bool) {
	if b.pos >= len(b.bits) {
		return 0, false
	}
	b.pos++
	return uint32(b.bits[b.pos-1]), true
}

func (b *bitList) decode(h *refHuff) (byte, string) {
	code := uint32(0)
	for l := 1; l <= 16; l++ {
		x, ok := b.bit()
		if !ok {
			return 0, "bits exhausted inside a code word"
		}
		code = code<<1 | x
		if s, ok := h.codes[l][code]; ok {
			return s, ""
		}
	}
	return 0, "no such Huffman code"
}

func (b *bitList) receive(n int) (int32, string) {
	v := int32(0)
	for i := 0; i < n; i++ {
		x, ok := b.bit()
		if !ok {
			return 0, "bits exhausted inside the magnitude bits"
		}
		v = v<<1 | int32(x)
	}
	return v, ""
}

// table `which` as the encoder numbers them: 0 luma DC, 1 luma AC, 2 chroma DC, 3 chroma AC
func (t *refTables) table(which int) *refHuff {
	if which%2 == 0 {
		return t.dc[which/2]
	}
	return t.ac[which/2]
}

// decodeOneRun: one code word of table `which` + SSSS magnitude bits.
func (t *refTables) decodeOneRun(which int, bits []byte) (sym int, val int, rest []byte, err string) {
	b := &bitList{bits: bits}
	s, e := b.decode(t.table(which))
	if e != "" {
		return 0, 0, nil, e
	}
	ssss := int(s & 15)
	v, e := b.receive(ssss)
	if e != "" {
		return int(s), 0, nil, e
	}
	return int(s), int(refExtend(v, ssss)), bits[b.pos:], ""
}

// decodeOneBlock: F.2.2.1 / F.2.2.2 for one block; returns the coefficients in natural order.
func (t *refTables) decodeOneBlock(base int, pred int, bits []byte) (blk [64]int, rest []byte, err string) {
	b := &bitList{bits: bits}
	tt, e := b.decode(t.dc[base/2])
	if e != "" {
		return blk, nil, "DC: " + e
	}
	if tt > 11 {
		return blk, nil, "DC category > 11"
	}
	v, e := b.receive(int(tt))
	if e != "" {
		return blk, nil, "DC: " + e
	}
	blk[0] = pred + int(refExtend(v, int(tt)))
	for kk := 1; kk <= 63; {
		rs, e := b.decode(t.ac[base/2])
		if e != "" {
			return blk, nil, "AC: " + e
		}
		r, s := int(rs>>4), int(rs&15)
		if s == 0 {
			if r == 15 {
				kk += 16
				if kk > 63 {
					return blk, nil, "ZRL past end of block"
				}
				continue
			}
			if r != 0 {
				return blk, nil, "EOBn in baseline"
			}
			break
		}
		if s > 10 {
			return blk, nil, "AC category > 10"
		}
		kk += r
		if kk > 63 {
			return blk, nil, "run past end of block"
		}
		v, e := b.receive(s)
		if e != "" {
			return blk, nil, "AC: " + e
		}
		blk[t.zz[kk]] = int(refExtend(v, s))
		kk++
	}
	return blk, bits[b.pos:], ""
}
