package main

// The DCT clause of C18: "The forward DCT of any 8x8 pixel block is a valid
// block and the inverse DCT of that returns each pixel to within one."
//
// Oracle (on the implementation, for every block looked at):
//   (a) ForwardDCT(b).IsValid()            -- also proved for the model (fdct_valid)
//   (b) max_i |InverseDCT(ForwardDCT(b))[i] - b[i]| <= 1
//
// (b) is FALSE on the unchanged tree: blocks with error 2 exist (about one in
// 10^5 uniformly random blocks; hill climbing finds one in well under a second).
// The cause is inherent in rounding 64 coefficients to integers (the IDCT of the
// rounding noise can exceed 1.5 at a pixel); there is no few-line repair, so it is
// a KNOWN FINDING. How failures of (b) are keyed, and why:
//
//   * findings/C18/idct-fdct-error2.txt lists SPECIFIC witness blocks. They are
//     evaluated on every run. A witness that still has error >= 2 fails with key
//        idct-fdct-error-<err>:<h>     h = hash(block, FDCT output, IDCT output)
//     and exactly these keys (for the outputs of the unchanged tree) are in
//     KNOWN_FINDINGS.txt. If a code change alters the FDCT or IDCT output of a
//     witness, or its error magnitude, the key changes and is no longer known.
//   * Blocks found by the seeded search (random, extreme, hill-climbed) with error
//     >= 2 are NEW blocks every run, so they cannot be listed one by one. They are
//     classified with DESIGN 1.7's rule "the implementation agrees with the
//     faithful model on it and the listed defect is what fired": refFDCT/refIDCT
//     below are a frozen transcription of the unchanged tree's fixed-point
//     transform pair (the same arithmetic as Model/Jpeg/Dct.lean; every such block
//     is also sent through the Lean model as fdct/idct ops, so the transcription
//     itself is cross-checked).
//        - implementation output == frozen reference, error == 2 (the magnitude
//          of the listed witnesses): same defect instance class as the listed
//          finding; counted (histogram dct:err2-same-as-known), not failed.
//        - implementation output != frozen reference and error >= 2: the code
//          changed and the property fails on this block: Fail with the per-block
//          key (never listed) => VIOLATION with this block as the failing input.
//        - error >= 3 (larger than any listed witness), whatever the outputs:
//          Fail with the per-block key => VIOLATION (a new, stronger finding).
//          On the unchanged tables the error is PROVED to lie in [-3, +4] for every
//          block (Props.C18.idct_fdct_error_range), so 3 or 4 cannot be excluded
//          a priori; the search has never produced one (3*10^6 random + 6000
//          hill-climbed blocks per thorough run: 90 blocks with error 2, none above).
//   So: the magnitude and the outputs of the listed blocks, and agreement with the
//   frozen reference for unlisted ones, are what distinguish old from new.

import (
	"bufio"
	"crypto/sha256"
	"encoding/hex"
	"fmt"
	"math"
	"os"
	"path/filepath"
	"sort"
	"strconv"
	"strings"
	"sync"

	lj "github.com/google/wuffs/lib/lowleveljpeg"
	"wvh/hlib"
)

// ---- frozen reference transcription of block.go (unchanged tree)

var refCos = [32]int64{
	0x10000, 0x0FB14, 0x0EC83, 0x0D4DB, 0x0B504, 0x08E39, 0x061F7, 0x031F1,
	0, -0x031F1, -0x061F7, -0x08E39, -0x0B504, -0x0D4DB, -0x0EC83, -0x0FB14,
	-0x10000, -0x0FB14, -0x0EC83, -0x0D4DB, -0x0B504, -0x08E39, -0x061F7, -0x031F1,
	0, 0x031F1, 0x061F7, 0x08E39, 0x0B504, 0x0D4DB, 0x0EC83, 0x0FB14,
}

func refHalfAlpha(k int) int64 {
	if k == 0 {
		return 0x5A82
	}
	return 0x8000
}

func refFDCT(src *[64]byte) (dst [64]int16) {
	for v := 0; v < 8; v++ {
		for u := 0; u < 8; u++ {
			sum := int64(0)
			for y := 0; y < 8; y++ {
				for x := 0; x < 8; x++ {
					sum += (int64(src[8*y+x]) - 128) * refCos[((2*x+1)*u)&31] * refCos[((2*y+1)*v)&31]
				}
			}
			a16 := (refHalfAlpha(v)*refHalfAlpha(u) + 1<<15) >> 16
			s16 := (sum + 1<<15) >> 16
			dst[8*v+u] = int16((a16*s16 + 1<<31) >> 32)
		}
	}
	return dst
}

func refIDCT(src *[64]int16) (dst [64]byte) {
	for y := 0; y < 8; y++ {
		for x := 0; x < 8; x++ {
			sum := int64(0)
			for v := 0; v < 8; v++ {
				for u := 0; u < 8; u++ {
					a16 := (refHalfAlpha(v)*refHalfAlpha(u) + 1<<15) >> 16
					c16 := (refCos[((2*x+1)*u)&31]*refCos[((2*y+1)*v)&31] + 1<<15) >> 16
					sum += int64(src[8*v+u]) * (a16 * c16)
				}
			}
			r := (sum+1<<31)>>32 + 128
			if r < 0 {
				r = 0
			} else if r > 255 {
				r = 255
			}
			dst[8*y+x] = byte(r)
		}
	}
	return dst
}

// ---- evaluation of one block on the implementation

type dctEval struct {
	src   lj.BlockU8
	coef  lj.BlockI16
	back  lj.BlockU8
	err   int
	valid bool
	panic bool
}

func evalDCT(b *lj.BlockU8) (e dctEval) {
	e.src = *b
	defer func() {
		if recover() != nil {
			e.panic = true
		}
	}()
	e.coef.ForwardDCTFrom(b)
	e.valid = e.coef.IsValid()
	e.back.InverseDCTFrom(&e.coef)
	for i := range b {
		d := int(b[i]) - int(e.back[i])
		if d < 0 {
			d = -d
		}
		if d > e.err {
			e.err = d
		}
	}
	return e
}

func coefText(c *lj.BlockI16) string { return blockText(c) }

func dctKey(e *dctEval) string {
	h := sha256.New()
	h.Write(e.src[:])
	h.Write([]byte(coefText(&e.coef)))
	h.Write(e.back[:])
	return fmt.Sprintf("idct-fdct-error-%d:%s", e.err, hex.EncodeToString(h.Sum(nil))[:12])
}

func dctReplay(e *dctEval) string {
	return fmt.Sprintf("fdct %s\n# FDCT  = %s\nidct %s\n# IDCT  = %s\n# max |IDCT(FDCT b) - b| = %d",
		hlib.Hex(e.src[:]), coefText(&e.coef), coefText(&e.coef), hlib.Hex(e.back[:]), e.err)
}

func findingsPath(name string) string {
	for _, base := range []string{".", ".."} {
		p := filepath.Join(base, "findings", "C18", name)
		if _, err := os.Stat(p); err == nil {
			return p
		}
	}
	if exe, err := os.Executable(); err == nil {
		return filepath.Join(filepath.Dir(exe), "..", "findings", "C18", name)
	}
	return filepath.Join("findings", "C18", name)
}

func loadWitnesses() (out []lj.BlockU8) {
	f, err := os.Open(findingsPath("idct-fdct-error2.txt"))
	if err != nil {
		return nil
	}
	defer f.Close()
	sc := bufio.NewScanner(f)
	for sc.Scan() {
		line := strings.TrimSpace(sc.Text())
		if line == "" || strings.HasPrefix(line, "#") {
			continue
		}
		fs := strings.Fields(line)
		raw, err := hex.DecodeString(fs[0])
		if err != nil || len(raw) != 64 {
			continue
		}
		var b lj.BlockU8
		copy(b[:], raw)
		out = append(out, b)
	}
	return out
}

// ---- block generators

// extremeBlocks: deterministic "corner" inputs.
func extremeBlocks() (out []lj.BlockU8) {
	fill := func(f func(x, y int) byte) {
		var b lj.BlockU8
		for y := 0; y < 8; y++ {
			for x := 0; x < 8; x++ {
				b[8*y+x] = f(x, y)
			}
		}
		out = append(out, b)
	}
	for _, v := range []byte{0, 1, 127, 128, 129, 254, 255} {
		v := v
		fill(func(x, y int) byte { return v })
	}
	for p := 1; p <= 4; p *= 2 { // checkerboards and stripes of period p
		p := p
		for _, inv := range []byte{0, 255} {
			inv := inv
			fill(func(x, y int) byte { return (byte(((x/p)+(y/p))&1) * 255) ^ inv })
			fill(func(x, y int) byte { return (byte((x/p)&1) * 255) ^ inv })
			fill(func(x, y int) byte { return (byte((y/p)&1) * 255) ^ inv })
		}
	}
	for i := 0; i < 64; i++ { // impulses
		i := i
		fill(func(x, y int) byte {
			if 8*y+x == i {
				return 255
			}
			return 0
		})
		fill(func(x, y int) byte {
			if 8*y+x == i {
				return 0
			}
			return 255
		})
	}
	// per-coefficient sign-matched extremes: the blocks that maximise / minimise
	// each FDCT output (signs from math.Cos, independent of the package's table)
	for v := 0; v < 8; v++ {
		for u := 0; u < 8; u++ {
			u, v := u, v
			for _, s := range []float64{1, -1} {
				s := s
				fill(func(x, y int) byte {
					c := math.Cos(float64((2*x+1)*u)*math.Pi/16) * math.Cos(float64((2*y+1)*v)*math.Pi/16) * s
					if c > 1e-9 {
						return 255
					}
					return 0
				})
			}
		}
	}
	fill(func(x, y int) byte { return byte(32 * x) })
	fill(func(x, y int) byte { return byte(255 - 36*y) })
	fill(func(x, y int) byte { return byte(16 * (x + y)) })
	return out
}

func randomBlock(rng *hlib.Rand) (b lj.BlockU8) {
	mode := rng.Intn(6)
	for i := range b {
		switch mode {
		case 0, 1:
			b[i] = byte(rng.Uint64())
		case 2:
			b[i] = byte(rng.Intn(2) * 255)
		case 3:
			b[i] = []byte{0, 1, 127, 128, 254, 255}[rng.Intn(6)]
		case 4:
			b[i] = byte(rng.Intn(4))
		case 5:
			b[i] = byte(252 + rng.Intn(4))
		}
	}
	return b
}

// hillClimb maximises (max error, sum of squared errors) by single-pixel moves.
func hillClimb(rng *hlib.Rand, steps int) dctEval {
	b := randomBlock(rng)
	best := evalDCT(&b)
	score := func(e *dctEval) int {
		s := 0
		for i := range e.src {
			d := int(e.src[i]) - int(e.back[i])
			s += d * d
		}
		return e.err*100000 + s
	}
	bs := score(&best)
	for k := 0; k < steps; k++ {
		c := best.src
		i := rng.Intn(64)
		switch rng.Intn(3) {
		case 0:
			c[i] = byte(rng.Uint64())
		case 1:
			c[i]++
		case 2:
			c[i]--
		}
		e := evalDCT(&c)
		if e.panic || !e.valid {
			return e
		}
		if s := score(&e); s >= bs {
			best, bs = e, s
		}
	}
	return best
}

func dctChecks(r *hlib.Run) {
	maxKnownErr := 2
	nRandom, nClimb, climbSteps, nOps := 6000, 24, 400, 500
	if r.Thorough {
		nRandom, nClimb, climbSteps, nOps = 3000000, 6000, 1500, 3000
	}
	opsLeft := nOps
	emitted := map[[64]byte]bool{}
	emitOps := func(e *dctEval) {
		if emitted[e.src] {
			return
		}
		emitted[e.src] = true
		r.Op("fdct "+hlib.Hex(e.src[:]), "v "+coefText(&e.coef))
		r.Op("idct "+coefText(&e.coef), "v "+hlib.Hex(e.back[:]))
	}
	judge := func(e *dctEval, listed bool, src string) {
		r.Count("dct:blocks")
		r.Count(fmt.Sprintf("dct:%s:err%d", src, e.err))
		if e.panic {
			r.Fail("panic:dct", "ForwardDCTFrom/InverseDCTFrom panicked", "fdct "+hlib.Hex(e.src[:]))
			return
		}
		if !e.valid {
			emitOps(e)
			r.Fail("fdct-invalid", "ForwardDCT output is not IsValid: "+coefText(&e.coef), "fdct "+hlib.Hex(e.src[:]))
			return
		}
		if e.err <= 1 {
			return
		}
		emitOps(e)
		if listed {
			r.Fail(dctKey(e), fmt.Sprintf("max |IDCT(FDCT b) - b| = %d > 1 for a listed witness block", e.err), dctReplay(e))
			return
		}
		src8 := [64]byte(e.src)
		rc := refFDCT(&src8)
		rb := refIDCT(&rc)
		same := rc == [64]int16(e.coef) && rb == [64]byte(e.back)
		if same && e.err <= maxKnownErr {
			r.Count("dct:err2-same-as-known")
			return
		}
		what := "FDCT/IDCT outputs differ from the unchanged tree's transform pair"
		if same {
			what = "error larger than any listed witness"
		}
		r.Fail(dctKey(e), fmt.Sprintf("max |IDCT(FDCT b) - b| = %d > 1 (%s)", e.err, what), dctReplay(e))
	}

	// 1. listed witnesses (known finding), always evaluated, always sent to the model
	for _, b := range loadWitnesses() {
		b := b
		e := evalDCT(&b)
		emitOps(&e)
		judge(&e, true, "witness")
	}
	// 2. extremes (deterministic)
	for _, b := range extremeBlocks() {
		b := b
		e := evalDCT(&b)
		if opsLeft > 0 {
			emitOps(&e)
			opsLeft--
		}
		judge(&e, false, "extreme")
		r.Nontrivial("dct/" + hex.EncodeToString(b[:8]) + fmt.Sprint(hashBytes(b[:])))
	}
	// 3. seeded random + hill-climbed, in parallel, merged in a fixed order
	workers := 16
	type res struct {
		evals []dctEval // kept: sampled for ops, or interesting
		hist  map[int]int
	}
	results := make([]res, workers)
	seeds := make([]*hlib.Rand, workers)
	for i := range seeds {
		seeds[i] = r.Rand.Fork()
	}
	var wg sync.WaitGroup
	for wi := 0; wi < workers; wi++ {
		wg.Add(1)
		go func(wi int) {
			defer wg.Done()
			rng := seeds[wi]
			rs := res{hist: map[int]int{}}
			keepEvery := (nRandom/workers)/(nOps/workers+1) + 1
			for i := 0; i < nRandom/workers; i++ {
				b := randomBlock(rng)
				e := evalDCT(&b)
				rs.hist[e.err]++
				if e.err >= 2 || !e.valid || e.panic || i%keepEvery == 0 {
					rs.evals = append(rs.evals, e)
				}
			}
			for i := 0; i < nClimb/workers+1; i++ {
				e := hillClimb(rng, climbSteps)
				rs.hist[100+e.err]++
				rs.evals = append(rs.evals, e)
			}
			results[wi] = rs
		}(wi)
	}
	wg.Wait()
	tot := map[int]int{}
	for wi := range results {
		for k, v := range results[wi].hist {
			tot[k] += v
		}
		for i := range results[wi].evals {
			e := &results[wi].evals[i]
			if opsLeft > 0 && e.err <= 1 && e.valid && !e.panic {
				emitOps(e)
				opsLeft--
			}
			judge(e, false, "seeded")
			r.Nontrivial("dct/" + fmt.Sprint(hashBytes(e.src[:])))
		}
	}
	keys := make([]int, 0, len(tot))
	for k := range tot {
		keys = append(keys, k)
	}
	sort.Ints(keys)
	for _, k := range keys {
		if k >= 100 {
			r.CountN("dct:hillclimb-final-err"+strconv.Itoa(k-100), tot[k])
		} else {
			r.CountN("dct:random-err"+strconv.Itoa(k), tot[k])
		}
	}
}

// divOps: `div` against its specification, and against the model.
func divOps(r *hlib.Run) {
	check := func(a, b int, oracle bool) {
		d := int(lj.VerifDiv(int16(a), int16(b)))
		r.Op(fmt.Sprintf("div %d %d", a, b), fmt.Sprintf("v %d", d))
		if !oracle {
			return
		}
		r.Count("div:checked")
		rem := a - b*d
		if rem < 0 {
			rem = -rem
		}
		if 2*rem > b || d != roundDiv(a, b) {
			r.Fail("div:not-nearest", fmt.Sprintf("div(%d, %d) = %d, want %d", a, b, d, roundDiv(a, b)), fmt.Sprintf("div %d %d", a, b))
		}
	}
	for _, b := range []int{1, 2, 3, 4, 5, 7, 8, 16, 99, 127, 128, 254, 255} {
		for _, a := range []int{-1024, -1023, -1022, -513, -512, -511, -2, -1, 0, 1, 2, 511, 512, 1022, 1023} {
			check(a, b, true)
		}
		for _, k := range []int{0, 1, 2, 3} { // ties and their neighbours
			for _, d := range []int{-1, 0, 1} {
				for _, sgn := range []int{1, -1} {
					a := sgn * (b*k + b/2 + d)
					if a >= -1024 && a <= 1023 {
						check(a, b, true)
					}
				}
			}
		}
	}
	n := 1500
	if r.Thorough {
		n = 60000
	}
	for i := 0; i < n; i++ {
		check(r.Rand.Range(-1024, 1023), r.Rand.Range(1, 255), true)
	}
	// outside the encoder's range: int16 wrap-around, correspondence only
	for _, a := range []int{32767, 32700, -32768, -32767, 20000, -20000} {
		for _, b := range []int{1, 2, 255, 127} {
			check(a, b, false)
		}
	}
}

// findWitnesses (-mode witness) prints hill-climbed blocks with error >= 2, in the
// format of findings/C18/idct-fdct-error2.txt. Developer tool, not used by ./check.
func findWitnesses(r *hlib.Run) {
	seen := 0
	best := 0
	for i := 0; i < 4000 && seen < 12; i++ {
		e := hillClimb(r.Rand, 3000)
		if e.err > best {
			best = e.err
		}
		if e.err >= 2 {
			seen++
			fmt.Printf("%s err=%d key=%s\n", hex.EncodeToString(e.src[:]), e.err, dctKey(&e))
		}
	}
	fmt.Println("# best", best)
}
