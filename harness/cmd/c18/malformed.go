package main

// Malformed streams (round 2): the Lean reference decoder `Spec.decode` is the MEANING of
// "valid baseline JPEG holding the data" in the theorem `entropy_roundtrip`, so it must not be
// more permissive than T.81. Every small complete file the Encoder produced is damaged in a
// few ways (bit flips, truncation, EOI removed / replaced / followed by a byte, padding bits
// cleared, bytes inserted or deleted in the scan, header fields changed, RSTn / DRI inserted)
// and `specdecode <damaged file>` must give exactly what the independent Go decoder
// (refdec.go) gives: `none`, or the same decoded contents if the damage happens to leave a
// well-formed file. These ops test the Spec (trusted base), not the Encoder: they carry no
// Fail key, a disagreement shows as a correspondence difference.
//
// One documented difference is excluded: `Spec.mkTable` does not reject an over-subscribed
// DHT (a code that does not fit its length, T.81 C.2); refdec.go does. The emitted tables are
// proved well formed separately (`huffman_codes_prefix_free`). Damaged files that refdec
// rejects for this reason are skipped and counted (`malformed:skipped-dht-overflow`).

import (
	"fmt"
	"strconv"
	"strings"

	"wvh/hlib"
)

func refAnswer(file []byte) (ans string, errText string) {
	img, err := refDecode(file)
	if err != nil {
		return "none", err.Error()
	}
	var sb strings.Builder
	fmt.Fprintf(&sb, "ok %d %d ", img.w, img.h)
	for i, c := range img.comps {
		if i > 0 {
			sb.WriteByte(',')
		}
		fmt.Fprintf(&sb, "%d:%d:%d:%d", c.id, c.h, c.v, c.tq)
	}
	sb.WriteByte(' ')
	for i, c := range img.comps {
		if i > 0 {
			sb.WriteByte(',')
		}
		q := make([]byte, 64)
		for k := range q {
			q[k] = byte(img.qt[c.tq][k])
		}
		sb.WriteString(hlib.Hex(q))
	}
	sb.WriteByte(' ')
	if len(img.blocks) == 0 {
		sb.WriteByte('-')
	}
	for bi := range img.blocks {
		if bi > 0 {
			sb.WriteByte(';')
		}
		for k := 0; k < 64; k++ {
			if k > 0 {
				sb.WriteByte(',')
			}
			sb.WriteString(strconv.Itoa(int(img.blocks[bi][k])))
		}
	}
	return sb.String(), ""
}

// scanStart returns the index of the first entropy-coded byte (after the SOS header), or -1.
func scanStart(file []byte) int {
	p := 2
	for p+4 <= len(file) {
		if file[p] != 0xFF {
			return -1
		}
		l := int(file[p+2])<<8 | int(file[p+3])
		if file[p+1] == 0xDA {
			return p + 2 + l
		}
		p += 2 + l
	}
	return -1
}

// markerAt returns the index of the first segment with marker m, or -1.
func markerAt(file []byte, m byte) int {
	p := 2
	for p+4 <= len(file) {
		if file[p] != 0xFF {
			return -1
		}
		if file[p+1] == m {
			return p
		}
		p += 2 + (int(file[p+2])<<8 | int(file[p+3]))
	}
	return -1
}

func (s *seq) malformedSpecOps() {
	rng := s.rng
	orig := s.file
	ss := scanStart(orig)
	if ss < 0 || ss >= len(orig)-2 {
		return
	}
	n := 2
	if s.r.Thorough {
		n = 4
	}
	for i := 0; i < n; i++ {
		f := append([]byte(nil), orig...)
		kind := ""
		switch rng.Intn(14) {
		case 0:
			kind = "bitflip-anywhere"
			k := rng.Intn(len(f))
			f[k] ^= 1 << uint(rng.Intn(8))
		case 1, 2:
			kind = "bitflip-scan"
			k := ss + rng.Intn(len(f)-2-ss)
			f[k] ^= 1 << uint(rng.Intn(8))
		case 3:
			kind = "truncate"
			f = f[:rng.Intn(len(f))]
		case 4:
			kind = "no-eoi"
			f = f[:len(f)-2]
		case 5:
			kind = "eoi-replaced"
			f[len(f)-1] = []byte{0xD8, 0xD0, 0x00, 0xDA, 0xFF}[rng.Intn(5)]
		case 6:
			kind = "byte-after-eoi"
			f = append(f, []byte{0x00, 0xFF, 0xD9}[rng.Intn(3)])
		case 7:
			kind = "padding-cleared"
			k := len(f) - 3
			if k > ss && f[k] != 0x00 { // not the stuffing zero
				f[k] &^= 1
			} else {
				f[k] ^= 0x80
			}
		case 8:
			kind = "scan-insert"
			k := ss + rng.Intn(len(f)-2-ss+1)
			b := byte(rng.Uint64())
			f = append(f[:k], append([]byte{b}, f[k:]...)...)
		case 9:
			kind = "scan-delete"
			k := ss + rng.Intn(len(f)-2-ss)
			f = append(f[:k], f[k+1:]...)
		case 10:
			kind = "rst-inserted"
			k := ss + rng.Intn(len(f)-2-ss+1)
			f = append(f[:k], append([]byte{0xFF, 0xD0 + byte(rng.Intn(8))}, f[k:]...)...)
		case 11:
			kind = "dri-inserted"
			if p := markerAt(f, 0xDA); p > 0 {
				f = append(f[:p], append([]byte{0xFF, 0xDD, 0x00, 0x04, 0x00, 0x01}, f[p:]...)...)
			}
		case 12:
			kind = "sof0-field"
			if p := markerAt(f, 0xC0); p > 0 {
				k := p + 4 + rng.Intn(int(f[p+3])-2) // a payload byte: precision, size, Nf, ids, sampling, Tq
				switch rng.Intn(3) {
				case 0:
					f[k]++
				case 1:
					f[k]--
				default:
					f[k] = byte(rng.Uint64())
				}
			}
		default:
			kind = "header-byte"
			k := 2 + rng.Intn(ss-2)
			switch rng.Intn(3) {
			case 0:
				f[k] ^= 1 << uint(rng.Intn(8))
			case 1:
				f[k]++
			default:
				f[k] = byte(rng.Uint64())
			}
		}
		ans, errText := refAnswer(f)
		if strings.Contains(errText, "code overflow") {
			s.r.Count("malformed:skipped-dht-overflow")
			continue
		}
		s.op("specdecode "+hlib.Hex(f), ans)
		s.r.Count("malformed:" + kind + ":" + strings.SplitN(ans, " ", 2)[0])
	}
}
