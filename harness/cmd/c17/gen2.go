package main

// Round-2 generators for C17, aimed at two places the round-1 generators never reached:
//
//   (1) the END of the range-coded stream: encodeRaw's flush (five shiftLow calls) while a pending
//       0xFF run is open, i.e. the 32-bit `low` ends in one or more 0xFF bytes when the input ends
//       and / or pendingExtra > 0 (about one payload in 256 for "ends in 0xFF"; none of the round-1
//       payloads did). Systematic sweeps over every length of constant / alternating payloads and
//       every prefix of a few texts, plus a search over the last bytes of a payload on clones of the
//       REAL encoder state (lz.VerifEnc) that makes the stream end inside a run.
//   (2) the uvarint thresholds of the two XZ index fields (unpadded size, uncompressed size):
//       payload sizes and block sizes whose 7-bit groups are exactly 0x7F / 0x80 / 0x81 at every
//       group position that is reachable (1, 2 and 3 byte uvarints; 4 bytes in the thorough tier).

import (
	"fmt"
	"os"
	"path/filepath"

	lz "github.com/google/wuffs/lib/litonlylzma"
	"wvh/hlib"
)

// endState runs the real encoder (hook VerifEnc = loop body of encodeRaw) over p and returns the
// state just before the flush.
func endState(p []byte) lz.VerifRangeEncoder {
	e := lz.VerifNewEnc()
	for _, b := range p {
		e.PutByte(b)
	}
	st := e.State()
	st.Dst = nil
	return st
}

// tailFF is the number of trailing 0xFF bytes of the 32-bit low (0..4): the length of the pending
// 0xFF run that is still open when the flush has shifted out all four bytes of low.
func tailFF(low uint64) int {
	n := 0
	for l := uint32(low); n < 4 && l&0xFF == 0xFF; l >>= 8 {
		n++
	}
	return n
}

// flushClass describes how the flush meets the pending run.
func flushClass(st lz.VerifRangeEncoder) string {
	first := "first-shift:emit"
	switch {
	case st.Low >= 0x1_0000_0000:
		first = "first-shift:carry"
	case st.Low >= 0xFF00_0000:
		first = "first-shift:extend-run"
	}
	pe := "pendingExtra=0"
	if st.PendingExtra > 0 {
		pe = "pendingExtra>0"
	}
	return fmt.Sprintf("flush:%s,%s,low-ends-in-%dxFF", first, pe, tailFF(st.Low))
}

// interestingEnd: the stream ends while a pending 0xFF run is open (or has to be resolved by the
// flush itself).
func interestingEnd(st lz.VerifRangeEncoder) bool {
	return tailFF(st.Low) > 0 || st.PendingExtra > 0 || st.Low >= 0xFF00_0000
}

// searchTail appends up to two bytes to the encoder state e (exhaustively, on clones) so that the
// end state maximises score; it returns the bytes and the score reached.
func searchTail(e *lz.VerifEnc, depth int, score func(lz.VerifRangeEncoder) int) ([]byte, int) {
	best, bestB := score(e.State()), []byte(nil)
	for b1 := 0; b1 < 256; b1++ {
		c1 := e.Clone()
		c1.PutByte(byte(b1))
		if s := score(c1.State()); s > best {
			best, bestB = s, []byte{byte(b1)}
		}
		if depth < 2 {
			continue
		}
		for b2 := 0; b2 < 256; b2++ {
			c2 := *c1 // the search never looks at dst: share it (PutByte only appends)
			c2.PutByte(byte(b2))
			if s := score(c2.State()); s > best {
				best, bestB = s, []byte{byte(b1), byte(b2)}
			}
		}
	}
	return bestB, best
}

// end-state goals for searchTail: a trailing 0xFF byte of low comes first (it is what keeps a run
// open across the whole flush), then the way the flush's first shiftLow meets an already pending run.
func goalTailFF(st lz.VerifRangeEncoder) int { return 1000 * tailFF(st.Low) }
func goalInsideRun(st lz.VerifRangeEncoder) int { // run open before the flush, extended by it, still open at its end
	s := 0
	if st.Low >= 0xFF00_0000 && st.Low < 0x1_0000_0000 {
		s += 500 + int(min64(st.PendingExtra, 200))
	}
	return s + 1000*tailFF(st.Low)
}
func goalCarryAtFlush(st lz.VerifRangeEncoder) int { // the flush's first shiftLow carries through the run, and low ends in 0xFF
	s := 0
	if st.Low >= 0x1_0000_0000 && st.PendingExtra > 0 {
		s += 500 + int(min64(st.PendingExtra, 200))
	}
	return s + 1000*tailFF(st.Low)
}
func goalEmitAtFlush(st lz.VerifRangeEncoder) int { // the flush's first shiftLow flushes the run as 0xFF bytes, low ends in 0xFF
	s := 0
	if st.Low < 0xFF00_0000 && st.PendingExtra > 0 {
		s += 500 + int(min64(st.PendingExtra, 200))
	}
	return s + 1000*tailFF(st.Low)
}

func encOf(p []byte) *lz.VerifEnc {
	e := lz.VerifNewEnc()
	for _, b := range p {
		e.PutByte(b)
	}
	return e
}

func readData(repo, name string) []byte {
	b, err := os.ReadFile(filepath.Join(repo, "test", "data", name))
	if err != nil {
		return nil
	}
	return b
}

// uvGroups reports whether some 7-bit step of encodeUvarint(x) sees exactly v in x (x>>7k == v).
func uvStepSees(x uint64, v uint64) bool {
	for {
		if x == v {
			return true
		}
		if x < 0x80 {
			return false
		}
		x >>= 7
	}
}

// xzIndexFields recomputes (unpaddedSize, uncompressedSize) of a litonlylzma XZ encoding from its
// chunk walk (independent of the index bytes themselves).
func xzIndexFields(src, enc []byte) (unpadded uint64, ok bool) {
	offs := chunkOffsets(enc)
	if len(offs) == 0 {
		return 0, false
	}
	end := offs[len(offs)-1]
	if end >= len(enc) || enc[end] != 0 {
		return 0, false
	}
	return uint64(end+1-12) + 4, true
}

func uvLen(x uint64) int {
	n := 1
	for y := x; y >= 0x80; y >>= 7 {
		n++
	}
	return n
}

func countUvClasses(res *result, what string, x uint64) {
	n := uvLen(x)
	res.count(fmt.Sprintf("xz-index:%s:uvarint-bytes=%d", what, n))
	if uvStepSees(x, 0x80) {
		res.count("xz-index:" + what + ":a-step-sees-exactly-0x80")
	}
	if uvStepSees(x, 0x7F) {
		res.count("xz-index:" + what + ":a-step-sees-exactly-0x7F")
	}
}

// unpaddedOf returns the XZ block's unpadded size for payload p (from the real encoder's output).
func unpaddedOf(p []byte) uint64 {
	enc, err := lz.FileFormatXz.Encode(nil, p)
	if err != nil {
		return 0
	}
	u, _ := xzIndexFields(p, enc)
	return u
}

// payloadWithUnpadded looks for a prefix length n of the stream gen(n) whose XZ unpadded size is
// exactly want (unpadded size is monotone in the prefix length for one stream: binary search, then a
// short walk).
func payloadWithUnpadded(mk func(n int) []byte, want uint64, maxN int) []byte {
	lo, hi := 0, maxN
	for lo < hi {
		mid := (lo + hi) / 2
		if unpaddedOf(mk(mid)) < want {
			lo = mid + 1
		} else {
			hi = mid
		}
	}
	for d := 0; d < 40; d++ {
		for _, n := range []int{lo + d, lo - d} {
			if n >= 0 && n <= maxN && unpaddedOf(mk(n)) == want {
				return mk(n)
			}
		}
	}
	return nil
}

// genRound2 appends the round-2 payload cases. add(name, data, external, chunked) is genCases' add;
// addLight adds a payload that gets the Go round-trip oracle only (no model line, no external decoder).
func genRound2(r *hlib.Run, add func(string, []byte, bool, bool), addLight func(string, []byte)) {
	rng := r.Rand
	T := r.Thorough

	// ---- (1a) systematic sweeps: every length of constant / alternating payloads, every prefix of texts.
	// Every payload gets the Go round trip in both formats; the ones whose stream ends inside a pending
	// run also go to the Lean model, the xz tool and the Wuffs decoders, and so does every 97th (lengths
	// 0..1200 in the quick tier, 0..6000 in the thorough tier).
	maxLen := 1200
	sparse := 23 // of the streams that end with pendingExtra > 0 or low >= 0xFF000000 only, every 23rd goes to the model / external decoders
	if T {
		maxLen = 6000
		sparse = 7
	}
	type stream struct {
		name string
		at   func(i int) byte
		n    int
	}
	var streams []stream
	streams = append(streams,
		stream{"const-FF", func(int) byte { return 0xFF }, maxLen},
		stream{"const-00", func(int) byte { return 0x00 }, maxLen},
		stream{"alt-FF-00", func(i int) byte { return byte(0xFF * (1 - i&1)) }, maxLen},
		stream{"alt-55-AA", func(i int) byte { return byte(0x55 << uint(i&1)) }, maxLen},
	)
	if T {
		streams = append(streams,
			stream{"const-80", func(int) byte { return 0x80 }, maxLen},
			stream{"const-7F", func(int) byte { return 0x7F }, maxLen},
			stream{"alt-00-FF", func(i int) byte { return byte(0xFF * (i & 1)) }, maxLen},
			stream{"period3-FF-FF-00", func(i int) byte {
				if i%3 == 2 {
					return 0
				}
				return 0xFF
			}, maxLen},
		)
	}
	for _, f := range []string{"romeo.txt", "pi.txt", "midsummer.txt"} {
		d := readData(r.Repo, f)
		if len(d) == 0 {
			r.Count("skipped:test-data-absent:" + f)
			continue
		}
		n := len(d)
		if n > maxLen {
			n = maxLen
		}
		dd := d
		streams = append(streams, stream{"prefix:" + f, func(i int) byte { return dd[i] }, n})
	}
	rb := rng.Bytes(maxLen)
	streams = append(streams, stream{"prefix:random", func(i int) byte { return rb[i] }, maxLen / 2})
	le := lowEntropy(rng, maxLen, 3)
	streams = append(streams, stream{"prefix:low-entropy", func(i int) byte { return le[i] }, maxLen})

	nInteresting := 0
	for _, s := range streams {
		e := lz.VerifNewEnc()
		buf := make([]byte, 0, s.n)
		for n := 0; n <= s.n; n++ {
			if n > 0 {
				b := s.at(n - 1)
				buf = append(buf, b)
				e.PutByte(b)
			}
			st := e.State()
			p := append([]byte(nil), buf...)
			if interestingEnd(st) && (tailFF(st.Low) > 0 || n%sparse == 0) {
				nInteresting++
				add("sweep:"+s.name+":ends-in-run", p, true, tailFF(st.Low) > 1)
			} else if n%97 == 0 {
				add("sweep:"+s.name, p, true, false)
			} else {
				addLight("sweep:"+s.name, p)
			}
		}
	}
	r.Extra("sweep_payloads_ending_inside_a_pending_run", nInteresting)

	// ---- (1b) searched endings: the last one or two bytes are chosen on clones of the real encoder
	// state so that the stream ends with low = ..FF / ..FFFF, inside a long pending run, with a carry
	// or a plain flush of the run left to the flush itself.
	nSearch := 16
	if T {
		nSearch = 120
	}
	goals := []struct {
		name string
		f    func(lz.VerifRangeEncoder) int
	}{
		{"low-ends-FF", goalTailFF}, {"inside-run", goalInsideRun},
		{"carry-at-flush", goalCarryAtFlush}, {"emit-at-flush", goalEmitAtFlush},
	}
	for i := 0; i < nSearch; i++ {
		g := goals[i%len(goals)]
		var prefix []byte
		switch (i / len(goals)) % 4 {
		case 0:
			prefix = rng.Bytes(rng.Intn(64))
		case 1:
			prefix = textLike(r.Repo, rng, rng.Intn(300))
		case 2:
			prefix = rep(0xFF, rng.Intn(600))
		default:
			prefix = lowEntropy(rng, rng.Intn(200), 2+rng.Intn(4))
		}
		if g.name != "low-ends-FF" {
			// first grow a pending run with the greedy carry-chain search, leave it open
			prefix, _ = carryChain(rng, prefix, 12+rng.Intn(40), 0, nil)
		}
		var p []byte
		sc := 0
		for try := 0; try < 6; try++ {
			// (probabilities that are still 1024 = 2^10 give thresholds whose low 10 bits are zero: the low
			// byte of `low` cannot be steered through fresh contexts, so adapt some more and retry)
			var tail []byte
			tail, sc = searchTail(encOf(prefix), 2, g.f)
			p = append(append([]byte(nil), prefix...), tail...)
			if sc >= 1000 && (sc%1000 >= 500 || g.name == "low-ends-FF" || try >= 3) {
				break
			}
			prefix = append(prefix, lowEntropy(rng, 24, 3)...)
			if g.name != "low-ends-FF" {
				prefix, _ = carryChain(rng, prefix, 8, 0, nil)
			}
		}
		st := endState(p)
		add("searched-end:"+g.name, p, true, i < 8)
		r.Count(fmt.Sprintf("searched-end:%s:goal-reached=%v:low-ends-in-%dxFF", g.name, sc%1000 >= 500 || g.name == "low-ends-FF", tailFF(st.Low)))
	}
	if T {
		// three trailing 0xFF bytes of low: a 2^24 search, a few times
		found := 0
		for try := 0; try < 6 && found < 2; try++ {
			prefix := rng.Bytes(8 + rng.Intn(30))
			base := encOf(prefix)
			for b0 := 0; b0 < 256 && found < 2; b0++ {
				c0 := base.Clone()
				c0.PutByte(byte(b0))
				tail, sc := searchTail(c0, 2, goalTailFF)
				if sc >= 3000 {
					p := append(append(append([]byte(nil), prefix...), byte(b0)), tail...)
					add("searched-end:low-ends-FFFFFF", p, true, true)
					found++
				}
			}
		}
		r.Extra("searched_end_low_ends_in_3xFF_found", found)
	}

	// ---- (2) uvarint thresholds of the XZ index fields
	// uncompressed size n: every reachable group position at 0x7F / 0x80 / 0x81
	sizes := []int{127, 128, 129, 255, 256, 16383, 16384, 16385, 16384 + 64, 16511, 16512, 2 * 16384, 0x7F * 128, 0x81 * 128}
	for _, n := range sizes {
		add("uvarint:size:zeros", rep(0, n), true, false)
		add("uvarint:size:text", textLike(r.Repo, rng, n), true, n < 300)
		add("uvarint:size:random", rng.Bytes(n), true, false)
	}
	big := []int{1 << 21}
	if T {
		big = []int{1<<21 - 1, 1 << 21, 1<<21 + 1, 1<<21 + 16383, 1<<21 + 16384, 0x7F << 14, 0x81 << 14}
	}
	for i, n := range big {
		add("uvarint:size:2MiB:zeros", rep(0, n), true, false)
		if T || i == 0 {
			add("uvarint:size:2MiB:low-entropy", lowEntropy(rng, n, 5), true, false)
		}
	}
	// unpadded size u: incompressible payloads (one raw chunk: u = n + 20) and compressible ones
	// (LZMA chunk: u = len(rawLZMA) + 23, found by search over the prefix length)
	targets := []uint64{127, 128, 129, 16383, 16384, 16385, 16384 + 64, 16511, 16512, 0x7F * 128, 0x81 * 128}
	txt := readData(r.Repo, "pi.txt")
	txt2 := readData(r.Repo, "midsummer.txt")
	le12 := lowEntropy(rng, 4000, 12)
	for _, u := range targets {
		if u >= 21 && u-20 <= 65536 {
			add("uvarint:unpadded:raw-chunk", rng.Bytes(int(u-20)), true, false)
		}
		for j, base := range [][]byte{txt, txt2, le12} {
			if len(base) == 0 {
				continue
			}
			bb := base
			mk := func(n int) []byte {
				o := make([]byte, n)
				for i := range o {
					o[i] = bb[i%len(bb)]
				}
				return o
			}
			if p := payloadWithUnpadded(mk, u, 65536); p != nil {
				add(fmt.Sprintf("uvarint:unpadded:lzma-chunk:%d", j), p, true, false)
			} else {
				r.Count("uvarint:unpadded:target-not-reached-within-one-chunk")
			}
		}
	}
	if T {
		// u = 2^21 exactly (33 raw chunks) and around it
		for _, u := range []int{1<<21 - 1, 1 << 21, 1<<21 + 1} {
			// k full raw chunks of 65536 (+3 each) and one last raw chunk of m bytes: u = 17 + k*65539 + 3 + m
			k := (u - 20) / 65539
			m := u - 20 - k*65539
			if m >= 1 && m <= 65536 {
				add("uvarint:unpadded:2MiB:raw-chunks", rng.Bytes(k*65536+m), true, false)
			}
		}
	}
}
