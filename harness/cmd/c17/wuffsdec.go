package main

// The Wuffs std/lzma and std/xz decoders, generated from /repo's WORKING TREE
// (hlib.GenStd), compiled with gcc into a small batch driver that the harness
// talks to over pipes. One driver process per worker.

import (
	"bufio"
	"crypto/sha256"
	"encoding/binary"
	"encoding/hex"
	"fmt"
	"io"
	"os"
	"os/exec"
	"path/filepath"
	"sort"
	"strconv"
	"strings"
	"time"

	"wvh/hlib"
)

const cDriverSrc = `
#include <stdio.h>
#include <stdlib.h>
#include <string.h>
#include <stdint.h>
#include <stdbool.h>

#define WUFFS_IMPLEMENTATION
#define WUFFS_CONFIG__STATIC_FUNCTIONS
#define WUFFS_CONFIG__MODULES
#define WUFFS_CONFIG__MODULE__BASE
#define WUFFS_CONFIG__MODULE__CRC32
#define WUFFS_CONFIG__MODULE__CRC64
#define WUFFS_CONFIG__MODULE__SHA256
#define WUFFS_CONFIG__MODULE__LZMA
#define WUFFS_CONFIG__MODULE__XZ
#include SNAPSHOT

// Protocol (stdin): 1 byte format 'L' (LZMA file) | 'M' (raw LZMA2 chunk sequence, std/lzma with the format-extension quirk) | 'X' (XZ file), u32le n, u32le srcChunk, u32le dstChunk, n bytes.
// srcChunk == 0: the whole input is presented at once (closed); otherwise it is fed srcChunk bytes at a
// time.  dstChunk == 0: a destination buffer big enough for everything; otherwise dstChunk bytes,
// drained after every call.
// Reply (stdout): one text line "<status>|<consumed>|<outlen>\n" and then outlen bytes.

#define WORKBUF_LEN (32u * 1024 * 1024)
#define OUT_MAX (64u * 1024 * 1024)

static uint8_t* g_work;
static uint8_t* g_out;
static uint8_t* g_dstbuf;
static union {
  wuffs_lzma__decoder lzma;
  wuffs_xz__decoder xz;
} g_dec;

static uint32_t rd32(void) {
  uint8_t b[4];
  if (fread(b, 1, 4, stdin) != 4) exit(3);
  return (uint32_t)b[0] | ((uint32_t)b[1] << 8) | ((uint32_t)b[2] << 16) | ((uint32_t)b[3] << 24);
}

int main(void) {
  g_work = malloc(WORKBUF_LEN);
  g_out = malloc(OUT_MAX);
  g_dstbuf = malloc(OUT_MAX);
  if (!g_work || !g_out || !g_dstbuf) return 4;
  for (;;) {
    int f = fgetc(stdin);
    if (f == EOF) return 0;
    uint32_t n = rd32(), src_chunk = rd32(), dst_chunk = rd32();
    uint8_t* in = malloc(n ? n : 1);
    if (!in || fread(in, 1, n, stdin) != n) return 3;

    wuffs_base__status st;
    wuffs_base__io_transformer* t = NULL;
    if (f == 'L' || f == 'M') {
      st = wuffs_lzma__decoder__initialize(&g_dec.lzma, sizeof g_dec.lzma, WUFFS_VERSION,
                                           WUFFS_INITIALIZE__DEFAULT_OPTIONS);
      if (f == 'M' && wuffs_base__status__is_ok(&st)) {
        // raw LZMA2 chunk sequence: format extension 0x02, dictionary-size code 0 (4 KiB), as std/xz sets it
        st = wuffs_lzma__decoder__set_quirk(&g_dec.lzma, WUFFS_LZMA__QUIRK_FORMAT_EXTENSION, 0x02);
      }
      t = wuffs_lzma__decoder__upcast_as__wuffs_base__io_transformer(&g_dec.lzma);
    } else {
      st = wuffs_xz__decoder__initialize(&g_dec.xz, sizeof g_dec.xz, WUFFS_VERSION,
                                         WUFFS_INITIALIZE__DEFAULT_OPTIONS);
      t = wuffs_xz__decoder__upcast_as__wuffs_base__io_transformer(&g_dec.xz);
    }
    const char* msg = NULL;
    size_t outlen = 0;
    uint64_t consumed = 0;
    if (!wuffs_base__status__is_ok(&st)) {
      msg = wuffs_base__status__message(&st);
    } else {
      wuffs_base__io_buffer dst;
      dst.data.ptr = g_dstbuf;
      dst.data.len = dst_chunk ? dst_chunk : OUT_MAX;
      dst.meta.wi = dst.meta.ri = 0;
      dst.meta.pos = 0;
      dst.meta.closed = false;
      wuffs_base__io_buffer src;
      src.data.ptr = in;
      src.data.len = n;
      src.meta.wi = src_chunk ? (src_chunk < n ? src_chunk : n) : n;
      src.meta.ri = 0;
      src.meta.pos = 0;
      src.meta.closed = (src.meta.wi == n);
      uint64_t guard = 0;
      for (;;) {
        st = wuffs_base__io_transformer__transform_io(t, &dst, &src,
                                                      wuffs_base__make_slice_u8(g_work, WORKBUF_LEN));
        size_t k = dst.meta.wi - dst.meta.ri;
        if (outlen + k > OUT_MAX) { msg = "driver: output too large"; break; }
        memcpy(g_out + outlen, dst.data.ptr + dst.meta.ri, k);
        outlen += k;
        dst.meta.ri = dst.meta.wi;
        wuffs_base__optional_u63 hrl = wuffs_base__io_transformer__dst_history_retain_length(t);
        wuffs_base__io_buffer__compact_retaining(&dst, wuffs_base__optional_u63__value_or(&hrl, UINT64_MAX));
        if (st.repr == NULL) break;
        if (++guard > (1u << 26)) { msg = "driver: no progress"; break; }
        if (st.repr == wuffs_base__suspension__short_write) {
          if (dst.meta.wi == dst.data.len) { msg = "driver: dst full after compaction"; break; }
          continue;
        }
        if (st.repr == wuffs_base__suspension__short_read) {
          if (src.meta.closed) { msg = "driver: short read on closed input"; break; }
          size_t more = n - src.meta.wi;
          if (src_chunk && more > src_chunk) more = src_chunk;
          src.meta.wi += more;
          src.meta.closed = (src.meta.wi == n);
          continue;
        }
        msg = wuffs_base__status__message(&st);
        break;
      }
      consumed = src.meta.ri;
    }
    printf("%s|%llu|%llu\n", msg ? msg : "ok", (unsigned long long)consumed, (unsigned long long)outlen);
    fwrite(g_out, 1, outlen, stdout);
    fflush(stdout);
    free(in);
  }
}
`

// wuffsBuild is the compiled driver (shared by all workers).
type wuffsBuild struct {
	exe     string
	cleanup func()
	note    string
	cached  bool
}

// toolsError: cmd/wuffs or cmd/wuffs-c (the compiler, outside this property's anchors) do not build.
type toolsError struct{ err error }

func (e *toolsError) Error() string { return e.err.Error() }

// genStdSubset is hlib.GenStd restricted to base + std/xz and its dependencies (std/lzma, std/crc32,
// std/crc64, std/sha256): tools built from the working tree, scratch copy, `wuffs gen base std/xz`.
func genStdSubset(repo string) (sb *hlib.StdBuild, note string, err error) {
	dir, cleanup := hlib.NewScratchDir("c17")
	sb = &hlib.StdBuild{Scratch: filepath.Join(dir, "repo"), BinDir: filepath.Join(dir, "bin"), Cleanup: cleanup}
	if err := os.MkdirAll(sb.Scratch, 0o755); err != nil {
		cleanup()
		return nil, "", err
	}
	if err := hlib.CopyRepo(repo, sb.Scratch, "/test", "/example", "/doc", "/fuzz", "/script", "/release", "/lib", "/hello-wuffs-c"); err != nil {
		cleanup()
		return nil, "", err
	}
	gen := func(binDir string) error {
		os.RemoveAll(filepath.Join(sb.Scratch, "gen"))
		env := []string{"PATH=" + binDir + ":" + os.Getenv("PATH")}
		o, e, err := hlib.RunCmd(10*time.Minute, sb.Scratch, env, nil, filepath.Join(binDir, "wuffs"), "gen", "base", "std/xz")
		if err != nil {
			return fmt.Errorf("wuffs gen base std/xz: %v\n%s%s", err, o, e)
		}
		return nil
	}
	var primary error
	if primary = hlib.BuildTools(repo, sb.BinDir); primary == nil {
		primary = gen(sb.BinDir)
	}
	if primary != nil {
		// The working-tree COMPILER (cmd/wuffs*, lang/*, internal/cgen: outside this property's anchors,
		// watched by C01..C05/C11) does not build or rejects std/. Separate the two possible causes:
		// compile the working-tree std/lzma + std/xz with the compiler of the last commit. If that
		// works, the decoders' sources are fine and the oracle runs with that C; if not, the sources
		// themselves are broken and that is reported.
		head := filepath.Join(dir, "head")
		headBin := filepath.Join(dir, "headbin")
		if err := os.MkdirAll(head, 0o755); err != nil {
			cleanup()
			return nil, "", err
		}
		sh := "git -C '" + repo + "' archive HEAD cmd lang lib internal go.mod go.sum | tar -x -C '" + head + "'"
		if _, e, err := hlib.RunCmd(5*time.Minute, "", nil, nil, "sh", "-c", sh); err != nil {
			cleanup()
			return nil, "", &toolsError{fmt.Errorf("%v; and the committed compiler could not be extracted: %v %s", primary, err, e)}
		}
		if err := hlib.BuildTools(head, headBin); err != nil {
			cleanup()
			return nil, "", &toolsError{fmt.Errorf("%v; and the committed compiler does not build either: %v", primary, err)}
		}
		if err := gen(headBin); err != nil {
			cleanup()
			return nil, "", fmt.Errorf("with the working-tree compiler: %v\nwith the compiler of the last commit: %v", primary, err)
		}
		note = "the working-tree Wuffs compiler does not build or rejects std/ (" + firstLines(primary.Error(), 3) +
			"); std/lzma and std/xz from the working tree were compiled with the compiler of the last commit instead"
	}
	sb.Snapshot = filepath.Join(sb.Scratch, "release", "c", "wuffs-unsupported-snapshot.c")
	if _, err := os.Stat(sb.Snapshot); err != nil {
		cleanup()
		return nil, "", err
	}
	return sb, note, nil
}

// driverCacheKey hashes everything the driver binary is a function of: the sources of the Wuffs compiler
// (the Go packages cmd/wuffs and cmd/wuffs-c depend on, inside the repo, with their embedded C files), all
// of std/, the driver's C source, the optimisation flag and the C compiler's version.
func driverCacheKey(repo, opt string) (string, error) {
	o, e, err := hlib.RunCmd(3*time.Minute, repo, nil, nil, "go", "list", "-deps", "-f", "{{.Dir}}", "./cmd/wuffs", "./cmd/wuffs-c")
	if err != nil {
		return "", fmt.Errorf("go list: %v %s", err, e)
	}
	root, err := filepath.EvalSymlinks(repo)
	if err != nil {
		return "", err
	}
	dirs := map[string]bool{filepath.Join(root, "std"): true}
	for _, d := range strings.Fields(string(o)) {
		if rd, err := filepath.EvalSymlinks(d); err == nil && strings.HasPrefix(rd, root+string(filepath.Separator)) {
			dirs[rd] = true
		}
	}
	var files []string
	for d := range dirs {
		filepath.Walk(d, func(p string, info os.FileInfo, err error) error {
			if err == nil && info.Mode().IsRegular() {
				files = append(files, p)
			}
			return nil
		})
	}
	sort.Strings(files)
	h := sha256.New()
	prev := ""
	for _, f := range files {
		if f == prev {
			continue
		}
		prev = f
		b, err := os.ReadFile(f)
		if err != nil {
			return "", err
		}
		fmt.Fprintf(h, "%s\x00%d\x00", strings.TrimPrefix(f, root), len(b))
		h.Write(b)
	}
	for _, f := range []string{"go.mod", "go.sum"} {
		b, _ := os.ReadFile(filepath.Join(root, f))
		h.Write(b)
	}
	v, _, _ := hlib.RunCmd(time.Minute, "", nil, nil, "gcc", "--version")
	fmt.Fprintf(h, "\x00%s\x00%s\x00", opt, v)
	h.Write([]byte(cDriverSrc))
	return hex.EncodeToString(h.Sum(nil))[:24], nil
}

// buildWuffsDriver generates std/lzma + std/xz from the working tree and compiles the driver. The binary
// is a pure function of its inputs (see driverCacheKey), so it is kept under <work>/cache-c17/<key>/ and
// reused when nothing it depends on has changed (saves 1.5 to 3 minutes per run on a loaded machine).
func buildWuffsDriver(repo string, opt string, cacheRoot string) (*wuffsBuild, error) {
	key := ""
	if cacheRoot != "" {
		if k, err := driverCacheKey(repo, opt); err == nil {
			key = k
			exe := filepath.Join(cacheRoot, key, "c17drv")
			if st, err := os.Stat(exe); err == nil && st.Mode().IsRegular() {
				now := time.Now()
				os.Chtimes(filepath.Join(cacheRoot, key), now, now)
				return &wuffsBuild{exe: exe, cleanup: func() {}, cached: true}, nil
			}
		}
	}
	wb, err := buildWuffsDriverUncached(repo, opt)
	if err == nil && key != "" && wb.note == "" {
		// publish (atomically) and evict all but the 6 most recently used entries
		dir := filepath.Join(cacheRoot, key)
		if os.MkdirAll(dir, 0o755) == nil {
			if b, e := os.ReadFile(wb.exe); e == nil {
				tmp := filepath.Join(dir, fmt.Sprintf("c17drv.tmp.%d", os.Getpid()))
				if os.WriteFile(tmp, b, 0o755) == nil {
					os.Rename(tmp, filepath.Join(dir, "c17drv"))
				}
			}
		}
		if ents, e := os.ReadDir(cacheRoot); e == nil && len(ents) > 6 {
			type ent struct {
				name string
				t    time.Time
			}
			var es []ent
			for _, x := range ents {
				if i, e := x.Info(); e == nil {
					es = append(es, ent{x.Name(), i.ModTime()})
				}
			}
			sort.Slice(es, func(a, b int) bool { return es[a].t.After(es[b].t) })
			for _, x := range es[6:] {
				os.RemoveAll(filepath.Join(cacheRoot, x.name))
			}
		}
	}
	return wb, err
}

func buildWuffsDriverUncached(repo string, opt string) (*wuffsBuild, error) {
	sb, note, err := genStdSubset(repo)
	if err != nil {
		return nil, err
	}
	dir := filepath.Dir(sb.Scratch)
	csrc := filepath.Join(dir, "c17drv.c")
	if err := os.WriteFile(csrc, []byte(cDriverSrc), 0o644); err != nil {
		sb.Cleanup()
		return nil, err
	}
	exe := filepath.Join(dir, "c17drv")
	if err := hlib.CC("gcc", opt, "-w", "-DSNAPSHOT=\""+sb.Snapshot+"\"", "-o", exe, csrc); err != nil {
		sb.Cleanup()
		return nil, err
	}
	// the scratch repo copy is no longer needed once the driver is linked
	os.RemoveAll(sb.Scratch)
	return &wuffsBuild{exe: exe, cleanup: sb.Cleanup, note: note}, nil
}

type wuffsDec struct {
	cmd *exec.Cmd
	in  io.WriteCloser
	out *bufio.Reader
}

func (b *wuffsBuild) start() (*wuffsDec, error) {
	cmd := exec.Command(b.exe)
	in, err := cmd.StdinPipe()
	if err != nil {
		return nil, err
	}
	out, err := cmd.StdoutPipe()
	if err != nil {
		return nil, err
	}
	if err := cmd.Start(); err != nil {
		return nil, err
	}
	return &wuffsDec{cmd: cmd, in: in, out: bufio.NewReaderSize(out, 1<<20)}, nil
}

func (w *wuffsDec) close() {
	w.in.Close()
	done := make(chan struct{})
	go func() { w.cmd.Wait(); close(done) }()
	select {
	case <-done:
	case <-time.After(5 * time.Second):
		w.cmd.Process.Kill()
	}
}

// decode returns the Wuffs status ("ok" or the status message), the number of
// input bytes consumed and the output.
func (w *wuffsDec) decode(format byte, data []byte, srcChunk, dstChunk uint32) (status string, consumed int, out []byte, err error) {
	type res struct {
		status   string
		consumed int
		out      []byte
		err      error
	}
	ch := make(chan res, 1)
	go func() {
		hdr := make([]byte, 13)
		hdr[0] = format
		binary.LittleEndian.PutUint32(hdr[1:], uint32(len(data)))
		binary.LittleEndian.PutUint32(hdr[5:], srcChunk)
		binary.LittleEndian.PutUint32(hdr[9:], dstChunk)
		if _, e := w.in.Write(hdr); e != nil {
			ch <- res{err: e}
			return
		}
		if _, e := w.in.Write(data); e != nil {
			ch <- res{err: e}
			return
		}
		line, e := w.out.ReadString('\n')
		if e != nil {
			ch <- res{err: fmt.Errorf("driver died: %v", e)}
			return
		}
		parts := strings.Split(strings.TrimRight(line, "\n"), "|")
		if len(parts) != 3 {
			ch <- res{err: fmt.Errorf("bad driver reply %q", line)}
			return
		}
		c, _ := strconv.Atoi(parts[1])
		n, _ := strconv.Atoi(parts[2])
		buf := make([]byte, n)
		if _, e := io.ReadFull(w.out, buf); e != nil {
			ch <- res{err: e}
			return
		}
		ch <- res{status: parts[0], consumed: c, out: buf}
	}()
	select {
	case r := <-ch:
		return r.status, r.consumed, r.out, r.err
	case <-time.After(120 * time.Second):
		w.cmd.Process.Kill()
		return "", 0, nil, fmt.Errorf("driver timeout")
	}
}
