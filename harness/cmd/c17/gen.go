package main

// Case generators for C17. Everything random derives from r.Rand.

import (
	"fmt"
	"os"
	"path/filepath"

	lz "github.com/google/wuffs/lib/litonlylzma"
	"wvh/hlib"
)

var genNotes []string

func rep(b byte, n int) []byte {
	o := make([]byte, n)
	for i := range o {
		o[i] = b
	}
	return o
}

// lowEntropy draws bytes from an alphabet of k symbols with a skewed distribution.
func lowEntropy(rng *hlib.Rand, n, k int) []byte {
	alpha := rng.Bytes(k)
	o := make([]byte, n)
	for i := range o {
		a, b := rng.Intn(k), rng.Intn(k)
		if b < a {
			a = b
		}
		o[i] = alpha[a]
	}
	return o
}

// runs: runs of equal bytes with random lengths, values biased to 0x00 / 0xFF.
func runs(rng *hlib.Rand, n int) []byte {
	o := make([]byte, 0, n)
	for len(o) < n {
		var b byte
		switch rng.Intn(4) {
		case 0:
			b = 0x00
		case 1:
			b = 0xFF
		default:
			b = byte(rng.Uint64())
		}
		l := 1 + rng.Intn(1<<uint(rng.Intn(10)))
		for i := 0; i < l && len(o) < n; i++ {
			o = append(o, b)
		}
	}
	return o
}

func textLike(repo string, rng *hlib.Rand, n int) []byte {
	base, err := os.ReadFile(filepath.Join(repo, "test", "data", "romeo.txt"))
	if err != nil || len(base) == 0 {
		return lowEntropy(rng, n, 40)
	}
	o := make([]byte, 0, n)
	off := rng.Intn(len(base))
	for len(o) < n {
		o = append(o, base[off])
		off = (off + 1) % len(base)
	}
	return o
}

// ---- carry chains

// boundaryScore returns (j, centrality): the largest j <= 32 such that a multiple m of 2^j lies
// strictly inside (low, low+width), and how central m is (0..1/2).
func boundaryScore(low uint64, width uint32) (int, float64) {
	hi := low + uint64(width)
	for j := 32; j >= 0; j-- {
		step := uint64(1) << uint(j)
		m := (low/step + 1) * step
		if m < hi {
			a, b := float64(m-low), float64(hi-m)
			if b < a {
				a = b
			}
			return j, a / float64(width)
		}
	}
	return -1, 0
}

type chainStats struct {
	maxPending, carryThrough, noCarryThrough uint64
	carries                                  int
}

// carryChain builds a payload whose range-coder interval keeps straddling a byte boundary
// (low in [0xFF000000, 2^32) at every shiftLow, so pendingExtra grows), by greedy search over the next
// byte on clones of the real encoder state; the run is finally resolved upwards (a carry that has to
// propagate through the whole 0xFF run), downwards, or left open until the flush.
func carryChain(rng *hlib.Rand, prefix []byte, steps int, resolve int, suffix []byte) ([]byte, *lz.VerifEnc) {
	e := lz.VerifNewEnc()
	out := append([]byte(nil), prefix...)
	for _, b := range prefix {
		e.PutByte(b)
	}
	for s := 0; s < steps; s++ {
		bestJ, bestC, bestB := -2, -1.0, 0
		for b := 0; b < 256; b++ {
			c := e.Clone()
			c.PutByte(byte(b))
			st := c.State()
			j, cen := boundaryScore(st.Low, st.Width)
			// prefer states that already hold pending 0xFF bytes
			j += 8 * int(min64(st.PendingExtra, 1000))
			if j > bestJ || (j == bestJ && cen > bestC) {
				bestJ, bestC, bestB = j, cen, b
			}
		}
		e.PutByte(byte(bestB))
		out = append(out, byte(bestB))
	}
	if resolve != 0 {
		// pick a next byte that makes low >= 2^32 (resolve == +1) or low+width <= 2^32 with the run
		// flushed (resolve == -1), if one exists
		var cands []int
		for b := 0; b < 256; b++ {
			c := e.Clone()
			before := c.State().PendingExtra
			c.PutByte(byte(b))
			c.PutByte(0x55)
			c.PutByte(0xAA)
			if resolve > 0 && before > 0 && c.CarryRunEvents > e.CarryRunEvents {
				cands = append(cands, b)
			}
			if resolve < 0 && before > 0 && c.FlushRunEvents > e.FlushRunEvents {
				cands = append(cands, b)
			}
		}
		if len(cands) > 0 {
			b := byte(cands[rng.Intn(len(cands))])
			for _, x := range []byte{b, 0x55, 0xAA} {
				e.PutByte(x)
				out = append(out, x)
			}
		}
	}
	for _, b := range suffix {
		e.PutByte(b)
		out = append(out, b)
	}
	return out, e
}

func min64(a, b uint64) uint64 {
	if a < b {
		return a
	}
	return b
}

// ---- raw-vs-LZMA decision margin

// marginPayload searches a payload of n bytes (a compressible prefix of k bytes followed by random
// bytes) whose margin (len(rawLZMA)+6) - (n+3) equals want, if it can find one.
func marginPayload(rng *hlib.Rand, n int, want int) []byte {
	tail := rng.Bytes(n)
	alpha := byte(rng.Uint64())
	mk := func(k int) []byte {
		o := append([]byte(nil), tail...)
		for i := 0; i < k && i < n; i++ {
			o[i] = alpha ^ byte(i&1)
		}
		return o
	}
	margin := func(k int) int { return (len(lz.VerifEncodeRaw(nil, mk(k))) + 6) - (n + 3) }
	lo, hi := 0, n
	for lo < hi {
		mid := (lo + hi) / 2
		if margin(mid) > want {
			lo = mid + 1
		} else {
			hi = mid
		}
	}
	for d := 0; d < 24; d++ {
		for _, k := range []int{lo + d, lo - d} {
			if k >= 0 && k <= n && margin(k) == want {
				return mk(k)
			}
		}
	}
	return mk(lo)
}

// ---- mutations of an encoding

func mutate(rng *hlib.Rand, enc []byte, f lz.FileFormat) ([]byte, string) {
	o := append([]byte(nil), enc...)
	pick := func() int { // an interesting offset
		n := len(o)
		switch rng.Intn(6) {
		case 0:
			return rng.Intn(minInt(n, 32))
		case 1:
			return n - 1 - rng.Intn(minInt(n, 40))
		case 2:
			if f == lz.FileFormatXz && n > 30 {
				return 24 + rng.Intn(6) // first chunk header
			}
			return rng.Intn(minInt(n, 20))
		case 3:
			if f == lz.FileFormatXz {
				if offs := chunkOffsets(o); len(offs) > 0 {
					return minInt(n-1, offs[rng.Intn(len(offs))]+rng.Intn(6))
				}
			}
			return rng.Intn(n)
		default:
			return rng.Intn(n)
		}
	}
	val := func(old byte) byte {
		switch rng.Intn(10) {
		case 0:
			return 0x00
		case 1:
			return 0x01
		case 2:
			return 0xFF
		case 3:
			return 0xE0
		case 4:
			return 0x5D
		case 5:
			return old + 1
		case 6:
			return old - 1
		case 7:
			return old ^ (1 << uint(rng.Intn(8)))
		case 8:
			return 0x80
		default:
			return byte(rng.Uint64())
		}
	}
	if len(o) == 0 {
		return o, "empty"
	}
	switch rng.Intn(9) {
	case 0:
		return o[:rng.Intn(len(o))], "truncate"
	case 1:
		return o[:len(o)-1-rng.Intn(minInt(len(o), 16))], "truncate-tail"
	case 2:
		return append(o, rng.Bytes(1+rng.Intn(8))...), "append-garbage"
	case 3:
		return append(o, rep(0, 1+rng.Intn(5))...), "append-zeros"
	case 4:
		p := rng.Intn(len(o))
		return append(o[:p:p], o[p+1:]...), "delete-byte"
	case 5:
		p := rng.Intn(len(o))
		return append(o[:p:p], append([]byte{byte(rng.Uint64())}, o[p:]...)...), "insert-byte"
	case 6:
		for i := 0; i < 2; i++ {
			p := pick()
			o[p] = val(o[p])
		}
		return o, "two-bytes"
	default:
		p := pick()
		o[p] = val(o[p])
		return o, "one-byte"
	}
}

func minInt(a, b int) int {
	if a < b {
		return a
	}
	return b
}

// chunkOffsets lists the offsets of the chunk headers (and of the end marker) of a well-formed XZ encoding.
func chunkOffsets(enc []byte) []int {
	var offs []int
	p := 24
	for p < len(enc) {
		offs = append(offs, p)
		switch enc[p] {
		case 0x01:
			if p+3 > len(enc) {
				return offs
			}
			p += 3 + int(enc[p+1])<<8 + int(enc[p+2]) + 1
		case 0xE0:
			if p+6 > len(enc) {
				return offs
			}
			p += 6 + int(enc[p+3])<<8 + int(enc[p+4]) + 1
		default:
			return offs
		}
	}
	return offs
}

// ---- function-level ops (evaluated on the implementation right here)

func showState(v lz.VerifRangeEncoder) string {
	return fmt.Sprintf("%s %d %d %d %d", hlib.Hex(v.Dst), v.Low, v.Width, v.PendingHead, v.PendingExtra)
}

func opShl(low uint64, width uint32, head uint8, extra uint64) [2]string {
	op := fmt.Sprintf("shl %d %d %d %d", low, width, head, extra)
	out := hlib.Guard(func() string {
		return showState(lz.VerifShiftLow(lz.VerifRangeEncoder{Low: low, Width: width, PendingHead: head, PendingExtra: extra}))
	})
	return [2]string{op, out}
}

func opEncBit(p uint16, low uint64, width uint32, head uint8, extra uint64, bit uint32) [2]string {
	op := fmt.Sprintf("encbit %d %d %d %d %d %d", p, low, width, head, extra, bit)
	out := hlib.Guard(func() string {
		q, v := lz.VerifEncodeBit(p, lz.VerifRangeEncoder{Low: low, Width: width, PendingHead: head, PendingExtra: extra}, bit)
		return fmt.Sprintf("%d %s", q, showState(v))
	})
	return [2]string{op, out}
}

func opDecBit(p uint16, bitsV uint32, width uint32, src []byte) [2]string {
	op := fmt.Sprintf("decbit %d %d %d %s", p, bitsV, width, hlib.Hex(src))
	out := hlib.Guard(func() string {
		b, q, rest, nb, nw, err := lz.VerifDecodeBit(p, src, bitsV, width)
		if err != nil {
			return lz.VerifErrClass(err)
		}
		return fmt.Sprintf("%d %d %d %d rest=%d", b, q, nb, nw, len(rest))
	})
	return [2]string{op, out}
}

func opUvEnc(x uint64) [2]string {
	return [2]string{fmt.Sprintf("uvenc %d", x), hlib.Guard(func() string { return hlib.Hex(lz.VerifEncodeUvarint(nil, x)) })}
}

func opUvDec(src []byte) [2]string {
	return [2]string{"uvdec " + hlib.Hex(src), hlib.Guard(func() string {
		rest, x, ok := lz.VerifDecodeUvarint(src)
		return fmt.Sprintf("%d %v rest=%d", x, ok, len(rest))
	})}
}

func fnCases(rng *hlib.Rand, n int) []*kase {
	var ks []*kase
	lows := []uint64{0, 1, 0xFEFFFFFF, 0xFF000000, 0xFF000001, 0xFFFFFFFF, 0x100000000, 0x100000001, 0x1FEFFFFFF, 0x1FF000000, 0x1FFFFFE00, 0x00FFFFFF, 0x01000000}
	extras := []uint64{0, 1, 2, 3, 7, 300}
	k := &kase{kind: "fn", name: "shiftLow", model: true}
	for _, lo := range lows {
		for _, ex := range extras {
			for _, hd := range []uint8{0, 1, 0x7F, 0xFE, 0xFF} {
				k.ops = append(k.ops, opShl(lo, uint32(rng.Uint64())|1<<24, hd, ex))
			}
		}
	}
	for i := 0; i < n; i++ {
		lo := rng.Uint64() & 0x1FFFFFFFF
		if rng.Chance(1, 2) {
			lo = 0xFF000000 + rng.Uint64()%0x2000000 // around the two thresholds
		}
		k.ops = append(k.ops, opShl(lo, uint32(rng.Uint64()), uint8(rng.Uint64()), uint64(rng.Intn(1<<uint(rng.Intn(9))))))
	}
	ks = append(ks, k)

	k = &kase{kind: "fn", name: "encodeBit", model: true}
	for i := 0; i < n; i++ {
		p := uint16(31 + rng.Intn(2017-31+1))
		if rng.Chance(1, 8) {
			p = []uint16{0, 1, 31, 32, 1024, 2016, 2017, 2047, 2048}[rng.Intn(9)]
		}
		width := uint32(1<<24) + uint32(rng.Uint64()%(0xFFFFFFFF-(1<<24)+1))
		if rng.Chance(1, 4) {
			width = uint32(1<<24) + uint32(rng.Intn(1<<12)) // close to the normalisation threshold
		}
		low := rng.Uint64() & 0xFFFFFFFF
		if rng.Chance(1, 2) {
			low = 0x100000000 - uint64(rng.Intn(1<<25)) // near the carry
		}
		k.ops = append(k.ops, opEncBit(p, low, width, uint8(rng.Uint64()), uint64(rng.Intn(4)), uint32(rng.Intn(2))))
	}
	// the normalisation threshold hit exactly: width' = 2^24 - 1, 2^24, 2^24 + 1 after a 0 bit and after a 1 bit
	for _, pp := range []uint32{31, 32, 64, 100, 128, 256, 512, 777, 1024, 1500, 2016, 2017} {
		for _, d := range []int64{-1, 0, 1} {
			for _, w := range widthsHitting(pp, d) {
				for bit := uint32(0); bit < 2; bit++ {
					k.ops = append(k.ops, opEncBit(uint16(pp), 0xFFFFFF00, w, 7, 2, bit))
					k.ops = append(k.ops, opEncBit(uint16(pp), uint64(rng.Uint64()&0xFFFFFFFF), w, uint8(rng.Uint64()), 0, bit))
				}
			}
		}
	}
	ks = append(ks, k)

	k = &kase{kind: "fn", name: "decodeBit", model: true}
	for _, pp := range []uint32{31, 32, 64, 100, 128, 256, 512, 777, 1024, 1500, 2016, 2017} {
		for _, d := range []int64{-1, 0, 1} {
			for _, w := range widthsHitting(pp, d) {
				th := (w >> 11) * pp
				for _, b := range []uint32{0, th - 1, th, th + 1, w - 1} {
					k.ops = append(k.ops, opDecBit(uint16(pp), b, w, []byte{0xA5}))
					k.ops = append(k.ops, opDecBit(uint16(pp), b, w, nil))
				}
			}
		}
	}
	for i := 0; i < n; i++ {
		p := uint16(31 + rng.Intn(2017-31+1))
		if rng.Chance(1, 8) {
			p = []uint16{0, 1, 31, 32, 1024, 2016, 2017, 2047, 2048}[rng.Intn(9)]
		}
		width := uint32(1<<24) + uint32(rng.Uint64()%(0xFFFFFFFF-(1<<24)+1))
		if rng.Chance(1, 4) {
			width = uint32(1<<24) + uint32(rng.Intn(1<<12))
		}
		b := uint32(rng.Uint64())
		if rng.Chance(3, 4) {
			b = uint32(rng.Uint64() % uint64(width))
		}
		k.ops = append(k.ops, opDecBit(p, b, width, rng.Bytes(rng.Intn(3))))
	}
	ks = append(ks, k)

	k = &kase{kind: "fn", name: "uvarint", model: true}
	for s := uint(0); s < 64; s++ {
		for _, d := range []int64{-1, 0, 1} {
			k.ops = append(k.ops, opUvEnc(uint64(int64(uint64(1)<<s)+d)))
		}
	}
	k.ops = append(k.ops, opUvEnc(^uint64(0)))
	for i := 0; i < n; i++ {
		x := rng.Uint64() >> uint(rng.Intn(64))
		k.ops = append(k.ops, opUvEnc(x))
		enc := lz.VerifEncodeUvarint(nil, x)
		k.ops = append(k.ops, opUvDec(append(enc, rng.Bytes(rng.Intn(3))...)))
		junk := rng.Bytes(rng.Intn(14))
		if rng.Chance(1, 2) {
			for j := range junk {
				junk[j] |= 0x80 // long runs of continuation bytes
			}
		}
		k.ops = append(k.ops, opUvDec(junk))
	}
	ks = append(ks, k)
	return ks
}

// widthsHitting returns widths w >= 2^24 such that, with probability p, the width after a 0 bit
// ((w>>11)*p) respectively after a 1 bit (w - (w>>11)*p) is exactly 2^24 + d: the boundary of the
// `width < (1 << 24)` normalisation test in encodeBit / decodeBit.
func widthsHitting(p uint32, d int64) []uint32 {
	var out []uint32
	target := int64(1<<24) + d
	// 0 bit: q*p == target
	if target%int64(p) == 0 {
		q := target / int64(p)
		if q >= 1<<13 && q < 1<<21 {
			out = append(out, uint32(q<<11), uint32(q<<11)+2047)
		}
	}
	// 1 bit: q*(2048-p) + r == target, 0 <= r < 2048
	c := int64(2048 - p)
	q := target / c
	for ; q >= 1<<13 && q >= target/c-2; q-- {
		r := target - q*c
		if r >= 0 && r < 2048 && q < 1<<21 {
			out = append(out, uint32(q<<11)+uint32(r))
		}
	}
	return out
}

// traceCase: the real encoder state after every byte of a payload, each fed to shiftLow and encodeBit.
func traceCase(name string, payload []byte, limit int) *kase {
	k := &kase{kind: "fn", name: "trace:" + name, model: true}
	e := lz.VerifNewEnc()
	for i, b := range payload {
		e.PutByte(b)
		if i >= len(payload)-limit {
			st := e.State()
			k.ops = append(k.ops, opShl(st.Low, st.Width, st.PendingHead, st.PendingExtra))
			k.ops = append(k.ops, opEncBit(uint16(e.MaxProb), st.Low, st.Width, st.PendingHead, st.PendingExtra, uint32(i&1)))
			k.ops = append(k.ops, opEncBit(uint16(e.MinProb), st.Low, st.Width, st.PendingHead, st.PendingExtra, uint32(i&1)^1))
		}
	}
	return k
}

// ---- the case list

func genCases(r *hlib.Run) []*kase {
	rng := r.Rand
	var ks []*kase
	T := r.Thorough
	scale := 1
	if T {
		scale = 12
	}
	// The Lean model costs ~20 k instructions per payload byte (2 encodes + 2 decodes): it gets every
	// payload up to 4 KiB and the larger ones while the budget lasts (fixed shapes come first); the
	// implementation-side oracles run on every payload.
	modelBudget := 3_000_000
	if T {
		modelBudget = 24_000_000
	}
	wtieBudget := 600_000
	if T {
		wtieBudget = 3_000_000
	}
	nAdd := 0
	add := func(name string, data []byte, external, chunked bool) {
		m := len(data) <= 4096
		if !m && modelBudget >= len(data) {
			m = true
			modelBudget -= len(data)
		}
		if !m {
			r.Count("model-skipped(payload too large for the model budget)")
		}
		k := &kase{kind: "rt", name: name, data: data, model: m, external: external, chunked: chunked}
		// the Wuffs-model tie (wdec lines) costs ~15 model passes over the payload: a byte budget, spent in
		// generation order so that the choice is deterministic
		if m && external && len(data) <= 4096 && wtieBudget >= len(data) {
			k.wtie = true
			wtieBudget -= len(data)
		}
		// every third payload up to 2 KiB is also encoded / decoded with a non-empty dst to append to
		// (1..9 bytes, so that len(dst) is not a multiple of 4: the XZ padding is relative to dstLen0)
		nAdd++
		if len(data) <= 2048 && nAdd%3 == 0 {
			k.pre = rng.Bytes(1 + rng.Intn(9))
		}
		ks = append(ks, k)
	}
	addLight := func(name string, data []byte) {
		ks = append(ks, &kase{kind: "rt", name: name, data: data, light: true})
	}

	// fixed shapes
	add("empty", nil, true, true)
	for _, b := range []byte{0x00, 0xFF, 0x80, 0x5D, byte(rng.Uint64())} {
		add("one-byte", []byte{b}, true, true)
	}
	for _, n := range []int{2, 3, 4, 5, 6, 7, 8, 9, 10, 11, 12, 16, 100, 4096, 65535, 65536, 65537, 131073, 200 * 1024} {
		add("all-FF", rep(0xFF, n), true, n <= 70000)
		add("all-00", rep(0x00, n), true, n <= 70000)
	}
	edges := []int{65535, 65536, 65537, 131073}
	if T {
		edges = []int{65535, 65536, 65537, 131071, 131072, 131073, 196607, 196608, 196609, 200 * 1024}
	}
	for _, n := range edges {
		add("chunk-edge:random", rng.Bytes(n), true, false)
		add("chunk-edge:text", textLike(r.Repo, rng, n), true, false)
		add("chunk-edge:low-entropy", lowEntropy(rng, n, 2+rng.Intn(6)), true, false)
	}
	add("chunk-edge:random", rng.Bytes(200*1024), true, false)
	// mixed chunks: compressible and incompressible 64 KiB pieces in every order of 2 and some of 3
	piece := func(kind int, n int) []byte {
		switch kind {
		case 0:
			return rng.Bytes(n)
		case 1:
			return textLike(r.Repo, rng, n)
		default:
			return rep(byte(rng.Uint64()), n)
		}
	}
	for a := 0; a < 3; a++ {
		for b := 0; b < 3; b++ {
			d := append(piece(a, 65536), piece(b, 1+rng.Intn(65536))...)
			add("multi-chunk:mixed", d, true, a == b)
		}
	}
	add("multi-chunk:mixed3", append(append(piece(0, 65536), piece(1, 65536)...), piece(0, 70)...), true, false)

	// random payloads of many shapes
	for i := 0; i < 60*scale; i++ {
		n := rng.Intn(1 << uint(1+rng.Intn(12)))
		var d []byte
		name := ""
		switch rng.Intn(5) {
		case 0:
			d, name = rng.Bytes(n), "random"
		case 1:
			d, name = lowEntropy(rng, n, 1+rng.Intn(16)), "low-entropy"
		case 2:
			d, name = runs(rng, n), "runs"
		case 3:
			d, name = textLike(r.Repo, rng, n), "text"
		default:
			d, name = append(rep(0xFF, n/2), rng.Bytes(n-n/2)...), "ff-then-random"
		}
		add("small:"+name, d, true, i%4 == 0)
	}
	for i := 0; i < 6*scale; i++ {
		n := 65536 + rng.Intn(140000)
		if T && i%3 == 0 {
			n = 200*1024 + rng.Intn(400*1024)
		}
		switch rng.Intn(3) {
		case 0:
			add("large:runs", runs(rng, n), true, false)
		case 1:
			add("large:low-entropy", lowEntropy(rng, n, 2+rng.Intn(200)), true, false)
		default:
			add("large:random", rng.Bytes(n), true, false)
		}
	}

	// the raw-vs-LZMA decision margin
	for i := 0; i < 8*scale; i++ {
		n := 8 + rng.Intn(3000)
		if i%4 == 3 {
			n = 65536 - rng.Intn(2)
		}
		for _, want := range []int{-1, 0, 1} {
			add("margin", marginPayload(rng, n, want), true, false)
		}
	}

	// round 2: stream ends inside a pending 0xFF run; uvarint thresholds of the XZ index
	genRound2(r, add, addLight)

	// 64 KiB chunks whose LZMA form is 65531 .. 65538 bytes long: around the raw-vs-LZMA decision AND around
	// the largest packed size the 16-bit chunk-header field can hold (len(rawLZMA) - 1 = 0xFFFF)
	for _, want := range []int{-2, 2, 3, 4, 5} {
		add("margin:64k", marginPayload(rng, 65536, want), true, false)
	}

	// carry chains
	best := chainStats{}
	var bestPayload []byte
	for i := 0; i < 10*scale; i++ {
		prefix := rng.Bytes(rng.Intn(40))
		steps := 40 + rng.Intn(200)
		resolve := []int{+1, -1, 0}[i%3]
		suffix := rng.Bytes(rng.Intn(8))
		p, e := carryChain(rng, prefix, steps, resolve, suffix)
		if !bytesEq(e.Finish(), lz.VerifEncodeRaw(nil, p)) {
			r.Fail("harness:verif-enc-diverges", "VerifEnc (hook) and encodeRaw disagree", "encraw "+hlib.Hex(p))
		}
		add(fmt.Sprintf("carry-chain:resolve%+d", resolve), p, true, i < 4)
		r.CountN("carry:max-pending-extra:"+bucket(e.MaxPendingExtra), 1)
		if e.CarryThrough > 0 {
			r.CountN("carry:through-FF-run:"+bucket(e.CarryThrough), 1)
		}
		if e.NoCarryThrough > 0 {
			r.CountN("carry:FF-run-flushed-without-carry:"+bucket(e.NoCarryThrough), 1)
		}
		if e.MaxPendingExtra > best.maxPending {
			best.maxPending = e.MaxPendingExtra
			bestPayload = p
		}
		if e.CarryThrough > best.carryThrough {
			best.carryThrough = e.CarryThrough
		}
		if e.NoCarryThrough > best.noCarryThrough {
			best.noCarryThrough = e.NoCarryThrough
		}
		best.carries += e.Carries
		if i < 3*scale {
			ks = append(ks, traceCase("carry-chain", p, 400))
		}
	}
	genNotes = append(genNotes, fmt.Sprintf("carry chains: max pendingExtra %d, longest 0xFF run a carry propagated through %d, longest flushed without carry %d, carry events %d",
		best.maxPending, best.carryThrough, best.noCarryThrough, best.carries))
	r.Extra("carry_max_pending_extra", best.maxPending)
	r.Extra("carry_longest_run_carried_through", best.carryThrough)
	if bestPayload != nil {
		r.Sample("enc lzma " + hlib.Hex(bestPayload))
	}
	ks = append(ks, traceCase("all-FF", rep(0xFF, 3000), 300))
	ks = append(ks, traceCase("random", rng.Bytes(600), 300))

	// function-level
	ks = append(ks, fnCases(rng, 300*scale)...)

	// decode: mutated encodings
	nMut := 500 * scale
	for i := 0; i < nMut; i++ {
		var d []byte
		switch rng.Intn(6) {
		case 0:
			d = nil
		case 1:
			d = rng.Bytes(1 + rng.Intn(40))
		case 2:
			d = textLike(r.Repo, rng, 1+rng.Intn(600))
		case 3:
			d = rep(byte(rng.Uint64()), 1+rng.Intn(3000))
		case 4:
			d = lowEntropy(rng, 1+rng.Intn(300), 1+rng.Intn(4))
		default:
			if i%16 == 5 {
				d = append(textLike(r.Repo, rng, 65536), rng.Bytes(1+rng.Intn(300))...)
			} else {
				d = runs(rng, 1+rng.Intn(2000))
			}
		}
		f := lz.FileFormatLZMA
		if rng.Chance(2, 3) {
			f = lz.FileFormatXz
		}
		enc, err := f.Encode(nil, d)
		if err != nil {
			continue
		}
		m, what := mutate(rng, enc, f)
		ks = append(ks, &kase{kind: "dec", name: "mutated:" + what, format: f, enc: m, model: true})
	}
	// decode: systematic single-byte corruption of every framing byte of a few small encodings
	// (whole file when it is short, else the first 40 and the last 48 bytes), plus every truncation
	// point and one appended byte
	sysBases := [][]byte{nil, {0x00}, []byte("a"), rng.Bytes(3), rep(0x41, 60), textLike(r.Repo, rng, 200),
		append(rep(0, 65536), 1, 2, 3)}
	for bi, d := range sysBases {
		for _, f := range []lz.FileFormat{lz.FileFormatLZMA, lz.FileFormatXz} {
			enc, err := f.Encode(nil, d)
			if err != nil {
				continue
			}
			var pos []int
			for i := range enc {
				if len(enc) <= 120 || i < 40 || i >= len(enc)-48 {
					pos = append(pos, i)
				}
			}
			if f == lz.FileFormatXz {
				for _, o := range chunkOffsets(enc) {
					for j := 0; j < 7 && o+j < len(enc); j++ {
						pos = append(pos, o+j)
					}
				}
			}
			for _, i := range pos {
				for _, x := range []byte{0x01, 0x80, 0xFF} {
					if x != 0x01 && bi >= 4 && i >= 40 && i < len(enc)-48 {
						continue
					}
					m := append([]byte(nil), enc...)
					m[i] ^= x
					ks = append(ks, &kase{kind: "dec", name: "systematic:flip", format: f, enc: m, model: true})
				}
			}
			for i := 0; i < len(enc); i++ {
				if len(enc) <= 120 || i < 40 || i >= len(enc)-48 {
					ks = append(ks, &kase{kind: "dec", name: "systematic:truncate", format: f, enc: append([]byte(nil), enc[:i]...), model: true})
				}
			}
			for _, x := range []byte{0x00, 0x5A, 0xFF} {
				ks = append(ks, &kase{kind: "dec", name: "systematic:append", format: f, enc: append(append([]byte(nil), enc...), x), model: true})
			}
		}
	}
	// decode: arbitrary bytes, bare and behind valid-looking headers
	lzmaHdr := func(size uint64) []byte {
		h := []byte{0x5D, 0x00, 0x10, 0x00, 0x00}
		for i := 0; i < 8; i++ {
			h = append(h, byte(size>>uint(8*i)))
		}
		return h
	}
	xzHdr := []byte("\xFD\x37\x7A\x58\x5A\x00\x00\x01\x69\x22\xDE\x36\x02\x00\x21\x01\x00\x00\x00\x00\x37\x27\x97\xD6")
	for i := 0; i < 300*scale; i++ {
		n := rng.Intn(1 << uint(rng.Intn(11)))
		body := rng.Bytes(n)
		switch rng.Intn(4) {
		case 0:
			for j := range body {
				body[j] = 0
			}
		case 1:
			if n > 0 {
				body[0] = 0
			}
		}
		var enc []byte
		f := lz.FileFormatLZMA
		name := ""
		switch rng.Intn(6) {
		case 0:
			enc, name = body, "arbitrary:bare"
			if rng.Bool() {
				f = lz.FileFormatXz
			}
		case 1:
			sizes := []uint64{0, 1, uint64(n), uint64(9 * n), 1 << 40, 1<<63 - 1, 1 << 63, ^uint64(0) - 1, ^uint64(0)}
			enc, name = append(lzmaHdr(sizes[rng.Intn(len(sizes))]), body...), "arbitrary:lzma-header"
		case 2:
			enc, name = append(lzmaHdr(uint64(rng.Intn(100*n+1))), body...), "arbitrary:lzma-header"
		case 3:
			f = lz.FileFormatXz
			enc, name = append(append([]byte(nil), xzHdr...), body...), "arbitrary:xz-header"
		case 4:
			f = lz.FileFormatXz
			c := []byte{0xE0, byte(rng.Uint64()), byte(rng.Uint64()), byte(n >> 8), byte(n), 0x5D}
			if rng.Bool() && n > 0 {
				c[3], c[4] = byte((n-1)>>8), byte(n-1)
			}
			enc, name = append(append(append([]byte(nil), xzHdr...), c...), body...), "arbitrary:xz-lzma-chunk"
			if rng.Bool() {
				enc = append(enc, 0, 0, 0, 0, 0, 0, 0)
			}
		default:
			f = lz.FileFormatXz
			c := []byte{0x01, byte((n - 1) >> 8), byte(n - 1)}
			enc, name = append(append(append([]byte(nil), xzHdr...), c...), body...), "arbitrary:xz-raw-chunk"
			enc = append(enc, rng.Bytes(rng.Intn(30))...)
		}
		ks = append(ks, &kase{kind: "dec", name: name, format: f, enc: enc, model: true})
	}
	// worst-case expansion: a huge claimed size over an all-zero (maximally cheap) payload
	for _, n := range []int{100, 4000, 20000 * scale} {
		body := rep(0, n)
		ks = append(ks, &kase{kind: "dec", name: "expansion:lzma-zeros", format: lz.FileFormatLZMA, enc: append(lzmaHdr(1<<62), body...), model: n <= 20000})
		c := []byte{0xE0, 0xFF, 0xFF, byte((n - 1) >> 8), byte(n - 1), 0x5D}
		ks = append(ks, &kase{kind: "dec", name: "expansion:xz-zeros", format: lz.FileFormatXz, enc: append(append(append([]byte(nil), xzHdr...), c...), body...), model: true})
	}
	return ks
}

func bucket(n uint64) string {
	switch {
	case n == 0:
		return "0"
	case n == 1:
		return "1"
	case n <= 3:
		return "2..3"
	case n <= 7:
		return "4..7"
	case n <= 15:
		return "8..15"
	case n <= 31:
		return "16..31"
	default:
		return ">=32"
	}
}

func bytesEq(a, b []byte) bool {
	if len(a) != len(b) {
		return false
	}
	for i := range a {
		if a[i] != b[i] {
			return false
		}
	}
	return true
}
