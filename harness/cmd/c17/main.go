// C17 harness: lib/litonlylzma vs the Lean model (Model/Lzma.lean), plus the
// property's own oracles evaluated on the implementation:
//   - Go round trip: Decode(Encode(x)) == (x, nothing left over, nil), LZMA and XZ;
//   - the xz tool (`xz -dc --format=lzma|xz`), when present, must accept the encoding and print x;
//   - the Wuffs std/lzma and std/xz decoders, generated from the working tree and compiled with gcc,
//     must accept the encoding, consume all of it and return x (whole-buffer and small-chunk I/O);
//   - robustness: Decode on arbitrary / mutated bytes must not panic, must finish, and
//     len(out) <= 42*len(in) (the constant proved in Props/C17.lean: decode_total_bounded).
package main

import (
	"bytes"
	"fmt"
	"os"
	"os/exec"
	"path/filepath"
	"runtime"
	"runtime/pprof"
	"sort"
	"strings"
	"sync"
	"time"

	lz "github.com/google/wuffs/lib/litonlylzma"
	"wvh/hlib"
)

// ---- cases

type kase struct {
	kind string // "rt" (payload round trip), "dec" (decode arbitrary bytes), "fn" (function-level ops)
	name string
	// rt
	data  []byte
	pre   []byte // rt: when non-empty, Encode and Decode are also called with this non-empty dst to append to
	wtie  bool   // rt: also compare the real Wuffs decoders with their Lean models on this payload's encodings
	light bool   // rt: Go round-trip oracle only (no histogram of the chunk structure, no model, no external decoder)
	// dec
	format lz.FileFormat
	enc    []byte
	// fn
	ops [][2]string // op, impl answer (already evaluated on the implementation)
	// tuning
	model    bool // send to the Lean model too
	external bool // run the external decoders (xz tool, Wuffs)
	chunked  bool // also run Wuffs with small I/O chunks
}

type opLine struct{ op, impl string }
type failure struct{ key, desc, replay string }

type result struct {
	ops    []opLine
	fails  []failure
	counts map[string]int
	sigs   []string
	maxRat float64
	tag    string // case description appended to failure texts
	xzRuns int
	wfRuns int
}

func (r *result) count(k string) { r.counts[k]++ }
func (r *result) fail(key, desc, replay string) {
	if r.tag != "" {
		desc += " [" + r.tag + "]"
	}
	r.fails = append(r.fails, failure{key, desc, replay})
}

func fmtName(f lz.FileFormat) string {
	if f == lz.FileFormatLZMA {
		return "lzma"
	}
	return "xz"
}

func clip(s string) string {
	if len(s) > 400000 {
		return s[:400000] + "…(" + fmt.Sprint(len(s)) + " chars)"
	}
	return s
}

// ---- the implementation, canonicalised

func implEnc(f lz.FileFormat, src []byte) (string, []byte) {
	var enc []byte
	out := hlib.Guard(func() string {
		e, err := f.Encode(nil, src)
		if err != nil {
			return "err " + lz.VerifErrClass(err)
		}
		enc = e
		return "ok " + hlib.Hex(e)
	})
	return out, enc
}

type decRes struct {
	out   []byte
	rest  int
	err   string
	panic bool
	tmo   bool
}

func implDec(f lz.FileFormat, enc []byte) (string, decRes) {
	var d decRes
	s, ok := hlib.WithTimeout(120*time.Second, func() string {
		o, rest, err := f.Decode(nil, enc)
		d.out, d.rest, d.err = o, len(rest), lz.VerifErrClass(err)
		return fmt.Sprintf("ok %s rest=%d err=%s", hlib.Hex(o), len(rest), d.err)
	})
	if !ok {
		d.tmo = true
	} else if s == "panic" {
		d.panic = true
	}
	return s, d
}

// ---- workers

type worker struct {
	wuffs  *wuffsDec
	xzPath string
	tmpDir string
}

func (w *worker) runXz(format string, enc []byte) (out []byte, errText string) {
	o, e, err := hlib.RunCmd(120*time.Second, "", nil, enc, w.xzPath, "-dc", "--format="+format)
	if len(enc) == 0 {
		return o, "empty"
	}
	if err != nil {
		return o, fmt.Sprintf("%v: %s", err, strings.TrimSpace(string(e)))
	}
	return o, ""
}

func (w *worker) eval(k *kase) *result {
	res := &result{counts: map[string]int{}}
	switch k.kind {
	case "rt":
		res.tag = fmt.Sprintf("payload %q, %d bytes", k.name, len(k.data))
	case "dec":
		res.tag = fmt.Sprintf("input %q, %d bytes, format %s", k.name, len(k.enc), fmtName(k.format))
	}
	switch k.kind {
	case "fn":
		for _, o := range k.ops {
			res.ops = append(res.ops, opLine{o[0], o[1]})
		}
		res.count("fn:" + k.name)
	case "rt":
		w.evalRoundTrip(k, res)
	case "dec":
		w.evalDecode(k, res)
	}
	return res
}

func (w *worker) evalRoundTrip(k *kase, res *result) {
	src := k.data
	if k.light {
		res.count("rt-light(go round trip only):" + k.name)
	} else {
		res.count("rt:" + k.name)
		res.count(fmt.Sprintf("rt-size:%s", sizeClass(len(src))))
	}
	for _, f := range []lz.FileFormat{lz.FileFormatLZMA, lz.FileFormatXz} {
		fn := fmtName(f)
		encOp := "enc " + fn + " " + hlib.Hex(src)
		var encOut, decOut string
		var enc []byte
		var d decRes
		if k.light {
			// Go round trip only: same calls, no hex strings
			encOut = hlib.Guard(func() string {
				e, err := f.Encode(nil, src)
				if err != nil {
					return "err " + lz.VerifErrClass(err)
				}
				enc = e
				return "ok -"
			})
		} else {
			encOut, enc = implEnc(f, src)
		}
		if k.model {
			res.ops = append(res.ops, opLine{encOp, encOut})
		}
		if !strings.HasPrefix(encOut, "ok ") {
			res.fail("encode:"+fn+":"+strings.Fields(encOut)[0], "Encode failed or panicked: "+encOut, clip(encOp))
			continue
		}
		decOp := ""
		if k.light {
			s, ok := hlib.WithTimeout(120*time.Second, func() string {
				o, rest, err := f.Decode(nil, enc)
				d.out, d.rest, d.err = o, len(rest), lz.VerifErrClass(err)
				return "ok"
			})
			d.tmo, d.panic = !ok, ok && s == "panic"
		} else {
			decOp = "dec " + fn + " " + hlib.Hex(enc)
			decOut, d = implDec(f, enc)
		}
		if k.model {
			res.ops = append(res.ops, opLine{decOp, decOut})
		}
		// oracle 1: Go round trip, nothing left over
		switch {
		case d.panic:
			res.fail("roundtrip:"+fn+":panic", "Decode(Encode(x)) panicked", clip(encOp))
		case d.tmo:
			res.fail("roundtrip:"+fn+":timeout", "Decode(Encode(x)) did not finish", clip(encOp))
		case d.err != "ok":
			res.fail("roundtrip:"+fn+":error", "Decode(Encode(x)) returned error "+d.err, clip(encOp))
		case !bytes.Equal(d.out, src):
			res.fail("roundtrip:"+fn+":data", fmt.Sprintf("Decode(Encode(x)) != x (len %d vs %d)", len(d.out), len(src)), clip(encOp))
		case d.rest != 0:
			res.fail("roundtrip:"+fn+":leftover", fmt.Sprintf("Decode(Encode(x)) left %d bytes over", d.rest), clip(encOp))
		}
		// structure facts (for the histogram, and the 2^16 bound of the chunk header)
		if f == lz.FileFormatXz && !k.light {
			xzStructure(src, enc, res, encOp)
			if u, ok := xzIndexFields(src, enc); ok {
				countUvClasses(res, "unpadded-size", u)
				countUvClasses(res, "uncompressed-size", uint64(len(src)))
				// the two padding loops of encodeXz: bytes added after the end marker and after the index record
				res.count(fmt.Sprintf("xz-block-padding-bytes=%d", (4-int((u-4)%4))%4))
				res.count(fmt.Sprintf("xz-index-padding-bytes=%d", (4-(2+uvLen(u)+uvLen(uint64(len(src))))%4)%4))
			}
		}
		if len(k.pre) > 0 {
			w.evalAppend(k, f, enc, res)
		}
	}
	if !k.light {
		// how the flush meets the pending run: per LZMA stream (whole payload) and per XZ chunk
		res.count("lzma:" + flushClass(endState(src)))
		for off := 0; off < len(src); off += 0x10000 {
			end := off + 0x10000
			if end > len(src) {
				end = len(src)
			}
			if off > 0 || end < len(src) {
				res.count("xz-chunk:" + flushClass(endState(src[off:end])))
			}
		}
	}
}

// evalAppend: Encode and Decode with a non-empty dst ("appending the encoding / the decoding to dst").
// Oracle: Encode(pre, x) starts with pre, and Decode(pre, Encode(pre, x)[len(pre):]) = (pre ++ x, nothing left, nil).
func (w *worker) evalAppend(k *kase, f lz.FileFormat, encNil []byte, res *result) {
	fn := fmtName(f)
	src, pre := k.data, k.pre
	op := "encd " + fn + " " + hlib.Hex(pre) + " " + hlib.Hex(src)
	var enc []byte
	out := hlib.Guard(func() string {
		// spare capacity behind pre must not matter either
		d := append(make([]byte, 0, len(pre)+5), pre...)
		e, err := f.Encode(d, src)
		if err != nil {
			return "err " + lz.VerifErrClass(err)
		}
		enc = e
		return "ok " + hlib.Hex(e)
	})
	if k.model {
		res.ops = append(res.ops, opLine{op, out})
	}
	res.count("rt-append:" + fn)
	if !strings.HasPrefix(out, "ok ") {
		res.fail("encode-append:"+fn+":"+strings.Fields(out)[0], "Encode(dst, x) with a non-empty dst failed or panicked: "+out, clip(op))
		return
	}
	if len(enc) < len(pre) || !bytes.Equal(enc[:len(pre)], pre) {
		res.fail("encode-append:"+fn+":prefix", "Encode(dst, x) does not start with dst", clip(op))
		return
	}
	body := enc[len(pre):]
	dop := "decd " + fn + " " + hlib.Hex(pre) + " " + hlib.Hex(body)
	var o []byte
	var rest int
	var errc string
	dout := hlib.Guard(func() string {
		d := append(make([]byte, 0, len(pre)+3), pre...)
		oo, rr, err := f.Decode(d, body)
		o, rest, errc = oo, len(rr), lz.VerifErrClass(err)
		return fmt.Sprintf("ok %s rest=%d err=%s", hlib.Hex(oo), len(rr), errc)
	})
	if k.model {
		res.ops = append(res.ops, opLine{dop, dout})
	}
	switch {
	case dout == "panic":
		res.fail("roundtrip-append:"+fn+":panic", "Decode(dst, Encode(dst, x)[len(dst):]) panicked", clip(op))
	case errc != "ok":
		res.fail("roundtrip-append:"+fn+":error", "Decode(dst, Encode(dst, x)[len(dst):]) returned error "+errc, clip(op))
	case !bytes.Equal(o, append(append([]byte(nil), pre...), src...)):
		res.fail("roundtrip-append:"+fn+":data", fmt.Sprintf("Decode(dst, Encode(dst, x)[len(dst):]) != dst ++ x (len %d vs %d)", len(o), len(pre)+len(src)), clip(op))
	case rest != 0:
		res.fail("roundtrip-append:"+fn+":leftover", fmt.Sprintf("Decode(dst, Encode(dst, x)[len(dst):]) left %d bytes over", rest), clip(op))
	}
}

// xzToolPass: oracle 2, the xz tool. Process creation is expensive, so the encodings are written to
// a scratch directory and decoded in batches (`xz -dc --format=F f1 f2 …` prints the concatenation);
// a batch that does not print exactly the concatenated payloads is re-run file by file to find the
// culprit.
func xzToolPass(xzPath string, cases []*kase, results []*result) (runs int) {
	dir, cleanup := hlib.NewScratchDir("c17xz")
	defer cleanup()
	for _, f := range []lz.FileFormat{lz.FileFormatLZMA, lz.FileFormatXz} {
		fn := fmtName(f)
		var idx []int
		for i, k := range cases {
			if k.kind == "rt" && k.external {
				idx = append(idx, i)
			}
		}
		const batch = 48
		for b := 0; b < len(idx); b += batch {
			e := b + batch
			if e > len(idx) {
				e = len(idx)
			}
			var files []string
			var want []byte
			for _, i := range idx[b:e] {
				enc, err := f.Encode(nil, cases[i].data)
				if err != nil {
					enc = nil
				}
				name := filepath.Join(dir, fmt.Sprintf("%s-%d.bin", fn, i))
				os.WriteFile(name, enc, 0o644)
				files = append(files, name)
				want = append(want, cases[i].data...)
			}
			args := append([]string{"-dc", "--format=" + fn}, files...)
			o, _, err := hlib.RunCmd(600*time.Second, "", nil, nil, xzPath, args...)
			runs += len(files)
			if err == nil && bytes.Equal(o, want) {
				for _, name := range files {
					os.Remove(name)
				}
				continue
			}
			// the batch failed: find ONE culprit by bisection (a changed encoder can make every batch fail,
			// and one process per file would then cost minutes), report it with the tool's own message
			sub := idx[b:e]
			okRange := func(lo, hi int) bool {
				var w []byte
				for _, i := range sub[lo:hi] {
					w = append(w, cases[i].data...)
				}
				a := append([]string{"-dc", "--format=" + fn}, files[lo:hi]...)
				o, _, err := hlib.RunCmd(600*time.Second, "", nil, nil, xzPath, a...)
				runs += hi - lo
				return err == nil && bytes.Equal(o, w)
			}
			lo, hi := 0, len(sub)
			for hi-lo > 1 {
				mid := (lo + hi) / 2
				if !okRange(lo, mid) {
					hi = mid
				} else {
					lo = mid
				}
			}
			{
				i := sub[lo]
				src := cases[i].data
				encOp := "enc " + fn + " " + hlib.Hex(src)
				o, se, err := hlib.RunCmd(120*time.Second, "", nil, nil, xzPath, "-dc", "--format="+fn, files[lo])
				if err != nil {
					results[i].fail("conformance:xz-tool:"+fn+":rejected", fmt.Sprintf("xz -dc --format=%s rejected the encoding: %v: %s", fn, err, strings.TrimSpace(strings.ReplaceAll(string(se), dir, ""))), clip(encOp))
				} else if !bytes.Equal(o, src) {
					results[i].fail("conformance:xz-tool:"+fn+":data", fmt.Sprintf("xz -dc --format=%s printed different bytes (len %d vs %d)", fn, len(o), len(src)), clip(encOp))
				} else {
					results[i].fail("conformance:xz-tool:"+fn+":batch", "xz -dc accepted this file alone but a batch containing it failed", clip(encOp))
				}
			}
			for _, name := range files {
				os.Remove(name)
			}
		}
	}
	return runs
}

// evalWuffs: oracle 3, the Wuffs std/lzma and std/xz decoders from the working tree (second pass, once
// the driver has been generated and compiled).
func (w *worker) evalWuffs(k *kase, res *result) {
	src := k.data
	for _, f := range []lz.FileFormat{lz.FileFormatLZMA, lz.FileFormatXz} {
		fn := fmtName(f)
		encOp := "enc " + fn + " " + hlib.Hex(src)
		enc, err := f.Encode(nil, src)
		if err != nil {
			continue
		}
		if w.wuffs != nil {
			fb := byte('L')
			if f == lz.FileFormatXz {
				fb = 'X'
			}
			modes := [][2]uint32{{0, 0}}
			if k.chunked {
				modes = append(modes, [2]uint32{1, 1}, [2]uint32{4093, 511})
			}
			if k.wtie {
				w.wuffsModelOps(k, f, enc, res)
			}
			for _, m := range modes {
				st, consumed, o, err := w.wuffs.decode(fb, enc, m[0], m[1])
				res.wfRuns++
				tag := fmt.Sprintf("%s io=%d/%d", fn, m[0], m[1])
				if err != nil {
					res.fail("conformance:wuffs:"+fn+":driver", "Wuffs driver failed ("+tag+"): "+err.Error(), clip(encOp))
					w.wuffs = nil
					break
				}
				if st != "ok" {
					res.fail("conformance:wuffs:"+fn+":rejected", "Wuffs std/"+fn+" rejected the encoding ("+tag+"): "+st, clip(encOp))
				} else if !bytes.Equal(o, src) {
					res.fail("conformance:wuffs:"+fn+":data", fmt.Sprintf("Wuffs std/%s returned different bytes (%s; len %d vs %d)", fn, tag, len(o), len(src)), clip(encOp))
				} else if consumed != len(enc) {
					res.fail("conformance:wuffs:"+fn+":leftover", fmt.Sprintf("Wuffs std/%s consumed %d of %d bytes (%s)", fn, consumed, len(enc), tag), clip(encOp))
				}
			}
		} else {
			res.fail("conformance:wuffs:"+fn+":driver", "Wuffs driver process not available", clip(encOp))
		}
	}
}

// wuffsModelOps: correspondence between the REAL Wuffs std/lzma decoder (whole-buffer I/O) and its Lean
// model (Model/LzmaWuffs.lean, literal path) on the encoding, on the encoding followed by junk, and on
// truncations of it. LZMA files go to the decoder as they are; of an XZ file the raw LZMA2 chunk
// sequence (everything after the 24 header bytes) goes to std/lzma in LZMA2 mode, the way std/xz drives it.
func (w *worker) wuffsModelOps(k *kase, f lz.FileFormat, enc []byte, res *result) {
	fb, name, body := byte('L'), "lzma", enc
	if f == lz.FileFormatXz {
		if len(enc) < 24 {
			return
		}
		fb, name, body = 'M', "lzma2", enc[24:]
	}
	w.wuffsModelRun(k, fb, name, body, res)
	if f == lz.FileFormatXz && w.wuffs != nil {
		// and the whole file through std/xz against Model/XzWuffs.lean
		w.wuffsModelRun(k, 'X', "xz", enc, res)
	}
}

func (w *worker) wuffsModelRun(k *kase, fb byte, name string, body []byte, res *result) {
	inputs := [][]byte{body, append(append([]byte(nil), body...), 0x55, 0x00, 0xFF)}
	cuts := []int{1, 2, 5, len(body) / 2, len(body) - 14}
	if name == "xz" {
		cuts = append(cuts, 13, 17, 22, 30) // inside the footer, the index CRC, the index, the check
	}
	if strings.HasPrefix(k.name, "sweep:") {
		cuts = []int{1 + len(body)%29}
	}
	for _, cut := range cuts {
		if cut > 0 && cut < len(body) {
			inputs = append(inputs, body[:len(body)-cut])
		}
	}
	for _, in := range inputs {
		if w.wuffs == nil {
			return
		}
		st, consumed, o, err := w.wuffs.decode(fb, in, 0, 0)
		res.wfRuns++
		if err != nil {
			res.fail("conformance:wuffs:"+name+":driver", "Wuffs driver failed (model tie): "+err.Error(), "wdec "+name+" "+hlib.Hex(in))
			w.wuffs = nil
			return
		}
		out := ""
		if st == "ok" {
			out = fmt.Sprintf("ok %s rest=%d", hlib.Hex(o), len(in)-consumed)
		} else {
			// the C API prints "#truncated input" of package lzma as "lzma: truncated input"
			st = "#" + strings.TrimPrefix(strings.TrimPrefix(strings.TrimPrefix(st, "lzma: "), "xz: "), "#")
			out = fmt.Sprintf("fail %s %s", strings.ReplaceAll(st, " ", "_"), hlib.Hex(o))
		}
		res.ops = append(res.ops, opLine{"wdec " + name + " " + hlib.Hex(in), out})
		res.count("wuffs-model-tie:" + name + ":" + strings.Fields(out)[0] + ":" + strings.ReplaceAll(st, " ", "_"))
	}
}

// xzStructure walks the chunk sequence of an XZ encoding produced by Encode,
// counts the chunk kinds and checks the packed-size bound.
func xzStructure(src, enc []byte, res *result, replay string) {
	p := 24
	nRaw, nLz := 0, 0
	for p < len(enc) && enc[p] != 0 {
		switch enc[p] {
		case 0x01:
			if p+3 > len(enc) {
				return
			}
			n := int(enc[p+1])<<8 + int(enc[p+2]) + 1
			p += 3 + n
			nRaw++
		case 0xE0:
			if p+6 > len(enc) {
				return
			}
			c := int(enc[p+3])<<8 + int(enc[p+4]) + 1
			p += 6 + c
			nLz++
		default:
			return
		}
	}
	res.count(fmt.Sprintf("xz-chunks:%s", sizeClassSmall(nRaw+nLz)))
	if nRaw > 0 {
		res.count("xz-chunk-kind:raw")
	}
	if nLz > 0 {
		res.count("xz-chunk-kind:lzma")
	}
	if nRaw > 0 && nLz > 0 {
		res.count("xz-chunk-kind:mixed")
	}
	// per-chunk decision margin, recomputed with the real encodeRaw
	for off := 0; off < len(src); off += 0x10000 {
		end := off + 0x10000
		if end > len(src) {
			end = len(src)
		}
		raw := lz.VerifEncodeRaw(nil, src[off:end])
		margin := (len(raw) + 6) - (end - off + 3) // >= 0: uncompressed chunk chosen
		if len(raw) >= 0xFFFC && len(raw) <= 0x10003 {
			res.count(fmt.Sprintf("xz-chunk:len(rawLZMA)=%d(16-bit packed-size field limit is 65536)", len(raw)))
		}
		switch {
		case margin == 0:
			res.count("xz-choice-margin:0(raw,tie)")
		case margin == -1:
			res.count("xz-choice-margin:-1(lzma,closest)")
		case margin == 1:
			res.count("xz-choice-margin:+1")
		case margin < 0:
			res.count("xz-choice-margin:<-1")
			if len(raw)-1 >= 1<<16 {
				res.fail("xz:packed-size-overflow", fmt.Sprintf("LZMA chunk chosen with len(rawLZMA)-1 = %d >= 2^16", len(raw)-1), clip(replay))
			}
		default:
			res.count("xz-choice-margin:>+1")
		}
	}
}

func sizeClass(n int) string {
	switch {
	case n == 0:
		return "0"
	case n == 1:
		return "1"
	case n < 16:
		return "2..15"
	case n < 1024:
		return "16..1023"
	case n < 65535:
		return "1024..65534"
	case n <= 65537:
		return fmt.Sprint(n)
	case n < 131072:
		return "65538..131071"
	default:
		return ">=131072"
	}
}

func sizeClassSmall(n int) string {
	if n <= 3 {
		return fmt.Sprint(n)
	}
	return ">=4"
}

func (w *worker) evalDecode(k *kase, res *result) {
	fn := fmtName(k.format)
	op := "dec " + fn + " " + hlib.Hex(k.enc)
	out, d := implDec(k.format, k.enc)
	if k.model {
		res.ops = append(res.ops, opLine{op, out})
	}
	res.count("dec:" + k.name)
	res.count("dec-err:" + fn + ":" + d.err)
	switch {
	case d.panic:
		res.fail("robust:"+fn+":panic", "Decode panicked on arbitrary input", clip(op))
	case d.tmo:
		res.fail("robust:"+fn+":timeout", "Decode did not finish within 120 s", clip(op))
	case len(d.out) > 42*len(k.enc):
		// 42 is the constant the code guarantees (theorem decode_total_bounded: at most 377 decoded bits,
		// i.e. fewer than 42 nine-bit literals, per source byte); DESIGN.md's 64*len+64 is weaker.
		res.fail("robust:"+fn+":output-bound", fmt.Sprintf("len(out)=%d > 42*len(in) with len(in)=%d", len(d.out), len(k.enc)), clip(op))
	}
	if len(k.enc) > 0 {
		if rat := float64(len(d.out)) / float64(len(k.enc)); rat > res.maxRat {
			res.maxRat = rat
		}
	}
	if d.err != "ok" && len(d.out) > 0 {
		res.count("dec-partial-data-with-error")
	}
}

// ---- main

func main() {
	r := hlib.Start("C17")
	if r.IsGen() {
		genLean(r)
		return
	}
	t0 := time.Now()
	if pf := os.Getenv("C17_CPUPROFILE"); pf != "" {
		if f, err := os.Create(pf); err == nil {
			pprof.StartCPUProfile(f)
			defer pprof.StopCPUProfile()
		}
	}
	// generate + compile the Wuffs decoders in the background while pass 1 runs
	type buildRes struct {
		wb  *wuffsBuild
		err error
	}
	buildCh := make(chan buildRes, 1)
	if os.Getenv("C17_NO_WUFFS") == "" {
		go func() {
			opt := "-O0" // compile time matters in the quick tier; the decoders are fast enough unoptimised
			if r.Thorough {
				opt = "-O2"
			}
			wb, err := buildWuffsDriver(r.Repo, opt, driverCacheRoot(r.OutDir))
			buildCh <- buildRes{wb, err}
		}()
	} else {
		buildCh <- buildRes{nil, nil}
	}

	cases := genCases(r)
	fmt.Fprintf(os.Stderr, "c17: %d cases generated in %.1fs\n", len(cases), time.Since(t0).Seconds())

	xzPath, _ := exec.LookPath("xz")
	if xzPath == "" {
		for _, p := range []string{"/root/miniconda/bin/xz", "/usr/bin/xz", "/usr/local/bin/xz"} {
			if _, err := os.Stat(p); err == nil {
				xzPath = p
				break
			}
		}
	}
	if xzPath == "" {
		r.Note("xz tool absent: xz-tool oracle skipped")
	}
	nw := runtime.NumCPU()
	if !r.Thorough && nw > 8 {
		nw = 8
	}
	results := make([]*result, len(cases))
	pass := func(f func(w *worker, i int), mk func(w *worker) func()) {
		var wg sync.WaitGroup
		next := make(chan int, len(cases))
		for i := range cases {
			next <- i
		}
		close(next)
		for j := 0; j < nw; j++ {
			wg.Add(1)
			go func() {
				defer wg.Done()
				w := &worker{xzPath: xzPath}
				if mk != nil {
					defer mk(w)()
				}
				for i := range next {
					f(w, i)
				}
			}()
		}
		wg.Wait()
	}
	pass(func(w *worker, i int) { results[i] = w.eval(cases[i]) }, nil)
	fmt.Fprintf(os.Stderr, "c17: pass 1 (Go oracles) done at %.1fs\n", time.Since(t0).Seconds())
	xzRuns := 0
	if xzPath != "" {
		xzRuns = xzToolPass(xzPath, cases, results)
	} else {
		r.Count("skipped:xz-tool-absent")
	}
	fmt.Fprintf(os.Stderr, "c17: xz tool pass done at %.1fs\n", time.Since(t0).Seconds())
	br := <-buildCh
	fmt.Fprintf(os.Stderr, "c17: Wuffs decoders ready at %.1fs\n", time.Since(t0).Seconds())
	if te, ok := br.err.(*toolsError); ok {
		// The Wuffs compiler itself (cmd/wuffs, cmd/wuffs-c: lang/*, internal/cgen) does not build from
		// the working tree. That is outside this property's anchors (and is what C01..C05/C11 watch):
		// skip the Wuffs-decoder oracle and say so, do not blame litonlylzma / std/lzma / std/xz.
		r.Count("skipped:wuffs-compiler-does-not-build")
		r.Note("Wuffs decoder oracle skipped, the Wuffs compiler does not build: " + firstLines(te.Error(), 4))
	} else if br.err != nil {
		// std/lzma or std/xz from the working tree no longer generate/compile: that breaks the
		// conformance oracle, report it.
		r.Fail("conformance:wuffs:build", "could not generate+compile std/lzma, std/xz from the working tree: "+firstLines(br.err.Error(), 12), "wuffs gen base std/xz && gcc (see harness/cmd/c17/wuffsdec.go)")
	} else if br.wb != nil {
		wb := br.wb
		defer wb.cleanup()
		if wb.cached {
			r.Note("Wuffs decoder driver reused from the cache (same compiler sources, std/, driver source, gcc)")
		}
		if wb.note != "" {
			r.Note(wb.note)
			r.Count("wuffs-compiler-fallback(last commit)")
		}
		pass(func(w *worker, i int) {
			if cases[i].kind == "rt" && cases[i].external {
				w.evalWuffs(cases[i], results[i])
			}
		}, func(w *worker) func() {
			d, err := wb.start()
			if err != nil {
				return func() {}
			}
			w.wuffs = d
			return d.close
		})
	} else {
		r.Note("Wuffs decoder oracle disabled by C17_NO_WUFFS")
	}
	fmt.Fprintf(os.Stderr, "c17: pass 2 (Wuffs decoders) done at %.1fs\n", time.Since(t0).Seconds())

	maxRat := 0.0
	wfRuns := 0
	// report the failing cases smallest input first (the first one becomes the replay file)
	var allFails []failure
	for _, res := range results {
		allFails = append(allFails, res.fails...)
	}
	sort.SliceStable(allFails, func(a, b int) bool { return len(allFails[a].replay) < len(allFails[b].replay) })
	for _, f := range allFails {
		r.Fail(f.key, f.desc, f.replay)
	}
	for i, res := range results {
		for _, o := range res.ops {
			r.Op(o.op, o.impl)
		}
		keys := make([]string, 0, len(res.counts))
		for k := range res.counts {
			keys = append(keys, k)
		}
		sort.Strings(keys)
		for _, k := range keys {
			r.CountN(k, res.counts[k])
		}
		if res.maxRat > maxRat {
			maxRat = res.maxRat
		}
		wfRuns += res.wfRuns
		r.Nontrivial(cases[i].kind + ":" + cases[i].name + ":" + fmt.Sprint(i))
	}
	r.Extra("max_output_to_input_ratio_on_arbitrary_input", maxRat)
	r.Extra("xz_tool_runs", xzRuns)
	r.Extra("wuffs_decoder_runs", wfRuns)
	r.Extra("xz_tool", xzPath)
	for _, s := range genNotes {
		r.Note(s)
	}
	r.Finish("payload round trips (empty, 1 byte, all-0x00/all-0xFF up to 200 KiB, 65535/65536/65537 and multi-chunk, " +
		"incompressible, compressible at the raw-vs-LZMA decision margin and at the 16-bit packed-size limit, searched carry chains " +
		"that keep low in [0xFF000000,2^32), every length 0..N of constant / alternating payloads and of text prefixes with the " +
		"real encoder state watched for streams that end inside a pending 0xFF run, searched last bytes (low = ..FF, carry / emit / " +
		"extend at the flush), payload and block sizes at the uvarint thresholds of the XZ index, non-empty dst), " +
		"decode of mutated encodings and arbitrary bytes, function-level shiftLow/encodeBit/decodeBit/uvarint traces, " +
		"real Wuffs std/lzma + std/xz against their models on encodings, extended and truncated encodings; " +
		"every case counts as non-trivial (each is a distinct input; the light sweep payloads get the Go round trip only)")
}

// driverCacheRoot is <work>/cache-c17 for an output directory below a directory called "work", else "" (no cache).
func driverCacheRoot(outDir string) string {
	if os.Getenv("C17_NO_DRIVER_CACHE") != "" {
		return ""
	}
	abs, err := filepath.Abs(outDir)
	if err != nil {
		return ""
	}
	for d := abs; d != "/" && d != "."; d = filepath.Dir(d) {
		if filepath.Base(d) == "work" {
			return filepath.Join(d, "cache-c17")
		}
	}
	return ""
}

func firstLines(s string, n int) string {
	l := strings.Split(s, "\n")
	if len(l) > n {
		l = l[:n]
	}
	return strings.Join(l, " / ")
}
