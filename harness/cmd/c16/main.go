// C16 harness: lib/flatecut and lib/zlibcut vs the Lean model (Model/Flate/Cut.lean,
// ZlibCut.lean, Spec.lean), plus the property's own oracle evaluated on the
// implementation: decode encoded[:eLen] with Go's compress/flate|zlib and compare
// with the ORIGINAL payload's prefix (the comparison internal/testcut omits).
package main

import (
	"bytes"
	"compress/flate"
	"compress/zlib"
	"errors"
	"fmt"
	"hash/adler32"
	"io"
	"os"
	"path/filepath"
	"sort"
	"strings"
	"time"

	"github.com/google/wuffs/lib/flatecut"
	"github.com/google/wuffs/lib/zlibcut"
	"wvh/hlib"
)

// ---- canonical words

func errWord(err error) string {
	if err == nil {
		return "nil"
	}
	var ce flate.CorruptInputError
	if errors.As(err, &ce) {
		return "flate-corrupt"
	}
	if err == io.ErrUnexpectedEOF {
		return "unexpected-eof"
	}
	m := map[string]string{
		"flatecut: maxEncodedLen is too small":                 "max-encoded-len-too-small",
		"zlibcut: maxEncodedLen is too small":                  "max-encoded-len-too-small",
		"flatecut: internal: inconsistent decodedLen":          "inconsistent-decoded-len",
		"zlibcut: internal: inconsistent decodedLen":           "inconsistent-decoded-len",
		"flatecut: internal: no progress":                      "internal-no-progress",
		"flatecut: internal: replace with single block":        "internal-replace-with-single-block",
		"flatecut: internal: some progress":                    "internal-some-progress",
		"flatecut: invalid input: bad block length":            "bad-block-length",
		"flatecut: invalid input: bad block type":              "bad-block-type",
		"flatecut: invalid input: bad code lengths":            "bad-code-lengths",
		"flatecut: invalid input: bad Huffman tree":            "bad-huffman-tree",
		"flatecut: invalid input: bad symbol":                  "bad-symbol",
		"flatecut: invalid input: no end-of-block":             "no-end-of-block",
		"flatecut: invalid input: not enough data":             "not-enough-data",
		"zlibcut: invalid input: not enough data":              "not-enough-data",
		"flatecut: invalid input: too many codes":              "too-many-codes",
		"zlibcut: invalid input: bad header":                   "zlib-bad-header",
		"zlibcut: unsupported zlib compression method":         "zlib-unsupported-method",
	}
	if w, ok := m[err.Error()]; ok {
		return w
	}
	return "other:" + strings.ReplaceAll(err.Error(), " ", "_")
}

// ---- cases

type streamCase struct {
	sig     string // class signature
	enc     []byte
	payload []byte
	dict    []byte
	zlib    bool
	blocks  []blockInfo
}

func clone(b []byte) []byte { return append([]byte(nil), b...) }

func flateDecode(b, dict []byte) ([]byte, error) {
	var rd io.ReadCloser
	if dict != nil {
		rd = flate.NewReaderDict(bytes.NewReader(b), dict)
	} else {
		rd = flate.NewReader(bytes.NewReader(b))
	}
	out, err := io.ReadAll(rd)
	if err != nil {
		return out, err
	}
	return out, rd.Close()
}

func zlibDecode(b, dict []byte) ([]byte, error) {
	rd, err := zlib.NewReaderDict(bytes.NewReader(b), dict)
	if err != nil {
		return nil, err
	}
	out, err := io.ReadAll(rd)
	if err != nil {
		return out, err
	}
	return out, rd.Close()
}

type runner struct {
	r          *hlib.Run
	oracleN    int
	validCuts  int
	validErrs  int
	robustN    int
	bitPosSeen map[int]bool
}

func replayText(op string, sc *streamCase) string {
	s := op + "\npayload " + hlib.Hex(sc.payload)
	if sc.dict != nil {
		s += "\ndict " + hlib.Hex(sc.dict)
	}
	return s + "\nclass " + sc.sig
}

// cutOnce runs one Cut of a VALID stream: op line for the model + the oracle.
func (x *runner) cutOnce(sc *streamCase, limit int, withW bool) {
	r := x.r
	enc := clone(sc.enc)
	var wbuf *bytes.Buffer
	var w io.Writer
	if withW || sc.zlib {
		wbuf = &bytes.Buffer{}
		w = wbuf
	}
	opName := "cut"
	if sc.zlib {
		opName = "zcut"
	} else if withW {
		opName = "cutw"
	}
	op := fmt.Sprintf("%s %d %s", opName, limit, hlib.Hex(sc.enc))
	var eLen, dLen int
	var err error
	out, msg := hlib.GuardMsg(func() string {
		if sc.zlib {
			eLen, dLen, err = zlibcut.Cut(w, enc, limit)
		} else {
			eLen, dLen, err = flatecut.Cut(w, enc, limit)
		}
		if err != nil {
			return "err " + errWord(err)
		}
		s := fmt.Sprintf("ok %d %d %s", eLen, dLen, hlib.Hex(enc))
		if wbuf != nil {
			s += " " + hlib.Hex(wbuf.Bytes())
		}
		return s
	})
	r.Op(op, out)
	x.oracleN++
	r.Count("op:" + opName)
	if out == "panic" {
		r.Fail("panic:"+opName+":valid-stream", "Cut panicked on a valid stream: "+msg, replayText(op, sc))
		return
	}
	minimum := flatecut.SmallestValidMaxEncodedLen
	if sc.zlib {
		minimum = zlibcut.SmallestValidMaxEncodedLen
	}
	if limit < minimum {
		r.Count("limit:below-minimum")
		return
	}
	if err != nil {
		x.validErrs++
		r.Count("valid-stream-error:" + errWord(err))
		return
	}
	x.validCuts++
	rep := replayText(op, sc)
	kind := "flate"
	if sc.zlib {
		kind = "zlib"
	}
	if eLen > limit {
		r.Fail("elen-exceeds-limit:"+kind, fmt.Sprintf("encodedLen %d > maxEncodedLen %d", eLen, limit), rep)
		return
	}
	if eLen > len(enc) || eLen < 0 {
		r.Fail("elen-exceeds-buffer:"+kind, fmt.Sprintf("encodedLen %d, len(encoded) %d", eLen, len(enc)), rep)
		return
	}
	if !bytes.Equal(enc[eLen:], sc.enc[eLen:]) {
		r.Fail("tail-modified:"+kind, "bytes at positions >= encodedLen were modified", rep)
	}
	if dLen < 0 || dLen > len(sc.payload) {
		r.Fail("dlen-exceeds-payload:"+kind, fmt.Sprintf("decodedLen %d, payload %d", dLen, len(sc.payload)), rep)
		return
	}
	var dec []byte
	var derr error
	if sc.zlib {
		dec, derr = zlibDecode(enc[:eLen], sc.dict)
	} else {
		dec, derr = flateDecode(enc[:eLen], sc.dict)
	}
	if derr != nil {
		r.Fail("cut-stream-invalid:"+kind, "encoded[:encodedLen] does not decode: "+derr.Error(), rep)
		return
	}
	if !bytes.Equal(dec, sc.payload[:dLen]) {
		if len(dec) != dLen && bytes.Equal(dec, sc.payload[:min(len(dec), len(sc.payload))]) && len(dec) <= len(sc.payload) {
			r.Fail("decodedlen-wrong:"+kind, fmt.Sprintf("cut stream decodes to a prefix of %d bytes but decodedLen = %d", len(dec), dLen), rep)
		} else {
			r.Fail("not-a-prefix:"+kind, "cut stream does not decode to payload[:decodedLen]", rep)
		}
		return
	}
	if wbuf != nil && !bytes.Equal(wbuf.Bytes(), sc.payload[:dLen]) {
		r.Fail("writer-mismatch:"+kind, "bytes written to w differ from payload[:decodedLen]", rep)
	}
	if limit >= len(sc.enc) && dLen != len(sc.payload) {
		r.Fail("full-limit-not-whole:"+kind, fmt.Sprintf("limit >= len(stream) but decodedLen %d < %d", dLen, len(sc.payload)), rep)
	}
	switch {
	case dLen == len(sc.payload):
		r.Count("cut:whole")
	case dLen == 0:
		r.Count("cut:empty")
	default:
		r.Count("cut:proper-prefix")
		r.Nontrivial(fmt.Sprintf("%s|%d|%d", sc.sig, eLen, dLen))
	}
	ps := 0 // start of the DEFLATE data
	if sc.zlib {
		ps = 2
		if sc.dict != nil {
			ps = 6
		}
	}
	if len(enc) > ps && (enc[ps]&6) == 0 && (sc.enc[ps]&6) != 0 {
		r.Count("cut:replaced-by-stored-block")
		switch {
		case dLen == 0xFFFF:
			r.Count("cut:replaced-by-stored-block:n=65535")
		case dLen > 32768:
			r.Count("cut:replaced-by-stored-block:n>32768")
		}
	}
}

func (x *runner) limitsFor(sc *streamCase, rng *hlib.Rand, big int) []int {
	n := len(sc.enc)
	var ls []int
	if n <= 600 {
		for l := -1; l <= n+2; l++ {
			ls = append(ls, l)
		}
		return ls
	}
	seen := map[int]bool{}
	add := func(l int) {
		if l >= 0 && l <= n+2 && !seen[l] {
			seen[l] = true
			ls = append(ls, l)
		}
	}
	for l := 0; l <= 12; l++ {
		add(l)
	}
	for l := n - 6; l <= n+2; l++ {
		add(l)
	}
	for _, b := range sc.blocks { // around every block boundary
		for d := -1; d <= 2; d++ {
			add(b.startBit/8 + d)
			add(b.endBit/8 + d)
		}
	}
	add(0xFFFF + 5)
	add(0xFFFF + 4)
	add(0xFFFF + 6)
	for i := 0; i < big; i++ {
		add(rng.Intn(n + 1))
	}
	sort.Ints(ls)
	return ls
}

func (x *runner) runStream(sc *streamCase, rng *hlib.Rand, big int) {
	x.r.Count("stream:" + strings.SplitN(sc.sig, "|", 2)[0])
	for _, l := range x.limitsFor(sc, rng, big) {
		x.cutOnce(sc, l, false)
		if !sc.zlib && rng.Chance(1, 4) {
			x.cutOnce(sc, l, true)
		}
	}
}

// ---- payload classes

var words = strings.Fields("the quick brown fox jumps over the lazy dog and wuffs the library decodes png gif zlib deflate lzw safely with no arbitrary code execution bounds checks arithmetic overflow")

func payload(rng *hlib.Rand, class string, size int) []byte {
	switch class {
	case "empty":
		return []byte{}
	case "tiny":
		return rng.Bytes(1 + rng.Intn(3))
	case "random":
		return rng.Bytes(size)
	case "text":
		var b []byte
		for len(b) < size {
			b = append(b, words[rng.Intn(len(words))]...)
			b = append(b, ' ')
		}
		return b[:size]
	case "runs":
		var b []byte
		for len(b) < size {
			c := byte(rng.Intn(4)) + 'a'
			n := 1 + rng.Intn(40)
			if rng.Chance(1, 6) {
				n = 258 + rng.Intn(300)
			}
			for i := 0; i < n; i++ {
				b = append(b, c)
			}
		}
		return b[:size]
	case "periodic":
		p := rng.Bytes(1 + rng.Intn(9))
		var b []byte
		for len(b) < size {
			b = append(b, p...)
			if rng.Chance(1, 10) {
				b = append(b, byte(rng.Intn(256)))
			}
		}
		return b[:size]
	case "lowentropy":
		b := make([]byte, size)
		for i := range b {
			b[i] = "ab"[rng.Intn(2)]
			if rng.Chance(1, 30) {
				b[i] = byte(rng.Intn(256))
			}
		}
		return b
	}
	panic("class")
}

var classes = []string{"empty", "tiny", "random", "text", "runs", "periodic", "lowentropy"}

func goFlate(p []byte, level int, chunks int, dict []byte, rng *hlib.Rand) []byte {
	var buf bytes.Buffer
	var w *flate.Writer
	if dict != nil {
		w, _ = flate.NewWriterDict(&buf, level, dict)
	} else {
		w, _ = flate.NewWriter(&buf, level)
	}
	rest := p
	for i := 0; i < chunks-1 && len(rest) > 0; i++ {
		k := rng.Intn(len(rest) + 1)
		w.Write(rest[:k])
		w.Flush()
		rest = rest[k:]
	}
	w.Write(rest)
	w.Close()
	return buf.Bytes()
}

func goZlib(p []byte, level int, chunks int, dict []byte, rng *hlib.Rand) []byte {
	var buf bytes.Buffer
	var w *zlib.Writer
	if dict != nil {
		w, _ = zlib.NewWriterLevelDict(&buf, level, dict)
	} else {
		w, _ = zlib.NewWriterLevel(&buf, level)
	}
	rest := p
	for i := 0; i < chunks-1 && len(rest) > 0; i++ {
		k := rng.Intn(len(rest) + 1)
		w.Write(rest[:k])
		w.Flush()
		rest = rest[k:]
	}
	w.Write(rest)
	w.Close()
	return buf.Bytes()
}

var levels = []int{-2, 0, 1, 6, 9}

// asmStream builds a hand-assembled multi-block stream for payload p.
func asmStream(p []byte, rng *hlib.Rand) *streamCase {
	a := newAsm(rng)
	nb := 1 + rng.Intn(4)
	var kinds []string
	rest := p
	for i := 0; i < nb; i++ {
		final := i == nb-1
		var part []byte
		if final {
			part = rest
		} else {
			k := rng.Intn(len(rest) + 1)
			if rng.Chance(1, 5) {
				k = 0 // empty block in the middle
			}
			part = rest[:k]
		}
		rest = rest[len(part):]
		// tokens may reference earlier blocks' data: tokenize over the whole prefix, keep the new part
		done := len(p) - len(rest) - len(part)
		style := rng.Intn(4)
		var ts []tok
		if len(part) > 0 {
			all := tokenizeFrom(p[:done+len(part)], done, rng, style)
			ts = all
		}
		switch k := rng.Intn(10); {
		case k < 2 && len(part) <= 0xFFFF:
			a.stored(final, part)
			kinds = append(kinds, "S")
		case k < 5:
			a.fixed(final, ts)
			kinds = append(kinds, "F")
		default:
			dm := 0
			if rng.Chance(1, 4) {
				dm = 1
			}
			if rng.Chance(1, 25) {
				dm = 2
			}
			a.dynamic(final, ts, rng.Chance(1, 3), dm)
			kinds = append(kinds, "D")
		}
	}
	enc := a.finish()
	if rng.Chance(1, 6) {
		enc = append(enc, rng.Bytes(1+rng.Intn(4))...) // trailing bytes after the final block
		a.flags["trailing-bytes"] = true
	}
	var fl []string
	for f := range a.flags {
		fl = append(fl, f)
	}
	sort.Strings(fl)
	return &streamCase{sig: "asm|" + strings.Join(kinds, "") + "|" + strings.Join(fl, ","), enc: enc, payload: p, blocks: a.blocks}
}

// tokenizeFrom tokenizes p[from:] allowing matches into p[:from].
func tokenizeFrom(p []byte, from int, rng *hlib.Rand, style int) []tok {
	var out []tok
	i := from
	for i < len(p) {
		bestL, bestD := 0, 0
		if style != 0 && i > 0 {
			lo := i - 32768
			if lo < 0 {
				lo = 0
			}
			tries := 0
			for j := i - 1; j >= lo && tries < 300; j-- {
				tries++
				if p[j] != p[i] {
					continue
				}
				l := 0
				for i+l < len(p) && l < 258 && p[j+l] == p[i+l] {
					l++
				}
				if l > bestL {
					bestL, bestD = l, i-j
					if l == 258 {
						break
					}
				}
			}
			if style == 3 && i >= 32768 && rng.Chance(1, 50) {
				// try the maximum distance
				j := i - 32768
				l := 0
				for i+l < len(p) && l < 258 && p[j+l] == p[i+l] {
					l++
				}
				if l >= 3 {
					bestL, bestD = l, 32768
				}
			}
		}
		if bestL >= 3 && !(style == 2 && rng.Chance(1, 3)) {
			if style == 2 && bestL > 3 && rng.Bool() {
				bestL = 3 + rng.Intn(bestL-2)
			}
			out = append(out, tok{length: bestL, dist: bestD})
			i += bestL
		} else {
			out = append(out, tok{lit: true, b: p[i]})
			i++
		}
	}
	return out
}

func min(a, b int) int {
	if a < b {
		return a
	}
	return b
}

// ---- the spec decoder against compress/flate (validates the "inflate" parameter of the model)

func (x *runner) inflateOp(s, dict []byte, cap int) {
	capS := "-"
	if cap >= 0 {
		capS = fmt.Sprint(cap)
	}
	op := fmt.Sprintf("inflate %s %s %s", capS, hlib.Hex(dict), hlib.Hex(s))
	out := hlib.Guard(func() string {
		br := bytes.NewReader(s)
		var rd io.ReadCloser
		if len(dict) > 0 {
			rd = flate.NewReaderDict(br, dict)
		} else {
			rd = flate.NewReader(br)
		}
		if cap >= 0 {
			buf := make([]byte, cap)
			n := 0
			var err error
			for n < cap && err == nil {
				var k int
				k, err = rd.Read(buf[n:])
				n += k
			}
			if n == cap {
				return "capped " + hlib.Hex(buf[:n])
			}
			return classify(err, buf[:n], len(s)-br.Len())
		}
		o, err := io.ReadAll(rd)
		return classify(err, o, len(s)-br.Len())
	})
	x.r.Op(op, out)
	x.r.Count("op:inflate")
	x.r.Count("inflate:" + strings.SplitN(out, " ", 2)[0])
}

func classify(err error, out []byte, consumed int) string {
	switch {
	case err == nil || err == io.EOF:
		return fmt.Sprintf("done %d %s", consumed, hlib.Hex(out))
	case err == io.ErrUnexpectedEOF:
		return "truncated " + hlib.Hex(out)
	}
	var ce flate.CorruptInputError
	if errors.As(err, &ce) {
		return "corrupt " + hlib.Hex(out)
	}
	return "other:" + strings.ReplaceAll(err.Error(), " ", "_")
}

func (x *runner) zinflateOp(s, dict []byte) {
	op := fmt.Sprintf("zinflate %s %s", hlib.Hex(dict), hlib.Hex(s))
	out := hlib.Guard(func() string {
		br := bytes.NewReader(s)
		rd, err := zlib.NewReaderDict(br, dict)
		if err != nil {
			return "err"
		}
		o, err := io.ReadAll(rd)
		if err != nil {
			return "err"
		}
		return fmt.Sprintf("ok %d %s", len(s)-br.Len(), hlib.Hex(o))
	})
	x.r.Op(op, out)
	x.r.Count("op:zinflate")
}

// ---- robustness: arbitrary bytes

func (x *runner) robust(b []byte, limit int, zl bool, sig string) {
	r := x.r
	opName := "cut"
	if zl {
		opName = "zcut"
	} else if limit%3 == 0 {
		opName = "cutw"
	}
	op := fmt.Sprintf("%s %d %s", opName, limit, hlib.Hex(b))
	enc := clone(b)
	var eLen, dLen int
	var err error
	panicMsg := ""
	out, finished := hlib.WithTimeout(60*time.Second, func() string {
		o, msg := hlib.GuardMsg(func() string {
			var wbuf *bytes.Buffer
			var w io.Writer
			if opName != "cut" {
				wbuf = &bytes.Buffer{}
				w = wbuf
			}
			if zl {
				eLen, dLen, err = zlibcut.Cut(w, enc, limit)
			} else {
				eLen, dLen, err = flatecut.Cut(w, enc, limit)
			}
			if err != nil {
				return "err " + errWord(err)
			}
			s := fmt.Sprintf("ok %d %d %s", eLen, dLen, hlib.Hex(enc))
			if wbuf != nil {
				s += " " + hlib.Hex(wbuf.Bytes())
			}
			return s
		})
		panicMsg = msg
		return o
	})
	r.Op(op, out)
	x.robustN++
	r.Count("op:" + opName)
	r.Count("robust:" + sig)
	if !finished {
		r.Fail("hang:arbitrary-bytes", "Cut did not return within 60 s", op)
		return
	}
	if out == "panic" {
		r.Fail("panic:arbitrary-bytes", "Cut panicked: "+panicMsg, op)
		return
	}
	if err != nil {
		r.Count("robust-result:err:" + errWord(err))
		return
	}
	r.Count("robust-result:ok")
	if eLen > limit || eLen > len(b) || eLen < 0 || dLen < 0 {
		r.Fail("lengths-outside:arbitrary-bytes", fmt.Sprintf("eLen %d dLen %d limit %d len %d", eLen, dLen, limit, len(b)), op)
	}
}

func mutate(b []byte, rng *hlib.Rand) []byte {
	c := clone(b)
	if len(c) == 0 {
		return rng.Bytes(1 + rng.Intn(8))
	}
	switch rng.Intn(6) {
	case 0: // bit flips
		for i := 1 + rng.Intn(3); i > 0; i-- {
			c[rng.Intn(len(c))] ^= 1 << uint(rng.Intn(8))
		}
	case 1: // truncate
		c = c[:rng.Intn(len(c))]
	case 2: // overwrite a byte
		c[rng.Intn(len(c))] = byte(rng.Intn(256))
	case 3: // splice random bytes
		i := rng.Intn(len(c))
		c = append(append(clone(c[:i]), rng.Bytes(1+rng.Intn(6))...), c[i:]...)
	case 4: // early part only flips (headers)
		k := min(len(c), 12)
		c[rng.Intn(k)] ^= 1 << uint(rng.Intn(8))
	case 5: // truncate then flip
		c = c[:1+rng.Intn(len(c))]
		c[rng.Intn(len(c))] ^= 1 << uint(rng.Intn(8))
	}
	return c
}

// ---- per-function ops

func natList(v []uint32) string {
	s := make([]string, len(v))
	for i, x := range v {
		s[i] = fmt.Sprint(x)
	}
	return "[" + strings.Join(s, ",") + "]"
}

func randLengths(rng *hlib.Rand) []uint32 {
	var n int
	switch rng.Intn(4) {
	case 0:
		n = 1 + rng.Intn(32)
	case 1:
		n = 257 + rng.Intn(32)
	case 2:
		n = 19
	default:
		n = 1 + rng.Intn(288)
	}
	out := make([]uint32, n)
	switch rng.Intn(5) {
	case 0: // random complete over a random subset
		k := 2 + rng.Intn(min(n, 40)-0)
		if k > n {
			k = n
		}
		if k < 2 {
			out[0] = 1
			return out
		}
		ls := randomComplete(k, 15, rng, rng.Bool())
		perm := permN(n, rng)
		for i := 0; i < k; i++ {
			out[perm[i]] = uint32(ls[i])
		}
		if n > 256 && rng.Bool() && out[256] == 0 { // make sure the end code exists
			out[256], out[perm[0]] = out[perm[0]], 0
		}
	case 1: // complete, then damaged (over/under-subscribed)
		k := min(n, 2+rng.Intn(20))
		if k >= 2 {
			ls := randomComplete(k, 15, rng, false)
			perm := permN(n, rng)
			for i := 0; i < k; i++ {
				out[perm[i]] = uint32(ls[i])
			}
			j := perm[rng.Intn(k)]
			if rng.Bool() {
				out[j] = uint32(1 + rng.Intn(15))
			} else {
				out[j] = 0
			}
		}
	case 2: // degenerate single code
		out[rng.Intn(n)] = uint32(1 + rng.Intn(2))
	case 3: // all equal
		l := uint32(rng.Intn(10))
		for i := range out {
			out[i] = l
		}
	default: // arbitrary small lengths
		for i := range out {
			if rng.Chance(1, 3) {
				out[i] = uint32(rng.Intn(16))
			}
		}
	}
	return out
}

func permN(n int, rng *hlib.Rand) []int {
	p := make([]int, n)
	for i := range p {
		p[i] = i
	}
	for i := n - 1; i > 0; i-- {
		j := rng.Intn(i + 1)
		p[i], p[j] = p[j], p[i]
	}
	return p
}

func (x *runner) perFunction(rng *hlib.Rand, n int) {
	r := x.r
	for i := 0; i < n; i++ {
		ls := randLengths(rng)
		// construct
		if i%4 == 0 {
			out := hlib.Guard(func() string {
				h := flatecut.VerifConstruct(ls)
				if h.Err != nil {
					return "err " + errWord(h.Err)
				}
				k := 0
				for _, l := range ls {
					if l != 0 {
						k++
					}
				}
				sy := make([]string, k)
				for j := 0; j < k; j++ {
					sy[j] = fmt.Sprint(h.Symbols[j])
				}
				return fmt.Sprintf("ok %d %d %s [%s] %s", h.EndCodeBits, h.EndCodeNBits, natList(h.Counts[:]),
					strings.Join(sy, ","), natList(h.LookUpTable[:]))
			})
			r.Op("construct "+natList(ls), out)
			r.Count("op:construct")
			r.Count("construct:" + strings.SplitN(out, " ", 3)[0])
		}
		// decode / slowdecode from a consistent or an arbitrary cursor
		data := rng.Bytes(rng.Intn(24))
		if rng.Chance(1, 3) {
			for j := range data {
				data[j] = []byte{0x00, 0xFF, 0x55, 0xAA}[rng.Intn(4)]
			}
		}
		var in flatecut.VerifBits
		if rng.Chance(3, 4) {
			// consistent: nBits bits already loaded from the bytes before index
			in.Index = rng.Intn(len(data) + 1)
			maxB := min(in.Index, 7) * 8
			nb := 0
			if maxB > 0 {
				nb = rng.Intn(maxB + 1)
			}
			if nb > 63 {
				nb = 63
			}
			in.NBits = uint32(nb)
			var bitsv uint64
			pos := 8*in.Index - nb
			for k := 0; k < nb; k++ {
				p := pos + k
				bitsv |= uint64((data[p/8]>>(uint(p)%8))&1) << uint(k)
			}
			in.Bits = bitsv
		} else {
			in.Index = rng.Intn(len(data) + 2)
			in.NBits = uint32(rng.Intn(64))
			in.Bits = rng.Uint64()
			if in.NBits < 64 {
				in.Bits &= (uint64(1) << in.NBits) - 1
			}
		}
		for _, which := range []string{"slowdecode", "decode"} {
			out := hlib.Guard(func() string {
				var sym int32
				var o flatecut.VerifBits
				var err error
				if which == "decode" {
					sym, o, err = flatecut.VerifDecode(ls, data, in)
				} else {
					sym, o, err = flatecut.VerifSlowDecode(ls, data, in)
				}
				if err != nil {
					return "err " + errWord(err)
				}
				return fmt.Sprintf("%d %d %d %d", sym, o.Index, o.Bits, o.NBits)
			})
			r.Op(fmt.Sprintf("%s %s %s %d %d %d", which, natList(ls), hlib.Hex(data), in.Index, in.Bits, in.NBits), out)
			r.Count("op:" + which)
		}
		// take
		nb := uint32(rng.Intn(17))
		if rng.Chance(1, 10) {
			nb = uint32(rng.Intn(32))
		}
		if in.NBits <= 32 {
			out := hlib.Guard(func() string {
				ret, o := flatecut.VerifTake(data, in, nb)
				return fmt.Sprintf("%d %d %d %d", ret, o.Index, o.Bits, o.NBits)
			})
			r.Op(fmt.Sprintf("take %s %d %d %d %d", hlib.Hex(data), in.Index, in.Bits, in.NBits, nb), out)
			r.Count("op:take")
		}
	}
}

// ---- corpus

func (x *runner) corpus(rng *hlib.Rand) {
	dir := filepath.Join("corpus", "C16")
	ents, err := os.ReadDir(dir)
	if err != nil {
		return
	}
	var names []string
	for _, e := range ents {
		names = append(names, e.Name())
	}
	sort.Strings(names)
	for _, n := range names {
		b, err := os.ReadFile(filepath.Join(dir, n))
		if err != nil {
			continue
		}
		for _, line := range strings.Split(string(b), "\n") {
			f := strings.Fields(line)
			if len(f) == 0 || strings.HasPrefix(f[0], "#") {
				continue
			}
			switch {
			case f[0] == "flate" && len(f) == 2:
				enc := hlib.UnHex(f[1])
				p, err := flateDecode(enc, nil)
				if err != nil {
					x.r.Note("corpus " + n + ": stream does not decode, used as arbitrary bytes")
					for l := 0; l <= len(enc)+1; l++ {
						x.robust(enc, l, false, "corpus")
					}
					continue
				}
				sc := &streamCase{sig: "corpus|" + n, enc: enc, payload: p}
				x.runStream(sc, rng, 40)
			case f[0] == "flatel" && len(f) == 3: // flatel <limit,limit,...> <hex stream>: these limits only, with and without writer
				enc := hlib.UnHex(f[2])
				p, err := flateDecode(enc, nil)
				if err != nil {
					x.r.Note("corpus " + n + ": flatel stream does not decode, skipped")
					continue
				}
				sc := &streamCase{sig: "corpus|" + n, enc: enc, payload: p}
				x.r.Count("stream:corpus")
				for _, ls := range strings.Split(f[1], ",") {
					var l int
					if _, err := fmt.Sscan(ls, &l); err == nil {
						x.cutOnce(sc, l, false)
						x.cutOnce(sc, l, true)
					}
				}
			case f[0] == "zlib" && len(f) == 3:
				dict := hlib.UnHex(f[1])
				enc := hlib.UnHex(f[2])
				p, err := zlibDecode(enc, dict)
				if err != nil {
					for l := 0; l <= len(enc)+1; l++ {
						x.robust(enc, l, true, "corpus")
					}
					continue
				}
				sc := &streamCase{sig: "corpus|" + n, enc: enc, payload: p, dict: dict, zlib: true}
				x.runStream(sc, rng, 40)
			}
		}
	}
}

func main() {
	r := hlib.Start("C16")
	if r.IsGen() {
		txt, err := genTables(r.Repo)
		if err != nil {
			fatal(err)
		}
		r.WriteGen("C16_Tables.lean", txt)
		return
	}
	x := &runner{r: r, bitPosSeen: map[int]bool{}}
	rng := r.Rand

	nGo, nAsm, nZlib, nBig, nRobust, nFunc, nInfl := 40, 70, 30, 4, 1500, 700, 500
	n64k := 4
	bigLimits := 30
	nWin, nWinR, nWinSmall := 16, 5, 16
	if r.Thorough {
		nGo, nAsm, nZlib, nBig, nRobust, nFunc, nInfl = 250, 700, 200, 30, 40000, 12000, 8000
		n64k = 24
		bigLimits = 120
		nWin, nWinR, nWinSmall = 48, 10, 200
	}

	x.corpus(rng.Fork())

	// (1) compress/flate writer: payload classes × levels × flush patterns
	g := rng.Fork()
	for i := 0; i < nGo; i++ {
		class := classes[i%len(classes)]
		level := levels[(i/len(classes))%len(levels)]
		chunks := 1 + g.Intn(4)
		size := 1 + g.Intn(500)
		if class == "text" || class == "runs" || class == "periodic" || class == "lowentropy" {
			size = 1 + g.Intn(1800)
		}
		p := payload(g, class, size)
		enc := goFlate(p, level, chunks, nil, g)
		if len(enc) > 600 && !r.Thorough { // keep the all-limits sweep affordable
			p = p[:len(p)/3]
			enc = goFlate(p, level, chunks, nil, g)
		}
		sc := &streamCase{sig: fmt.Sprintf("go|%s|l%d|f%d", class, level, chunks), enc: enc, payload: p}
		x.runStream(sc, g, bigLimits)
	}

	// (2) hand-assembled streams
	g = rng.Fork()
	for i := 0; i < nAsm; i++ {
		class := classes[g.Intn(len(classes))]
		size := 1 + g.Intn(160)
		if class != "random" {
			size = 1 + g.Intn(700)
		}
		p := payload(g, class, size)
		sc := asmStream(p, g)
		if len(sc.enc) > 600 && !r.Thorough {
			p = p[:len(p)/4]
			sc = asmStream(p, g)
		}
		x.runStream(sc, g, bigLimits)
	}

	// (3) zlib, with and without preset dictionaries
	g = rng.Fork()
	for i := 0; i < nZlib; i++ {
		class := classes[g.Intn(len(classes))]
		p := payload(g, class, 1+g.Intn(600))
		var dict []byte
		if i%2 == 1 {
			dict = payload(g, "text", 20+g.Intn(200))
			if g.Bool() && len(p) > 10 {
				// make the payload actually use the dictionary
				copy(p, dict[:min(len(dict), len(p)/2)])
			}
		}
		level := levels[g.Intn(len(levels))]
		enc := goZlib(p, level, 1+g.Intn(3), dict, g)
		if len(enc) > 600 && !r.Thorough {
			p = p[:len(p)/3]
			enc = goZlib(p, level, 1+g.Intn(3), dict, g)
		}
		ds := "nodict"
		if dict != nil {
			ds = "dict"
		}
		sc := &streamCase{sig: fmt.Sprintf("zlib|%s|l%d|%s", class, level, ds), enc: enc, payload: p, dict: dict, zlib: true}
		x.runStream(sc, g, bigLimits)
		if i%3 == 0 {
			x.zinflateOp(enc, dict)
		}
	}

	// (4) larger streams (several blocks, > window), limits at sampled positions
	g = rng.Fork()
	for i := 0; i < nBig; i++ {
		class := []string{"text", "runs", "lowentropy", "random", "periodic"}[i%5]
		size := 3000 + g.Intn(20000)
		if i%4 == 3 {
			size = 66000 + g.Intn(30000) // more than one stored block / more than the window
		}
		p := payload(g, class, size)
		var sc *streamCase
		switch i % 3 {
		case 0:
			level := levels[g.Intn(len(levels))]
			sc = &streamCase{sig: fmt.Sprintf("big-go|%s|l%d", class, level), enc: goFlate(p, level, 1+g.Intn(4), nil, g), payload: p}
		case 1:
			sc = asmStream(p, g)
			sc.sig = "big-" + sc.sig
		default:
			level := levels[g.Intn(len(levels))]
			sc = &streamCase{sig: fmt.Sprintf("big-zlib|%s|l%d", class, level), enc: goZlib(p, level, 1+g.Intn(4), nil, g), payload: p, zlib: true}
		}
		x.runStream(sc, g, bigLimits)
	}

	// (4b) the 64 KiB boundary of cutSingleBlock: a first Huffman block that expands its input, more than
	// 65535 payload bytes, limits around 0xFFFF+5 (so that the fallback stored block is capped at 0xFFFF)
	g = rng.Fork()
	for i := 0; i < n64k; i++ {
		size := 65536 + 200 + g.Intn(3000)
		p := payload(g, []string{"random", "lowentropy"}[i%2], size)
		if i%2 == 1 { // lowentropy expands under the fixed code when sent as literals only
			for j := range p {
				p[j] |= 0x90 // 9-bit literals of the fixed code
			}
		}
		var sc *streamCase
		switch i % 4 {
		case 0:
			sc = &streamCase{sig: "fallback64k|go|l-2", enc: goFlate(p, -2, 1, nil, g), payload: p}
		case 1:
			a := newAsm(g)
			a.fixed(true, tokenizeFrom(p, 0, g, 0))
			sc = &streamCase{sig: "fallback64k|asm|F", enc: a.finish(), payload: p, blocks: a.blocks}
		case 2:
			sc = &streamCase{sig: "fallback64k|zlib|l-2", enc: goZlib(p, -2, 1, nil, g), payload: p, zlib: true}
		default:
			a := newAsm(g)
			k := 40000 + g.Intn(20000)
			a.fixed(false, tokenizeFrom(p[:k], 0, g, 0))
			a.fixed(true, tokenizeFrom(p, k, g, 0))
			sc = &streamCase{sig: "fallback64k|asm|FF", enc: a.finish(), payload: p, blocks: a.blocks}
		}
		x.r.Count("stream:fallback64k")
		extra := 0
		if sc.zlib {
			extra = 6
		}
		ls := []int{0xFFFF + 3, 0xFFFF + 4, 0xFFFF + 5, 0xFFFF + 6, 0xFFFF + 7, 0xFFFF + 5 + 1 + g.Intn(150), len(sc.enc) - 1 - g.Intn(40), len(sc.enc)}
		for _, l := range ls {
			x.cutOnce(sc, l+extra, false)
		}
		if !sc.zlib {
			x.cutOnce(sc, 0xFFFF+6, true)
		}
	}

	// (5) the spec decoder against compress/flate: valid, truncated, corrupted, capped, with dictionary
	g = rng.Fork()
	for i := 0; i < nInfl; i++ {
		class := classes[g.Intn(len(classes))]
		p := payload(g, class, 1+g.Intn(400))
		var dict []byte
		if g.Chance(1, 5) {
			dict = payload(g, "text", 10+g.Intn(100))
		}
		var enc []byte
		if g.Bool() && dict == nil {
			enc = asmStream(p, g).enc
		} else {
			enc = goFlate(p, levels[g.Intn(len(levels))], 1+g.Intn(3), dict, g)
		}
		switch g.Intn(4) {
		case 0:
		case 1:
			enc = enc[:g.Intn(len(enc)+1)]
		default:
			enc = mutate(enc, g)
		}
		cap := -1
		if g.Chance(1, 4) {
			cap = g.Intn(len(p) + 3)
		}
		x.inflateOp(enc, dict, cap)
	}

	// (6) robustness: arbitrary bytes and damaged streams
	g = rng.Fork()
	for i := 0; i < nRobust; i++ {
		var b []byte
		sig := ""
		zl := g.Chance(1, 4)
		switch g.Intn(5) {
		case 0:
			b = g.Bytes(g.Intn(40))
			sig = "random"
			if zl && len(b) >= 2 { // a valid zlib header in front, otherwise nearly everything is "bad header"
				b[0] = 0x78
				b[1] = []byte{0x01, 0x9c, 0xda, 0x5e, 0xbb, 0x20 | 0x1d}[g.Intn(6)]
				if (uint(b[0])<<8|uint(b[1]))%31 != 0 {
					b[1] = 0x9c
				}
			}
		case 1: // random bytes behind a plausible block header
			b = g.Bytes(2 + g.Intn(60))
			b[0] = (b[0] &^ 7) | byte(g.Intn(8))
			sig = "header+random"
			zl = false
		default:
			p := payload(g, classes[g.Intn(len(classes))], 1+g.Intn(200))
			var enc []byte
			switch {
			case zl:
				enc = goZlib(p, levels[g.Intn(len(levels))], 1+g.Intn(3), nil, g)
			case g.Bool():
				enc = asmStream(p, g).enc
			default:
				enc = goFlate(p, levels[g.Intn(len(levels))], 1+g.Intn(3), nil, g)
			}
			b = mutate(enc, g)
			if g.Chance(1, 3) {
				b = mutate(b, g)
			}
			sig = "damaged"
		}
		limit := g.Intn(len(b) + 4)
		if g.Chance(1, 20) {
			limit = -1 - g.Intn(3)
		}
		if g.Chance(1, 40) {
			limit = 1<<30 + g.Intn(5)
		}
		x.robust(b, limit, zl, sig)
	}

	// (7) per-function correspondence through the verif hooks
	x.perFunction(rng.Fork(), nFunc)

	// adler32 of the spec vs hash/adler32
	g = rng.Fork()
	for i := 0; i < 40; i++ {
		b := g.Bytes(g.Intn(7000))
		if i%5 == 0 {
			for j := range b {
				b[j] = 0xFF
			}
		}
		r.Op("adler "+hlib.Hex(b), fmt.Sprint(adler32.Checksum(b)))
	}

	// (8) first Huffman blocks of more than 32 KiB that do not compress: cutSingleBlock with n > 32768,
	// compress/flate's window flushes, decode destination vs encoded source (window.go)
	x.windowGroup(rng.Fork(), nWin, nWinR)
	x.windowSmall(rng.Fork(), nWinSmall, bigLimits)

	r.Extra("oracle_cases", x.oracleN+x.robustN)
	r.Extra("valid_stream_cuts_ok", x.validCuts)
	r.Extra("valid_stream_cuts_err", x.validErrs)
	r.Finish("valid DEFLATE/zlib streams (compress/flate levels -2,0,1,6,9 x flush patterns; hand-assembled stored/fixed/dynamic blocks with random complete codes, empty blocks, one-code trees, 15-bit codes; zlib with/without FDICT) x every limit -1..len+2 for streams <= 600 bytes (sampled limits for larger); damaged/arbitrary bytes; per-function construct/slowDecode/decode/take cases. Non-trivial = a successful cut to a proper non-empty prefix; distinct by (stream class, eLen, dLen).")
}
