package main

// A small DEFLATE *assembler* (RFC 1951), independent of compress/flate's
// writer and of the code under test: it lets the generators place exactly the
// block structures the cutter branches on (empty Huffman blocks, 15-bit codes,
// one-code distance trees, stored blocks of length 0, random padding bits,
// repeat codes crossing the HLIT/HDIST boundary, …).

import (
	"sort"

	"wvh/hlib"
)

type bitWriter struct {
	buf []byte
	acc uint64
	n   uint
	rng *hlib.Rand // padding bits
}

func (w *bitWriter) bits(v uint32, n uint) { // data element, LSB first
	w.acc |= uint64(v&((1<<n)-1)) << w.n
	w.n += n
	for w.n >= 8 {
		w.buf = append(w.buf, byte(w.acc))
		w.acc >>= 8
		w.n -= 8
	}
}

func (w *bitWriter) code(c uint32, n uint) { // Huffman code, MSB first
	for i := int(n) - 1; i >= 0; i-- {
		w.bits((c>>uint(i))&1, 1)
	}
}

// align pads to a byte boundary; the padding bits are random when randomPad.
func (w *bitWriter) align(randomPad bool) {
	if w.n == 0 {
		return
	}
	pad := 8 - w.n
	v := uint32(0)
	if randomPad {
		v = uint32(w.rng.Intn(1 << pad))
	}
	w.bits(v, pad)
}

func (w *bitWriter) bitLen() int { return 8*len(w.buf) + int(w.n) }

type tok struct {
	lit    bool
	b      byte
	length int
	dist   int
}

var (
	aLenBase  = []int{3, 4, 5, 6, 7, 8, 9, 10, 11, 13, 15, 17, 19, 23, 27, 31, 35, 43, 51, 59, 67, 83, 99, 115, 131, 163, 195, 227, 258}
	aLenExtra = []uint{0, 0, 0, 0, 0, 0, 0, 0, 1, 1, 1, 1, 2, 2, 2, 2, 3, 3, 3, 3, 4, 4, 4, 4, 5, 5, 5, 5, 0}
	aDistBase = []int{1, 2, 3, 4, 5, 7, 9, 13, 17, 25, 33, 49, 65, 97, 129, 193, 257, 385, 513, 769, 1025, 1537, 2049, 3073,
		4097, 6145, 8193, 12289, 16385, 24577}
	aDistExtra = []uint{0, 0, 0, 0, 1, 1, 2, 2, 3, 3, 4, 4, 5, 5, 6, 6, 7, 7, 8, 8, 9, 9, 10, 10, 11, 11, 12, 12, 13, 13}
	aCodeOrder = []int{16, 17, 18, 0, 8, 7, 9, 6, 10, 5, 11, 4, 12, 3, 13, 2, 14, 1, 15}
)

func lenSym(l int, rng *hlib.Rand) (sym int, extra uint32, nb uint) {
	if l == 258 {
		// 258 can be coded as symbol 285 or as 284 + 31 extra; use both
		if rng != nil && rng.Chance(1, 8) {
			return 284, 31, 5
		}
		return 285, 0, 0
	}
	for i := len(aLenBase) - 2; i >= 0; i-- {
		if l >= aLenBase[i] {
			return 257 + i, uint32(l - aLenBase[i]), aLenExtra[i]
		}
	}
	panic("bad length")
}

func distSym(d int) (sym int, extra uint32, nb uint) {
	for i := len(aDistBase) - 1; i >= 0; i-- {
		if d >= aDistBase[i] {
			return i, uint32(d - aDistBase[i]), aDistExtra[i]
		}
	}
	panic("bad distance")
}

// canonical codes from lengths (RFC 1951 §3.2.2)
func canon(lengths []int) []uint32 {
	var blCount [16]int
	for _, l := range lengths {
		blCount[l]++
	}
	blCount[0] = 0
	var next [16]uint32
	code := uint32(0)
	for b := 1; b <= 15; b++ {
		code = (code + uint32(blCount[b-1])) << 1
		next[b] = code
	}
	codes := make([]uint32, len(lengths))
	for i, l := range lengths {
		if l != 0 {
			codes[i] = next[l]
			next[l]++
		}
	}
	return codes
}

// randomComplete returns k code lengths (each in 1..maxLen) with Kraft sum exactly 1 (k >= 2),
// built by repeatedly splitting a random leaf; `deep` biases towards long codes.
func randomComplete(k, maxLen int, rng *hlib.Rand, deep bool) []int {
	leaves := []int{1, 1}
	for len(leaves) < k {
		var cand []int
		for i, l := range leaves {
			if l < maxLen {
				cand = append(cand, i)
			}
		}
		if len(cand) == 0 {
			panic("cannot build code")
		}
		var i int
		if deep {
			// split the deepest splittable leaf most of the time
			best := cand[0]
			for _, c := range cand {
				if leaves[c] > leaves[best] {
					best = c
				}
			}
			i = best
			if rng.Chance(1, 4) {
				i = cand[rng.Intn(len(cand))]
			}
		} else {
			// prefer shallow leaves so that the tree stays balanced-ish
			best := cand[0]
			for _, c := range cand {
				if leaves[c] < leaves[best] {
					best = c
				}
			}
			i = best
			if rng.Chance(1, 3) {
				i = cand[rng.Intn(len(cand))]
			}
		}
		l := leaves[i] + 1
		leaves[i] = l
		leaves = append(leaves, l)
	}
	// must be feasible: k leaves need depth >= log2 k; guaranteed by callers (k <= 2^maxLen)
	for i := len(leaves) - 1; i > 0; i-- {
		j := rng.Intn(i + 1)
		leaves[i], leaves[j] = leaves[j], leaves[i]
	}
	return leaves
}

// tokenize: greedy LZ77 with a bounded brute-force search; style varies the match policy.
func tokenize(p []byte, rng *hlib.Rand, style int) []tok {
	var out []tok
	i := 0
	for i < len(p) {
		bestL, bestD := 0, 0
		if style != 0 && i > 0 {
			lo := i - 32768
			if lo < 0 {
				lo = 0
			}
			tries := 0
			for j := i - 1; j >= lo && tries < 400; j-- {
				tries++
				if p[j] != p[i] {
					continue
				}
				l := 0
				for i+l < len(p) && l < 258 && p[j+l] == p[i+l] {
					l++
				}
				if l > bestL || (l == bestL && style == 3 && rng.Bool()) {
					bestL, bestD = l, i-j
					if l == 258 {
						break
					}
				}
			}
		}
		if bestL >= 3 && !(style == 2 && rng.Chance(1, 3)) {
			if style == 2 && bestL > 3 && rng.Bool() {
				bestL = 3 + rng.Intn(bestL-2) // shorter than possible
			}
			out = append(out, tok{length: bestL, dist: bestD})
			i += bestL
		} else {
			out = append(out, tok{lit: true, b: p[i]})
			i++
		}
	}
	return out
}

func tokensLen(ts []tok) int {
	n := 0
	for _, t := range ts {
		if t.lit {
			n++
		} else {
			n += t.length
		}
	}
	return n
}

type blockInfo struct {
	kind     string // stored|fixed|dynamic
	startBit int
	endBit   int
}

type asm struct {
	w      bitWriter
	blocks []blockInfo
	rng    *hlib.Rand
	flags  map[string]bool
	trace  *tokTrace // when set, emitTokens records where every token ends
}

// tokTrace: for the Huffman block(s) emitted while it is attached, the bit position just after
// each token and the number of bytes decoded up to there (used to aim limits, see window.go).
type tokTrace struct {
	endBit []int
	dec    []int
	n      int // decoded so far
	eobN   int // length of the end-of-block code of the last block emitted
}

func newAsm(rng *hlib.Rand) *asm {
	return &asm{w: bitWriter{rng: rng}, rng: rng, flags: map[string]bool{}}
}

func (a *asm) stored(final bool, data []byte) {
	st := a.w.bitLen()
	f := uint32(0)
	if final {
		f = 1
	}
	a.w.bits(f, 1)
	a.w.bits(0, 2)
	a.w.align(a.rng.Chance(1, 2))
	n := len(data)
	a.w.bits(uint32(n), 16)
	a.w.bits(uint32(^n)&0xFFFF, 16)
	for _, b := range data {
		a.w.bits(uint32(b), 8)
	}
	a.blocks = append(a.blocks, blockInfo{"stored", st, a.w.bitLen()})
	if n == 0 {
		a.flags["empty-stored"] = true
	}
}

func fixedLengths() (lit, dist []int) {
	lit = make([]int, 288)
	for i := range lit {
		switch {
		case i < 144:
			lit[i] = 8
		case i < 256:
			lit[i] = 9
		case i < 280:
			lit[i] = 7
		default:
			lit[i] = 8
		}
	}
	dist = make([]int, 32)
	for i := range dist {
		dist[i] = 5
	}
	return
}

func (a *asm) emitTokens(ts []tok, ll, dl []int) {
	lc, dc := canon(ll), canon(dl)
	tr := a.trace
	for _, t := range ts {
		if t.lit {
			a.w.code(lc[t.b], uint(ll[t.b]))
			if tr != nil {
				tr.n++
				tr.endBit = append(tr.endBit, a.w.bitLen())
				tr.dec = append(tr.dec, tr.n)
			}
			continue
		}
		s, e, nb := lenSym(t.length, a.rng)
		a.w.code(lc[s], uint(ll[s]))
		a.w.bits(e, nb)
		d, de, dnb := distSym(t.dist)
		a.w.code(dc[d], uint(dl[d]))
		a.w.bits(de, dnb)
		if tr != nil {
			tr.n += t.length
			tr.endBit = append(tr.endBit, a.w.bitLen())
			tr.dec = append(tr.dec, tr.n)
		}
	}
	if tr != nil {
		tr.eobN = ll[256]
	}
	a.w.code(lc[256], uint(ll[256]))
}

func (a *asm) fixed(final bool, ts []tok) {
	st := a.w.bitLen()
	f := uint32(0)
	if final {
		f = 1
	}
	a.w.bits(f, 1)
	a.w.bits(1, 2)
	ll, dl := fixedLengths()
	// lenSym may choose 284+31; with the fixed code both exist
	a.emitTokens(ts, ll, dl)
	a.blocks = append(a.blocks, blockInfo{"fixed", st, a.w.bitLen()})
	if len(ts) == 0 {
		a.flags["empty-fixed"] = true
	}
}

// dynamic emits a dynamic-Huffman block with *random complete* codes over the used symbols.
// distMode when no distance code is used: 0 = one code of length 1 (degenerate), 1 = two codes of
// length 1, 2 = all lengths zero (valid per RFC; compress/flate accepts; flatecut rejects).
func (a *asm) dynamic(final bool, ts []tok, deep bool, distMode int) {
	rng := a.rng
	st := a.w.bitLen()
	usedL := map[int]bool{256: true}
	usedD := map[int]bool{}
	// choose symbols first (lenSym is randomised for 258) so that code and use agree
	for _, t := range ts {
		if t.lit {
			usedL[int(t.b)] = true
		} else {
			if t.length == 258 {
				usedL[284] = true
				usedL[285] = true
			} else {
				s, _, _ := lenSym(t.length, nil)
				usedL[s] = true
			}
			d, _, _ := distSym(t.dist)
			usedD[d] = true
		}
	}
	// sometimes give codes to unused symbols too
	for i := rng.Intn(4); i > 0; i-- {
		usedL[rng.Intn(286)] = true
	}
	if len(usedD) > 0 && rng.Chance(1, 3) {
		usedD[rng.Intn(30)] = true
	}
	mk := func(used map[int]bool, n int, maxLen int) []int {
		keys := make([]int, 0, len(used))
		for k := range used {
			keys = append(keys, k)
		}
		sort.Ints(keys)
		out := make([]int, n)
		if len(keys) == 1 {
			out[keys[0]] = 1 // degenerate one-code tree
			return out
		}
		ls := randomComplete(len(keys), maxLen, rng, deep)
		for i, k := range keys {
			out[k] = ls[i]
		}
		return out
	}
	if len(usedL) == 1 && rng.Chance(2, 3) {
		usedL[rng.Intn(256)] = true
	}
	if len(usedL) == 1 {
		a.flags["one-code-lit-tree"] = true
	}
	ll := mk(usedL, 286, 15)
	var dl []int
	if len(usedD) == 0 {
		dl = make([]int, 30)
		switch distMode {
		case 0:
			dl[rng.Intn(30)] = 1
			a.flags["one-code-dist-tree"] = true
		case 1:
			i := rng.Intn(29)
			dl[i], dl[i+1] = 1, 1
		default:
			a.flags["zero-dist-tree"] = true
		}
	} else {
		if len(usedD) == 1 {
			a.flags["one-code-dist-tree"] = true
		}
		dl = mk(usedD, 30, 15)
	}
	a.dynamicLL(final, ts, ll, dl, st, deep)
}

// dynamicLL emits a dynamic-Huffman block for tokens ts with the given code lengths (ll: 286
// literal/length lengths, dl: 30 distance lengths; every symbol used by ts and 256 must have a code).
func (a *asm) dynamicLL(final bool, ts []tok, ll, dl []int, st int, deep bool) {
	rng := a.rng
	mk := func(used map[int]bool, n int, maxLen int) []int {
		keys := make([]int, 0, len(used))
		for k := range used {
			keys = append(keys, k)
		}
		sort.Ints(keys)
		out := make([]int, n)
		if len(keys) == 1 {
			out[keys[0]] = 1 // degenerate one-code tree
			return out
		}
		ls := randomComplete(len(keys), maxLen, rng, deep)
		for i, k := range keys {
			out[k] = ls[i]
		}
		return out
	}
	for _, l := range ll {
		if l == 15 {
			a.flags["15-bit-code"] = true
		}
	}
	nlit := 286
	for nlit > 257 && ll[nlit-1] == 0 {
		nlit--
	}
	if rng.Chance(1, 4) {
		nlit += rng.Intn(286 - nlit + 1) // keep trailing zero lengths explicitly
	}
	ndist := 30
	for ndist > 1 && dl[ndist-1] == 0 {
		ndist--
	}
	if rng.Chance(1, 4) {
		ndist += rng.Intn(30 - ndist + 1)
	}
	seq := append(append([]int{}, ll[:nlit]...), dl[:ndist]...)
	// run-length code the sequence
	type cls struct {
		sym   int
		extra uint32
		nb    uint
	}
	var cl []cls
	useRep := !rng.Chance(1, 5)
	for i := 0; i < len(seq); {
		v := seq[i]
		run := 1
		for i+run < len(seq) && seq[i+run] == v {
			run++
		}
		if useRep && v == 0 && run >= 3 {
			r := run
			if r > 138 {
				r = 138
			}
			if rng.Chance(1, 4) {
				r = 3 + rng.Intn(r-2)
			}
			if r >= 11 {
				cl = append(cl, cls{18, uint32(r - 11), 7})
			} else {
				cl = append(cl, cls{17, uint32(r - 3), 3})
			}
			i += r
			continue
		}
		if useRep && v != 0 && run >= 4 {
			cl = append(cl, cls{v, 0, 0})
			r := run - 1
			if r > 6 {
				r = 6
			}
			if rng.Chance(1, 4) {
				r = 3 + rng.Intn(r-2)
			}
			cl = append(cl, cls{16, uint32(r - 3), 2})
			i += 1 + r
			continue
		}
		cl = append(cl, cls{v, 0, 0})
		i++
	}
	usedC := map[int]bool{}
	for _, c := range cl {
		usedC[c.sym] = true
	}
	for len(usedC) < 2 {
		usedC[rng.Intn(19)] = true
	}
	cll := mk(usedC, 19, 7)
	ncl := 19
	for ncl > 4 && cll[aCodeOrder[ncl-1]] == 0 {
		ncl--
	}
	f := uint32(0)
	if final {
		f = 1
	}
	a.w.bits(f, 1)
	a.w.bits(2, 2)
	a.w.bits(uint32(nlit-257), 5)
	a.w.bits(uint32(ndist-1), 5)
	a.w.bits(uint32(ncl-4), 4)
	for i := 0; i < ncl; i++ {
		a.w.bits(uint32(cll[aCodeOrder[i]]), 3)
	}
	cc := canon(cll)
	for _, c := range cl {
		a.w.code(cc[c.sym], uint(cll[c.sym]))
		a.w.bits(c.extra, c.nb)
	}
	full := make([]int, 288)
	copy(full, ll)
	fd := make([]int, 32)
	copy(fd, dl)
	a.emitTokens(ts, full, fd)
	a.blocks = append(a.blocks, blockInfo{"dynamic", st, a.w.bitLen()})
	if len(ts) == 0 {
		a.flags["empty-dynamic"] = true
	}
}

func (a *asm) finish() []byte {
	a.w.align(a.rng.Chance(1, 2))
	return a.w.buf
}
