package main

// Generator group "window": everything that drives cutSingleBlock with more than 32768 bytes to
// re-encode, and the neighbouring behaviour that depends on compress/flate's 32 KiB window.
//
// cutSingleBlock is reached with n = min(maxEncodedLen-5, 0xFFFF) > 32768 only when the FIRST block
// is a Huffman block that, at the limit, has decoded fewer bytes than the limit allows a Stored
// block to hold - i.e. a first block of more than 32 KiB that does not compress. compress/flate
// (the inflater inside cutSingleBlock and inside Cut(w != nil)) hands out data only when its
// 32 KiB window fills, so anything that goes wrong between "decoded so far" and "consumed so far"
// (aliasing of the decode destination with the encoded source, partial reads, a second window
// flush, the 0xFFFF cap) shows only for such streams, and only when the first 32 KiB of output
// come from FEWER encoded bytes than they occupy once stored (a start that compresses or breaks
// even, followed by a part that expands). The encoders of compress/flate never produce such
// blocks (they fall back to Stored), hence the hand assembler.
//
// Shapes (first block, 33..75 KiB decoded): fixed-Huffman literals 8-bit-then-9-bit (with a few
// 9-bit literals sprinkled into the first 32 KiB: the break-even threshold), fixed-Huffman with
// matches first (incl. matches across the 32768 / 65536 output positions and the maximum distance),
// dynamic-Huffman with short-code symbols first and long-code (up to 15 bits) symbols after,
// alternating phases, the reverse order (expands first), a uniformly expanding one > 64 KiB; as a
// final block, followed by further blocks, followed by trailing bytes, wrapped as zlib without and
// with FDICT. Limits: around 32773 (n = 32768), a sample of the limits for which the replace-by-
// one-Stored-block path is taken (computed from the token trace), its two ends, limits outside it,
// around 0xFFFF+5, the end of the first block and the end of the stream.

import (
	"fmt"
	"hash/adler32"
	"sort"

	"wvh/hlib"
)

func bytesIn(rng *hlib.Rand, n, lo, hi int) []byte {
	b := make([]byte, n)
	for i := range b {
		b[i] = byte(lo + rng.Intn(hi-lo))
	}
	return b
}

func tokBits(t tok, ll, dl []int) int {
	if t.lit {
		return ll[t.b]
	}
	s, _, nb := lenSym(t.length, nil)
	d, _, dnb := distSym(t.dist)
	return ll[s] + int(nb) + dl[d] + int(dnb)
}

// winBuilder accumulates tokens and the payload they decode to, and the bits they cost under (ll, dl).
type winBuilder struct {
	ll, dl []int
	toks   []tok
	p      []byte
	bits   int
}

func (b *winBuilder) lit(c byte) {
	t := tok{lit: true, b: c}
	b.toks = append(b.toks, t)
	b.p = append(b.p, c)
	b.bits += tokBits(t, b.ll, b.dl)
}

func (b *winBuilder) match(l, d int) {
	if d > len(b.p) || d > 32768 || l < 3 || l > 258 {
		panic("winBuilder.match")
	}
	t := tok{length: l, dist: d}
	b.toks = append(b.toks, t)
	for i := 0; i < l; i++ {
		b.p = append(b.p, b.p[len(b.p)-d])
	}
	b.bits += tokBits(t, b.ll, b.dl)
}

// deficit: how many more bits the tokens must cost before a Stored block of the same data (5 byte
// header) is no longer than the Huffman block so far (plus a small margin for the end code).
func (b *winBuilder) deficit() int { return 8*(len(b.p)+5) + 24 - b.bits }

type winStream struct {
	sc    *streamCase
	tr    *tokTrace
	off   int // flate data starts here (0; 2 or 6 for zlib)
	extra int // limit = flate limit + extra (0; off+4 for zlib)
	end1  int // byte just after the first block (flate coordinates)
	shape string
}

func zlibWrap(deflate, payload, dict []byte, rng *hlib.Rand) []byte {
	cmf := byte(0x78)
	flg := byte(rng.Intn(4)) << 6
	if dict != nil {
		flg |= 0x20
	}
	flg += byte(31 - (uint(cmf)<<8|uint(flg))%31)
	if (uint(cmf)<<8|uint(flg))%31 != 0 {
		flg -= 31
	}
	out := []byte{cmf, flg}
	if dict != nil {
		d := adler32.Checksum(dict)
		out = append(out, byte(d>>24), byte(d>>16), byte(d>>8), byte(d))
	}
	out = append(out, deflate...)
	s := adler32.Checksum(payload)
	return append(out, byte(s>>24), byte(s>>16), byte(s>>8), byte(s))
}

// shortLongCode: a random complete literal/length code over the symbols 0..256, and the literals
// with codes of at most 8 bits / of at least 9 bits.
func shortLongCode(rng *hlib.Rand, deep bool) (ll []int, short, long []int) {
	for {
		ls := randomComplete(257, 15, rng, deep)
		ll = make([]int, 286)
		copy(ll, ls)
		short, long = nil, nil
		lo := 1
		if deep {
			lo = 5 // keep the start from compressing too well (the rest has to make up for it)
		}
		for s := 0; s < 256; s++ {
			if ll[s] >= lo && ll[s] <= 8 {
				short = append(short, s)
			} else if ll[s] >= 9 {
				long = append(long, s)
			}
		}
		if len(short) > 0 && len(long) > 0 {
			return
		}
		deep = !deep
	}
}

// windowStream builds one stream of the group; scale 1 = the real sizes (first 32 KiB and more),
// scale < 1 shrinks every size (the same shapes at a few KiB, for the all-limits style sweep).
func windowStream(g *hlib.Rand, shape int, big bool, scale float64) *winStream {
	sz := func(n int) int {
		m := int(float64(n) * scale)
		if m < 1 {
			m = 1
		}
		return m
	}
	W := sz(32768)
	a := newAsm(g)
	tr := &tokTrace{}
	a.trace = tr
	name := ""
	dynamic := false
	fl, fd := fixedLengths()
	b := &winBuilder{ll: fl, dl: fd}
	var dynLL []int
	deep := false
	sizeA := W + []int{g.Intn(64), sz(200 + g.Intn(3000)), sz(3000 + g.Intn(8000))}[g.Intn(3)]
	cap := sz(74000)
	tail := sz(200 + g.Intn(6000))
	if big {
		tail = sz(26000 + g.Intn(8000))
		cap = sz(80000)
	}
	// the expanding part: long-code literals until the block no longer beats a Stored block, then `tail` more
	expand := func(long func() byte) {
		for b.deficit() > 0 && len(b.p) < cap {
			b.lit(long())
		}
		for i := 0; i < tail && len(b.p) < cap+sz(2000); i++ {
			b.lit(long())
		}
	}
	nine := func() byte { return byte(144 + g.Intn(112)) }
	eight := func() byte { return byte(g.Intn(144)) }
	switch shape {
	case 0, 3, 4: // fixed code: 8-bit literals, a few 9-bit ones among the first W, then 9-bit literals
		name = "fixed-8then9"
		// k9 nine-bit literals among the first W: the inflater has then consumed 32769 + (k9+2)/8 bytes when
		// its window is full; a Stored block holding those W bytes ends at byte 32773 (k9 >= 30: no overlap)
		k9 := []int{0, 0, 0, 3, 6, 13, 14, 21, 22, 29, 30, 31, 45}[g.Intn(13)]
		pos := map[int]bool{}
		for len(pos) < k9 {
			pos[g.Intn(W)] = true
		}
		for i := 0; i < sizeA; i++ {
			if pos[i] {
				b.lit(nine())
			} else {
				b.lit(eight())
			}
		}
		expand(nine)
	case 1, 5: // dynamic code: short-code literals, then long-code literals
		name = "dynamic-short-then-long"
		dynamic = true
		deep = g.Bool()
		var short, long []int
		dynLL, short, long = shortLongCode(g, deep)
		dl := make([]int, 30)
		b = &winBuilder{ll: dynLL, dl: dl}
		// prefer the longest of the long codes when much has to be made up
		sort.Slice(long, func(i, j int) bool { return dynLL[long[i]] > dynLL[long[j]] })
		for i := 0; i < sizeA; i++ {
			b.lit(byte(short[g.Intn(len(short))]))
		}
		top := 1 + g.Intn(len(long))
		expand(func() byte { return byte(long[g.Intn(top)]) })
	case 2, 6: // fixed code: a start with matches (compresses), then 9-bit literals
		name = "fixed-matches-then-9"
		every := 2500 + g.Intn(3000)
		if shape == 6 {
			name = "fixed-alternating"
		}
		crossed := false
		for len(b.p) < sizeA {
			n := len(b.p)
			switch {
			case !crossed && n >= W-130 && n >= 300: // a match across output position W (window flush)
				d := 1 + g.Intn(min(n, 32768))
				if g.Chance(1, 3) {
					d = min(n, 32768) // maximum distance
				}
				b.match(258, d)
				crossed = true
			case n > 300 && g.Intn(every) == 0:
				b.match(3+g.Intn(256), 1+g.Intn(min(n, 32768)))
			default:
				b.lit(eight())
			}
		}
		expand(nine)
		if shape == 6 { // second round: break-even is crossed several times
			for i, m := 0, sz(1500+g.Intn(1500)); i < m && len(b.p) > 300; i++ {
				if g.Intn(400) == 0 {
					b.match(3+g.Intn(256), 1+g.Intn(min(len(b.p), 32768)))
				} else {
					b.lit(eight())
				}
			}
			expand(nine)
		}
	default: // 7: expands from the start (never the aliasing shape; the 0xFFFF cap and the second window)
		name = "fixed-9then8"
		for i, m := 0, sz(3000+g.Intn(6000)); i < m; i++ {
			b.lit(nine())
		}
		for i := 0; i < sizeA; i++ {
			if g.Intn(3) == 0 {
				b.lit(nine())
			} else {
				b.lit(eight())
			}
		}
		for i := 0; i < tail; i++ {
			b.lit(eight())
		}
	}
	// the first block; then possibly more blocks, trailing bytes, a zlib wrapper
	more := shape == 3 || (shape >= 4 && g.Chance(1, 3))
	emit := func(final bool) {
		if dynamic {
			dl := make([]int, 30)
			if g.Bool() {
				dl[g.Intn(30)] = 1
			} else {
				i := g.Intn(29)
				dl[i], dl[i+1] = 1, 1
			}
			a.dynamicLL(final, b.toks, dynLL, dl, a.w.bitLen(), deep)
		} else {
			a.fixed(final, b.toks)
		}
	}
	emit(!more)
	a.trace = nil
	end1 := (a.w.bitLen() + 7) / 8
	p := b.p
	if more {
		name += "+blocks"
		nb := 1 + g.Intn(2)
		for i := 0; i < nb; i++ {
			part := payload(g, []string{"text", "random", "runs"}[g.Intn(3)], 1+g.Intn(400))
			done := len(p)
			p = append(p, part...)
			final := i == nb-1
			switch g.Intn(3) {
			case 0:
				a.stored(final, part)
			case 1:
				a.fixed(final, tokenizeFrom(p, done, g, 1))
			default:
				a.dynamic(final, tokenizeFrom(p, done, g, 1), false, 0)
			}
		}
	}
	enc := a.finish()
	if g.Chance(1, 5) {
		enc = append(enc, g.Bytes(1+g.Intn(4))...)
		name += "+trailing"
	}
	ws := &winStream{tr: tr, end1: end1, shape: name}
	sc := &streamCase{enc: enc, payload: p, blocks: a.blocks}
	switch shape {
	case 4, 5:
		sc.enc = zlibWrap(enc, p, nil, g)
		sc.zlib = true
		ws.off, ws.extra = 2, 6
		name = "zlib|" + name
		sc.blocks = nil
	case 6:
		if g.Bool() {
			sc.dict = payload(g, "text", 20+g.Intn(200))
			sc.enc = zlibWrap(enc, p, sc.dict, g)
			sc.zlib = true
			ws.off, ws.extra = 6, 10
			name = "zlib-fdict|" + name
			sc.blocks = nil
		}
	}
	sc.sig = "window|" + name
	ws.sc = sc
	ws.shape = name
	return ws
}

// decodedAt: bytes decoded at doHuffman's checkpoint for flate limit L (-1: no checkpoint).
func (ws *winStream) decodedAt(L int) int {
	tr := ws.tr
	j := sort.Search(len(tr.endBit), func(i int) bool { return tr.endBit[i]+tr.eobN > 8*L }) - 1
	if j < 0 {
		return -1
	}
	return tr.dec[j]
}

// replaced: for flate limit L the cut falls inside the first block and the block is replaced by
// one Stored block (cutSingleBlock).
func (ws *winStream) replaced(L int) bool {
	tr := ws.tr
	if L <= 5 || len(tr.endBit) == 0 || tr.endBit[len(tr.endBit)-1]+tr.eobN <= 8*L {
		return false
	}
	n := L - 5
	if n > 0xFFFF {
		n = 0xFFFF
	}
	return ws.decodedAt(L) < n
}

// aliasShaped: the first `w` bytes of output come from fewer than w+5 encoded bytes (so a Stored
// block holding them reaches beyond the input consumed so far) although some limit > w+5 replaces.
func (ws *winStream) consumedAt(w int) int {
	tr := ws.tr
	j := sort.Search(len(tr.dec), func(i int) bool { return tr.dec[i] >= w })
	if j >= len(tr.dec) {
		return -1
	}
	return (tr.endBit[j] + 7) / 8
}

func (x *runner) windowGroup(g *hlib.Rand, n, nR int) {
	r := x.r
	for i := 0; i < n; i++ {
		shape := i % 8
		ws := windowStream(g, shape, i%4 == 3, 1)
		sc := ws.sc
		r.Count("stream:window")
		r.Count("window:shape:" + ws.shape)
		nf := len(sc.enc) - ws.extra // flate stream length (incl. trailing bytes)
		if !sc.zlib {
			nf = len(sc.enc)
		}
		var rep, notRep []int
		for L := 32769; L <= ws.end1; L++ {
			if ws.replaced(L) {
				rep = append(rep, L)
			} else {
				notRep = append(notRep, L)
			}
		}
		c := ws.consumedAt(32768)
		aliasing := false
		if c >= 0 && c < 32773 {
			for _, L := range rep {
				if L > 32773 {
					aliasing = true
					break
				}
			}
		}
		if aliasing {
			r.Count("window:first-32KiB-from-fewer-bytes-and-replaced")
		}
		if len(rep) > 0 {
			r.Count("window:has-replaced-limits-above-32KiB")
		}
		seen := map[int]bool{}
		var ls []int
		add := func(L int) {
			if L >= 0 && L <= nf+2 && !seen[L] {
				seen[L] = true
				ls = append(ls, L)
			}
		}
		for L := 32772; L <= 32775; L++ {
			add(L)
		}
		if len(rep) > 0 {
			add(rep[0])
			add(rep[len(rep)-1])
			for k := 0; k < nR; k++ {
				add(rep[g.Intn(len(rep))])
			}
			add(rep[0] - 1)
		}
		for k := 0; k < 2 && len(notRep) > 0; k++ {
			add(notRep[g.Intn(len(notRep))])
		}
		if nf > 0xFFFF+5 {
			add(0xFFFF + 4)
			add(0xFFFF + 5)
			add(0xFFFF + 6)
			add(0xFFFF + 6 + g.Intn(nf-0xFFFF-5))
		}
		add(ws.end1 - 1)
		add(ws.end1)
		add(nf - 1)
		add(nf)
		add(nf + 1)
		sort.Ints(ls)
		for k, L := range ls {
			x.cutOnce(sc, L+ws.extra, !sc.zlib && (k+i)%2 == 0)
		}
	}
}

// windowSmall: the same shapes at a few KiB (a start that compresses or breaks even, then a part
// that expands, so that the first block is replaced by a Stored block whose payload area overlaps
// input not yet consumed when the output is produced in pieces), limits sampled by runStream.
func (x *runner) windowSmall(g *hlib.Rand, n, big int) {
	for i := 0; i < n; i++ {
		scale := []float64{0.02, 0.05, 0.13, 0.25}[g.Intn(4)]
		ws := windowStream(g, i%8, false, scale)
		ws.sc.sig = fmt.Sprintf("window-small|%s", ws.shape)
		var rep []int
		for L := 6; L <= ws.end1; L++ {
			if ws.replaced(L) {
				rep = append(rep, L)
			}
		}
		if ws.sc.zlib || len(rep) == 0 {
			x.runStream(ws.sc, g, big)
			continue
		}
		// flate: the sampled limits of runStream plus a sample of the replaced region
		x.runStream(ws.sc, g, big/2)
		for k := 0; k < big/2; k++ {
			x.cutOnce(ws.sc, rep[g.Intn(len(rep))], k%2 == 0)
		}
	}
}
