package main

// Third, ADVISORY oracle (thorough tier, or VERIF_C19_WUFFS=1): Wuffs' own std/png decoder, through
// example/convert-to-nia compiled against the tree's release/c/wuffs-unsupported-snapshot.c.
// (Regenerating the decoder with the working tree's compiler was tried and dropped: a change anywhere
// in lang/ or internal/cgen — other properties' territory — then shows up here as a "PNG" failure.)
// A disagreement is recorded as a note and counted, not as a violation of C19: the property's verdict
// rests on the reference walker and image/png.
// Output is NIE: 16-byte header, BGRA non-premultiplied, 8 or 16 (little-endian) bits per channel.

import (
	"bytes"
	"encoding/binary"
	"fmt"
	"os"
	"path/filepath"
	"time"

	"wvh/hlib"
)

type wuffsOracle struct {
	bin     string
	cleanup func()
}

func newWuffsOracle(r *hlib.Run) *wuffsOracle {
	cc := ""
	for _, c := range []string{"gcc", "clang"} {
		if _, _, err := hlib.RunCmd(20*time.Second, "", nil, nil, c, "--version"); err == nil {
			cc = c
			break
		}
	}
	if cc == "" {
		r.Note("wuffs oracle skipped: no C compiler")
		r.Count("wuffs-oracle:skipped-no-cc")
		return nil
	}
	dir, cleanup := hlib.NewScratchDir("c19wuffs")
	bin := filepath.Join(dir, "convert-to-nia")
	src := filepath.Join(r.Repo, "example", "convert-to-nia", "convert-to-nia.c")
	if err := hlib.CC(cc, "-O1", "-DMAX_DIMENSION=16777215", "-o", bin, src); err != nil {
		cleanup()
		r.Note("wuffs oracle skipped: compile failed: " + err.Error())
		r.Count("wuffs-oracle:skipped-cc-failed")
		return nil
	}
	return &wuffsOracle{bin: bin, cleanup: cleanup}
}

// expectNIE renders the expected pixels (PNG packed layout of format f) as NIE payload.
func expectNIE(f *pixFmt, w, h int, px []byte) []byte {
	bpc := f.depth / 8
	out := make([]byte, 0, w*h*4*bpc)
	ch := f.n / bpc
	for i := 0; i < w*h; i++ {
		p := px[i*f.n : (i+1)*f.n]
		var c [4][]byte // R G B A, big-endian samples
		opaque := []byte{0xFF, 0xFF}[:bpc]
		switch ch {
		case 1:
			c = [4][]byte{p[0:bpc], p[0:bpc], p[0:bpc], opaque}
		case 3:
			c = [4][]byte{p[0:bpc], p[bpc : 2*bpc], p[2*bpc : 3*bpc], opaque}
		case 4:
			c = [4][]byte{p[0:bpc], p[bpc : 2*bpc], p[2*bpc : 3*bpc], p[3*bpc : 4*bpc]}
		}
		for _, k := range []int{2, 1, 0, 3} { // B G R A
			if bpc == 1 {
				out = append(out, c[k][0])
			} else {
				out = append(out, c[k][1], c[k][0]) // little-endian
			}
		}
	}
	return out
}

// check decodes png with Wuffs and compares; returns "" or a failure description.
func (o *wuffsOracle) check(f *pixFmt, w, h int, png, want []byte) string {
	args := []string{"-output-nie"}
	if f.depth == 16 {
		args = append(args, "-bit-depth-16")
	}
	stdout, stderr, err := hlib.RunCmd(120*time.Second, "", nil, png, o.bin, args...)
	if err != nil {
		return fmt.Sprintf("wuffs decoder failed: %v %s", err, bytes.TrimSpace(stderr))
	}
	if len(stdout) < 16 || !bytes.Equal(stdout[:4], []byte{0x6E, 0xC3, 0xAF, 0x45}) {
		return "wuffs decoder: no NIE header"
	}
	bpp := byte('4')
	if f.depth == 16 {
		bpp = '8'
	}
	if stdout[4] != 0xFF || stdout[5] != 'b' || stdout[6] != 'n' || stdout[7] != bpp {
		return fmt.Sprintf("wuffs decoder: NIE header % x", stdout[:8])
	}
	gw, gh := int(binary.LittleEndian.Uint32(stdout[8:])), int(binary.LittleEndian.Uint32(stdout[12:]))
	if gw != w || gh != h {
		return fmt.Sprintf("wuffs decoder: dimensions %dx%d", gw, gh)
	}
	if !bytes.Equal(stdout[16:], expectNIE(f, w, h, want)) {
		return "wuffs decoder: pixels differ from the input"
	}
	return ""
}

func wuffsWanted(r *hlib.Run) bool { return r.Thorough || os.Getenv("VERIF_C19_WUFFS") == "1" }
