// C19 harness: lib/uncompng.Encoder vs the Lean model (Model/Png/Uncomp.lean), byte-identical
// per Write call, plus the property's own oracle evaluated on the implementation:
//   - an independent strict chunk/CRC/zlib-stored/Adler/scanline walker (ref.go, std hash packages),
//   - image/png.Decode: same dimensions and pixel values (alpha opaque for RGBX),
//   - sequences of images on ONE Encoder (reuse), writer errors propagate, bad arguments write nothing.
//
// It also ties Model/Png/Spec.lean (the decoder the theorems are stated against) to the reference
// walker on real encoder output and on crafted valid / malformed streams.
package main

import (
	"bytes"
	"encoding/binary"
	"errors"
	"fmt"
	"hash/adler32"
	"hash/crc32"
	"hash/fnv"
	"image"
	"image/png"
	"sort"
	"strings"

	"github.com/google/wuffs/lib/uncompng"
	"wvh/hlib"
)

type pixFmt struct {
	name      string
	depth, ct int
	n, k      int // bytes stored / consumed per pixel
	pngCT     int
}

var fmts = []pixFmt{
	{"gray8", 8, 1, 1, 1, 0}, {"rgbx8", 8, 2, 3, 4, 2}, {"nrgba8", 8, 3, 4, 4, 6},
	{"gray16", 16, 1, 2, 2, 0}, {"rgbx16", 16, 2, 6, 8, 2}, {"nrgba16", 16, 3, 8, 8, 6},
}

func fmtOf(depth, ct int) *pixFmt {
	for i := range fmts {
		if fmts[i].depth == depth && fmts[i].ct == ct {
			return &fmts[i]
		}
	}
	return nil
}

// ---- pixel sources (the same three forms the Lean driver understands)

type pixSpec struct {
	kind string // "hex", "seeded", "fill"
	data []byte // hex
	seed uint64
	fill byte
	n    int
}

func mix(s uint64) uint64 {
	z := (s ^ (s >> 30)) * 0xBF58476D1CE4E5B9
	z = (z ^ (z >> 27)) * 0x94D049BB133111EB
	return z ^ (z >> 31)
}

func (p pixSpec) bytes() []byte {
	switch p.kind {
	case "hex":
		return append(make([]byte, 0, len(p.data)), p.data...)
	case "fill":
		return bytes.Repeat([]byte{p.fill}, p.n)
	case "adlerstress":
		return adlerStress(p.n, int(p.seed))
	}
	out := make([]byte, p.n)
	s := p.seed
	var z uint64
	for i := range out {
		if i%8 == 0 {
			s += 0x9E3779B97F4A7C15
			z = mix(s)
		}
		out[i] = byte(z >> (8 * uint(i%8)))
	}
	return out
}

func (p pixSpec) token() string {
	switch p.kind {
	case "hex":
		return hlib.Hex(p.data)
	case "fill":
		return fmt.Sprintf("fill:%02x:%d", p.fill, p.n)
	case "adlerstress":
		return fmt.Sprintf("adlerstress:%d:%d", p.n, p.seed)
	}
	return fmt.Sprintf("seeded:%d:%d", p.seed, p.n)
}

// adlerStress is the worst case for a c-byte chunking of updateAdler32 (c = 5552 in the source)
// when used as a one-row gray8 image: after the first c stream bytes (filter byte + c-1 pixels) the
// sum `a` is 65520, the largest reduced value, and every following byte is 0xFF.
func adlerStress(n, c int) []byte {
	out := make([]byte, n)
	for i := range out {
		switch {
		case i < 256:
			out[i] = 0xFF
		case i == 256:
			out[i] = 239
		case i < c-1:
			out[i] = 0
		default:
			out[i] = 0xFF
		}
	}
	return out
}

func item(b []byte) string {
	if len(b) <= 1024 {
		return hlib.Hex(b)
	}
	h := fnv.New64a()
	h.Write(b)
	return fmt.Sprintf("#%d:%08x:%08x:%016x", len(b), adler32.Checksum(b), crc32.ChecksumIEEE(b), h.Sum64())
}

// ---- the recording io.Writer

var errInjected = errors.New("c19: injected writer error")

type recWriter struct {
	writes [][]byte
	failAt int
	rng    *hlib.Rand
}

func (w *recWriter) Write(p []byte) (int, error) {
	idx := len(w.writes)
	w.writes = append(w.writes, append([]byte(nil), p...))
	if idx == w.failAt {
		return w.rng.Intn(len(p) + 1), errInjected
	}
	return len(p), nil
}

// ---- one Encode call

type encCase struct {
	w, h, stride int
	depth, ct    int
	pix          pixSpec // the cap(pix) bytes of the backing array
	plen         int     // len(pix) when smaller than the capacity; 0 with lenSet=false: len = cap
	lenSet       bool
	failAt       int // -1: never
	tag          string
}

func (c encCase) line() string {
	s := fmt.Sprintf("encode %d %d %d %d %d %s", c.w, c.h, c.stride, c.depth, c.ct, c.pix.token())
	if c.lenSet {
		s += fmt.Sprintf(" len:%d", c.plen)
	}
	if c.failAt >= 0 {
		s += fmt.Sprintf(" failat:%d", c.failAt)
	}
	return s
}

type seq struct {
	r     *hlib.Run
	enc   *uncompng.Encoder
	lines []string
	idx   int // number of Encode calls made on this Encoder so far
	specB int // budget (bytes) for `specdecode last`
}

var (
	capF, capL, ejMax, eiFirst, eiLater int
	specBudget                          int
)

func newSeq(r *hlib.Run) *seq {
	q := &seq{r: r, enc: &uncompng.Encoder{}}
	q.op("reset", "ok")
	return q
}

func (q *seq) op(line, out string) {
	q.lines = append(q.lines, line)
	q.r.Op(line, out)
}

func (q *seq) replay() string {
	l := q.lines
	var b strings.Builder
	for _, s := range l {
		if len(s) > 4000 {
			s = s[:4000] + "…"
		}
		b.WriteString(s)
		b.WriteByte('\n')
	}
	return b.String()
}

func (q *seq) fail(key, desc string) {
	if q.idx > 1 {
		key = "reuse:" + key
	}
	q.r.Fail(key, desc, q.replay())
}

func expectedPixels(c encCase, f *pixFmt, pix []byte) []byte {
	out := make([]byte, 0, c.w*c.h*f.n)
	for y := 0; y < c.h; y++ {
		row := pix[y*c.stride:]
		for x := 0; x < c.w; x++ {
			out = append(out, row[f.k*x:f.k*x+f.n]...)
		}
	}
	return out
}

// pngPixels canonicalises what image/png decoded into the packed layout of PNG itself.
func pngPixels(m image.Image, f *pixFmt) ([]byte, string) {
	b := m.Bounds()
	w, h := b.Dx(), b.Dy()
	out := make([]byte, 0, w*h*f.n)
	switch m := m.(type) {
	case *image.Gray:
		if f.name != "gray8" {
			return nil, "type Gray"
		}
		for y := 0; y < h; y++ {
			out = append(out, m.Pix[y*m.Stride:y*m.Stride+w]...)
		}
	case *image.Gray16:
		if f.name != "gray16" {
			return nil, "type Gray16"
		}
		for y := 0; y < h; y++ {
			out = append(out, m.Pix[y*m.Stride:y*m.Stride+2*w]...)
		}
	case *image.RGBA:
		if f.name != "rgbx8" {
			return nil, "type RGBA"
		}
		for y := 0; y < h; y++ {
			for x := 0; x < w; x++ {
				p := m.Pix[y*m.Stride+4*x:]
				if p[3] != 0xFF {
					return nil, "alpha not opaque"
				}
				out = append(out, p[0], p[1], p[2])
			}
		}
	case *image.RGBA64:
		if f.name != "rgbx16" {
			return nil, "type RGBA64"
		}
		for y := 0; y < h; y++ {
			for x := 0; x < w; x++ {
				p := m.Pix[y*m.Stride+8*x:]
				if p[6] != 0xFF || p[7] != 0xFF {
					return nil, "alpha not opaque"
				}
				out = append(out, p[0:6]...)
			}
		}
	case *image.NRGBA:
		if f.name == "rgbx8" {
			for i := 3; i < len(m.Pix); i += 4 {
				if m.Pix[i] != 0xFF {
					return nil, "alpha not opaque (NRGBA)"
				}
			}
		}
		if f.name != "nrgba8" {
			return nil, "type NRGBA"
		}
		for y := 0; y < h; y++ {
			out = append(out, m.Pix[y*m.Stride:y*m.Stride+4*w]...)
		}
	case *image.NRGBA64:
		if f.name == "rgbx16" {
			for i := 6; i+1 < len(m.Pix); i += 8 {
				if m.Pix[i] != 0xFF || m.Pix[i+1] != 0xFF {
					return nil, "alpha not opaque (NRGBA64)"
				}
			}
		}
		if f.name != "nrgba16" {
			return nil, "type NRGBA64"
		}
		for y := 0; y < h; y++ {
			out = append(out, m.Pix[y*m.Stride:y*m.Stride+8*w]...)
		}
	default:
		return nil, fmt.Sprintf("type %T", m)
	}
	return out, ""
}

// encode runs one Encode on the sequence's Encoder, records the op, evaluates the oracle.
// It returns the number of Write calls made.
func (q *seq) encode(c encCase) int {
	r := q.r
	pix := c.pix.bytes()
	pix = pix[:len(pix):len(pix)]
	if c.lenSet {
		pix = pix[:c.plen] // len < cap: Go checks row[:k*width] against the capacity
		r.Count("len<cap")
	}
	rw := &recWriter{failAt: c.failAt, rng: r.Rand.Fork()}
	var err error
	out, msg := hlib.GuardMsg(func() string {
		err = q.enc.Encode(rw, pix, c.w, c.h, c.stride, uncompng.Depth(c.depth), uncompng.ColorType(c.ct))
		st := "ok"
		if err != nil {
			switch {
			case errors.Is(err, errInjected):
				st = "write-error"
			case err.Error() == "uncompng: invalid argument":
				st = "invalid-argument"
			case err.Error() == "uncompng: unsupported image size":
				st = "unsupported-size"
			default:
				st = "error:" + strings.ReplaceAll(err.Error(), " ", "_")
			}
		}
		var b strings.Builder
		fmt.Fprintf(&b, "%s %d", st, len(rw.writes))
		for _, wr := range rw.writes {
			b.WriteByte(' ')
			b.WriteString(item(wr))
		}
		return b.String()
	})
	q.idx++
	q.op(c.line(), out)
	r.Count("tag:" + c.tag)
	status := strings.SplitN(out, " ", 2)[0]
	r.Count("status:" + status)

	f := fmtOf(c.depth, c.ct)
	badArg := c.w < 0 || c.h < 0 || f == nil
	tooBig := c.w > 0xFFFFFF || c.h > 0xFFFFFF
	if badArg || tooBig {
		// validation: an error, and nothing written
		if err == nil || len(rw.writes) != 0 || out == "panic" {
			q.fail("validation:accepted-or-wrote", fmt.Sprintf("bad arguments gave %q (%s)", status, msg))
		}
		return 0
	}
	r.Count("fmt:" + f.name)
	// (overflow-safe: stride may be anywhere in the int range)
	inProperty := c.w > 0 && c.h > 0 && c.stride >= f.k*c.w && f.k*c.w <= len(pix) &&
		(c.h == 1 || c.stride <= (len(pix)-f.k*c.w)/(c.h-1))
	if !inProperty {
		r.Count("outside-property(tie-only)")
		return len(rw.writes)
	}
	fname := f.name
	if out == "panic" {
		q.fail("panic:encode:"+fname, "Encode panicked on valid arguments: "+msg)
		return 0
	}
	if c.failAt >= 0 && c.failAt < len(rw.writes) {
		// writer error must propagate, with no Write after the failing one
		if !errors.Is(err, errInjected) {
			q.fail("writer-error:not-propagated:"+fname, fmt.Sprintf("writer failed at call %d, Encode returned %v", c.failAt, err))
		}
		if len(rw.writes) != c.failAt+1 {
			q.fail("writer-error:extra-writes:"+fname, fmt.Sprintf("writer failed at call %d, %d calls made", c.failAt, len(rw.writes)))
		}
		r.Count("writer-error-injected")
		return len(rw.writes)
	}
	if err != nil {
		q.fail("encode-error:"+fname, "Encode returned "+err.Error())
		return len(rw.writes)
	}
	all := bytes.Join(rw.writes, nil)
	want := expectedPixels(c, f, pix)
	// oracle 1: strict reference walker
	im, why := refDecode(all)
	if im == nil {
		q.fail("invalid-png:"+why+":"+fname, "reference walker rejects the output: "+why)
	} else {
		if im.w != c.w || im.h != c.h || im.depth != c.depth || im.ct != f.pngCT {
			q.fail("roundtrip:header:"+fname, fmt.Sprintf("IHDR says %dx%d depth %d ct %d", im.w, im.h, im.depth, im.ct))
		} else if !bytes.Equal(im.pix, want) {
			q.fail("roundtrip:pixels:"+fname, "decoded pixels differ from the input (reference walker)")
		}
		q.stats(c, f, im, rw.writes)
	}
	// oracle 2: image/png
	// (DecodeConfig first: a wrong IHDR must not make the oracle allocate a huge image)
	var m image.Image
	cfg, derr := png.DecodeConfig(bytes.NewReader(all))
	if derr == nil && (cfg.Width != c.w || cfg.Height != c.h) {
		derr = fmt.Errorf("header says %dx%d, want %dx%d", cfg.Width, cfg.Height, c.w, c.h)
	}
	if derr == nil {
		m, derr = png.Decode(bytes.NewReader(all))
	}
	if derr != nil {
		q.fail("png.Decode-reject:"+fname, "image/png: "+derr.Error())
	} else if m.Bounds() != image.Rect(0, 0, c.w, c.h) {
		q.fail("png.Decode-bounds:"+fname, fmt.Sprintf("image/png bounds %v", m.Bounds()))
	} else if got, bad := pngPixels(m, f); bad != "" {
		if strings.HasPrefix(bad, "alpha not opaque") {
			q.fail("alpha-not-opaque:"+fname, "image/png reports a non-opaque pixel for the RGBX type: "+bad)
		} else {
			q.fail("png.Decode-type:"+fname, "image/png decoded "+bad)
		}
	} else if !bytes.Equal(got, want) {
		q.fail("png.Decode-pixels:"+fname, "image/png pixels differ from the input")
	}
	// oracle 3 (advisory, sampled): Wuffs' own std/png decoder
	if wuffs != nil {
		run := false
		switch {
		case len(all) >= 1<<20:
			run = wuffsBig > 0
			wuffsBig--
		case len(all) >= 60000:
			run = wuffsMid > 0
			wuffsMid--
		default:
			run = wuffsSmall > 0
			wuffsSmall--
		}
		if run {
			if bad := wuffs.check(f, c.w, c.h, all, want); bad != "" {
				r.Count("wuffs-oracle:DISAGREES")
				if wuffsNotes < 5 {
					wuffsNotes++
					r.Note("advisory: Wuffs std/png (release snapshot) disagrees on " + c.line() + ": " + bad)
				}
			} else {
				r.Count("wuffs-oracle:agrees")
			}
		}
	}
	r.Extra("oracle_cases", q.bump())
	r.Nontrivial(fmt.Sprintf("%s %dx%d s%d %s", fname, c.w, c.h, c.stride, c.pix.kind))
	poolAdd(r.Rand, all, c.line())
	// tie Spec.lean to the reference walker on this output
	if len(all) <= 1500 {
		q.specdecode(all, hlib.Hex(all))
	} else if specBudget >= len(all) && len(all) <= 3<<20 { // (List-based decoder: keep its input moderate)
		specBudget -= len(all)
		q.specdecode(all, "last")
	}
	return len(rw.writes)
}

var wuffs *wuffsOracle
var wuffsBig, wuffsMid, wuffsSmall, wuffsNotes = 8, 150, 80, 0 // sampling budget of the advisory oracle

var oracleCases int
var seenSlack = map[string]bool{}

func (q *seq) bump() int { oracleCases++; return oracleCases }

func (q *seq) specdecode(stream []byte, arg string) {
	im, why := refDecode(stream)
	out := "none"
	if im != nil {
		out = fmt.Sprintf("some %d %d %d %d %s", im.w, im.h, im.depth, im.ct, item(im.pix))
		q.r.Count("specdecode:some")
	} else {
		q.r.Count("specdecode:none:" + why)
	}
	q.op("specdecode "+arg, out)
}

// stats: where the flushes fell (input-distribution evidence).
func (q *seq) stats(c encCase, f *pixFmt, im *refImage, writes [][]byte) {
	r := q.r
	nb := len(im.blockLens)
	switch {
	case nb == 1:
		r.Count("blocks:1")
	case nb == 2:
		r.Count("blocks:2")
	case nb <= 4:
		r.Count("blocks:3-4")
	default:
		r.Count("blocks:5+")
	}
	last := writes[len(writes)-1]
	if len(last) == 12 {
		r.Count("iend:separate")
	} else {
		r.Count("iend:inline")
	}
	for i, bl := range im.blockLens {
		if i == nb-1 {
			ei := eiLater
			if i == 0 {
				ei = eiFirst
			}
			ej := ei + bl
			if ejMax-ej <= 24 {
				r.Count(fmt.Sprintf("final-ej:ejMax-%02d", ejMax-ej))
			}
			continue
		}
		cp := capL
		which := "later"
		if i == 0 {
			cp, which = capF, "first"
		}
		key := fmt.Sprintf("slack:%s:%s:%d", which, f.name, cp-bl)
		r.Count(key)
		seenSlack[key] = true
	}
	// did a flush fall exactly on a row boundary / on the filter byte / inside a row?
	rowLen := 1 + c.w*f.n
	pos := 0
	for i := 0; i < nb-1; i++ {
		pos += im.blockLens[i]
		switch pos % rowLen {
		case 0:
			r.Count("flush-before:filter-byte")
		case 1:
			r.Count("flush-before:first-pixel")
		default:
			r.Count("flush-before:mid-row")
		}
	}
}

// ---- generators

func seeded(r *hlib.Rand, n int) pixSpec {
	return pixSpec{kind: "seeded", seed: r.Uint64() >> 12, n: n}
}

func somePix(r *hlib.Rand, n int) pixSpec {
	switch r.Intn(8) {
	case 0:
		return pixSpec{kind: "fill", fill: 0xFF, n: n}
	case 1:
		return pixSpec{kind: "fill", fill: byte(r.Intn(256)), n: n}
	}
	if n <= 600 {
		return pixSpec{kind: "hex", data: r.Bytes(n)}
	}
	return seeded(r, n)
}

func mk(r *hlib.Rand, f pixFmt, w, h, extra int, tag string) encCase {
	stride := f.k*w + extra
	n := 0
	if h > 0 {
		n = (h-1)*stride + f.k*w
	}
	if r.Chance(1, 4) {
		n += r.Intn(9) // a longer buffer than needed
	}
	c := encCase{w: w, h: h, stride: stride, depth: f.depth, ct: f.ct, failAt: -1, tag: tag}
	if r.Chance(1, 8) {
		c.plen, c.lenSet = n, true // capacity beyond the length
		n += r.Range(1, 9)
	}
	c.pix = somePix(r, n)
	return c
}

func ceilDiv(a, b int) int { return (a + b - 1) / b }

// simBlocks predicts the stored-block lengths from the flush policy alone (used only to aim
// generators; never as an oracle).
func simBlocks(n, w, h int) []int {
	var out []int
	cp, used := capF, 0
	put := func(k int) {
		if used+k > cp {
			out = append(out, used)
			cp, used = capL, 0
		}
		used += k
	}
	for y := 0; y < h; y++ {
		put(1)
		for x := 0; x < w; {
			// as many whole pixels as fit, at least one put() call
			fit := (cp - used) / n
			if fit > w-x {
				fit = w - x
			}
			if fit > 0 {
				used += fit * n
				x += fit
			} else {
				put(n)
				x++
			}
		}
	}
	return append(out, used)
}

// findSlack searches a shape whose block number `which` (0 first, 1 second) is flushed with
// exactly `slack` unused bytes.
func findSlack(f pixFmt, which, slack int) (int, int, bool) {
	target := capF
	if which == 1 {
		target += capL
	}
	for rows := 1; rows <= 3*f.n+3; rows++ {
		w0 := (target/rows - 1) / f.n
		for w := w0 - 3; w <= w0+3; w++ {
			if w < 1 {
				continue
			}
			for h := rows; h <= rows+2; h++ {
				bl := simBlocks(f.n, w, h)
				if len(bl) >= which+2 {
					cp := capF
					if which == 1 {
						cp = capL
					}
					if cp-bl[which] == slack {
						return w, h, true
					}
				}
			}
		}
	}
	return 0, 0, false
}

func generate(r *hlib.Run) []encCase {
	rng := r.Rand
	var cs []encCase
	add := func(c encCase) { cs = append(cs, c) }
	thorough := r.Thorough

	// A. single-row images whose stream length 1+w*n sweeps a window around
	//    capF + m*capL (every residue; the window also covers the 12 final-ej values
	//    that decide IEND inline/separate).
	for _, f := range fmts {
		maxM := 2
		if thorough {
			maxM = 4
		}
		for m := 0; m <= maxM; m++ {
			T := capF + m*capL
			lo, hi := ceilDiv(T-1-34, f.n), (T-1+14)/f.n+1
			for w := lo; w <= hi; w++ {
				keep := thorough || m == 0 || (m == 1 && (f.n == 1 || rng.Chance(1, 2))) || (m == 2 && rng.Chance(1, 5))
				if keep {
					add(mk(rng, f, w, 1, 0, "A:row-sweep"))
				}
			}
		}
	}
	// B. many short rows: row ends (filter bytes) and pixel phases at every residue
	//    around the capacities.
	for _, f := range fmts {
		reps := 1
		if thorough {
			reps = 6
		}
		for rep := 0; rep < reps; rep++ {
			for w := 1; w <= 2*f.n+2; w++ {
				R := 1 + w*f.n
				m := rng.Intn(2)
				if thorough {
					m = rng.Intn(4)
				}
				T := capF + m*capL
				delta := rng.Range(-R-1, R+1)
				h := (T + delta) / R
				add(mk(rng, f, w, h, 0, "B:rows-sweep"))
			}
		}
	}
	// B2. directed: for every format, for the first and the second block, every slack value
	//     0..n-1 (bytes left unused because the next pixel does not fit), found by simulating
	//     the flush policy on candidate shapes.
	for _, f := range fmts {
		for which := 0; which < 2; which++ {
			for slack := 0; slack < f.n; slack++ {
				if w, h, ok := findSlack(f, which, slack); ok {
					add(mk(rng, f, w, h, 0, "B2:slack-directed"))
				}
			}
		}
	}
	// B3. Adler-32 worst case at the 5552-byte chunk boundary (gray8, one row), in the first
	//     block and spilling into later blocks.
	for _, n := range []int{5551 + 5552, 20000, capF - 1, capF + 3*5552, capF + capL + 7000} {
		add(encCase{w: n, h: 1, stride: n, depth: 8, ct: 1, pix: pixSpec{kind: "adlerstress", n: n, seed: 5552}, failAt: -1, tag: "B3:adler-stress"})
	}
	//     ... and the same for chunkings a little coarser than the source's (ordinary data for the
	//     unchanged code; the worst case for a code change that enlarges the chunk).
	for _, c := range []int{5553, 5554, 5556, 5560, 5568, 5600, 5808, 6000, 8192} {
		n := 3*c + rng.Intn(100)
		add(encCase{w: n, h: 1, stride: n, depth: 8, ct: 1, pix: pixSpec{kind: "adlerstress", n: n, seed: uint64(c)}, failAt: -1, tag: "B3:adler-stress"})
	}
	// C. extremes 1xN / Nx1 and tiny.
	for _, f := range fmts {
		ns := []int{1, 2, 3, rng.Range(4, 200), ceilDiv(capF, 1+f.n) + rng.Range(-2, 2), rng.Range(70000, 140000) / f.n}
		if thorough {
			ns = append(ns, rng.Range(300000, 900000)/f.n, ceilDiv(capF+capL, 1+f.n)+rng.Range(-2, 2))
		}
		for _, n := range ns {
			add(mk(rng, f, 1, n, 0, "C:1xN"))
			add(mk(rng, f, n, 1, 0, "C:Nx1"))
		}
	}
	if thorough {
		add(mk(rng, fmts[0], 0xFFFFFF, 1, 0, "C:max-width"))
		add(mk(rng, fmts[0], 1, 0xFFFFFF, 0, "C:max-height"))
		add(mk(rng, fmts[5], 1500, 1100, 0, "C:big"))
	}
	// D. stride > row bytes (and a few big ones), random shapes.
	nD := 40
	if thorough {
		nD = 400
	}
	for i := 0; i < nD; i++ {
		f := fmts[rng.Intn(len(fmts))]
		w, h := rng.Range(1, 300), rng.Range(1, 300)
		if rng.Chance(1, 5) {
			w, h = rng.Range(300, 700), rng.Range(100, 400)
		}
		add(mk(rng, f, w, h, rng.Range(1, 17), "D:stride"))
	}
	// E. small random images (full hex; Spec.decode on the bytes).
	nE := 300
	if thorough {
		nE = 3000
	}
	for i := 0; i < nE; i++ {
		f := fmts[rng.Intn(len(fmts))]
		extra := 0
		if rng.Chance(1, 3) {
			extra = rng.Range(1, 5)
		}
		add(mk(rng, f, rng.Range(1, 12), rng.Range(1, 12), extra, "E:small"))
	}
	// F. outside the property, tie only: zero sizes, overlapping rows (stride < row), stride 0,
	//    too-short buffers and negative strides (Go panics), invalid arguments.
	nF := 40
	if thorough {
		nF = 300
	}
	for i := 0; i < nF; i++ {
		f := fmts[rng.Intn(len(fmts))]
		c := mk(rng, f, rng.Range(1, 40), rng.Range(1, 40), 0, "F:outside")
		switch rng.Intn(11) {
		case 9, 10:
			// len(pix) too short but cap(pix) sufficient (or nearly): Go slices row[:k*width] against the
			// capacity, so rows may lie beyond len(pix); the start y*stride must still be <= len(pix)
			b := c.pix.bytes()
			if c.lenSet {
				b = b[:c.plen]
			}
			need := len(b)
			c.plen, c.lenSet = rng.Intn(need+1), true
			capN := need - rng.Intn(3) + rng.Intn(3)
			if capN < c.plen {
				capN = c.plen
			}
			for len(b) < capN {
				b = append(b, byte(rng.Intn(256)))
			}
			c.pix = pixSpec{kind: "hex", data: b[:capN]}
			if capN > 2000 {
				c.pix = pixSpec{kind: "seeded", seed: 7, n: capN}
			}
		case 0:
			c.w = 0
		case 1:
			c.h = 0
		case 2:
			c.stride = rng.Intn(c.stride + 1)
		case 3:
			c.stride = -rng.Range(1, 9)
		case 4:
			b := c.pix.bytes()
			c.lenSet = false
			c.pix = pixSpec{kind: "hex", data: b[:rng.Intn(len(b))]}
			if len(c.pix.data) > 2000 {
				c.pix = pixSpec{kind: "seeded", seed: 5, n: len(c.pix.data)}
			}
		case 5:
			c.w = -rng.Range(1, 5)
		case 6:
			c.h = -rng.Range(1, 5)
		case 7:
			c.depth = []int{0, 1, 4, 7, 9, 15, 17, 24, 32, 255}[rng.Intn(10)]
		case 8:
			c.ct = []int{0, 4, 5, 6, 255}[rng.Intn(5)]
		}
		add(c)
	}
	// strides at the edge of the 64-bit int range (tie only: y*stride wraps in Go and in the model)
	for _, st := range []int{1 << 62, 1<<63 - 1, -1 << 63, 1 << 61, 1 << 40, -(1 << 40), 1<<62 + 1} {
		for _, h := range []int{1, 2, 4, 5, 9} {
			add(encCase{w: 2, h: h, stride: st, depth: 8, ct: 1, pix: pixSpec{kind: "hex", data: []byte{1, 2, 3, 4, 5, 6}}, failAt: -1, tag: "F:stride-int64-edge"})
		}
	}
	for _, wh := range [][2]int{{0x1000000, 1}, {1, 0x1000000}, {0x1000000, 0x1000000}, {1 << 40, 1}} {
		add(encCase{w: wh[0], h: wh[1], stride: 4, depth: 8, ct: 1, pix: pixSpec{kind: "hex", data: []byte{1, 2, 3, 4}}, failAt: -1, tag: "F:too-big"})
	}
	// shuffle (deterministically)
	for i := len(cs) - 1; i > 0; i-- {
		j := rng.Intn(i + 1)
		cs[i], cs[j] = cs[j], cs[i]
	}
	return cs
}

// crafted: streams made with the builder (not by the encoder) — valid PNGs of other shapes the
// spec decoder must accept, and one violation of each rule it must reject.
func crafted(r *hlib.Run) {
	rng := r.Rand
	q := newSeq(r)
	n := 60
	if r.Thorough {
		n = 600
	}
	for i := 0; i < n; i++ {
		depth := []byte{8, 16}[rng.Intn(2)]
		ct := []byte{0, 2, 4, 6}[rng.Intn(4)]
		w, h := rng.Range(1, 9), rng.Range(1, 9)
		rb := w * refChannels(int(ct)) * int(depth) / 8
		var raw []byte
		for y := 0; y < h; y++ {
			raw = append(raw, 0)
			raw = append(raw, rng.Bytes(rb)...)
		}
		var cuts, icuts []int
		for k := rng.Intn(4); k > 0; k-- {
			cuts = append(cuts, rng.Intn(len(raw)+1))
		}
		junk := byte(0)
		if rng.Chance(1, 4) {
			junk = byte(rng.Intn(256))
		}
		z := mkZlib(raw, cuts, junk)
		for k := rng.Intn(4); k > 0; k-- {
			icuts = append(icuts, rng.Intn(len(z)+1))
		}
		ihdr := mkIHDR(uint32(w), uint32(h), depth, ct, 0, 0, 0)
		good := mkPNG(ihdr, z, icuts)
		stream := good
		kind := "valid"
		if rng.Chance(2, 3) {
			kinds := []string{"flip", "truncate", "append", "sig", "ihdr-field", "filter", "adler", "nlen", "btype",
				"ztrail", "zhdr", "extra-chunk", "no-iend", "after-iend", "no-idat", "rawlen", "final-missing", "ihdr-len", "chunk-len"}
			kind = kinds[rng.Intn(len(kinds))]
			switch kind {
			case "flip":
				stream = append([]byte(nil), good...)
				stream[rng.Intn(len(stream))] ^= 1 << uint(rng.Intn(8))
			case "truncate":
				stream = good[:rng.Intn(len(good))]
			case "append":
				stream = append(append([]byte(nil), good...), rng.Bytes(rng.Range(1, 13))...)
			case "sig":
				stream = append([]byte(nil), good...)
				stream[rng.Intn(8)]++
			case "ihdr-field":
				d := append([]byte(nil), ihdr...)
				switch rng.Intn(7) {
				case 0:
					d[8] = []byte{1, 2, 4, 0, 32}[rng.Intn(5)]
				case 1:
					d[9] = []byte{1, 3, 5, 7, 8}[rng.Intn(5)]
				case 2:
					d[10] = 1
				case 3:
					d[11] = 1
				case 4:
					d[12] = 1
				case 5:
					binary.BigEndian.PutUint32(d[0:], 0)
				case 6:
					binary.BigEndian.PutUint32(d[4:], []uint32{0, 1 << 31, uint32(h + 1)}[rng.Intn(3)])
				}
				stream = mkPNG(d, z, icuts)
			case "filter":
				raw2 := append([]byte(nil), raw...)
				raw2[rng.Intn(h)*(rb+1)] = byte(rng.Range(1, 4))
				stream = mkPNG(ihdr, mkZlib(raw2, cuts, junk), icuts)
			case "adler":
				z2 := append([]byte(nil), z...)
				z2[len(z2)-1-rng.Intn(4)] ^= 0x10
				stream = mkPNG(ihdr, z2, icuts)
			case "nlen":
				z2 := append([]byte(nil), z...)
				z2[2+1+rng.Intn(4)] ^= 1 << uint(rng.Intn(8))
				stream = mkPNG(ihdr, z2, icuts)
			case "btype":
				z2 := append([]byte(nil), z...)
				z2[2] |= byte(rng.Range(1, 3)) << 1
				stream = mkPNG(ihdr, z2, icuts)
			case "ztrail":
				stream = mkPNG(ihdr, append(append([]byte(nil), z...), 0), icuts)
			case "zhdr":
				z2 := append([]byte(nil), z...)
				switch rng.Intn(3) {
				case 0:
					z2[0], z2[1] = 0x78, 0x9C // valid other FLEVEL
				case 1:
					z2[1] ^= 0x20 // FDICT (FCHECK now wrong too)
				case 2:
					z2[0] = 0x88 // CINFO 8
				}
				stream = mkPNG(ihdr, z2, icuts)
			case "extra-chunk":
				p := len(pngSig) + 25
				if rng.Bool() {
					p = len(good) - 12
				}
				stream = append(append(append([]byte(nil), good[:p]...), mkChunk("tEXt", []byte("k\x00v"))...), good[p:]...)
			case "no-iend":
				stream = good[:len(good)-12]
			case "after-iend":
				stream = append(append([]byte(nil), good...), mkChunk("IDAT", nil)...)
			case "no-idat":
				stream = append(append(append([]byte(nil), pngSig...), mkChunk("IHDR", ihdr)...), mkChunk("IEND", nil)...)
			case "rawlen":
				raw2 := append(append([]byte(nil), raw...), make([]byte, rng.Range(1, rb+1))...)
				if rng.Bool() {
					raw2 = raw[:len(raw)-rng.Range(1, rb+1)]
				}
				stream = mkPNG(ihdr, mkZlib(raw2, cuts, junk), icuts)
			case "final-missing":
				z2 := append([]byte(nil), z...)
				// clear BFINAL of the last block: find it by re-walking
				pos := 2
				for {
					l := int(z2[pos+1]) | int(z2[pos+2])<<8
					if z2[pos]&1 == 1 {
						z2[pos] &^= 1
						break
					}
					pos += 5 + l
				}
				stream = mkPNG(ihdr, z2, icuts)
			case "ihdr-len":
				stream = mkPNG(append(append([]byte(nil), ihdr...), 0), z, icuts)
			case "chunk-len":
				stream = append([]byte(nil), good...)
				stream[8+3] ^= byte(rng.Range(1, 3)) // IHDR length field, CRC not fixed
			}
		}
		r.Count("crafted:" + kind)
		q.specdecode(stream, hlib.Hex(stream))
		// the specification against image/png on this stream (all four colour types, incl. gray+alpha)
		q.specStd(stream, fmt.Sprintf("crafted %dx%d depth %d ct %d", w, h, depth, ct), "crafted-"+kind)
	}
}

func main() {
	r := hlib.Start("C19")
	if r.IsGen() {
		r.WriteGen("C19_Tables.lean", mustGen(r.Repo))
		return
	}
	k, err := readConsts(r.Repo)
	if err != nil {
		r.Note("cannot read eiFirst/eiLater/ejMax from the source: " + err.Error() + "; using 0x30/0x0D/0xFFF8")
		k = map[string]uint64{"eiFirst": 0x30, "eiLater": 0x0D, "ejMax": 0xFFF8}
	}
	eiFirst, eiLater, ejMax = int(k["eiFirst"]), int(k["eiLater"]), int(k["ejMax"])
	capF, capL = ejMax-eiFirst, ejMax-eiLater
	if capF < 16 || capL < 16 || ejMax > 65536 {
		r.Note("implausible constants; generators use the standard capacities")
		eiFirst, eiLater, ejMax = 0x30, 0x0D, 0xFFF8
		capF, capL = ejMax-eiFirst, ejMax-eiLater
	}
	specBudget = 5 << 20
	if r.Thorough {
		specBudget = 80 << 20
	}

	if wuffsWanted(r) {
		if wuffs = newWuffsOracle(r); wuffs != nil {
			defer wuffs.cleanup()
		}
	}
	cs := generate(r)
	rng := r.Rand
	i := 0
	for i < len(cs) {
		q := newSeq(r)
		n := rng.Range(1, 4)
		for j := 0; j < n && i < len(cs); j++ {
			c := cs[i]
			i++
			nw := q.encode(c)
			// sometimes repeat the same image with a failing writer, then go on with the same Encoder
			if nw > 0 && rng.Chance(1, 6) {
				c2 := c
				c2.tag = "G:writer-error"
				c2.failAt = rng.Intn(nw + 1)
				q.encode(c2)
			}
		}
		r.Count(fmt.Sprintf("sequence-length:%d", q.idx))
	}
	crafted(r)
	specVsStd(r)

	// coverage of the flush-slack residues (evidence of the input distribution)
	missing := []string{}
	for _, f := range fmts {
		for _, which := range []string{"first", "later"} {
			for k := 0; k < f.n; k++ {
				if !seenSlack[fmt.Sprintf("slack:%s:%s:%d", which, f.name, k)] {
					missing = append(missing, fmt.Sprintf("%s:%s:%d", which, f.name, k))
				}
			}
		}
	}
	sort.Strings(missing)
	r.Extra("slack_residues_not_hit", missing)
	r.Finish("cases: single-row sweeps of 1+w*n over [cap-34, cap+14] for cap = capF + m*capL (capF = ejMax-eiFirst, capL = ejMax-eiLater), " +
		"many-short-row images with h*(1+w*n) around the same capacities, 1xN/Nx1 extremes, stride > row bytes, small random images, " +
		"arguments outside the property (tie only), grouped into sequences of 1-4 (+ repeats with a failing writer) on one Encoder; " +
		"pixels random (seeded), constant 0xFF or constant byte. Non-trivial = accepted arguments inside the property whose output was " +
		"decoded by both oracles; distinct by (format, w, h, stride, pixel source kind)")
}
