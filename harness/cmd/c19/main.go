package main

import "wvh/hlib"

func main() {
	r := hlib.Start("C19")
	if r.IsGen() {
		r.WriteGen("C19_Tables.lean", mustGen(r.Repo))
		return
	}
	r.Finish("stub")
}
