package main

// -mode gen: regenerate lean/WuffsVerif/Gen/C19_Tables.lean from the working
// tree's lib/uncompng/uncompng.go by parsing the Go source (go/parser; the
// package is not linked for this), so that a source edit of any constant the
// Lean model uses reaches the Lean proofs as a broken obligation
// (Proof/PngGen.lean, Props/C19.lean "Regenerated constants"):
//
//   eiFirst, eiLater, ejMax, crc32IEEETable            (package-level declarations)
//   bufSize                                            (array length of Encoder.buf)
//   colorTypes, depths, ctEncoding, ctEncodingDefault  (constants, pngFileFormatEncoding)
//   maxDim                                             (Encode's "unsupported image size" bound)
//   rowReserve, loopTable                              (Encode: filter byte, the six pixel loops)
//   initProg                                           (init: every store, in order, + the CRC call)
//   adlerChunk, adlerMod, adlerReads, adlerWrites      (updateAdler32)
//   flushTest, flushFirst, flushLater, flushHeader,
//   flushAdlerCopy, flushRearm, iendChunk              (flush)
//
// Anything that does not have the expected shape is a generator error (the check then fails at
// step 2): the model was written against that shape.

import (
	"bytes"
	"crypto/sha256"
	"fmt"
	"go/ast"
	"go/parser"
	"go/printer"
	"go/token"
	"os"
	"path/filepath"
	"sort"
	"strconv"
	"strings"
)

type srcFacts struct {
	consts map[string]uint64 // eiFirst, eiLater, ejMax + typed constants (ColorTypeGray, Depth8, …)
	table  []uint64

	bufSize      uint64
	colorTypes   [][2]interface{} // name, value (in source order)
	depths       [][2]interface{}
	ctEncoding   [][2]uint64 // colour type value -> PNG encoding
	ctEncDefault uint64
	maxDim       uint64
	rowReserve   uint64
	loopTable    [][6]uint64 // label, K (row[:K*width]), N (reserve), M (stores), N2 (ej += N2), K2 (row = row[K2:])
	initProg     []string    // rendered Lean terms of type InitStmt
	adlerChunk   uint64
	adlerMod     uint64
	adlerReads   []uint64
	adlerWrites  []uint64
	flushTest    [2]uint64
	flushFirst   [3]uint64 // idatChunkLen base, index of its first byte, crc32Start
	flushLater   [3]uint64
	flushFirstEi string
	flushLaterEi string
	flushHeader  []uint64 // the k of e.buf[ei-k] stores, in order
	adlerCopy    []uint64 // sources of the final-flush copy
	flushRearm   [][2]uint64
	iendChunk    []byte
	digests      [][2]string // declaration name, SHA-256 of its comment-free gofmt text
}

func (f *srcFacts) evalInt(e ast.Expr) (uint64, bool) {
	switch v := e.(type) {
	case *ast.BasicLit:
		switch v.Kind {
		case token.INT:
			n, err := strconv.ParseUint(strings.ReplaceAll(v.Value, "_", ""), 0, 64)
			return n, err == nil
		case token.CHAR:
			s, err := strconv.Unquote(v.Value)
			if err != nil || len(s) != 1 {
				return 0, false
			}
			return uint64(s[0]), true
		}
	case *ast.ParenExpr:
		return f.evalInt(v.X)
	case *ast.Ident:
		n, ok := f.consts[v.Name]
		return n, ok
	case *ast.CallExpr: // conversions T(x) of a constant
		if id, ok := v.Fun.(*ast.Ident); ok && len(v.Args) == 1 {
			switch id.Name {
			case "ColorType", "Depth", "uint32", "byte", "uint8", "int":
				return f.evalInt(v.Args[0])
			}
		}
	case *ast.BinaryExpr:
		a, ok1 := f.evalInt(v.X)
		b, ok2 := f.evalInt(v.Y)
		if !ok1 || !ok2 {
			return 0, false
		}
		switch v.Op {
		case token.OR:
			return a | b, true
		case token.ADD:
			return a + b, true
		case token.SUB:
			return a - b, a >= b
		case token.MUL:
			return a * b, true
		}
	}
	return 0, false
}

func readConsts(repo string) (map[string]uint64, error) {
	f, err := parseSource(repo)
	if err != nil {
		return nil, err
	}
	return f.consts, nil
}

func genTables(repo string) (string, error) {
	f, err := parseSource(repo)
	if err != nil {
		return "", err
	}
	return renderTables(f), nil
}

func isIdent(e ast.Expr, name string) bool {
	id, ok := e.(*ast.Ident)
	return ok && id.Name == name
}

func unparen(e ast.Expr) ast.Expr {
	for {
		p, ok := e.(*ast.ParenExpr)
		if !ok {
			return e
		}
		e = p.X
	}
}

// bufIndex matches e.buf[IDX] and returns IDX.
func bufIndex(e ast.Expr) (ast.Expr, bool) {
	ix, ok := e.(*ast.IndexExpr)
	if !ok {
		return nil, false
	}
	sel, ok := ix.X.(*ast.SelectorExpr)
	if !ok || sel.Sel.Name != "buf" || !isIdent(sel.X, "e") {
		return nil, false
	}
	return ix.Index, true
}

// identPlus matches NAME+k / NAME-k / NAME and returns (+k | -k).
func (f *srcFacts) identOffset(e ast.Expr, name string) (int64, bool) {
	e = unparen(e)
	if isIdent(e, name) {
		return 0, true
	}
	if b, ok := e.(*ast.BinaryExpr); ok && isIdent(unparen(b.X), name) {
		if k, ok := f.evalInt(b.Y); ok {
			switch b.Op {
			case token.ADD:
				return int64(k), true
			case token.SUB:
				return -int64(k), true
			}
		}
	}
	return 0, false
}

// shiftOf matches byte(NAME >> k) and returns k.
func (f *srcFacts) byteShift(e ast.Expr, name string) (uint64, bool) {
	c, ok := e.(*ast.CallExpr)
	if !ok || !isIdent(c.Fun, "byte") || len(c.Args) != 1 {
		return 0, false
	}
	a := unparen(c.Args[0])
	if isIdent(a, name) {
		return 0, true
	}
	if b, ok := a.(*ast.BinaryExpr); ok && b.Op == token.SHR && isIdent(unparen(b.X), name) {
		return f.evalInt(b.Y)
	}
	return 0, false
}

func parseSource(repo string) (*srcFacts, error) {
	path := filepath.Join(repo, "lib", "uncompng", "uncompng.go")
	fset := token.NewFileSet()
	file, err := parser.ParseFile(fset, path, nil, 0)
	if err != nil {
		return nil, err
	}
	f := &srcFacts{consts: map[string]uint64{}}
	funcs := map[string]*ast.FuncDecl{}
	for _, d := range file.Decls {
		// digest of every function and of the const/type/var blocks (comments are not in the AST:
		// the file is parsed without parser.ParseComments), as printed by go/printer
		var buf bytes.Buffer
		if err := (&printer.Config{Mode: printer.UseSpaces | printer.TabIndent, Tabwidth: 8}).Fprint(&buf, fset, d); err != nil {
			return nil, err
		}
		name := ""
		switch d := d.(type) {
		case *ast.FuncDecl:
			name = "func " + d.Name.Name
		case *ast.GenDecl:
			if d.Tok == token.IMPORT {
				name = ""
				break
			}
			name = d.Tok.String()
			for _, sp := range d.Specs {
				switch sp := sp.(type) {
				case *ast.ValueSpec:
					name += " " + sp.Names[0].Name
				case *ast.TypeSpec:
					name += " " + sp.Name.Name
				}
				break
			}
		}
		if name != "" {
			// (blank lines and indentation dropped: without the comments their placement is an artefact)
			var norm []string
			for _, ln := range strings.Split(buf.String(), "\n") {
				if t := strings.TrimSpace(ln); t != "" {
					norm = append(norm, t)
				}
			}
			f.digests = append(f.digests, [2]string{name, fmt.Sprintf("%x", sha256.Sum256([]byte(strings.Join(norm, "\n"))))})
		}
		switch d := d.(type) {
		case *ast.FuncDecl:
			funcs[d.Name.Name] = d
		case *ast.GenDecl:
			for _, s := range d.Specs {
				switch s := s.(type) {
				case *ast.TypeSpec:
					if s.Name.Name != "Encoder" {
						continue
					}
					st, ok := s.Type.(*ast.StructType)
					if !ok {
						return nil, fmt.Errorf("Encoder is not a struct")
					}
					for _, fld := range st.Fields.List {
						for _, nm := range fld.Names {
							if nm.Name == "buf" {
								at, ok := fld.Type.(*ast.ArrayType)
								if !ok || at.Len == nil {
									return nil, fmt.Errorf("Encoder.buf is not an array")
								}
								n, ok := f.evalInt(at.Len)
								if !ok {
									return nil, fmt.Errorf("Encoder.buf: length is not a constant")
								}
								f.bufSize = n
							}
						}
					}
				case *ast.ValueSpec:
					for i, name := range s.Names {
						if i >= len(s.Values) {
							continue
						}
						if name.Name == "crc32IEEETable" {
							cl, ok := s.Values[i].(*ast.CompositeLit)
							if !ok {
								return nil, fmt.Errorf("crc32IEEETable is not a composite literal")
							}
							for _, el := range cl.Elts {
								n, ok := f.evalInt(el)
								if !ok || n > 0xFFFFFFFF {
									return nil, fmt.Errorf("crc32IEEETable: unsupported element")
								}
								f.table = append(f.table, n)
							}
							continue
						}
						if d.Tok != token.CONST {
							continue
						}
						if n, ok := f.evalInt(s.Values[i]); ok {
							f.consts[name.Name] = n
							if strings.HasPrefix(name.Name, "ColorType") {
								f.colorTypes = append(f.colorTypes, [2]interface{}{name.Name, n})
							} else if strings.HasPrefix(name.Name, "Depth") {
								f.depths = append(f.depths, [2]interface{}{name.Name, n})
							}
						}
					}
				}
			}
		}
	}
	for _, k := range []string{"eiFirst", "eiLater", "ejMax"} {
		if _, ok := f.consts[k]; !ok {
			return nil, fmt.Errorf("constant %s not found as an integer constant", k)
		}
	}
	if len(f.table) == 0 {
		return nil, fmt.Errorf("crc32IEEETable not found")
	}
	if f.bufSize == 0 {
		return nil, fmt.Errorf("Encoder.buf not found")
	}
	for _, step := range []struct {
		name string
		fn   func(*ast.FuncDecl) error
	}{
		{"pngFileFormatEncoding", f.parseEncoding},
		{"Encode", f.parseEncode},
		{"init", f.parseInit},
		{"updateAdler32", f.parseAdler},
		{"flush", f.parseFlush},
	} {
		fd := funcs[step.name]
		if fd == nil || fd.Body == nil {
			return nil, fmt.Errorf("func %s not found", step.name)
		}
		if err := step.fn(fd); err != nil {
			return nil, fmt.Errorf("func %s: %v", step.name, err)
		}
	}
	return f, nil
}

func (f *srcFacts) parseEncoding(fd *ast.FuncDecl) error {
	if len(fd.Body.List) != 2 {
		return fmt.Errorf("expected a switch and a return")
	}
	sw, ok := fd.Body.List[0].(*ast.SwitchStmt)
	if !ok {
		return fmt.Errorf("expected a switch")
	}
	for _, c := range sw.Body.List {
		cc := c.(*ast.CaseClause)
		if len(cc.List) != 1 || len(cc.Body) != 1 {
			return fmt.Errorf("unexpected case shape")
		}
		k, ok1 := f.evalInt(cc.List[0])
		ret, ok := cc.Body[0].(*ast.ReturnStmt)
		if !ok1 || !ok || len(ret.Results) != 1 {
			return fmt.Errorf("unexpected case shape")
		}
		v, ok := f.evalInt(ret.Results[0])
		if !ok {
			return fmt.Errorf("unexpected return value")
		}
		f.ctEncoding = append(f.ctEncoding, [2]uint64{k, v})
	}
	ret, ok := fd.Body.List[1].(*ast.ReturnStmt)
	if !ok || len(ret.Results) != 1 {
		return fmt.Errorf("expected a final return")
	}
	v, ok := f.evalInt(ret.Results[0])
	if !ok {
		return fmt.Errorf("unexpected default return value")
	}
	f.ctEncDefault = v
	return nil
}

// reserveOf matches `if (ej + N) > ejMax { if err := e.flush(w, ej, false); err != nil { return err }; ej = eiLater }`.
func (f *srcFacts) reserveOf(s ast.Stmt) (uint64, bool) {
	is, ok := s.(*ast.IfStmt)
	if !ok || is.Else != nil || is.Init != nil {
		return 0, false
	}
	c, ok := unparen(is.Cond).(*ast.BinaryExpr)
	if !ok || c.Op != token.GTR || !isIdent(c.Y, "ejMax") {
		return 0, false
	}
	k, ok := f.identOffset(c.X, "ej")
	if !ok || k < 0 || len(is.Body.List) != 2 {
		return 0, false
	}
	inner, ok := is.Body.List[0].(*ast.IfStmt)
	if !ok || inner.Init == nil {
		return 0, false
	}
	as, ok := inner.Init.(*ast.AssignStmt)
	if !ok || len(as.Rhs) != 1 {
		return 0, false
	}
	call, ok := as.Rhs[0].(*ast.CallExpr)
	if !ok || len(call.Args) != 3 || !isIdent(call.Args[0], "w") || !isIdent(call.Args[1], "ej") || !isIdent(call.Args[2], "false") {
		return 0, false
	}
	if sel, ok := call.Fun.(*ast.SelectorExpr); !ok || sel.Sel.Name != "flush" {
		return 0, false
	}
	set, ok := is.Body.List[1].(*ast.AssignStmt)
	if !ok || len(set.Lhs) != 1 || !isIdent(set.Lhs[0], "ej") || !isIdent(set.Rhs[0], "eiLater") || set.Tok != token.ASSIGN {
		return 0, false
	}
	return uint64(k), true
}

func (f *srcFacts) parseEncode(fd *ast.FuncDecl) error {
	// maxDim: the literals of `(width > L) || (height > L)`
	var dims []uint64
	ast.Inspect(fd.Body, func(n ast.Node) bool {
		if b, ok := n.(*ast.BinaryExpr); ok && b.Op == token.GTR {
			if id, ok := unparen(b.X).(*ast.Ident); ok && (id.Name == "width" || id.Name == "height") {
				if v, ok := f.evalInt(b.Y); ok {
					dims = append(dims, v)
				}
			}
		}
		return true
	})
	if len(dims) != 2 || dims[0] != dims[1] {
		return fmt.Errorf("expected one size bound for width and height, found %v", dims)
	}
	f.maxDim = dims[0]
	// the row loop
	var rowLoop *ast.ForStmt
	for _, s := range fd.Body.List {
		if fs, ok := s.(*ast.ForStmt); ok {
			rowLoop = fs
		}
	}
	if rowLoop == nil || len(rowLoop.Body.List) != 5 {
		return fmt.Errorf("row loop: expected 5 statements (reserve, filter byte, ej += 1, row, switch)")
	}
	b := rowLoop.Body.List
	n, ok := f.reserveOf(b[0])
	if !ok {
		return fmt.Errorf("row loop: first statement is not the flush-before-overflow test")
	}
	f.rowReserve = n
	if as, ok := b[1].(*ast.AssignStmt); !ok || len(as.Lhs) != 1 {
		return fmt.Errorf("row loop: expected the filter-byte store")
	} else {
		idx, ok := bufIndex(as.Lhs[0])
		v, ok2 := f.evalInt(as.Rhs[0])
		off, ok3 := int64(0), false
		if ok {
			off, ok3 = f.identOffset(idx, "ej")
		}
		if !ok || !ok2 || !ok3 || off != 0 || v != 0 {
			return fmt.Errorf("row loop: expected e.buf[ej+0] = 0")
		}
	}
	if as, ok := b[2].(*ast.AssignStmt); !ok || as.Tok != token.ADD_ASSIGN || !isIdent(as.Lhs[0], "ej") {
		return fmt.Errorf("row loop: expected ej += 1")
	} else if v, ok := f.evalInt(as.Rhs[0]); !ok || v != n {
		return fmt.Errorf("row loop: ej += %d after reserving %d", v, n)
	}
	sw, ok := b[4].(*ast.SwitchStmt)
	if !ok {
		return fmt.Errorf("row loop: expected the format switch")
	}
	for _, c := range sw.Body.List {
		cc := c.(*ast.CaseClause)
		if len(cc.List) != 1 || len(cc.Body) != 2 {
			return fmt.Errorf("format switch: unexpected case shape")
		}
		label, ok := f.evalInt(cc.List[0])
		if !ok {
			return fmt.Errorf("format switch: label is not a constant")
		}
		// row = row[:K*width]
		var K uint64
		if as, ok := cc.Body[0].(*ast.AssignStmt); !ok || !isIdent(as.Lhs[0], "row") {
			return fmt.Errorf("case %#x: expected row = row[:K*width]", label)
		} else if se, ok := as.Rhs[0].(*ast.SliceExpr); !ok || se.Low != nil || se.High == nil || !isIdent(se.X, "row") {
			return fmt.Errorf("case %#x: expected row = row[:K*width]", label)
		} else if m, ok := se.High.(*ast.BinaryExpr); !ok || m.Op != token.MUL || !isIdent(m.Y, "width") {
			return fmt.Errorf("case %#x: expected row = row[:K*width]", label)
		} else if K, ok = f.evalInt(m.X); !ok {
			return fmt.Errorf("case %#x: expected row = row[:K*width]", label)
		}
		fs, ok := cc.Body[1].(*ast.ForStmt)
		if !ok || len(fs.Body.List) < 4 {
			return fmt.Errorf("case %#x: expected the pixel loop", label)
		}
		if c, ok := fs.Cond.(*ast.BinaryExpr); !ok || c.Op != token.LSS || !isIdent(c.X, "x") || !isIdent(c.Y, "width") {
			return fmt.Errorf("case %#x: pixel loop condition is not x < width", label)
		}
		body := fs.Body.List
		N, ok := f.reserveOf(body[0])
		if !ok {
			return fmt.Errorf("case %#x: pixel loop does not start with the flush-before-overflow test", label)
		}
		stores := body[1 : len(body)-2]
		for i, s := range stores {
			as, ok := s.(*ast.AssignStmt)
			if !ok || as.Tok != token.ASSIGN || len(as.Lhs) != 1 {
				return fmt.Errorf("case %#x: store %d has an unexpected shape", label, i)
			}
			idx, ok := bufIndex(as.Lhs[0])
			if !ok {
				return fmt.Errorf("case %#x: store %d is not to e.buf", label, i)
			}
			off, ok := f.identOffset(idx, "ej")
			src, ok2 := as.Rhs[0].(*ast.IndexExpr)
			if !ok || !ok2 || !isIdent(src.X, "row") || off != int64(i) {
				return fmt.Errorf("case %#x: store %d is not e.buf[ej+%d] = row[%d]", label, i, i, i)
			}
			if v, ok := f.evalInt(src.Index); !ok || v != uint64(i) {
				return fmt.Errorf("case %#x: store %d is not e.buf[ej+%d] = row[%d]", label, i, i, i)
			}
		}
		var N2, K2 uint64
		if as, ok := body[len(body)-2].(*ast.AssignStmt); !ok || as.Tok != token.ADD_ASSIGN || !isIdent(as.Lhs[0], "ej") {
			return fmt.Errorf("case %#x: expected ej += N", label)
		} else if N2, ok = f.evalInt(as.Rhs[0]); !ok {
			return fmt.Errorf("case %#x: expected ej += N", label)
		}
		if as, ok := body[len(body)-1].(*ast.AssignStmt); !ok || as.Tok != token.ASSIGN || !isIdent(as.Lhs[0], "row") {
			return fmt.Errorf("case %#x: expected row = row[K:]", label)
		} else if se, ok := as.Rhs[0].(*ast.SliceExpr); !ok || se.High != nil || se.Low == nil || !isIdent(se.X, "row") {
			return fmt.Errorf("case %#x: expected row = row[K:]", label)
		} else if K2, ok = f.evalInt(se.Low); !ok {
			return fmt.Errorf("case %#x: expected row = row[K:]", label)
		}
		f.loopTable = append(f.loopTable, [6]uint64{label, K, N, uint64(len(stores)), N2, K2})
	}
	return nil
}

func (f *srcFacts) parseInit(fd *ast.FuncDecl) error {
	for _, s := range fd.Body.List {
		as, ok := s.(*ast.AssignStmt)
		if !ok || len(as.Lhs) != 1 || len(as.Rhs) != 1 {
			return fmt.Errorf("unexpected statement")
		}
		if as.Tok == token.DEFINE {
			// ihdrCRC32 := crc32IEEE(e.buf[LO:HI])
			call, ok := as.Rhs[0].(*ast.CallExpr)
			if !ok || !isIdent(as.Lhs[0], "ihdrCRC32") || !isIdent(call.Fun, "crc32IEEE") || len(call.Args) != 1 {
				return fmt.Errorf("unexpected definition")
			}
			se, ok := call.Args[0].(*ast.SliceExpr)
			if !ok || se.Low == nil || se.High == nil {
				return fmt.Errorf("unexpected crc32IEEE argument")
			}
			lo, ok1 := f.evalInt(se.Low)
			hi, ok2 := f.evalInt(se.High)
			if !ok1 || !ok2 {
				return fmt.Errorf("unexpected crc32IEEE bounds")
			}
			f.initProg = append(f.initProg, fmt.Sprintf(".crc %d %d", lo, hi))
			continue
		}
		idxE, ok := bufIndex(as.Lhs[0])
		if !ok || as.Tok != token.ASSIGN {
			return fmt.Errorf("unexpected store target")
		}
		idx, ok := f.evalInt(idxE)
		if !ok {
			return fmt.Errorf("store index is not a constant")
		}
		rhs := as.Rhs[0]
		var src string
		if v, ok := f.evalInt(rhs); ok {
			src = fmt.Sprintf("(.lit %d)", v)
		} else if k, ok := f.byteShift(rhs, "width"); ok {
			src = fmt.Sprintf("(.width %d)", k)
		} else if k, ok := f.byteShift(rhs, "height"); ok {
			src = fmt.Sprintf("(.height %d)", k)
		} else if k, ok := f.byteShift(rhs, "ihdrCRC32"); ok {
			src = fmt.Sprintf("(.crc %d)", k)
		} else if k, ok := f.byteShift(rhs, "depth"); ok && k == 0 {
			src = ".depth"
		} else if call, ok := rhs.(*ast.CallExpr); ok && len(call.Args) == 0 {
			sel, ok := call.Fun.(*ast.SelectorExpr)
			if !ok || sel.Sel.Name != "pngFileFormatEncoding" || !isIdent(sel.X, "colorType") {
				return fmt.Errorf("unexpected call in a store")
			}
			src = ".colorEnc"
		} else {
			return fmt.Errorf("store to buf[%#x]: unsupported right-hand side", idx)
		}
		f.initProg = append(f.initProg, fmt.Sprintf(".store %d %s", idx, src))
	}
	return nil
}

func (f *srcFacts) parseAdler(fd *ast.FuncDecl) error {
	var mods []uint64
	ast.Inspect(fd.Body, func(n ast.Node) bool {
		switch n := n.(type) {
		case *ast.AssignStmt:
			if n.Tok == token.REM_ASSIGN {
				if v, ok := f.evalInt(n.Rhs[0]); ok {
					mods = append(mods, v)
				}
			}
			if n.Tok == token.DEFINE && isIdent(n.Lhs[0], "end") {
				if k, ok := f.identOffset(n.Rhs[0], "ei"); ok && k > 0 {
					f.adlerChunk = uint64(k)
				}
			}
			if n.Tok == token.ASSIGN && len(n.Lhs) == 1 {
				if idx, ok := bufIndex(n.Lhs[0]); ok {
					if v, ok := f.evalInt(idx); ok {
						f.adlerWrites = append(f.adlerWrites, v)
					}
				}
			}
		case *ast.IndexExpr:
			if idx, ok := bufIndex(n); ok {
				if v, ok := f.evalInt(idx); ok {
					f.adlerReads = append(f.adlerReads, v)
				}
			}
		}
		return true
	})
	// (the reads list also contains the four store targets: Inspect visits them as IndexExprs too)
	if len(mods) != 2 || mods[0] != mods[1] {
		return fmt.Errorf("expected `a %%= M; b %%= M`, found %v", mods)
	}
	f.adlerMod = mods[0]
	if f.adlerChunk == 0 {
		return fmt.Errorf("`end := ei + CHUNK` not found")
	}
	if len(f.adlerReads) != 8 || len(f.adlerWrites) != 4 {
		return fmt.Errorf("expected 4 state reads and 4 state writes, found %d/%d", len(f.adlerReads)-len(f.adlerWrites), len(f.adlerWrites))
	}
	f.adlerReads = f.adlerReads[:4]
	return nil
}

func (f *srcFacts) parseFlush(fd *ast.FuncDecl) error {
	var firstIf *ast.IfStmt
	for _, s := range fd.Body.List {
		if is, ok := s.(*ast.IfStmt); ok && firstIf == nil {
			firstIf = is
		}
		if ds, ok := s.(*ast.DeclStmt); ok {
			gd := ds.Decl.(*ast.GenDecl)
			for _, sp := range gd.Specs {
				vs := sp.(*ast.ValueSpec)
				if len(vs.Names) == 1 && vs.Names[0].Name == "iendChunk" && len(vs.Values) == 1 {
					lit, ok := vs.Values[0].(*ast.BasicLit)
					if !ok || lit.Kind != token.STRING {
						return fmt.Errorf("iendChunk is not a string literal")
					}
					s, err := strconv.Unquote(lit.Value)
					if err != nil {
						return err
					}
					f.iendChunk = []byte(s)
				}
			}
		}
	}
	if f.iendChunk == nil {
		return fmt.Errorf("const iendChunk not found")
	}
	if firstIf == nil {
		return fmt.Errorf("first-chunk test not found")
	}
	c, ok := firstIf.Cond.(*ast.BinaryExpr)
	if !ok || c.Op != token.EQL {
		return fmt.Errorf("first-chunk test is not e.buf[I] == V")
	}
	idxE, ok := bufIndex(c.X)
	if !ok {
		return fmt.Errorf("first-chunk test is not e.buf[I] == V")
	}
	i, ok1 := f.evalInt(idxE)
	v, ok2 := f.evalInt(c.Y)
	if !ok1 || !ok2 {
		return fmt.Errorf("first-chunk test is not e.buf[I] == V")
	}
	f.flushTest = [2]uint64{i, v}
	branch := func(b *ast.BlockStmt) ([3]uint64, string, error) {
		var out [3]uint64
		ei := ""
		if len(b.List) != 7 {
			return out, "", fmt.Errorf("length branch: expected 7 statements")
		}
		as, ok := b.List[0].(*ast.AssignStmt)
		if !ok || as.Tok != token.DEFINE || !isIdent(as.Lhs[0], "idatChunkLen") {
			return out, "", fmt.Errorf("length branch: expected idatChunkLen := ej - BASE")
		}
		k, ok := f.identOffset(as.Rhs[0], "ej")
		if !ok || k >= 0 {
			return out, "", fmt.Errorf("length branch: expected idatChunkLen := ej - BASE")
		}
		out[0] = uint64(-k)
		if is, ok := b.List[1].(*ast.IfStmt); !ok || !isIdent(is.Cond, "final") || len(is.Body.List) != 1 {
			return out, "", fmt.Errorf("length branch: expected if final { idatChunkLen += 4 }")
		} else if as, ok := is.Body.List[0].(*ast.AssignStmt); !ok || as.Tok != token.ADD_ASSIGN || !isIdent(as.Lhs[0], "idatChunkLen") {
			return out, "", fmt.Errorf("length branch: expected if final { idatChunkLen += 4 }")
		} else if v, ok := f.evalInt(as.Rhs[0]); !ok || v != 4 {
			return out, "", fmt.Errorf("length branch: expected if final { idatChunkLen += 4 }")
		}
		for j := 0; j < 4; j++ {
			as, ok := b.List[2+j].(*ast.AssignStmt)
			if !ok {
				return out, "", fmt.Errorf("length branch: expected a store")
			}
			idxE, ok := bufIndex(as.Lhs[0])
			if !ok {
				return out, "", fmt.Errorf("length branch: expected a store to e.buf")
			}
			idx, ok1 := f.evalInt(idxE)
			sh, ok2 := f.byteShift(as.Rhs[0], "idatChunkLen")
			if !ok1 || !ok2 || sh != uint64(24-8*j) {
				return out, "", fmt.Errorf("length branch: store %d is not the big-endian byte %d", j, j)
			}
			if j == 0 {
				out[1] = idx
			} else if idx != out[1]+uint64(j) {
				return out, "", fmt.Errorf("length branch: stores are not consecutive")
			}
		}
		as, ok = b.List[6].(*ast.AssignStmt)
		if !ok || len(as.Lhs) != 2 || !isIdent(as.Lhs[0], "crc32Start") || !isIdent(as.Lhs[1], "ei") {
			return out, "", fmt.Errorf("length branch: expected crc32Start, ei = …")
		}
		out[2], ok = f.evalInt(as.Rhs[0])
		id, ok2 := as.Rhs[1].(*ast.Ident)
		if !ok || !ok2 {
			return out, "", fmt.Errorf("length branch: expected crc32Start, ei = CONST, NAME")
		}
		ei = id.Name
		return out, ei, nil
	}
	var err error
	if f.flushFirst, f.flushFirstEi, err = branch(firstIf.Body); err != nil {
		return err
	}
	els, ok := firstIf.Else.(*ast.BlockStmt)
	if !ok {
		return fmt.Errorf("first-chunk test has no else block")
	}
	if f.flushLater, f.flushLaterEi, err = branch(els); err != nil {
		return err
	}
	// remaining literal stores at top level and inside `if final` / `if !final`
	var walk func(list []ast.Stmt)
	walk = func(list []ast.Stmt) {
		for _, s := range list {
			switch s := s.(type) {
			case *ast.IfStmt:
				if s == firstIf {
					continue
				}
				walk(s.Body.List)
			case *ast.AssignStmt:
				if len(s.Lhs) != 1 || s.Tok != token.ASSIGN {
					continue
				}
				idxE, ok := bufIndex(s.Lhs[0])
				if !ok {
					continue
				}
				if k, ok := f.identOffset(idxE, "ei"); ok && k < 0 {
					f.flushHeader = append(f.flushHeader, uint64(-k))
				}
				if _, ok := f.identOffset(idxE, "ej"); ok {
					if srcE, ok := bufIndex(s.Rhs[0]); ok {
						if v, ok := f.evalInt(srcE); ok {
							f.adlerCopy = append(f.adlerCopy, v)
						}
					}
				}
				if idx, ok := f.evalInt(idxE); ok {
					if v, ok := f.evalInt(s.Rhs[0]); ok {
						f.flushRearm = append(f.flushRearm, [2]uint64{idx, v})
					}
				}
			}
		}
	}
	walk(fd.Body.List)
	return nil
}

func natList(xs []uint64) string {
	var parts []string
	for _, x := range xs {
		parts = append(parts, strconv.FormatUint(x, 10))
	}
	return "[" + strings.Join(parts, ", ") + "]"
}

func renderTables(f *srcFacts) string {
	var b strings.Builder
	b.WriteString("/- GENERATED by `wvh_c19 -mode gen` from /repo/lib/uncompng/uncompng.go. DO NOT EDIT. -/\n")
	b.WriteString("namespace WuffsVerif.Gen.C19\n\n")
	for _, k := range []string{"eiFirst", "eiLater", "ejMax"} {
		fmt.Fprintf(&b, "/-- `%s` of uncompng.go -/\nabbrev %s : Nat := %d\n\n", k, k, f.consts[k])
	}
	fmt.Fprintf(&b, "/-- `buf [N]byte` of `type Encoder struct` -/\nabbrev bufSize : Nat := %d\n\n", f.bufSize)
	b.WriteString("/-- the `ColorType…` constants, in source order -/\ndef colorTypes : List (String × Nat) := [")
	for i, c := range f.colorTypes {
		if i > 0 {
			b.WriteString(", ")
		}
		fmt.Fprintf(&b, "(%q, %d)", c[0], c[1])
	}
	b.WriteString("]\n\n/-- the `Depth…` constants -/\ndef depths : List (String × Nat) := [")
	for i, c := range f.depths {
		if i > 0 {
			b.WriteString(", ")
		}
		fmt.Fprintf(&b, "(%q, %d)", c[0], c[1])
	}
	b.WriteString("]\n\n/-- `ColorType.pngFileFormatEncoding`: the cases of the switch, (colour type, PNG encoding) -/\ndef ctEncoding : List (Nat × Nat) := [")
	for i, c := range f.ctEncoding {
		if i > 0 {
			b.WriteString(", ")
		}
		fmt.Fprintf(&b, "(%d, %d)", c[0], c[1])
	}
	fmt.Fprintf(&b, "]\n\n/-- … and its final `return` -/\nabbrev ctEncodingDefault : Nat := %d\n\n", f.ctEncDefault)
	fmt.Fprintf(&b, "/-- `Encode`: `(width > N) || (height > N)` ⇒ \"unsupported image size\" -/\nabbrev maxDim : Nat := %d\n\n", f.maxDim)
	fmt.Fprintf(&b, "/-- `Encode`, row loop: `if (ej + N) > ejMax {flush}`; `e.buf[ej+0] = 0`; `ej += N` -/\nabbrev rowReserve : Nat := %d\n\n", f.rowReserve)
	b.WriteString("/-- `Encode`, the format switch, one entry per case:\n(label `depth | colorType`, K of `row[:K*width]`, N of `(ej + N) > ejMax`, number of stores\n`e.buf[ej+i] = row[i]` (i = 0, 1, …, checked by the generator), N of `ej += N`, K of `row = row[K:]`) -/\n")
	b.WriteString("def loopTable : List (Nat × Nat × Nat × Nat × Nat × Nat) := [")
	for i, r := range f.loopTable {
		if i > 0 {
			b.WriteString(",")
		}
		fmt.Fprintf(&b, "\n  (%d, %d, %d, %d, %d, %d)", r[0], r[1], r[2], r[3], r[4], r[5])
	}
	b.WriteString("]\n\n")
	b.WriteString("/-- right-hand sides of the stores of `init` -/\ninductive InitSrc where\n" +
		"  | lit (v : Nat)          -- an integer or character literal\n" +
		"  | width (shift : Nat)    -- `byte(width >> shift)`\n" +
		"  | height (shift : Nat)   -- `byte(height >> shift)`\n" +
		"  | depth                  -- `byte(depth)`\n" +
		"  | colorEnc               -- `colorType.pngFileFormatEncoding()`\n" +
		"  | crc (shift : Nat)      -- `byte(ihdrCRC32 >> shift)`\nderiving DecidableEq, Repr\n\n")
	b.WriteString("/-- statements of `init` -/\ninductive InitStmt where\n" +
		"  | store (idx : Nat) (src : InitSrc)   -- `e.buf[idx] = src`\n" +
		"  | crc (lo hi : Nat)                   -- `ihdrCRC32 := crc32IEEE(e.buf[lo:hi])`\nderiving DecidableEq, Repr\n\n")
	fmt.Fprintf(&b, "/-- the body of `func (e *Encoder) init`, statement by statement (%d statements) -/\ndef initProg : List InitStmt := [", len(f.initProg))
	for i, s := range f.initProg {
		if i > 0 {
			b.WriteString(",")
		}
		b.WriteString("\n  " + s)
	}
	b.WriteString("]\n\n")
	fmt.Fprintf(&b, "/-- `updateAdler32`: `end := ei + N` -/\nabbrev adlerChunk : Nat := %d\n\n", f.adlerChunk)
	fmt.Fprintf(&b, "/-- `updateAdler32`: `a %%= N; b %%= N` -/\nabbrev adlerMod : Nat := %d\n\n", f.adlerMod)
	fmt.Fprintf(&b, "/-- `updateAdler32`: buffer indexes read for (b-high, b-low, a-high, a-low), in source order -/\ndef adlerReads : List Nat := %s\n\n", natList(f.adlerReads))
	fmt.Fprintf(&b, "/-- `updateAdler32`: buffer indexes written, in source order -/\ndef adlerWrites : List Nat := %s\n\n", natList(f.adlerWrites))
	fmt.Fprintf(&b, "/-- `flush`: `if e.buf[I] == V` (first IDAT chunk) as (I, V) -/\ndef flushTest : Nat × Nat := (%d, %d)\n\n", f.flushTest[0], f.flushTest[1])
	fmt.Fprintf(&b, "/-- `flush`, first-chunk branch: (BASE of `idatChunkLen := ej - BASE`, index of the first of its four\nbig-endian length bytes, `crc32Start`), and the name assigned to `ei` -/\ndef flushFirst : Nat × Nat × Nat := (%d, %d, %d)\ndef flushFirstEi : String := %q\n\n",
		f.flushFirst[0], f.flushFirst[1], f.flushFirst[2], f.flushFirstEi)
	fmt.Fprintf(&b, "/-- `flush`, later-chunk branch, the same -/\ndef flushLater : Nat × Nat × Nat := (%d, %d, %d)\ndef flushLaterEi : String := %q\n\n",
		f.flushLater[0], f.flushLater[1], f.flushLater[2], f.flushLaterEi)
	fmt.Fprintf(&b, "/-- `flush`: the k of the DEFLATE block header stores `e.buf[ei-k] = …`, in source order -/\ndef flushHeader : List Nat := %s\n\n", natList(f.flushHeader))
	fmt.Fprintf(&b, "/-- `flush`: sources of `e.buf[ej+i] = e.buf[SRC]` (the Adler-32 copy of the final flush) -/\ndef flushAdlerCopy : List Nat := %s\n\n", natList(f.adlerCopy))
	b.WriteString("/-- `flush`: stores of a literal to a literal index (re-arming `IDAT` after a non-final Write) -/\ndef flushRearm : List (Nat × Nat) := [")
	for i, r := range f.flushRearm {
		if i > 0 {
			b.WriteString(", ")
		}
		fmt.Fprintf(&b, "(%d, %d)", r[0], r[1])
	}
	b.WriteString("]\n\n")
	var ie []uint64
	for _, c := range f.iendChunk {
		ie = append(ie, uint64(c))
	}
	fmt.Fprintf(&b, "/-- `const iendChunk` of `flush` -/\ndef iendChunkSrc : List Nat := %s\n\n", natList(ie))
	sort.SliceStable(f.digests, func(i, j int) bool { return f.digests[i][0] < f.digests[j][0] })
	b.WriteString("/-- every top-level declaration of uncompng.go (imports excepted): name and SHA-256 of its text as\nprinted by go/printer without comments — what the hand-written model was reviewed against -/\ndef srcDigests : List (String × String) := [")
	for i, d := range f.digests {
		if i > 0 {
			b.WriteString(",")
		}
		fmt.Fprintf(&b, "\n  (%q, %q)", d[0], d[1])
	}
	b.WriteString("]\n\n")
	fmt.Fprintf(&b, "/-- `crc32IEEETable` of uncompng.go (%d entries) -/\ndef crc32IEEETable : Array UInt32 := #[", len(f.table))
	for i, v := range f.table {
		if i%8 == 0 {
			b.WriteString("\n  ")
		}
		fmt.Fprintf(&b, "0x%08X", v)
		if i+1 < len(f.table) {
			b.WriteString(",")
			if i%8 != 7 {
				b.WriteString(" ")
			}
		}
	}
	b.WriteString("\n]\n\nend WuffsVerif.Gen.C19\n")
	return b.String()
}

func mustGen(repo string) string {
	s, err := genTables(repo)
	if err != nil {
		fmt.Fprintln(os.Stderr, "c19 gen:", err)
		os.Exit(2)
	}
	return s
}
