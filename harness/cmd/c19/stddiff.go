package main

// Validation of the SPECIFICATION the C19 theorems are stated against (Model/Png/Spec.lean) against a
// standard decoder, Go's image/png — so that "Spec.decode accepts and returns these pixels" means
// "a standard decoder accepts and reports these pixels".
//
// For damaged variants of REAL encoder outputs (and the real outputs themselves):
//
//   soundness   Spec accepts  ==> image/png accepts, same size, same Go image type, and the same
//               (R,G,B,A) for every pixel.  No exceptions.  Small streams go through the `stdview` op:
//               the implementation line is what image/png reports, the model line is
//               `Spec.Image.rgba` of `Spec.decode` — compared byte for byte by ./check.  (This is also
//               how the alpha clause of the property — RGBX decodes opaque — is tied to image/png.)
//   tightness   image/png accepts but Spec rejects ==> the stream is in one of the DOCUMENTED classes
//               below, established by an independent predicate (not by the damage kind):
//                 trailing-data-after-IEND   bytes after the IEND chunk (image/png stops reading there)
//                 ignored-chunk              chunks other than IHDR/IDAT/IEND (image/png skips unknown
//                                            chunks, honours PLTE/tRNS/gAMA…; the spec subset has none)
//                 idat-after-zlib-end        IDAT data after the end of the zlib stream (image/png: "ignore
//                                            trailing zero-length or garbage IDAT chunks")
//                 ihdr-outside-subset        interlace 1, bit depth 1/2/4, colour type 3
//                 compressed-block           DEFLATE block types 01/10 (the subset is stored blocks only)
//                 filter-type                scanline filter types 1..4 (the subset is filter 0 only)
//               Anything else is reported as a failure `spec-vs-std:…` (a defect of OUR specification,
//               never of wuffs — but the theorems would then not mean what they say).
//
// Spec.decode itself is tied to the Go reference walker (ref.go) by the `specdecode`/`stdview` op lines;
// the predicates here use the walker.

import (
	"bytes"
	"compress/zlib"
	"encoding/binary"
	"fmt"
	"image"
	"image/png"
	"io"
	"strings"

	"wvh/hlib"
)

// ---- canonical (R,G,B,A) views

func put16(out []byte, v int) []byte { return append(out, byte(v>>8), byte(v)) }

// stdRGBA: Go image type name and, per pixel, R G B A (non-premultiplied, at the image's depth), 2 bytes each.
// The alpha of RGBA/RGBA64 images is READ from Pix, not assumed.
func stdRGBA(m image.Image) (string, []byte) {
	b := m.Bounds()
	w, h := b.Dx(), b.Dy()
	out := make([]byte, 0, w*h*8)
	switch m := m.(type) {
	case *image.Gray:
		for y := 0; y < h; y++ {
			for x := 0; x < w; x++ {
				v := int(m.Pix[y*m.Stride+x])
				out = put16(put16(put16(put16(out, v), v), v), 255)
			}
		}
		return "Gray", out
	case *image.Gray16:
		for y := 0; y < h; y++ {
			for x := 0; x < w; x++ {
				p := m.Pix[y*m.Stride+2*x:]
				v := int(p[0])<<8 | int(p[1])
				out = put16(put16(put16(put16(out, v), v), v), 65535)
			}
		}
		return "Gray16", out
	case *image.RGBA, *image.NRGBA:
		var pix []byte
		var stride int
		name := "RGBA"
		if r, ok := m.(*image.RGBA); ok {
			pix, stride = r.Pix, r.Stride
		} else {
			n := m.(*image.NRGBA)
			pix, stride, name = n.Pix, n.Stride, "NRGBA"
		}
		for y := 0; y < h; y++ {
			for x := 0; x < w; x++ {
				p := pix[y*stride+4*x:]
				for c := 0; c < 4; c++ {
					out = put16(out, int(p[c]))
				}
			}
		}
		return name, out
	case *image.RGBA64, *image.NRGBA64:
		var pix []byte
		var stride int
		name := "RGBA64"
		if r, ok := m.(*image.RGBA64); ok {
			pix, stride = r.Pix, r.Stride
		} else {
			n := m.(*image.NRGBA64)
			pix, stride, name = n.Pix, n.Stride, "NRGBA64"
		}
		for y := 0; y < h; y++ {
			out = append(out, pix[y*stride:y*stride+8*w]...)
		}
		return name, out
	}
	return fmt.Sprintf("%T", m), nil
}

// refRGBA: the same view computed from the reference walker's image.
func refRGBA(im *refImage) (string, []byte) {
	bps := im.depth / 8
	ch := refChannels(im.ct)
	maxv := 1<<uint(im.depth) - 1
	sample := func(p, c int) int {
		i := (p*ch + c) * bps
		if bps == 2 {
			return int(im.pix[i])<<8 | int(im.pix[i+1])
		}
		return int(im.pix[i])
	}
	out := make([]byte, 0, im.w*im.h*8)
	for p := 0; p < im.w*im.h; p++ {
		var r, g, b, a int
		switch im.ct {
		case 0:
			r = sample(p, 0)
			g, b, a = r, r, maxv
		case 2:
			r, g, b, a = sample(p, 0), sample(p, 1), sample(p, 2), maxv
		case 4:
			r = sample(p, 0)
			g, b, a = r, r, sample(p, 1)
		case 6:
			r, g, b, a = sample(p, 0), sample(p, 1), sample(p, 2), sample(p, 3)
		}
		out = put16(put16(put16(put16(out, r), g), b), a)
	}
	name := map[int]string{0: "Gray", 2: "RGBA", 4: "NRGBA", 6: "NRGBA"}[im.ct]
	if im.depth == 16 {
		name = map[int]string{0: "Gray16", 2: "RGBA64", 4: "NRGBA64", 6: "NRGBA64"}[im.ct]
	}
	return name, out
}

// stdDecode runs image/png, refusing to allocate absurd images (a damaged IHDR).
func stdDecode(stream []byte) (image.Image, error) {
	cfg, err := png.DecodeConfig(bytes.NewReader(stream))
	if err != nil {
		return nil, err
	}
	if int64(cfg.Width)*int64(cfg.Height) > 1<<24 {
		return nil, fmt.Errorf("c19: image too large for the oracle (%dx%d)", cfg.Width, cfg.Height)
	}
	return png.Decode(bytes.NewReader(stream))
}

// ---- lenient chunk walk and normalisations (for the documented-difference predicates)

type rawChunk struct {
	typ  string
	data []byte
}

// walkToIEND: chunks (length + CRC checked) up to and including the first IEND; rest = bytes after it.
func walkToIEND(b []byte) (cs []rawChunk, rest []byte, ok bool) {
	if len(b) < 8 || !bytes.Equal(b[:8], pngSig) {
		return nil, nil, false
	}
	pos := 8
	for pos < len(b) {
		if len(b)-pos < 12 {
			return nil, nil, false
		}
		l := int(binary.BigEndian.Uint32(b[pos:]))
		if l >= 1<<31 || len(b)-pos < 12+l {
			return nil, nil, false
		}
		c := mkChunk(string(b[pos+4:pos+8]), b[pos+8:pos+8+l])
		if !bytes.Equal(c[len(c)-4:], b[pos+8+l:pos+12+l]) {
			return nil, nil, false
		}
		cs = append(cs, rawChunk{string(b[pos+4 : pos+8]), b[pos+8 : pos+8+l]})
		pos += 12 + l
		if cs[len(cs)-1].typ == "IEND" {
			return cs, b[pos:], true
		}
	}
	return nil, nil, false
}

func buildChunks(cs []rawChunk) []byte {
	out := append([]byte(nil), pngSig...)
	for _, c := range cs {
		out = append(out, mkChunk(c.typ, c.data)...)
	}
	return out
}

// zlibEnd: length of the zlib stream at the start of z when it is stored-blocks-only and complete; else -1.
func zlibEnd(z []byte) int {
	pos := 2
	for {
		if len(z) < pos+5 {
			return -1
		}
		if z[pos]&6 != 0 {
			return -1
		}
		l := int(z[pos+1]) | int(z[pos+2])<<8
		fin := z[pos]&1 == 1
		pos += 5 + l
		if len(z) < pos {
			return -1
		}
		if fin {
			break
		}
	}
	if len(z) < pos+4 {
		return -1
	}
	return pos + 4
}

// classify names the documented class of a stream that image/png accepts and the walker rejects, or "".
func classify(stream []byte) string {
	cs, rest, ok := walkToIEND(stream)
	if !ok {
		return ""
	}
	var classes []string
	if len(rest) > 0 {
		classes = append(classes, "trailing-data-after-IEND")
	}
	var core []rawChunk
	dropped := false
	for _, c := range cs {
		if c.typ == "IHDR" || c.typ == "IDAT" || c.typ == "IEND" {
			core = append(core, c)
		} else {
			dropped = true
		}
	}
	if dropped {
		classes = append(classes, "ignored-chunk")
	}
	// IDAT data after the end of the zlib stream (only IDATs that directly follow each other matter to
	// image/png; after dropping the other chunks they all do — the spec concatenates all of them too)
	var z []byte
	first, last := -1, -1
	for i, c := range core {
		if c.typ == "IDAT" {
			if first < 0 {
				first = i
			}
			last = i
			z = append(z, c.data...)
		}
	}
	if first >= 0 {
		if end := zlibEnd(z); end >= 0 && end < len(z) {
			classes = append(classes, "idat-after-zlib-end")
			var nc []rawChunk
			nc = append(nc, core[:first]...)
			nc = append(nc, rawChunk{"IDAT", z[:end]})
			for _, c := range core[first:] {
				if c.typ != "IDAT" {
					nc = append(nc, c)
				}
			}
			core = nc
			_ = last
		}
	}
	norm := buildChunks(core)
	if len(classes) > 0 {
		if im, _ := refDecode(norm); im != nil {
			return strings.Join(classes, "+")
		}
	}
	// outside the subset by content
	_, why := refDecode(norm)
	if len(core) > 0 && core[0].typ == "IHDR" && len(core[0].data) == 13 {
		d := core[0].data
		depth, ct := d[8], d[9]
		if d[10] == 0 && d[11] == 0 && (d[12] == 1 || depth == 1 || depth == 2 || depth == 4 || ct == 3) {
			if why == "ihdr-methods" || why == "depth" || why == "colortype" {
				classes = append(classes, "ihdr-outside-subset")
				return strings.Join(classes, "+")
			}
		}
		if why == "deflate-btype" || why == "scanline" {
			zr, err := zlib.NewReader(bytes.NewReader(z))
			if err != nil {
				return ""
			}
			raw, err := io.ReadAll(zr)
			if err != nil {
				return ""
			}
			if why == "deflate-btype" {
				classes = append(classes, "compressed-block")
				return strings.Join(classes, "+")
			}
			w := int(binary.BigEndian.Uint32(d[0:]))
			h := int(binary.BigEndian.Uint32(d[4:]))
			rb := w * refChannels(int(ct)) * int(depth) / 8
			if len(raw) == h*(1+rb) {
				other := false
				for y := 0; y < h; y++ {
					f := raw[y*(1+rb)]
					if f > 4 {
						return ""
					}
					if f != 0 {
						other = true
					}
				}
				if other {
					classes = append(classes, "filter-type")
					return strings.Join(classes, "+")
				}
			}
		}
	}
	return ""
}

// ---- damage

type parsedPNG struct {
	ihdr   []byte
	idats  [][]byte
	z      []byte // concatenated IDAT data
	blocks [][]byte
	raw    []byte
}

func parseReal(stream []byte) *parsedPNG {
	cs, _ := refChunks(stream)
	p := &parsedPNG{}
	for _, c := range cs {
		switch c.typ {
		case "IHDR":
			p.ihdr = c.data
		case "IDAT":
			p.idats = append(p.idats, c.data)
			p.z = append(p.z, c.data...)
		}
	}
	pos := 2
	for {
		l := int(p.z[pos+1]) | int(p.z[pos+2])<<8
		p.blocks = append(p.blocks, p.z[pos+5:pos+5+l])
		p.raw = append(p.raw, p.z[pos+5:pos+5+l]...)
		fin := p.z[pos]&1 == 1
		pos += 5 + l
		if fin {
			break
		}
	}
	return p
}

// rebuild with the given IHDR, zlib bytes cut into IDAT chunks of the original sizes (last takes the rest)
func (p *parsedPNG) build(ihdr, z []byte, extra func(stage string) []byte) []byte {
	out := append([]byte(nil), pngSig...)
	out = append(out, mkChunk("IHDR", ihdr)...)
	if extra != nil {
		out = append(out, extra("after-ihdr")...)
	}
	for i, d := range p.idats {
		n := len(d)
		if i == len(p.idats)-1 || n > len(z) {
			n = len(z)
		}
		out = append(out, mkChunk("IDAT", z[:n])...)
		z = z[n:]
		if i == 0 && extra != nil {
			out = append(out, extra("after-first-idat")...)
		}
	}
	if extra != nil {
		out = append(out, extra("before-iend")...)
	}
	out = append(out, mkChunk("IEND", nil)...)
	if extra != nil {
		out = append(out, extra("after-iend")...)
	}
	return out
}

// zlibOf frames raw with the original block cuts.
func (p *parsedPNG) zlibOf(raw []byte, hdr [2]byte, junk byte, fixAdler bool) []byte {
	var cuts []int
	for _, b := range p.blocks[:len(p.blocks)-1] {
		cuts = append(cuts, len(b))
	}
	z := mkZlib(raw, cuts, junk)
	z[0], z[1] = hdr[0], hdr[1]
	if !fixAdler {
		copy(z[len(z)-4:], p.z[len(p.z)-4:])
	}
	return z
}

var damageKinds = []string{
	"none", "flip-raw", "truncate", "append-garbage", "insert-byte", "delete-byte",
	"ihdr-width", "ihdr-height", "ihdr-swap-depth", "ihdr-colortype", "ihdr-depth-small", "ihdr-interlace", "ihdr-method",
	"pixel-fixed", "pixel-unfixed", "filter-1-4", "filter-5", "adler-bad", "crc-bad",
	"zlib-hdr-level", "zlib-hdr-window", "zlib-hdr-fdict", "zlib-hdr-fcheck", "zlib-hdr-cm",
	"block-junk-bits", "block-btype", "block-nlen", "block-len", "block-early-final", "block-no-final", "block-empty", "block-resplit",
	"recompress", "after-adler", "adler-short", "extra-scanline", "missing-scanline",
	"idat-drop", "idat-dup", "idat-swap", "idat-split", "idat-merge", "idat-empty", "idat-garbage-tail",
	"iend-drop", "iend-dup", "iend-payload", "ancillary", "unknown-critical", "plte", "idat-after-iend", "ihdr-dup", "no-idat", "ihdr-second",
}

func damage(rng *hlib.Rand, p *parsedPNG, good []byte, kind string) []byte {
	cp := func(b []byte) []byte { return append([]byte(nil), b...) }
	w := int(binary.BigEndian.Uint32(p.ihdr[0:]))
	h := int(binary.BigEndian.Uint32(p.ihdr[4:]))
	rowLen := len(p.raw) / h
	stdHdr := [2]byte{0x78, 0x01}
	switch kind {
	case "none":
		return good
	case "flip-raw":
		s := cp(good)
		s[rng.Intn(len(s))] ^= 1 << uint(rng.Intn(8))
		return s
	case "truncate":
		return good[:rng.Intn(len(good))]
	case "append-garbage":
		return append(cp(good), rng.Bytes(rng.Range(1, 20))...)
	case "insert-byte":
		i := rng.Intn(len(good) + 1)
		return append(append(cp(good[:i]), byte(rng.Intn(256))), good[i:]...)
	case "delete-byte":
		i := rng.Intn(len(good))
		return append(cp(good[:i]), good[i+1:]...)
	case "ihdr-width", "ihdr-height":
		d := cp(p.ihdr)
		off := 0
		v := w
		if kind == "ihdr-height" {
			off, v = 4, h
		}
		nv := []int{v + 1, v - 1, 2 * v, 0, v + 256}[rng.Intn(5)]
		binary.BigEndian.PutUint32(d[off:], uint32(nv))
		return p.build(d, p.z, nil)
	case "ihdr-swap-depth":
		d := cp(p.ihdr)
		d[8] ^= 8 ^ 16
		return p.build(d, p.z, nil)
	case "ihdr-colortype":
		d := cp(p.ihdr)
		d[9] = []byte{0, 2, 3, 4, 6, 1, 5, 7}[rng.Intn(8)]
		return p.build(d, p.z, nil)
	case "ihdr-depth-small":
		d := cp(p.ihdr)
		d[8] = []byte{1, 2, 4, 0, 3, 32}[rng.Intn(6)]
		return p.build(d, p.z, nil)
	case "ihdr-interlace":
		d := cp(p.ihdr)
		d[12] = byte(rng.Range(1, 2))
		return p.build(d, p.z, nil)
	case "ihdr-method":
		d := cp(p.ihdr)
		d[10+rng.Intn(2)] = 1
		return p.build(d, p.z, nil)
	case "pixel-fixed", "pixel-unfixed":
		raw := cp(p.raw)
		y := rng.Intn(h)
		if rowLen > 1 {
			raw[y*rowLen+1+rng.Intn(rowLen-1)] ^= byte(rng.Range(1, 255))
		}
		return p.build(p.ihdr, p.zlibOf(raw, stdHdr, 0, kind == "pixel-fixed"), nil)
	case "filter-1-4", "filter-5":
		raw := cp(p.raw)
		f := byte(rng.Range(1, 4))
		if kind == "filter-5" {
			f = byte(rng.Range(5, 255))
		}
		raw[rng.Intn(h)*rowLen] = f
		return p.build(p.ihdr, p.zlibOf(raw, stdHdr, 0, true), nil)
	case "adler-bad":
		z := cp(p.z)
		z[len(z)-1-rng.Intn(4)] ^= 1 << uint(rng.Intn(8))
		return p.build(p.ihdr, z, nil)
	case "crc-bad":
		s := cp(good)
		// the CRC field of a random chunk
		cs, _ := refChunks(good)
		pos := 8
		k := rng.Intn(len(cs))
		for i := 0; i < k; i++ {
			pos += 12 + len(cs[i].data)
		}
		s[pos+8+len(cs[k].data)+rng.Intn(4)] ^= 1 << uint(rng.Intn(8))
		return s
	case "zlib-hdr-level":
		hd := [][2]byte{{0x78, 0x5E}, {0x78, 0x9C}, {0x78, 0xDA}}[rng.Intn(3)]
		return p.build(p.ihdr, p.zlibOf(p.raw, hd, 0, true), nil)
	case "zlib-hdr-window":
		cinfo := rng.Intn(7)
		cmf := byte(cinfo<<4 | 8)
		flg := byte(0)
		for (int(cmf)*256+int(flg))%31 != 0 {
			flg++
		}
		return p.build(p.ihdr, p.zlibOf(p.raw, [2]byte{cmf, flg}, 0, true), nil)
	case "zlib-hdr-fdict":
		flg := byte(0x20)
		for (0x78*256+int(flg))%31 != 0 {
			flg++
		}
		return p.build(p.ihdr, p.zlibOf(p.raw, [2]byte{0x78, flg}, 0, true), nil)
	case "zlib-hdr-fcheck":
		return p.build(p.ihdr, p.zlibOf(p.raw, [2]byte{0x78, byte(0x01 + rng.Range(1, 30))}, 0, true), nil)
	case "zlib-hdr-cm":
		cmf := byte(0x70 | []int{0, 7, 9, 15}[rng.Intn(4)])
		flg := byte(0)
		for (int(cmf)*256+int(flg))%31 != 0 {
			flg++
		}
		return p.build(p.ihdr, p.zlibOf(p.raw, [2]byte{cmf, flg}, 0, true), nil)
	case "block-junk-bits":
		return p.build(p.ihdr, p.zlibOf(p.raw, stdHdr, byte(rng.Range(1, 31))<<3, true), nil)
	case "block-btype", "block-nlen", "block-len", "block-early-final", "block-no-final":
		z := cp(p.z)
		// header position of a random block
		pos := 2
		k := rng.Intn(len(p.blocks))
		if kind == "block-no-final" {
			k = len(p.blocks) - 1
		}
		if kind == "block-early-final" && len(p.blocks) > 1 {
			k = rng.Intn(len(p.blocks) - 1)
		}
		for i := 0; i < k; i++ {
			pos += 5 + len(p.blocks[i])
		}
		switch kind {
		case "block-btype":
			z[pos] |= byte(rng.Range(1, 3)) << 1
		case "block-nlen":
			z[pos+3+rng.Intn(2)] ^= 1 << uint(rng.Intn(8))
		case "block-len":
			z[pos+1] ^= 1
			z[pos+3] ^= 1
		case "block-early-final":
			z[pos] |= 1
		case "block-no-final":
			z[pos] &^= 1
		}
		return p.build(p.ihdr, z, nil)
	case "block-empty", "block-resplit":
		var cuts []int
		if kind == "block-empty" {
			for _, b := range p.blocks {
				if rng.Chance(1, 2) {
					cuts = append(cuts, 0)
				}
				cuts = append(cuts, len(b))
			}
			cuts = append(cuts, 0)
		} else {
			for n := rng.Range(1, 4); n > 0; n-- {
				cuts = append(cuts, rng.Intn(len(p.raw)+1)/n)
			}
		}
		return p.build(p.ihdr, mkZlib(p.raw, cuts, 0), nil)
	case "recompress":
		var zb bytes.Buffer
		zw, _ := zlib.NewWriterLevel(&zb, []int{1, 6, 9}[rng.Intn(3)])
		zw.Write(p.raw)
		zw.Close()
		return p.build(p.ihdr, zb.Bytes(), nil)
	case "after-adler":
		return p.build(p.ihdr, append(cp(p.z), rng.Bytes(rng.Range(1, 6))...), nil)
	case "adler-short":
		return p.build(p.ihdr, p.z[:len(p.z)-rng.Range(1, 4)], nil)
	case "extra-scanline":
		raw := append(cp(p.raw), make([]byte, rowLen)...)
		if rng.Bool() {
			raw = append(cp(p.raw), 0)
		}
		return p.build(p.ihdr, p.zlibOf(raw, stdHdr, 0, true), nil)
	case "missing-scanline":
		n := rowLen
		if rng.Bool() {
			n = 1
		}
		return p.build(p.ihdr, p.zlibOf(p.raw[:len(p.raw)-n], stdHdr, 0, true), nil)
	}
	// chunk-level rearrangements
	cs := []rawChunk{{"IHDR", p.ihdr}}
	for _, d := range p.idats {
		cs = append(cs, rawChunk{"IDAT", d})
	}
	cs = append(cs, rawChunk{"IEND", nil})
	ni := len(p.idats)
	ins := func(at int, c rawChunk) {
		cs = append(cs[:at], append([]rawChunk{c}, cs[at:]...)...)
	}
	switch kind {
	case "idat-drop":
		k := 1 + rng.Intn(ni)
		cs = append(cs[:k], cs[k+1:]...)
	case "idat-dup":
		k := 1 + rng.Intn(ni)
		ins(k, cs[k])
	case "idat-swap":
		if ni >= 2 {
			k := 1 + rng.Intn(ni-1)
			cs[k], cs[k+1] = cs[k+1], cs[k]
		} else {
			ins(1, rawChunk{"IDAT", cs[1].data[:1]})
			cs[2].data = cs[2].data[1:]
			cs[1], cs[2] = cs[2], cs[1]
		}
	case "idat-split":
		k := 1 + rng.Intn(ni)
		d := cs[k].data
		at := rng.Intn(len(d) + 1)
		cs[k].data = d[at:]
		ins(k, rawChunk{"IDAT", d[:at]})
	case "idat-merge":
		cs = []rawChunk{{"IHDR", p.ihdr}, {"IDAT", p.z}, {"IEND", nil}}
	case "idat-empty":
		ins(1+rng.Intn(ni+1), rawChunk{"IDAT", nil})
	case "idat-garbage-tail":
		ins(1+ni, rawChunk{"IDAT", rng.Bytes(rng.Range(1, 9))})
	case "iend-drop":
		cs = cs[:len(cs)-1]
	case "iend-dup":
		cs = append(cs, rawChunk{"IEND", nil})
	case "iend-payload":
		cs[len(cs)-1].data = rng.Bytes(rng.Range(1, 5))
	case "ancillary":
		c := []rawChunk{{"tEXt", []byte("k\x00v")}, {"gAMA", []byte{0, 1, 0x86, 0xA0}}, {"tIME", []byte{7, 232, 1, 1, 0, 0, 0}}, {"zzZz", rng.Bytes(5)}}[rng.Intn(4)]
		ins(1+rng.Intn(ni+2), c)
	case "unknown-critical":
		ins(1+rng.Intn(ni+2), rawChunk{"ABCD", rng.Bytes(rng.Intn(6))})
	case "plte":
		ins(1, rawChunk{"PLTE", rng.Bytes(3 * rng.Range(1, 4))})
	case "idat-after-iend":
		cs = append(cs, rawChunk{"IDAT", nil})
	case "ihdr-dup":
		ins(1, cs[0])
	case "no-idat":
		cs = []rawChunk{{"IHDR", p.ihdr}, {"IEND", nil}}
	case "ihdr-second":
		cs[0], cs[1] = cs[1], cs[0]
	}
	return buildChunks(cs)
}

// ---- the differential

type poolItem struct {
	stream []byte
	desc   string
}

var (
	poolSmall, poolBig []poolItem
)

func poolAdd(rng *hlib.Rand, stream []byte, desc string) {
	if len(stream) <= 1200 {
		if len(poolSmall) < 400 || rng.Chance(1, 20) {
			if len(poolSmall) >= 400 {
				poolSmall[rng.Intn(len(poolSmall))] = poolItem{stream, desc}
			} else {
				poolSmall = append(poolSmall, poolItem{stream, desc})
			}
		}
	} else if len(stream) > 65536 && len(stream) < 300000 && len(poolBig) < 6 {
		poolBig = append(poolBig, poolItem{stream, desc})
	}
}

func specVsStd(r *hlib.Run) {
	rng := r.Rand
	q := newSeq(r)
	nSmall, nBig := 700, 12
	if r.Thorough {
		nSmall, nBig = 8000, 80
	}
	one := func(it poolItem, kind string) {
		p := parseReal(it.stream)
		stream := damage(rng, p, it.stream, kind)
		r.Count("specvsstd:kind:" + kind)
		q.specStd(stream, it.desc, kind)
	}
	if len(poolSmall) > 0 {
		for i := 0; i < nSmall; i++ {
			one(poolSmall[rng.Intn(len(poolSmall))], damageKinds[i%len(damageKinds)])
		}
	}
	if len(poolBig) > 0 {
		bigKinds := []string{"none", "idat-drop", "idat-swap", "idat-dup", "idat-merge", "idat-split", "idat-empty", "idat-garbage-tail",
			"block-early-final", "block-no-final", "block-nlen", "pixel-fixed", "pixel-unfixed", "adler-bad", "crc-bad", "filter-1-4", "block-resplit", "after-adler"}
		for i := 0; i < nBig; i++ {
			one(poolBig[rng.Intn(len(poolBig))], bigKinds[i%len(bigKinds)])
		}
	}
	r.Extra("specvsstd_pool", map[string]int{"small": len(poolSmall), "big": len(poolBig)})
}

// specStd compares the specification (through the walker) with image/png on one stream and records
// the op line that ties the Lean side to it.
func (q *seq) specStd(stream []byte, desc, kind string) {
	r := q.r
	{
		ref, why := refDecode(stream)
		m, serr := stdDecode(stream)
		replay := fmt.Sprintf("# %s damaged by %s\nstdview %s\n", desc, kind, hlib.Hex(stream))
		if len(replay) > 20000 {
			replay = fmt.Sprintf("# %s damaged by %s (%d bytes; first 4000 hex digits)\nstdview %s…\n", desc, kind, len(stream), hlib.Hex(stream)[:4000])
		}
		implOut := "none"
		switch {
		case ref != nil && serr != nil:
			r.Count("specvsstd:SPEC-ACCEPTS-STD-REJECTS")
			r.Fail("spec-vs-std:spec-accepts-std-rejects:"+kind, "Spec/walker accepts a stream image/png rejects: "+serr.Error(), replay)
			implOut = "std-rejects"
		case ref != nil:
			styp, sview := stdRGBA(m)
			rtyp, rview := refRGBA(ref)
			implOut = fmt.Sprintf("some %d %d %s %s", m.Bounds().Dx(), m.Bounds().Dy(), styp, item(sview))
			if m.Bounds().Dx() != ref.w || m.Bounds().Dy() != ref.h || styp != rtyp || !bytes.Equal(sview, rview) {
				r.Count("specvsstd:VIEW-DIFFERS")
				r.Fail("spec-vs-std:view-differs:"+kind, fmt.Sprintf("image/png reports %s %v, the walker %s %dx%d, or pixel values differ", styp, m.Bounds(), rtyp, ref.w, ref.h), replay)
			} else {
				r.Count("specvsstd:both-accept-same-view")
				r.Count("specvsstd:accepted-type:" + styp)
			}
		case serr != nil:
			r.Count("specvsstd:both-reject")
			r.Count("specvsstd:both-reject:" + why)
		default:
			// image/png accepts, the spec does not: must be a documented class
			cl := classify(stream)
			if cl == "" {
				r.Count("specvsstd:UNDOCUMENTED-STRICTNESS")
				r.Fail("spec-vs-std:undocumented-strictness:"+why+":"+kind, "image/png accepts a stream the spec rejects ("+why+") outside the documented classes", replay)
			} else {
				r.Count("specvsstd:std-more-lenient:" + cl)
			}
		}
		if len(stream) <= 3000 {
			q.op("stdview "+hlib.Hex(stream), implOut)
		} else {
			// large: the Lean side decides accept/reject and the raw sample bytes only
			out := "none"
			if ref != nil {
				out = fmt.Sprintf("some %d %d %d %d %s", ref.w, ref.h, ref.depth, ref.ct, item(ref.pix))
			}
			q.op("specdecode "+hlib.Hex(stream), out)
		}
	}
}
