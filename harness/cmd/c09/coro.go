package main

// Tie between Model/CoroFrame.lean (the storage protocol of a generated coroutine function:
// `Props/C09Coro.lean` proves that saved locals cannot leak memory garbage for anything that
// follows it) and the C text cgen emits from the working tree: every coroutine function of the
// regenerated snapshot is scanned for the shape the model assumes.
//
//   coroframe <pkg.recv.func> loads=<n> saves=<n> samevars=<0|1> guarded=<0|1> atsuspend=<0|1> pwrites=<0|1> scratch=<0|1>
//     -> conforms | violates:<first condition that fails>
//
// The implementation side always answers `conforms` (that is the claim); the model evaluates
// the extracted facts.  A cgen change that, e.g., loads the saved locals without the
// `if (coro_susp_point)` guard shows up as a correspondence break (and, behaviourally, in the
// memory matrix).

import (
	"fmt"
	"regexp"
	"sort"
	"strings"
)

var (
	reFuncMarker = regexp.MustCompile(`^// -------- func (\S+)$`)
	reCoroLoad   = regexp.MustCompile(`^uint32_t coro_susp_point = self->private_impl\.p_(\w+);$`)
	reSuspPoint  = regexp.MustCompile(`^WUFFS_BASE__COROUTINE_SUSPENSION_POINT(_MAYBE_SUSPEND)?\(\d+\);$`)
)

type coroFacts struct {
	name                                         string
	loads, saves                                 int
	sameVars, guarded, atSuspend, pwrites, scrOK bool
}

func (c coroFacts) op() string {
	b := func(x bool) int {
		if x {
			return 1
		}
		return 0
	}
	return fmt.Sprintf("coroframe %s loads=%d saves=%d samevars=%d guarded=%d atsuspend=%d pwrites=%d scratch=%d",
		c.name, c.loads, c.saves, b(c.sameVars), b(c.guarded), b(c.atSuspend), b(c.pwrites), b(c.scrOK))
}

func prevNonBlank(lines []string, i int) string {
	for j := i - 1; j >= 0; j-- {
		if t := strings.TrimSpace(lines[j]); t != "" {
			return t
		}
	}
	return ""
}

// scanCoro analyses the body of one generated function; ok=false if it is not a coroutine.
func scanCoro(fname string, body []string) (coroFacts, bool) {
	cf := coroFacts{name: fname, sameVars: true, guarded: true, atSuspend: true, pwrites: true, scrOK: true}
	frame := ""
	loadAt := -1
	for i, l := range body {
		if m := reCoroLoad.FindStringSubmatch(strings.TrimSpace(l)); m != nil {
			frame, loadAt = m[1], i
			break
		}
	}
	if loadAt < 0 {
		return cf, false
	}
	q := regexp.QuoteMeta(frame)
	reLoad1 := regexp.MustCompile(`^v_(\w+) = self->private_data\.s_` + q + `\.v_(\w+);$`)
	reLoad2 := regexp.MustCompile(`^memcpy\(v_(\w+), self->private_data\.s_` + q + `\.v_(\w+), sizeof\(v_(\w+)\)\);$`)
	reSave1 := regexp.MustCompile(`^self->private_data\.s_` + q + `\.v_(\w+) = v_(\w+);$`)
	reSave2 := regexp.MustCompile(`^memcpy\(self->private_data\.s_` + q + `\.v_(\w+), v_(\w+), sizeof\(v_(\w+)\)\);$`)
	reSavedRef := regexp.MustCompile(`private_data\.s_` + q + `\.v_`)
	rePWrite := regexp.MustCompile(`private_impl\.p_` + q + `\s*(=[^=]|\+=|-=|\|=|&=|\+\+|--)`)
	scrRef := "self->private_data.s_" + frame + ".scratch"
	reScrAssign := regexp.MustCompile(`^self->private_data\.s_` + q + `\.scratch = [^;]*;$`)

	// 1. the resume block directly after the load of coro_susp_point
	resumeLo, resumeHi := -1, -1 // lines of the block contents
	loaded := map[string]bool{}
	i := loadAt + 1
	for i < len(body) && strings.TrimSpace(body[i]) == "" {
		i++
	}
	if i < len(body) && strings.TrimSpace(body[i]) == "if (coro_susp_point) {" {
		resumeLo = i + 1
		j := i + 1
		for ; j < len(body); j++ {
			t := strings.TrimSpace(body[j])
			if t == "}" {
				break
			}
			if m := reLoad1.FindStringSubmatch(t); m != nil && m[1] == m[2] {
				loaded[m[1]] = true
			} else if m := reLoad2.FindStringSubmatch(t); m != nil && m[1] == m[2] && m[1] == m[3] {
				loaded[m[1]] = true
			} else {
				cf.guarded = false // something else inside the resume block
			}
		}
		resumeHi = j
		i = j + 1
		for i < len(body) && strings.TrimSpace(body[i]) == "" {
			i++
		}
	}
	if i >= len(body) || strings.TrimSpace(body[i]) != "switch (coro_susp_point) {" {
		cf.guarded = false
	}
	cf.loads = len(loaded)

	// 2. every other mention of a saved local: a store after `suspend:`
	saved := map[string]bool{}
	suspendAt := -1
	for k, l := range body {
		if strings.TrimSpace(l) == "suspend:" {
			suspendAt = k
		}
	}
	scratchSafe := false
	for k, l := range body {
		t := strings.TrimSpace(l)
		if k >= resumeLo && k < resumeHi {
			continue
		}
		if reSavedRef.MatchString(t) {
			if m := reSave1.FindStringSubmatch(t); m != nil && m[1] == m[2] && suspendAt >= 0 && k > suspendAt {
				saved[m[1]] = true
			} else if m := reSave2.FindStringSubmatch(t); m != nil && m[1] == m[2] && m[1] == m[3] && suspendAt >= 0 && k > suspendAt {
				saved[m[1]] = true
			} else if reLoad1.MatchString(t) || reLoad2.MatchString(t) {
				cf.guarded = false // a load of a saved local outside the guarded block
			} else {
				cf.atSuspend = false
			}
		}
		// 3. writes of the suspension point
		if rePWrite.MatchString(t) {
			prev := prevNonBlank(body, k)
			switch t {
			case "self->private_impl.p_" + frame + " = 0;":
				if prev != "ok:" {
					cf.pwrites = false
				}
			case "self->private_impl.p_" + frame + " = wuffs_base__status__is_suspension(&status) ? coro_susp_point : 0;":
				if prev != "suspend:" {
					cf.pwrites = false
				}
			default:
				cf.pwrites = false
			}
		}
		// 4. scratch: assigned immediately before the suspension point after which it is read
		if reSuspPoint.MatchString(t) || t == "WUFFS_BASE__COROUTINE_SUSPENSION_POINT_0;" {
			scratchSafe = reScrAssign.MatchString(prevNonBlank(body, k))
		}
		if strings.Contains(t, scrRef) {
			if reScrAssign.MatchString(t) {
				scratchSafe = true
			} else if !scratchSafe {
				cf.scrOK = false
			}
		}
	}
	cf.saves = len(saved)
	for v := range loaded {
		if !saved[v] {
			cf.sameVars = false
		}
	}
	for v := range saved {
		if !loaded[v] {
			cf.sameVars = false
		}
	}
	return cf, true
}

func (h *harness) coroSection(snapshot string) {
	r := h.r
	lines := strings.Split(snapshot, "\n")
	var facts []coroFacts
	name := ""
	start := -1
	flush := func(end int) {
		if name != "" && start >= 0 {
			if cf, ok := scanCoro(name, lines[start:end]); ok {
				facts = append(facts, cf)
			}
		}
	}
	for i, l := range lines {
		if m := reFuncMarker.FindStringSubmatch(l); m != nil {
			flush(i)
			name, start = m[1], i+1
		} else if strings.HasPrefix(l, "// ---------------- ") || strings.HasPrefix(l, "#endif  // !defined(WUFFS_CONFIG__MODULES)") {
			flush(i)
			name, start = "", -1
		}
	}
	flush(len(lines))
	sort.SliceStable(facts, func(i, j int) bool { return facts[i].name < facts[j].name })
	for _, cf := range facts {
		r.Op(cf.op(), "conforms")
		r.Count("coroframe:functions")
		if cf.loads > 0 {
			r.Count("coroframe:with-saved-locals")
			r.Nontrivial("coroframe:" + cf.name)
		}
	}
	if len(facts) == 0 {
		r.Fail("harness:coroframe", "no coroutine function found in the regenerated snapshot (scanner out of date)", "coroframe")
	}
}
