package main

// Gen/C09_StdFields.lean: the field partition of every struct of std, taken from the parsed
// AST of the working tree (lang/parse: fields after the `+` of a struct declaration, and fields
// whose type lives in another package, carry FlagsPrivateData = "the initializer need not
// explicitly memset to zero"; cgen puts exactly those into `private_data`), together with, for
// every field, the methods of the struct that read it and that write it.
//
// The matrix run ties the table to the C cgen emits: `partition <struct> impl=… data=…` ops
// carry the `f_*` members of `private_impl` / `private_data` of the regenerated C; the model
// (Driver/C09.lean) answers from this table.

import (
	"fmt"
	"os"
	"path/filepath"
	"sort"
	"strings"

	a "github.com/google/wuffs/lang/ast"
	"github.com/google/wuffs/lang/generate"
	t "github.com/google/wuffs/lang/token"
)

type fieldInfo struct {
	name    string
	second  bool
	kind    string // numeric | refined | bool | status | pointer | substruct | utility | other
	dims    int    // number of array decorators
	typ     string
	readers []string
	writers []string
}

type structInfo struct {
	pkg, name string
	classy    bool
	fields    []*fieldInfo
}

func classify(tm *t.Map, typ *a.TypeExpr) (kind string, dims int) {
	for typ.Decorator() == t.IDArray {
		typ = typ.Inner()
		dims++
	}
	switch {
	case typ.Decorator() != 0:
		return "pointer", dims // slice, table, ptr, nptr, func
	case typ.IsEtcUtilityType():
		return "utility", dims
	case typ.QID()[0] != t.IDBase:
		return "substruct", dims // a struct of this or another package
	case typ.IsBool():
		return "bool", dims
	case typ.IsStatus():
		return "status", dims
	case typ.IsNumType() && typ.IsRefined():
		return "refined", dims
	case typ.IsNumType():
		return "numeric", dims
	case typ.IsIOTokenType():
		return "pointer", dims
	}
	return "other", dims // base structs held by value (pixel_swizzler, image configs, ranges, …)
}

// rootField returns f if e is `this.f`, `this.f[i]`, `this.f[i][j]`, `this.f[a .. b]` …
func rootField(e *a.Expr) t.ID {
	for e != nil {
		if f := e.IsThisDotFoo(); f != 0 {
			return f
		}
		if x, _, ok := e.IsIndex(); ok {
			e = x
			continue
		}
		if x, _, _, ok := e.IsSlice(); ok {
			e = x
			continue
		}
		return 0
	}
	return 0
}

// accesses walks a function body; reads[f] / writes[f] are set for fields of `this`.
func accesses(tm *t.Map, body []*a.Node, reads, writes map[t.ID]bool) {
	var expr func(e *a.Expr, asWrite bool)
	expr = func(e *a.Expr, asWrite bool) {
		if e == nil {
			return
		}
		if f := e.IsThisDotFoo(); f != 0 {
			if asWrite {
				writes[f] = true
			} else {
				reads[f] = true
			}
			return
		}
		if x, idx, ok := e.IsIndex(); ok {
			expr(x, asWrite)
			expr(idx, false)
			return
		}
		if x, lo, hi, ok := e.IsSlice(); ok {
			// a slice of a field that is handed on (method receiver or argument) may be read
			// and written through: both
			if rootField(x) != 0 && !asWrite {
				expr(x, false)
				expr(x, true)
			} else {
				expr(x, asWrite)
			}
			expr(lo, false)
			expr(hi, false)
			return
		}
		if recv, _, args, ok := e.IsMethodCall(); ok {
			if f := rootField(recv); f != 0 && recv.IsThisDotFoo() == 0 {
				// this.f[..].method(…): e.g. copy_from_slice!, bulk_memset!, peek_u32le
				expr(recv, false)
				if e.Effect().Impure() {
					expr(recv, true)
				}
			} else {
				expr(recv, false)
				if f := recv.IsThisDotFoo(); f != 0 && e.Effect().Impure() {
					writes[f] = true // this.sub.method!(…), this.swizzler.prepare!(…)
				}
			}
			for _, o := range args {
				expr(o.AsArg().Value(), false)
			}
			return
		}
		if l := e.LHS(); l != nil && l.Kind() == a.KExpr {
			expr(l.AsExpr(), false)
		}
		if m := e.MHS(); m != nil && m.Kind() == a.KExpr {
			expr(m.AsExpr(), false)
		}
		if r := e.RHS(); r != nil && r.Kind() == a.KExpr {
			expr(r.AsExpr(), false)
		}
		for _, o := range e.Args() {
			switch o.Kind() {
			case a.KExpr:
				expr(o.AsExpr(), false)
			case a.KArg:
				expr(o.AsArg().Value(), false)
			}
		}
	}
	var stmts func(l []*a.Node)
	stmts = func(l []*a.Node) {
		for _, n := range l {
			switch n.Kind() {
			case a.KAssign:
				as := n.AsAssign()
				if as.LHS() != nil { // (an expression statement is an Assign without LHS)
					expr(as.LHS(), true)
					if as.Operator() != t.IDEq && as.Operator() != t.IDEqQuestion {
						expr(as.LHS(), false) // compound assignment reads too
					}
				}
				expr(as.RHS(), false)
			case a.KIf:
				for o := n.AsIf(); o != nil; o = o.ElseIf() {
					expr(o.Condition(), false)
					stmts(o.BodyIfTrue())
					stmts(o.BodyIfFalse())
				}
			case a.KWhile:
				expr(n.AsWhile().Condition(), false)
				stmts(n.AsWhile().Body())
			case a.KIterate:
				for o := n.AsIterate(); o != nil; o = o.ElseIterate() {
					for _, as := range o.Assigns() {
						expr(as.AsAssign().RHS(), false)
					}
					stmts(o.Body())
				}
			case a.KIOManip:
				expr(n.AsIOManip().IO(), false)
				expr(n.AsIOManip().Arg1(), false)
				expr(n.AsIOManip().HistoryPosition(), false)
				stmts(n.AsIOManip().Body())
			case a.KRet:
				expr(n.AsRet().Value(), false)
			case a.KExpr:
				expr(n.AsExpr(), false)
			}
		}
	}
	stmts(body)
}

func loadStdStructs(repo string) ([]*structInfo, error) {
	dirs, _ := filepath.Glob(filepath.Join(repo, "std", "*"))
	sort.Strings(dirs)
	var out []*structInfo
	for _, d := range dirs {
		st, err := os.Stat(d)
		if err != nil || !st.IsDir() {
			continue
		}
		files, _ := filepath.Glob(filepath.Join(d, "*.wuffs"))
		sort.Strings(files)
		if len(files) == 0 {
			continue
		}
		pkg := filepath.Base(d)
		tm := &t.Map{}
		fs, err := generate.ParseFiles(tm, files, nil)
		if err != nil {
			return nil, fmt.Errorf("std/%s: %v", pkg, err)
		}
		byName := map[t.ID]*structInfo{}
		fieldOf := map[t.ID]map[t.ID]*fieldInfo{}
		for _, f := range fs {
			for _, tld := range f.TopLevelDecls() {
				if tld.Kind() != a.KStruct {
					continue
				}
				n := tld.AsStruct()
				si := &structInfo{pkg: pkg, name: n.QID()[1].Str(tm), classy: n.Classy()}
				fieldOf[n.QID()[1]] = map[t.ID]*fieldInfo{}
				for _, fn := range n.Fields() {
					fl := fn.AsField()
					kind, dims := classify(tm, fl.XType())
					fi := &fieldInfo{name: fl.Name().Str(tm), second: fl.PrivateData(), kind: kind, dims: dims, typ: fl.XType().Str(tm)}
					si.fields = append(si.fields, fi)
					fieldOf[n.QID()[1]][fl.Name()] = fi
				}
				byName[n.QID()[1]] = si
				out = append(out, si)
			}
		}
		for _, f := range fs {
			for _, tld := range f.TopLevelDecls() {
				if tld.Kind() != a.KFunc {
					continue
				}
				fn := tld.AsFunc()
				fm := fieldOf[fn.Receiver()[1]]
				if fm == nil {
					continue
				}
				reads, writes := map[t.ID]bool{}, map[t.ID]bool{}
				accesses(tm, fn.Body(), reads, writes)
				name := fn.FuncName().Str(tm)
				for id := range reads {
					if fi := fm[id]; fi != nil {
						fi.readers = append(fi.readers, name)
					}
				}
				for id := range writes {
					if fi := fm[id]; fi != nil {
						fi.writers = append(fi.writers, name)
					}
				}
			}
		}
	}
	for _, s := range out {
		for _, f := range s.fields {
			sort.Strings(f.readers)
			sort.Strings(f.writers)
		}
	}
	return out, nil
}

func leanStrList(l []string) string {
	q := make([]string, len(l))
	for i, s := range l {
		q[i] = "\"" + s + "\""
	}
	return "[" + strings.Join(q, ", ") + "]"
}

func genStdFields(repo string) (string, error) {
	structs, err := loadStdStructs(repo)
	if err != nil {
		return "", err
	}
	var b strings.Builder
	b.WriteString("/-\nREGENERATED by `wvh_c09 -mode gen` from the parsed AST of /repo/std/*/*.wuffs. Do not edit.\n" +
		"Field partition of every std struct (`second` = FlagsPrivateData: declared after the `+`, or of a\n" +
		"struct type of another package: the part `initialize` does not zero under\n" +
		"LEAVE_INTERNAL_BUFFERS_UNINITIALIZED), the kind of each field's innermost type, and the methods\n" +
		"of the struct that read / write the field.\n-/\nnamespace WuffsVerif.Gen.C09\n\n" +
		"inductive FieldKind where\n  | numeric | refined | bool | status | pointer | substruct | utility | other\nderiving DecidableEq, Repr\n\n" +
		"structure FieldInfo where\n  name : String\n  second : Bool\n  kind : FieldKind\n  dims : Nat\n  typ : String\n  readers : List String\n  writers : List String\n\n" +
		"structure StructInfo where\n  pkg : String\n  name : String\n  classy : Bool\n  fields : List FieldInfo\n\n")
	// one definition per struct keeps each term small
	var names []string
	for _, s := range structs {
		def := "struct_" + s.pkg + "_" + s.name
		names = append(names, def)
		fmt.Fprintf(&b, "def %s : StructInfo := ⟨\"%s\", \"%s\", %v, [\n", def, s.pkg, s.name, s.classy)
		for i, f := range s.fields {
			fmt.Fprintf(&b, "  ⟨\"%s\", %v, .%s, %d, \"%s\", %s, %s⟩", f.name, f.second, f.kind, f.dims, f.typ, leanStrList(f.readers), leanStrList(f.writers))
			if i+1 < len(s.fields) {
				b.WriteString(",")
			}
			b.WriteString("\n")
		}
		b.WriteString("]⟩\n\n")
	}
	b.WriteString("def stdStructs : List StructInfo := [\n  " + strings.Join(names, ",\n  ") + "\n]\n\nend WuffsVerif.Gen.C09\n")
	return b.String(), nil
}
