package main

// Hostile / malformed inputs for the C09 matrix.  The property quantifies over EVERY input,
// not only valid ones: an invalid stream must be rejected with the same status, consumed and
// produced byte counts (and bytes) whatever the object's memory held before.
//
//   - hostileDeflate: DEFLATE streams written with a bit writer: dynamic-Huffman blocks whose
//     code-length header is VALID (so that init_huff builds tables) with random complete
//     literal/length codes (long codes -> second-level tables) and distance codes that are
//     complete, degenerate (exactly one 1-bit code: init_huff's special case), or use the
//     invalid symbols 30/31 and 286/287; the block data is a prefix of encodable symbols
//     followed by random bits, so that every table entry -- also the ones no valid stream ever
//     looks up -- is reached.
//   - mutate: generic corruption of a valid file of any codec (bit flips, overwritten bytes,
//     truncation, duplicated / zeroed / spliced runs).

import (
	"sort"

	"wvh/hlib"
)

// ---- bit writer (DEFLATE bit order: LSB first; Huffman codes MSB first)

type bitWriter struct {
	out  []byte
	acc  uint64
	nacc uint
}

func (w *bitWriter) bits(v uint32, n uint) {
	w.acc |= uint64(v&((1<<n)-1)) << w.nacc
	w.nacc += n
	for w.nacc >= 8 {
		w.out = append(w.out, byte(w.acc))
		w.acc >>= 8
		w.nacc -= 8
	}
}

func (w *bitWriter) huff(code uint32, n uint) {
	// Huffman codes are packed starting with the most significant bit of the code
	for i := int(n) - 1; i >= 0; i-- {
		w.bits((code>>uint(i))&1, 1)
	}
}

func (w *bitWriter) flush() []byte {
	if w.nacc > 0 {
		w.out = append(w.out, byte(w.acc))
		w.acc, w.nacc = 0, 0
	}
	return w.out
}

// canonical codes of RFC 1951 section 3.2.2
func canonCodes(lengths []int) []uint32 {
	maxl := 0
	for _, l := range lengths {
		if l > maxl {
			maxl = l
		}
	}
	blCount := make([]int, maxl+2)
	for _, l := range lengths {
		if l > 0 {
			blCount[l]++
		}
	}
	next := make([]uint32, maxl+2)
	code := uint32(0)
	for b := 1; b <= maxl; b++ {
		code = (code + uint32(blCount[b-1])) << 1 // bl_count[0] = 0, as in the RFC
		next[b] = code
	}
	codes := make([]uint32, len(lengths))
	for i, l := range lengths {
		if l > 0 {
			codes[i] = next[l]
			next[l]++
		}
	}
	return codes
}

// kraftDepths returns k leaf depths of a full binary tree (Kraft sum exactly 1), depth <= maxDepth.
// skew > 0 prefers splitting the deepest leaf (long codes).
func kraftDepths(rd *hlib.Rand, k, maxDepth, skew int) []int {
	d := []int{0}
	for len(d) < k {
		// candidates: leaves that may still be split
		var cand []int
		for i, x := range d {
			if x < maxDepth {
				cand = append(cand, i)
			}
		}
		if len(cand) == 0 {
			break
		}
		pick := cand[rd.Intn(len(cand))]
		if skew > 0 && rd.Intn(skew+1) != 0 {
			best := cand[0]
			for _, i := range cand {
				if d[i] > d[best] {
					best = i
				}
			}
			pick = best
		}
		d[pick]++
		d = append(d, d[pick])
	}
	return d
}

// assign gives the depths to distinct symbols out of `pool` (must-have symbols first).
func assignLengths(rd *hlib.Rand, n int, depths []int, must []int, pool []int) []int {
	lengths := make([]int, n)
	used := map[int]bool{}
	var syms []int
	for _, s := range must {
		if !used[s] && len(syms) < len(depths) {
			used[s] = true
			syms = append(syms, s)
		}
	}
	perm := append([]int(nil), pool...)
	for i := len(perm) - 1; i > 0; i-- {
		j := rd.Intn(i + 1)
		perm[i], perm[j] = perm[j], perm[i]
	}
	for _, s := range perm {
		if len(syms) >= len(depths) {
			break
		}
		if !used[s] {
			used[s] = true
			syms = append(syms, s)
		}
	}
	// random assignment of depths to the chosen symbols
	dp := append([]int(nil), depths...)
	for i := len(dp) - 1; i > 0; i-- {
		j := rd.Intn(i + 1)
		dp[i], dp[j] = dp[j], dp[i]
	}
	for i, s := range syms {
		lengths[s] = dp[i]
	}
	return lengths
}

var clOrder = []int{16, 17, 18, 0, 8, 7, 9, 6, 10, 5, 11, 4, 12, 3, 13, 2, 14, 1, 15}

var lenBase = []int{3, 4, 5, 6, 7, 8, 9, 10, 11, 13, 15, 17, 19, 23, 27, 31, 35, 43, 51, 59, 67, 83, 99, 115, 131, 163, 195, 227, 258}
var lenExtra = []uint{0, 0, 0, 0, 0, 0, 0, 0, 1, 1, 1, 1, 2, 2, 2, 2, 3, 3, 3, 3, 4, 4, 4, 4, 5, 5, 5, 5, 0}
var distExtra = []uint{0, 0, 0, 0, 1, 1, 2, 2, 3, 3, 4, 4, 5, 5, 6, 6, 7, 7, 8, 8, 9, 9, 10, 10, 11, 11, 12, 12, 13, 13}

// writeDynHeader writes BFINAL, BTYPE=2 and the code-length section for the given litlen
// (len 257..288) and distance (len 1..32) code lengths; every length is sent literally with a
// 4-bit code-length code (symbols 0..15, no repeat codes), which is a complete code.
func writeDynHeader(w *bitWriter, final bool, ll, dl []int) {
	f := uint32(0)
	if final {
		f = 1
	}
	w.bits(f, 1)
	w.bits(2, 2)
	w.bits(uint32(len(ll)-257), 5)
	w.bits(uint32(len(dl)-1), 5)
	w.bits(19-4, 4)
	for _, s := range clOrder {
		if s <= 15 {
			w.bits(4, 3)
		} else {
			w.bits(0, 3)
		}
	}
	for _, l := range append(append([]int(nil), ll...), dl...) {
		w.huff(uint32(l), 4) // canonical code of symbol l among 16 symbols of length 4 is l
	}
}

// hostileDeflate returns a raw DEFLATE stream and a label.
func hostileDeflate(rd *hlib.Rand, mode int) ([]byte, string) {
	w := &bitWriter{}
	nBlocks := 1 + rd.Intn(2)
	label := ""
	for blk := 0; blk < nBlocks; blk++ {
		final := blk == nBlocks-1
		// ---- literal/length code
		nll := 257 + rd.Intn(32) // 257..288 (286, 287 are invalid symbols)
		k := 3 + rd.Intn(40)
		if rd.Intn(3) == 0 {
			k = 40 + rd.Intn(nll-40)
		}
		if k > nll {
			k = nll
		}
		skew := []int{0, 0, 1, 3}[rd.Intn(4)]
		var pool []int
		for s := 0; s < nll; s++ {
			pool = append(pool, s)
		}
		must := []int{256, 97}
		// a few length symbols so that distance lookups happen
		for i := 0; i < 1+rd.Intn(4); i++ {
			s := 257 + rd.Intn(nll-257+1)
			if s < nll {
				must = append(must, s)
			}
		}
		if nll > 286 && rd.Intn(2) == 0 {
			must = append(must, 286+rd.Intn(nll-286))
		}
		if k < len(must) {
			k = len(must)
		}
		depths := kraftDepths(rd, k, 15, skew)
		ll := assignLengths(rd, nll, depths, must, pool)
		// ---- distance code
		var dl []int
		dmode := mode % 4
		if blk > 0 {
			dmode = rd.Intn(4)
		}
		switch dmode {
		case 0, 1: // degenerate: exactly one code, 1 bit long (init_huff's special case)
			i := 0
			if dmode == 1 {
				i = rd.Intn(30)
			}
			nd := i + 1 + rd.Intn(32-i)
			dl = make([]int, nd)
			dl[i] = 1
			label += "degenerate-dist"
		case 2: // complete code over 2..32 symbols (30, 31 are invalid symbols)
			nd := 2 + rd.Intn(31)
			kd := 2 + rd.Intn(nd-1)
			var dpool []int
			for s := 0; s < nd; s++ {
				dpool = append(dpool, s)
			}
			dmust := []int{0}
			if nd > 30 && rd.Intn(2) == 0 {
				dmust = append(dmust, 30+rd.Intn(nd-30))
			}
			dl = assignLengths(rd, nd, kraftDepths(rd, kd, 15, []int{0, 2}[rd.Intn(2)]), dmust, dpool)
			label += "complete-dist"
		default: // no distance codes at all / incomplete set (rejected by init_huff)
			nd := 1 + rd.Intn(32)
			dl = make([]int, nd)
			if rd.Intn(2) == 0 {
				dl[rd.Intn(nd)] = 2 + rd.Intn(3)
				label += "undersubscribed-dist"
			} else {
				label += "no-dist"
			}
		}
		writeDynHeader(w, final, ll, dl)
		lc := canonCodes(ll)
		dc := canonCodes(dl)
		// ---- data: encodable prefix, then random bits
		var lits, lens []int
		for s, l := range ll {
			if l > 0 && s < 256 {
				lits = append(lits, s)
			}
			if l > 0 && s > 256 && s < 286 {
				lens = append(lens, s)
			}
		}
		sort.Ints(lits)
		emitLit := func() {
			if len(lits) > 0 {
				s := lits[rd.Intn(len(lits))]
				w.huff(lc[s], uint(ll[s]))
			}
		}
		nsym := rd.Intn(40)
		emitLit()
		emitLit()
		for i := 0; i < nsym; i++ {
			if len(lens) > 0 && rd.Intn(3) == 0 {
				s := lens[rd.Intn(len(lens))]
				w.huff(lc[s], uint(ll[s]))
				w.bits(uint32(rd.Intn(1<<16)), lenExtra[s-257])
				// distance: an assigned code (most of the time), or arbitrary bits
				var ds []int
				for d, l := range dl {
					if l > 0 && d < 30 {
						ds = append(ds, d)
					}
				}
				if len(ds) > 0 && rd.Intn(4) != 0 {
					d := ds[rd.Intn(len(ds))]
					if rd.Intn(2) == 0 {
						d = ds[0]
					}
					w.huff(dc[d], uint(dl[d]))
					w.bits(uint32(rd.Intn(1<<16)), distExtra[d])
				} else {
					w.bits(uint32(rd.Intn(1<<16)), uint(1+rd.Intn(15)))
				}
			} else {
				emitLit()
			}
		}
		switch rd.Intn(3) {
		case 0: // clean end of block
			w.huff(lc[256], uint(ll[256]))
		case 1: // random bits
			for i := 0; i < 4+rd.Intn(60); i++ {
				w.bits(uint32(rd.Intn(256)), 8)
			}
			if !final {
				w.huff(lc[256], uint(ll[256]))
			}
		default: // nothing: the stream just ends / the next header follows mid-data
		}
		if blk+1 < nBlocks {
			label += "+"
		}
	}
	return w.flush(), label
}

// targetedDegenerate: the smallest stream that looks up the unassigned pattern of a degenerate
// (single 1-bit code) distance table: literals, a length symbol, then distance bit `1`.
func targetedDegenerate(rd *hlib.Rand, distSym int, pad int) []byte {
	w := &bitWriter{}
	ll := make([]int, 258)
	ll[97], ll[256], ll[257] = 1, 2, 2
	dl := make([]int, distSym+1)
	dl[distSym] = 1
	writeDynHeader(w, true, ll, dl)
	lc := canonCodes(ll)
	for i := 0; i < 2+rd.Intn(3); i++ {
		w.huff(lc[97], 1)
	}
	w.huff(lc[257], 2)
	w.bits(1, 1) // the distance bit pattern that has no code
	for i := 0; i < 3; i++ {
		w.huff(lc[97], 1)
	}
	w.huff(lc[256], 2)
	out := w.flush()
	// padding: with >= 8 more source bytes the fast loops (decode_huffman_fast64 / bmi2) run
	for i := 0; i < pad; i++ {
		out = append(out, byte(rd.Intn(256)))
	}
	return out
}

// ---- generic corruption

func mutate(rd *hlib.Rand, src []byte) ([]byte, string) {
	b := append([]byte(nil), src...)
	if len(b) < 4 {
		return append(b, byte(rd.Intn(256))), "append"
	}
	pos := func() int {
		// half of the time: past the first fifth (headers), where the entropy-coded data is
		if rd.Bool() {
			lo := len(b) / 5
			return lo + rd.Intn(len(b)-lo)
		}
		return rd.Intn(len(b))
	}
	switch rd.Intn(8) {
	case 0:
		n := 1 + rd.Intn(3)
		for i := 0; i < n; i++ {
			b[pos()] ^= 1 << uint(rd.Intn(8))
		}
		return b, "bitflip"
	case 1:
		b[pos()] = byte(rd.Intn(256))
		return b, "byte"
	case 2:
		return b[:1+rd.Intn(len(b)-1)], "truncate"
	case 3:
		p := pos()
		n := 1 + rd.Intn(16)
		for i := p; i < p+n && i < len(b); i++ {
			b[i] = 0
		}
		return b, "zero-run"
	case 4:
		p := pos()
		n := 1 + rd.Intn(16)
		for i := p; i < p+n && i < len(b); i++ {
			b[i] = 0xFF
		}
		return b, "ff-run"
	case 5: // duplicate a run
		p := pos()
		n := 1 + rd.Intn(32)
		if p+n > len(b) {
			n = len(b) - p
		}
		out := append([]byte(nil), b[:p+n]...)
		out = append(out, b[p:]...)
		return out, "dup-run"
	case 6: // delete a run
		p := pos()
		n := 1 + rd.Intn(8)
		if p+n > len(b) {
			n = len(b) - p
		}
		return append(b[:p:p], b[p+n:]...), "del-run"
	default: // random tail
		p := pos()
		for i := p; i < len(b) && i < p+64; i++ {
			b[i] = byte(rd.Intn(256))
		}
		return b, "random-run"
	}
}
