package main

import (
	"os"
	"strings"
	"testing"
)

// The committed snapshot of /repo must conform to the coroutine frame protocol (sanity test of
// the scanner itself; the check proper scans the snapshot regenerated from the working tree).
func TestScanCoroOnCommittedSnapshot(t *testing.T) {
	b, err := os.ReadFile("/repo/release/c/wuffs-unsupported-snapshot.c")
	if err != nil {
		t.Skip("no snapshot")
	}
	lines := strings.Split(string(b), "\n")
	n, withLocals := 0, 0
	name, start := "", -1
	flush := func(end int) {
		if name == "" || start < 0 {
			return
		}
		cf, ok := scanCoro(name, lines[start:end])
		if !ok {
			return
		}
		n++
		if cf.loads > 0 {
			withLocals++
		}
		if !(cf.sameVars && cf.guarded && cf.atSuspend && cf.pwrites && cf.scrOK) {
			t.Errorf("%s", cf.op())
		}
	}
	for i, l := range lines {
		if m := reFuncMarker.FindStringSubmatch(l); m != nil {
			flush(i)
			name, start = m[1], i+1
		}
	}
	flush(len(lines))
	t.Logf("%d coroutine functions, %d with saved locals", n, withLocals)
	if n < 100 {
		t.Errorf("only %d coroutine functions found", n)
	}
}
