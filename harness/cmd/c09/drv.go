package main

// Building and talking to the compiled-C driver (c09drv.c) in its build flavours.

import (
	"bufio"
	_ "embed"
	"fmt"
	"io"
	"os"
	"os/exec"
	"path/filepath"
	"strings"
	"sync"
	"time"

	"wvh/hlib"
)

//go:embed csrc/c09drv.c
var drvSource string

// flavour = one way of compiling the same regenerated snapshot.
type flavour struct {
	name     string
	compiler string
	flags    []string
	bin      string
	macros   string // as reported by `info`
	have     string
	err      error
}

// The three family macros are defined together in fundamental-public.h; to build
// "family disabled" variants the scratch copy of the snapshot gets an #if guard
// around the V2 / V3 defines (the run-time cpuid detection itself cannot be overridden).
const famDefines = "#define WUFFS_PRIVATE_IMPL__CPU_ARCH__X86_64\n" +
	"#define WUFFS_PRIVATE_IMPL__CPU_ARCH__X86_64_V2\n" +
	"#define WUFFS_PRIVATE_IMPL__CPU_ARCH__X86_64_V3\n" +
	"#endif  // !defined(__native_client__)\n"

const famDefinesGuarded = "#define WUFFS_PRIVATE_IMPL__CPU_ARCH__X86_64\n" +
	"#if !defined(C09_NO_V2)\n#define WUFFS_PRIVATE_IMPL__CPU_ARCH__X86_64_V2\n#endif\n" +
	"#if !defined(C09_NO_V3)\n#define WUFFS_PRIVATE_IMPL__CPU_ARCH__X86_64_V3\n#endif\n" +
	"#endif  // !defined(__native_client__)\n"

// patchSnapshot writes a copy of the snapshot with the family guards; ok=false if the
// define block was not found (then the per-family flavours are skipped and counted).
func patchSnapshot(snapshot, dst string) (ok bool, err error) {
	b, err := os.ReadFile(snapshot)
	if err != nil {
		return false, err
	}
	s := string(b)
	i := strings.Index(s, famDefines)
	if i < 0 {
		return false, os.WriteFile(dst, b, 0o644)
	}
	s = s[:i] + famDefinesGuarded + s[i+len(famDefines):]
	return true, os.WriteFile(dst, []byte(s), 0o644)
}

func buildFlavours(dir, snapshot string, fl []*flavour) {
	src := filepath.Join(dir, "c09drv.c")
	if err := os.WriteFile(src, []byte(drvSource), 0o644); err != nil {
		for _, f := range fl {
			f.err = err
		}
		return
	}
	var wg sync.WaitGroup
	for _, f := range fl {
		wg.Add(1)
		go func(f *flavour) {
			defer wg.Done()
			f.bin = filepath.Join(dir, "c09drv_"+f.name)
			args := append([]string{"-w", "-DC09_SNAPSHOT=\"" + snapshot + "\""}, f.flags...)
			args = append(args, src, "-o", f.bin)
			f.err = hlib.CC(f.compiler, args...)
		}(f)
	}
	wg.Wait()
}

// proc is one running driver process.
type proc struct {
	cmd *exec.Cmd
	in  io.WriteCloser
	out *bufio.Reader
	mu  sync.Mutex
}

func startProc(bin string, wrapper ...string) (*proc, error) {
	var cmd *exec.Cmd
	if len(wrapper) > 0 {
		cmd = exec.Command(wrapper[0], append(wrapper[1:], bin)...)
	} else {
		cmd = exec.Command(bin)
	}
	in, err := cmd.StdinPipe()
	if err != nil {
		return nil, err
	}
	out, err := cmd.StdoutPipe()
	if err != nil {
		return nil, err
	}
	cmd.Stderr = nil
	if err := cmd.Start(); err != nil {
		return nil, err
	}
	return &proc{cmd: cmd, in: in, out: bufio.NewReaderSize(out, 1<<20)}, nil
}

// ask sends one command line and reads one answer line (generous watchdog).
func (p *proc) ask(line string) (string, error) {
	p.mu.Lock()
	defer p.mu.Unlock()
	type res struct {
		s   string
		err error
	}
	ch := make(chan res, 1)
	go func() {
		if _, err := io.WriteString(p.in, line+"\n"); err != nil {
			ch <- res{"", err}
			return
		}
		s, err := p.out.ReadString('\n')
		ch <- res{strings.TrimRight(s, "\n"), err}
	}()
	select {
	case r := <-ch:
		return r.s, r.err
	case <-time.After(300 * time.Second):
		p.cmd.Process.Kill()
		return "", fmt.Errorf("driver timeout")
	}
}

func (p *proc) close() {
	p.in.Close()
	done := make(chan struct{})
	go func() { p.cmd.Wait(); close(done) }()
	select {
	case <-done:
	case <-time.After(20 * time.Second):
		p.cmd.Process.Kill()
	}
}

// pool = several processes of one flavour; crashed ones are restarted.
type pool struct {
	f     *flavour
	procs chan *proc
	wrap  []string
}

func newPool(f *flavour, n int, wrapper ...string) (*pool, error) {
	pl := &pool{f: f, procs: make(chan *proc, n), wrap: wrapper}
	for i := 0; i < n; i++ {
		p, err := startProc(f.bin, wrapper...)
		if err != nil {
			return nil, err
		}
		pl.procs <- p
	}
	return pl, nil
}

// askMany sends several command lines at once and reads as many answer lines (the
// answers must be short: both pipes are buffered by the kernel only).
func (pl *pool) askMany(lines []string) []string {
	p := <-pl.procs
	out := make([]string, len(lines))
	p.mu.Lock()
	type res struct{ err error }
	ch := make(chan res, 1)
	go func() {
		if _, err := io.WriteString(p.in, strings.Join(lines, "\n")+"\n"); err != nil {
			ch <- res{err}
			return
		}
		for i := range lines {
			s, err := p.out.ReadString('\n')
			if err != nil {
				ch <- res{err}
				return
			}
			out[i] = strings.TrimRight(s, "\n")
		}
		ch <- res{nil}
	}()
	var err error
	select {
	case r := <-ch:
		err = r.err
	case <-time.After(600 * time.Second):
		err = fmt.Errorf("driver timeout")
	}
	p.mu.Unlock()
	if err != nil {
		p.cmd.Process.Kill()
		p.cmd.Wait()
		if np, err2 := startProc(pl.f.bin, pl.wrap...); err2 == nil {
			pl.procs <- np
		} else {
			pl.procs <- p
		}
		for i := range out {
			if out[i] == "" {
				out[i] = "crash"
			}
		}
		return out
	}
	pl.procs <- p
	return out
}

// ask runs one command on a free process; a dead process yields "crash" and is replaced.
func (pl *pool) ask(line string) string {
	p := <-pl.procs
	s, err := p.ask(line)
	if err != nil {
		p.cmd.Process.Kill()
		p.cmd.Wait()
		np, err2 := startProc(pl.f.bin, pl.wrap...)
		if err2 == nil {
			pl.procs <- np
		} else {
			pl.procs <- p // will keep failing; reported as crash
		}
		return "crash"
	}
	pl.procs <- p
	return s
}

func (pl *pool) close() {
	n := cap(pl.procs)
	for i := 0; i < n; i++ {
		select {
		case p := <-pl.procs:
			p.close()
		case <-time.After(60 * time.Second):
			return
		}
	}
}
