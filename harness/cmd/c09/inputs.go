package main

// Input generators for the C09 matrix: valid files from Go's encoders and hand-made
// containers (PNG with explicit per-row filter types and every colour type / depth,
// JPEGs with inflated quantisation tables), plus /repo/test/data.

import (
	"bytes"
	"compress/flate"
	"compress/gzip"
	"compress/lzw"
	"compress/zlib"
	"encoding/binary"
	"hash/crc32"
	"image"
	"image/color"
	"image/gif"
	"image/jpeg"
	"os"
	"os/exec"
	"path/filepath"
	"sort"
	"strings"

	"wvh/hlib"
)

type tcase struct {
	codec    string
	kind     string // io | img | h32 | h64
	label    string
	src      []byte
	srcchunk int
	dstcap   int
	misalign int
	jpegAdv  bool // adversarial JPEG: the cross-build comparison is subject to the range predicate
	hostile  bool // deliberately malformed / corrupted input
}

func kindOf(codec string) string {
	switch codec {
	case "deflate", "zlib", "gzip", "bzip2", "lzma", "xz", "lzip", "lzw":
		return "io"
	case "adler32", "crc32", "xxhash32":
		return "h32"
	case "crc64", "xxhash64":
		return "h64"
	}
	return "img"
}

// ---- payload data

func payload(rd *hlib.Rand, kind, n int) []byte {
	b := make([]byte, n)
	switch kind % 6 {
	case 0: // random
		copy(b, rd.Bytes(n))
	case 1: // text-like
		words := []string{"the ", "quick ", "brown ", "fox ", "jumps ", "over ", "lazy ", "dog\n", "wuffs ", "0123456789 "}
		var bb bytes.Buffer
		for bb.Len() < n {
			bb.WriteString(words[rd.Intn(len(words))])
		}
		copy(b, bb.Bytes())
	case 2: // long runs (length 258 matches, distance 1)
		v := byte(rd.Intn(256))
		for i := range b {
			if rd.Intn(300) == 0 {
				v = byte(rd.Intn(256))
			}
			b[i] = v
		}
	case 3: // far matches: a random block repeated at distance up to 32768
		blk := rd.Bytes(1 + rd.Intn(600))
		gap := 1 + rd.Intn(33000)
		for i := 0; i < n; i++ {
			if (i/len(blk))%2 == 0 || i < gap {
				b[i] = blk[i%len(blk)]
			} else {
				b[i] = b[i-gap]
			}
		}
	case 4: // low-entropy random
		for i := range b {
			b[i] = byte(rd.Intn(4)) * 17
		}
	default: // geometric byte values: many distinct symbols, very skewed -> long Huffman codes (redirects)
		for i := range b {
			v := 0
			for v < 255 && rd.Intn(100) < 93 {
				v++
			}
			b[i] = byte(v * 7)
		}
	}
	return b
}

var sizeLadder = []int{0, 1, 2, 3, 7, 15, 16, 17, 31, 32, 33, 63, 64, 65, 127, 128, 129, 255, 256, 257, 1000, 4095, 4096, 5551, 5552, 5553, 11104, 11105, 32767, 32768, 32769, 70000}

func deflateOf(data []byte, level int) []byte {
	var bb bytes.Buffer
	w, _ := flate.NewWriter(&bb, level)
	w.Write(data)
	w.Close()
	return bb.Bytes()
}

func zlibOf(data []byte, level int) []byte {
	var bb bytes.Buffer
	w, _ := zlib.NewWriterLevel(&bb, level)
	w.Write(data)
	w.Close()
	return bb.Bytes()
}

func gzipOf(data []byte, level int) []byte {
	var bb bytes.Buffer
	w, _ := gzip.NewWriterLevel(&bb, level)
	w.Write(data)
	w.Close()
	return bb.Bytes()
}

func lzwOf(data []byte) []byte {
	var bb bytes.Buffer
	w := lzw.NewWriter(&bb, lzw.LSB, 8)
	w.Write(data)
	w.Close()
	return bb.Bytes()
}

func toolCompress(tool string, args []string, data []byte) []byte {
	path, err := exec.LookPath(tool)
	if err != nil {
		return nil
	}
	cmd := exec.Command(path, args...)
	cmd.Stdin = bytes.NewReader(data)
	out, err := cmd.Output()
	if err != nil {
		return nil
	}
	return out
}

// ---- PNG

func pngChunk(bb *bytes.Buffer, typ string, data []byte) {
	var l [4]byte
	binary.BigEndian.PutUint32(l[:], uint32(len(data)))
	bb.Write(l[:])
	bb.WriteString(typ)
	bb.Write(data)
	c := crc32.NewIEEE()
	c.Write([]byte(typ))
	c.Write(data)
	binary.BigEndian.PutUint32(l[:], c.Sum32())
	bb.Write(l[:])
}

// makePNG: the "filtered" scanline bytes are chosen directly (any bytes are valid
// filtered data), so every filter type sees arbitrary operands. filterMode: 0..4 =
// that filter on every row, 5 = cycle 0..4, 6 = random.
func makePNG(rd *hlib.Rand, w, h, colorType, depth, filterMode int, interlace bool, smooth bool, level int) []byte {
	channels := map[int]int{0: 1, 2: 3, 3: 1, 4: 2, 6: 4}[colorType]
	bitsPerPixel := channels * depth
	var bb bytes.Buffer
	bb.WriteString("\x89PNG\r\n\x1a\n")
	ihdr := make([]byte, 13)
	binary.BigEndian.PutUint32(ihdr[0:], uint32(w))
	binary.BigEndian.PutUint32(ihdr[4:], uint32(h))
	ihdr[8] = byte(depth)
	ihdr[9] = byte(colorType)
	if interlace {
		ihdr[12] = 1
	}
	pngChunk(&bb, "IHDR", ihdr)
	if colorType == 3 {
		pal := rd.Bytes(3 * (1 << uint(depth)))
		pngChunk(&bb, "PLTE", pal)
		if rd.Bool() {
			pngChunk(&bb, "tRNS", rd.Bytes(1+rd.Intn(1<<uint(depth))))
		}
	}
	var raw bytes.Buffer
	row := 0
	emit := func(pw, ph int) {
		if pw == 0 || ph == 0 {
			return
		}
		n := (pw*bitsPerPixel + 7) / 8
		for y := 0; y < ph; y++ {
			ft := filterMode
			if filterMode == 5 {
				ft = row % 5
			} else if filterMode == 6 {
				ft = rd.Intn(5)
			}
			row++
			raw.WriteByte(byte(ft))
			if smooth {
				v := byte(rd.Intn(256))
				for i := 0; i < n; i++ {
					if rd.Intn(8) == 0 {
						v += byte(rd.Intn(5)) - 2
					}
					raw.WriteByte(v & 7)
				}
			} else {
				raw.Write(rd.Bytes(n))
			}
		}
	}
	if !interlace {
		emit(w, h)
	} else {
		xs := []int{0, 4, 0, 2, 0, 1, 0}
		ys := []int{0, 0, 4, 0, 2, 0, 1}
		dx := []int{8, 8, 4, 4, 2, 2, 1}
		dy := []int{8, 8, 8, 4, 4, 2, 2}
		for p := 0; p < 7; p++ {
			pw := (w - xs[p] + dx[p] - 1) / dx[p]
			ph := (h - ys[p] + dy[p] - 1) / dy[p]
			if w <= xs[p] {
				pw = 0
			}
			if h <= ys[p] {
				ph = 0
			}
			emit(pw, ph)
		}
	}
	z := zlibOf(raw.Bytes(), level)
	// split IDAT in two sometimes
	if len(z) > 10 && rd.Bool() {
		k := 1 + rd.Intn(len(z)-1)
		pngChunk(&bb, "IDAT", z[:k])
		pngChunk(&bb, "IDAT", z[k:])
	} else {
		pngChunk(&bb, "IDAT", z)
	}
	pngChunk(&bb, "IEND", nil)
	return bb.Bytes()
}

type pngKind struct{ ct, depth int }

var pngKinds = []pngKind{{0, 8}, {4, 8}, {2, 8}, {6, 8}, {2, 16}, {6, 16}, {0, 16}, {4, 16}, {3, 8}, {3, 4}, {3, 2}, {3, 1}, {0, 1}, {0, 2}, {0, 4}}

// ---- JPEG

func noiseImage(rd *hlib.Rand, w, h int, gray bool, amp int) image.Image {
	if gray {
		im := image.NewGray(image.Rect(0, 0, w, h))
		for y := 0; y < h; y++ {
			for x := 0; x < w; x++ {
				v := (x*255/(w+1) + y*3) & 255
				v += rd.Intn(2*amp+1) - amp
				if v < 0 {
					v = 0
				}
				if v > 255 {
					v = 255
				}
				im.SetGray(x, y, color.Gray{uint8(v)})
			}
		}
		return im
	}
	im := image.NewRGBA(image.Rect(0, 0, w, h))
	for y := 0; y < h; y++ {
		for x := 0; x < w; x++ {
			c := [3]int{x * 255 / (w + 1), y * 255 / (h + 1), (x ^ y) & 255}
			for k := range c {
				c[k] += rd.Intn(2*amp+1) - amp
				if c[k] < 0 {
					c[k] = 0
				}
				if c[k] > 255 {
					c[k] = 255
				}
			}
			im.SetRGBA(x, y, color.RGBA{uint8(c[0]), uint8(c[1]), uint8(c[2]), 255})
		}
	}
	return im
}

func jpegOf(im image.Image, q int) []byte {
	var bb bytes.Buffer
	jpeg.Encode(&bb, im, &jpeg.Options{Quality: q})
	return bb.Bytes()
}

// inflateDQT overwrites every 8-bit quantisation table entry with a large value, so that
// the dequantised coefficients reconstruct far outside the 10-bit range.
func inflateDQT(rd *hlib.Rand, j []byte, lo, hi int) []byte {
	out := append([]byte(nil), j...)
	for i := 2; i+4 <= len(out); {
		if out[i] != 0xFF {
			break
		}
		m := out[i+1]
		l := int(out[i+2])<<8 | int(out[i+3])
		if m == 0xDA {
			break
		}
		if m == 0xDB {
			p := i + 4
			end := i + 2 + l
			for p < end && p < len(out) {
				pq := out[p] >> 4
				p++
				n := 64
				if pq != 0 {
					n = 128
				}
				for k := 0; k < n && p < end && p < len(out); k++ {
					if pq == 0 {
						out[p] = byte(rd.Range(lo, hi))
					}
					p++
				}
			}
		}
		i += 2 + l
	}
	return out
}

// ---- GIF

func gifOf(rd *hlib.Rand, w, h, frames int) []byte {
	pal := color.Palette{}
	n := 2 << uint(rd.Intn(8))
	for i := 0; i < n; i++ {
		pal = append(pal, color.RGBA{uint8(rd.Intn(256)), uint8(rd.Intn(256)), uint8(rd.Intn(256)), 255})
	}
	g := &gif.GIF{}
	for f := 0; f < frames; f++ {
		r := image.Rect(0, 0, w, h)
		if f > 0 {
			x0, y0 := rd.Intn(w), rd.Intn(h)
			r = image.Rect(x0, y0, x0+1+rd.Intn(w-x0), y0+1+rd.Intn(h-y0))
		}
		im := image.NewPaletted(r, pal)
		for i := range im.Pix {
			if rd.Intn(3) == 0 {
				im.Pix[i] = uint8(rd.Intn(n))
			} else if i > 0 {
				im.Pix[i] = im.Pix[i-1]
			}
		}
		g.Image = append(g.Image, im)
		g.Delay = append(g.Delay, 1)
	}
	g.Config = image.Config{ColorModel: pal, Width: w, Height: h}
	var bb bytes.Buffer
	if err := gif.EncodeAll(&bb, g); err != nil {
		return nil
	}
	return bb.Bytes()
}

// ---- BMP (24-bit bottom-up, 8-bit palette)

func bmpOf(rd *hlib.Rand, w, h int, bpp int) []byte {
	stride := ((w*bpp + 31) / 32) * 4
	palN := 0
	if bpp == 8 {
		palN = 256
	}
	off := 14 + 40 + 4*palN
	size := off + stride*h
	b := make([]byte, size)
	copy(b, "BM")
	binary.LittleEndian.PutUint32(b[2:], uint32(size))
	binary.LittleEndian.PutUint32(b[10:], uint32(off))
	binary.LittleEndian.PutUint32(b[14:], 40)
	binary.LittleEndian.PutUint32(b[18:], uint32(w))
	binary.LittleEndian.PutUint32(b[22:], uint32(h))
	binary.LittleEndian.PutUint16(b[26:], 1)
	binary.LittleEndian.PutUint16(b[28:], uint16(bpp))
	binary.LittleEndian.PutUint32(b[34:], uint32(stride*h))
	copy(b[54:], rd.Bytes(size-54))
	for i := 0; i < palN; i++ {
		b[54+4*i+3] = 0
	}
	return b
}

// ---- test data

var extCodec = map[string]string{
	".png": "png", ".jpeg": "jpeg", ".gif": "gif", ".bmp": "bmp", ".wbmp": "wbmp", ".tga": "targa",
	".nie": "nie", ".qoi": "qoi", ".webp": "webp", ".pgm": "netpbm", ".ppm": "netpbm",
	".bz2": "bzip2", ".xz": "xz", ".lzma": "lzma", ".lz": "lzip", ".gz": "gzip", ".zlib": "zlib", ".deflate": "deflate",
}

func testDataCases(repo string, maxSize int, limitPerCodec int) []tcase {
	dir := filepath.Join(repo, "test", "data")
	ents, err := os.ReadDir(dir)
	if err != nil {
		return nil
	}
	names := []string{}
	for _, e := range ents {
		if !e.IsDir() {
			names = append(names, e.Name())
		}
	}
	sort.Strings(names)
	per := map[string]int{}
	var out []tcase
	for _, n := range names {
		codec, ok := extCodec[strings.ToLower(filepath.Ext(n))]
		if !ok {
			continue
		}
		st, err := os.Stat(filepath.Join(dir, n))
		if err != nil || st.Size() > int64(maxSize) {
			continue
		}
		if per[codec] >= limitPerCodec {
			continue
		}
		b, err := os.ReadFile(filepath.Join(dir, n))
		if err != nil {
			continue
		}
		per[codec]++
		out = append(out, tcase{codec: codec, kind: kindOf(codec), label: "testdata/" + n, src: b})
	}
	return out
}
