// Harness of property C09: results depend only on the input — not on memory garbage,
// initialize options, re-initialisation, destination tail contents or CPU-specific
// code paths (one documented JPEG IDCT exception outside the 10-bit range).
//
// The code under test is C generated from /repo's working tree (wuffs gen in a scratch
// copy), compiled in several flavours together with c09drv.c; see that file for the
// driver protocol.  Op lines for the Lean model (Driver/C09.lean): `init`, `choose`,
// `idct`, `adler32|crc32|crc64`.  The matrix itself is the property's own oracle
// (all configurations of one case must answer the same line).
package main

import (
	"fmt"
	"os"
	"path/filepath"
	"regexp"
	"sort"
	"strings"
	"sync"
	"time"

	"wvh/hlib"
)

func main() {
	r := hlib.Start("C09")
	if r.IsGen() {
		runGen(r)
		return
	}
	h := &harness{r: r}
	h.run()
	r.Finish("cases: (codec, input, source chunking, destination capacity, misalignment); each is decoded under " +
		"{zeroed+ALREADY_ZEROED, options 0, LEAVE_INTERNAL_BUFFERS_UNINITIALIZED} x {object/work memory pre-filled 00/ff/a5/PRNG} x " +
		"{fresh, re-initialised after another valid input, after a truncated one} x {destination pre-fill bytes} x build flavours; " +
		"a case is non-trivial if it decodes at least one byte/pixel (or hashes >= 1 byte); distinct = distinct (codec, input hash, chunking)")
}

type harness struct {
	r       *hlib.Run
	sb      *hlib.StdBuild
	dir     string
	fl      []*flavour
	pools   map[string]*pool
	probeFl []*flavour
	mu      sync.Mutex
}

func (h *harness) fatal(what string, err error) {
	h.r.Fail("harness:"+what, fmt.Sprintf("%s: %v", what, err), what)
	h.r.Note(what + ": " + err.Error())
}

func (h *harness) run() {
	r := h.r
	tstart := time.Now()
	sb, err := hlib.GenStd(r.Repo)
	if err != nil {
		// the generated C cannot be produced from the working tree: correspondence is broken
		r.Fail("setup:genstd", "regenerating std C from the working tree failed: "+firstLine(err.Error()), err.Error())
		return
	}
	h.sb = sb
	defer sb.Cleanup()
	dir, cleanup := hlib.NewScratchDir("c09")
	defer cleanup()
	h.dir = dir

	patched := filepath.Join(dir, "snapshot.c")
	famOK, err := patchSnapshot(sb.Snapshot, patched)
	if err != nil {
		r.Fail("setup:patch", firstLine(err.Error()), err.Error())
		return
	}
	snapText, _ := os.ReadFile(patched)
	stdStructs := parseCStructs(string(snapText))
	stdInc := filepath.Join(dir, "std_structs.inc")
	os.WriteFile(stdInc, []byte(structsInc(stdStructs, nil)), 0o644)

	// ---- probe packages (one TU, base module only)
	nProbes := 6
	if r.Thorough {
		nProbes = 24
	}
	var probes []*probePkg
	prd := r.Rand.Fork()
	var probeC strings.Builder
	fmt.Fprintf(&probeC, "#define WUFFS_CONFIG__MODULES\n#define WUFFS_CONFIG__MODULE__BASE\n")
	for i := 0; i < nProbes; i++ {
		fmt.Fprintf(&probeC, "#define WUFFS_CONFIG__MODULE__PROBE%d\n", i)
	}
	fmt.Fprintf(&probeC, "#include \"%s\"\n", patched)
	for i := 0; i < nProbes; i++ {
		p := genProbe(prd, fmt.Sprintf("probe%d", i))
		wf := filepath.Join(dir, p.name+".wuffs")
		os.WriteFile(wf, []byte(p.src), 0o644)
		csrc, stderr, err := hlib.GenPkg(filepath.Join(sb.BinDir, "wuffs-c"), p.name, wf)
		if err != nil {
			r.Fail("harness:probe-gen", "wuffs-c gen rejected a probe package: "+firstLine(string(stderr)), p.src)
			continue
		}
		s := string(csrc)
		if a := strings.Index(s, "MONOLITHIC RELEASE DISCARDS EVERYTHING ABOVE."); a >= 0 {
			s = s[a+len("MONOLITHIC RELEASE DISCARDS EVERYTHING ABOVE."):]
		}
		if b := strings.Index(s, "// ¡ WUFFS MONOLITHIC RELEASE DISCARDS EVERYTHING BELOW."); b >= 0 {
			s = s[:b]
		}
		p.csrc = s
		probeC.WriteString("\n" + s + "\n")
		probes = append(probes, p)
	}
	probeAll := filepath.Join(dir, "probe_all.c")
	os.WriteFile(probeAll, []byte(probeC.String()), 0o644)
	probeStructs := parseCStructs(probeC.String())
	// only the probe packages' own structs
	var ps []cStruct
	for _, s := range probeStructs {
		if strings.HasPrefix(s.name, "wuffs_probe") {
			ps = append(ps, s)
		}
	}
	probeInc := filepath.Join(dir, "probe_structs.inc")
	os.WriteFile(probeInc, []byte(structsInc(ps, probes)), 0o644)

	// ---- flavours
	opt := "-O2"
	cc := "clang"                            // quick: clang compiles the snapshot twice as fast as gcc; thorough adds gcc builds
	nopie := []string{"-fno-pie", "-no-pie"} // fixed addresses: pointer fields comparable across processes
	h.fl = []*flavour{
		{name: "default", compiler: cc, flags: append([]string{opt, "-DC09_STRUCTS_INC=\"" + stdInc + "\""}, nopie...)},
		{name: "noarch", compiler: cc, flags: append([]string{opt, "-DWUFFS_CONFIG__AVOID_CPU_ARCH"}, nopie...)},
	}
	if r.Thorough {
		if famOK {
			h.fl = append(h.fl,
				&flavour{name: "nov3", compiler: cc, flags: []string{opt, "-DC09_NO_V3"}},
				&flavour{name: "nov2", compiler: cc, flags: []string{opt, "-DC09_NO_V2"}})
		} else {
			r.Count("skipped:family-flavours(define block not found)")
		}
		h.fl = append(h.fl,
			&flavour{name: "gcc", compiler: "gcc", flags: []string{"-O2"}},
			&flavour{name: "gccnoarch", compiler: "gcc", flags: []string{"-O2", "-DWUFFS_CONFIG__AVOID_CPU_ARCH"}},
			&flavour{name: "vg", compiler: "gcc", flags: []string{"-O1", "-g", "-gdwarf-4"}})
	}
	pflags := func(extra ...string) []string {
		return append([]string{"-O0", "-DC09_PROBE_ONLY", "-DC09_STRUCTS_INC=\"" + probeInc + "\""}, extra...)
	}
	h.probeFl = []*flavour{
		{name: "p_default", compiler: "clang", flags: pflags()},
		{name: "p_noarch", compiler: "clang", flags: pflags("-DWUFFS_CONFIG__AVOID_CPU_ARCH")},
	}
	if famOK {
		h.probeFl = append(h.probeFl,
			&flavour{name: "p_nov3", compiler: "clang", flags: pflags("-DC09_NO_V3")},
			&flavour{name: "p_nov2", compiler: "clang", flags: pflags("-DC09_NO_V2")},
			&flavour{name: "p_nov2v3", compiler: "clang", flags: pflags("-DC09_NO_V2", "-DC09_NO_V3")})
	}
	tb := time.Now()
	var wg sync.WaitGroup
	wg.Add(2)
	go func() { defer wg.Done(); buildFlavours(dir, patched, h.fl) }()
	go func() {
		defer wg.Done()
		pdir := filepath.Join(dir, "p")
		os.MkdirAll(pdir, 0o755)
		buildFlavours(pdir, probeAll, h.probeFl)
	}()
	wg.Wait()
	r.Note(fmt.Sprintf("time builds: %.1fs (after genstd+probes %.1fs)", time.Since(tb).Seconds(), tb.Sub(tstart).Seconds()))
	for _, f := range append(append([]*flavour{}, h.fl...), h.probeFl...) {
		if f.err != nil {
			r.Fail("setup:build:"+f.name, "compiling the regenerated C failed: "+firstLine(f.err.Error()), f.err.Error())
			return
		}
	}

	h.pools = map[string]*pool{}
	nproc := 3
	if r.Thorough {
		nproc = 3
	}
	for _, f := range h.fl {
		if f.name == "vg" {
			continue
		}
		pl, err := newPool(f, nproc)
		if err != nil {
			h.fatal("start "+f.name, err)
			return
		}
		h.pools[f.name] = pl
		defer pl.close()
		info := pl.ask("info")
		f.macros, f.have = parseInfo(info)
		r.Note("flavour " + f.name + ": " + info)
	}

	t0 := time.Now()
	lap := func(what string) {
		r.Note(fmt.Sprintf("time %s: %.1fs", what, time.Since(t0).Seconds()))
		t0 = time.Now()
	}
	h.coroSection(string(snapText))
	lap("coroutine frames")
	h.partitionSection(stdStructs)
	h.probeSection(probes)
	lap("probes")
	h.stdObjSection(stdStructs)
	lap("std objects")
	h.idctSection()
	lap("idct")
	h.pngFilterSection()
	lap("png filters")
	h.hashSection()
	lap("hash reference")
	h.matrixSection()
	lap("matrix")
	if r.Thorough {
		h.valgrindSection()
		lap("valgrind")
	}
}

func firstLine(s string) string {
	if i := strings.IndexByte(s, '\n'); i >= 0 {
		s = s[:i]
	}
	if len(s) > 300 {
		s = s[:300]
	}
	return s
}

func parseInfo(s string) (macros, have string) {
	for _, f := range strings.Fields(s) {
		if strings.HasPrefix(f, "macros=") {
			macros = f[7:]
		}
		if strings.HasPrefix(f, "have=") {
			have = f[5:]
		}
	}
	// the model knows v2 v3 neon crc32; x64 only gates cpuid
	var ms []string
	for _, m := range strings.Split(macros, ",") {
		if m != "x64" && m != "-" && m != "" {
			ms = append(ms, m)
		}
	}
	macros = strings.Join(ms, ",")
	if macros == "" {
		macros = "-"
	}
	if have == "" {
		have = "-"
	}
	return
}

// ---------------------------------------------------------------- initializer model tie

var priorPatterns = []string{"z", "c:ff", "c:a5", "r:7", "q:9"}

// canonDump turns the raw dump of c09drv `objinit` into the model's alphabet: bytes of
// pointer slots become "pp" (after checking they are non-null).
func canonDump(ans string, ptrs []int) (string, bool) {
	if !strings.HasPrefix(ans, "ok ") {
		return ans, true
	}
	rs := parseRuns(ans[3:])
	ok := true
	for _, p := range ptrs {
		nonzero := false
		for _, t := range runsWindow(rs, p, 8) {
			if t != "00" {
				nonzero = true
			}
		}
		if !nonzero {
			ok = false
		}
		rs = runsReplace(rs, p, 8, "pp")
	}
	return "ok " + runsString(rs), ok
}

func statusToModel(s string) string {
	// "err #base:_bad_receiver" -> "err bad-receiver"
	s = strings.TrimPrefix(s, "err ")
	s = strings.TrimPrefix(s, "#base:_")
	s = strings.ReplaceAll(s, "_", "-")
	s = strings.ReplaceAll(s, "initialize-", "")
	return "err " + s
}

// rec collects the outcome of one unit of work so that units can run concurrently and
// still be reported in a deterministic order.
type rec struct {
	ops    [][2]string
	fails  []hlib.Failure
	counts []string
}

func (rc *rec) op(op, impl string) { rc.ops = append(rc.ops, [2]string{op, impl}) }
func (rc *rec) fail(key, desc, rep string) {
	rc.fails = append(rc.fails, hlib.Failure{Key: key, Desc: desc, Replay: rep})
}
func (rc *rec) count(c string) { rc.counts = append(rc.counts, c) }
func (rc *rec) emit(r *hlib.Run) {
	for _, o := range rc.ops {
		r.Op(o[0], o[1])
	}
	for _, f := range rc.fails {
		r.Fail(f.Key, f.Desc, f.Replay)
	}
	for _, c := range rc.counts {
		r.Count(c)
	}
}

func (h *harness) objInitOps(rc *rec, pl *pool, lay map[string]*layoutInfo, typ string, opts []int, priors []string, tag string) {
	r := h.r
	li := lay[typ]
	if li == nil {
		return
	}
	sym := 0
	var ptrs []int
	desc := objDesc(lay, typ, 0, &sym, &ptrs)
	// raw pointer bytes must be identical over all priors (same process image)
	ptrSeen := map[int]string{}
	for _, o := range opts {
		for _, pr := range priors {
			if li.size > 1<<16 && (strings.HasPrefix(pr, "r:") || strings.HasPrefix(pr, "q:")) && !r.Thorough {
				continue
			}
			ans := pl.ask(fmt.Sprintf("objinit %s %d %s", typ, o, pr))
			var impl string
			if strings.HasPrefix(ans, "ok ") {
				raw := parseRuns(ans[3:])
				for _, p := range ptrs {
					if p+8 <= runsLen(raw) {
						v := strings.Join(runsWindow(raw, p, 8), "")
						if old, ok := ptrSeen[p]; ok && old != v {
							rc.fail("objinit:pointer-varies:"+tag, "a pointer field set by initialize differs between runs over different prior memory",
								fmt.Sprintf("objinit %s %d %s (offset %d: %s vs %s)", typ, o, pr, p, old, v))
						}
						ptrSeen[p] = v
					}
				}
				var ok bool
				impl, ok = canonDump(ans, ptrs)
				if !ok {
					rc.fail("objinit:null-pointer:"+tag, "a vtable/choosy pointer is null after a successful initialize", fmt.Sprintf("objinit %s %d %s", typ, o, pr))
				}
				// the property's own oracle: first parts identical whatever the prior memory was
				h.checkDetermined(rc, typ, o, pr, raw, lay, tag)
			} else {
				impl = statusToModel(ans)
			}
			rc.op(fmt.Sprintf("init %d 0 %d 0 %s %s", o, li.size, pr, desc), impl)
			rc.count("objinit:opts=" + fmt.Sprint(o))
		}
	}
	// argument checks
	for _, bad := range [][3]string{{fmt.Sprint(li.size + 1), "0", "0"}, {fmt.Sprint(li.size), "4294967296", "0"}, {fmt.Sprint(li.size), "65536", "0"}, {fmt.Sprint(li.size), "0", "1"}} {
		ans := pl.ask(fmt.Sprintf("objinit %s 0 c:ff %s %s %s", typ, bad[0], bad[1], bad[2]))
		impl := ans
		if strings.HasPrefix(ans, "ok ") {
			impl, _ = canonDump(ans, ptrs)
		} else {
			impl = statusToModel(ans)
		}
		rc.op(fmt.Sprintf("init 0 %s %s %s c:ff %s", bad[2], bad[0], bad[1], desc), impl)
	}
}

// determinedRef[typ][opts] = dump of the first successful run; later runs over other
// priors must agree on every byte initialize is supposed to determine.
var determinedRef = map[string][]run{}
var determinedPrior = map[string]string{}
var detMu sync.Mutex

func firstPartRanges(lay map[string]*layoutInfo, typ string, base int, out *[][2]int) {
	li := lay[typ]
	if li == nil {
		return
	}
	*out = append(*out, [2]int{base, base + li.impl})
	for _, s := range li.subs {
		firstPartRanges(lay, s.typ, base+s.off, out)
	}
}

func (h *harness) checkDetermined(rc *rec, typ string, opts int, prior string, raw []run, lay map[string]*layoutInfo, tag string) {
	if opts&1 != 0 && prior != "z" {
		// ALREADY_ZEROED over memory that is not zero: the caller broke the contract
		return
	}
	key := fmt.Sprintf("%s/%d", typ, opts&3)
	detMu.Lock()
	ref, ok := determinedRef[key]
	refPrior := determinedPrior[key]
	if !ok {
		determinedRef[key] = raw
		determinedPrior[key] = prior
	}
	detMu.Unlock()
	if !ok {
		return
	}
	var ranges [][2]int
	if opts&1 == 0 && opts&2 != 0 {
		firstPartRanges(lay, typ, 0, &ranges)
	} else {
		ranges = [][2]int{{0, runsLen(raw)}}
	}
	for _, rg := range ranges {
		if i, x, y := runsDiffInRange(raw, ref, rg[0], rg[1]); i >= 0 {
			rc.fail("objinit:prior-dependent:"+tag,
				fmt.Sprintf("byte %d of %s after initialize(options=%d) depends on the prior memory (%s over %s, %s over %s)", i, typ, opts, x, prior, y, refPrior),
				fmt.Sprintf("objinit %s %d %s\nobjinit %s %d %s", typ, opts, prior, typ, opts, refPrior))
			return
		}
	}
}

func (h *harness) probeSection(probes []*probePkg) {
	r := h.r
	pools := map[string]*pool{}
	for _, f := range h.probeFl {
		pl, err := newPool(f, 1)
		if err != nil {
			h.fatal("start "+f.name, err)
			return
		}
		defer pl.close()
		pools[f.name] = pl
		f.macros, f.have = parseInfo(pl.ask("info"))
	}
	def := pools["p_default"]
	lay := parseLayout(def.ask("layout"))
	for _, p := range probes {
		rc := &rec{}
		h.objInitOps(rc, def, lay, "wuffs_"+p.name+"__outer", []int{0, 1, 2, 3, 4, 6}, priorPatterns, "probe")
		rc.emit(r)
		r.Nontrivial("probe:" + p.name)
		// choose: every flavour
		for _, f := range h.probeFl {
			ans := pools[f.name].ask("pick " + p.name)
			kv := fieldsKV(ans)
			cur0 := "pick"
			r.Op(fmt.Sprintf("choose %s %s %s", f.macros, f.have, cur0), "sel "+p.nameOfID(kv["before"]))
			a1 := p.nameOfID(kv["after1"])
			r.Op(strings.TrimSpace(fmt.Sprintf("choose %s %s %s %s", f.macros, f.have, cur0, p.altArgs(p.list1))), "sel "+a1)
			r.Op(strings.TrimSpace(fmt.Sprintf("choose %s %s %s %s", f.macros, f.have, a1, p.altArgs(p.list2))), "sel "+p.nameOfID(kv["after2"]))
			r.Count("choose:" + f.name)
			// own oracle (choose_total on the implementation): the selected variant is in the list or the previous one
			if !memberOrCur(p, p.list1, a1, "pick") || !memberOrCur(p, p.list2, p.nameOfID(kv["after2"]), a1) {
				r.Fail("choose:not-a-member", "choose selected a function that is neither an alternative nor the current value", "pick "+p.name+"\n"+p.src)
			}
		}
	}
}

func memberOrCur(p *probePkg, l []int, got, cur string) bool {
	if got == cur {
		return true
	}
	for _, i := range l {
		if p.alts[i].fn == got {
			return true
		}
	}
	return false
}

func fieldsKV(s string) map[string]string {
	m := map[string]string{}
	for _, f := range strings.Fields(s) {
		if i := strings.IndexByte(f, '='); i > 0 {
			m[f[:i]] = f[i+1:]
		}
	}
	return m
}

func (h *harness) stdObjSection(structs []cStruct) {
	pl := h.pools["default"]
	lay := parseLayout(pl.ask("layout"))
	names := []string{}
	for _, s := range structs {
		names = append(names, s.name)
	}
	sort.Strings(names)
	recs := make([]*rec, len(names))
	var wg sync.WaitGroup
	for k, n := range names {
		li := lay[n]
		recs[k] = &rec{}
		if li == nil {
			continue
		}
		wg.Add(1)
		go func(rc *rec, n string, li *layoutInfo) {
			defer wg.Done()
			switch {
			case li.size > 1<<16 && !h.r.Thorough:
				// big objects: constant priors only, two option sets
				h.objInitOps(rc, pl, lay, n, []int{0, 2}, []string{"c:ff", "c:a5"}, "std")
			case li.size > 1<<14 && !h.r.Thorough:
				h.objInitOps(rc, pl, lay, n, []int{0, 1, 2}, []string{"z", "c:ff", "c:a5"}, "std")
			default:
				h.objInitOps(rc, pl, lay, n, []int{0, 1, 2, 3}, []string{"z", "c:ff", "c:a5", "r:3", "q:5"}, "std")
			}
		}(recs[k], n, li)
	}
	wg.Wait()
	for k, n := range names {
		recs[k].emit(h.r)
		if lay[n] != nil {
			h.r.Nontrivial("stdobj:" + n)
		}
	}
}

// partitionSection: the f_* members of private_impl / private_data of every struct of the
// regenerated C against the field partition of the parsed AST (Gen/C09_StdFields.lean).
func (h *harness) partitionSection(structs []cStruct) {
	sorted := append([]cStruct(nil), structs...)
	sort.Slice(sorted, func(i, j int) bool { return sorted[i].name < sorted[j].name })
	join := func(l []string) string {
		if len(l) == 0 {
			return "-"
		}
		return strings.Join(l, ",")
	}
	for _, s := range sorted {
		h.r.Op(fmt.Sprintf("partition %s impl=%s data=%s", s.name, join(s.implF), join(s.dataF)), "ok")
		h.r.Count("partition:structs")
	}
}

// ---------------------------------------------------------------- IDCT

func (h *harness) idctSection() {
	r := h.r
	rd := r.Rand.Fork()
	pl := h.pools["default"]
	n := 600
	if r.Thorough {
		n = 20000
	}
	haveAvx := strings.Contains(h.fl[0].have, "avx2") && strings.Contains(h.fl[0].macros, "v3")
	// deterministic sweep first: every single AC position (with and without DC), every single
	// row and column -- the AVX2 code's "are all AC terms zero" shortcut is a two-stage test of
	// specific positions (8..11 and 16..19 first, then rows 1..7), the portable code tests each
	// column / row separately
	const nEdge = 4
	const nSweep = 63*2 + 14 + nEdge
	n += nSweep
	for i := 0; i < n; i++ {
		c := make([]int, 64)
		q := make([]byte, 64)
		kind := (i - nSweep) % 12
		switch {
		case i < 63:
			kind = 100
			c[0] = rd.Range(-200, 200)
			c[1+i] = rd.Range(8, 120) * (1 - 2*rd.Intn(2))
		case i < 126:
			kind = 100
			c[1+(i-63)] = rd.Range(1, 300) * (1 - 2*rd.Intn(2))
		case i < 133: // one row 1..7
			kind = 100
			c[0] = rd.Range(-100, 100)
			for k := 0; k < 8; k++ {
				c[8*(i-126+1)+k] = rd.Range(-40, 40)
			}
		case i < 63*2+14: // one column 1..7
			kind = 100
			c[0] = rd.Range(-100, 100)
			for k := 0; k < 8; k++ {
				c[8*k+(i-133+1)] = rd.Range(-40, 40)
			}
		case i < nSweep:
			// the edge of the lane condition of idct_block_variants_agree: the flat darkest block
			// (every sample -512: in range, but the first-pass intermediates are -16384, outside
			// `lanesFit`'s +-16383) and its neighbours
			kind = 101
			c[0] = []int{-4096, -4096, -4095, 4088}[i-(63*2+14)]
			if i-(63*2+14) == 1 {
				c[1+rd.Intn(63)] = 1
			}
		}
		switch kind {
		case 100, 101:
		case 8: // a random subset of rows is non-zero
			mask := rd.Intn(256)
			for k := range c {
				if mask>>(uint(k)/8)&1 != 0 && rd.Intn(3) == 0 {
					c[k] = rd.Range(-60, 60)
				}
			}
			c[0] = rd.Range(-300, 300)
		case 9: // a random subset of columns is non-zero
			mask := rd.Intn(256)
			for k := range c {
				if mask>>(uint(k)%8)&1 != 0 && rd.Intn(3) == 0 {
					c[k] = rd.Range(-60, 60)
				}
			}
			c[0] = rd.Range(-300, 300)
		case 10: // 1..3 coefficients outside the positions of the cheap zero test (8..11, 16..19)
			for j := 0; j < 1+rd.Intn(3); j++ {
				p := 1 + rd.Intn(63)
				if (p >= 8 && p <= 11) || (p >= 16 && p <= 19) {
					p = 56 + rd.Intn(8)
				}
				c[p] = rd.Range(-150, 150)
			}
			c[0] = rd.Range(-300, 300)
		case 11: // a single coefficient of any magnitude
			c[rd.Intn(64)] = []int{1, -1, 255, 256, -256, 257, 1023, -1024, 2047, 32767, -32768, 128, -128}[rd.Intn(13)]
		case 0: // DC only
			c[0] = rd.Range(-1100, 1100)
		case 1: // sparse moderate
			for k := range c {
				if rd.Intn(4) == 0 {
					c[k] = rd.Range(-300, 300)
				}
			}
		case 2: // full-range garbage
			for k := range c {
				c[k] = rd.Range(-32768, 32767)
			}
		case 3: // first row only (all AC rows zero: AVX2 fast path)
			for k := 0; k < 8; k++ {
				c[k] = rd.Range(-400, 400)
			}
		case 4: // first column only (second-pass fast path)
			for k := 0; k < 8; k++ {
				c[8*k] = rd.Range(-400, 400)
			}
		case 5: // near the 10-bit boundary: DC puts the level at ~±512, small AC
			c[0] = []int{-4096, 4088, 4080, -4104, 4095, -4090}[rd.Intn(6)] + rd.Range(-8, 8)
			for k := 1; k < 64; k++ {
				if rd.Intn(10) == 0 {
					c[k] = rd.Range(-6, 6)
				}
			}
		case 6: // 16-bit lane boundaries
			for k := range c {
				if rd.Intn(6) == 0 {
					c[k] = []int{32767, -32768, 16384, -16384, 128, -129, 255}[rd.Intn(7)]
				}
			}
		default: // encoder-like: decaying magnitudes
			for k := range c {
				if rd.Intn(3) == 0 {
					m := 600 / (1 + k)
					c[k] = rd.Range(-m, m)
				}
			}
		}
		for k := range q {
			switch kind {
			case 100:
				q[k] = byte(rd.Range(1, 3))
			case 101:
				q[k] = 1
			case 2, 6:
				q[k] = byte(rd.Range(1, 255))
			case 5:
				q[k] = 1
			default:
				if i%16 < 8 {
					q[k] = byte(rd.Range(1, 3)) // mostly in range
				} else {
					q[k] = byte(rd.Range(1, 24))
				}
			}
		}
		cb := make([]byte, 128)
		for k, v := range c {
			cb[2*k] = byte(v)
			cb[2*k+1] = byte(v >> 8)
		}
		cmd := "idct " + hlib.Hex(cb) + " " + hlib.Hex(q)
		ans := pl.ask(cmd)
		kv := fieldsKV(ans)
		op := cmd
		if !haveAvx {
			op = "idctp" + cmd[4:]
		}
		r.Op(op, ans)
		if kv["inrange"] == "1" {
			r.Count("idct:in-range")
			// every in-range block is covered by idct_block_variants_agree_in_range (Props/C09IdctRange.lean);
			// `fit` (the older, stronger lane condition) is only counted, `fit2` is what the theorem
			// derives from the range condition, so fit2=0 here contradicts blockInRange_imp_lanesFit2
			if kv["fit"] == "1" {
				r.Count("idct:in-range:lanesFit(old condition of idct_block_variants_agree)")
			} else {
				r.Count("idct:in-range:not-lanesFit(covered by idct_block_variants_agree_in_range only)")
			}
			if kv["fit2"] == "1" {
				r.Count("idct:in-range:lanesFit2(as blockInRange_imp_lanesFit2 proves)")
			} else {
				r.Fail("jpeg-idct:in-range-but-lanes-overflow", "a block whose exact reconstruction stays inside -512..511 has 16-bit lanes that do not fit (lanesFit2), which blockInRange_imp_lanesFit2 proves impossible: the range/lane predicates of the harness and of the model disagree", cmd)
			}
			if haveAvx && kv["p"] != kv["a"] {
				r.Fail("jpeg-idct:in-range-variants-differ", "the portable and AVX2 IDCT disagree on a block whose exact reconstruction stays inside -512..511", cmd)
			}
		} else {
			r.Count("idct:out-of-range")
			if kv["fit2"] == "1" {
				r.Count("idct:out-of-range:lanesFit2(variants differ only by saturate-vs-wrap: idct_block_variants_differ_only_in_final_step2)")
			}
			if haveAvx && kv["p"] != kv["a"] {
				r.Count("idct:out-of-range:variants-differ")
			}
		}
		// the noarch build's portable IDCT must be the same function
		ans2 := h.pools["noarch"].ask(cmd)
		if fieldsKV(ans2)["p"] != kv["p"] {
			r.Fail("jpeg-idct:portable-differs-across-builds", "decode_idct (portable) gives different bytes in the default and AVOID_CPU_ARCH builds", cmd)
		}
		r.Nontrivial("idct:" + hlib.Hex(cb[:16]) + fmt.Sprint(i))
	}
	if !haveAvx {
		r.Count("skipped:idct-avx2(no avx2 on this host)")
	}
}

// ---------------------------------------------------------------- PNG row filters, function level

// pngFilterSection calls the four row filters that have SSE4.2 twins directly (portable fallback
// and SSE4.2 variant on the same row) and ties both to Model/PngFilterSse.lean.
func (h *harness) pngFilterSection() {
	r := h.r
	rd := r.Rand.Fork()
	pl := h.pools["default"]
	haveSse := strings.Contains(h.fl[0].have, "sse42") && strings.Contains(h.fl[0].macros, "v2")
	per := 50
	if r.Thorough {
		per = 600
	}
	for _, fd := range [][2]int{{1, 4}, {3, 4}, {4, 3}, {4, 4}} {
		f, d := fd[0], fd[1]
		for i := 0; i < per; i++ {
			px := 1 + rd.Intn(40)
			if i%10 == 0 {
				px = 1 + i/10 // every small width once
			}
			n := px * d
			gen := func() []byte {
				b := make([]byte, n)
				switch rd.Intn(4) {
				case 0:
					copy(b, rd.Bytes(n))
				case 1: // small slowly varying values: equal neighbours, Paeth ties
					v := byte(rd.Intn(256))
					for k := range b {
						if rd.Intn(4) == 0 {
							v += byte(rd.Intn(3)) - 1
						}
						b[k] = v
					}
				case 2: // extremes
					for k := range b {
						b[k] = []byte{0, 255, 1, 254, 128, 127}[rd.Intn(6)]
					}
				default: // odd / even mixes (rounding of the average)
					for k := range b {
						b[k] = byte(rd.Intn(256)) | byte(k&1)
					}
				}
				return b
			}
			curr := gen()
			prev := gen()
			prevHex := hlib.Hex(prev)
			if f == 3 && i%5 == 4 {
				prevHex = "-" // first row of an image: the other branch of filter 3
			}
			cmd := fmt.Sprintf("pngfilter %d %d %s %s", f, d, hlib.Hex(curr), prevHex)
			ans := pl.ask(cmd)
			kv := fieldsKV(ans)
			op := cmd
			if !haveSse {
				op = "pngfilterp" + cmd[len("pngfilter"):]
			}
			r.Op(op, ans)
			r.Count(fmt.Sprintf("pngfilter:f%d:d%d", f, d))
			if haveSse && kv["p"] != kv["s"] {
				r.Fail(fmt.Sprintf("png-filter:sse42-differs:f%d:d%d", f, d), "the portable and the SSE4.2 PNG row filter give different bytes on the same row", cmd)
			}
			if ans2 := h.pools["noarch"].ask(cmd); fieldsKV(ans2)["p"] != kv["p"] {
				r.Fail("png-filter:portable-differs-across-builds", "the portable PNG row filter gives different bytes in the default and AVOID_CPU_ARCH builds", cmd)
			}
			r.Nontrivial(fmt.Sprintf("pngfilter:%d:%d:%s", f, d, hlib.Hex(curr)))
		}
	}
	if !haveSse {
		r.Count("skipped:pngfilter-sse42(no sse4.2 on this host)")
	}
}

// ---------------------------------------------------------------- hashes vs the reference definitions

func (h *harness) hashSection() {
	r := h.r
	rd := r.Rand.Fork()
	sizes := []int{0, 1, 2, 3, 15, 16, 17, 31, 32, 33, 47, 48, 63, 64, 65, 95, 127, 128, 129, 191, 255, 256, 257, 511, 1023}
	if r.Thorough {
		sizes = append(sizes, 2048, 5551, 5552, 5553, 11104, 11105)
	} else {
		sizes = append(sizes, 5553)
	}
	for _, codec := range []string{"adler32", "crc32", "crc64"} {
		for _, n := range sizes {
			data := payload(rd, rd.Intn(6), n)
			if rd.Intn(4) == 0 {
				for i := range data {
					data[i] = 0xFF // maximises the adler32 sums
				}
			}
			want := ""
			for _, f := range h.fl {
				pl := h.pools[f.name]
				if pl == nil {
					continue
				}
				for _, mis := range []int{0, 1, 3, 15} {
					ans := pl.ask(fmt.Sprintf("run codec=%s init=2 prefill=r:%d misalign=%d src=%s", codec, 11+mis, mis, hlib.Hex(data)))
					v := "v " + fieldsKV(ans)["v"]
					if want == "" {
						want = v
						r.Op(codec+" "+hlib.Hex(data), v)
					} else if v != want {
						r.Fail("hash:"+codec+":variant", fmt.Sprintf("%s of %d bytes differs between builds/alignments (%s vs %s in %s misalign %d)", codec, n, v, want, f.name, mis),
							fmt.Sprintf("run codec=%s init=2 prefill=r:%d misalign=%d src=%s", codec, 11+mis, mis, hlib.Hex(data)))
					}
				}
			}
			r.Count("hashref:" + codec)
		}
	}
	h.hashLengthSweep()
	h.hashWorstCase()
}

// hashLengthSweep: EVERY length 0..320 (random bytes), start address misaligned by length mod 16:
// the SIMD twins process 16/32/64/128-byte blocks with scalar heads and tails, a defect in the
// remainder handling shows at specific lengths only.  Every build against the reference
// definitions (adler32, crc32, crc64) and against each other (xxhash32/64).
func (h *harness) hashLengthSweep() {
	r := h.r
	rd := r.Rand.Fork()
	maxLen := 320
	if r.Thorough {
		maxLen = 1100
	}
	for _, codec := range []string{"adler32", "crc32", "crc64", "xxhash32", "xxhash64"} {
		for n := 0; n <= maxLen; n++ {
			data := rd.Bytes(n)
			mis := n % 16
			cmd := fmt.Sprintf("run codec=%s init=2 prefill=r:%d misalign=%d src=%s", codec, 51+mis, mis, hlib.Hex(data))
			want := ""
			for _, f := range h.fl {
				pl := h.pools[f.name]
				if pl == nil {
					continue
				}
				v := "v " + fieldsKV(pl.ask(cmd))["v"]
				if want == "" {
					want = v
					if !strings.HasPrefix(codec, "xxhash") {
						r.Op(codec+" "+hlib.Hex(data), v)
					}
				} else if v != want {
					r.Fail("hash:"+codec+":variant", fmt.Sprintf("%s of %d bytes differs between builds (%s vs %s in %s misalign %d)", codec, n, v, want, f.name, mis), cmd)
				}
			}
			r.Count("hashref:length-sweep:" + codec)
		}
	}
}

// hseg = a run of n copies of one byte value, or literal bytes
type hseg struct {
	lit []byte
	b   byte
	n   int
}

func segsBytes(segs []hseg) []byte {
	var out []byte
	for _, s := range segs {
		if s.lit != nil {
			out = append(out, s.lit...)
			continue
		}
		for i := 0; i < s.n; i++ {
			out = append(out, s.b)
		}
	}
	return out
}

func segsOp(segs []hseg) string {
	var f []string
	for _, s := range segs {
		if s.lit != nil {
			f = append(f, "h:"+hlib.Hex(s.lit))
		} else {
			f = append(f, fmt.Sprintf("r:%02x*%d", s.b, s.n))
		}
	}
	return strings.Join(f, " ")
}

// hashWorstCase: inputs that drive the accumulators of the hashers to their extremes.  Adler-32
// sums bytes into u32 s1/s2 and reduces modulo 65521 only once per chunk of ~5552 bytes (5536 in
// the SSE4.2 twin): the worst case is a chunk of 0xFF bytes starting with s1 (and s2) near 65520.
// Long runs of 0xFF sweep s1 over all residues at the chunk starts; the crafted prefixes put
// s1 = 65520 exactly at a chunk start.  All in ONE update call (chunks count from its start).
func (h *harness) hashWorstCase() {
	r := h.r
	rd := r.Rand.Fork()
	long := 700001
	if r.Thorough {
		long = 3000017
	}
	var cases [][]hseg
	ff := func(n int) hseg { return hseg{b: 0xFF, n: n} }
	cases = append(cases, []hseg{ff(2 * 5536)}, []hseg{ff(3*5552 + 1)}, []hseg{ff(70001)}, []hseg{ff(long)})
	for _, c := range []int{5536, 5552, 5568, 5600, 11072} {
		// byte sum 65519 -> s1 = 65520 after the first chunk of c bytes; then chunks of 0xFF
		cases = append(cases, []hseg{{b: 0, n: c - 257}, ff(256), {lit: []byte{0xEF}}, ff(2*c + rd.Intn(40))})
		// the bytes early in the chunk also push s2 high
		cases = append(cases, []hseg{ff(254), {lit: []byte{0xE6}}, {b: 0, n: c - 255}, ff(c), ff(rd.Intn(5000))})
	}
	// random long inputs with 0xFF-heavy content
	for i := 0; i < 3; i++ {
		cases = append(cases, []hseg{{lit: rd.Bytes(1 + rd.Intn(6000))}, ff(5000 + rd.Intn(7000)), {lit: rd.Bytes(rd.Intn(100))}, ff(6000 + rd.Intn(60000))})
	}
	for ci, segs := range cases {
		data := segsBytes(segs)
		file := filepath.Join(h.dir, fmt.Sprintf("hashwc%d.bin", ci))
		if err := os.WriteFile(file, data, 0o644); err != nil {
			h.fatal("write hash input", err)
			return
		}
		for _, codec := range []string{"adler32", "crc32", "crc64", "xxhash32", "xxhash64"} {
			if codec == "crc64" && len(data) > 100000 {
				continue // the bit-at-a-time reference model needs bignums for 64-bit values
			}
			want := ""
			for _, f := range h.fl {
				pl := h.pools[f.name]
				if pl == nil {
					continue
				}
				for _, v := range [][2]int{{0, 0}, {5, 0}, {0, 4093}} {
					cmd := fmt.Sprintf("run codec=%s init=2 prefill=r:%d misalign=%d srcchunk=%d src=@%s", codec, 31+v[0], v[0], v[1], file)
					got := "v " + fieldsKV(pl.ask(cmd))["v"]
					if want == "" {
						want = got
						if !strings.HasPrefix(codec, "xxhash") {
							r.Op(codec+"x "+segsOp(segs), got)
						}
					} else if got != want {
						r.Fail("hash:"+codec+":variant", fmt.Sprintf("%s of %d bytes (%s) differs between builds/alignments/chunkings (%s vs %s in %s misalign %d srcchunk %d)", codec, len(data), segsOp(segs), got, want, f.name, v[0], v[1]),
							fmt.Sprintf("run codec=%s init=2 prefill=r:%d misalign=%d srcchunk=%d src=<%s>", codec, 31+v[0], v[0], v[1], segsOp(segs)))
					}
				}
			}
			r.Count("hashref:worst-case:" + codec)
		}
		os.Remove(file)
	}
}

// ---------------------------------------------------------------- gen mode

func runGen(r *hlib.Run) {
	// BIAS_AND_CLAMP
	src, err := os.ReadFile(filepath.Join(r.Repo, "std", "jpeg", "common_consts.wuffs"))
	if err != nil {
		fmt.Fprintln(os.Stderr, err)
		os.Exit(1)
	}
	m := regexp.MustCompile(`(?s)pri const BIAS_AND_CLAMP : roarray\[1024\] base\.u8 = \[(.*?)\]`).FindSubmatch(src)
	if m == nil {
		fmt.Fprintln(os.Stderr, "BIAS_AND_CLAMP not found")
		os.Exit(1)
	}
	vals := regexp.MustCompile(`0x([0-9A-Fa-f]+)`).FindAllSubmatch(m[1], -1)
	var b strings.Builder
	b.WriteString("/-\nREGENERATED by `wvh_c09 -mode gen` from /repo/std/jpeg/common_consts.wuffs. Do not edit.\n-/\nnamespace WuffsVerif.Gen.C09\n\n/-- `BIAS_AND_CLAMP : roarray[1024] base.u8` of std/jpeg/common_consts.wuffs -/\ndef biasAndClamp : Array UInt8 := #[\n")
	for i := 0; i < len(vals); i += 16 {
		b.WriteString("  ")
		for j := i; j < i+16 && j < len(vals); j++ {
			var v int
			fmt.Sscanf(string(vals[j][1]), "%x", &v)
			if j > i {
				b.WriteString(", ")
			}
			fmt.Fprint(&b, v)
		}
		if i+16 < len(vals) {
			b.WriteString(",")
		}
		b.WriteString("\n")
	}
	b.WriteString("]\n\nend WuffsVerif.Gen.C09\n")
	r.WriteGen("C09_JpegTables.lean", b.String())
	r.WriteGen("C09_StdChoose.lean", genStdChoose(r.Repo))
	fields, err := genStdFields(r.Repo)
	if err != nil {
		fmt.Fprintln(os.Stderr, "std field partition:", err)
		os.Exit(1)
	}
	r.WriteGen("C09_StdFields.lean", fields)
	r.WriteGen("C09_AdlerChunks.lean", genAdlerChunks(r.Repo))
}

var reAdlerChunk = regexp.MustCompile(`if args\.x\.length\(\) > (\d+) \{\s*remaining = args\.x\[(\d+) \.\.\]\s*args\.x = args\.x\[\.\. (\d+)\]`)

// genAdlerChunks lists the chunk sizes of the outer loops of std/adler32 (every number of the
// `if args.x.length() > N { remaining = args.x[N ..]; args.x = args.x[.. N] }` statements).
func genAdlerChunks(repo string) string {
	files, _ := filepath.Glob(filepath.Join(repo, "std", "adler32", "*.wuffs"))
	sort.Strings(files)
	var b strings.Builder
	b.WriteString("/-\nREGENERATED by `wvh_c09 -mode gen` from /repo/std/adler32/*.wuffs. Do not edit.\n-/\nnamespace WuffsVerif.Gen.C09\n\n" +
		"/-- (file, CHUNK) for every `if args.x.length() > CHUNK { remaining = args.x[CHUNK ..] … }` of std/adler32 -/\n" +
		"def adlerChunks : List (String × Nat) := [\n")
	var rows []string
	for _, f := range files {
		src, err := os.ReadFile(f)
		if err != nil {
			continue
		}
		text := reComment.ReplaceAllString(string(src), "")
		for _, m := range reAdlerChunk.FindAllStringSubmatch(text, -1) {
			seen := map[string]bool{}
			for _, n := range m[1:] {
				if !seen[n] {
					seen[n] = true
					rows = append(rows, fmt.Sprintf("  (\"%s\", %s)", filepath.Base(f), n))
				}
			}
		}
	}
	b.WriteString(strings.Join(rows, ",\n"))
	b.WriteString("\n]\n\nend WuffsVerif.Gen.C09\n")
	return b.String()
}

var (
	reFuncDecl  = regexp.MustCompile(`(?m)^(?:pub|pri) func (\w+)\.(\w+)[!?]?\(`)
	reChooseArc = regexp.MustCompile(`choose cpu_arch >= (\w+)`)
	reChooseSt  = regexp.MustCompile(`(?s)choose (\w+) = \[(.*?)\]`)
	reComment   = regexp.MustCompile(`//[^\n]*`)
)

// genStdChoose lists every `choose f = […]` statement of std with the cpu_arch
// precondition of each alternative.
func genStdChoose(repo string) string {
	files, _ := filepath.Glob(filepath.Join(repo, "std", "*", "*.wuffs"))
	sort.Strings(files)
	arch := map[string]string{} // pkg.recv.func -> arch
	type stmt struct {
		pkg, file, recv, name string
		alts                  []string
	}
	var stmts []stmt
	for _, f := range files {
		b, err := os.ReadFile(f)
		if err != nil {
			continue
		}
		pkg := filepath.Base(filepath.Dir(f))
		text := reComment.ReplaceAllString(string(b), "")
		locs := reFuncDecl.FindAllStringSubmatchIndex(text, -1)
		for i, loc := range locs {
			end := len(text)
			if i+1 < len(locs) {
				end = locs[i+1][0]
			}
			recv := text[loc[2]:loc[3]]
			name := text[loc[4]:loc[5]]
			body := text[loc[0]:end]
			hdrEnd := strings.Index(body, "{")
			if hdrEnd < 0 {
				hdrEnd = len(body)
			}
			if m := reChooseArc.FindStringSubmatch(body[:hdrEnd]); m != nil {
				arch[pkg+"."+recv+"."+name] = m[1]
			}
			for _, m := range reChooseSt.FindAllStringSubmatch(body[hdrEnd:], -1) {
				var alts []string
				for _, a := range strings.Split(m[2], ",") {
					a = strings.TrimSpace(a)
					if a != "" {
						alts = append(alts, a)
					}
				}
				stmts = append(stmts, stmt{pkg, filepath.Base(f), recv, m[1], alts})
			}
		}
	}
	leanArch := map[string]string{"": ".none", "x86_sse42": ".x86Sse42", "x86_avx2": ".x86Avx2", "x86_bmi2": ".x86Bmi2", "arm_neon": ".armNeon", "arm_crc32": ".armCrc32"}
	var b strings.Builder
	b.WriteString("/-\nREGENERATED by `wvh_c09 -mode gen` from /repo/std/*/*.wuffs. Do not edit.\nEvery `choose f = [alternatives]` statement of std, each alternative with the\n`choose cpu_arch >= X` precondition of its function declaration.\n-/\nimport WuffsVerif.Model.Choose\nnamespace WuffsVerif.Gen.C09\nopen WuffsVerif.Choose\n\nstructure StdChoose where\n  where_ : String\n  target : String\n  alts : List Alt\n\ndef stdChooses : List StdChoose := [\n")
	for i, s := range stmts {
		fmt.Fprintf(&b, "  ⟨\"std/%s/%s %s\", \"%s\", [", s.pkg, s.file, s.recv, s.name)
		for j, a := range s.alts {
			if j > 0 {
				b.WriteString(", ")
			}
			la, ok := leanArch[arch[s.pkg+"."+s.recv+"."+a]]
			if !ok {
				la = ".none"
			}
			fmt.Fprintf(&b, "⟨\"%s\", %s⟩", a, la)
		}
		b.WriteString("]⟩")
		if i+1 < len(stmts) {
			b.WriteString(",")
		}
		b.WriteString("\n")
	}
	b.WriteString("]\n\nend WuffsVerif.Gen.C09\n")
	return b.String()
}
