package main

// The configuration matrix on the compiled std library and the valgrind search support.

import (
	"crypto/sha256"
	"fmt"
	"image"
	"os"
	"os/exec"
	"path/filepath"
	"strings"
	"sync"

	"wvh/hlib"
)

type config struct {
	label   string
	init    string // z 0 2
	prefill string
	tail    string
	prev    string // none other trunc
}

func configs(seed int) []config {
	s1, s2 := fmt.Sprint(100+seed), fmt.Sprint(200+seed)
	return []config{
		{"base", "z", "z", "00", "none"},
		{"zeroed:workbuf-ff", "z", "c:ff", "00", "none"},
		{"options0:prior-ff", "0", "c:ff", "00", "none"},
		{"options0:prior-prng:tail-ff", "0", "r:" + s1, "ff", "none"},
		{"leave-uninit:prior-00", "2", "z", "00", "none"},
		{"leave-uninit:prior-ff", "2", "c:ff", "00", "none"},
		{"leave-uninit:prior-a5:tail-5a", "2", "c:a5", "5a", "none"},
		{"leave-uninit:prior-prng:tail-ff", "2", "r:" + s1, "ff", "none"},
		{"leave-uninit:prior-prng2", "2", "r:" + s2, "00", "none"},
		{"reinit-after-other:leave-uninit", "2", "r:" + s1, "00", "other"},
		{"reinit-after-truncated:leave-uninit-ff", "2", "c:ff", "00", "trunc"},
		{"reinit-after-other:options0", "0", "c:a5", "00", "other"},
		{"reinit-after-truncated:zeroed", "z", "z", "00", "trunc"},
		{"reinit-after-truncated:leave-uninit-prng:tail-ff", "2", "r:" + s2, "ff", "trunc"},
	}
}

// cmd renders the driver command; with files != nil the inputs are passed as @path
// (fast), otherwise inline as hex (self-contained replay text).
func (c *tcase) cmd(cf config, other, trunc []byte, files *[3]string) string {
	prev := "none"
	src := hlib.Hex(c.src)
	switch cf.prev {
	case "other":
		prev = hlib.Hex(other)
		if files != nil {
			prev = "@" + files[1]
		}
	case "trunc":
		prev = hlib.Hex(trunc)
		if files != nil {
			prev = "@" + files[2]
		}
	}
	if files != nil {
		src = "@" + files[0]
	}
	return fmt.Sprintf("run codec=%s init=%s prefill=%s tail=%s srcchunk=%d dstcap=%d misalign=%d prev=%s src=%s",
		c.codec, cf.init, cf.prefill, cf.tail, c.srcchunk, c.dstcap, c.misalign, prev, src)
}

func (h *harness) genCases() []tcase {
	r := h.r
	rd := r.Rand.Fork()
	var cs []tcase
	add := func(c tcase) {
		c.kind = kindOf(c.codec)
		cs = append(cs, c)
	}
	chunkOf := func(n int) int {
		switch rd.Intn(4) {
		case 0:
			return 0
		case 1:
			return 1 + rd.Intn(7)
		case 2:
			return 1 + rd.Intn(1000)
		}
		if n > 2 {
			return 1 + rd.Intn(n)
		}
		return 0
	}
	dstOf := func() int {
		switch rd.Intn(4) {
		case 0:
			return 1 + rd.Intn(40)
		case 1:
			return 300 + rd.Intn(1000)
		case 2:
			return 70000
		}
		return 4096
	}
	mult := 1
	if r.Thorough {
		mult = 4
	}
	// deflate family
	levels := []int{0, 1, 6, 9, -2}
	for i := 0; i < 36*mult; i++ {
		n := sizeLadder[rd.Intn(len(sizeLadder))]
		if !r.Thorough && n > 40000 && i%6 != 0 {
			n = 3000
		}
		data := payload(rd, i, n)
		lv := levels[rd.Intn(len(levels))]
		var src []byte
		codec := []string{"deflate", "zlib", "gzip"}[i%3]
		switch codec {
		case "deflate":
			src = deflateOf(data, lv)
		case "zlib":
			src = zlibOf(data, lv)
		default:
			src = gzipOf(data, lv)
		}
		add(tcase{codec: codec, label: fmt.Sprintf("go-flate n=%d level=%d kind=%d", n, lv, i%6), src: src, srcchunk: chunkOf(len(src)), dstcap: dstOf()})
	}
	for i := 0; i < 8*mult; i++ {
		n := sizeLadder[rd.Intn(len(sizeLadder))]
		data := payload(rd, i, n)
		add(tcase{codec: "lzw", label: fmt.Sprintf("go-lzw n=%d", n), src: lzwOf(data), srcchunk: chunkOf(n), dstcap: dstOf()})
	}
	// external compressors (optional)
	for i := 0; i < 3*mult; i++ {
		data := payload(rd, i+1, 200+rd.Intn(30000))
		if b := toolCompress("bzip2", []string{"-c", fmt.Sprintf("-%d", 1+rd.Intn(9))}, data); b != nil {
			add(tcase{codec: "bzip2", label: "tool-bzip2", src: b, srcchunk: chunkOf(len(b)), dstcap: dstOf()})
		} else {
			r.Count("skipped:tool-bzip2")
		}
		if b := toolCompress("xz", []string{"-c", fmt.Sprintf("-%d", rd.Intn(7))}, data); b != nil {
			add(tcase{codec: "xz", label: "tool-xz", src: b, srcchunk: chunkOf(len(b)), dstcap: dstOf()})
		} else {
			r.Count("skipped:tool-xz")
		}
		if b := toolCompress("xz", []string{"-c", "--format=lzma"}, data); b != nil {
			add(tcase{codec: "lzma", label: "tool-lzma", src: b, srcchunk: chunkOf(len(b)), dstcap: dstOf()})
		} else {
			r.Count("skipped:tool-lzma")
		}
	}
	// PNG: every colour type/depth x every filter type, widths around SIMD block sizes
	widths := []int{1, 2, 3, 4, 5, 7, 8, 9, 15, 16, 17, 31, 32, 33, 47, 64, 65}
	for ki, k := range pngKinds {
		for fm := 0; fm <= 6; fm++ {
			if !r.Thorough && ki >= 8 && fm != 5 && fm != 4 {
				continue
			}
			// two images per (kind, filter): arbitrary bytes, and slowly varying small values
			// (many equal neighbours: exercises the tie-breaking of the Paeth predictor)
			for rep := 0; rep < 2*mult; rep++ {
				w := widths[rd.Intn(len(widths))]
				hh := 2 + rd.Intn(6)
				il := rd.Intn(6) == 0
				smooth := rep%2 == 1
				if smooth && ki >= 8 && !r.Thorough {
					continue
				}
				src := makePNG(rd, w, hh, k.ct, k.depth, fm, il, smooth, []int{0, 1, 6}[rd.Intn(3)])
				add(tcase{codec: "png", label: fmt.Sprintf("png ct=%d depth=%d filter=%d w=%d h=%d interlace=%v smooth=%v", k.ct, k.depth, fm, w, hh, il, smooth), src: src, srcchunk: chunkOf(len(src))})
			}
		}
	}
	// JPEG: encoder-produced (in range by construction) + inflated DQT (adversarial)
	for i := 0; i < 10*mult; i++ {
		w, hh := 1+rd.Intn(70), 1+rd.Intn(50)
		im := noiseImage(rd, w, hh, i%3 == 0, []int{0, 8, 40, 128}[rd.Intn(4)])
		q := []int{1, 20, 50, 75, 90, 100}[rd.Intn(6)]
		src := jpegOf(im, q)
		add(tcase{codec: "jpeg", label: fmt.Sprintf("go-jpeg %dx%d q=%d gray=%v", w, hh, q, i%3 == 0), src: src, srcchunk: chunkOf(len(src))})
		if i%2 == 0 {
			lo := []int{64, 128, 200}[rd.Intn(3)]
			adv := inflateDQT(rd, src, lo, 255)
			add(tcase{codec: "jpeg", label: fmt.Sprintf("go-jpeg %dx%d q=%d DQT inflated to %d..255", w, hh, q, lo), src: adv, srcchunk: chunkOf(len(adv)), jpegAdv: true})
		}
	}
	for i := 0; i < 5*mult; i++ {
		w, hh := 1+rd.Intn(40), 1+rd.Intn(40)
		if b := gifOf(rd, w, hh, 1+rd.Intn(3)); b != nil {
			add(tcase{codec: "gif", label: fmt.Sprintf("go-gif %dx%d", w, hh), src: b, srcchunk: chunkOf(len(b))})
		}
		bpp := []int{24, 8, 32}[rd.Intn(3)]
		b := bmpOf(rd, w, hh, bpp)
		add(tcase{codec: "bmp", label: fmt.Sprintf("bmp %dx%d bpp=%d", w, hh, bpp), src: b, srcchunk: chunkOf(len(b))})
	}
	// hostile DEFLATE streams: valid code-length headers (degenerate / complete / invalid-symbol
	// distance codes, long literal/length codes), encodable prefix, random data bits
	for i := 0; i < 30*mult; i++ {
		src, lb := hostileDeflate(rd, i)
		codec := "deflate"
		if i%5 == 4 {
			// inside a zlib container (the Adler-32 trailer is wrong or missing: also an error path)
			codec = "zlib"
			src = append([]byte{0x78, 0x9C}, src...)
		}
		add(tcase{codec: codec, label: "hostile-deflate " + lb, src: src, srcchunk: chunkOf(len(src)), dstcap: dstOf(), hostile: true})
	}
	for i := 0; i < 8*mult; i++ {
		ds := 0
		if i%4 == 3 {
			ds = rd.Intn(30)
		}
		src := targetedDegenerate(rd, ds, []int{0, 16, 3, 40}[i%4])
		sc := 0
		if i >= 4 {
			sc = chunkOf(len(src))
		}
		add(tcase{codec: "deflate", label: fmt.Sprintf("hostile-deflate degenerate-dist-unassigned-pattern distsym=%d", ds), src: src, srcchunk: sc, dstcap: dstOf(), hostile: true})
	}
	// corrupted variants of the valid files generated above
	nValid := len(cs)
	for i := 0; i < nValid; i++ {
		c := cs[i]
		if c.kind != "io" && c.kind != "img" {
			continue
		}
		nm := 0
		switch {
		case r.Thorough:
			nm = 2
		case c.codec == "png":
			if rd.Intn(3) == 0 {
				nm = 1
			}
		case len(c.src) > 40000:
			if rd.Intn(3) == 0 {
				nm = 1
			}
		default:
			nm = 1
		}
		for k := 0; k < nm; k++ {
			m, how := mutate(rd, c.src)
			add(tcase{codec: c.codec, label: "corrupted(" + how + ") " + c.label, src: m, srcchunk: chunkOf(len(m)), dstcap: c.dstcap, hostile: true, jpegAdv: c.jpegAdv})
		}
	}
	// test data
	maxSize, per := 70000, 3
	if r.Thorough {
		maxSize, per = 700000, 40
	}
	for _, c := range testDataCases(r.Repo, maxSize, per) {
		c.srcchunk = chunkOf(len(c.src))
		if c.kind == "io" {
			c.dstcap = dstOf()
		}
		cs = append(cs, c)
		if c.kind == "io" || c.kind == "img" {
			m, how := mutate(rd, c.src)
			mc := tcase{codec: c.codec, kind: c.kind, label: "corrupted(" + how + ") " + c.label, src: m, srcchunk: chunkOf(len(m)), dstcap: c.dstcap, hostile: true}
			cs = append(cs, mc)
		}
	}
	// hashes: lengths around SIMD block sizes, misaligned starts, chunked updates
	for _, codec := range []string{"adler32", "crc32", "crc64", "xxhash32", "xxhash64"} {
		for i := 0; i < 14*mult; i++ {
			n := sizeLadder[rd.Intn(len(sizeLadder))]
			if n > 12000 {
				n = 12000 + rd.Intn(100)
			}
			data := payload(rd, i, n)
			add(tcase{codec: codec, label: fmt.Sprintf("hash n=%d", n), src: data, srcchunk: chunkOf(n), misalign: rd.Intn(64)})
		}
	}
	// long runs of 0xFF (accumulator extremes of the SIMD hashers) under the whole memory matrix
	for _, codec := range []string{"adler32", "crc32", "crc64", "xxhash32", "xxhash64"} {
		n := 600000 + rd.Intn(200000)
		data := make([]byte, n)
		for i := range data {
			data[i] = 0xFF
		}
		add(tcase{codec: codec, label: fmt.Sprintf("hash ff-run n=%d", n), src: data, srcchunk: 0, misalign: rd.Intn(64)})
	}
	// lzma/xz/lzip need a few hundred bytes of free destination space to make progress, and this
	// driver's flush-and-restart of a full destination combined with a chunked source makes the
	// decoder report "#lzma: bad distance" on valid data (suspension behaviour is not C09's
	// subject): give those codecs one large destination unless the source is fed in one piece.
	for i := range cs {
		switch cs[i].codec {
		case "lzma", "xz", "lzip":
			if cs[i].srcchunk != 0 || cs[i].dstcap < 1000 {
				cs[i].dstcap = 1 << 20
			}
		}
	}
	return cs
}

type caseResult struct {
	fails  []hlib.Failure
	counts []string
	sig    string
}

func canonImg(line string) (noHash string, full bool) {
	f := strings.Fields(line)
	var keep []string
	for _, x := range f {
		if strings.HasPrefix(x, "hash=") {
			continue
		}
		if x == "full=1" {
			full = true
		}
		keep = append(keep, x)
	}
	return strings.Join(keep, " "), full
}

func (h *harness) runCase(c *tcase, idx int, other []byte) caseResult {
	var res caseResult
	rd := hlib.NewRand(uint64(h.r.Seed)*1000003 + uint64(idx))
	trunc := c.src
	if len(c.src) > 1 {
		trunc = c.src[:1+rd.Intn(len(c.src)-1)]
	}
	if other == nil {
		other = trunc
	}
	cfs := configs(idx % 50)
	if len(c.src) > 20000 && !h.r.Thorough {
		// big inputs: a representative subset of the configurations in the quick tier
		cfs = []config{cfs[0], cfs[3], cfs[7], cfs[9], cfs[13]}
	}
	files := &[3]string{}
	for k, b := range [][]byte{c.src, other, trunc} {
		files[k] = filepath.Join(h.dir, fmt.Sprintf("in%d_%d.bin", idx, k))
		os.WriteFile(files[k], b, 0o644)
	}
	defer func() {
		for _, f := range files {
			os.Remove(f)
		}
	}()
	base := ""
	strictAcrossBuilds := true
	if c.codec == "jpeg" {
		jb := h.pools["default"].ask("jpegblocks " + hlib.Hex(c.src))
		kv := fieldsKV(jb)
		if kv["diff_inrange"] != "0" && kv["diff_inrange"] != "" {
			res.fails = append(res.fails, hlib.Failure{Key: "jpeg-idct:in-range-variants-differ:image",
				Desc:   "inside a real JPEG decode, the portable and AVX2 IDCT disagree on " + kv["diff_inrange"] + " block(s) whose exact reconstruction stays inside -512..511",
				Replay: "jpegblocks " + hlib.Hex(c.src)})
		}
		if kv["outofrange"] != "0" {
			strictAcrossBuilds = false
			res.counts = append(res.counts, "jpeg:image-with-out-of-range-blocks")
			if !c.jpegAdv {
				res.counts = append(res.counts, "jpeg:encoder-produced-image-with-out-of-range-blocks")
			}
			if kv["diff_outofrange"] != "0" {
				res.counts = append(res.counts, "jpeg:exception-exercised(variants differ on out-of-range blocks)")
			}
		} else {
			res.counts = append(res.counts, "jpeg:image-all-blocks-in-range")
		}
	}
	for _, f := range h.fl {
		pl := h.pools[f.name]
		if pl == nil {
			continue
		}
		cmds := make([]string, len(cfs))
		for k, cf := range cfs {
			cmds[k] = c.cmd(cf, other, trunc, files)
		}
		answers := pl.askMany(cmds)
		for k, cf := range cfs {
			cmd := cmds[k]
			ans := answers[k]
			if base == "" {
				base = ans
				if c.kind == "img" && !strings.Contains(ans, " unw=0 ") {
					res.counts = append(res.counts, "img:some-pixels-unwritten")
				}
				if strings.HasPrefix(ans, "st=ok") {
					res.counts = append(res.counts, "status:"+c.codec+":ok")
				} else {
					st := strings.Fields(ans + " ?")[0]
					res.counts = append(res.counts, "status:"+c.codec+":"+st)
				}
				if c.hostile {
					if strings.HasPrefix(ans, "st=ok") {
						res.counts = append(res.counts, "hostile:accepted")
					} else {
						res.counts = append(res.counts, "hostile:rejected")
					}
				}
				continue
			}
			// (pixels the decoder did not write are hashed as "unwritten" by the driver, whatever
			// the destination held: configurations with different destination pre-fills are
			// directly comparable, also for partial frames and rejected inputs)
			same := ans == base
			if !same && f.name != "default" && !strictAcrossBuilds {
				a, _ := canonImg(ans)
				b, _ := canonImg(base)
				if a == b {
					same = true
					res.counts = append(res.counts, "jpeg:cross-build-pixels-excused-by-range-predicate")
				}
			}
			if !same {
				key := "matrix:" + c.codec + ":" + cf.label
				if f.name != "default" {
					key = "matrix:" + c.codec + ":build-" + f.name
					if cf.label != "base" {
						// is it the build or the memory configuration? ask the default build's view of this config
						if h.pools["default"].ask(cmd) != base {
							key = "matrix:" + c.codec + ":" + cf.label
						}
					}
				}
				res.fails = append(res.fails, hlib.Failure{Key: key,
					Desc:   fmt.Sprintf("%s (%s): configuration %q in build %q answers\n  %s\nbut the base configuration (zeroed memory, default build) answers\n  %s", c.codec, c.label, cf.label, f.name, ans, base),
					Replay: fmt.Sprintf("# case %d of this seed/tier; feed to the c09drv binary of flavour %s (flags %v):\n%s\n# base, flavour default:\n%s", idx, f.name, f.flags, c.cmd(cf, other, trunc, nil), c.cmd(cfs[0], other, trunc, nil))})
				if len(res.fails) > 3 {
					return res
				}
			}
		}
	}
	sum := sha256.Sum256(c.src)
	if !strings.Contains(base, " wi=0 ") && !strings.Contains(base, " n=0 ") && len(c.src) > 0 {
		res.sig = fmt.Sprintf("%s:%x:%d:%d:%d", c.codec, sum[:8], c.srcchunk, c.dstcap, c.misalign)
	}
	return res
}

func (h *harness) matrixSection() {
	r := h.r
	cases := h.genCases()
	results := make([]caseResult, len(cases))
	lastOf := map[string][]byte{}
	others := make([][]byte, len(cases))
	for i := range cases {
		others[i] = lastOf[cases[i].codec]
		if len(cases[i].src) < 300000 {
			lastOf[cases[i].codec] = cases[i].src
		}
	}
	var wg sync.WaitGroup
	sem := make(chan struct{}, 6)
	for i := range cases {
		wg.Add(1)
		sem <- struct{}{}
		go func(i int) {
			defer wg.Done()
			defer func() { <-sem }()
			results[i] = h.runCase(&cases[i], i, others[i])
		}(i)
	}
	wg.Wait()
	for i, res := range results {
		r.Count("case:" + cases[i].codec)
		for _, c := range res.counts {
			r.Count(c)
		}
		for _, f := range res.fails {
			r.Fail(f.Key, f.Desc, f.Replay)
		}
		if res.sig != "" {
			r.Nontrivial(res.sig)
		}
	}
	r.Extra("matrix_cases", len(cases))
	r.Extra("matrix_configs_per_case", len(configs(0))*len(h.pools))
	var names []string
	for _, f := range h.fl {
		if h.pools[f.name] != nil {
			names = append(names, f.name+"["+f.macros+"/"+f.have+"]")
		}
	}
	r.Extra("flavours", names)
}

// valgrindSection: memcheck over the LEAVE_INTERNAL_BUFFERS_UNINITIALIZED configuration with
// the object and work buffers left exactly as malloc returned them.
func (h *harness) valgrindSection() {
	r := h.r
	if _, err := exec.LookPath("valgrind"); err != nil {
		r.Count("skipped:valgrind-not-installed")
		return
	}
	var vg *flavour
	for _, f := range h.fl {
		if f.name == "vg" {
			vg = f
		}
	}
	if vg == nil {
		return
	}
	cases := h.genCases()
	var sel []int
	per := map[string]int{}
	for i, c := range cases {
		if len(c.src) > 60000 || per[c.codec] >= 10 {
			continue
		}
		per[c.codec]++
		sel = append(sel, i)
	}
	type vres struct {
		out, log string
		err      error
	}
	results := make([]vres, len(sel))
	var wg sync.WaitGroup
	sem := make(chan struct{}, 12)
	for k, i := range sel {
		wg.Add(1)
		sem <- struct{}{}
		go func(k, i int) {
			defer wg.Done()
			defer func() { <-sem }()
			c := &cases[i]
			cf := config{"valgrind", "2", "u", "00", "none"}
			logf := filepath.Join(h.dir, fmt.Sprintf("vg%d.log", k))
			o, _, err := hlib.RunCmd(1200e9, "", nil, []byte(c.cmd(cf, nil, nil, nil)+"\n"), "valgrind", "-q", "--error-exitcode=0", "--log-file="+logf, vg.bin)
			lb, _ := os.ReadFile(logf)
			results[k] = vres{string(o), string(lb), err}
		}(k, i)
	}
	wg.Wait()
	nNotes := 0
	for k, i := range sel {
		c := &cases[i]
		res := results[k]
		r.Count("valgrind:case:" + c.codec)
		if res.err != nil {
			r.Count("valgrind:run-error")
			continue
		}
		if strings.Contains(res.log, "uninitialised") {
			what := "uninitialised-value"
			for _, l := range strings.Split(res.log, "\n") {
				if strings.Contains(l, "uninitialised") {
					what = strings.TrimSpace(l[strings.Index(l, "== ")+3:])
					break
				}
			}
			where := ""
			for _, l := range strings.Split(res.log, "\n") {
				if strings.Contains(l, "wuffs_") {
					f := strings.Fields(l)
					for _, x := range f {
						if strings.HasPrefix(x, "wuffs_") {
							where = x
							break
						}
					}
					break
				}
			}
			// Search support only: C09 is about RESULTS. A flagged read is followed up by decoding the
			// same case over eight more PRNG-filled memories; only a differing result is a failure.
			r.Count("valgrind:uninitialised-read:" + c.codec + ":" + where)
			if nNotes < 12 {
				nNotes++
				r.Note(fmt.Sprintf("valgrind (%s, %s): %s in %s — followed up with 8 more garbage patterns", c.codec, c.label, what, where))
			}
			pl := h.pools["default"]
			base := pl.ask(c.cmd(config{"base", "z", "z", "00", "none"}, nil, nil, nil))
			for k := 0; k < 8; k++ {
				cf := config{"valgrind-follow-up", "2", fmt.Sprintf("r:%d", 7000+k*13), "00", "none"}
				if ans := pl.ask(c.cmd(cf, nil, nil, nil)); ans != base {
					r.Fail("matrix:"+c.codec+":garbage-after-valgrind-hint:"+where,
						fmt.Sprintf("%s (%s): result depends on uninitialised memory (valgrind: %s in %s)\n  %s\nvs zeroed memory\n  %s", c.codec, c.label, what, where, ans, base),
						c.cmd(cf, nil, nil, nil)+"\n"+c.cmd(config{"base", "z", "z", "00", "none"}, nil, nil, nil))
					break
				}
			}
		}
	}
	_ = image.Rect
}
