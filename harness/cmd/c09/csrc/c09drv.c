// c09drv.c — compiled-C driver of the C09 check (results depend only on the input).
//
// One translation unit: the regenerated wuffs-unsupported-snapshot.c is #included
// with WUFFS_IMPLEMENTATION so that the object layout (private_impl / private_data)
// and the static functions (the two JPEG IDCT variants) are visible to the shims.
//
// Build flavours (same source, see main.go):
//   default                         all CPU_ARCH macros as the header defines them
//   -DWUFFS_CONFIG__AVOID_CPU_ARCH  portable fallbacks only
//   -DC09_NO_V3 / -DC09_NO_V2       the snapshot copy is patched so that these macros
//                                   suppress the X86_64_V3 / X86_64_V2 family defines
//
// Line protocol on stdin, one answer line on stdout per command:
//   info
//   run kind=<io|img|h32|h64> codec=<name> init=<z|0|2> prefill=<z|c:hh|r:seed> tail=<hh>
//       srcchunk=<n> dstcap=<n> misalign=<n> lw=<n> prev=<hex|-> src=<hex>
//   idct <128 bytes hex: 64 u16le coefficients> <64 bytes hex: quants>
//   jpegblocks <hex jpeg>
//   pngfilter <f> <d> <curr hex> <prev hex|->
//   objinit (see main.go: generated separately per probe package, not here)
//
// Object memory: malloc'ed, pre-filled with the `prefill` pattern BEFORE initialize.
//   init=z : memset 0 + WUFFS_INITIALIZE__ALREADY_ZEROED
//   init=0 : options 0 over the pre-filled memory
//   init=2 : WUFFS_INITIALIZE__LEAVE_INTERNAL_BUFFERS_UNINITIALIZED over the pre-filled memory
// prev=<hex>: the same object first decodes <hex> (to whatever end), is then
//   re-initialised the same way (init=z re-zeroes, as its contract demands; 0 and 2 run
//   over whatever the first decode left behind), and decodes src.
// Work buffers are pre-filled with the prefill pattern, io destination buffers with the `tail`
// byte, pixel buffers with a per-pixel pseudo-random pattern seeded by `tail` (see fill_pix).

#include <inttypes.h>
#include <stdint.h>
#include <stdio.h>
#include <stdlib.h>
#include <string.h>

#define WUFFS_IMPLEMENTATION
#include C09_SNAPSHOT

// ---------------------------------------------------------------- helpers

static uint8_t prng_byte(uint64_t seed, uint64_t i) {
  uint64_t x = seed * 0x9E3779B97F4A7C15ull + i * 0xBF58476D1CE4E5B9ull;
  x ^= x >> 31;
  x *= 0x94D049BB133111EBull;
  return (uint8_t)(x >> 56);
}

typedef struct {
  int kind;  // 0 zero, 1 const, 2 prng, 3 prng with zero magic, 4 untouched
  uint8_t c;
  uint64_t seed;
} pattern;

static pattern parse_pattern(const char* s) {
  pattern p = {0, 0, 0};
  if (s[0] == 'c' && s[1] == ':') {
    p.kind = 1;
    p.c = (uint8_t)strtoul(s + 2, NULL, 16);
  } else if (s[0] == 'r' && s[1] == ':') {
    p.kind = 2;
    p.seed = strtoull(s + 2, NULL, 10);
  } else if (s[0] == 'q' && s[1] == ':') {  // prng, but the first four bytes (magic) zero
    p.kind = 3;
    p.seed = strtoull(s + 2, NULL, 10);
  } else if (s[0] == 'u') {  // leave as malloc returned it (valgrind runs)
    p.kind = 4;
  }
  return p;
}

static void fill(uint8_t* p, size_t n, pattern pat, uint64_t salt) {
  if (pat.kind == 0) {
    memset(p, 0, n);
  } else if (pat.kind == 1) {
    memset(p, pat.c, n);
  } else if (pat.kind == 4) {
    // nothing
  } else {
    for (size_t i = 0; i < n; i++) {
      p[i] = prng_byte(pat.seed + salt, i);
    }
    if (pat.kind == 3) {
      for (size_t i = 0; i < n && i < 4; i++) p[i] = 0;
    }
  }
}

static int hexval(int c) {
  if (c >= '0' && c <= '9') return c - '0';
  if (c >= 'a' && c <= 'f') return c - 'a' + 10;
  if (c >= 'A' && c <= 'F') return c - 'A' + 10;
  return -1;
}

// returns malloc'ed bytes (at least 1 byte allocated), *n = length; "-" = empty
static uint8_t* unhex(const char* s, size_t* n) {
  size_t l = strlen(s);
  if (s[0] == '@') {  // @path: the bytes of that file
    FILE* f = fopen(s + 1, "rb");
    *n = 0;
    if (!f) return (uint8_t*)malloc(1);
    fseek(f, 0, SEEK_END);
    long sz = ftell(f);
    fseek(f, 0, SEEK_SET);
    uint8_t* b = (uint8_t*)malloc((size_t)sz + 1);
    *n = fread(b, 1, (size_t)sz, f);
    fclose(f);
    return b;
  }
  if (l == 1 && s[0] == '-') {
    *n = 0;
    return (uint8_t*)malloc(1);
  }
  uint8_t* b = (uint8_t*)malloc(l / 2 + 1);
  for (size_t i = 0; i + 1 < l; i += 2) {
    b[i / 2] = (uint8_t)((hexval(s[i]) << 4) | hexval(s[i + 1]));
  }
  *n = l / 2;
  return b;
}

static uint64_t fnv(uint64_t h, const uint8_t* p, size_t n) {
  for (size_t i = 0; i < n; i++) {
    h ^= p[i];
    h *= 0x100000001B3ull;
  }
  return h;
}
#define FNV_INIT 0xCBF29CE484222325ull

static void print_status(const char* s) {
  if (!s) {
    fputs("ok", stdout);
    return;
  }
  for (; *s; s++) {
    fputc((*s == ' ') ? '_' : *s, stdout);
  }
}

// ---------------------------------------------------------------- codec table

typedef wuffs_base__status (*init_fn)(void*, size_t, uint64_t, uint32_t);
typedef size_t (*sizeof_fn)(void);

typedef struct {
  const char* name;
  char kind;  // 't' io_transformer, 'i' image_decoder, 'h' hasher_u32, 'H' hasher_u64
  sizeof_fn size;
  init_fn init;
} codec;

#define CODEC(pkg, strct, k) \
  { #pkg, k, &sizeof__wuffs_##pkg##__##strct, (init_fn)(&wuffs_##pkg##__##strct##__initialize) }

static const codec codecs[] = {
#if !defined(C09_PROBE_ONLY)
    CODEC(deflate, decoder, 't'), CODEC(zlib, decoder, 't'),  CODEC(gzip, decoder, 't'),
    CODEC(bzip2, decoder, 't'),   CODEC(lzma, decoder, 't'),  CODEC(xz, decoder, 't'),
    CODEC(lzip, decoder, 't'),    CODEC(lzw, decoder, 't'),   CODEC(png, decoder, 'i'),
    CODEC(jpeg, decoder, 'i'),    CODEC(gif, decoder, 'i'),   CODEC(bmp, decoder, 'i'),
    CODEC(wbmp, decoder, 'i'),    CODEC(targa, decoder, 'i'), CODEC(nie, decoder, 'i'),
    CODEC(qoi, decoder, 'i'),     CODEC(netpbm, decoder, 'i'), CODEC(webp, decoder, 'i'),
    CODEC(adler32, hasher, 'h'),  CODEC(crc32, ieee_hasher, 'h'), CODEC(xxhash32, hasher, 'h'),
    CODEC(crc64, ecma_hasher, 'H'), CODEC(xxhash64, hasher, 'H'),
#endif
    {NULL, 0, NULL, NULL},
};

static const codec* find_codec(const char* name) {
  for (size_t i = 0; codecs[i].name; i++) {
    if (!strcmp(codecs[i].name, name)) return &codecs[i];
  }
  return NULL;
}

// ---------------------------------------------------------------- run parameters

typedef struct {
  const codec* c;
  char init;  // 'z' '0' '2'
  pattern prefill;
  uint8_t tail;
  size_t srcchunk;
  size_t dstcap;
  size_t misalign;
  uint32_t lw;  // lzw literal width, 0 = leave default
} params;

typedef struct {
  const char* status;
  uint64_t ri, wi;
  uint64_t outlen;
  uint64_t hash;
  uint32_t w, h;
  int full;
  uint64_t unwritten;  // image decoders: pixels (summed over the frames) still holding the pre-fill
  uint64_t value;  // hashers
} result;

static const char* do_init(const params* p, void* obj, int first) {
  size_t n = p->c->size();
  uint32_t opts = 0;
  if (p->init == 'z') {
    memset(obj, 0, n);
    opts = WUFFS_INITIALIZE__ALREADY_ZEROED;
  } else if (p->init == '2') {
    opts = WUFFS_INITIALIZE__LEAVE_INTERNAL_BUFFERS_UNINITIALIZED;
  }
  (void)first;
  return p->c->init(obj, n, WUFFS_VERSION, opts).repr;
}

static void set_lzw_width(const params* p, void* obj) {
#if !defined(C09_PROBE_ONLY)
  if (p->lw && !strcmp(p->c->name, "lzw")) {
    wuffs_lzw__decoder__set_quirk((wuffs_lzw__decoder*)obj, WUFFS_LZW__QUIRK_LITERAL_WIDTH_PLUS_ONE,
                                  (uint64_t)p->lw + 1);
  }
#else
  (void)p; (void)obj;
#endif
}

// ---- io_transformer

static void run_io(const params* p, void* obj, const uint8_t* src, size_t srclen, result* r) {
  wuffs_base__io_transformer* t = (wuffs_base__io_transformer*)obj;
  set_lzw_width(p, obj);
  wuffs_base__range_ii_u64 wr = wuffs_base__io_transformer__workbuf_len(t);
  size_t wlen = (size_t)wr.max_incl;
  uint8_t* wb = (uint8_t*)malloc(wlen + 1);
  fill(wb, wlen, p->prefill, 77);
  size_t dstcap = p->dstcap ? p->dstcap : 4096;
  uint8_t* dst = (uint8_t*)malloc(dstcap + 1);
  memset(dst, p->tail, dstcap);
  // The source is copied so that the bytes beyond `fed` are not the real input
  // (a reader peeking past meta.wi would show up as a difference under valgrind/prefill).
  uint8_t* sb = (uint8_t*)malloc(srclen + 1);
  memcpy(sb, src, srclen);
  size_t chunk = p->srcchunk ? p->srcchunk : srclen;
  size_t fed = chunk < srclen ? chunk : srclen;
  wuffs_base__io_buffer s = wuffs_base__ptr_u8__reader(sb, fed, fed == srclen);
  wuffs_base__io_buffer d = wuffs_base__ptr_u8__writer(dst, dstcap);
  uint64_t h = FNV_INIT, total = 0;
  const char* st = NULL;
  for (uint64_t iter = 0; iter < 100000000ull; iter++) {
    wuffs_base__status z = wuffs_base__io_transformer__transform_io(
        t, &d, &s, wuffs_base__make_slice_u8(wb, wlen));
    st = z.repr;
    if (st == wuffs_base__suspension__short_write) {
      if (d.meta.wi == 0) {
        // a completely empty destination is still too small (lzma wants room for a whole
        // match): no progress is possible with this capacity; report the suspension as final
        break;
      }
      h = fnv(h, dst, d.meta.wi);
      total += d.meta.wi;
      memset(dst, p->tail, dstcap);
      d.meta.pos += d.meta.wi;  // as wuffs_base__io_buffer__compact does
      d.meta.wi = 0;
      d.meta.ri = 0;
      continue;
    }
    if (st == wuffs_base__suspension__short_read && !s.meta.closed) {
      fed += chunk;
      if (fed > srclen) fed = srclen;
      s.meta.wi = fed;
      s.meta.closed = (fed == srclen);
      continue;
    }
    if (st == wuffs_base__suspension__short_workbuf) {
      // the required length is known only after the header (lzma/xz/lzip dictionaries):
      // grow, keeping the contents, the new part pre-filled with the pattern
      size_t need = (size_t)wuffs_base__io_transformer__workbuf_len(t).max_incl;
      if (need > wlen && need <= (1u << 28)) {
        uint8_t* nb = (uint8_t*)malloc(need + 1);
        fill(nb, need, p->prefill, 79);
        memcpy(nb, wb, wlen);
        free(wb);
        wb = nb;
        wlen = need;
        continue;
      }
    }
    break;
  }
  h = fnv(h, dst, d.meta.wi);
  total += d.meta.wi;
  r->status = st;
  r->ri = s.meta.ri;
  r->wi = total;
  r->outlen = total;
  r->hash = h;
  free(sb);
  free(dst);
  free(wb);
}

// ---- image_decoder

// The pixel buffer is pre-filled with a per-pixel pseudo-random pattern derived from `tail`, so
// that a pixel the decoder never wrote can be told from a written one (a written BGRA pixel
// coincides with its 4 pattern bytes with probability 2^-32).  Unwritten pixels keep whatever
// the caller had there -- that is not part of the decoder's result; written ones are.
static void fill_pix(uint8_t* pix, size_t plen, uint8_t tail) {
  for (size_t i = 0; i < plen; i++) {
    pix[i] = prng_byte(0xD57000ull + tail, i);
  }
}

static uint64_t fnv_pix(uint64_t h, const uint8_t* pix, size_t plen, uint8_t tail, uint64_t* unwritten) {
  size_t i = 0;
  for (; i + 4 <= plen; i += 4) {
    uint8_t pat[4];
    for (int k = 0; k < 4; k++) pat[k] = prng_byte(0xD57000ull + tail, i + k);
    if (!memcmp(pix + i, pat, 4)) {
      uint8_t mark = 0;
      h = fnv(h, &mark, 1);
      (*unwritten)++;
    } else {
      uint8_t mark = 1;
      h = fnv(h, &mark, 1);
      h = fnv(h, pix + i, 4);
    }
  }
  return h;
}

static void run_img(const params* p, void* obj, const uint8_t* src, size_t srclen, result* r) {
  wuffs_base__image_decoder* dec = (wuffs_base__image_decoder*)obj;
  uint8_t* sb = (uint8_t*)malloc(srclen + 1);
  memcpy(sb, src, srclen);
  size_t chunk = p->srcchunk ? p->srcchunk : srclen;
  size_t fed = chunk < srclen ? chunk : srclen;
  wuffs_base__io_buffer s = wuffs_base__ptr_u8__reader(sb, fed, fed == srclen);
  wuffs_base__image_config ic = ((wuffs_base__image_config){});
  const char* st = NULL;
  uint8_t* wb = NULL;
  uint8_t* pix = NULL;
  uint64_t h = FNV_INIT;
  r->full = 0;
#define FEED_OR_BREAK                                        \
  if (st == wuffs_base__suspension__short_read && !s.meta.closed) { \
    fed += chunk;                                            \
    if (fed > srclen) fed = srclen;                          \
    s.meta.wi = fed;                                         \
    s.meta.closed = (fed == srclen);                         \
    continue;                                                \
  }                                                          \
  break;
  for (;;) {
    st = wuffs_base__image_decoder__decode_image_config(dec, &ic, &s).repr;
    FEED_OR_BREAK
  }
  if (st) goto done;
  {
    uint32_t w = wuffs_base__pixel_config__width(&ic.pixcfg);
    uint32_t hh = wuffs_base__pixel_config__height(&ic.pixcfg);
    r->w = w;
    r->h = hh;
    if ((uint64_t)w * (uint64_t)hh > (1u << 24)) {
      st = "#c09: image too big";
      goto done;
    }
    wuffs_base__pixel_config__set(&ic.pixcfg, WUFFS_BASE__PIXEL_FORMAT__BGRA_NONPREMUL,
                                  WUFFS_BASE__PIXEL_SUBSAMPLING__NONE, w, hh);
    size_t plen = (size_t)w * (size_t)hh * 4;
    pix = (uint8_t*)malloc(plen + 1);
    fill_pix(pix, plen, p->tail);
    wuffs_base__pixel_buffer pb = ((wuffs_base__pixel_buffer){});
    wuffs_base__status z = wuffs_base__pixel_buffer__set_from_slice(
        &pb, &ic.pixcfg, wuffs_base__make_slice_u8(pix, plen));
    if (z.repr) {
      st = z.repr;
      goto done;
    }
    wuffs_base__range_ii_u64 wr = wuffs_base__image_decoder__workbuf_len(dec);
    size_t wlen = (size_t)wr.max_incl;
    wb = (uint8_t*)malloc(wlen + 1);
    fill(wb, wlen, p->prefill, 78);
    int allfull = 1;
    for (int frame = 0; frame < 4; frame++) {
      wuffs_base__frame_config fc = ((wuffs_base__frame_config){});
      for (;;) {
        st = wuffs_base__image_decoder__decode_frame_config(dec, &fc, &s).repr;
        FEED_OR_BREAK
      }
      if (st == wuffs_base__note__end_of_data) {
        if (frame > 0) st = NULL;
        break;
      }
      if (st) break;
      wuffs_base__rect_ie_u32 fr = wuffs_base__frame_config__bounds(&fc);
      if (!(fr.min_incl_x == 0 && fr.min_incl_y == 0 && fr.max_excl_x == w && fr.max_excl_y == hh)) {
        allfull = 0;
      }
      for (;;) {
        st = wuffs_base__image_decoder__decode_frame(dec, &pb, &s, WUFFS_BASE__PIXEL_BLEND__SRC,
                                                     wuffs_base__make_slice_u8(wb, wlen), NULL)
                 .repr;
        FEED_OR_BREAK
      }
      // hash the pixel buffer after every frame (animated inputs); pixels the decoder has not
      // written (still the pre-fill pattern) are hashed as "unwritten", not by their content
      h = fnv_pix(h, pix, plen, p->tail, &r->unwritten);
      h = fnv(h, (const uint8_t*)&fr, sizeof(fr));
      if (st) break;
    }
    r->full = (st == NULL) && allfull;
    r->outlen = plen;
  }
done:
  r->status = st;
  r->ri = s.meta.ri;
  r->wi = 0;
  r->hash = h;
  free(sb);
  free(wb);
  free(pix);
}

// ---- hashers

static void run_hash(const params* p, void* obj, const uint8_t* src, size_t srclen, result* r) {
  // data placed at a 64-byte aligned address + misalign
  uint8_t* raw = (uint8_t*)malloc(srclen + 256);
  uint8_t* base = (uint8_t*)(((uintptr_t)raw + 63) & ~(uintptr_t)63) + (p->misalign & 63);
  memset(raw, p->tail, srclen + 256);
  memcpy(base, src, srclen);
  size_t chunk = p->srcchunk ? p->srcchunk : (srclen ? srclen : 1);
  uint64_t v = 0;
  size_t off = 0;
  do {
    size_t n = srclen - off < chunk ? srclen - off : chunk;
    if (p->c->kind == 'h') {
      v = wuffs_base__hasher_u32__update_u32((wuffs_base__hasher_u32*)obj,
                                             wuffs_base__make_slice_u8(base + off, n));
    } else {
      v = wuffs_base__hasher_u64__update_u64((wuffs_base__hasher_u64*)obj,
                                             wuffs_base__make_slice_u8(base + off, n));
    }
    off += n;
  } while (off < srclen);
  uint64_t c = (p->c->kind == 'h')
                   ? wuffs_base__hasher_u32__checksum_u32((wuffs_base__hasher_u32*)obj)
                   : wuffs_base__hasher_u64__checksum_u64((wuffs_base__hasher_u64*)obj);
  r->status = (c == v) ? NULL : "#c09: checksum() differs from last update()";
  r->value = v;
  r->ri = srclen;
  free(raw);
}

static void run_one(const params* p, void* obj, const uint8_t* src, size_t srclen, result* r) {
  memset(r, 0, sizeof(*r));
  switch (p->c->kind) {
    case 't': run_io(p, obj, src, srclen, r); break;
    case 'i': run_img(p, obj, src, srclen, r); break;
    default: run_hash(p, obj, src, srclen, r); break;
  }
}

static const char* kv(char** toks, int n, const char* key) {
  size_t kl = strlen(key);
  for (int i = 0; i < n; i++) {
    if (!strncmp(toks[i], key, kl) && toks[i][kl] == '=') return toks[i] + kl + 1;
  }
  return NULL;
}

static void cmd_run(char** toks, int n) {
  params p;
  memset(&p, 0, sizeof(p));
  const char* cn = kv(toks, n, "codec");
  p.c = cn ? find_codec(cn) : NULL;
  if (!p.c) {
    puts("bad-codec");
    return;
  }
  const char* s;
  p.init = (s = kv(toks, n, "init")) ? s[0] : '0';
  p.prefill = parse_pattern((s = kv(toks, n, "prefill")) ? s : "z");
  p.tail = (uint8_t)((s = kv(toks, n, "tail")) ? strtoul(s, NULL, 16) : 0);
  p.srcchunk = (s = kv(toks, n, "srcchunk")) ? strtoull(s, NULL, 10) : 0;
  p.dstcap = (s = kv(toks, n, "dstcap")) ? strtoull(s, NULL, 10) : 0;
  p.misalign = (s = kv(toks, n, "misalign")) ? strtoull(s, NULL, 10) : 0;
  p.lw = (s = kv(toks, n, "lw")) ? (uint32_t)strtoul(s, NULL, 10) : 0;
  const char* prevhex = kv(toks, n, "prev");
  const char* srchex = kv(toks, n, "src");
  if (!srchex) {
    puts("bad-args");
    return;
  }
  size_t srclen = 0, prevlen = 0;
  uint8_t* src = unhex(srchex, &srclen);
  uint8_t* prev = NULL;
  if (prevhex && strcmp(prevhex, "none")) prev = unhex(prevhex, &prevlen);

  size_t osz = p.c->size();
  uint8_t* obj = (uint8_t*)malloc(osz + 1);
  fill(obj, osz, p.prefill, 0);
  result r;
  const char* ist = do_init(&p, obj, 1);
  if (!ist && prev) {
    result r0;
    run_one(&p, obj, prev, prevlen, &r0);
    ist = do_init(&p, obj, 0);
  }
  if (ist) {
    fputs("init-error=", stdout);
    print_status(ist);
    fputc('\n', stdout);
  } else {
    run_one(&p, obj, src, srclen, &r);
    fputs("st=", stdout);
    print_status(r.status);
    if (p.c->kind == 'h' || p.c->kind == 'H') {
      printf(" v=%" PRIu64 "\n", r.value);
    } else if (p.c->kind == 'i') {
      printf(" ri=%" PRIu64 " w=%u h=%u full=%d n=%" PRIu64 " unw=%" PRIu64 " hash=%016" PRIx64 "\n", r.ri, r.w, r.h,
             r.full, r.outlen, r.unwritten, r.hash);
    } else {
      printf(" ri=%" PRIu64 " wi=%" PRIu64 " hash=%016" PRIx64 "\n", r.ri, r.wi, r.hash);
    }
  }
  free(obj);
  free(src);
  free(prev);
}

// ---------------------------------------------------------------- info

static void cmd_info(void) {
  fputs("macros=", stdout);
  int any = 0;
#if defined(WUFFS_PRIVATE_IMPL__CPU_ARCH__X86_64)
  fputs("x64", stdout); any = 1;
#endif
#if defined(WUFFS_PRIVATE_IMPL__CPU_ARCH__X86_64_V2)
  fputs(any ? ",v2" : "v2", stdout); any = 1;
#endif
#if defined(WUFFS_PRIVATE_IMPL__CPU_ARCH__X86_64_V3)
  fputs(any ? ",v3" : "v3", stdout); any = 1;
#endif
#if defined(WUFFS_PRIVATE_IMPL__CPU_ARCH__ARM_NEON)
  fputs(any ? ",neon" : "neon", stdout); any = 1;
#endif
#if defined(WUFFS_PRIVATE_IMPL__CPU_ARCH__ARM_CRC32)
  fputs(any ? ",crc32" : "crc32", stdout); any = 1;
#endif
  if (!any) fputs("-", stdout);
  fputs(" have=", stdout);
  any = 0;
  if (wuffs_base__cpu_arch__have_x86_sse42()) { fputs("sse42", stdout); any = 1; }
  if (wuffs_base__cpu_arch__have_x86_avx2()) { fputs(any ? ",avx2" : "avx2", stdout); any = 1; }
  if (wuffs_base__cpu_arch__have_x86_bmi2()) { fputs(any ? ",bmi2" : "bmi2", stdout); any = 1; }
  if (wuffs_base__cpu_arch__have_arm_neon()) { fputs(any ? ",neon" : "neon", stdout); any = 1; }
  if (wuffs_base__cpu_arch__have_arm_crc32()) { fputs(any ? ",crc32" : "crc32", stdout); any = 1; }
  if (!any) fputs("-", stdout);
  fputc('\n', stdout);
}

// ---------------------------------------------------------------- JPEG IDCT shims
#if !defined(C09_PROBE_ONLY)

// Exact (no wrap) reading of decode_idct_default.wuffs in int64_t: value of every
// sample about the bias, before "& 1023".  Independent re-implementation of the
// predicate (the Lean model has its own).
static int64_t fdiv(int64_t a, int64_t b) {  // floor division, b > 0
  int64_t q = a / b;
  if ((a % b) != 0 && a < 0) q--;
  return q;
}

static void lin64(const int64_t* in, int64_t* o) {
  int64_t i0 = in[0], i1 = in[1], i2 = in[2], i3 = in[3], i4 = in[4], i5 = in[5], i6 = in[6], i7 = in[7];
  int64_t ca = (i2 + i6) * 4433;
  int64_t cb2 = ca + i2 * 6270;
  int64_t cb6 = ca - i6 * 15137;
  int64_t ccp = (i0 + i4) * 8192;
  int64_t ccm = (i0 - i4) * 8192;
  int64_t cd0 = ccp + cb2, cd1 = ccm + cb6, cd2 = ccm - cb6, cd3 = ccp - cb2;
  int64_t ci51 = i5 + i1, ci53 = i5 + i3, ci71 = i7 + i1, ci73 = i7 + i3;
  int64_t cj = (ci73 + ci51) * 9633;
  int64_t ck1 = i1 * 12299, ck3 = i3 * 25172, ck5 = i5 * 16819, ck7 = i7 * 2446;
  ci51 *= -3196;
  ci53 *= -20995;
  ci71 *= -7373;
  ci73 *= -16069;
  int64_t cl51 = ci51 + cj, cl73 = ci73 + cj;
  ck1 += ci71 + cl51;
  ck3 += ci53 + cl73;
  ck5 += ci53 + cl51;
  ck7 += ci71 + cl73;
  o[0] = cd0 + ck1; o[7] = cd0 - ck1;
  o[1] = cd1 + ck3; o[6] = cd1 - ck3;
  o[2] = cd2 + ck5; o[5] = cd2 - ck5;
  o[3] = cd3 + ck7; o[4] = cd3 - ck7;
}

// returns 1 if all 64 exact samples are inside -512..511; *fit = the lane condition `lanesFit`
// of Props/C09IdctBlock.lean (every dequantised coefficient within +-8191, every exact first-pass
// intermediate within +-16383); *fit2 = the weaker `lanesFit2` of Model/JpegIdctRange.lean
// (coefficients within +-8191, intermediates within +-16400, the four 16-bit sums of every row of
// the second pass within +-32767), which Props/C09IdctRange.lean proves for EVERY in-range block
static int exact_in_range_fit(const uint16_t* b, const uint16_t* q, int* fit, int* fit2) {
  int64_t mid[64];
  *fit = 1;
  *fit2 = 1;
  for (int c = 0; c < 8; c++) {
    int64_t d[8];
    uint16_t acs = 0;
    for (int r = 0; r < 8; r++) {
      d[r] = (int64_t)(int16_t)b[8 * r + c] * (int64_t)q[8 * r + c];
      if (d[r] < -8191 || d[r] > 8191) *fit = *fit2 = 0;
      if (r) acs |= b[8 * r + c];
    }
    if (!acs) {
      for (int r = 0; r < 8; r++) mid[8 * r + c] = d[0] * 4;
    } else {
      int64_t o[8];
      lin64(d, o);
      for (int r = 0; r < 8; r++) mid[8 * r + c] = fdiv(o[r] + 1024, 2048);
    }
  }
  for (int i = 0; i < 64; i++) {
    if (mid[i] < -16383 || mid[i] > 16383) *fit = 0;
    if (mid[i] < -16400 || mid[i] > 16400) *fit2 = 0;
  }
  for (int r = 0; r < 8; r++) {
    const int64_t* in = &mid[8 * r];
    int64_t s[4] = {in[0] + in[4], in[0] - in[4], in[7] + in[3], in[5] + in[1]};
    for (int k = 0; k < 4; k++) {
      if (s[k] < -32767 || s[k] > 32767) *fit2 = 0;
    }
  }
  int ok = 1;
  for (int r = 0; r < 8; r++) {
    const int64_t* in = &mid[8 * r];
    int64_t v[8];
    if (!(in[1] | in[2] | in[3] | in[4] | in[5] | in[6] | in[7])) {
      for (int k = 0; k < 8; k++) v[k] = fdiv(in[0] + 16, 32);
    } else {
      int64_t o[8];
      lin64(in, o);
      for (int k = 0; k < 8; k++) v[k] = fdiv(o[k] + 131072, 262144);
    }
    for (int k = 0; k < 8; k++) {
      if (v[k] < -512 || v[k] > 511) ok = 0;
    }
  }
  return ok;
}

static int exact_in_range(const uint16_t* b, const uint16_t* q) {
  int fit, fit2;
  return exact_in_range_fit(b, q, &fit, &fit2);
}

static void hex_out(const uint8_t* p, size_t n) {
  static const char* d = "0123456789abcdef";
  for (size_t i = 0; i < n; i++) {
    fputc(d[p[i] >> 4], stdout);
    fputc(d[p[i] & 15], stdout);
  }
}

static int have_avx2_variant(void) {
#if defined(WUFFS_PRIVATE_IMPL__CPU_ARCH__X86_64_V3)
  return wuffs_base__cpu_arch__have_x86_avx2() ? 1 : 0;
#else
  return 0;
#endif
}

static void cmd_idct(char** toks, int n) {
  if (n < 3) {
    puts("bad-args");
    return;
  }
  size_t cl = 0, ql = 0;
  uint8_t* cb = unhex(toks[1], &cl);
  uint8_t* qb = unhex(toks[2], &ql);
  if (cl != 128 || ql != 64) {
    puts("bad-args");
    free(cb);
    free(qb);
    return;
  }
  wuffs_jpeg__decoder* dec = (wuffs_jpeg__decoder*)malloc(sizeof(wuffs_jpeg__decoder));
  memset(dec, 0xA5, sizeof(*dec));
  wuffs_base__status z = wuffs_jpeg__decoder__initialize(
      dec, sizeof(*dec), WUFFS_VERSION, WUFFS_INITIALIZE__LEAVE_INTERNAL_BUFFERS_UNINITIALIZED);
  if (z.repr) {
    puts("init-error");
    return;
  }
  uint16_t b[64], q[64];
  for (int i = 0; i < 64; i++) {
    b[i] = (uint16_t)(cb[2 * i] | (cb[2 * i + 1] << 8));
    q[i] = qb[i];
    dec->private_data.f_mcu_blocks[0][i] = b[i];
    dec->private_impl.f_quant_tables[0][i] = q[i];
  }
  uint8_t out[64];
  memset(out, 0xEE, 64);
  wuffs_jpeg__decoder__decode_idct__choosy_default(dec, wuffs_base__make_slice_u8(out, 64), 8, 0);
  fputs("p=", stdout);
  hex_out(out, 64);
#if defined(WUFFS_PRIVATE_IMPL__CPU_ARCH__X86_64_V3)
  if (have_avx2_variant()) {
    memset(out, 0xEE, 64);
    wuffs_jpeg__decoder__decode_idct_x86_avx2(dec, wuffs_base__make_slice_u8(out, 64), 8, 0);
    fputs(" a=", stdout);
    hex_out(out, 64);
  }
#endif
  {
    int fit = 0, fit2 = 0;
    int inr = exact_in_range_fit(b, q, &fit, &fit2);
    printf(" inrange=%d fit=%d fit2=%d\n", inr, fit, fit2);
  }
  free(dec);
  free(cb);
  free(qb);
}

// jpegblocks: decode a whole JPEG with a hook in place of the chosen IDCT that, for every
// block, evaluates the range predicate and runs BOTH variants on the same coefficients.
static struct {
  uint64_t blocks, out_of_range, diff_in_range, diff_out_of_range;
} jb;

static wuffs_base__empty_struct jb_hook(wuffs_jpeg__decoder* self, wuffs_base__slice_u8 dst,
                                        uint64_t stride, uint32_t q) {
  uint8_t o1[64], o2[64];
  memset(o1, 0, 64);
  memset(o2, 0, 64);
  int inr = exact_in_range(self->private_data.f_mcu_blocks[0], self->private_impl.f_quant_tables[q]);
  jb.blocks++;
  if (!inr) jb.out_of_range++;
  wuffs_jpeg__decoder__decode_idct__choosy_default(self, wuffs_base__make_slice_u8(o1, 64), 8, q);
#if defined(WUFFS_PRIVATE_IMPL__CPU_ARCH__X86_64_V3)
  if (have_avx2_variant()) {
    wuffs_jpeg__decoder__decode_idct_x86_avx2(self, wuffs_base__make_slice_u8(o2, 64), 8, q);
    if (memcmp(o1, o2, 64)) {
      if (inr) jb.diff_in_range++; else jb.diff_out_of_range++;
    }
  }
#endif
  return wuffs_jpeg__decoder__decode_idct__choosy_default(self, dst, stride, q);
}

static void cmd_jpegblocks(char** toks, int n) {
  if (n < 2) {
    puts("bad-args");
    return;
  }
  size_t srclen = 0;
  uint8_t* src = unhex(toks[1], &srclen);
  memset(&jb, 0, sizeof(jb));
  wuffs_jpeg__decoder* dec = (wuffs_jpeg__decoder*)calloc(1, sizeof(wuffs_jpeg__decoder));
  const char* st = wuffs_jpeg__decoder__initialize(dec, sizeof(*dec), WUFFS_VERSION,
                                                   WUFFS_INITIALIZE__ALREADY_ZEROED).repr;
  wuffs_base__io_buffer s = wuffs_base__ptr_u8__reader(src, srclen, true);
  wuffs_base__image_config ic = ((wuffs_base__image_config){});
  uint8_t* pix = NULL;
  uint8_t* wb = NULL;
  if (!st) st = wuffs_jpeg__decoder__decode_image_config(dec, &ic, &s).repr;
  if (!st) {
    dec->private_impl.choosy_decode_idct = &jb_hook;
    uint32_t w = wuffs_base__pixel_config__width(&ic.pixcfg);
    uint32_t h = wuffs_base__pixel_config__height(&ic.pixcfg);
    if ((uint64_t)w * h > (1u << 24)) {
      st = "#c09: image too big";
    } else {
      wuffs_base__pixel_config__set(&ic.pixcfg, WUFFS_BASE__PIXEL_FORMAT__BGRA_NONPREMUL,
                                    WUFFS_BASE__PIXEL_SUBSAMPLING__NONE, w, h);
      size_t plen = (size_t)w * h * 4;
      pix = (uint8_t*)calloc(plen + 1, 1);
      wuffs_base__pixel_buffer pb = ((wuffs_base__pixel_buffer){});
      st = wuffs_base__pixel_buffer__set_from_slice(&pb, &ic.pixcfg, wuffs_base__make_slice_u8(pix, plen)).repr;
      size_t wlen = (size_t)wuffs_jpeg__decoder__workbuf_len(dec).max_incl;
      wb = (uint8_t*)calloc(wlen + 1, 1);
      if (!st) {
        st = wuffs_jpeg__decoder__decode_frame(dec, &pb, &s, WUFFS_BASE__PIXEL_BLEND__SRC,
                                               wuffs_base__make_slice_u8(wb, wlen), NULL).repr;
      }
    }
  }
  fputs("st=", stdout);
  print_status(st);
  printf(" blocks=%" PRIu64 " outofrange=%" PRIu64 " diff_inrange=%" PRIu64 " diff_outofrange=%" PRIu64 "\n",
         jb.blocks, jb.out_of_range, jb.diff_in_range, jb.diff_out_of_range);
  free(pix);
  free(wb);
  free(dec);
  free(src);
}

// pngfilter <f> <d> <curr hex> <prev hex|->: one row through the portable fallback and (when
// compiled in and supported by the CPU) through the SSE4.2 twin of the same filter.
static void cmd_pngfilter(char** toks, int n) {
  if (n < 5) {
    puts("bad-args");
    return;
  }
  int f = atoi(toks[1]);
  int d = atoi(toks[2]);
  size_t cl = 0, pl = 0;
  uint8_t* cb = unhex(toks[3], &cl);
  uint8_t* pb = unhex(toks[4], &pl);
  wuffs_png__decoder* dec = (wuffs_png__decoder*)malloc(sizeof(wuffs_png__decoder));
  memset(dec, 0xA5, sizeof(*dec));
  if (wuffs_png__decoder__initialize(dec, sizeof(*dec), WUFFS_VERSION,
                                     WUFFS_INITIALIZE__LEAVE_INTERNAL_BUFFERS_UNINITIALIZED).repr) {
    puts("init-error");
    return;
  }
  uint8_t* c1 = (uint8_t*)malloc(cl + 1);
  uint8_t* c2 = (uint8_t*)malloc(cl + 1);
  memcpy(c1, cb, cl);
  memcpy(c2, cb, cl);
  wuffs_base__slice_u8 s1 = wuffs_base__make_slice_u8(c1, cl);
  wuffs_base__slice_u8 s2 = wuffs_base__make_slice_u8(c2, cl);
  wuffs_base__slice_u8 sp = wuffs_base__make_slice_u8(pb, pl);
  int ok = 1;
  if (f == 1 && d == 4) {
    wuffs_png__decoder__filter_1_distance_4_fallback(dec, s1);
  } else if (f == 3 && d == 4) {
    wuffs_png__decoder__filter_3_distance_4_fallback(dec, s1, sp);
  } else if (f == 4 && d == 3) {
    wuffs_png__decoder__filter_4_distance_3_fallback(dec, s1, sp);
  } else if (f == 4 && d == 4) {
    wuffs_png__decoder__filter_4_distance_4_fallback(dec, s1, sp);
  } else {
    ok = 0;
  }
  if (!ok) {
    puts("bad-args");
  } else {
    fputs("p=", stdout);
    if (cl) hex_out(c1, cl); else fputc('-', stdout);
#if defined(WUFFS_PRIVATE_IMPL__CPU_ARCH__X86_64_V2)
    if (wuffs_base__cpu_arch__have_x86_sse42()) {
      if (f == 1) {
        wuffs_png__decoder__filter_1_distance_4_x86_sse42(dec, s2);
      } else if (f == 3) {
        wuffs_png__decoder__filter_3_distance_4_x86_sse42(dec, s2, sp);
      } else if (d == 3) {
        wuffs_png__decoder__filter_4_distance_3_x86_sse42(dec, s2, sp);
      } else {
        wuffs_png__decoder__filter_4_distance_4_x86_sse42(dec, s2, sp);
      }
      fputs(" s=", stdout);
      if (cl) hex_out(c2, cl); else fputc('-', stdout);
    }
#endif
    fputc('\n', stdout);
  }
  free(c1);
  free(c2);
  free(dec);
  free(cb);
  free(pb);
}

#endif  // !defined(C09_PROBE_ONLY)

// ---------------------------------------------------------------- object dumps

// The generated include provides
//   static const c09_struct c09_structs[]   (name, sizeof, initialize) of every classy struct
//   static void c09_layout(void)            one line per struct: sizes and offsets
//   static void c09_pick(const char* name)  probe packages only: which variant `choose` selected
typedef struct {
  const char* name;
  size_t size;
  init_fn init;
} c09_struct;

#if defined(C09_STRUCTS_INC)
#include C09_STRUCTS_INC

// objinit <struct> <options> <prior> [<sizeof_star_self> <wuffs_version> <selfnull>]
static void cmd_objinit(char** toks, int n) {
  if (n < 4) {
    puts("bad-args");
    return;
  }
  const c09_struct* s = NULL;
  for (size_t i = 0; c09_structs[i].name; i++) {
    if (!strcmp(c09_structs[i].name, toks[1])) s = &c09_structs[i];
  }
  if (!s) {
    puts("bad-struct");
    return;
  }
  uint32_t opts = (uint32_t)strtoul(toks[2], NULL, 10);
  pattern pat = parse_pattern(toks[3]);
  size_t sizearg = (n > 4) ? (size_t)strtoull(toks[4], NULL, 10) : s->size;
  uint64_t version = (n > 5) ? strtoull(toks[5], NULL, 10) : WUFFS_VERSION;
  int selfnull = (n > 6) ? atoi(toks[6]) : 0;
  uint8_t* obj = (uint8_t*)malloc(s->size + 1);
  fill(obj, s->size, pat, 0);
  const char* st = s->init(selfnull ? NULL : obj, sizearg, version, opts).repr;
  if (st) {
    fputs("err ", stdout);
    print_status(st);
    fputc('\n', stdout);
  } else {
    fputs("ok ", stdout);
    size_t i = 0;
    int first = 1;
    while (i < s->size) {
      size_t j = i;
      while (j < s->size && obj[j] == obj[i]) j++;
      if (!first) fputc('.', stdout);
      first = 0;
      if (j - i == 1) {
        printf("%02x", obj[i]);
      } else {
        printf("%02x*%zu", obj[i], j - i);
      }
      i = j;
    }
    fputc('\n', stdout);
  }
  free(obj);
}
#endif  // defined(C09_STRUCTS_INC)

// ---------------------------------------------------------------- main loop

int main(void) {
  size_t cap = 1 << 20;
  char* line = (char*)malloc(cap);
  for (;;) {
    size_t len = 0;
    int ch;
    while ((ch = fgetc(stdin)) != EOF && ch != '\n') {
      if (len + 2 > cap) {
        cap *= 2;
        line = (char*)realloc(line, cap);
      }
      line[len++] = (char)ch;
    }
    if (ch == EOF && len == 0) break;
    line[len] = 0;
    char* toks[32];
    int n = 0;
    char* save = NULL;
    for (char* t = strtok_r(line, " ", &save); t && n < 32; t = strtok_r(NULL, " ", &save)) {
      toks[n++] = t;
    }
    if (n == 0) {
      puts("bad-op");
    } else if (!strcmp(toks[0], "info")) {
      cmd_info();
    } else if (!strcmp(toks[0], "run")) {
      cmd_run(toks, n);
#if !defined(C09_PROBE_ONLY)
    } else if (!strcmp(toks[0], "idct")) {
      cmd_idct(toks, n);
    } else if (!strcmp(toks[0], "jpegblocks")) {
      cmd_jpegblocks(toks, n);
    } else if (!strcmp(toks[0], "pngfilter")) {
      cmd_pngfilter(toks, n);
#endif
#if defined(C09_STRUCTS_INC)
    } else if (!strcmp(toks[0], "layout")) {
      c09_layout();
    } else if (!strcmp(toks[0], "objinit")) {
      cmd_objinit(toks, n);
    } else if (!strcmp(toks[0], "pick") && n > 1) {
      c09_pick(toks[1]);
#endif
    } else {
      puts("bad-op");
    }
    fflush(stdout);
    if (ch == EOF) break;
  }
  return 0;
}
