package main

import (
	"bytes"
	"fmt"
	"io"
	"math/rand"

	"github.com/google/wuffs/lib/rac"
	"github.com/google/wuffs/lib/raczlib"
)

func main() {
	bad := 0
	for seed := int64(0); seed < 20; seed++ {
		rng := rand.New(rand.NewSource(seed))
		n := 20000
		data := make([]byte, n)
		for i := 0; i < n; {
			run := rng.Intn(300) + 1
			zero := rng.Intn(2) == 0
			for j := 0; j < run && i < n; j++ {
				if !zero {
					data[i] = byte(rng.Intn(256))
				}
				i++
			}
		}
		var out bytes.Buffer
		w := &rac.Writer{Writer: &out, CodecWriter: &raczlib.CodecWriter{}, CChunkSize: 256}
		for i := 0; i < n; {
			k := rng.Intn(100) + 1
			if i+k > n {
				k = n - i
			}
			if _, err := w.Write(data[i : i+k]); err != nil {
				panic(err)
			}
			i += k
		}
		if err := w.Close(); err != nil {
			panic(err)
		}
		r := &rac.Reader{ReadSeeker: bytes.NewReader(out.Bytes()), CompressedSize: int64(out.Len()), CodecReaders: []rac.CodecReader{&raczlib.CodecReader{}}}
		got, err := io.ReadAll(r)
		if err != nil || !bytes.Equal(got, data) {
			bad++
			fmt.Println("seed", seed, "mismatch", err, len(got), len(data))
		}
	}
	fmt.Println("bad", bad)
}
