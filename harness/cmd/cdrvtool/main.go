package main

import (
	"fmt"
	"os"
	"time"
	"wvh/cdrv"
)

func main() {
	defer cdrv.Cleanup()
	t0 := time.Now()
	d, err := cdrv.Build("/repo", cdrv.Flavour(os.Args[1]))
	if err != nil {
		fmt.Println(err)
		return
	}
	defer d.Close()
	fmt.Println("built", time.Since(t0), d.GenTime, d.BuildTime)
	for _, c := range os.Args[2:] {
		fmt.Println(d.Run(c))
	}
}
