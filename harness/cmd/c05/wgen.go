package main

// Generator of small Wuffs coroutine programs (fragment F3s of DESIGN.md: the
// only I/O operations are the suspending built-ins read_uXX?, skip?, skip_u32?
// and write_u8?; integer locals of four widths; if / else-if / while / labelled
// break and continue; yield; nested coroutine calls, with and without "=?").
// One package holds many coroutines so that it is compiled once.

import (
	"fmt"
	"strings"

	"wvh/hlib"
)

type wtype int

const (
	tU8 wtype = iota
	tU16
	tU32
	tU64
)

var wtypeName = [...]string{"base.u8", "base.u16", "base.u32", "base.u64"}
var wtypeBits = [...]int{8, 16, 32, 64}

type readMethod struct {
	name string
	ret  wtype
	xx   int
	be   bool
}

// every read method of lang/builtin (the model's table is regenerated from builtin.go; this
// list only drives generation and is cross-checked against that table in main)
var readMethodList = []readMethod{
	{"read_u8", tU8, 8, true},
	{"read_u8_as_u16", tU16, 8, true}, {"read_u16be", tU16, 16, true}, {"read_u16le", tU16, 16, false},
	{"read_u8_as_u32", tU32, 8, true}, {"read_u16be_as_u32", tU32, 16, true}, {"read_u16le_as_u32", tU32, 16, false},
	{"read_u24be_as_u32", tU32, 24, true}, {"read_u24le_as_u32", tU32, 24, false},
	{"read_u32be", tU32, 32, true}, {"read_u32le", tU32, 32, false},
	{"read_u8_as_u64", tU64, 8, true}, {"read_u16be_as_u64", tU64, 16, true}, {"read_u16le_as_u64", tU64, 16, false},
	{"read_u24be_as_u64", tU64, 24, true}, {"read_u24le_as_u64", tU64, 24, false},
	{"read_u32be_as_u64", tU64, 32, true}, {"read_u32le_as_u64", tU64, 32, false},
	{"read_u40be_as_u64", tU64, 40, true}, {"read_u40le_as_u64", tU64, 40, false},
	{"read_u48be_as_u64", tU64, 48, true}, {"read_u48le_as_u64", tU64, 48, false},
	{"read_u56be_as_u64", tU64, 56, true}, {"read_u56le_as_u64", tU64, 56, false},
	{"read_u64be", tU64, 64, true}, {"read_u64le", tU64, 64, false},
}

type wvar struct {
	name string
	t    wtype
}

// wfunc is one generated coroutine.
type wfunc struct {
	name    string // f<k> or s<k>
	public  bool
	hasArgA bool   // subs take an extra "a: base.u32"
	vars    []wvar // value variables
	ctrs    []string
	src     string // complete func text
	exec    bool   // safe to execute (terminates; no io_limit)
	tag     string // generator family, for the histogram
}

type wpkg struct {
	funcs []*wfunc
	text  string
}

type wgen struct {
	rng     *hlib.Rand
	f       *wfunc
	b       strings.Builder
	ind     int
	nsub    int // number of subs available to call (subs with index >= minSub)
	minSub  int
	loops   []string // labels of enclosing loops ("" = unlabelled), innermost last
	nctr    int
	budget  int  // remaining statements
	exec    bool // generate only constructs that terminate and that the probe driver can serve
	nlabel  int
	usedSt  bool
	reads   int
	noLit   int // > 0: leaves are never literals (the expression is then not a constant)
	noField int // > 0: leaves are never this.… fields
}

func (g *wgen) line(format string, args ...interface{}) {
	g.b.WriteString(strings.Repeat("    ", g.ind))
	fmt.Fprintf(&g.b, format, args...)
	g.b.WriteByte('\n')
}

func (g *wgen) pickVar(t wtype) string {
	var c []string
	for _, v := range g.f.vars {
		if v.t == t {
			c = append(c, v.name)
		}
	}
	return c[g.rng.Intn(len(c))]
}

func (g *wgen) anyVar() wvar { return g.f.vars[g.rng.Intn(len(g.f.vars))] }

func mask(t wtype) string {
	switch t {
	case tU8:
		return "0xFF"
	case tU16:
		return "0xFFFF"
	case tU32:
		return "0xFFFF_FFFF"
	}
	return "0xFFFF_FFFF_FFFF_FFFF"
}

// expr returns a parenthesised-where-needed expression of type t.
func (g *wgen) expr(t wtype, depth int) string {
	r := g.rng
	if depth <= 0 || r.Chance(1, 3) {
		switch r.Intn(6) {
		case 0:
			if g.noLit == 0 {
				return fmt.Sprint(r.Intn(1 << uint(min(wtypeBits[t], 8))))
			}
		case 1:
			if g.f.hasArgA && t == tU32 {
				return "args.a"
			}
		case 2:
			if t == tU64 && r.Bool() && g.noField == 0 {
				return "this.acc"
			}
		}
		return g.pickVar(t)
	}
	switch r.Intn(7) {
	case 0, 1: // binary
		ops := []string{"~mod+", "~mod-", "^", "&", "|"}
		if t >= tU32 {
			ops = append(ops, "~mod*")
		}
		op := ops[r.Intn(len(ops))]
		return fmt.Sprintf("(%s %s %s)", g.exprNC(t, depth-1), op, g.expr(t, depth-1))
	case 2: // narrowing from a wider variable
		if t < tU64 {
			w := wtype(int(t) + 1 + r.Intn(int(tU64-t)))
			return fmt.Sprintf("((%s & %s) as %s)", g.expr(w, depth-1), mask(t), wtypeName[t])
		}
	case 3: // widening
		if t > tU8 {
			w := wtype(r.Intn(int(t)))
			return fmt.Sprintf("(%s as %s)", g.expr(w, depth-1), wtypeName[t])
		}
	case 4: // shift right by a constant
		return fmt.Sprintf("(%s >> %d)", g.exprNC(t, depth-1), r.Intn(wtypeBits[t]))
	case 5:
		return fmt.Sprintf("(%s ~mod<< %d)", g.exprNC(t, depth-1), r.Intn(wtypeBits[t]))
	}
	return g.pickVar(t)
}

// exprNC: an expression that is not a compile-time constant.
func (g *wgen) exprNC(t wtype, depth int) string {
	g.noLit++
	s := g.expr(t, depth)
	g.noLit--
	return s
}

// cond: a condition over compound, non-constant expressions only. (The checker keeps facts
// about plain locals, e.g. "a0 == 0" after the declaration or "a0 < 5" inside an if; a second
// condition on the same local that contradicts them is a compile error, not a program.)
func (g *wgen) cond() string {
	r := g.rng
	t := wtype(r.Intn(4))
	x, y := g.exprNC(t, 1), g.exprNC(t, 1)
	switch r.Intn(4) {
	case 0:
		return fmt.Sprintf("((%s ^ %s) & %d) <> 0", x, y, 1<<uint(r.Intn(min(wtypeBits[t], 8))))
	case 1:
		return fmt.Sprintf("(%s ~mod+ %s) < %d", x, y, r.Range(1, 200))
	case 2:
		return fmt.Sprintf("(%s ^ %s) == (%s & %s)", x, y, g.exprNC(t, 0), g.exprNC(t, 0))
	}
	return fmt.Sprintf("(%s | %s) >= (%s & %s)", x, y, g.exprNC(t, 0), g.exprNC(t, 0))
}

func (g *wgen) u8expr() string { return g.expr(tU8, 2) }

func (g *wgen) stmtRead() {
	v := g.anyVar()
	var c []readMethod
	for _, m := range readMethodList {
		if m.ret == v.t {
			c = append(c, m)
		}
	}
	m := c[g.rng.Intn(len(c))]
	g.line("%s = args.src.%s?()", v.name, m.name)
	g.reads++
}

func (g *wgen) stmtWrite() {
	g.line("args.dst.write_u8?(a: %s)", g.u8expr())
}

// writeVar writes every byte of a variable, little-endian (several suspension points while
// the variable and the partially written value must survive).
func (g *wgen) stmtWriteVar() {
	v := g.anyVar()
	n := wtypeBits[v.t] / 8
	if n > 3 {
		n = 1 + g.rng.Intn(3)
	}
	for i := 0; i < n; i++ {
		if v.t == tU8 {
			g.line("args.dst.write_u8?(a: %s)", v.name)
		} else {
			g.line("args.dst.write_u8?(a: (((%s >> %d) & 0xFF) as base.u8))", v.name, 8*i)
		}
	}
}

func (g *wgen) stmtSkip() {
	r := g.rng
	switch r.Intn(4) {
	case 0:
		g.line("args.src.skip_u32?(n: 1)")
	case 1:
		g.line("args.src.skip?(n: 1)")
	case 2:
		g.line("args.src.skip_u32?(n: (%s & %d))", g.expr(tU32, 1), []int{3, 7, 15}[r.Intn(3)])
	default:
		g.line("args.src.skip?(n: (%s & %d))", g.expr(tU64, 1), []int{3, 7, 15}[r.Intn(3)])
	}
}

func (g *wgen) stmtAssign() {
	v := g.anyVar()
	switch g.rng.Intn(5) {
	case 0:
		g.line("%s ~mod+= %s", v.name, g.expr(v.t, 2))
	case 1:
		g.line("%s ^= %s", v.name, g.expr(v.t, 2))
	case 2:
		g.line("%s |= %s", v.name, g.expr(v.t, 1))
	default:
		g.line("%s = %s", v.name, g.exprNC(v.t, 2))
	}
}

func (g *wgen) stmtFold() {
	switch g.rng.Intn(3) {
	case 0:
		g.line("this.acc = (this.acc ~mod* 31) ~mod+ %s", g.expr(tU64, 2))
	case 1:
		g.line("this.g1 ^= %s", g.expr(tU64, 2))
	default:
		v := g.anyVar()
		if v.t == tU64 {
			g.line("this.acc ~mod+= %s", v.name)
		} else {
			g.line("this.acc ~mod+= (%s as base.u64)", v.name)
		}
	}
}

func (g *wgen) stmtYield() {
	if g.rng.Bool() {
		g.line(`yield? base."$short read"`)
	} else {
		g.line(`yield? base."$short write"`)
	}
}

func (g *wgen) stmtCall() {
	if g.nsub <= g.minSub {
		g.stmtRead()
		return
	}
	// The argument never reads a this.… field: the callee may write the field, and a call that is
	// re-issued after a suspension evaluates its arguments again (statement.go
	// writeStatementAssign), so such a program would be split-dependent by its own meaning.
	g.noField++
	defer func() { g.noField-- }()
	k := g.minSub + g.rng.Intn(g.nsub-g.minSub)
	if g.rng.Chance(1, 3) {
		// the "=?" idiom of std/gzip: the callee's suspension is re-yielded by hand
		g.usedSt = true
		g.line("while true {")
		g.ind++
		g.line("st =? this.s%d?(dst: args.dst, src: args.src, a: %s)", k, g.expr(tU32, 1))
		g.line("if st.is_ok() {")
		g.line("    break")
		g.line("} else if st.is_error() {")
		g.line("    return st")
		g.line("}")
		g.line("yield? st")
		g.ind--
		g.line("}")
		return
	}
	g.line("this.s%d?(dst: args.dst, src: args.src, a: %s)", k, g.expr(tU32, 2))
}

func (g *wgen) stmtJump() bool {
	if len(g.loops) == 0 {
		return false
	}
	i := g.rng.Intn(len(g.loops))
	lbl := g.loops[i]
	kw := "break"
	if g.rng.Chance(1, 3) {
		kw = "continue"
	}
	if lbl == "" {
		if i != len(g.loops)-1 {
			return false
		}
		g.line("%s", kw)
	} else {
		g.line("%s.%s", kw, lbl)
	}
	return true
}

func (g *wgen) stmtRet() {
	switch g.rng.Intn(3) {
	case 0:
		g.line(`return "#e1"`)
	case 1:
		g.line(`return "#e2"`)
	default:
		g.line("return ok")
	}
}

// block writes a statement list; returns true if its last statement terminates the block.
func (g *wgen) block(depth int, n int) bool {
	for i := 0; i < n && g.budget > 0; i++ {
		g.budget--
		last := i == n-1
		r := g.rng
		k := r.Intn(100)
		switch {
		case k < 18:
			g.stmtRead()
		case k < 30:
			g.stmtWrite()
		case k < 36:
			g.stmtWriteVar()
		case k < 42:
			g.stmtSkip()
		case k < 54:
			g.stmtAssign()
		case k < 62:
			g.stmtFold()
		case k < 66:
			g.stmtYield()
		case k < 72:
			g.stmtCall()
		case k < 84 && depth > 0:
			g.stmtIf(depth)
		case k < 94 && depth > 0:
			g.stmtWhile(depth)
		case k < 97 && last:
			if g.stmtJump() {
				return true
			}
		case k < 99 && last && depth < 3:
			g.stmtRet()
			return true
		default:
			g.stmtAssign()
		}
	}
	return false
}

func (g *wgen) stmtIf(depth int) {
	g.line("if %s {", g.cond())
	g.ind++
	g.block(depth-1, 1+g.rng.Intn(3))
	g.ind--
	for g.rng.Chance(1, 4) {
		g.line("} else if %s {", g.cond())
		g.ind++
		g.block(depth-1, 1+g.rng.Intn(2))
		g.ind--
	}
	if g.rng.Bool() {
		g.line("} else {")
		g.ind++
		g.block(depth-1, 1+g.rng.Intn(3))
		g.ind--
	}
	g.line("}")
}

func (g *wgen) stmtWhile(depth int) {
	if g.nctr >= len(g.f.ctrs) {
		g.stmtAssign()
		return
	}
	c := g.f.ctrs[g.nctr]
	g.nctr++
	lbl := ""
	if g.rng.Bool() {
		g.nlabel++
		lbl = fmt.Sprintf("l%d", g.nlabel)
	}
	head := "while"
	if lbl != "" {
		head = "while." + lbl
	}
	bound := g.rng.Range(1, 4)
	g.line("%s = 0", c)
	whileTrue := g.rng.Chance(2, 5)
	if whileTrue {
		g.line("%s true {", head)
	} else if g.rng.Bool() {
		g.line("%s %s < %d {", head, c, bound)
	} else {
		// a data-dependent condition; the counter still bounds the trip count
		g.line("%s (%s < %d) and (%s) {", head, c, bound, g.cond())
	}
	g.ind++
	// the counter goes first so that "continue" cannot skip it
	g.line("%s ~mod+= 1", c)
	if whileTrue {
		g.line("if %s > %d {", c, bound)
		if lbl != "" {
			g.line("    break.%s", lbl)
		} else {
			g.line("    break")
		}
		g.line("}")
	}
	g.loops = append(g.loops, lbl)
	g.block(depth-1, 1+g.rng.Intn(4))
	g.loops = g.loops[:len(g.loops)-1]
	g.ind--
	if lbl != "" {
		g.line("}.%s", lbl)
	} else {
		g.line("}")
	}
}

// genFunc generates one coroutine. Subs s<k> may call only subs with a larger index.
func genFunc(rng *hlib.Rand, name string, public bool, nsub, minSub int, size int, exec bool) *wfunc {
	f := &wfunc{name: name, public: public, hasArgA: !public, exec: exec, tag: "random"}
	for t := tU8; t <= tU64; t++ {
		for i := 0; i < 2; i++ {
			f.vars = append(f.vars, wvar{fmt.Sprintf("%c%d", "abcd"[t], i), t})
		}
	}
	for i := 0; i < 4; i++ {
		f.ctrs = append(f.ctrs, fmt.Sprintf("n%d", i))
	}
	g := &wgen{rng: rng, f: f, nsub: nsub, minSub: minSub, budget: size, exec: exec}
	g.ind = 1
	terminated := g.block(3, size)
	if !terminated && rng.Bool() {
		// fold some variables at the very end: a read far away from the writes
		for i := 0; i < 2; i++ {
			g.stmtFold()
		}
	}
	body := g.b.String()

	var b strings.Builder
	vis := "pri"
	if public {
		vis = "pub"
	}
	if f.hasArgA {
		fmt.Fprintf(&b, "%s func t.%s?(dst: base.io_writer, src: base.io_reader, a: base.u32) {\n", vis, name)
	} else {
		fmt.Fprintf(&b, "%s func t.%s?(dst: base.io_writer, src: base.io_reader) {\n", vis, name)
	}
	for _, v := range f.vars {
		fmt.Fprintf(&b, "    var %s : %s\n", v.name, wtypeName[v.t])
	}
	for _, c := range f.ctrs {
		fmt.Fprintf(&b, "    var %s : base.u32\n", c)
	}
	if g.usedSt {
		b.WriteString("    var st : base.status\n")
	}
	b.WriteString("\n")
	// no compile-time facts about the locals (see cond)
	for i, v := range f.vars {
		if v.t == tU64 {
			fmt.Fprintf(&b, "    %s = this.g1 >> %d\n", v.name, i)
		} else {
			fmt.Fprintf(&b, "    %s = ((this.g1 >> %d) & %s) as %s\n", v.name, i, mask(v.t), wtypeName[v.t])
		}
	}
	b.WriteString(body)
	b.WriteString("}\n")
	f.src = b.String()
	return f
}

// hand-written families aimed at the analysis' corner cases
func templateFuncs() []*wfunc {
	mk := func(name, tag, body string) *wfunc {
		return &wfunc{name: name, public: true, exec: true, tag: tag,
			src: "pub func t." + name + "?(dst: base.io_writer, src: base.io_reader) {\n" + body + "}\n"}
	}
	return []*wfunc{
		// a never-returning "header, then copy forever" filter: the loop has no exit
		mk("tdead0", "tmpl:dead-end-loop", `    var a : base.u8
    var b : base.u8
    var c : base.u8

    a = args.src.read_u8?()
    b = args.src.read_u8?()
    args.dst.write_u8?(a: a)
    args.dst.write_u8?(a: b)
    while true {
        c = args.src.read_u8?()
        args.dst.write_u8?(a: c ^ 0x55)
    }
`),
		mk("tdead1", "tmpl:dead-end-loop", `    var a : base.u32
    var c : base.u8

    a = args.src.read_u24le_as_u32?()
    c = args.src.read_u8?()
    this.acc = (a as base.u64)
    args.dst.write_u8?(a: ((a & 0xFF) as base.u8))
    while true {
        while true {
            yield? base."$short read"
            args.src.skip_u32?(n: 1)
        }
    }
`),
		// a variable only read inside a loop, after a suspension in the previous iteration
		mk("tloop0", "tmpl:loop-carried", `    var a : base.u8
    var n : base.u32
    var c : base.u8

    a = args.src.read_u8?()
    while n < 4 {
        n ~mod+= 1
        args.dst.write_u8?(a: a)
        c = args.src.read_u8?()
        args.dst.write_u8?(a: c)
    }
`),
		// continue to an outer loop carries a pending suspension to the outer head
		mk("tloop1", "tmpl:deep-continue", `    var a : base.u16
    var n : base.u32
    var m : base.u32
    var c : base.u8

    a = args.src.read_u16be?()
    while.outer n < 3 {
        n ~mod+= 1
        this.acc ~mod+= (a as base.u64)
        m = 0
        while m < 3 {
            m ~mod+= 1
            c = args.src.read_u8?()
            if (c & 1) <> 0 {
                continue.outer
            } else if (c & 2) <> 0 {
                break.outer
            }
            args.dst.write_u8?(a: c)
        }
        a ~mod+= 1
    }.outer
    args.dst.write_u8?(a: ((a & 0xFF) as base.u8))
`),
		// written in one branch only; the other branch keeps the value from before the suspension
		mk("tif0", "tmpl:branch-write", `    var a : base.u8
    var b : base.u8
    var c : base.u8

    a = args.src.read_u8?()
    b = args.src.read_u8?()
    if (b & 1) <> 0 {
        a = 7
    }
    c = args.src.read_u8?()
    args.dst.write_u8?(a: a)
    args.dst.write_u8?(a: b)
    args.dst.write_u8?(a: c)
`),
		// a nested coroutine call is re-issued after every suspension of the callee, with its
		// arguments evaluated again: a local that is only used in the argument must be saved
		// (liveness.go doExpr, allToStrong); the callee reads args.a before and after suspending
		{name: "ts0", public: false, hasArgA: true, exec: true, tag: "tmpl:nested-call-arg",
			src: `pri func t.ts0?(dst: base.io_writer, src: base.io_reader, a: base.u32) {
    var c : base.u8

    c = args.src.read_u8?()
    args.dst.write_u8?(a: ((args.a & 0xFF) as base.u8) ^ c)
    c = args.src.read_u8?()
    args.dst.write_u8?(a: ((args.a >> 8) & 0xFF) as base.u8)
    this.g1 ^= ((args.a as base.u64) << 8) | (c as base.u64)
    if c == 0xEE {
        return "#e2"
    }
}
`},
		mk("tcall0", "tmpl:nested-call-arg", `    var x : base.u32
    var y : base.u32

    y = args.src.read_u8_as_u32?()
    x = args.src.read_u16le_as_u32?()
    this.ts0?(dst: args.dst, src: args.src, a: x ~mod+ 0x0101)
    this.ts0?(dst: args.dst, src: args.src, a: y)
    args.dst.write_u8?(a: 0x7E)
`),
		// array-typed locals live across suspensions: saved and restored by memcpy (var.go
		// writeResumeSuspend1), one template per element width
		mk("tarr0", "tmpl:array-local", `    var a : array[4] base.u8
    var c : base.u8

    c = args.src.read_u8?()
    a[0] = c
    c = args.src.read_u8?()
    a[1] = c
    c = args.src.read_u8?()
    a[3] = c
    args.dst.write_u8?(a: a[0])
    args.dst.write_u8?(a: a[1])
    args.dst.write_u8?(a: a[3] ^ a[0])
    this.acc = (a[1] as base.u64) | ((a[2] as base.u64) << 8)
`),
		mk("tarr1", "tmpl:array-local", `    var w : array[2] base.u32
    var h : array[2] base.u16
    var q : array[2] base.u64
    var i : base.u32
    var c : base.u8

    w[0] = args.src.read_u24le_as_u32?()
    h[1] = args.src.read_u16be?()
    q[0] = args.src.read_u40le_as_u64?()
    while i < 2 {
        c = args.src.read_u8?()
        w[i] ~mod+= (c as base.u32)
        h[i] ^= (c as base.u16)
        q[i] ~mod+= (w[0] as base.u64)
        args.dst.write_u8?(a: ((w[i] >> 8) & 0xFF) as base.u8)
        i += 1
    }
    this.acc = (w[0] as base.u64) ^ ((w[1] as base.u64) << 32)
    this.g1 = (q[0] ~mod+ q[1]) ^ (h[0] as base.u64) ^ ((h[1] as base.u64) << 16)
    args.dst.write_u8?(a: (h[1] & 0xFF) as base.u8)
`),
		// every width, each read straddling whatever split is applied
		mk("twide0", "tmpl:all-widths", `    var x : base.u64
    var y : base.u32
    var z : base.u16

    z = args.src.read_u16le?()
    y = args.src.read_u24be_as_u32?()
    x = args.src.read_u40le_as_u64?()
    this.acc = x ^ (y as base.u64) ^ ((z as base.u64) << 40)
    x = args.src.read_u48be_as_u64?()
    this.g1 = x
    x = args.src.read_u56le_as_u64?()
    this.acc ~mod+= x
    x = args.src.read_u64be?()
    this.g1 ^= x
    y = args.src.read_u32le?()
    args.src.skip?(n: ((y & 7) as base.u64))
    z = args.src.read_u16be?()
    args.dst.write_u8?(a: ((z & 0xFF) as base.u8))
    args.dst.write_u8?(a: ((z >> 8) as base.u8))
`),
	}
}

// probe coroutines, one per read method (and skip / write_u8): used for the scratch-machine tie
func probeFuncs() []*wfunc {
	var out []*wfunc
	mk := func(name, body string) {
		out = append(out, &wfunc{name: name, public: true, exec: true, tag: "probe",
			src: "pub func t." + name + "?(dst: base.io_writer, src: base.io_reader) {\n" + body + "}\n"})
	}
	for _, m := range readMethodList {
		cast := "(x as base.u64)"
		if m.ret == tU64 {
			cast = "x"
		}
		mk("p_"+m.name, fmt.Sprintf("    var x : %s\n\n    x = args.src.%s?()\n    this.acc = %s\n", wtypeName[m.ret], m.name, cast))
	}
	// skip: the count comes from the first two bytes (LE), then skip?, then one marker read
	mk("p_skip", "    var n : base.u64\n    var c : base.u8\n\n    n = args.src.read_u16le_as_u64?()\n    args.src.skip?(n: n)\n    c = args.src.read_u8?()\n    this.acc = (c as base.u64)\n")
	mk("p_skip_u32", "    var n : base.u32\n    var c : base.u8\n\n    n = args.src.read_u16le_as_u32?()\n    args.src.skip_u32?(n: n)\n    c = args.src.read_u8?()\n    this.acc = (c as base.u64)\n")
	mk("p_skip1", "    var c : base.u8\n\n    args.src.skip_u32?(n: 1)\n    args.src.skip?(n: 1)\n    c = args.src.read_u8?()\n    this.acc = (c as base.u64)\n")
	// write_u8 of a local that is never used again (so it is not saved): the value must have been
	// taken before the suspension point
	mk("p_write_dead", "    var c : base.u8\n\n    c = args.src.read_u8?()\n    args.dst.write_u8?(a: c)\n")
	// write_u8: the value is computed from a local that is dead afterwards
	mk("p_write_u8", "    var c : base.u8\n    var d : base.u8\n\n    c = args.src.read_u8?()\n    d = args.src.read_u8?()\n    args.dst.write_u8?(a: c ~mod+ d)\n    args.dst.write_u8?(a: c ^ d)\n")
	return out
}

func pkgText(funcs []*wfunc) string {
	var b strings.Builder
	b.WriteString("pub status \"#e1\"\npub status \"#e2\"\n\n")
	b.WriteString("pub struct t?(\n        acc : base.u64,\n        g1  : base.u64,\n)\n\n")
	b.WriteString("pub func t.get_acc() base.u64 {\n    return this.acc\n}\n\n")
	b.WriteString("pub func t.get_g1() base.u64 {\n    return this.g1\n}\n\n")
	for _, f := range funcs {
		b.WriteString(f.src)
		b.WriteString("\n")
	}
	return b.String()
}

// genPackage: nPub random public coroutines + nSub private subs (+ templates and probes).
func genPackage(rng *hlib.Rand, nPub, nSub int, size int, withFixed bool) *wpkg {
	p := &wpkg{}
	if withFixed {
		p.funcs = append(p.funcs, probeFuncs()...)
		p.funcs = append(p.funcs, templateFuncs()...)
	}
	for i := 0; i < nPub; i++ {
		p.funcs = append(p.funcs, genFunc(rng.Fork(), fmt.Sprintf("f%d", i), true, nSub, 0, size, true))
	}
	for i := 0; i < nSub; i++ {
		p.funcs = append(p.funcs, genFunc(rng.Fork(), fmt.Sprintf("s%d", i), false, nSub, i+1, size/2+1, true))
	}
	p.text = pkgText(p.funcs)
	return p
}

func min(a, b int) int {
	if a < b {
		return a
	}
	return b
}
