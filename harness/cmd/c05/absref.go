package main

// Reference oracle for the liveness result, independent of liveness.go's
// algorithm and of the Lean model: build an explicit control-flow graph of the
// abstract body, run a plain two-valued "may have been suspended since the last
// write" forward data-flow to a fixed point (worklist over CFG nodes), and
// report a variable that is NOT saved (not in varResumables) and yet
//   - is read at a point that a suspension can reach without an intervening
//     write of it, or
//   - is an argument of a re-issued coroutine call (non-I/O receiver).

import (
	"fmt"
	"strconv"
	"strings"
)

type absEx struct {
	coro, io bool
	vars     []int
}

type absStmt struct {
	kind   byte // A X M I J R D W
	op     byte // A: e q o ; J: b c ; R: r y ; W: t f
	lhsVar int  // A: >= 0 when the LHS is a plain local
	lhsEx  *absEx
	ex     *absEx
	ex2    *absEx
	ex3    *absEx
	b1, b2 []*absStmt
	depth  int
}

type absParser struct {
	toks []string
	pos  int
}

func (p *absParser) peek() string {
	if p.pos < len(p.toks) {
		return p.toks[p.pos]
	}
	return ""
}
func (p *absParser) next() string { s := p.peek(); p.pos++; return s }
func (p *absParser) expect(s string) error {
	if g := p.next(); g != s {
		return fmt.Errorf("expected %q, got %q at token %d", s, g, p.pos-1)
	}
	return nil
}

func (p *absParser) ex() (*absEx, error) {
	if err := p.expect("("); err != nil {
		return nil, err
	}
	if err := p.expect("E"); err != nil {
		return nil, err
	}
	e := &absEx{}
	switch p.next() {
	case "n":
	case "c":
		e.coro = true
	case "ci":
		e.coro, e.io = true, true
	default:
		return nil, fmt.Errorf("bad E flags")
	}
	for p.peek() != ")" {
		i, err := strconv.Atoi(p.next())
		if err != nil {
			return nil, err
		}
		e.vars = append(e.vars, i)
	}
	p.next()
	return e, nil
}

func (p *absParser) exOpt() (*absEx, error) {
	if p.peek() == "-" {
		p.next()
		return nil, nil
	}
	return p.ex()
}

func (p *absParser) block() ([]*absStmt, error) {
	if err := p.expect("["); err != nil {
		return nil, err
	}
	var out []*absStmt
	for p.peek() != "]" {
		if p.peek() == "" {
			return nil, fmt.Errorf("unexpected end")
		}
		s, err := p.stmt()
		if err != nil {
			return nil, err
		}
		out = append(out, s)
	}
	p.next()
	return out, nil
}

func (p *absParser) stmt() (*absStmt, error) {
	if err := p.expect("("); err != nil {
		return nil, err
	}
	s := &absStmt{lhsVar: -1}
	k := p.next()
	if len(k) != 1 {
		return nil, fmt.Errorf("bad statement kind %q", k)
	}
	s.kind = k[0]
	var err error
	switch s.kind {
	case 'A':
		s.op = p.next()[0]
		switch {
		case p.peek() == "-":
			p.next()
		case p.peek() == "(" && p.pos+1 < len(p.toks) && p.toks[p.pos+1] == "V":
			p.next()
			p.next()
			if s.lhsVar, err = strconv.Atoi(p.next()); err != nil {
				return nil, err
			}
			if err = p.expect(")"); err != nil {
				return nil, err
			}
		default:
			if s.lhsEx, err = p.ex(); err != nil {
				return nil, err
			}
		}
		if s.ex, err = p.ex(); err != nil {
			return nil, err
		}
	case 'X':
		if s.ex, err = p.ex(); err != nil {
			return nil, err
		}
	case 'M':
		if s.ex, err = p.ex(); err != nil {
			return nil, err
		}
		if s.ex2, err = p.exOpt(); err != nil {
			return nil, err
		}
		if s.ex3, err = p.exOpt(); err != nil {
			return nil, err
		}
		if s.b1, err = p.block(); err != nil {
			return nil, err
		}
	case 'I':
		if s.ex, err = p.ex(); err != nil {
			return nil, err
		}
		if s.b1, err = p.block(); err != nil {
			return nil, err
		}
		if s.b2, err = p.block(); err != nil {
			return nil, err
		}
	case 'J':
		s.op = p.next()[0]
		if s.depth, err = strconv.Atoi(p.next()); err != nil {
			return nil, err
		}
	case 'R':
		s.op = p.next()[0]
		if s.ex, err = p.ex(); err != nil {
			return nil, err
		}
	case 'D':
		if s.lhsVar, err = strconv.Atoi(p.next()); err != nil {
			return nil, err
		}
	case 'W':
		s.op = p.next()[0]
		if s.ex, err = p.ex(); err != nil {
			return nil, err
		}
		if s.b1, err = p.block(); err != nil {
			return nil, err
		}
	default:
		return nil, fmt.Errorf("bad statement kind %q", k)
	}
	if err := p.expect(")"); err != nil {
		return nil, err
	}
	return s, nil
}

func parseAbs(body string) ([]*absStmt, error) {
	p := &absParser{toks: strings.Fields(body)}
	b, err := p.block()
	if err != nil {
		return nil, err
	}
	if p.pos != len(p.toks) {
		return nil, fmt.Errorf("trailing tokens")
	}
	return b, nil
}

// ---- CFG

type absEv struct {
	kind byte // r h w s
	v    int
}

type cfgNode struct {
	evs   []absEv
	succ  []int
	descr string
}

type cfgBuilder struct {
	nodes []*cfgNode
	heads []int // loop head node per enclosing loop (innermost last)
	exits []int
	final int
}

func (c *cfgBuilder) node(descr string) int {
	c.nodes = append(c.nodes, &cfgNode{descr: descr})
	return len(c.nodes) - 1
}
func (c *cfgBuilder) edge(a, b int) { c.nodes[a].succ = append(c.nodes[a].succ, b) }

func exEvents(e *absEx, plain bool) []absEv {
	if e == nil {
		return nil
	}
	var out []absEv
	strong := e.coro && !e.io && !plain
	for _, v := range e.vars {
		if strong {
			out = append(out, absEv{'h', v})
		} else {
			out = append(out, absEv{'r', v})
		}
	}
	if e.coro && !plain {
		out = append(out, absEv{'s', 0})
	}
	return out
}

// emit appends the statements after node cur; returns the fall-through node or -1.
func (c *cfgBuilder) emit(b []*absStmt, cur int) int {
	for _, s := range b {
		if cur < 0 {
			return -1 // unreachable rest
		}
		n := c.nodes[cur]
		switch s.kind {
		case 'A':
			n.evs = append(n.evs, exEvents(s.ex, s.op == 'q')...)
			if s.lhsEx != nil {
				n.evs = append(n.evs, exEvents(s.lhsEx, false)...)
			}
			if s.lhsVar >= 0 {
				if s.op == 'o' {
					n.evs = append(n.evs, absEv{'r', s.lhsVar})
				}
				n.evs = append(n.evs, absEv{'w', s.lhsVar})
			}
		case 'X':
			n.evs = append(n.evs, exEvents(s.ex, false)...)
		case 'D':
			n.evs = append(n.evs, absEv{'w', s.lhsVar})
		case 'M':
			n.evs = append(n.evs, exEvents(s.ex, false)...)
			n.evs = append(n.evs, exEvents(s.ex2, false)...)
			n.evs = append(n.evs, exEvents(s.ex3, false)...)
			cur = c.emit(s.b1, cur)
		case 'I':
			n.evs = append(n.evs, exEvents(s.ex, false)...)
			t0, e0 := c.node("then"), c.node("else")
			c.edge(cur, t0)
			c.edge(cur, e0)
			t1 := c.emit(s.b1, t0)
			e1 := c.emit(s.b2, e0)
			if t1 < 0 && e1 < 0 {
				cur = -1
			} else {
				j := c.node("join")
				if t1 >= 0 {
					c.edge(t1, j)
				}
				if e1 >= 0 {
					c.edge(e1, j)
				}
				cur = j
			}
		case 'J':
			k := len(c.heads) - 1 - s.depth
			if k >= 0 {
				if s.op == 'b' {
					c.edge(cur, c.exits[k])
				} else {
					c.edge(cur, c.heads[k])
				}
			}
			cur = -1
		case 'R':
			n.evs = append(n.evs, exEvents(s.ex, false)...)
			if s.op == 'y' {
				n.evs = append(n.evs, absEv{'s', 0})
			} else {
				c.edge(cur, c.final)
				cur = -1
			}
		case 'W':
			head, exit := c.node("while-head"), c.node("while-exit")
			c.edge(cur, head)
			c.nodes[head].evs = exEvents(s.ex, false)
			if s.op != 't' {
				c.edge(head, exit)
			}
			body := c.node("while-body")
			c.edge(head, body)
			c.heads = append(c.heads, head)
			c.exits = append(c.exits, exit)
			end := c.emit(s.b1, body)
			c.heads = c.heads[:len(c.heads)-1]
			c.exits = c.exits[:len(c.exits)-1]
			if end >= 0 {
				c.edge(end, head)
			}
			cur = exit
		}
	}
	return cur
}

// refCheck returns (-1, "") when no unsaved variable can be observed stale, else the
// variable index and a description of the offending event.
func refCheck(prog []*absStmt, nvars int, resumable map[int]bool) (int, string) {
	c := &cfgBuilder{}
	c.final = c.node("final")
	entry := c.node("entry")
	if end := c.emit(prog, entry); end >= 0 {
		c.edge(end, c.final)
	}
	in := make([][]bool, len(c.nodes))
	seen := make([]bool, len(c.nodes))
	in[entry] = make([]bool, nvars)
	seen[entry] = true
	work := []int{entry}
	for len(work) > 0 {
		id := work[len(work)-1]
		work = work[:len(work)-1]
		st := append([]bool(nil), in[id]...)
		for _, e := range c.nodes[id].evs {
			switch e.kind {
			case 'r':
				if e.v < nvars && st[e.v] && !resumable[e.v] {
					return e.v, "it is read after a suspension with no write in between (CFG node " + c.nodes[id].descr + ")"
				}
			case 'h':
				if e.v < nvars && !resumable[e.v] {
					return e.v, "it is an argument of a coroutine call that is re-issued on resumption"
				}
			case 'w':
				if e.v < nvars {
					st[e.v] = false
				}
			case 's':
				for i := range st {
					st[i] = true
				}
			}
		}
		for _, s := range c.nodes[id].succ {
			changed := false
			if !seen[s] {
				seen[s] = true
				in[s] = append([]bool(nil), st...)
				changed = true
			} else {
				for i, b := range st {
					if b && !in[s][i] {
						in[s][i] = true
						changed = true
					}
				}
			}
			if changed {
				work = append(work, s)
			}
		}
	}
	return -1, ""
}
