// C05 harness: coroutine results do not depend on where the I/O streams are split.
//
//	A. liveness tie: internal/cgen findVars (real) vs Model/Liveness.lean on every coroutine
//	   of std/ and of generated packages, plus an independent CFG-based reference oracle.
//	B. scratch machines: compiled probe coroutines (one per read method, skip, write_u8) driven
//	   with every split pattern vs Model/Scratch.lean.
//	C. generated coroutine programs, compiled (ASan+UBSan and gcc -O2): one-shot vs every single
//	   source split vs every single destination split vs random multi-splits.
//	D. std decoders through the shared compiled driver (harness/cdrv): same oracle.
//	N. (third part of D, stdnoic.go) image decoders driven by decode_frame_config calls WITHOUT a prior
//	   decode_image_config (scripted `proto` runs): every split plan vs everything at once.
//	H. (second part of D, stdhist.go) decoders that keep their own history ring: outputs several
//	   times the ring, destination drained and compacted between calls around the ring thresholds.
package main

import (
	"fmt"
	"os"
	"strings"
	"time"

	"wvh/hlib"
)

func main() {
	r := hlib.Start("C05")
	if r.IsGen() {
		r.WriteGen("C05_Tables.lean", genTables())
		return
	}
	only := os.Getenv("C05_ONLY") // debugging aid: comma list of sections
	want := func(s string) bool { return only == "" || strings.Contains(","+only+",", ","+s+",") }

	t0 := time.Now()
	tc, err := setupToolchain(r.Repo)
	if err != nil {
		fmt.Fprintln(os.Stderr, "c05: toolchain:", err)
		os.Exit(2)
	}
	defer tc.cleanup()

	lap := func(what string) {
		r.Extra("seconds:"+what, time.Since(t0).Seconds())
		t0 = time.Now()
	}
	lap("toolchain")
	if want("A") {
		sectionA(r, tc)
		lap("A")
	}
	if want("B") || want("C") {
		sectionBC(r, tc, want("B"), want("C"))
		lap("BC")
	}
	if want("D") || want("H") || want("N") {
		sectionD(r, want("D"), want("H"), want("D") || want("N"))
		lap("D")
	}
	r.Finish("A: every coroutine of std/ and of generated packages (non-trivial = has a suspension point and a local; distinct by abstract body). " +
		"B: every read method x byte strings x all compositions of the length; skip/write_u8 likewise (distinct by method+split). " +
		"C: generated F3s programs x inputs x all single source splits, all single destination splits, random multi-splits (distinct by program+input+split). " +
		"D: std decoders x valid/truncated/corrupted inputs x splits (distinct by codec+input+split). " +
		"N: image decoders x test/data files x source plans, decode_frame_config without decode_image_config (distinct by codec+input+plan). " +
		"H: decoders with their own history ring x inputs of several ring lengths with long-distance back-references x destination/source plans around the ring thresholds (distinct by codec+input+plan).")
}
