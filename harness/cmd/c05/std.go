package main

// Section D: the compiled standard library (regenerated from the working tree) through the
// shared driver harness/cdrv: one-shot vs every single source split vs single destination
// splits vs random multi-splits, for valid, truncated and corrupted inputs.

import (
	"bytes"
	"compress/flate"
	"compress/gzip"
	"compress/lzw"
	"compress/zlib"
	"fmt"
	"image"
	"image/color"
	"image/gif"
	"image/jpeg"
	"image/png"
	"os"
	"path/filepath"
	"sort"
	"strings"
	"sync"
	"time"

	cgen "github.com/google/wuffs/lang/verifc05"

	"wvh/cdrv"
	"wvh/hlib"
)

type stdInput struct {
	codec string
	name  string
	data  []byte
	kind  string // valid | truncated | corrupted
}

var extCodec = map[string]string{
	".bz2": "bzip2", ".gz": "gzip", ".xz": "xz", ".lzma": "lzma", ".lz": "lzip", ".zlib": "zlib", ".deflate": "deflate",
	".png": "png", ".gif": "gif", ".jpeg": "jpeg", ".bmp": "bmp", ".nie": "nie", ".qoi": "qoi", ".tga": "targa",
	".wbmp": "wbmp", ".pgm": "netpbm", ".ppm": "netpbm", ".webp": "webp", ".pkm": "etc2", ".handsum": "handsum",
	".th": "thumbhash", ".json": "json", ".cbor": "cbor", ".giflzw": "lzw",
}

func testDataInputs(repo string, maxLen int, perCodec int) []stdInput {
	var files []string
	for _, pat := range []string{"*", "artificial-*/*"} {
		fs, _ := filepath.Glob(filepath.Join(repo, "test", "data", pat))
		files = append(files, fs...)
	}
	sort.Strings(files)
	type cand struct {
		name string
		data []byte
	}
	by := map[string][]cand{}
	for _, f := range files {
		codec, ok := extCodec[filepath.Ext(f)]
		if !ok {
			continue
		}
		st, err := os.Stat(f)
		if err != nil || st.IsDir() || st.Size() == 0 || st.Size() > int64(maxLen) {
			continue
		}
		b, err := os.ReadFile(f)
		if err != nil {
			continue
		}
		by[codec] = append(by[codec], cand{strings.TrimPrefix(f, filepath.Join(repo, "test", "data")+"/"), b})
	}
	var out []stdInput
	var codecs []string
	for c := range by {
		codecs = append(codecs, c)
	}
	sort.Strings(codecs)
	for _, c := range codecs {
		cs := by[c]
		sort.SliceStable(cs, func(i, j int) bool { return len(cs[i].data) < len(cs[j].data) })
		// spread over the size range: smallest, largest, and evenly between
		n := perCodec
		if n > len(cs) {
			n = len(cs)
		}
		for i := 0; i < n; i++ {
			k := i * (len(cs) - 1) / max(n-1, 1)
			if n == 1 {
				k = 0
			}
			out = append(out, stdInput{c, cs[k].name, cs[k].data, "valid"})
		}
	}
	return out
}

func max(a, b int) int {
	if a > b {
		return a
	}
	return b
}

func someText(rng *hlib.Rand, n int) []byte {
	words := []string{"the ", "quick ", "brown ", "fox ", "abracadabra ", "wuffs ", "0123456789", "\n", "zzzzzzzzzzzzzzzz", "coroutine "}
	var b bytes.Buffer
	for b.Len() < n {
		if rng.Chance(1, 6) {
			b.Write(rng.Bytes(rng.Range(1, 12)))
		} else {
			b.WriteString(words[rng.Intn(len(words))])
		}
	}
	return b.Bytes()[:n]
}

func someImage(rng *hlib.Rand, w, h int, kind int) image.Image {
	switch kind {
	case 0:
		m := image.NewRGBA(image.Rect(0, 0, w, h))
		for y := 0; y < h; y++ {
			for x := 0; x < w; x++ {
				m.Set(x, y, color.RGBA{uint8(x * 17), uint8(y * 29), uint8(rng.Intn(256)), 255})
			}
		}
		return m
	case 1:
		m := image.NewGray(image.Rect(0, 0, w, h))
		for i := range m.Pix {
			m.Pix[i] = uint8(i*7) ^ uint8(rng.Intn(16))
		}
		return m
	default:
		pal := color.Palette{color.RGBA{0, 0, 0, 255}, color.RGBA{255, 0, 0, 255}, color.RGBA{0, 255, 0, 255}, color.RGBA{0, 0, 255, 255},
			color.RGBA{255, 255, 0, 255}, color.RGBA{255, 255, 255, 255}, color.RGBA{9, 99, 199, 255}, color.RGBA{0, 0, 0, 0}}
		m := image.NewPaletted(image.Rect(0, 0, w, h), pal)
		for i := range m.Pix {
			m.Pix[i] = uint8((i/3 + rng.Intn(2)) % len(pal))
		}
		return m
	}
}

// encoderInputs: valid streams from Go's encoders.
func encoderInputs(rng *hlib.Rand, n int) []stdInput {
	var out []stdInput
	add := func(codec, name string, b []byte) { out = append(out, stdInput{codec, name, b, "valid"}) }
	for i := 0; i < n; i++ {
		plain := someText(rng, rng.Range(40, 1400))
		level := []int{flate.HuffmanOnly, flate.BestSpeed, flate.BestCompression, flate.NoCompression}[i%4]
		var b bytes.Buffer
		fw, _ := flate.NewWriter(&b, level)
		fw.Write(plain)
		fw.Close()
		add("deflate", fmt.Sprintf("go-flate-l%d-%d", level, i), append([]byte(nil), b.Bytes()...))
		b.Reset()
		zw, _ := zlib.NewWriterLevel(&b, level)
		zw.Write(plain)
		zw.Close()
		add("zlib", fmt.Sprintf("go-zlib-l%d-%d", level, i), append([]byte(nil), b.Bytes()...))
		b.Reset()
		gw, _ := gzip.NewWriterLevel(&b, level)
		gw.Name = "n.txt"
		gw.Comment = "c"
		gw.Extra = []byte{1, 2, 3, 4}
		gw.Write(plain)
		gw.Close()
		add("gzip", fmt.Sprintf("go-gzip-l%d-%d", level, i), append([]byte(nil), b.Bytes()...))
		b.Reset()
		lw := lzw.NewWriter(&b, lzw.LSB, 8)
		lw.Write(plain)
		lw.Close()
		add("lzw", fmt.Sprintf("go-lzw-%d", i), append([]byte(nil), b.Bytes()...))
		b.Reset()
		w, h := rng.Range(3, 20), rng.Range(3, 20)
		png.Encode(&b, someImage(rng, w, h, i%3))
		add("png", fmt.Sprintf("go-png-%dx%d-k%d-%d", w, h, i%3, i), append([]byte(nil), b.Bytes()...))
		b.Reset()
		jpeg.Encode(&b, someImage(rng, w, h, i%2), &jpeg.Options{Quality: []int{30, 75, 95}[i%3]})
		add("jpeg", fmt.Sprintf("go-jpeg-%dx%d-k%d-%d", w, h, i%2, i), append([]byte(nil), b.Bytes()...))
		b.Reset()
		g := &gif.GIF{}
		for f := 0; f < 1+i%3; f++ {
			g.Image = append(g.Image, someImage(rng, w, h, 2).(*image.Paletted))
			g.Delay = append(g.Delay, 3)
		}
		gif.EncodeAll(&b, g)
		add("gif", fmt.Sprintf("go-gif-%dx%d-f%d-%d", w, h, 1+i%3, i), append([]byte(nil), b.Bytes()...))
		// netpbm is simple enough to write by hand
		pix := rng.Bytes(w * h * 3)
		add("netpbm", fmt.Sprintf("ppm-%dx%d-%d", w, h, i), append([]byte(fmt.Sprintf("P6\n%d %d\n255\n", w, h)), pix...))
	}
	return out
}

func derived(rng *hlib.Rand, in []stdInput) []stdInput {
	var out []stdInput
	for _, x := range in {
		out = append(out, x)
		if len(x.data) < 4 {
			continue
		}
		cut := rng.Range(1, len(x.data)-1)
		out = append(out, stdInput{x.codec, x.name + fmt.Sprintf("[:%d]", cut), append([]byte(nil), x.data[:cut]...), "truncated"})
		c := append([]byte(nil), x.data...)
		p := rng.Intn(len(c))
		c[p] ^= byte(1 << uint(rng.Intn(8)))
		out = append(out, stdInput{x.codec, x.name + fmt.Sprintf("[^%d]", p), c, "corrupted"})
	}
	return out
}

type stdRes struct {
	raw    string
	crash  string
	status string
	ri     uint64
	out    string
	extra  string // w,h,frames,fdigest
	checks string
}

func parseStd(line string, err error) stdRes {
	if err != nil {
		if ce, ok := err.(*cdrv.CrashError); ok {
			return stdRes{raw: line, crash: ce.Kind()}
		}
		return stdRes{raw: line, crash: "error:" + err.Error()}
	}
	res, perr := cdrv.ParseResult(line)
	if perr != nil {
		return stdRes{raw: line, crash: "unparsable"}
	}
	o := res.OutHex
	if o == "" {
		o = res.OutDigest
	}
	return stdRes{raw: line, status: res.Status, ri: res.Ri, out: fmt.Sprintf("%d:%s", res.OutLen, o),
		extra:  fmt.Sprintf("w=%s h=%s frames=%s fdigest=%s", res.KV["w"], res.KV["h"], res.KV["frames"], res.KV["fdigest"]),
		checks: strings.Join(res.Checks, ",")}
}

func (a stdRes) isError() bool { return strings.HasPrefix(a.status, "#") }

// sameStd is the property's oracle. tokens: for token decoders (json, cbor) only the final
// status and the consumed count are compared: how a long string or number is cut into a chain
// of "continued" tokens legitimately follows the buffer boundaries.
func sameStd(a, b stdRes, tokens bool) (bool, string) {
	if tokens && a.crash == "" && b.crash == "" {
		switch {
		case a.status != b.status:
			return false, "final status differs"
		case !a.isError() && a.ri != b.ri:
			return false, "consumed-byte count differs (final status is not an error)"
		}
		return true, ""
	}
	switch {
	case a.crash != "" || b.crash != "":
		if a.crash == b.crash {
			return true, ""
		}
		return false, "one run crashed (" + a.crash + " / " + b.crash + ")"
	case a.status != b.status:
		return false, "final status differs"
	case a.out != b.out:
		return false, "output bytes differ"
	case a.extra != b.extra:
		return false, "observable state (image size, frame count, per-frame pixel digests) differs"
	case !a.isError() && a.ri != b.ri:
		return false, "consumed-byte count differs (final status is not an error)"
	}
	return true, ""
}

func sectionD(r *hlib.Run, general, hist, noic bool) {
	defer cdrv.Cleanup()
	// quick tier: the gcc -O2 build only (the sanitizer build of the whole library takes minutes
	// on a loaded machine; sections B and C run under ASan+UBSan in both tiers)
	fls := []cdrv.Flavour{cdrv.PlainGcc}
	if r.Thorough {
		fls = append(fls, cdrv.AsanUbsan)
	}
	ds, errs := cdrv.BuildAll(r.Repo, fls...)
	for fl, err := range errs {
		if err != nil {
			// the working tree does not regenerate / compile std: nothing to compare, and not silent
			r.Fail("std-does-not-build:"+string(fl), "the standard library regenerated from the working tree does not build ("+string(fl)+")",
				firstN(err.Error(), 4000))
			return
		}
	}
	rng := r.Rand.Fork()
	hrng := r.Rand.Fork()
	nrng := r.Rand.Fork()
	maxLen, perCodec, nEnc, maxPoints := 900, 1, 1, 48
	if r.Thorough {
		maxLen, perCodec, nEnc, maxPoints = 6000, 8, 10, 1<<30
	}
	inputs := derived(rng, append(testDataInputs(r.Repo, maxLen, perCodec), encoderInputs(rng, nEnc)...))
	codecsLine, _ := ds[cdrv.PlainGcc].Run("codecs")
	have := map[string]byte{}
	for _, f := range strings.Fields(codecsLine) {
		if kv := strings.SplitN(f, ":", 2); len(kv) == 2 && len(kv[1]) == 1 {
			have[kv[0]] = kv[1][0]
		}
	}

	if hist {
		// second part: decoders that keep their own history (stdhist.go); its own generator, so
		// that the general sweep's choices do not depend on it
		defer func() {
			histSweep(r, ds, fls, have, hrng)
			for _, d := range ds {
				d.Close()
			}
		}()
	}
	if noic {
		// third part: image decoders without a prior decode_image_config (stdnoic.go)
		tN := time.Now()
		noicSweep(r, ds, fls, have, nrng)
		r.Extra("seconds:D-part-N", time.Since(tN).Seconds())
	}
	if !general {
		return
	}

	type job struct {
		in    stdInput
		fl    cdrv.Flavour
		cmds  []string
		kinds []string
		res   []stdRes
	}
	var jobs []*job
	const big = "99999999"
	for _, in := range inputs {
		kind, ok := have[in.codec]
		if !ok {
			r.Count("D:codec-not-in-snapshot:" + in.codec)
			continue
		}
		hasDst := kind == 'T' || kind == 'K'
		// std/lzma (and lzip, xz on top of it) has a known defect (KNOWN_FINDINGS, key
		// split-dependent:lzma-dst-reused-after-replacement): a destination buffer that is
		// replaced (no history retained, as dst_history_retain_length() == 0 allows) and then
		// filled over more than one call. The general sweep therefore never combines source
		// splits with destination splits for these three; the defect has its own run below.
		lzmaFamily := in.codec == "lzma" || in.codec == "lzip" || in.codec == "xz"
		hex := hlib.Hex(in.data)
		pre := "run " + in.codec + " "
		// std/lzma had a second defect (KNOWN_FINDINGS, fixed: fixes/C05-lzma-short-workbuf-gate.patch; was key
		// split-dependent:lzma-bad-workbuf-length-on-suspension): with a work buffer shorter than
		// dict_size + 273 (which is what workbuf_len() reports until the dictionary size is known;
		// "$short workbuf" is how the caller learns the real size) transform_io answered
		// "#base: bad workbuf length" if it suspended after having written a byte and before
		// reaching its "$short workbuf" yield. The general sweep gives these three codecs a work
		// buffer that is large enough from the start (the same for one-shot and split runs); runs
		// with a lazily sized one (work=auto) are added below and in stdhist.go, and are strict.
		if lzmaFamily {
			pre += "work=16778240 "
		}
		n := len(in.data)
		for _, fl := range fls {
			j := &job{in: in, fl: fl}
			add := func(kind, opts string) {
				j.cmds = append(j.cmds, pre+opts+hex)
				j.kinds = append(j.kinds, kind)
			}
			add("oneshot", "")
			// every single split point (quick tier: every point of the first 24 bytes, where the
			// headers are, then evenly spaced points; the sanitizer build samples)
			points := maxPoints
			if fl == cdrv.AsanUbsan {
				points = 16
			}
			stride := 1
			if n > points {
				stride = (n + points - 1) / points
			}
			for k := 1; k < n; k++ {
				if (k < 24 && fl == cdrv.PlainGcc) || k%stride == 0 {
					add("src1", fmt.Sprintf("src=%d,%s ", k, big))
				}
			}
			add("src-bytewise", "src=1 ")
			if hasDst {
				add("dst-bytewise", "dst=1 ")
				if !lzmaFamily {
					add("both-bytewise", "src=1 dst=1 ")
				} else if in.kind == "valid" {
					add("known:lzma-dst-reuse", "src=64 dst=300 ")
				}
			}
			if lzmaFamily && in.kind == "valid" && n >= 8 {
				// work=auto: as small as workbuf_len() allows, grown on "$short workbuf"
				j.cmds = append(j.cmds, fmt.Sprintf("run %s src=%d,%s %s", in.codec, n/2, big, hex))
				j.kinds = append(j.kinds, "lzma-workbuf-auto")
				j.cmds = append(j.cmds, fmt.Sprintf("run %s src=%d,%s %s", in.codec, 28, big, hex))
				j.kinds = append(j.kinds, "lzma-workbuf-auto")
				// since the repair: also bytewise, source (one destination that holds everything) and destination
				j.cmds = append(j.cmds, fmt.Sprintf("run %s src=1 dst=1048576 %s", in.codec, hex))
				j.kinds = append(j.kinds, "lzma-workbuf-auto")
				j.cmds = append(j.cmds, fmt.Sprintf("run %s dst=1 %s", in.codec, hex))
				j.kinds = append(j.kinds, "lzma-workbuf-auto")
			}
			nMulti := 4
			if !r.Thorough {
				nMulti = 3
			}
			if fl == cdrv.AsanUbsan && !r.Thorough {
				nMulti = 2
			}
			for m := 0; m < nMulti; m++ {
				var ss, dd []string
				for i := 0; i < 40; i++ {
					ss = append(ss, fmt.Sprint(rng.Range(1, 1+n/8)))
					dd = append(dd, fmt.Sprint(rng.Range(1, 40)))
				}
				opt := "src=" + strings.Join(ss, ",") + " "
				if hasDst && m%2 == 1 && !lzmaFamily {
					opt += "dst=" + strings.Join(dd, ",") + " "
				}
				add("multi", opt)
			}
			jobs = append(jobs, j)
		}
	}

	// run, 8 processes per flavour
	type item struct {
		j *job
		k int
	}
	work := map[cdrv.Flavour][]item{}
	for _, j := range jobs {
		j.res = make([]stdRes, len(j.cmds))
		for k := range j.cmds {
			work[j.fl] = append(work[j.fl], item{j, k})
		}
	}
	runAll := func() {
		var wg sync.WaitGroup
		for fl, items := range work {
			var mu sync.Mutex
			next := 0
			for w := 0; w < 8; w++ {
				wg.Add(1)
				go func(fl cdrv.Flavour, items []item) {
					defer wg.Done()
					d := ds[fl].Spawn()
					defer d.Close()
					for {
						mu.Lock()
						i := next
						next++
						mu.Unlock()
						if i >= len(items) {
							return
						}
						it := items[i]
						if it.j.res[it.k].raw != "" || it.j.res[it.k].crash != "" {
							continue
						}
						it.j.res[it.k] = parseStd(d.Run(it.j.cmds[it.k]))
					}
				}(fl, items)
			}
		}
		wg.Wait()
	}
	runAll()
	// second pass: single destination splits, now that the one-shot output length is known
	work = map[cdrv.Flavour][]item{}
	for _, j := range jobs {
		if k := have[j.in.codec]; !(k == 'T' || k == 'K') {
			continue
		}
		one := j.res[0]
		var outLen int
		fmt.Sscanf(one.out, "%d:", &outLen)
		unit := 1
		if have[j.in.codec] == 'K' {
			outLen /= 8 // tokens
		}
		stride := 1 + outLen/48
		if !r.Thorough {
			stride = 1 + outLen/32
		}
		if j.fl == cdrv.AsanUbsan {
			stride = 1 + outLen/12
		}
		for k := unit; k < outLen; k += stride {
			wopt := ""
			if c := j.in.codec; c == "lzma" || c == "lzip" || c == "xz" {
				wopt = "work=16778240 "
			}
			j.cmds = append(j.cmds, fmt.Sprintf("run %s %sdst=%d,65536 %s", j.in.codec, wopt, k, hlib.Hex(j.in.data)))
			j.kinds = append(j.kinds, "dst1")
			j.res = append(j.res, stdRes{})
			work[j.fl] = append(work[j.fl], item{j, len(j.cmds) - 1})
		}
	}
	runAll()

	oneshot := map[string]stdRes{}
	for _, j := range jobs {
		one := j.res[0]
		key := j.in.codec + "/" + j.in.name + "/" + hlib.Hex(j.in.data)[:min(len(hlib.Hex(j.in.data)), 64)] + fmt.Sprint(len(j.in.data))
		if prev, ok := oneshot[key]; ok {
			if same, why := sameStd(prev, one, have[j.in.codec] == 'K'); !same && prev.crash == "" && one.crash == "" {
				r.Fail("flavour-mismatch:"+j.in.codec, "gcc -O2 and ASan/UBSan builds of std disagree on a one-shot run: "+why,
					fmt.Sprintf("%s\n-> %s\n-> %s", j.cmds[0], prev.raw, one.raw))
			}
		} else {
			oneshot[key] = one
			r.Count("D:inputs:" + j.in.codec + ":" + j.in.kind)
			st := one.status
			if one.crash != "" {
				st = "crash"
			} else if one.isError() {
				st = "error"
			}
			r.Count("D:oneshot-status:" + st)
		}
		if one.crash != "" {
			// a crash with everything available in one call is not a question of splitting (memory
			// safety / UB of the generated C is C03's and C09's subject): counted, reported, skipped
			r.Count("D:oneshot-crash-not-this-property:" + j.in.codec + ":" + one.crash)
			r.Note(fmt.Sprintf("one-shot run crashed (%s, %s build), skipped: %s", one.crash, j.fl, firstN(j.cmds[0], 200)))
			continue
		}
		for k := 1; k < len(j.cmds); k++ {
			rr := j.res[k]
			r.Count("D:runs:" + j.kinds[k])
			r.Nontrivial(fmt.Sprintf("D:%s:%s:%s:%d", j.in.codec, j.in.name, j.kinds[k], k))
			if rr.checks != "" {
				r.Count("D:io-contract-flag")
			}
			if same, why := sameStd(one, rr, have[j.in.codec] == 'K'); !same {
				key := "split-dependent:" + j.in.codec + ":" + j.in.kind
				if j.kinds[k] == "known:lzma-dst-reuse" {
					key = "split-dependent:lzma-dst-reused-after-replacement"
				} else if j.kinds[k] == "lzma-workbuf-auto" && rr.status == "#base:_bad_workbuf_length" {
					key = "split-dependent:lzma-bad-workbuf-length-on-suspension"
				} else if j.in.codec == "xz" && xzHasNonFinalFilters(j.in.data) && rr.crash == "" {
					// third known defect: std/xz's BCJ (non-final) filters mis-convert around a
					// suspension (KNOWN_FINDINGS); every split of such a file may show it
					key = "split-dependent:xz-bcj-filter-across-suspension"
				} else if rr.crash != "" {
					key = "crash:" + j.in.codec + ":" + rr.crash
				}
				r.Fail(key, fmt.Sprintf("std/%s (%s input %s): %s (%s run, %s build)", j.in.codec, j.in.kind, j.in.name, why, j.kinds[k], j.fl),
					fmt.Sprintf("one-shot: %s\n  -> %s\n%s: %s\n  -> %s", j.cmds[0], one.raw, j.kinds[k], j.cmds[k], rr.raw))
				if !strings.HasPrefix(j.kinds[k], "known:") {
					break
				}
			}
		}
	}
	if !hist {
		for _, d := range ds {
			d.Close()
		}
	}
}

// xzHasNonFinalFilters: the first block header of an xz file lists more than one filter (the
// last one is LZMA2, the others are BCJ / delta filters applied to its output).
func xzHasNonFinalFilters(b []byte) bool {
	return len(b) > 14 && bytes.Equal(b[:6], []byte{0xFD, '7', 'z', 'X', 'Z', 0}) && b[13]&3 != 0
}

// genTables writes Gen/C05_Tables.lean: builtin.go's readMethods rows.
func genTables() string {
	var b strings.Builder
	b.WriteString("/- REGENERATED by `wvh_c05 -mode gen` from /repo/internal/cgen/builtin.go (readMethods). Do not edit. -/\n")
	b.WriteString("import WuffsVerif.Model.Scratch\n\nnamespace WuffsVerif.Gen.C05\nopen WuffsVerif.Scratch\n\n")
	b.WriteString("/-- `readMethods`: (name, {size, n, endianness}) for every `io_reader.read_…?` built-in. -/\n")
	b.WriteString("def readMethods : List (String × RdMethod) := [\n")
	rows := cgen.ReadMethods()
	for i, m := range rows {
		be := "false"
		if m.Endianness == 'b' {
			be = "true"
		}
		sep := ","
		if i == len(rows)-1 {
			sep = ""
		}
		fmt.Fprintf(&b, "  (%q, ⟨%d, %d, %s⟩)%s\n", m.Name, m.Size, m.N, be, sep)
	}
	b.WriteString("]\n\nend WuffsVerif.Gen.C05\n")
	return b.String()
}
