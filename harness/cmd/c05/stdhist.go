package main

// Section D, second part ("H"): decoders that keep their OWN history of the output.
//
// std/deflate (and zlib, gzip, png on top of it), std/lzma (xz, lzip), std/lzw (gif) and
// std/bzip2 answer dst_history_retain_length() == 0: the caller may drain and compact the
// destination buffer between calls, and back-references that reach behind the current buffer
// are served from a ring the decoder keeps itself (deflate: 32 KiB + 257 mirrored bytes in the
// object; lzma: dict_size + 273 in the work buffer; lzw: an 8 KiB + 7 output ring). The general
// sweep above splits the SOURCE thoroughly but its inputs are far smaller than those rings. Here:
//
//   - inputs whose output is several times the ring, with back-references over the whole
//     distance range and across chosen offsets: deflate streams put together bit by bit (stored
//     segments of incompressible bytes, then fixed-Huffman blocks whose matches straddle the
//     segment boundaries, reach the maximum distance 32768, ...), the same wrapped as zlib, gzip
//     and PNG (IDAT), Go's flate/zlib/gzip/png/gif/lzw encoders on 30-40 KB incompressible blocks
//     repeated at a distance inside the window, the xz tool (lzma, xz; 4 KiB and 64 KiB
//     dictionaries; lzip built from a raw LZMA stream) when it is installed, big test/data files;
//   - destination plans (capacity of successive destinations; the driver hands over a FRESH
//     exact-size block holding only dst_history_retain_length() bytes of history at every
//     "$short write") around the ring thresholds: W, W +- 1, W +- (ML-1), W +- ML, 2W, ML, 1, the
//     segment boundaries of the input; three-piece plans "at least the ring, then little, then
//     the rest"; constant capacities; random multi-piece plans;
//   - source plans with the same sizes (png, gif, webp have no destination: their zlib/lzw call
//     gets a fresh window of the work/pixel buffer on every resumption, so a source split is a
//     history hand-over there), and combinations.
//
// Oracle: sameStd against ONE call with everything available and a destination that holds all.

import (
	"bytes"
	"compress/flate"
	"compress/gzip"
	"compress/lzw"
	"compress/zlib"
	"encoding/binary"
	"fmt"
	"hash/adler32"
	"hash/crc32"
	"image"
	"image/color"
	"image/gif"
	"image/png"
	"io"
	"os"
	"os/exec"
	"path/filepath"
	"sort"
	"strings"
	"sync"
	"time"

	"wvh/cdrv"
	"wvh/hlib"
)

type histInput struct {
	codec  string
	name   string
	data   []byte
	want   []byte // the decoded bytes, when the producer knows them (transformers only)
	window int    // W: size of the decoder's own history ring
	ml     int    // ML: longest copy
	marks  []int  // output offsets of interest (segment boundaries of assembled streams)
	smarks []int  // source offsets at which the output reaches marks[i] (when known exactly)
	work   int    // lzma family: the exact work buffer length dict_size + 273, when the producer knows it
}

// ---- a deflate assembler (RFC 1951): stored blocks and fixed-Huffman blocks

type dBits struct {
	buf   []byte
	acc   uint64
	nbits uint
}

func (w *dBits) bits(v uint32, n uint) { // n low bits of v, least significant first
	w.acc |= uint64(v) << w.nbits
	w.nbits += n
	for w.nbits >= 8 {
		w.buf = append(w.buf, byte(w.acc))
		w.acc >>= 8
		w.nbits -= 8
	}
}

func (w *dBits) code(v uint32, n uint) { // Huffman code, most significant bit first
	for i := int(n) - 1; i >= 0; i-- {
		w.bits((v>>uint(i))&1, 1)
	}
}

func (w *dBits) align() {
	if w.nbits > 0 {
		w.bits(0, 8-w.nbits)
	}
}

var dLenBase = []int{3, 4, 5, 6, 7, 8, 9, 10, 11, 13, 15, 17, 19, 23, 27, 31, 35, 43, 51, 59, 67, 83, 99, 115, 131, 163, 195, 227, 258}
var dLenExtra = []uint{0, 0, 0, 0, 0, 0, 0, 0, 1, 1, 1, 1, 2, 2, 2, 2, 3, 3, 3, 3, 4, 4, 4, 4, 5, 5, 5, 5, 0}
var dDistBase = []int{1, 2, 3, 4, 5, 7, 9, 13, 17, 25, 33, 49, 65, 97, 129, 193, 257, 385, 513, 769, 1025, 1537, 2049, 3073, 4097, 6145, 8193, 12289, 16385, 24577}
var dDistExtra = []uint{0, 0, 0, 0, 1, 1, 2, 2, 3, 3, 4, 4, 5, 5, 6, 6, 7, 7, 8, 8, 9, 9, 10, 10, 11, 11, 12, 12, 13, 13}

func (w *dBits) fixedSym(s int) {
	switch {
	case s < 144:
		w.code(uint32(0x30+s), 8)
	case s < 256:
		w.code(uint32(0x190+s-144), 9)
	case s < 280:
		w.code(uint32(s-256), 7)
	default:
		w.code(uint32(0xC0+s-280), 8)
	}
}

func (w *dBits) fixedMatch(length, dist int) {
	i := len(dLenBase) - 1
	for dLenBase[i] > length {
		i--
	}
	w.fixedSym(257 + i)
	w.bits(uint32(length-dLenBase[i]), dLenExtra[i])
	j := len(dDistBase) - 1
	for dDistBase[j] > dist {
		j--
	}
	w.code(uint32(j), 5)
	w.bits(uint32(dist-dDistBase[j]), dDistExtra[j])
}

// asmDeflate assembles a deflate stream and the bytes it stands for.
type asmDeflate struct {
	w      dBits
	plain  []byte
	stride int // > 1: every stride-th byte (a PNG filter byte) is 0 and distances are multiples of it
	rng    *hlib.Rand
	marks  []int
	smarks []int
}

func (a *asmDeflate) fresh(n int) []byte {
	b := a.rng.Bytes(n)
	if a.stride > 1 {
		for i := range b {
			if (len(a.plain)+i)%a.stride == 0 {
				b[i] = 0
			}
		}
	}
	return b
}

// stored appends n incompressible bytes as stored blocks and marks the offset reached.
func (a *asmDeflate) stored(n int) {
	for n > 0 {
		k := n
		if k > 65535 {
			k = 65535
		}
		b := a.fresh(k)
		a.w.bits(0, 1)
		a.w.bits(0, 2)
		a.w.align()
		a.w.bits(uint32(k), 16)
		a.w.bits(uint32(^k)&0xFFFF, 16)
		a.w.buf = append(a.w.buf, b...)
		a.plain = append(a.plain, b...)
		n -= k
	}
	a.marks = append(a.marks, len(a.plain))
	a.smarks = append(a.smarks, len(a.w.buf))
}

func (a *asmDeflate) lits(n int) {
	for _, c := range a.fresh(n) {
		a.w.fixedSym(int(c))
		a.plain = append(a.plain, c)
	}
}

// match copies `length` bytes starting at output offset `from` (literals first, if the stride
// asks for it). Reports false when the distance would leave 1 ..= 32768.
func (a *asmDeflate) match(from, length int) bool {
	if a.stride > 1 {
		if from < 0 {
			return false
		}
		a.lits(((from-len(a.plain))%a.stride + a.stride) % a.stride)
	}
	d := len(a.plain) - from
	if from < 0 || d < 1 || d > 32768 || length < 3 || length > 258 {
		return false
	}
	a.w.fixedMatch(length, d)
	for i := 0; i < length; i++ {
		a.plain = append(a.plain, a.plain[from+i])
	}
	return true
}

// huff appends one fixed-Huffman block: matches that straddle every mark still inside the
// window, matches at the largest distances, a few anywhere, literals between them.
func (a *asmDeflate) huff(final bool, nRandom int) {
	if final {
		a.w.bits(1, 1)
	} else {
		a.w.bits(0, 1)
	}
	a.w.bits(1, 2)
	a.lits(a.rng.Range(1, 12))
	marks := append([]int(nil), a.marks...)
	for _, m := range marks {
		for rep := 0; rep < 3; rep++ {
			length := []int{258, 258, a.rng.Range(3, 258)}[rep]
			before := []int{a.rng.Range(1, length-1), 1, a.rng.Range(1, length-1)}[rep]
			if rep == 1 {
				before = length - 1 // ends one byte after the mark
			}
			a.match(m-before, length)
			a.lits(a.rng.Range(0, 5))
		}
	}
	for _, back := range []int{32768, 32767, 32768 - 257, 32768 - 258, 32768, 1, 2, 257, 258, 259} {
		a.match(len(a.plain)-back, a.rng.Range(3, 258))
		a.lits(a.rng.Range(0, 3))
	}
	for i := 0; i < nRandom; i++ {
		a.match(len(a.plain)-a.rng.Range(1, 32768), a.rng.Range(3, 258))
		a.lits(a.rng.Range(0, 4))
	}
	if a.stride > 1 && final {
		a.lits((a.stride - len(a.plain)%a.stride) % a.stride)
	}
	a.w.fixedSym(256)
	a.marks = append(a.marks, len(a.plain))
	if final {
		a.w.align()
	}
}

// assembled builds: stored A (at least a whole ring), stored B (little), Huffman block, stored C,
// final Huffman block. variant chooses the sizes around the thresholds.
func assembled(rng *hlib.Rand, stride, variant int) (stream, plain []byte, marks, smarks []int) {
	a := &asmDeflate{stride: stride, rng: rng}
	extraA := []int{0, 7232, 1, 100, 256, 257, 258, rng.Range(0, 12000)}[variant%8]
	b := []int{1000, 257, 1, 100, 258, 500, 3000, rng.Range(1, 4000)}[(variant/2+variant)%8]
	a.stored(32768 + extraA)
	a.stored(b)
	a.huff(false, 8)
	a.stored(rng.Range(1, 2000))
	a.huff(true, 24)
	return a.w.buf, a.plain, a.marks, a.smarks
}

func wrapZlib(deflated, plain []byte) []byte {
	out := append([]byte{0x78, 0x01}, deflated...)
	return binary.BigEndian.AppendUint32(out, adler32.Checksum(plain))
}

func wrapGzip(deflated, plain []byte) []byte {
	out := append([]byte{0x1f, 0x8b, 8, 0, 0, 0, 0, 0, 0, 0xff}, deflated...)
	out = binary.LittleEndian.AppendUint32(out, crc32.ChecksumIEEE(plain))
	return binary.LittleEndian.AppendUint32(out, uint32(len(plain)))
}

// wrapPNG: an 8-bit gray image of width stride-1 whose IDAT chunks (of idatLen bytes) hold z.
func wrapPNG(z []byte, stride, rows, idatLen int) []byte {
	var out bytes.Buffer
	out.WriteString("\x89PNG\r\n\x1a\n")
	chunk := func(typ string, body []byte) {
		var h [4]byte
		binary.BigEndian.PutUint32(h[:], uint32(len(body)))
		out.Write(h[:])
		c := crc32.NewIEEE()
		c.Write([]byte(typ))
		c.Write(body)
		out.WriteString(typ)
		out.Write(body)
		binary.BigEndian.PutUint32(h[:], c.Sum32())
		out.Write(h[:])
	}
	ihdr := make([]byte, 13)
	binary.BigEndian.PutUint32(ihdr[0:], uint32(stride-1))
	binary.BigEndian.PutUint32(ihdr[4:], uint32(rows))
	ihdr[8] = 8
	chunk("IHDR", ihdr)
	for len(z) > 0 {
		k := min(len(z), idatLen)
		chunk("IDAT", z[:k])
		z = z[k:]
	}
	chunk("IEND", nil)
	return out.Bytes()
}

// repeated: an incompressible block of blockLen bytes, then (almost) the same block again and
// again, with a little text between: every encoder with a window >= blockLen turns the later
// copies into long runs of maximum-length matches at distance ~ blockLen.
func repeated(rng *hlib.Rand, blockLen, copies int) []byte {
	block := rng.Bytes(blockLen)
	var b bytes.Buffer
	for i := 0; i < copies; i++ {
		b.Write(block)
		if i%2 == 1 {
			b.Write(someText(rng, rng.Range(1, 300)))
			p := rng.Intn(blockLen)
			block[p] ^= 0x55
		}
	}
	return b.Bytes()
}

var xzToolOnce sync.Once
var xzToolPath string

func xzTool() string {
	xzToolOnce.Do(func() {
		if p, err := exec.LookPath("xz"); err == nil {
			xzToolPath = p
		}
	})
	return xzToolPath
}

func runToolH(tool string, in []byte, args ...string) []byte {
	cmd := exec.Command(tool, args...)
	cmd.Stdin = bytes.NewReader(in)
	var out bytes.Buffer
	cmd.Stdout = &out
	if cmd.Start() != nil {
		return nil
	}
	done := make(chan error, 1)
	go func() { done <- cmd.Wait() }()
	select {
	case err := <-done:
		if err != nil {
			return nil
		}
		return out.Bytes()
	case <-time.After(120 * time.Second):
		cmd.Process.Kill()
		return nil
	}
}

// lzipFromRaw wraps a raw LZMA1 stream (lc=3 lp=0 pb=2, end marker) as an lzip member.
func lzipFromRaw(raw, plain []byte, dictLog2 byte) []byte {
	out := append([]byte{'L', 'Z', 'I', 'P', 1, dictLog2}, raw...)
	out = binary.LittleEndian.AppendUint32(out, crc32.ChecksumIEEE(plain))
	out = binary.LittleEndian.AppendUint64(out, uint64(len(plain)))
	return binary.LittleEndian.AppendUint64(out, uint64(len(out)+8))
}

func histInputs(r *hlib.Run, rng *hlib.Rand) []histInput {
	var out []histInput
	add := func(in histInput) { out = append(out, in) }
	nVar := 2
	if r.Thorough {
		nVar = 8
	}
	v0 := rng.Intn(8)

	// 1. assembled deflate streams, bare and wrapped
	for i := 0; i < nVar; i++ {
		v := (v0 + i) % 8
		s, p, marks, smarks := assembled(rng.Fork(), 1, v)
		if got, err := io.ReadAll(flate.NewReader(bytes.NewReader(s))); err != nil || !bytes.Equal(got, p) {
			panic(fmt.Sprintf("c05: assembled deflate stream (variant %d) is not what Go's inflate reads: %v", v, err))
		}
		add(histInput{codec: "deflate", name: fmt.Sprintf("asm-deflate-v%d", v), data: s, want: p, window: 32768, ml: 258, marks: marks, smarks: smarks})
		shift := func(xs []int, by int) []int {
			var ys []int
			for _, x := range xs {
				ys = append(ys, x+by)
			}
			return ys
		}
		switch i % 2 {
		case 0:
			add(histInput{codec: "zlib", name: fmt.Sprintf("asm-zlib-v%d", v), data: wrapZlib(s, p), want: p, window: 32768, ml: 258, marks: marks, smarks: shift(smarks, 2)})
		case 1:
			add(histInput{codec: "gzip", name: fmt.Sprintf("asm-gzip-v%d", v), data: wrapGzip(s, p), want: p, window: 32768, ml: 258, marks: marks, smarks: shift(smarks, 10)})
		}
		// as a PNG: rows of 1000 bytes (filter byte 0 + 999 gray pixels), one or several IDAT chunks
		const stride = 1000
		s, p, marks, smarks = assembled(rng.Fork(), stride, v)
		if got, err := io.ReadAll(flate.NewReader(bytes.NewReader(s))); err != nil || !bytes.Equal(got, p) || len(p)%stride != 0 {
			panic(fmt.Sprintf("c05: assembled deflate stream for PNG (variant %d) is broken: %v", v, err))
		}
		idat := []int{1 << 30, 20000, 8192, 33000}[(v0+i)%4]
		pngb := wrapPNG(wrapZlib(s, p), stride, len(p)/stride, idat)
		// source offset of deflate byte k inside the PNG: 8 signature + 25 IHDR + 8 per IDAT header + 2 zlib
		// header, + 12 for every IDAT chunk boundary crossed
		var sm []int
		for _, k := range smarks {
			z := k + 2
			sm = append(sm, 8+25+8+z+12*(z/idat))
		}
		add(histInput{codec: "png", name: fmt.Sprintf("asm-png-v%d-idat%d", v, idat), data: pngb, window: 32768, ml: 258, smarks: sm})
	}

	// 2. Go's encoders on repeated incompressible blocks (distance 30000 .. 32768) and on text
	for i := 0; i < nVar; i++ {
		blockLen := []int{30000, 32768, 32768 - 258, 31000, 32767, 20000, 32768 - 257, 16384}[(v0+i)%8]
		plain := repeated(rng, blockLen, 3+i%2)
		if i%2 == 1 {
			plain = append(plain, someText(rng, 40000)...)
		}
		level := []int{flate.BestCompression, flate.DefaultCompression, flate.BestSpeed, 4}[i%4]
		var b bytes.Buffer
		switch i % 3 {
		case 0:
			w, _ := flate.NewWriter(&b, level)
			w.Write(plain)
			w.Close()
			add(histInput{codec: "deflate", name: fmt.Sprintf("go-flate-rep%d-l%d", blockLen, level), data: append([]byte(nil), b.Bytes()...), want: plain, window: 32768, ml: 258, marks: []int{blockLen, 2 * blockLen}})
		case 1:
			w, _ := zlib.NewWriterLevel(&b, level)
			w.Write(plain)
			w.Close()
			add(histInput{codec: "zlib", name: fmt.Sprintf("go-zlib-rep%d-l%d", blockLen, level), data: append([]byte(nil), b.Bytes()...), want: plain, window: 32768, ml: 258, marks: []int{blockLen, 2 * blockLen}})
		case 2:
			w, _ := gzip.NewWriterLevel(&b, level)
			w.Write(plain)
			w.Close()
			add(histInput{codec: "gzip", name: fmt.Sprintf("go-gzip-rep%d-l%d", blockLen, level), data: append([]byte(nil), b.Bytes()...), want: plain, window: 32768, ml: 258, marks: []int{blockLen, 2 * blockLen}})
		}
	}
	{
		// lzw: long text (the code table fills up and is cleared several times); ring of 8192
		plain := append(someText(rng, 30000), repeated(rng, 5000, 4)...)
		var b bytes.Buffer
		w := lzw.NewWriter(&b, lzw.LSB, 8)
		w.Write(plain)
		w.Close()
		add(histInput{codec: "lzw", name: "go-lzw-text+rep", data: append([]byte(nil), b.Bytes()...), want: plain, window: 8192, ml: 4096, marks: []int{4096, 8191, 8192, 8199}})
	}
	{
		// png from Go's encoder: RGBA rows of 1001 bytes, 30 random rows repeated (distance 30030)
		w, h := 250, 100
		m := image.NewNRGBA(image.Rect(0, 0, w, h))
		rows := rng.Bytes(30 * w * 4)
		for y := 0; y < h; y++ {
			copy(m.Pix[y*m.Stride:(y+1)*m.Stride], rows[(y%30)*w*4:])
		}
		var b bytes.Buffer
		(&png.Encoder{CompressionLevel: png.BestCompression}).Encode(&b, m)
		add(histInput{codec: "png", name: "go-png-250x100-rows-repeat-30", data: append([]byte(nil), b.Bytes()...), window: 32768, ml: 258})
		// gif from Go's encoder: a paletted picture big enough for many code-table clears
		pal := color.Palette{}
		for i := 0; i < 256; i++ {
			pal = append(pal, color.RGBA{uint8(i), uint8(i * 7), uint8(i * 13), 255})
		}
		pm := image.NewPaletted(image.Rect(0, 0, 240, 160), pal)
		noise := rng.Bytes(len(pm.Pix))
		for i := range pm.Pix {
			pm.Pix[i] = uint8(i/5) ^ (noise[i] & 3)
			if (i/240)%40 < 6 {
				pm.Pix[i] = noise[i]
			}
		}
		b.Reset()
		gif.Encode(&b, pm, nil)
		add(histInput{codec: "gif", name: "go-gif-240x160", data: append([]byte(nil), b.Bytes()...), window: 8192, ml: 4096})
	}

	// 3. the xz tool, when installed: small dictionaries, so that the ring in the work buffer wraps
	if xz := xzTool(); xz == "" {
		r.Count("H:skipped:xz-tool-absent")
	} else {
		type spec struct {
			codec, name string
			dict        int
			plain       []byte
			args        []string
		}
		p4 := append(repeated(rng, 3000, 4), someText(rng, 9000)...)
		p4t := append(someText(rng, 6000), repeated(rng, 4000, 3)...)
		p64 := append(repeated(rng, 60000, 2), someText(rng, 30000)...)
		// incompressible first: LZMA2 starts with uncompressed chunks (output before the inner
		// "$short workbuf" yield is reached: the input of the defect repaired by
		// fixes/C05-lzma-short-workbuf-gate.patch, key split-dependent:lzma-bad-workbuf-length-on-suspension)
		pSt := append(append(rng.Bytes(66000), someText(rng, 8000)...), repeated(rng, 3000, 3)...)
		specs := []spec{
			{"xz", "xz-lzma2-dict4k-stored-first", 4096, pSt, []string{"-c", "-T1", "--check=crc32", "--lzma2=dict=4KiB"}},
			{"lzma", "xz-lzma1-dict4k", 4096, p4, []string{"-c", "-T1", "--format=lzma", "--lzma1=dict=4KiB"}},
			{"xz", "xz-lzma2-dict4k", 4096, p4, []string{"-c", "-T1", "--check=crc32", "--lzma2=dict=4KiB"}},
			{"xz", "xz-lzma2-dict4k-text-first", 4096, p4t, []string{"-c", "-T1", "--check=crc64", "--lzma2=dict=4KiB"}},
			{"lzip", "xz-raw-lzma1-dict4k-as-lzip", 4096, p4t, []string{"-c", "-T1", "--format=raw", "--lzma1=dict=4KiB,lc=3,lp=0,pb=2"}},
		}
		if r.Thorough {
			specs = append(specs,
				spec{"lzma", "xz-lzma1-dict64k", 65536, p64, []string{"-c", "-T1", "--format=lzma", "--lzma1=dict=64KiB"}},
				spec{"xz", "xz-lzma2-dict64k", 65536, p64, []string{"-c", "-T1", "--check=sha256", "--lzma2=dict=64KiB"}},
				spec{"xz", "xz-lzma2-dict8k-lc0-lp2", 8192, p4, []string{"-c", "-T1", "--lzma2=dict=8KiB,lc=0,lp=2,pb=0"}})
		}
		for _, s := range specs {
			z := runToolH(xz, s.plain, s.args...)
			if len(z) == 0 {
				r.Count("H:skipped:xz-tool-failed:" + s.name)
				continue
			}
			if s.codec == "lzip" {
				z = lzipFromRaw(z, s.plain, 12)
			}
			add(histInput{codec: s.codec, name: s.name, data: z, want: s.plain, window: s.dict, ml: 274, marks: []int{3000, 4000, 6000}, work: s.dict + 273})
		}
	}

	// 4. big files of test/data
	files := []struct {
		codec, file string
		window, ml  int
	}{
		{"gzip", "pi.txt.gz", 32768, 258}, {"bzip2", "pi.txt.bz2", 100000, 255}, {"lzw", "pi.txt.giflzw", 8192, 4096},
		{"lzma", "enwik5.lzma", 65536, 274}, {"xz", "enwik5.lzma2-chunk-max-1-13.xz", 65536, 274},
		{"png", "bricks-color.png", 32768, 258}, {"webp", "bricks-color.lossless.webp", 32768, 4096}, {"gif", "bricks-dither.gif", 8192, 4096},
	}
	if r.Thorough {
		files = append(files, []struct {
			codec, file string
			window, ml  int
		}{
			{"zlib", "pi.txt.zlib", 32768, 258}, {"xz", "enwik5.xz", 65536, 274}, {"xz", "enwik5.block-size-32k.xz", 32768, 274},
			{"png", "hibiscus.primitive.png", 32768, 258}, {"png", "hat.png", 32768, 258}, {"webp", "hat.lossless.webp", 32768, 4096},
			{"gif", "hibiscus.primitive.gif", 8192, 4096}, {"jpeg", "hibiscus.primitive.jpeg", 4096, 64}, {"webp", "hibiscus.regular.lossy.webp", 4096, 64},
		}...)
	}
	for _, f := range files {
		b, err := os.ReadFile(filepath.Join(r.Repo, "test", "data", f.file))
		if err != nil {
			r.Count("H:skipped:test-data-absent:" + f.file)
			continue
		}
		add(histInput{codec: f.codec, name: f.file, data: b, window: f.window, ml: f.ml})
	}
	return out
}

type histPlan struct {
	kind string
	opts string
}

func joinInts(xs []int) string {
	var ss []string
	for _, x := range xs {
		ss = append(ss, fmt.Sprint(x))
	}
	return strings.Join(ss, ",")
}

// thresholds: sizes at which a ring of w bytes with copies of up to ml bytes changes behaviour.
func thresholds(w, ml int, marks []int) []int {
	set := map[int]bool{1: true, 2: true}
	for _, base := range []int{0, w, 2 * w} {
		for _, d := range []int{-ml - 1, -ml, -ml + 1, -1, 0, 1, ml - 1, ml, ml + 1} {
			set[base+d] = true
		}
	}
	prev := 0
	for _, m := range marks {
		set[m] = true
		set[m-prev] = true
		prev = m
	}
	var out []int
	for x := range set {
		if x > 0 {
			out = append(out, x)
		}
	}
	sort.Ints(out)
	return out
}

// histPlans: the split plans of one input. outLen: length of the one-call output (0 for images),
// hasDst: an io_transformer, combine: source and destination splits may be combined.
func histPlans(rng *hlib.Rand, in histInput, outLen int, hasDst, combine, thorough bool) []histPlan {
	var ps []histPlan
	w, ml := in.window, in.ml
	th := thresholds(w, ml, in.marks)
	rest := outLen + 4096
	pick := func(xs []int) int { return xs[rng.Intn(len(xs))] }
	scale := 1
	if thorough {
		scale = 4
	}
	var dstPlans []string
	if hasDst {
		addD := func(kind string, caps []int) {
			s := "dst=" + joinInts(caps) + " "
			dstPlans = append(dstPlans, s)
			ps = append(ps, histPlan{kind, s})
		}
		// constant capacities
		for _, c := range []int{w, w + 1, w - 1, w + ml - 1, w - ml + 1, ml - 1, w / 2, 2 * w} {
			if c > 0 {
				addD("dst-const", []int{c})
			}
		}
		// at least a ring, then little, then the rest
		firsts := []int{w, w + 1, w + ml - 2, w + ml - 1, 2 * w}
		for _, m := range in.marks {
			if m >= w {
				firsts = append(firsts, m, m+123)
			}
		}
		seconds := []int{1, ml - 2, ml - 1, ml, 500, 1000}
		prev := 0
		for _, m := range in.marks {
			if m-prev > 0 && m-prev < w {
				seconds = append(seconds, m-prev)
			}
			prev = m
		}
		for i, f := range firsts {
			if f >= outLen {
				continue
			}
			addD("dst-ring-little-rest", []int{f, seconds[i%len(seconds)], rest})
			addD("dst-ring-little-rest", []int{f, pick(seconds), rest})
			addD("dst-ring-little-little-rest", []int{f, pick(seconds), pick(seconds), rest})
		}
		if len(in.marks) >= 2 && in.marks[1] < outLen {
			a, b := in.marks[0], in.marks[1]-in.marks[0]
			addD("dst-segments", []int{a, b, rest})
			addD("dst-segments", []int{a, (b + 1) / 2, (b + 1) / 2, rest})
			addD("dst-segments", []int{a - 1, b + 1, rest})
			addD("dst-segments", []int{a + 1, b, rest})
		}
		for i := 0; i < 8*scale; i++ {
			var caps []int
			for k := rng.Range(2, 6); k > 0; k-- {
				switch rng.Intn(3) {
				case 0:
					caps = append(caps, pick(th))
				case 1:
					caps = append(caps, rng.Range(1, 2*w))
				default:
					caps = append(caps, rng.Range(1, ml+2))
				}
			}
			if rng.Bool() {
				caps = append(caps, rest)
			}
			addD("dst-random", caps)
		}
	}
	// source plans
	n := len(in.data)
	var srcPlans []string
	addS := func(kind string, sizes []int) {
		s := "src=" + joinInts(sizes) + " "
		srcPlans = append(srcPlans, s)
		ps = append(ps, histPlan{kind, s})
	}
	for _, c := range []int{w, w + 1, 4096, 1000, w / 2, 3 * w / 2} {
		if c > 0 && c < n {
			addS("src-const", []int{c})
		}
	}
	if len(in.smarks) >= 2 {
		a, b := in.smarks[0], in.smarks[1]-in.smarks[0]
		addS("src-segments", []int{a, b, n})
		addS("src-segments", []int{a, (b + 1) / 2, n})
		addS("src-segments", []int{a + 3, b, n})
		addS("src-segments", []int{a, b + 7, n})
		for i := 0; i < 4*scale; i++ {
			addS("src-segments", []int{a + rng.Range(-300, 300), rng.Range(1, b+300), n})
		}
	}
	for i := 0; i < 6*scale; i++ {
		// one call that takes in at least a ring's worth (for incompressible data, source and
		// output offsets are close), then little, then the rest
		f := w + rng.Range(-40, ml+300)
		if rng.Chance(1, 3) {
			f = pick(th) + rng.Range(0, 64)
		}
		if f < 1 || f >= n {
			f = rng.Range(1, n-1)
		}
		addS("src-ring-little-rest", []int{f, pick([]int{1, ml - 1, ml, 500, 1000, rng.Range(1, 3000)}), n})
	}
	for i := 0; i < 4*scale; i++ {
		var sizes []int
		for k := rng.Range(2, 6); k > 0; k-- {
			if rng.Bool() {
				sizes = append(sizes, pick(th))
			} else {
				sizes = append(sizes, rng.Range(1, 1+n/3))
			}
		}
		sizes = append(sizes, n)
		addS("src-random", sizes)
	}
	if hasDst && combine {
		for i := 0; i < 8*scale; i++ {
			ps = append(ps, histPlan{"both", srcPlans[rng.Intn(len(srcPlans))] + dstPlans[rng.Intn(len(dstPlans))]})
		}
	}
	return ps
}

// runCmds runs the commands on 8 processes of one build.
func runCmds(d *cdrv.Driver, cmds []string) []stdRes {
	res := make([]stdRes, len(cmds))
	var mu sync.Mutex
	next := 0
	var wg sync.WaitGroup
	for w := 0; w < 8; w++ {
		wg.Add(1)
		go func() {
			defer wg.Done()
			p := d.Spawn()
			defer p.Close()
			for {
				mu.Lock()
				i := next
				next++
				mu.Unlock()
				if i >= len(cmds) {
					return
				}
				res[i] = parseStd(p.Run(cmds[i]))
			}
		}()
	}
	wg.Wait()
	return res
}

func histSweep(r *hlib.Run, ds map[cdrv.Flavour]*cdrv.Driver, fls []cdrv.Flavour, have map[string]byte, rng *hlib.Rand) {
	t0 := time.Now()
	defer func() { r.Extra("seconds:D-history-part", time.Since(t0).Seconds()) }()
	inputs := histInputs(r, rng)
	for _, fl := range fls {
		if fl == cdrv.AsanUbsan && !r.Thorough {
			continue
		}
		// the one-call references: everything available, a destination that holds everything
		var refCmds []string
		var ins []histInput
		for _, in := range inputs {
			if _, ok := have[in.codec]; !ok {
				r.Count("H:codec-not-in-snapshot:" + in.codec)
				continue
			}
			ins = append(ins, in)
			refCmds = append(refCmds, histPre(in.codec, "work=16778240 ")+"dst=16777216 "+hlib.Hex(in.data))
			// (the reference gets the big work buffer in any case; the split runs the exact one)
		}
		refs := runCmds(ds[fl], refCmds)
		type hjob struct {
			in    histInput
			ref   stdRes
			refC  string
			plans []histPlan
			cmds  []string
		}
		var jobs []*hjob
		var all []string
		prng := rng.Fork()
		for i, in := range ins {
			one := refs[i]
			kind := have[in.codec]
			hasDst := kind == 'T'
			r.Count("H:inputs:" + in.codec)
			if one.crash != "" {
				r.Count("H:oneshot-crash-not-this-property:" + in.codec + ":" + one.crash)
				r.Note(fmt.Sprintf("H: one-call run crashed (%s, %s build), skipped: %s", one.crash, fl, in.name))
				continue
			}
			var outLen int
			fmt.Sscanf(one.out, "%d:", &outLen)
			if in.want != nil {
				// not this property's subject, but an input that the producer calls valid and that the
				// one-call run does not decode to the producer's bytes is worth a line in the evidence
				if one.status != "ok" || outLen != len(in.want) {
					r.Count("H:one-call-differs-from-producer:" + in.codec)
					r.Note(fmt.Sprintf("H: %s %s: one call gives status=%s out=%d bytes, the producer %d bytes", in.codec, in.name, one.status, outLen, len(in.want)))
				} else {
					r.Count("H:one-call-agrees-with-producer")
				}
			}
			lzmaFamily := in.codec == "lzma" || in.codec == "lzip" || in.codec == "xz"
			j := &hjob{in: in, ref: one, refC: refCmds[i]}
			// known finding split-dependent:lzma-dst-reused-after-replacement: no source x destination
			// combinations for the lzma family (see sectionD)
			j.plans = histPlans(prng.Fork(), in, outLen, hasDst, !lzmaFamily, r.Thorough)
			for k, p := range j.plans {
				if lzmaFamily && !strings.Contains(p.opts, "dst=") {
					// ... and a source split gets a destination that holds everything (the default one
					// of 65536 bytes would be replaced, then filled over several calls)
					p.opts += fmt.Sprintf("dst=%d ", outLen+4096)
					j.plans[k] = p
				}
				work := "work=16778240 "
				if in.work > 0 && k%2 == 0 {
					work = fmt.Sprintf("work=%d ", in.work) // exactly workbuf_len().min_incl
				}
				j.cmds = append(j.cmds, histPre(in.codec, work)+p.opts+hlib.Hex(in.data))
			}
			if lzmaFamily {
				// the work buffer sized the documented way: workbuf_len(), grown on "$short workbuf"
				for k, p := range j.plans {
					if k%3 == 0 || strings.HasPrefix(p.kind, "dst-ring") {
						j.plans = append(j.plans, histPlan{"workbuf-auto:" + p.kind, p.opts})
						j.cmds = append(j.cmds, histPre(in.codec, "")+p.opts+hlib.Hex(in.data))
					}
				}
			}
			jobs = append(jobs, j)
			all = append(all, j.cmds...)
		}
		res := runCmds(ds[fl], all)
		if f := os.Getenv("C05_DUMP"); f != "" {
			// debugging aid: every command (options only) of this part with the driver's full answer
			var b strings.Builder
			k := 0
			for _, j := range jobs {
				for i := range j.cmds {
					fmt.Fprintf(&b, "%s %s %s%s-> %s\n", fl, j.in.codec, j.in.name, strings.TrimSuffix(strings.TrimPrefix(j.cmds[i], "run "+j.in.codec), hlib.Hex(j.in.data)), res[k].raw)
					k++
				}
			}
			os.WriteFile(f+"."+string(fl), []byte(b.String()), 0o644)
		}
		at := 0
		for _, j := range jobs {
			tokens := have[j.in.codec] == 'K'
			failed, failedAuto := false, false
			for k := range j.cmds {
				rr := res[at]
				at++
				kind := j.plans[k].kind
				r.Count("H:runs:" + strings.SplitN(kind, ":", 2)[0])
				r.Nontrivial(fmt.Sprintf("H:%s:%s:%s", j.in.codec, j.in.name, j.plans[k].opts))
				if strings.Contains(rr.raw, "calls=") {
					var calls int
					if i := strings.Index(rr.raw, "calls="); i >= 0 {
						fmt.Sscanf(rr.raw[i:], "calls=%d", &calls)
					}
					if calls >= 3 {
						r.Count("H:runs-with-3-or-more-calls")
					}
				}
				if failed || (failedAuto && strings.HasPrefix(kind, "workbuf-auto:")) {
					continue // one report per input (and one for its runs with a lazily sized work buffer)
				}
				if same, why := sameStd(j.ref, rr, tokens); !same {
					key := "split-dependent:" + j.in.codec + ":valid"
					if strings.HasPrefix(kind, "workbuf-auto:") && rr.status == "#base:_bad_workbuf_length" {
						key = "split-dependent:lzma-bad-workbuf-length-on-suspension"
					} else if rr.crash != "" {
						key = "crash:" + j.in.codec + ":" + rr.crash
					}
					r.Fail(key, fmt.Sprintf("std/%s (input %s, %d bytes, decoder's own history ring %d bytes): %s (%s plan `%s`, %s build)",
						j.in.codec, j.in.name, len(j.in.data), j.in.window, why, kind, strings.TrimSpace(j.plans[k].opts), fl),
						fmt.Sprintf("one call: %s\n  -> %s\n%s: %s\n  -> %s", j.refC, firstN(j.ref.raw, 600), kind, j.cmds[k], firstN(rr.raw, 600)))
					if strings.HasPrefix(kind, "workbuf-auto:") {
						failedAuto = true
					} else {
						failed = true
					}
				}
			}
		}
	}
}

// histPre: the command prefix; the lzma family gets the given work-buffer option.
func histPre(codec, work string) string {
	if codec == "lzma" || codec == "lzip" || codec == "xz" {
		return "run " + codec + " " + work
	}
	return "run " + codec + " "
}
