package main

// Liveness tie: the real analysis (internal/cgen findVars, through the verif
// hook) against the Lean model (`live` op) on every coroutine of std/ and on
// generated packages; plus the property-side oracle for the analysis result
// itself: an independent path-based reference check written here in Go.

import (
	"fmt"
	"os"
	"path/filepath"
	"sort"
	"strings"

	"github.com/google/wuffs/lang/check"
	"github.com/google/wuffs/lang/generate"
	"github.com/google/wuffs/lang/parse"
	cgen "github.com/google/wuffs/lang/verifc05"

	a "github.com/google/wuffs/lang/ast"
	t "github.com/google/wuffs/lang/token"

	"wvh/hlib"
)

// loadPkg parses and type-checks one package the way cmd/wuffs-c does
// (lang/generate.ParseFiles + lang/check.Check).
func loadPkg(filenames []string, resolveUse func(string) ([]byte, error)) (*t.Map, []*a.File, error) {
	tm := &t.Map{}
	files, err := generate.ParseFiles(tm, filenames, nil)
	if err != nil {
		return nil, nil, err
	}
	if _, err := check.Check(tm, files, resolveUse); err != nil {
		return nil, nil, err
	}
	return tm, files, nil
}

func stdPackages(root string) (map[string][]string, []string) {
	pk := map[string][]string{}
	ents, _ := os.ReadDir(filepath.Join(root, "std"))
	var names []string
	for _, e := range ents {
		if !e.IsDir() {
			continue
		}
		fs, _ := filepath.Glob(filepath.Join(root, "std", e.Name(), "*.wuffs"))
		sort.Strings(fs)
		if len(fs) > 0 {
			pk[e.Name()] = fs
			names = append(names, e.Name())
		}
	}
	sort.Strings(names)
	return pk, names
}

func intsStr(v []int) string {
	s := make([]string, len(v))
	for i, x := range v {
		s[i] = fmt.Sprint(x)
	}
	return "[" + strings.Join(s, ",") + "]"
}

// liveOps emits one `live` op per coroutine and evaluates the reference oracle.
func liveOps(r *hlib.Run, where string, fs []cgen.LiveFunc) {
	for _, f := range fs {
		if f.Err != "" {
			r.Count("live:hook-error")
			r.Note(where + "." + f.Name + ": " + f.Err)
			continue
		}
		r.Count("live:coroutines")
		r.CountN("live:csps", f.NumCSPs)
		r.CountN("live:loops", f.NumLoops)
		r.CountN("live:vars", len(f.Vars))
		r.CountN("live:resumable-vars", len(f.Resumables))
		// pointer-typed locals (slices, io_reader/io_writer) are never saved, whatever the analysis
		// says (var.go writeResumeSuspend1): report the ones the analysis wants saved
		for _, i := range f.PtrVars {
			for _, j := range f.Resumables {
				if i == j {
					r.Count("live:pointer-typed-var-judged-resumable")
					r.Note(fmt.Sprintf("%s.%s: pointer-typed local %q is live across a suspension (never saved)", where, f.Name, f.Vars[i]))
				}
			}
		}
		body := strings.TrimSpace(f.Body)
		r.Op(fmt.Sprintf("live %d %s", len(f.Vars), body), "r "+intsStr(f.Resumables))
		if f.NumCSPs > 0 && len(f.Vars) > 0 {
			r.Nontrivial("live:" + body)
		}
		// property-side oracle on the implementation's answer
		prog, err := parseAbs(body)
		if err != nil {
			r.Fail("live:hook-unparsable", "the abstract body does not parse: "+err.Error(), where+"."+f.Name+"\n"+body)
			continue
		}
		res := map[int]bool{}
		for _, i := range f.Resumables {
			res[i] = true
		}
		if bad, witness := refCheck(prog, len(f.Vars), res); bad >= 0 {
			r.Fail("liveness-unsound:"+where, fmt.Sprintf("%s.%s: variable %q (index %d) is not saved across suspensions, but %s",
				where, f.Name, f.Vars[bad], bad, witness),
				fmt.Sprintf("package %s coroutine %s\nvars %v\nresumables %v\nbody %s", where, f.Name, f.Vars, f.Resumables, body))
		}
	}
}

// useSummary replicates cmd/wuffs genWuffs (the text `wuffs gen` writes to
// gen/wuffs/<path>.wuffs, which lang/generate's resolveUse reads): the public
// declarations of a package, without bodies.
func useSummary(repo string, usePath string) ([]byte, error) {
	dir := filepath.Join(repo, filepath.FromSlash(strings.TrimSuffix(usePath, ".wuffs")))
	fs, _ := filepath.Glob(filepath.Join(dir, "*.wuffs"))
	sort.Strings(fs)
	if len(fs) == 0 {
		return nil, fmt.Errorf("no such package %q", usePath)
	}
	tm := &t.Map{}
	files, err := generate.ParseFiles(tm, fs, &parse.Options{AllowDoubleUnderscoreNames: true})
	if err != nil {
		return nil, err
	}
	out := &strings.Builder{}
	for _, f := range files {
		for _, n := range f.TopLevelDecls() {
			switch n.Kind() {
			case a.KConst:
				n := n.AsConst()
				if n.Public() {
					fmt.Fprintf(out, "pub const %s : %s = %v\n", n.QID().Str(tm), n.XType().Str(tm), n.Value().Str(tm))
				}
			case a.KFunc:
				n := n.AsFunc()
				if !n.Public() {
					continue
				}
				fmt.Fprintf(out, "pub func %s.%s%v(", n.Receiver().Str(tm), n.FuncName().Str(tm), n.Effect())
				for i, field := range n.In().Fields() {
					field := field.AsField()
					if i > 0 {
						fmt.Fprintf(out, ", ")
					}
					fmt.Fprintf(out, "%s: %s", field.Name().Str(tm), field.XType().Str(tm))
				}
				fmt.Fprintf(out, ") ")
				if o := n.Out(); o != nil {
					fmt.Fprintf(out, "%s ", o.Str(tm))
				}
				fmt.Fprintf(out, "{ }\n")
			case a.KStatus:
				n := n.AsStatus()
				if n.Public() {
					fmt.Fprintf(out, "pub status %s\n", n.QID().Str(tm))
				}
			case a.KStruct:
				n := n.AsStruct()
				if !n.Public() {
					continue
				}
				fmt.Fprintf(out, "pub struct %s", n.QID().Str(tm))
				if n.Classy() {
					fmt.Fprintf(out, "?")
				}
				if imps := n.Implements(); len(imps) > 0 {
					fmt.Fprintf(out, " implements ")
					for i, imp := range imps {
						if i > 0 {
							fmt.Fprintf(out, ", ")
						}
						fmt.Fprintf(out, "%s", imp.AsTypeExpr().Str(tm))
					}
				}
				fmt.Fprintf(out, "()\n")
			}
		}
	}
	return []byte(out.String()), nil
}

func liveStd(r *hlib.Run, repo string) {
	cache := map[string][]byte{}
	resolve := func(usePath string) ([]byte, error) {
		if b, ok := cache[usePath]; ok {
			return b, nil
		}
		b, err := useSummary(repo, usePath)
		if err == nil {
			cache[usePath] = b
		}
		return b, err
	}
	pk, names := stdPackages(repo)
	for _, name := range names {
		tm, files, err := loadPkg(pk[name], resolve)
		if err != nil {
			r.Count("live:std-pkg-load-error")
			r.Fail("std-package-does-not-check:"+name, "std/"+name+" is rejected by the working tree's parser/checker, so its coroutines cannot be analysed",
				"std/"+name+": "+err.Error())
			continue
		}
		r.Count("live:std-packages")
		liveOps(r, "std/"+name, cgen.Liveness(tm, files))
	}
}

// liveGenerated: packages of generated coroutines, analysed in-process.
func liveGenerated(r *hlib.Run, dir string, rng *hlib.Rand, nPkgs, nPub, nSub, size int) {
	for k := 0; k < nPkgs; k++ {
		p := genPackage(rng.Fork(), nPub, nSub, size, k == 0)
		fn := filepath.Join(dir, fmt.Sprintf("lg%d.wuffs", k))
		os.WriteFile(fn, []byte(p.text), 0o644)
		tm, files, err := loadPkg([]string{fn}, nil)
		if err != nil {
			r.Count("live:gen-pkg-rejected")
			r.Note(fmt.Sprintf("generated package %d rejected: %v", k, err))
			continue
		}
		r.Count("live:gen-packages")
		liveOps(r, fmt.Sprintf("gen%d", k), cgen.Liveness(tm, files))
	}
}
