package main

// Building and driving compiled C for ad-hoc Wuffs packages (the probe
// coroutines and the generated programs): wuffs-c (in-process, internal/cgen.Do) ->
// C -> clang (ASan+UBSan) and gcc -O2 -> a line-protocol process.
//
//	run <fn index> <src chunk sizes|-> <dst capacities|-> <hex>
//	  -> st=<status> out=<hex> ri=<consumed> acc=<u64> g1=<u64> calls=<n> susp=<n>
//
// Source bytes are delivered chunk by chunk (after the list: all the rest);
// each call gets a freshly malloc'ed source buffer holding exactly the unread
// bytes plus the new chunk (so nothing may point into an old buffer), closed
// once everything is delivered. The destination is a freshly malloc'ed buffer
// per capacity piece (after the list: 64 KiB pieces), replaced when full.

import (
	"bufio"
	"fmt"
	"io"
	"os"
	"os/exec"
	"path/filepath"
	"strings"
	"sync"
	"time"

	cgen "github.com/google/wuffs/lang/verifc05"

	"wvh/hlib"
)

const probeMainC = `
#include <stdio.h>
#include <stdlib.h>
#include <string.h>
#include <stdint.h>

typedef wuffs_base__status (*fn_t)(wuffs_PKG__t*, wuffs_base__io_buffer*, wuffs_base__io_buffer*);
static fn_t fns[] = { FNS };
#define NUM_FN ((int)(sizeof(fns) / sizeof(fns[0])))

#define MAXLINE (1 << 21)
static char line[MAXLINE];
static uint8_t input[MAXLINE / 2];
static uint8_t out[1 << 20];
static size_t nout;
static long sizes[2][4096];
static int nsizes[2];

static int hexv(int c) {
  if (c >= '0' && c <= '9') return c - '0';
  if (c >= 'a' && c <= 'f') return c - 'a' + 10;
  return -1;
}

static void parse_sizes(const char* s, int k) {
  nsizes[k] = 0;
  if (s[0] == '-') return;
  while (*s && nsizes[k] < 4096) {
    sizes[k][nsizes[k]++] = strtol(s, (char**)&s, 10);
    if (*s == ',') s++;
  }
}

int main(void) {
  setvbuf(stdout, NULL, _IOFBF, 1 << 16);
  while (fgets(line, MAXLINE, stdin)) {
    char* save = NULL;
    char* cmd = strtok_r(line, " \n", &save);
    if (!cmd) { printf("bad\n"); fflush(stdout); continue; }
    if (strcmp(cmd, "run") != 0) { printf("bad\n"); fflush(stdout); continue; }
    char* sidx = strtok_r(NULL, " \n", &save);
    char* ssrc = strtok_r(NULL, " \n", &save);
    char* sdst = strtok_r(NULL, " \n", &save);
    char* shex = strtok_r(NULL, " \n", &save);
    if (!sidx || !ssrc || !sdst || !shex) { printf("bad\n"); fflush(stdout); continue; }
    int idx = atoi(sidx);
    if (idx < 0 || idx >= NUM_FN) { printf("bad\n"); fflush(stdout); continue; }
    parse_sizes(ssrc, 0);
    parse_sizes(sdst, 1);
    size_t total = 0;
    if (shex[0] != '-') {
      size_t n = strlen(shex);
      for (size_t i = 0; i + 1 < n; i += 2) input[total++] = (uint8_t)(hexv(shex[i]) * 16 + hexv(shex[i + 1]));
    }

    wuffs_PKG__t* obj = (wuffs_PKG__t*)malloc(sizeof__wuffs_PKG__t());
    wuffs_base__status ist = wuffs_PKG__t__initialize(obj, sizeof__wuffs_PKG__t(), WUFFS_VERSION, 0);
    if (ist.repr) { printf("st=init:%s\n", ist.repr); fflush(stdout); free(obj); continue; }

    size_t delivered = 0, consumed = 0;
    uint8_t* pending = NULL; size_t npending = 0;
    int si = 0, di = 0;
    long calls = 0, susp = 0;
    nout = 0;
    const char* final = "ok";

    // first source chunk
    size_t chunk = (si < nsizes[0]) ? (size_t)sizes[0][si++] : total;
    if (chunk > total - delivered) chunk = total - delivered;
    // first destination piece
    size_t cap = (di < nsizes[1]) ? (size_t)sizes[1][di++] : 65536;
    uint8_t* dbuf = (uint8_t*)malloc(cap ? cap : 1);
    wuffs_base__io_buffer dst;
    dst.data.ptr = dbuf; dst.data.len = cap; dst.meta.wi = 0; dst.meta.ri = 0; dst.meta.pos = 0; dst.meta.closed = false;

    for (;;) {
      size_t n = npending + chunk;
      uint8_t* sbuf = (uint8_t*)malloc(n ? n : 1);
      if (npending) memcpy(sbuf, pending, npending);
      if (chunk) memcpy(sbuf + npending, input + delivered, chunk);
      delivered += chunk;
      chunk = 0;
      free(pending); pending = NULL;
      wuffs_base__io_buffer src;
      src.data.ptr = sbuf; src.data.len = n; src.meta.wi = n; src.meta.ri = 0;
      src.meta.pos = consumed; src.meta.closed = (delivered == total);

      wuffs_base__status st = fns[idx](obj, &dst, &src);
      calls++;

      consumed += src.meta.ri;
      npending = src.meta.wi - src.meta.ri;
      pending = (uint8_t*)malloc(npending ? npending : 1);
      if (npending) memcpy(pending, sbuf + src.meta.ri, npending);
      free(sbuf);

      if (!st.repr) { final = "ok"; break; }
      if (st.repr[0] != '$') { final = st.repr; break; }
      susp++;
      if (calls >= 200000) { final = "calls-cap"; break; }
      if (st.repr == wuffs_base__suspension__short_write) {
        if (dst.meta.wi == dst.data.len) {
          if (nout + dst.meta.wi > sizeof(out)) { final = "out-cap"; break; }
          memcpy(out + nout, dbuf, dst.meta.wi); nout += dst.meta.wi;
          uint64_t pos = dst.meta.pos + dst.meta.wi;
          free(dbuf);
          cap = (di < nsizes[1]) ? (size_t)sizes[1][di++] : 65536;
          dbuf = (uint8_t*)malloc(cap ? cap : 1);
          dst.data.ptr = dbuf; dst.data.len = cap; dst.meta.wi = 0; dst.meta.ri = 0; dst.meta.pos = pos;
        }
        continue;
      }
      if (st.repr == wuffs_base__suspension__short_read) {
        if (delivered < total) {
          chunk = (si < nsizes[0]) ? (size_t)sizes[0][si++] : (total - delivered);
          if (chunk > total - delivered) chunk = total - delivered;
          continue;
        }
        if (npending == 0) { final = st.repr; break; }
        continue;  // a yield with input still unread
      }
      final = st.repr; break;
    }
    if (nout + dst.meta.wi <= sizeof(out)) { memcpy(out + nout, dbuf, dst.meta.wi); nout += dst.meta.wi; }
    free(dbuf); free(pending);

    printf("st=");
    {
      // "$base: short read" -> "$short_read", "#pkg: e1" -> "#e1"
      const char* colon = strstr(final, ": ");
      const char* p = final;
      if (colon && (final[0] == '$' || final[0] == '#' || final[0] == '@')) { putchar(final[0]); p = colon + 2; }
      for (; *p; p++) putchar(*p == ' ' ? '_' : *p);
    }
    printf(" out=");
    if (nout == 0) putchar('-');
    for (size_t i = 0; i < nout; i++) printf("%02x", out[i]);
    printf(" ri=%llu acc=%llu g1=%llu calls=%ld susp=%ld\n", (unsigned long long)consumed,
           (unsigned long long)wuffs_PKG__t__get_acc(obj), (unsigned long long)wuffs_PKG__t__get_g1(obj), calls, susp);
    fflush(stdout);
    free(obj);
  }
  return 0;
}
`

type flavour struct {
	name  string
	cc    string
	flags []string
	env   []string
}

var flavours = []flavour{
	{"asan-ubsan", "clang", []string{"-fsanitize=address,undefined", "-fno-sanitize-recover=all", "-O0", "-w", "-g0"},
		[]string{"ASAN_OPTIONS=detect_leaks=0:allocator_may_return_null=1", "UBSAN_OPTIONS=print_stacktrace=0"}},
	{"gcc-O2", "gcc", []string{"-O2", "-w"}, nil},
}

type toolchain struct {
	dir     string
	baseC   string
	baseObj map[string]string // flavour name -> object
	cleanup func()
}

func setupToolchain(repo string) (*toolchain, error) {
	dir, cleanup := hlib.NewScratchDir("c05")
	tc := &toolchain{dir: dir, cleanup: cleanup, baseObj: map[string]string{}}
	// wuffs-c in-process (internal/cgen.Do, compiled into this binary from the working tree)
	o, err := cgen.Do([]string{"-package_name", "base"})
	if err != nil {
		cleanup()
		return nil, fmt.Errorf("wuffs-c gen base: %v", err)
	}
	tc.baseC = filepath.Join(dir, "wuffs-base.c")
	if err := os.WriteFile(tc.baseC, o, 0o644); err != nil {
		cleanup()
		return nil, err
	}
	// One base object for both flavours: the generated package code (and the base header's
	// inline functions it uses) is what gets instrumented, not the base module's own functions.
	obj := filepath.Join(dir, "base.o")
	if err := hlib.CC("gcc", "-O1", "-w", "-DWUFFS_IMPLEMENTATION", "-DWUFFS_CONFIG__MODULES", "-DWUFFS_CONFIG__MODULE__BASE",
		"-c", "-o", obj, tc.baseC); err != nil {
		cleanup()
		return nil, err
	}
	for _, fl := range flavours {
		tc.baseObj[fl.name] = obj
	}
	return tc, nil
}

// built package: generated C + one executable per flavour
type builtPkg struct {
	name   string
	dir    string
	csrc   string
	genErr string
	exe    map[string]string
	ccErr  map[string]string
	fnIdx  map[string]int           // public coroutine name -> index in the C table
	live   map[string]cgen.LiveFunc // "t.<name>" -> what the hook says about the coroutine
}

func (tc *toolchain) build(name string, p *wpkg) *builtPkg {
	bp := &builtPkg{name: name, exe: map[string]string{}, ccErr: map[string]string{}, fnIdx: map[string]int{}}
	bp.dir = filepath.Join(tc.dir, name)
	os.MkdirAll(bp.dir, 0o755)
	wf := filepath.Join(bp.dir, name+".wuffs")
	os.WriteFile(wf, []byte(p.text), 0o644)
	csrc, err := cgen.Do([]string{"-package_name", name, wf})
	if err != nil {
		bp.genErr = err.Error()
		return bp
	}
	bp.csrc = string(csrc)
	bp.live = map[string]cgen.LiveFunc{}
	if tm, files, err := loadPkg([]string{wf}, nil); err == nil {
		for _, lf := range cgen.Liveness(tm, files) {
			bp.live[lf.Name] = lf
		}
	}
	os.WriteFile(filepath.Join(bp.dir, name+".c"), csrc, 0o644)
	os.Symlink(tc.baseC, filepath.Join(bp.dir, "wuffs-base.c"))
	var fns []string
	for _, f := range p.funcs {
		if f.public {
			bp.fnIdx[f.name] = len(fns)
			fns = append(fns, fmt.Sprintf("&wuffs_%s__t__%s", name, f.name))
		}
	}
	main := fmt.Sprintf("#define WUFFS_IMPLEMENTATION\n#define WUFFS_CONFIG__MODULES\n#define WUFFS_CONFIG__MODULE__%s\n#include \"%s.c\"\n",
		strings.ToUpper(name), name)
	main += strings.NewReplacer("PKG", name, "FNS", strings.Join(fns, ", ")).Replace(probeMainC)
	os.WriteFile(filepath.Join(bp.dir, "main.c"), []byte(main), 0o644)
	var wg sync.WaitGroup
	var mu sync.Mutex
	for _, fl := range flavours {
		wg.Add(1)
		go func(fl flavour) {
			defer wg.Done()
			exe := filepath.Join(bp.dir, "m_"+fl.name)
			args := append([]string{}, fl.flags...)
			args = append(args, "-o", exe, filepath.Join(bp.dir, "main.c"), tc.baseObj[fl.name])
			err := hlib.CC(fl.cc, args...)
			mu.Lock()
			if err != nil {
				bp.ccErr[fl.name] = err.Error()
			} else {
				bp.exe[fl.name] = exe
			}
			mu.Unlock()
		}(fl)
	}
	wg.Wait()
	return bp
}

// proc is one running driver process.
type proc struct {
	exe    string
	env    []string
	cmd    *exec.Cmd
	in     io.WriteCloser
	out    *bufio.Reader
	stderr *strings.Builder
	mu     sync.Mutex
}

func newProc(exe string, env []string) *proc { return &proc{exe: exe, env: env} }

func (p *proc) start() error {
	p.cmd = exec.Command(p.exe)
	p.cmd.Env = append(os.Environ(), p.env...)
	var err error
	if p.in, err = p.cmd.StdinPipe(); err != nil {
		return err
	}
	o, err := p.cmd.StdoutPipe()
	if err != nil {
		return err
	}
	p.stderr = &strings.Builder{}
	p.cmd.Stderr = p.stderr
	p.out = bufio.NewReaderSize(o, 1<<21)
	return p.cmd.Start()
}

func (p *proc) stop() {
	if p.cmd != nil {
		p.in.Close()
		done := make(chan struct{})
		go func() { p.cmd.Wait(); close(done) }()
		select {
		case <-done:
		case <-time.After(5 * time.Second):
			p.cmd.Process.Kill()
			<-done
		}
		p.cmd = nil
	}
}

// run sends one line; a dead or silent process yields "crash:<reason>" / "timeout" and is restarted.
func (p *proc) run(line string) string {
	p.mu.Lock()
	defer p.mu.Unlock()
	if p.cmd == nil {
		if err := p.start(); err != nil {
			return "crash:start:" + err.Error()
		}
	}
	type res struct {
		s   string
		err error
	}
	ch := make(chan res, 1)
	go func() {
		if _, err := io.WriteString(p.in, line+"\n"); err != nil {
			ch <- res{"", err}
			return
		}
		s, err := p.out.ReadString('\n')
		ch <- res{s, err}
	}()
	select {
	case r := <-ch:
		if r.err != nil {
			p.cmd.Wait()
			msg := firstLine(sanitizerSummary(p.stderr.String()))
			p.cmd = nil
			return "crash:" + msg
		}
		return strings.TrimRight(r.s, "\n")
	case <-time.After(120 * time.Second):
		p.cmd.Process.Kill()
		p.cmd.Wait()
		p.cmd = nil
		return "timeout"
	}
}

func sanitizerSummary(s string) string {
	for _, l := range strings.Split(s, "\n") {
		if strings.Contains(l, "runtime error:") || strings.Contains(l, "ERROR: AddressSanitizer") {
			// strip addresses and paths
			if i := strings.Index(l, "runtime error:"); i >= 0 {
				return l[i:]
			}
			if i := strings.Index(l, "AddressSanitizer:"); i >= 0 {
				f := strings.Fields(l[i:])
				if len(f) >= 2 {
					return f[0] + " " + f[1]
				}
			}
			return l
		}
	}
	return strings.TrimSpace(s)
}

func firstLine(s string) string {
	if i := strings.IndexByte(s, '\n'); i >= 0 {
		s = s[:i]
	}
	if len(s) > 200 {
		s = s[:200]
	}
	return strings.ReplaceAll(s, " ", "_")
}
