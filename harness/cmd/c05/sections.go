package main

import (
	"fmt"
	"os"
	"sort"
	"strings"
	"sync"
	"time"

	cgen "github.com/google/wuffs/lang/verifc05"

	"wvh/hlib"
)

// ---- A: liveness

func sectionA(r *hlib.Run, tc *toolchain) {
	liveStd(r, r.Repo)
	nPkgs, nPub, nSub, size := 6, 12, 3, 14
	if r.Thorough {
		nPkgs, nPub = 60, 16
	}
	liveGenerated(r, tc.dir, r.Rand.Fork(), nPkgs, nPub, nSub, size)
}

// ---- process pools

type pool struct {
	procs []*proc
}

func newPool(exe string, env []string, n int) *pool {
	p := &pool{}
	for i := 0; i < n; i++ {
		p.procs = append(p.procs, newProc(exe, env))
	}
	return p
}

func (p *pool) close() {
	for _, q := range p.procs {
		q.stop()
	}
}

// runAll runs every line, in parallel over the pool's processes; results in input order.
func (p *pool) runAll(lines []string) []string {
	out := make([]string, len(lines))
	var wg sync.WaitGroup
	var mu sync.Mutex
	next := 0
	for _, q := range p.procs {
		wg.Add(1)
		go func(q *proc) {
			defer wg.Done()
			for {
				mu.Lock()
				i := next
				next++
				mu.Unlock()
				if i >= len(lines) {
					return
				}
				out[i] = q.run(lines[i])
			}
		}(q)
	}
	wg.Wait()
	return out
}

// ---- result lines

type runRes struct {
	raw   string
	st    string
	out   string
	ri    string
	acc   string
	g1    string
	susp  string
	crash bool
}

func parseRes(s string) runRes {
	rr := runRes{raw: s}
	if !strings.HasPrefix(s, "st=") {
		rr.crash = true
		rr.st = s
		return rr
	}
	for _, f := range strings.Fields(s) {
		kv := strings.SplitN(f, "=", 2)
		if len(kv) != 2 {
			continue
		}
		switch kv[0] {
		case "st":
			rr.st = kv[1]
		case "out":
			rr.out = kv[1]
		case "ri":
			rr.ri = kv[1]
		case "acc":
			rr.acc = kv[1]
		case "g1":
			rr.g1 = kv[1]
		case "susp":
			rr.susp = kv[1]
		}
	}
	return rr
}

func (rr runRes) isError() bool { return strings.HasPrefix(rr.st, "#") }

// sameResult is the property's oracle: output bytes, final status and observable state equal;
// the consumed-byte count only when the final status is not an error.
func sameResult(a, b runRes) (bool, string) {
	switch {
	case a.crash || b.crash:
		if a.raw == b.raw {
			return true, ""
		}
		return false, "one run crashed"
	case a.st != b.st:
		return false, "final status differs"
	case a.out != b.out:
		return false, "output bytes differ"
	case a.acc != b.acc || a.g1 != b.g1:
		return false, "observable state (getters) differs"
	case !a.isError() && a.ri != b.ri:
		return false, "consumed-byte count differs (final status is not an error)"
	}
	return true, ""
}

func sizesStr(v []int) string {
	if len(v) == 0 {
		return "-"
	}
	s := make([]string, len(v))
	for i, x := range v {
		s[i] = fmt.Sprint(x)
	}
	return strings.Join(s, ",")
}

// compositions of n (ordered), as chunk-size lists; the last part is left to "the rest".
func compositions(n int) [][]int {
	if n <= 0 {
		return [][]int{nil}
	}
	var out [][]int
	for mask := 0; mask < 1<<uint(n-1); mask++ {
		var parts []int
		run := 1
		for i := 0; i < n-1; i++ {
			if mask&(1<<uint(i)) != 0 {
				parts = append(parts, run)
				run = 1
			} else {
				run++
			}
		}
		out = append(out, parts) // the final run is delivered as "the rest"
	}
	return out
}

// ---- B and C share one compiled package

func sectionBC(r *hlib.Run, tc *toolchain, doB, doC bool) {
	rng := r.Rand.Fork()
	nPub, nSub, size := 28, 3, 16
	nPkgs := 1
	if r.Thorough {
		nPub, nPkgs = 40, 6
	}
	for k := 0; k < nPkgs; k++ {
		p := genPackage(rng.Fork(), nPub, nSub, size, k == 0)
		name := fmt.Sprintf("pc%d", k)
		tb := time.Now()
		bp := tc.build(name, p)
		r.Extra("seconds:build-"+name, time.Since(tb).Seconds())
		if bp.genErr != "" {
			// a generator bug or a compiler that rejects a valid program: not this property's
			// subject, but never silently skipped
			r.Count("C:pkg-rejected-by-wuffs-c")
			r.Note(name + " rejected: " + firstN(bp.genErr, 400))
			r.Fail("generated-package-rejected", "the working tree's wuffs-c rejects a generated package of coroutines (probes, templates and random F3s programs), so nothing of it can be run",
				"--- error\n"+firstN(bp.genErr, 2000)+"\n--- package\n"+p.text)
			continue
		}
		if len(bp.ccErr) > 0 {
			for fl, e := range bp.ccErr {
				r.Fail("generated-c-does-not-compile:"+fl, "wuffs-c output for a generated coroutine package is rejected by the C compiler",
					"--- package\n"+p.text+"\n--- compiler\n"+firstN(e, 3000))
			}
			continue
		}
		r.Count("C:packages-compiled")
		pools := map[string]*pool{}
		for _, fl := range flavours {
			pools[fl.name] = newPool(bp.exe[fl.name], fl.env, 6)
		}
		tb = time.Now()
		if doB && k == 0 {
			sectionB(r, rng.Fork(), p, bp, pools)
			r.Extra("seconds:B", time.Since(tb).Seconds())
		}
		tb = time.Now()
		if doC {
			sectionC(r, rng.Fork(), p, bp, pools)
			r.Extra("seconds:C-"+name, time.Since(tb).Seconds())
		}
		for _, pl := range pools {
			pl.close()
		}
	}
}

func firstN(s string, n int) string {
	if len(s) > n {
		return s[:n] + "…"
	}
	return s
}

// canonical model line from a C driver line (drop g1 and calls)
func modelLine(rr runRes) string {
	if rr.crash {
		return rr.raw
	}
	return fmt.Sprintf("st=%s out=%s ri=%s acc=%s susp=%s", rr.st, rr.out, rr.ri, rr.acc, rr.susp)
}

// modelCase builds the `case` op for coroutine t.<name>: the coroutine and, transitively, its
// callees, as the hook describes them. why != "": some construct is outside the executable model.
func modelCase(bp *builtPkg, name string) (line string, why string) {
	var order []string
	seen := map[string]bool{}
	var visit func(n string) string
	visit = func(n string) string {
		if seen[n] {
			return ""
		}
		seen[n] = true
		lf, ok := bp.live["t."+n]
		if !ok {
			return "no such coroutine: " + n
		}
		if lf.Err != "" || lf.Untied != "" {
			if n != name {
				return "callee: " + lf.Err + lf.Untied
			}
			return lf.Err + lf.Untied
		}
		order = append(order, n)
		for _, op := range lf.Ops {
			if f := strings.Fields(op); len(f) >= 3 && f[1] == "C" {
				if w := visit(f[2]); w != "" {
					return w
				}
			}
		}
		return ""
	}
	if w := visit(name); w != "" {
		return "", w
	}
	var b strings.Builder
	b.WriteString("case " + strings.Join(bp.live["t."+name].Statuses, ","))
	for _, n := range order {
		lf := bp.live["t."+n]
		fmt.Fprintf(&b, " | %s %d | %s | %s", n, len(lf.Vars), lf.TBody, strings.Join(lf.Ops, " ; "))
	}
	return b.String(), ""
}

// canonical model line of a `split` op from a C driver line (drop calls)
func splitLine(rr runRes) string {
	if rr.crash {
		return rr.raw
	}
	return fmt.Sprintf("st=%s out=%s ri=%s acc=%s g1=%s susp=%s", rr.st, rr.out, rr.ri, rr.acc, rr.g1, rr.susp)
}

func peekGo(be bool, bs []byte) uint64 {
	var v uint64
	if be {
		for _, b := range bs {
			v = v<<8 | uint64(b)
		}
	} else {
		for i := len(bs) - 1; i >= 0; i-- {
			v = v<<8 | uint64(bs[i])
		}
	}
	return v
}

type probeCase struct {
	fn     string
	ops    string
	accReg int
	src    []int
	dst    []int
	data   []byte
	key    string
	expect func(rr runRes) string // "" = fine; property-side expectation independent of the model
}

func sectionB(r *hlib.Run, rng *hlib.Rand, p *wpkg, bp *builtPkg, pools map[string]*pool) {
	var cases []probeCase
	rms := cgen.ReadMethods()
	byName := map[string]cgen.ReadMethod{}
	for _, m := range rms {
		byName[m.Name] = m
	}
	for _, m := range readMethodList {
		row, ok := byName[m.name]
		if !ok {
			r.Fail("read-method-missing:"+m.name, "builtin.go readMethods has no row for "+m.name, m.name)
			continue
		}
		nb := int(row.N) / 8
		e := "l"
		if row.Endianness == 'b' {
			e = "b"
		}
		ops := fmt.Sprintf("rd:%d:%d:%s:0", row.Size, row.N, e)
		nData := 2
		if r.Thorough {
			nData = 6
		}
		for d := 0; d < nData; d++ {
			extra := rng.Intn(3)
			data := rng.Bytes(nb + extra)
			if d == 1 {
				// high bits set everywhere: exercises the packing of num_bits next to the data
				for i := range data {
					data[i] |= 0x80
				}
			}
			want := peekGo(row.Endianness == 'b', data[:nb])
			nbc := nb
			exp := func(rr runRes) string {
				if rr.st != "ok" || rr.acc != fmt.Sprint(want) || rr.ri != fmt.Sprint(nbc) {
					return fmt.Sprintf("want st=ok acc=%d ri=%d", want, nbc)
				}
				return ""
			}
			for _, comp := range compositions(len(data)) {
				cases = append(cases, probeCase{fn: "p_" + m.name, ops: ops, src: comp, data: data, key: m.name, expect: exp})
			}
			// empty resumptions
			cases = append(cases, probeCase{fn: "p_" + m.name, ops: ops, src: []int{0, 1, 0, 0, 1}, data: data, key: m.name, expect: exp})
		}
		// truncated: every proper prefix, delivered byte by byte -> starved
		data := rng.Bytes(nb)
		for l := 0; l < nb; l++ {
			ll := l
			ones := make([]int, l)
			for i := range ones {
				ones[i] = 1
			}
			cases = append(cases, probeCase{fn: "p_" + m.name, ops: ops, src: ones, data: data[:l], key: m.name + ":truncated",
				expect: func(rr runRes) string {
					if rr.st != "$short_read" || rr.ri != fmt.Sprint(ll) {
						return fmt.Sprintf("want st=$short_read ri=%d", ll)
					}
					return ""
				}})
		}
	}
	// skip: count n in the first two bytes, n payload bytes, a marker byte, a trailing byte
	for _, variant := range []struct{ fn, ops string }{
		{"p_skip", "rd:64:16:l:0;skip:0;rd:8:8:b:1"},
		{"p_skip_u32", "rd:32:16:l:0;skip:0;rd:8:8:b:1"},
	} {
		for _, n := range []int{0, 1, 2, 5, 9} {
			data := append([]byte{byte(n), 0}, rng.Bytes(n)...)
			marker := byte(0xA0 + n)
			data = append(data, marker, 0x77)
			nn := n
			exp := func(rr runRes) string {
				if rr.st != "ok" || rr.acc != fmt.Sprint(marker) || rr.ri != fmt.Sprint(nn+3) {
					return fmt.Sprintf("want st=ok acc=%d ri=%d", marker, nn+3)
				}
				return ""
			}
			comps := compositions(len(data))
			if len(comps) > 600 {
				// sample
				var s [][]int
				for i := 0; i < 600; i++ {
					s = append(s, comps[rng.Intn(len(comps))])
				}
				comps = s
			}
			for _, comp := range comps {
				cases = append(cases, probeCase{fn: variant.fn, ops: variant.ops, accReg: 1, src: comp, data: data, key: variant.fn, expect: exp})
			}
			// truncated inside the skipped region
			if n >= 2 {
				cases = append(cases, probeCase{fn: variant.fn, ops: variant.ops, accReg: 1, src: []int{3, 1}, data: data[:2+n-1], key: variant.fn + ":truncated",
					expect: func(rr runRes) string {
						if rr.st != "$short_read" {
							return "want st=$short_read"
						}
						return ""
					}})
			}
		}
	}
	{
		data := []byte{1, 2, 0xC3, 9}
		for _, comp := range compositions(len(data)) {
			cases = append(cases, probeCase{fn: "p_skip1", ops: "skip1;skip1;rd:8:8:b:0", src: comp, data: data, key: "p_skip1",
				expect: func(rr runRes) string {
					if rr.st != "ok" || rr.acc != "195" || rr.ri != "3" {
						return "want st=ok acc=195 ri=3"
					}
					return ""
				}})
		}
	}
	for i := 0; i < 4; i++ {
		data := rng.Bytes(2)
		w := fmt.Sprintf("%02x%02x", byte(data[0]+data[1]), data[0]^data[1])
		for _, comp := range compositions(2) {
			for _, dst := range [][]int{nil, {0}, {1}, {0, 0, 1}, {1, 0, 1}, {2}, {1, 1}} {
				cases = append(cases, probeCase{fn: "p_write_u8", ops: "rd:8:8:b:0;rd:8:8:b:1;wr:add:0:1;wr:xor:0:1", accReg: 2, src: comp, dst: dst, data: data, key: "p_write_u8",
					expect: func(rr runRes) string {
						if rr.st != "ok" || rr.out != w {
							return "want st=ok out=" + w
						}
						return ""
					}})
			}
		}
	}

	for i := 0; i < 3; i++ {
		data := rng.Bytes(1)
		w := fmt.Sprintf("%02x", data[0])
		for _, dst := range [][]int{nil, {0}, {1}, {0, 0, 1}, {1, 0, 1}, {2}, {0, 1, 0, 0, 1}} {
			cases = append(cases, probeCase{fn: "p_write_dead", ops: "rd:8:8:b:0;wr:fst:0:0", accReg: 2, src: nil, dst: dst, data: data, key: "p_write_dead",
				expect: func(rr runRes) string {
					if rr.st != "ok" || rr.out != w {
						return "want st=ok out=" + w
					}
					return ""
				}})
		}
	}

	lines := make([]string, len(cases))
	for i, c := range cases {
		idx, ok := bp.fnIdx[c.fn]
		if !ok {
			fmt.Fprintln(os.Stderr, "c05: missing probe", c.fn)
			os.Exit(2)
		}
		lines[i] = fmt.Sprintf("run %d %s %s %s", idx, sizesStr(c.src), sizesStr(c.dst), hlib.Hex(c.data))
	}
	res := map[string][]string{}
	var wg sync.WaitGroup
	var mu sync.Mutex
	for fl, pl := range pools {
		wg.Add(1)
		go func(fl string, pl *pool) {
			defer wg.Done()
			o := pl.runAll(lines)
			mu.Lock()
			res[fl] = o
			mu.Unlock()
		}(fl, pl)
	}
	wg.Wait()
	for i, c := range cases {
		op := fmt.Sprintf("prog %s %d %s %s %s", c.ops, c.accReg, sizesStr(c.src), sizesStr(c.dst), hlib.Hex(c.data))
		var first runRes
		for j, fl := range flavours {
			rr := parseRes(res[fl.name][i])
			r.Op(op, modelLine(rr))
			r.Count("B:" + c.key)
			replay := fmt.Sprintf("probe coroutine t.%s (package below), flavour %s\n%s\n-> %s\n\n%s", c.fn, fl.name, lines[i], rr.raw, p.text)
			if rr.crash {
				r.Fail("probe-crash:"+c.key, "the compiled probe coroutine crashed: "+rr.raw, replay)
				continue
			}
			if msg := c.expect(rr); msg != "" {
				r.Fail("scratch:"+c.key, "suspending built-in gives a split-dependent or wrong result: "+msg+", got "+rr.raw, replay)
			}
			if j == 0 {
				first = rr
			} else if ok, why := sameResult(first, rr); !ok || first.susp != rr.susp {
				r.Fail("flavour-mismatch:"+c.key, "ASan/UBSan and gcc -O2 builds disagree: "+why, replay+"\nother flavour: "+first.raw)
			}
		}
		r.Nontrivial("B:" + c.fn + ":" + sizesStr(c.src) + ":" + sizesStr(c.dst) + ":" + fmt.Sprint(len(c.data)))
	}
}

// ---- C: generated programs, one-shot vs splits

func sectionC(r *hlib.Run, rng *hlib.Rand, p *wpkg, bp *builtPkg, pools map[string]*pool) {
	type job struct {
		f     *wfunc
		data  []byte
		lines []string // [0] = one-shot
		kinds []string
	}
	var jobs []*job
	nInputs := 3
	if r.Thorough {
		nInputs = 8
	}
	for _, f := range p.funcs {
		if !f.public || !f.exec || f.tag == "probe" {
			continue
		}
		idx := bp.fnIdx[f.name]
		for k := 0; k < nInputs; k++ {
			var data []byte
			switch k {
			case 0:
				data = rng.Bytes(rng.Range(20, 40))
			case 1:
				data = rng.Bytes(rng.Range(0, 12))
			default:
				data = rng.Bytes(rng.Range(8, 90))
				if rng.Bool() {
					// small values steer the data-dependent branches and skip counts
					for i := range data {
						data[i] &= 0x0F
					}
				}
			}
			j := &job{f: f, data: data}
			add := func(kind string, src, dst []int) {
				j.lines = append(j.lines, fmt.Sprintf("run %d %s %s %s", idx, sizesStr(src), sizesStr(dst), hlib.Hex(data)))
				j.kinds = append(j.kinds, kind)
			}
			add("oneshot", nil, nil)
			for s := 0; s <= len(data); s++ {
				add("src1", []int{s}, nil)
			}
			ones := func(n int) []int {
				v := make([]int, n)
				for i := range v {
					v[i] = 1
				}
				return v
			}
			add("src-bytewise", ones(len(data)), nil)
			add("dst-bytewise", nil, ones(300))
			add("both-bytewise", ones(len(data)), ones(300))
			for m := 0; m < 6; m++ {
				var src, dst []int
				for i := 0; i < len(data); i++ {
					src = append(src, rng.Intn(4))
				}
				for i := 0; i < 100; i++ {
					dst = append(dst, rng.Intn(4))
				}
				switch m % 3 {
				case 0:
					add("multi-src", src, nil)
				case 1:
					add("multi-dst", nil, dst)
				default:
					add("multi-both", src, dst)
				}
			}
			jobs = append(jobs, j)
		}
	}
	// pass 1: everything above; pass 2: single destination splits need the one-shot output length
	type flres struct{ out [][]string }
	run := func(get func(j *job) []string) map[string][][]string {
		var all []string
		var offs []int
		for _, j := range jobs {
			offs = append(offs, len(all))
			all = append(all, get(j)...)
		}
		offs = append(offs, len(all))
		out := map[string][][]string{}
		var wg sync.WaitGroup
		var mu sync.Mutex
		for fl, pl := range pools {
			wg.Add(1)
			go func(fl string, pl *pool) {
				defer wg.Done()
				o := pl.runAll(all)
				per := make([][]string, len(jobs))
				for i := range jobs {
					per[i] = o[offs[i]:offs[i+1]]
				}
				mu.Lock()
				out[fl] = per
				mu.Unlock()
			}(fl, pl)
		}
		wg.Wait()
		return out
	}
	res1 := run(func(j *job) []string { return j.lines })
	// destination single splits, from the ASan flavour's one-shot output length
	dstLines := make([][]string, len(jobs))
	for i, j := range jobs {
		one := parseRes(res1[flavours[0].name][i][0])
		n := 0
		if !one.crash && one.out != "-" {
			n = len(one.out) / 2
		}
		idx := bp.fnIdx[j.f.name]
		for s := 0; s <= n && s <= 64; s++ {
			dstLines[i] = append(dstLines[i], fmt.Sprintf("run %d - %d %s", idx, s, hlib.Hex(j.data)))
		}
	}
	res2 := run(func(j *job) []string {
		for i := range jobs {
			if jobs[i] == j {
				return dstLines[i]
			}
		}
		return nil
	})

	lastCase := ""
	for i, j := range jobs {
		var ones []runRes
		for fi, fl := range flavours {
			one := parseRes(res1[fl.name][i][0])
			ones = append(ones, one)
			// correspondence: the executable model (Model/SplitRun.lean: the liveness result,
			// the scratch machines, the control flow) runs the same coroutine, as the hook
			// describes it, under the same chunking. First flavour only.
			if lf, ok := bp.live["t."+j.f.name]; fi == 0 && ok {
				caseLine, why := modelCase(bp, j.f.name)
				if why != "" {
					r.Count("C:model-not-run:" + firstN(why, 60))
				} else {
					if lastCase != j.f.name {
						lastCase = j.f.name
						r.Op(caseLine, "defined")
						r.Count("C:model-coroutines")
						if strings.Contains(caseLine, " C ") {
							r.Count("C:model-coroutines-with-nested-calls")
						}
					}
					_ = lf
					all := append(append([]string{}, j.lines...), dstLines[i]...)
					outs := append(append([]string{}, res1[fl.name][i]...), res2[fl.name][i]...)
					for k := range all {
						f := strings.Fields(all[k]) // run <idx> <src> <dst> <hex>
						r.Op(fmt.Sprintf("split %s %s %s", f[2], f[3], f[4]), splitLine(parseRes(outs[k])))
						r.Count("C:model-runs")
					}
				}
			}
			r.Count("C:oneshot-status:" + statusClass(one))
			lines := append(append([]string{}, j.lines[1:]...), dstLines[i]...)
			kinds := append([]string{}, j.kinds[1:]...)
			for range dstLines[i] {
				kinds = append(kinds, "dst1")
			}
			outs := append(append([]string{}, res1[fl.name][i][1:]...), res2[fl.name][i]...)
			for k := range lines {
				rr := parseRes(outs[k])
				r.Count("C:runs:" + kinds[k])
				if rr.susp != "" && rr.susp != "0" {
					r.Count("C:runs-with-suspension")
				}
				r.Nontrivial("C:" + j.f.name + ":" + fmt.Sprint(i) + ":" + lines[k][:min(len(lines[k]), 60)])
				if ok, why := sameResult(one, rr); !ok {
					key := "split-dependent:" + j.f.tag
					if rr.crash || one.crash {
						key = "crash:" + j.f.tag
					}
					r.Fail(key, fmt.Sprintf("coroutine t.%s: %s (%s run, flavour %s)", j.f.name, why, kinds[k], fl.name),
						fmt.Sprintf("coroutine t.%s of the package below; flavour %s\none-shot: %s\n  -> %s\n%s: %s\n  -> %s\n\n%s",
							j.f.name, fl.name, j.lines[0], one.raw, kinds[k], lines[k], rr.raw, p.text))
					break
				}
			}
		}
		if ok, why := sameResult(ones[0], ones[1]); !ok {
			r.Fail("flavour-mismatch:"+j.f.tag, "ASan/UBSan and gcc -O2 builds disagree on a one-shot run: "+why,
				fmt.Sprintf("coroutine t.%s\n%s\n%s: %s\n%s: %s\n\n%s", j.f.name, j.lines[0], flavours[0].name, ones[0].raw, flavours[1].name, ones[1].raw, p.text))
		}
		r.Sample(j.lines[0] + " -> " + ones[0].raw)
	}
	tags := map[string]int{}
	for _, f := range p.funcs {
		tags[f.tag]++
	}
	var ks []string
	for k := range tags {
		ks = append(ks, k)
	}
	sort.Strings(ks)
	for _, k := range ks {
		r.CountN("C:funcs:"+k, tags[k])
	}
}

func statusClass(rr runRes) string {
	switch {
	case rr.crash:
		return "crash"
	case rr.st == "ok":
		return "ok"
	case strings.HasPrefix(rr.st, "#"):
		return "error"
	case strings.HasPrefix(rr.st, "$"):
		return "starved"
	}
	return rr.st
}
