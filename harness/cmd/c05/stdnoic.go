package main

// Section D, third part ("N"): image decoders driven WITHOUT a prior decode_image_config.
//
// doc/std/image-decoders-call-sequence.md lets a caller start with decode_frame_config (the
// decoder then decodes the image config implicitly). The general sweep (cdrv `run`) always calls
// decode_image_config first, so the implicit path - a coroutine that runs another public
// coroutine's body and may suspend inside it - was never resumed. Here the scripted `proto`
// command of harness/cdrv is used:
//
//	init; (src:<piece>; dfc)* ...   decode_frame_config until it stops answering "$short read",
//	dfc again (now it SKIPS the frame: the whole frame is decoded into nothing), and so on, up to
//	noicMaxPhases phases or a final status. After every call: call_sequence (`cs`),
//	frame_dirty_rect, num_decoded_frame_configs, num_decoded_frames.
//
// A new source piece is supplied only after "$short read" (as `run` does); the last piece is
// marked closed. Because a proto script is static, a plan is run in rounds: each round fixes the
// place where one more phase ended and rebuilds the script (the object is fresh every round).
// Oracle: the phases (status, consumed count unless the status is an error, the four getters)
// of every split plan equal those of the plan that hands over everything at once.
//
// A family that starts with decode_frame is NOT possible with the existing driver commands:
// `pix` builds the pixel buffer from the image config of a `dic` call, and decode_frame with a
// NULL pixel buffer is "#base: bad argument" before anything is read.

import (
	"fmt"
	"strconv"
	"strings"
	"sync"

	"wvh/cdrv"
	"wvh/hlib"
)

const noicMaxPhases = 4
const noicGroup = "dfc;cs;fdr;ndfc;ndf"

type noicPlan struct {
	kind   string
	pieces []int
}

type noicOut struct {
	phases []string // canonical text of each phase
	cmd    string   // the last command
	raw    string   // its answer
	crash  string
}

// noicRunPlan drives one plan adaptively. d: a process of its own.
func noicRunPlan(d *cdrv.Driver, codec, hex string, pieces []int) noicOut {
	var out noicOut
	prefix := []string{"init"}
	next := 0 // next piece to supply
	atStart := true
	for round := 0; round < noicMaxPhases; round++ {
		// tail: a call without new input (unless nothing was supplied yet), then piece + call
		var tail []string
		var tailPiece []int // per call group of the tail: index of the last piece supplied before it
		if !atStart {
			tail = append(tail, noicGroup)
			tailPiece = append(tailPiece, next-1)
		}
		for i := next; i < len(pieces); i++ {
			c := ""
			if i == len(pieces)-1 {
				c = "c"
			}
			tail = append(tail, fmt.Sprintf("src:%d%s", pieces[i], c), noicGroup)
			tailPiece = append(tailPiece, i)
		}
		script := strings.Join(append(append([]string{}, prefix...), tail...), ";")
		out.cmd = "proto " + codec + " " + script + " " + hex
		line, err := d.Run(out.cmd)
		out.raw = line
		if err != nil {
			if ce, ok := err.(*cdrv.CrashError); ok {
				out.crash = ce.Kind()
			} else {
				out.crash = "error:" + err.Error()
			}
			out.phases = append(out.phases, "crash:"+out.crash)
			return out
		}
		f := strings.Fields(line)
		if len(f) < 2 || f[0] != "ok" {
			out.crash = "unparsable"
			out.phases = append(out.phases, "unparsable")
			return out
		}
		toks := strings.Split(f[1], ";")
		// walk the items next to their tokens, tracking the absolute source position
		items := strings.Split(script, ";")
		if len(toks) != len(items) {
			out.crash = "unparsable"
			out.phases = append(out.phases, fmt.Sprintf("unparsable: %d tokens for %d items", len(toks), len(items)))
			return out
		}
		nPrefixItems := len(strings.Split(strings.Join(prefix, ";"), ";"))
		var pos, lastR uint64
		call := -1 // call group index within the tail
		ended := false
		for k := 0; k < len(items) && !ended; k++ {
			switch {
			case strings.HasPrefix(items[k], "src:"):
				pos += lastR
				lastR = 0
			case items[k] == "dfc":
				tok := toks[k]
				status, flags := tok, ""
				if i := strings.LastIndex(tok, "/r"); i >= 0 {
					if v, e := strconv.ParseUint(tok[i+2:], 10, 64); e == nil {
						lastR = v
						status = tok[:i]
					}
				}
				if i := strings.Index(status, "!"); i >= 0 {
					flags = status[i:]
					status = status[:i]
				}
				if k < nPrefixItems {
					continue
				}
				call++
				lastPiece := tailPiece[call]
				exhausted := lastPiece == len(pieces)-1
				if status == "$base:_short_read" && !exhausted {
					continue
				}
				// the phase ends here
				ended = true
				cons := fmt.Sprint(pos + lastR)
				if strings.HasPrefix(status, "#") {
					cons = "-"
				}
				get := ""
				if k+4 < len(toks) {
					get = fmt.Sprintf("%s fdr=%s ndfc=%s ndf=%s", toks[k+1], toks[k+2], toks[k+3], toks[k+4])
				}
				out.phases = append(out.phases, fmt.Sprintf("status=%s%s consumed=%s %s", status, flags, cons, get))
				if status != "ok" {
					return out // final: error, note (end of data), or a suspension with nothing left to give
				}
				prefix = append([]string{}, items[:k+5]...)
				next = lastPiece + 1
				atStart = false
			}
		}
		if !ended {
			out.phases = append(out.phases, "no-call")
			return out
		}
	}
	return out
}

func noicPlans(rng *hlib.Rand, n int, thorough bool) []noicPlan {
	ps := []noicPlan{{"oneshot", []int{n}}}
	if n < 2 {
		return ps
	}
	lim := 64
	if thorough {
		lim = 256
	}
	for k := 1; k <= lim && k < n; k++ {
		ps = append(ps, noicPlan{"src1", []int{k, n - k}})
	}
	one := make([]int, n)
	for i := range one {
		one[i] = 1
	}
	ps = append(ps, noicPlan{"src-bytewise", one})
	nMulti := 3
	if thorough {
		nMulti = 12
	}
	for m := 0; m < nMulti; m++ {
		var p []int
		left := n
		hi := 1 + n/8
		if m%3 == 0 {
			hi = 12 // small pieces all the way: several suspensions inside every header
		}
		for left > 0 {
			x := rng.Range(1, hi)
			if x > left {
				x = left
			}
			p = append(p, x)
			left -= x
		}
		ps = append(ps, noicPlan{"multi", p})
	}
	return ps
}

func isWebpLossy(b []byte) bool {
	// RIFF....WEBPVP8_ : the simple lossy format; VP8X containers are told by their first
	// image chunk
	if len(b) < 16 || string(b[8:12]) != "WEBP" {
		return false
	}
	if string(b[12:16]) == "VP8 " {
		return true
	}
	if string(b[12:16]) == "VP8X" {
		for p := 12; p+8 <= len(b); {
			if string(b[p:p+4]) == "VP8 " {
				return true
			}
			if string(b[p:p+4]) == "VP8L" {
				return false
			}
			sz := int(b[p+4]) | int(b[p+5])<<8 | int(b[p+6])<<16 | int(b[p+7])<<24
			p += 8 + sz + sz&1
		}
	}
	return false
}

func noicSweep(r *hlib.Run, ds map[cdrv.Flavour]*cdrv.Driver, fls []cdrv.Flavour, have map[string]byte, rng *hlib.Rand) {
	maxLen, perCodec := 3000, 3
	if r.Thorough {
		maxLen, perCodec = 20000, 8
	}
	var inputs []stdInput
	seen := map[string]bool{}
	for _, in := range testDataInputs(r.Repo, maxLen, perCodec) {
		if have[in.codec] == 'I' {
			inputs = append(inputs, in)
			seen[in.name] = true
		}
	}
	// both flavours of webp, whatever the size-spread picked
	for _, in := range testDataInputs(r.Repo, 20000, 1000) {
		if in.codec != "webp" || have["webp"] != 'I' || seen[in.name] {
			continue
		}
		if in.name == "pjw-thumbnail.lossy.webp" || in.name == "hippopotamus.lossy.webp" || in.name == "hippopotamus.lossless.webp" {
			inputs = append(inputs, in)
			seen[in.name] = true
		}
	}

	type task struct {
		in   stdInput
		fl   cdrv.Flavour
		plan noicPlan
		out  noicOut
	}
	var tasks []*task
	for _, in := range inputs {
		plans := noicPlans(rng, len(in.data), r.Thorough)
		for _, fl := range fls {
			for pi, p := range plans {
				if fl == cdrv.AsanUbsan && p.kind == "src1" && pi%4 != 1 {
					continue
				}
				tasks = append(tasks, &task{in: in, fl: fl, plan: p})
			}
		}
	}
	var wg sync.WaitGroup
	for _, fl := range fls {
		var mine []*task
		for _, t := range tasks {
			if t.fl == fl {
				mine = append(mine, t)
			}
		}
		var mu sync.Mutex
		nextT := 0
		for w := 0; w < 8; w++ {
			wg.Add(1)
			go func(fl cdrv.Flavour, mine []*task) {
				defer wg.Done()
				d := ds[fl].Spawn()
				defer d.Close()
				for {
					mu.Lock()
					i := nextT
					nextT++
					mu.Unlock()
					if i >= len(mine) {
						return
					}
					t := mine[i]
					t.out = noicRunPlan(d, t.in.codec, hlib.Hex(t.in.data), t.plan.pieces)
				}
			}(fl, mine)
		}
	}
	wg.Wait()

	one := map[string]*task{}
	failed := map[string]bool{}
	for _, t := range tasks {
		id := string(t.fl) + "/" + t.in.codec + "/" + t.in.name
		if t.plan.kind == "oneshot" {
			one[id] = t
			r.Count("N:inputs:" + t.in.codec)
			last := t.out.phases[len(t.out.phases)-1]
			st := strings.Fields(last)[0]
			if t.out.crash != "" {
				st = "crash"
			} else if strings.HasPrefix(st, "status=#") {
				st = "status=error"
			}
			r.Count("N:oneshot-final:" + st)
			r.Count(fmt.Sprintf("N:oneshot-phases:%d", len(t.out.phases)))
			continue
		}
		o := one[id]
		if o == nil || failed[id] {
			continue
		}
		if o.out.crash != "" {
			r.Count("N:oneshot-crash-not-this-property:" + t.in.codec + ":" + o.out.crash)
			continue
		}
		r.Count("N:runs:" + t.plan.kind)
		r.Nontrivial(fmt.Sprintf("N:%s:%s:%s:%s", t.in.codec, t.in.name, t.plan.kind, joinInts(firstInts(t.plan.pieces, 6))))
		a, b := strings.Join(o.out.phases, " | "), strings.Join(t.out.phases, " | ")
		if a == b {
			continue
		}
		failed[id] = true
		key := "split-dependent:no-image-config:" + t.in.codec
		if t.in.codec == "webp" && isWebpLossy(t.in.data) && t.out.crash == "" {
			key = "split-dependent:webp-lossy-frame-config-without-image-config"
		} else if t.out.crash != "" {
			key = "crash:no-image-config:" + t.in.codec + ":" + t.out.crash
		}
		r.Fail(key, fmt.Sprintf("std/%s (%s): decode_frame_config calls without a prior decode_image_config give different results when the source is split (%s plan %s, %s build)",
			t.in.codec, t.in.name, t.plan.kind, firstN(joinInts(t.plan.pieces), 60), t.fl),
			fmt.Sprintf("one call:  %s\nsplit:     %s\none call (last round): %s\n  -> %s\nsplit (last round): %s\n  -> %s",
				a, b, firstN(o.out.cmd, 400), firstN(o.out.raw, 400), firstN(t.out.cmd, 3000), firstN(t.out.raw, 3000)))
	}
}

func firstInts(xs []int, n int) []int {
	if len(xs) > n {
		return xs[:n]
	}
	return xs
}
