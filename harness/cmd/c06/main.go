// C06 harness: lib/interval vs the Lean model (Model/Interval.lean), plus the
// property's own oracle evaluated on the implementation with math/big,
// independent of the model:
//
//   - containment   every sampled / enumerated member pair's concrete result is in the result interval
//   - tightness     all four bounds finite: brute force on small boxes (all ops), the four corners
//     for the operators that are monotone along each axis (add sub mul quo lsh rsh, any
//     magnitude), Warren's bit-serial min/max AND/OR (Hacker's Delight 4-3) for and/or
//   - exact failure quo/lsh/rsh fail iff some pair is undefined; the others never fail
//   - freshness     result pointers differ from operand pointers and package-level values; after
//     scribbling over the result's big.Ints (incl. the spare capacity of their word
//     arrays) the operands and the package-level values are unchanged
//
// Cases are generated sequentially from the seed, evaluated in parallel (each
// case carries its own PRNG seed), and emitted sequentially in generation
// order, so ops.txt / impl.txt / stats.json are deterministic per (seed, tier).
package main

import (
	"bufio"
	"fmt"
	"math/big"
	"os"
	"path/filepath"
	"runtime"
	"sort"
	"strings"
	"sync"
	"sync/atomic"

	"github.com/google/wuffs/lib/interval"
	"wvh/hlib"
)

type bound = *big.Int // nil = infinite

type IR = interval.IntRange

func showB(b bound) string {
	if b == nil {
		return "inf"
	}
	return b.String()
}
func showR(r IR) string { return showB(r[0]) + " " + showB(r[1]) }

var ops = []string{"add", "sub", "mul", "quo", "lsh", "rsh", "and", "or", "unite", "intersect"}

func bi(i int64) *big.Int { return big.NewInt(i) }

func cp(b bound) bound {
	if b == nil {
		return nil
	}
	return new(big.Int).Set(b)
}

func cpR(r IR) IR { return IR{cp(r[0]), cp(r[1])} }

func apply(op string, x, y IR) (z IR, ok bool) {
	switch op {
	case "add":
		return x.TryAdd(y)
	case "sub":
		return x.TrySub(y)
	case "mul":
		return x.TryMul(y)
	case "quo":
		return x.TryQuo(y)
	case "lsh":
		return x.TryLsh(y)
	case "rsh":
		return x.TryRsh(y)
	case "and":
		return x.TryAnd(y)
	case "or":
		return x.TryOr(y)
	case "unite":
		return x.TryUnite(y)
	case "intersect":
		return x.TryIntersect(y)
	}
	panic("bad op")
}

// maxEvalShift: concrete left shifts by more than this are not evaluated by the oracle.
const maxEvalShift = 4096

// concrete semantics, independent of the package under test.
// (nil, false): undefined.  (nil, true): defined but too big to evaluate (member skipped).
func concrete(op string, a, b *big.Int) (*big.Int, bool) {
	z := new(big.Int)
	switch op {
	case "add":
		return z.Add(a, b), true
	case "sub":
		return z.Sub(a, b), true
	case "mul":
		return z.Mul(a, b), true
	case "quo":
		if b.Sign() == 0 {
			return nil, false
		}
		return z.Quo(a, b), true
	case "lsh":
		if b.Sign() < 0 {
			return nil, false
		}
		if a.Sign() == 0 {
			return z, true
		}
		if !b.IsInt64() || b.Int64() > maxEvalShift {
			return nil, true
		}
		return z.Lsh(a, uint(b.Int64())), true
	case "rsh":
		if b.Sign() < 0 {
			return nil, false
		}
		if !b.IsInt64() || b.Int64() > 1<<20 {
			if a.BitLen() > 1<<20 {
				return nil, true
			}
			if a.Sign() < 0 {
				return z.SetInt64(-1), true
			}
			return z, true
		}
		return z.Rsh(a, uint(b.Int64())), true
	case "and":
		return z.And(a, b), true
	case "or":
		return z.Or(a, b), true
	}
	panic("bad op")
}

func empty(r IR) bool { return r[0] != nil && r[1] != nil && r[0].Cmp(r[1]) > 0 }

func finite(r IR) bool { return r[0] != nil && r[1] != nil }

func contains(r IR, v *big.Int) bool {
	return (r[0] == nil || r[0].Cmp(v) <= 0) && (r[1] == nil || r[1].Cmp(v) >= 0)
}

// ---- members

// bitNeighbours appends, for a bound b, the values at which bit-wise and/or
// extremes are attained: b with its low i bits cleared / set, and the next
// multiple of 2^i above / below (Warren's candidates, the code's "maximal
// elements").
func bitNeighbours(rng *hlib.Rand, b *big.Int, add func(*big.Int)) {
	n := b.BitLen() + 2
	pos := make([]int, 0, 16)
	if n <= 14 {
		for i := 0; i < n; i++ {
			pos = append(pos, i)
		}
	} else {
		pos = append(pos, 0, 1, 2, n-1, n-2, n-3)
		for len(pos) < 14 {
			pos = append(pos, rng.Intn(n))
		}
	}
	for _, i := range pos {
		fl := new(big.Int).Rsh(b, uint(i)) // floor(b / 2^i), also for negatives
		dn := new(big.Int).Lsh(fl, uint(i))
		up := new(big.Int).Lsh(new(big.Int).Add(fl, bi(1)), uint(i))
		add(dn)
		add(new(big.Int).Sub(dn, bi(1)))
		add(up)
		add(new(big.Int).Sub(up, bi(1)))
	}
}

// members returns sample members of r: all members when the width is at most
// exhaustiveWidth, otherwise corners, near-corners, small values, random
// members and (bits=true) bit-structured neighbours of the bounds.
func members(rng *hlib.Rand, r IR, exhaustiveWidth int64, bits bool) (out []*big.Int, all bool) {
	if empty(r) {
		return nil, true
	}
	seen := map[string]bool{}
	add := func(v *big.Int) {
		if contains(r, v) {
			s := v.String()
			if !seen[s] {
				seen[s] = true
				out = append(out, v)
			}
		}
	}
	if finite(r) {
		w := new(big.Int).Sub(r[1], r[0])
		if w.IsInt64() && w.Int64() <= exhaustiveWidth {
			for i := int64(0); i <= w.Int64(); i++ {
				out = append(out, new(big.Int).Add(r[0], bi(i)))
			}
			return out, true
		}
	}
	for _, c := range []int64{-2, -1, 0, 1, 2} {
		add(bi(c))
	}
	for _, b := range []*big.Int{r[0], r[1]} {
		if b == nil {
			continue
		}
		for _, d := range []int64{0, 1, 2, 3, -1, -2, -3} {
			add(new(big.Int).Add(b, bi(d)))
		}
		if bits {
			bitNeighbours(rng, b, add)
		}
	}
	for i := 0; i < 6; i++ {
		var v *big.Int
		switch {
		case r[0] != nil && r[1] != nil:
			w := new(big.Int).Sub(r[1], r[0])
			w.Add(w, bi(1))
			v = new(big.Int).SetUint64(rng.Uint64())
			v.Mul(v, new(big.Int).SetUint64(rng.Uint64()))
			v.Mul(v, new(big.Int).SetUint64(rng.Uint64()))
			v.Mod(v, w)
			v.Add(v, r[0])
		case r[0] != nil:
			m := randMag(rng)
			v = new(big.Int).Add(r[0], m.Abs(m))
		case r[1] != nil:
			m := randMag(rng)
			v = new(big.Int).Sub(r[1], m.Abs(m))
		default:
			v = randMag(rng)
		}
		add(v)
	}
	return out, false
}

// ---- reference min/max of and/or over finite boxes (Warren, Hacker's Delight 4-3), signed via
// sign split + De Morgan + two's-complement bias. Independent of lib/interval's algorithm.

func lowMask(i int) *big.Int {
	m := new(big.Int).Lsh(bi(1), uint(i))
	return m.Sub(m, bi(1))
}

func maxBitLen(vs ...*big.Int) int {
	n := 0
	for _, v := range vs {
		if v.BitLen() > n {
			n = v.BitLen()
		}
	}
	return n
}

// all arguments non-negative, a<=b, c<=d
func refMinOR(a, b, c, d *big.Int) *big.Int {
	a, c = new(big.Int).Set(a), new(big.Int).Set(c)
	for i := maxBitLen(a, b, c, d) - 1; i >= 0; i-- {
		ai, ci := a.Bit(i), c.Bit(i)
		if ai == 0 && ci == 1 {
			t := new(big.Int).SetBit(a, i, 1)
			t.AndNot(t, lowMask(i))
			if t.Cmp(b) <= 0 {
				a = t
				break
			}
		} else if ai == 1 && ci == 0 {
			t := new(big.Int).SetBit(c, i, 1)
			t.AndNot(t, lowMask(i))
			if t.Cmp(d) <= 0 {
				c = t
				break
			}
		}
	}
	return new(big.Int).Or(a, c)
}

func refMaxOR(a, b, c, d *big.Int) *big.Int {
	b, d = new(big.Int).Set(b), new(big.Int).Set(d)
	for i := maxBitLen(a, b, c, d) - 1; i >= 0; i-- {
		if b.Bit(i) == 1 && d.Bit(i) == 1 {
			t := new(big.Int).SetBit(b, i, 0)
			t.Or(t, lowMask(i))
			if t.Cmp(a) >= 0 {
				b = t
				break
			}
			t = new(big.Int).SetBit(d, i, 0)
			t.Or(t, lowMask(i))
			if t.Cmp(c) >= 0 {
				d = t
				break
			}
		}
	}
	return new(big.Int).Or(b, d)
}

func refMinAND(a, b, c, d *big.Int) *big.Int {
	a, c = new(big.Int).Set(a), new(big.Int).Set(c)
	for i := maxBitLen(a, b, c, d) - 1; i >= 0; i-- {
		if a.Bit(i) == 0 && c.Bit(i) == 0 {
			t := new(big.Int).SetBit(a, i, 1)
			t.AndNot(t, lowMask(i))
			if t.Cmp(b) <= 0 {
				a = t
				break
			}
			t = new(big.Int).SetBit(c, i, 1)
			t.AndNot(t, lowMask(i))
			if t.Cmp(d) <= 0 {
				c = t
				break
			}
		}
	}
	return new(big.Int).And(a, c)
}

func refMaxAND(a, b, c, d *big.Int) *big.Int {
	b, d = new(big.Int).Set(b), new(big.Int).Set(d)
	for i := maxBitLen(a, b, c, d) - 1; i >= 0; i-- {
		bi_, di := b.Bit(i), d.Bit(i)
		if bi_ == 1 && di == 0 {
			t := new(big.Int).SetBit(b, i, 0)
			t.Or(t, lowMask(i))
			if t.Cmp(a) >= 0 {
				b = t
				break
			}
		} else if bi_ == 0 && di == 1 {
			t := new(big.Int).SetBit(d, i, 0)
			t.Or(t, lowMask(i))
			if t.Cmp(c) >= 0 {
				d = t
				break
			}
		}
	}
	return new(big.Int).And(b, d)
}

func not(v *big.Int) *big.Int { return new(big.Int).Not(v) }

// signSplit of a finite non-empty [a,b]: negative part, non-negative part (nil if absent)
func signSplit(a, b *big.Int) (neg, non *[2]*big.Int) {
	if a.Sign() < 0 {
		h := bi(-1)
		if b.Sign() < 0 {
			h = b
		}
		neg = &[2]*big.Int{a, h}
	}
	if b.Sign() >= 0 {
		l := bi(0)
		if a.Sign() >= 0 {
			l = a
		}
		non = &[2]*big.Int{l, b}
	}
	return
}

// refAnd returns the exact [min,max] of xx&yy over a finite non-empty box.
func refAnd(a, b, c, d *big.Int) (lo, hi *big.Int) {
	upd := func(l, h *big.Int) {
		if lo == nil || l.Cmp(lo) < 0 {
			lo = l
		}
		if hi == nil || h.Cmp(hi) > 0 {
			hi = h
		}
	}
	xn, xp := signSplit(a, b)
	yn, yp := signSplit(c, d)
	negNon := func(n, p *[2]*big.Int) {
		w := uint(maxBitLen(n[0], n[1], p[0], p[1]) + 1)
		bias := new(big.Int).Lsh(bi(1), w)
		n0, n1 := new(big.Int).Add(n[0], bias), new(big.Int).Add(n[1], bias)
		upd(refMinAND(n0, n1, p[0], p[1]), refMaxAND(n0, n1, p[0], p[1]))
	}
	if xn != nil && yn != nil {
		// x&y = ~(~x | ~y)
		a2, b2, c2, d2 := not(xn[1]), not(xn[0]), not(yn[1]), not(yn[0])
		upd(not(refMaxOR(a2, b2, c2, d2)), not(refMinOR(a2, b2, c2, d2)))
	}
	if xn != nil && yp != nil {
		negNon(xn, yp)
	}
	if xp != nil && yn != nil {
		negNon(yn, xp)
	}
	if xp != nil && yp != nil {
		upd(refMinAND(xp[0], xp[1], yp[0], yp[1]), refMaxAND(xp[0], xp[1], yp[0], yp[1]))
	}
	return
}

func refOr(a, b, c, d *big.Int) (lo, hi *big.Int) {
	l, h := refAnd(not(b), not(a), not(d), not(c))
	return not(h), not(l)
}

// ---- generators

func randMag(rng *hlib.Rand) *big.Int {
	k := rng.Intn(70)
	if rng.Chance(1, 8) {
		k = 60 + rng.Intn(75)
	}
	v := new(big.Int).Lsh(bi(1), uint(k))
	v.Add(v, bi(int64(rng.Intn(5)-2)))
	if rng.Chance(1, 3) {
		v.Sub(v, new(big.Int).SetUint64(rng.Uint64()>>uint(64-imin(k, 63))))
	}
	if rng.Bool() {
		v.Neg(v)
	}
	return v
}

func imin(a, b int) int {
	if a < b {
		return a
	}
	return b
}

func randBound(rng *hlib.Rand, small bool) bound {
	if rng.Chance(1, 7) {
		return nil
	}
	if small {
		return bi(int64(rng.Intn(41) - 20))
	}
	switch rng.Intn(4) {
	case 0:
		return bi(int64(rng.Intn(41) - 20))
	case 1:
		return bi(int64(rng.Intn(2001) - 1000))
	default:
		return randMag(rng)
	}
}

func randRange(rng *hlib.Rand, small bool) IR {
	a, b := randBound(rng, small), randBound(rng, small)
	if a != nil && b != nil && a.Cmp(b) > 0 && !rng.Chance(1, 10) {
		a, b = b, a // mostly non-empty
	}
	if rng.Chance(1, 4) && a != nil {
		// narrow range near a
		b = new(big.Int).Add(a, bi(int64(rng.Intn(40))))
	}
	return IR{a, b}
}

// for shifts: keep counts small (0..200).
func shiftRange(rng *hlib.Rand) IR {
	var a bound = bi(int64(rng.Intn(70)))
	if rng.Chance(1, 4) {
		a = bi(int64(rng.Intn(201)))
	}
	if rng.Chance(1, 10) {
		a = bi(int64(rng.Intn(8) - 4))
	}
	var b bound = new(big.Int).Add(a, bi(int64(rng.Intn(10))))
	if rng.Chance(1, 8) {
		b = nil
	}
	if rng.Chance(1, 12) {
		return IR{nil, b}
	}
	if rng.Chance(1, 20) {
		a, b = b, a
		if a == nil {
			a = bi(3)
		}
	}
	return IR{a, b}
}

// randBits returns a non-negative value of exactly w bits (w >= 1) with a chosen bit texture.
func randBits(rng *hlib.Rand, w int) *big.Int {
	raw := func() *big.Int {
		v := new(big.Int)
		for i := 0; i < (w+63)/64; i++ {
			v.Lsh(v, 64)
			v.Or(v, new(big.Int).SetUint64(rng.Uint64()))
		}
		return v.And(v, lowMask(w))
	}
	var v *big.Int
	switch rng.Intn(8) {
	case 0: // sparse
		v = raw()
		v.And(v, raw())
		v.And(v, raw())
	case 1: // dense
		v = raw()
		v.Or(v, raw())
		v.Or(v, raw())
	case 2: // all ones
		v = lowMask(w)
	case 3: // single top bit
		v = new(big.Int)
	case 4: // alternating
		v = new(big.Int)
		for i := rng.Intn(2); i < w; i += 2 {
			v.SetBit(v, i, 1)
		}
	case 5: // a run of ones somewhere
		v = new(big.Int)
		lo := rng.Intn(w)
		hi := lo + rng.Intn(w-lo)
		for i := lo; i <= hi; i++ {
			v.SetBit(v, i, 1)
		}
	default:
		v = raw()
	}
	return v.SetBit(v, w-1, 1)
}

func pickWidth(rng *hlib.Rand) int {
	switch rng.Intn(10) {
	case 0, 1, 2, 3:
		return 1 + rng.Intn(8)
	case 4, 5:
		return 9 + rng.Intn(24)
	case 6:
		return 31 + rng.Intn(3)
	case 7:
		return 62 + rng.Intn(5)
	case 8:
		return 126 + rng.Intn(6)
	default:
		return 1 + rng.Intn(131)
	}
}

// patRange returns a finite non-negative non-empty range whose bounds share a
// random-length bit prefix (so the leading bit of hi&~lo is anywhere).
func patRange(rng *hlib.Rand, w int) IR {
	hi := randBits(rng, w)
	var lo *big.Int
	switch rng.Intn(8) {
	case 0:
		lo = new(big.Int).Set(hi)
	case 1:
		lo = bi(0)
	case 2:
		lo = new(big.Int).Sub(hi, bi(int64(rng.Intn(9))))
		if lo.Sign() < 0 {
			lo = bi(0)
		}
	default:
		p := rng.Intn(w + 1)
		lo = new(big.Int).AndNot(hi, lowMask(p))
		lo.Or(lo, new(big.Int).And(randBits(rng, w), lowMask(p)))
		if lo.Cmp(hi) > 0 {
			lo.AndNot(hi, lowMask(p))
		}
	}
	return IR{lo, hi}
}

// patPair returns two finite non-negative ranges related in a way that steers
// andMax / orMax into each of their branches.
func patPair(rng *hlib.Rand) (x, y IR) {
	w := pickWidth(rng)
	x = patRange(rng, w)
	switch rng.Intn(8) {
	case 0: // independent widths
		y = patRange(rng, pickWidth(rng))
	case 1: // same width, independent
		y = patRange(rng, w)
	case 2: // touching / adjacent: y starts at x.hi + {0,1,2}
		lo := new(big.Int).Add(x[1], bi(int64(rng.Intn(3))))
		hi := new(big.Int).Add(lo, new(big.Int).Rsh(randBits(rng, w), uint(rng.Intn(w))))
		y = IR{lo, hi}
	case 3: // disjoint above, same top bits
		lo := new(big.Int).Add(x[1], bi(1+int64(rng.Intn(5))))
		hi := new(big.Int).Or(lo, lowMask(rng.Intn(w+1)))
		y = IR{lo, hi}
	case 4: // complementary maxima (x.hi & y.hi == 0)
		hi := new(big.Int).AndNot(lowMask(w), x[1])
		p := rng.Intn(w + 1)
		lo := new(big.Int).AndNot(hi, lowMask(p))
		y = IR{lo, hi}
	case 5: // y = [0, hi]
		y = IR{bi(0), randBits(rng, pickWidth(rng))}
		if rng.Bool() {
			x[0] = bi(0)
		}
	case 6: // disjoint below
		if x[0].Sign() > 0 {
			hi := new(big.Int).Sub(x[0], bi(1+int64(rng.Intn(3))))
			if hi.Sign() < 0 {
				hi = bi(0)
			}
			lo := new(big.Int).AndNot(hi, lowMask(rng.Intn(w+1)))
			y = IR{lo, hi}
		} else {
			y = patRange(rng, w)
		}
	default: // singletons
		y = patRange(rng, w)
		y[0] = new(big.Int).Set(y[1])
		if rng.Bool() {
			x[0] = new(big.Int).Set(x[1])
		}
	}
	if rng.Bool() {
		x, y = y, x
	}
	return
}

func notRange(r IR) IR {
	var lo, hi bound
	if r[1] != nil {
		lo = not(r[1])
	}
	if r[0] != nil {
		hi = not(r[0])
	}
	return IR{lo, hi}
}

// ---- harness-side branch classification (for the input-distribution histogram)

func bfr(v *big.Int) *big.Int {
	if v.Sign() <= 0 {
		return new(big.Int).Set(v)
	}
	return lowMask(v.BitLen())
}

func andMaxBranch(x, y IR) string {
	if y[1].Cmp(x[0]) >= 0 && x[1].Cmp(y[0]) >= 0 {
		if y[1].Cmp(x[0]) == 0 || x[1].Cmp(y[0]) == 0 {
			return "branch:andmax:overlap-touching"
		}
		return "branch:andmax:overlap"
	}
	flip := func(x, y IR) *big.Int {
		j := bfr(new(big.Int).AndNot(x[1], x[0]))
		j.And(j, x[1])
		j.AndNot(j, y[1])
		return bfr(j)
	}
	xf, yf := flip(x, y), flip(y, x)
	s := "branch:andmax:disjoint"
	if xf.Sign() == 0 {
		s += "-xflip0"
	} else {
		s += "-xflip+"
	}
	if yf.Sign() == 0 {
		s += "-yflip0"
	} else {
		s += "-yflip+"
	}
	return s
}

func orMaxBranch(x, y IR) string {
	if x[0].Sign() == 0 && y[0].Sign() == 0 {
		if new(big.Int).And(x[1], y[1]).Sign() == 0 {
			return "branch:ormax:fast-avail0"
		}
		return "branch:ormax:fast-avail+"
	}
	j := new(big.Int).AndNot(x[1], x[0])
	j.Or(j, new(big.Int).AndNot(y[1], y[0]))
	j = bfr(j)
	j.And(j, x[1])
	j.And(j, y[1])
	if j.Sign() == 0 {
		return "branch:ormax:general-avail0"
	}
	return "branch:ormax:general-avail+"
}

func signClass(r IR) string {
	if empty(r) {
		return "E"
	}
	s := ""
	switch {
	case r[1] != nil && r[1].Sign() < 0:
		s = "N"
	case r[0] != nil && r[0].Sign() >= 0:
		s = "P"
	default:
		s = "S"
	}
	if r[0] == nil || r[1] == nil {
		s += "i"
	}
	return s
}

// ---- work items

type item struct {
	kind string // "api" | "andmax" | "ormax" | "bfr" | "split2" | "split3" | "abnn" | "obnn" | "aonn" | "oonn" | "ipu" | helperKinds
	op   string
	x, y IR
	n    *big.Int
	a, b *big.Int  // scalar arguments of the big-int helpers (b may be nil)
	n0   int       // bitMask arguments
	n1   int       //
	bip  [2]bigger // biggerIntPair argument
	by   bigger    // biggerInt argument
	exhW int64
	seed uint64
}

// bigger mirrors lib/interval's biggerInt.
type bigger = interval.VerifBiggerInt

func showBI(v bigger) string {
	switch {
	case v.Extra < 0:
		return "-inf"
	case v.Extra > 0:
		return "+inf"
	case v.I == nil:
		return "nilptr"
	}
	return v.I.String()
}

func showBIP(p [2]bigger) string { return "p " + showBI(p[0]) + " " + showBI(p[1]) }

func cpBI(v bigger) bigger { return bigger{Extra: v.Extra, I: cp(v.I)} }

func (c *item) line() string {
	switch c.kind {
	case "api":
		return c.op + " " + showR(c.x) + " " + showR(c.y)
	case "andmax", "ormax", "abnn", "obnn", "aonn", "oonn", "ipu":
		return c.kind + " " + showR(c.x) + " " + showR(c.y)
	case "bfr":
		return "bfr " + c.n.String()
	case "bquo", "bmul", "blsh", "brsh":
		return c.kind + " " + c.a.String() + " " + c.b.String()
	case "bset", "bnot":
		return c.kind + " " + showB(c.a)
	case "bmask":
		return fmt.Sprintf("bmask %d %d", c.n0, c.n1)
	case "preds":
		return "preds " + showR(c.x) + " " + c.a.String()
	case "rel":
		return "rel " + showR(c.x) + " " + showR(c.y)
	case "mkempty", "newbip":
		return c.kind
	case "lowermin", "raisemax":
		return c.kind + " " + showBI(c.bip[0]) + " " + showBI(c.bip[1]) + " " + showBI(c.by)
	case "toir":
		return "toir " + showBI(c.bip[0]) + " " + showBI(c.bip[1])
	case "mullsh":
		return "mullsh " + c.op + " " + showR(c.x) + " " + showR(c.y)
	}
	return c.kind + " " + showR(c.x) // split2 split3 jz str fromir
}

type result struct {
	line, out  string
	fails      []hlib.Failure
	counts     []string
	nontrivial bool
}

func (res *result) fail(key, desc string) {
	if len(res.fails) < 4 {
		res.fails = append(res.fails, hlib.Failure{Key: key, Desc: desc, Replay: res.line})
	}
}
func (res *result) count(s string) { res.counts = append(res.counts, s) }

var sharedSnapshot0 string

// sharedCorrupt is set when a case saw a package-level value of lib/interval changed.
var sharedCorrupt atomic.Bool

func guardRange(f func() IR) string {
	return hlib.Guard(func() string { return "ok " + showR(f()) })
}

// guardRangeP also prints where the result pointers come from (relative to the operands x, y).
func guardRangeP(x, y IR, f func() IR) string {
	return hlib.Guard(func() string { z := f(); return "ok " + showR(z) + " " + provR(z, x, y) })
}

func evalInternal(c *item) *result {
	res := &result{line: c.line()}
	x, y := cpR(c.x), cpR(c.y)
	ordered := finite(x) && finite(y) && !empty(x) && !empty(y)
	switch c.kind {
	case "andmax":
		res.out = hlib.Guard(func() string { return "v " + interval.VerifAndMax(x, y).String() })
		if !ordered {
			res.count("branch:andmax:unordered-operands")
		} else if c.x[0].Sign() >= 0 && c.y[0].Sign() >= 0 {
			res.count(andMaxBranch(c.x, c.y))
		} else {
			res.count("branch:andmax:negative-operands")
		}
	case "ormax":
		res.out = hlib.Guard(func() string { return "v " + interval.VerifOrMax(x, y).String() })
		if !ordered {
			res.count("branch:ormax:unordered-operands")
		} else if c.x[0].Sign() >= 0 && c.y[0].Sign() >= 0 {
			res.count(orMaxBranch(c.x, c.y))
		} else {
			res.count("branch:ormax:negative-operands")
		}
	case "bfr":
		n := new(big.Int).Set(c.n)
		res.out = hlib.Guard(func() string { interval.VerifBitFillRight(n); return "v " + n.String() })
	case "split2":
		res.out = hlib.Guard(func() string {
			a, b, p, q := interval.VerifSplit2Ways(x)
			return fmt.Sprintf("s %s %s %v %v %s %s", showR(a), showR(b), p, q, provR(a, x, IR{}), provR(b, x, IR{}))
		})
	case "split3":
		res.out = hlib.Guard(func() string {
			a, b, p, q, s := interval.VerifSplit3Ways(x)
			return fmt.Sprintf("s %s %s %v %v %v %s %s", showR(a), showR(b), p, q, s, provR(a, x, IR{}), provR(b, x, IR{}))
		})
	case "abnn":
		res.out = guardRangeP(x, y, func() IR { return interval.VerifAndBothNonNeg(x, y) })
	case "obnn":
		res.out = guardRangeP(x, y, func() IR { return interval.VerifOrBothNonNeg(x, y) })
	case "aonn":
		res.out = guardRangeP(x, y, func() IR { return interval.VerifAndOneNegOneNonNeg(x, y) })
	case "oonn":
		res.out = guardRangeP(x, y, func() IR { return interval.VerifOrOneNegOneNonNeg(x, y) })
	case "ipu":
		x0 := x // the receiver's pointers before the call
		res.out = guardRangeP(x0, y, func() IR { interval.VerifInPlaceUnite(&x, y); return x })
	default:
		evalHelper(c, res, x, y)
	}
	if res.out == "panic" {
		res.count("out:panic:" + c.kind)
	}
	res.count("op:" + c.kind)
	return res
}

// provTag names where a result pointer comes from: "-" nil, "x0".."y1" an operand pointer,
// "one" / "minusOne" / "mask<n>" a package-level object, "f" anything else (a new object).
func provTag(p *big.Int, x, y IR) string {
	switch {
	case p == nil:
		return "-"
	case p == x[0]:
		return "x0"
	case p == x[1]:
		return "x1"
	case p == y[0]:
		return "y0"
	case p == y[1]:
		return "y1"
	}
	if s := interval.VerifSharedName(p); s != "" {
		return s
	}
	return "f"
}

func provR(z, x, y IR) string { return provTag(z[0], x, y) + " " + provTag(z[1], x, y) }

// freshScalar checks that a helper's *big.Int result is a new allocation: not an argument, not a
// package-level value, and not sharing word storage with an argument.
func freshScalar(res *result, name string, z *big.Int, args ...*big.Int) {
	if z == nil {
		return
	}
	before := make([]string, len(args))
	for i, a := range args {
		before[i] = showB(a)
		if a != nil && a == z {
			res.fail("shared-storage:helper:"+name, "helper returned one of its argument pointers")
			return
		}
	}
	if interval.VerifShared(z) {
		res.fail("shared-storage:helper:"+name, "helper returned a package-level *big.Int")
		return
	}
	scribble(z, 424242)
	for i, a := range args {
		if showB(a) != before[i] {
			res.fail("shared-storage:helper:"+name, "mutating the helper's result changed an argument")
		}
	}
}

// evalHelper: one line per remaining unexported helper (and the public predicates) of interval.go;
// the value is compared with the model line by line, and with math/big / first principles here.
func evalHelper(c *item, res *result, x, y IR) {
	a, b := cp(c.a), cp(c.b)
	switch c.kind {
	case "bquo", "bmul", "blsh", "brsh":
		var z *big.Int
		res.out = hlib.Guard(func() string {
			switch c.kind {
			case "bquo":
				z = interval.VerifBigIntQuo(a, b)
			case "bmul":
				z = interval.VerifBigIntMul(a, b)
			case "blsh":
				z = interval.VerifBigIntLsh(a, b)
			default:
				z = interval.VerifBigIntRsh(a, b)
			}
			return "v " + z.String()
		})
		if showB(a) != showB(c.a) || showB(b) != showB(c.b) {
			res.fail("operand-mutated:helper:"+c.kind, "helper changed an argument")
		}
		if res.out == "panic" {
			if !(c.kind == "bquo" && c.b.Sign() == 0) {
				res.fail("panic:helper:"+c.kind, "helper panicked inside its domain")
			}
			return
		}
		// first-principles value, inside the domain the package uses the helper on
		var want *big.Int
		switch c.kind {
		case "bquo":
			want = new(big.Int).Quo(c.a, c.b)
		case "bmul":
			want = new(big.Int).Mul(c.a, c.b)
		case "blsh":
			if c.b.Sign() >= 0 {
				want = new(big.Int).Mul(c.a, new(big.Int).Exp(bi(2), c.b, nil))
			}
		case "brsh":
			if c.b.Sign() >= 0 {
				if c.b.IsInt64() && c.b.Int64() <= 1<<16 {
					want = new(big.Int).Div(c.a, new(big.Int).Exp(bi(2), c.b, nil)) // floor
				} else if c.a.Sign() < 0 {
					want = bi(-1)
				} else {
					want = bi(0)
				}
			}
		}
		if want != nil {
			res.count("helper-value-checked:" + c.kind)
			if want.Cmp(z) != 0 {
				res.fail("helper-value:"+c.kind, fmt.Sprintf("%s(%v, %v) = %v, expected %v", c.kind, c.a, c.b, z, want))
			}
		}
		freshScalar(res, c.kind, z, a, b)
	case "bset", "bnot":
		var z *big.Int
		res.out = hlib.Guard(func() string {
			if c.kind == "bset" {
				z = interval.VerifBigIntNewSet(a)
			} else {
				z = interval.VerifBigIntNewNot(a)
			}
			return "v " + showB(z)
		})
		if res.out == "panic" {
			res.fail("panic:helper:"+c.kind, "helper panicked")
			return
		}
		var want *big.Int
		if c.a != nil {
			want = new(big.Int).Set(c.a)
			if c.kind == "bnot" {
				want.Neg(want).Sub(want, bi(1))
			}
		}
		if showB(want) != showB(z) {
			res.fail("helper-value:"+c.kind, "expected "+showB(want)+", got "+showB(z))
		}
		freshScalar(res, c.kind, z, a)
	case "bmask":
		res.out = hlib.Guard(func() string {
			z := interval.VerifBitMask(c.n0, c.n1)
			n := c.n0
			if c.n1 > n {
				n = c.n1
			}
			if z.Cmp(lowMask(n)) != 0 {
				res.fail("helper-value:bmask", fmt.Sprintf("bitMask(%d,%d) = %v", c.n0, c.n1, z))
			}
			if interval.VerifShared(z) {
				return "v " + z.String() + " sh"
			}
			return "v " + z.String() + " fr"
		})
	case "jz":
		res.out = hlib.Guard(func() string { return fmt.Sprintf("b %v", interval.VerifJustZero(x)) })
	case "str":
		res.out = hlib.Guard(func() string { return "s " + x.String() })
	case "preds":
		res.out = hlib.Guard(func() string {
			e, cn, cnn, cpos, cz, ci := x.Empty(), x.ContainsNegative(), x.ContainsNonNegative(), x.ContainsPositive(), x.ContainsZero(), x.ContainsInt(a)
			// first principles (membership)
			nonE := !empty(c.x)
			exists := func(lo, hi bound) bool { // is there a member v with lo <= v <= hi (nil = unbounded)?
				l, h := c.x[0], c.x[1]
				if lo != nil && (l == nil || l.Cmp(lo) < 0) {
					l = lo
				}
				if hi != nil && (h == nil || h.Cmp(hi) > 0) {
					h = hi
				}
				return nonE && (l == nil || h == nil || l.Cmp(h) <= 0)
			}
			// ContainsZero / ContainsInt are documented without reference to emptiness; they are
			// compared with the model only
			if e != !nonE || cn != exists(nil, bi(-1)) || cnn != exists(bi(0), nil) || cpos != exists(bi(1), nil) {
				res.fail("predicate:preds", fmt.Sprintf("Empty/ContainsNegative/ContainsNonNegative/ContainsPositive = %v %v %v %v", e, cn, cnn, cpos))
			}
			if nonE && (cz != contains(c.x, bi(0)) || ci != contains(c.x, c.a)) {
				res.fail("predicate:preds", fmt.Sprintf("ContainsZero/ContainsInt = %v %v", cz, ci))
			}
			return fmt.Sprintf("b %v %v %v %v %v %v", e, cn, cnn, cpos, cz, ci)
		})
	case "rel":
		res.out = hlib.Guard(func() string {
			cir, eq := x.ContainsIntRange(y), x.Eq(y)
			xe, ye := empty(c.x), empty(c.y)
			wantC := ye || (!xe && (c.x[0] == nil || (c.y[0] != nil && c.x[0].Cmp(c.y[0]) <= 0)) &&
				(c.x[1] == nil || (c.y[1] != nil && c.x[1].Cmp(c.y[1]) >= 0)))
			wantE := (xe && ye) || (!xe && !ye && showR(c.x) == showR(c.y))
			if cir != wantC || eq != wantE {
				res.fail("predicate:rel", fmt.Sprintf("ContainsIntRange/Eq = %v %v, expected %v %v", cir, eq, wantC, wantE))
			}
			return fmt.Sprintf("b %v %v", cir, eq)
		})
	case "mkempty":
		res.out = guardRange(func() IR { return interval.VerifMakeEmptyRange() })
	case "newbip":
		res.out = hlib.Guard(func() string { return showBIP(interval.VerifNewBiggerIntPair()) })
	case "lowermin":
		res.out = hlib.Guard(func() string {
			return showBIP(interval.VerifLowerMin([2]bigger{cpBI(c.bip[0]), cpBI(c.bip[1])}, cpBI(c.by)))
		})
	case "raisemax":
		res.out = hlib.Guard(func() string {
			return showBIP(interval.VerifRaiseMax([2]bigger{cpBI(c.bip[0]), cpBI(c.bip[1])}, cpBI(c.by)))
		})
	case "toir":
		res.out = guardRange(func() IR { return interval.VerifToIntRange([2]bigger{cpBI(c.bip[0]), cpBI(c.bip[1])}) })
	case "fromir":
		res.out = hlib.Guard(func() string {
			p := interval.VerifFromIntRange(x)
			for _, q := range p {
				if q.I != nil && (q.I == x[0] || q.I == x[1]) {
					res.fail("shared-storage:helper:fromir", "fromIntRange kept an operand pointer")
				}
			}
			return showBIP(p)
		})
	case "mullsh":
		res.out = guardRangeP(x, y, func() IR { return interval.VerifMulLsh(x, y, c.op == "1") })
	default:
		panic("bad kind " + c.kind)
	}
}

// scribble overwrites a result big.Int in place, including the spare capacity
// of its word array, so that any storage shared with another big.Int shows.
func scribble(p *big.Int, v int64) {
	w := p.Bits()
	w = w[:cap(w)]
	for i := range w {
		w[i] = ^w[i] ^ 0x5A5A
	}
	p.SetInt64(v)
}

func eval(c *item) *result {
	if c.kind != "api" {
		return evalInternal(c)
	}
	rng := hlib.NewRand(c.seed)
	res := &result{line: c.line()}
	op := c.op
	xs, ys := showR(c.x), showR(c.y)
	xv, yv := c.x, c.y           // pristine values, never handed to the implementation
	px, py := cpR(c.x), cpR(c.y) // the operands the implementation sees
	var z IR
	var ok bool
	out, msg := hlib.GuardMsg(func() string {
		z, ok = apply(op, px, py)
		if !ok {
			return "fail"
		}
		return "ok " + showR(z) + " " + provR(z, px, py)
	})
	res.out = out
	res.count("op:" + op)
	res.count("out:" + strings.SplitN(out, " ", 2)[0])
	if op == "and" || op == "or" {
		res.count("class:bitop:" + signClass(xv) + "-" + signClass(yv))
	}
	if s := interval.VerifSharedSnapshot(); s != sharedSnapshot0 {
		// (when cases run in parallel the culprit may be a concurrent case: flush() then
		// restores the values and re-runs the whole batch sequentially)
		res.fail("shared-storage:"+op, "the operation changed a package-level value: "+s)
		sharedCorrupt.Store(true)
		interval.VerifSharedRestore()
	}
	if out == "panic" {
		res.fail("panic:"+op, "interval op panicked: "+msg)
		return res
	}
	if showR(px) != xs || showR(py) != ys {
		res.fail("operand-mutated:"+op, "operation changed an operand")
	}
	xe, ye := empty(xv), empty(yv)
	res.nontrivial = !xe && !ye
	// exact-failure clause
	if op == "quo" || op == "lsh" || op == "rsh" {
		undefined := false
		if !xe && !ye {
			if op == "quo" {
				undefined = contains(yv, bi(0))
			} else {
				undefined = yv[0] == nil || yv[0].Sign() < 0
			}
		}
		if undefined == ok {
			res.fail("exact-failure:"+op, fmt.Sprintf("ok=%v but some pair undefined=%v", ok, undefined))
		}
	} else if !ok {
		res.fail("spurious-failure:"+op, "operation that cannot fail reported failure")
	}
	if !ok {
		return res
	}
	zv := cpR(z)
	// freshness 1: pointer identity
	ptrOK := true
	for _, p := range z {
		if p == nil {
			continue
		}
		if p == px[0] || p == px[1] || p == py[0] || p == py[1] || interval.VerifShared(p) {
			res.fail("shared-storage:"+op, "result shares a *big.Int with an operand or a package-level value")
			ptrOK = false
		}
	}
	if z[0] != nil && z[0] == z[1] {
		res.fail("shared-storage:"+op, "result bounds share one *big.Int")
		ptrOK = false
	}
	// freshness 2: scribble over the result, operands and package-level values must not move
	if ptrOK {
		if z[0] != nil {
			scribble(z[0], 12345)
		}
		if z[1] != nil {
			scribble(z[1], -54321)
		}
		res.count("freshness-scribbled")
		if showR(px) != xs || showR(py) != ys {
			res.fail("shared-storage:"+op, "mutating the result in place changed an operand: now "+showR(px)+" / "+showR(py))
		}
		if s := interval.VerifSharedSnapshot(); s != sharedSnapshot0 {
			res.fail("shared-storage:"+op, "mutating the result in place changed a package-level value: "+s)
			sharedCorrupt.Store(true)
			interval.VerifSharedRestore()
		}
		if z[0] != nil && z[1] != nil && z[0].Cmp(bi(12345)) != 0 {
			res.fail("shared-storage:"+op, "result bounds share word storage")
		}
	}
	z = zv
	if xe || ye {
		if op != "unite" && !empty(z) {
			res.fail("empty-in-nonempty-out:"+op, "empty operand gave non-empty result "+showR(z))
		}
		if op != "unite" {
			return res
		}
	}
	bits := op == "and" || op == "or"
	mx, allX := members(rng, xv, c.exhW, bits)
	my, allY := members(rng, yv, c.exhW, bits)
	if op == "unite" || op == "intersect" {
		for _, v := range append(mx, my...) {
			inX, inY := contains(xv, v) && !xe, contains(yv, v) && !ye
			if op == "unite" && (inX || inY) && !contains(z, v) {
				res.fail("containment:unite", "member "+v.String()+" not in union "+showR(z))
			}
			if op == "intersect" && (inX && inY) != contains(z, v) {
				res.fail("containment:intersect", "member "+v.String()+" wrongly classified by "+showR(z))
			}
		}
		if op == "unite" {
			// tightest: each bound is the min/max of the non-empty operands' bounds
			for k := 0; k < 2; k++ {
				var want bound
				switch {
				case xe && ye:
					continue
				case xe:
					want = yv[k]
				case ye:
					want = xv[k]
				case xv[k] == nil || yv[k] == nil:
					want = nil
				case (xv[k].Cmp(yv[k]) < 0) == (k == 0):
					want = xv[k]
				default:
					want = yv[k]
				}
				if (want == nil) != (z[k] == nil) || (want != nil && want.Cmp(z[k]) != 0) {
					res.fail("tightness:unite", fmt.Sprintf("bound %d should be %s, got %s", k, showB(want), showR(z)))
				}
			}
			res.count("tightness-checked:unite")
		} else {
			// exact: [max lo, min hi]
			var lo, hi bound = xv[0], xv[1]
			if lo == nil || (yv[0] != nil && yv[0].Cmp(lo) > 0) {
				lo = yv[0]
			}
			if hi == nil || (yv[1] != nil && yv[1].Cmp(hi) < 0) {
				hi = yv[1]
			}
			want := IR{lo, hi}
			if empty(want) != empty(z) || (!empty(want) && showR(want) != showR(z)) {
				res.fail("tightness:intersect", "expected "+showR(want)+", got "+showR(z))
			}
			res.count("tightness-checked:intersect")
		}
		return res
	}
	allFinite := finite(xv) && finite(yv)
	var lo, hi *big.Int
	skipped := false
	for _, a := range mx {
		for _, b := range my {
			v, def := concrete(op, a, b)
			if !def {
				res.fail("exact-failure:"+op, fmt.Sprintf("ok but %v %s %v undefined", a, op, b))
				continue
			}
			if v == nil {
				skipped = true
				continue
			}
			if !contains(z, v) {
				res.fail("containment:"+op, fmt.Sprintf("%v %s %v = %v not in %s", a, op, b, v, showR(z)))
			}
			if lo == nil || v.Cmp(lo) < 0 {
				lo = v
			}
			if hi == nil || v.Cmp(hi) > 0 {
				hi = v
			}
		}
	}
	res.count("containment-checked")
	brute := allFinite && allX && allY && !skipped && lo != nil
	if brute {
		res.count("tightness-checked:brute:" + op)
		if z[0] == nil || z[1] == nil || z[0].Cmp(lo) != 0 || z[1].Cmp(hi) != 0 {
			res.fail("tightness:"+op, fmt.Sprintf("tightest is %v %v (brute force), got %s", lo, hi, showR(z)))
		}
	}
	if allFinite {
		var rlo, rhi *big.Int
		how := ""
		switch op {
		case "and":
			rlo, rhi = refAnd(xv[0], xv[1], yv[0], yv[1])
			how = "ref"
		case "or":
			rlo, rhi = refOr(xv[0], xv[1], yv[0], yv[1])
			how = "ref"
		default:
			// monotone along each axis: extremes are at the four corners
			how = "corner"
			for _, a := range xv {
				for _, b := range yv {
					v, def := concrete(op, a, b)
					if !def || v == nil {
						how = ""
						continue
					}
					if rlo == nil || v.Cmp(rlo) < 0 {
						rlo = v
					}
					if rhi == nil || v.Cmp(rhi) > 0 {
						rhi = v
					}
				}
			}
		}
		if how != "" {
			res.count("tightness-checked:" + how + ":" + op)
			if z[0] == nil || z[1] == nil || z[0].Cmp(rlo) != 0 || z[1].Cmp(rhi) != 0 {
				res.fail("tightness:"+op, fmt.Sprintf("tightest is %v %v (%s), got %s", rlo, rhi, how, showR(z)))
			}
			if brute && (rlo.Cmp(lo) != 0 || rhi.Cmp(hi) != 0) {
				res.fail("oracle-selfcheck:"+op, fmt.Sprintf("harness bug: %s oracle says %v %v, brute force %v %v", how, rlo, rhi, lo, hi))
			}
		}
	}
	return res
}

// safeEval is eval, surviving a Go panic outside hlib.Guard (possible when a broken lib/interval
// writes to its package-level big.Ints while other cases read them concurrently).
func safeEval(c *item) (res *result) {
	defer func() {
		if e := recover(); e != nil {
			sharedCorrupt.Store(true)
			interval.VerifSharedRestore()
			res = &result{line: c.line(), out: "panic"}
			res.fail("harness-panic:"+c.kind+c.op, fmt.Sprint("panic outside the guarded call: ", e))
		}
	}()
	return eval(c)
}

// ---- runner: generate sequentially, evaluate in parallel, emit sequentially

type runner struct {
	r     *hlib.Run
	rng   *hlib.Rand
	batch []*item
}

func (q *runner) add(c *item) {
	c.seed = q.rng.Uint64()
	q.batch = append(q.batch, c)
	if len(q.batch) >= 1<<15 {
		q.flush()
	}
}

func (q *runner) api(op string, x, y IR, exhW int64) {
	q.add(&item{kind: "api", op: op, x: x, y: y, exhW: exhW})
}

func (q *runner) flush() {
	n := len(q.batch)
	if n == 0 {
		return
	}
	results := make([]*result, n)
	workers := runtime.GOMAXPROCS(0)
	if workers > 16 {
		workers = 16
	}
	if n < 256 {
		workers = 1
	}
	var wg sync.WaitGroup
	for w := 0; w < workers; w++ {
		wg.Add(1)
		go func(w int) {
			defer wg.Done()
			for i := w; i < n; i += workers {
				results[i] = safeEval(q.batch[i])
			}
		}(w)
	}
	wg.Wait()
	if sharedCorrupt.Load() && workers > 1 {
		// some case corrupted lib/interval's package-level values while others were running:
		// attribute it exactly by re-running the batch sequentially from restored values
		interval.VerifSharedRestore()
		sharedCorrupt.Store(false)
		for i := 0; i < n; i++ {
			results[i] = safeEval(q.batch[i])
		}
		q.r.Count("batch-rerun-sequentially")
	}
	sharedCorrupt.Store(false)
	r := q.r
	for _, res := range results {
		r.Op(res.line, res.out)
		for _, c := range res.counts {
			r.Count(c)
		}
		for _, f := range res.fails {
			r.Fail(f.Key, f.Desc, f.Replay)
		}
		if res.nontrivial {
			r.Nontrivial(res.line)
		}
	}
	q.batch = q.batch[:0]
}

// ---- corpus: op lines of minimised past failures, run first

func parseBound(s string) (bound, bool) {
	if s == "inf" {
		return nil, true
	}
	v, ok := new(big.Int).SetString(s, 10)
	return v, ok
}

func corpusDirs() []string {
	out := []string{filepath.Join("corpus", "C06")}
	if exe, err := os.Executable(); err == nil {
		out = append(out, filepath.Join(filepath.Dir(exe), "..", "corpus", "C06"))
	}
	return out
}

func runCorpus(q *runner) {
	for _, d := range corpusDirs() {
		files, _ := filepath.Glob(filepath.Join(d, "*.txt"))
		if len(files) == 0 {
			continue
		}
		sort.Strings(files)
		for _, f := range files {
			fh, err := os.Open(f)
			if err != nil {
				continue
			}
			sc := bufio.NewScanner(fh)
			for sc.Scan() {
				t := strings.Fields(sc.Text())
				if len(t) == 0 || strings.HasPrefix(t[0], "#") {
					continue
				}
				isOp := false
				for _, o := range ops {
					isOp = isOp || o == t[0]
				}
				if !isOp || len(t) != 5 {
					q.r.Count("corpus:skipped-line")
					continue
				}
				var b [4]bound
				good := true
				for i := 0; i < 4; i++ {
					var ok bool
					b[i], ok = parseBound(t[i+1])
					good = good && ok
				}
				if !good {
					q.r.Count("corpus:skipped-line")
					continue
				}
				q.api(t[0], IR{b[0], b[1]}, IR{b[2], b[3]}, 64)
				q.r.Count("corpus:line")
			}
			fh.Close()
		}
		return
	}
}

// genTables renders lib/interval's package-level values (as the working tree's code built them)
// for lean/WuffsVerif/Gen/C06_Tables.lean.
func genTables() string {
	lit := func(v *big.Int) string { return "(" + v.String() + " : Int)" }
	var sb strings.Builder
	sb.WriteString("/- REGENERATED by `wvh_c06 -mode gen` from lib/interval (package-level values of the working\n")
	sb.WriteString("tree, read through the verif-tagged exports). Do not edit. -/\n")
	sb.WriteString("namespace WuffsVerif.Gen.C06\n\n")
	sb.WriteString("/-- `smallBitMasks`, entry by entry -/\n")
	sb.WriteString("def smallBitMasks : List Int := [")
	for i, m := range interval.VerifSmallBitMasks() {
		if i > 0 {
			sb.WriteString(", ")
		}
		sb.WriteString(lit(m))
	}
	sb.WriteString("]\n\n")
	one, minusOne, shared := interval.VerifSharedValues()
	sb.WriteString("/-- `one`, `minusOne` -/\n")
	sb.WriteString("def one : Int := " + lit(one) + "\n")
	sb.WriteString("def minusOne : Int := " + lit(minusOne) + "\n\n")
	sb.WriteString("/-- `sharedEmptyRange`, `makeEmptyRange()` -/\n")
	pair := func(x IR) string {
		if x[0] == nil || x[1] == nil {
			// not expressible as a pair of integers: an obviously non-empty pair makes the obligation fail
			return "((0 : Int), (0 : Int))"
		}
		return "(" + lit(x[0]) + ", " + lit(x[1]) + ")"
	}
	sb.WriteString("def sharedEmptyRange : Int × Int := " + pair(shared) + "\n")
	sb.WriteString("def makeEmptyRange : Int × Int := " + pair(interval.VerifMakeEmptyRange()) + "\n\n")
	sb.WriteString("end WuffsVerif.Gen.C06\n")
	return sb.String()
}

// boundaryKs: widths at which a machine-word shortcut, a lookup table or a size switch could sit.
var boundaryKs = []int{7, 8, 15, 16, 31, 32, 62, 63, 64, 65, 127, 128}

// boundaryVals returns ±2^k + d for k in boundaryKs, d in -1..1 (-2..2 at k = 31, 32, 63, 64), and the
// small integers -3..3.
func boundaryVals() []*big.Int {
	seen := map[string]bool{}
	var out []*big.Int
	add := func(v *big.Int) {
		if s := v.String(); !seen[s] {
			seen[s] = true
			out = append(out, v)
		}
	}
	for i := int64(-3); i <= 3; i++ {
		add(bi(i))
	}
	for _, k := range boundaryKs {
		w := int64(1)
		if k == 31 || k == 32 || k == 63 || k == 64 {
			w = 2 // the native word sizes: two steps either side
		}
		for d := -w; d <= w; d++ {
			add(pow2(k, d))
			add(new(big.Int).Neg(pow2(k, d)))
		}
	}
	return out
}

func pow2(k int, d int64) *big.Int {
	v := new(big.Int).Lsh(bi(1), uint(k))
	return v.Add(v, bi(d))
}

func main() {
	r := hlib.Start("C06")
	if r.IsGen() {
		r.WriteGen("C06_Tables.lean", genTables())
		return
	}
	// hlib's splitmix state is (seed+n)*G+c, so r.Rand for seed s+1 is r.Rand for seed s shifted
	// by one draw; fork once so that different seeds give unrelated streams.
	rng := r.Rand.Fork()
	q := &runner{r: r, rng: rng}
	sharedSnapshot0 = interval.VerifSharedSnapshot()

	B := int64(3)
	nRandom, nPat, nHalf, shiftStep := 14000, 4000, 2500, 1
	if r.Thorough {
		B = 9
		nRandom, nPat, nHalf = 600000, 250000, 150000
	}

	// 0. corpus
	runCorpus(q)
	q.flush()
	r.Count("phase:corpus")

	// 1. systematic small boxes, all ops (bounds in [-B, B] plus infinite, incl. empties)
	var vals []bound
	vals = append(vals, nil)
	for i := -B; i <= B; i++ {
		vals = append(vals, bi(i))
	}
	for _, op := range ops {
		for _, a := range vals {
			for _, b := range vals {
				for _, c := range vals {
					for _, d := range vals {
						q.api(op, IR{cp(a), cp(b)}, IR{cp(c), cp(d)}, 64)
					}
				}
			}
		}
	}
	q.flush()
	r.Count("phase:systematic")

	// 2. random, structured magnitudes (2^k +-2 for k up to 135, sign-straddling, half-infinite)
	for i := 0; i < nRandom; i++ {
		op := ops[rng.Intn(len(ops))]
		small := rng.Chance(1, 3)
		x, y := randRange(rng, small), randRange(rng, small)
		if op == "lsh" || op == "rsh" {
			y = shiftRange(rng)
			if op == "lsh" && rng.Chance(1, 2) {
				x = randRange(rng, true)
			}
		}
		if op == "quo" && rng.Chance(1, 2) && y[0] != nil && y[1] != nil {
			// make the divisor one-signed more often (otherwise most cases just fail)
			if y[0].Sign() <= 0 && y[1].Sign() >= 0 {
				y[0] = new(big.Int).Add(y[1], bi(1))
				y[1] = new(big.Int).Add(y[0], bi(int64(rng.Intn(50))))
				if rng.Bool() {
					y[0], y[1] = new(big.Int).Neg(y[1]), new(big.Int).Neg(y[0])
				}
			}
		}
		c := &item{kind: "api", op: op, x: x, y: y, exhW: 48}
		if i < 4 {
			r.Sample(c.line())
		}
		q.add(c)
		if i%4 == 0 {
			z := randRange(rng, rng.Bool())
			q.add(&item{kind: "split2", x: z})
			q.add(&item{kind: "split3", x: z})
			n := randBound(rng, rng.Chance(1, 3))
			if n == nil {
				n = bi(int64(rng.Intn(64)))
			}
			if !rng.Chance(1, 12) {
				n = new(big.Int).Abs(n) // a negative argument makes bitFillRight panic
			}
			q.add(&item{kind: "bfr", n: n})
		}
		if i%8 == 1 {
			// per-function tie, operands mostly satisfying the pre-conditions, sometimes not
			// (negative / empty / wrong way round: the Go code panics, so must the model)
			sm := rng.Chance(1, 2)
			a, b := randRange(rng, sm), randRange(rng, sm)
			nonneg := func(v IR) IR {
				if rng.Chance(1, 10) {
					return v
				}
				if v[0] == nil || v[0].Sign() < 0 {
					v[0] = bi(int64(rng.Intn(6)))
					if v[0].Sign() > 0 && rng.Bool() {
						v[0] = new(big.Int).Abs(randMag(rng))
					}
				}
				if v[1] != nil && v[1].Cmp(v[0]) < 0 && !rng.Chance(1, 10) {
					v[1] = new(big.Int).Add(v[0], new(big.Int).Abs(v[1]))
				}
				return v
			}
			neg := func(v IR) IR {
				if rng.Chance(1, 10) {
					return v
				}
				return notRange(nonneg(v))
			}
			switch rng.Intn(5) {
			case 0:
				q.add(&item{kind: "abnn", x: nonneg(a), y: nonneg(b)})
			case 1:
				q.add(&item{kind: "obnn", x: nonneg(a), y: nonneg(b)})
			case 2:
				q.add(&item{kind: "aonn", x: neg(a), y: nonneg(b)})
			case 3:
				q.add(&item{kind: "oonn", x: neg(a), y: nonneg(b)})
			default:
				// inPlaceUnite's receiver is a fresh range built up from makeEmptyRange()
				if rng.Chance(1, 3) {
					a = IR{bi(1), bi(-1)}
				}
				q.add(&item{kind: "ipu", x: a, y: b})
			}
		}
	}
	q.flush()
	r.Count("phase:random")

	// 3. bit patterns for andMax / orMax, through the internals and through the public And/Or
	//    (plain, complemented = negative, and half-infinite variants)
	for i := 0; i < nPat; i++ {
		x, y := patPair(rng)
		q.add(&item{kind: "andmax", x: x, y: y})
		q.add(&item{kind: "ormax", x: x, y: y})
		if rng.Chance(1, 4) {
			// as called by andBothNonNeg / orBothNonNeg on complemented operands
			q.add(&item{kind: "andmax", x: notRange(x), y: notRange(y)})
			q.add(&item{kind: "ormax", x: notRange(x), y: notRange(y)})
		}
		if rng.Chance(1, 16) {
			// arbitrary finite operands (negative, unordered): answers may be `panic`
			u, v := randRange(rng, rng.Bool()), randRange(rng, rng.Bool())
			if finite(u) && finite(v) {
				q.add(&item{kind: "andmax", x: u, y: v})
				q.add(&item{kind: "ormax", x: u, y: v})
			}
		}
		if rng.Chance(1, 3) {
			k := []string{"abnn", "obnn"}[rng.Intn(2)]
			hx, hy := cpR(x), cpR(y)
			if rng.Chance(1, 4) {
				hy[1] = nil
			}
			if rng.Chance(1, 8) {
				hx[1] = nil
			}
			q.add(&item{kind: k, x: hx, y: hy})
			k = []string{"aonn", "oonn"}[rng.Intn(2)]
			q.add(&item{kind: k, x: notRange(hx), y: hy})
		}
		ax, ay := cpR(x), cpR(y)
		switch rng.Intn(6) {
		case 0:
			ax = notRange(ax)
		case 1:
			ay = notRange(ay)
		case 2:
			ax, ay = notRange(ax), notRange(ay)
		case 3: // straddle: extend x down to a negative bound
			ax[0] = not(ax[0])
		}
		q.api("and", cpR(ax), cpR(ay), 24)
		q.api("or", cpR(ax), cpR(ay), 24)
		if i < 3 {
			r.Sample("and " + showR(ax) + " " + showR(ay))
		}
	}
	q.flush()
	r.Count("phase:bit-patterns")

	// 4. half-infinite and/or: the ContainsInt fast paths and the bitFillRight(y.lo) branch of
	//    orBothNonNeg, andOneNegOneNonNeg's three branches, inPlaceUnite with nil bounds
	for i := 0; i < nHalf; i++ {
		w := pickWidth(rng)
		x := patRange(rng, w)
		var y IR
		switch rng.Intn(4) {
		case 0: // disjoint above, infinite
			y = IR{new(big.Int).Add(x[1], bi(1+int64(rng.Intn(40)))), nil}
		case 1: // overlapping, infinite
			y = IR{new(big.Int).Sub(x[1], bi(int64(rng.Intn(4)))), nil}
			if y[0].Sign() < 0 {
				y[0] = bi(0)
			}
		case 2: // disjoint above by a bit pattern
			y = IR{new(big.Int).Add(x[1], randBits(rng, pickWidth(rng))), nil}
		default:
			y = IR{randBits(rng, pickWidth(rng)), nil}
		}
		if rng.Chance(1, 6) {
			x[1] = nil
		}
		if rng.Chance(1, 3) {
			x[0] = not(x[0]) // straddling
		}
		switch rng.Intn(5) {
		case 0:
			x = notRange(x)
		case 1:
			y = notRange(y)
		case 2:
			x, y = notRange(x), notRange(y)
		}
		if rng.Bool() {
			x, y = y, x
		}
		q.api("and", cpR(x), cpR(y), 24)
		q.api("or", cpR(x), cpR(y), 24)
	}
	q.flush()
	r.Count("phase:half-infinite")

	// 5. shifts: every count 0..200 against a few operand shapes; the 2^32 threshold only with
	//    x = [0,0] or empty (anything else would allocate 512 MiB in math/big and in the model)
	for k := 0; k <= 200; k += shiftStep {
		xsh := []IR{
			{bi(1), bi(1)}, {bi(-1), bi(-1)}, {bi(-3), bi(5)}, {bi(0), bi(7)}, {bi(-9), bi(0)},
			{pow2(64, -1), pow2(64, 1)}, {new(big.Int).Neg(pow2(70, 0)), bi(7)},
			{pow2(k, -1), pow2(k, 1)}, {new(big.Int).Neg(pow2(k, 1)), new(big.Int).Neg(pow2(k, -1))},
			{nil, bi(-2)}, {bi(3), nil},
		}
		x := xsh[rng.Intn(len(xsh))]
		x2 := xsh[rng.Intn(len(xsh))]
		kk := int64(k)
		for _, op := range []string{"lsh", "rsh"} {
			q.api(op, cpR(x), IR{bi(kk), bi(kk)}, 24)
			q.api(op, cpR(x2), IR{bi(kk), bi(kk + 1 + int64(rng.Intn(3)))}, 24)
			q.api(op, cpR(xsh[7]), IR{bi(kk), bi(kk)}, 24)
			q.api(op, cpR(xsh[8]), IR{bi(kk / 2), bi(kk)}, 24)
			if k%5 == 0 {
				q.api(op, cpR(x), IR{bi(kk), nil}, 24)
				q.api(op, cpR(x2), IR{bi(0), bi(kk)}, 24)
			}
		}
		r.Count("shift-count-covered")
	}
	for _, t := range []int64{0xFFFFFFFE, 0xFFFFFFFF, 0x100000000, 0x100000001} {
		for _, x := range []IR{{bi(0), bi(0)}, {bi(1), bi(-1)}, {bi(3), bi(2)}} {
			for _, y := range []IR{{bi(t), bi(t)}, {bi(t), bi(t + 1)}, {bi(0), bi(t)}, {bi(t), nil}, {bi(t + 2), bi(t)}, {bi(-1), bi(t)}, {nil, bi(t)}} {
				for _, op := range []string{"lsh", "rsh"} {
					q.api(op, cpR(x), cpR(y), 24)
					r.Count("shift-threshold-2^32")
				}
			}
		}
	}
	for _, t := range []int64{0xFFFFFFFE, 0xFFFFFFFF} {
		xs := []IR{{bi(1), bi(1)}, {bi(-1), bi(-1)}, {bi(-3), bi(5)}, {bi(-9), bi(-2)}, {bi(2), bi(7)}, {nil, bi(-2)}, {bi(3), nil}, {nil, nil},
			{pow2(130, -1), pow2(130, 1)}, {new(big.Int).Neg(pow2(70, 0)), bi(7)}, randRange(rng, false), randRange(rng, false)}
		for _, x := range xs {
			for _, y := range []IR{{bi(t), bi(t)}, {bi(0xFFFFFFFE), bi(t)}, {bi(0), bi(t)}, {bi(200), bi(t)}} {
				q.api("rsh", cpR(x), cpR(y), 24)
				r.Count("shift-threshold-rsh-anyx")
			}
		}
	}
	q.flush()
	r.Count("phase:shifts")

	// 6. machine-word boundaries: bounds at and around ±2^k for the widths at which a native-word
	//    shortcut, a table lookup or a sign/size switch could sit, combined with small divisors,
	//    factors and shift counts (-1, 0, 1, ...), through every public operator and — directly —
	//    through every helper an operator reaches (bigIntQuo/Mul/Lsh/Rsh, bitMask, bitFillRight, ...)
	bvals := boundaryVals()
	nBoundaryPairs := 6000
	if r.Thorough {
		nBoundaryPairs = 200000
	}
	smallY := []IR{
		{bi(-1), bi(-1)}, {bi(1), bi(1)}, {bi(0), bi(0)}, {bi(-3), bi(-1)}, {bi(1), bi(3)}, {bi(-1), bi(1)},
		{bi(0), bi(1)}, {bi(-1), bi(0)}, {bi(2), bi(2)}, {bi(-2), bi(-2)}, {bi(-3), bi(3)}, {bi(1), nil}, {nil, bi(-1)},
	}
	var shiftY []IR
	for _, k := range append([]int{0, 1, 2}, boundaryKs...) {
		kk := int64(k)
		shiftY = append(shiftY, IR{bi(kk), bi(kk)})
		if k > 0 {
			shiftY = append(shiftY, IR{bi(kk - 1), bi(kk + 1)})
		}
	}
	shiftY = append(shiftY, IR{bi(0), bi(1)}, IR{bi(-1), bi(1)}, IR{bi(0), nil}, IR{bi(1), bi(0)})
	// the operators without a multiplicative helper get the six most telling small operands only
	fewY := []IR{smallY[0], smallY[1], smallY[2], smallY[5], smallY[11], smallY[12]}
	for bIdx, b := range bvals {
		shapes := []IR{
			{cp(b), cp(b)},
			{cp(b), new(big.Int).Add(b, bi(1))},
			{cp(b), new(big.Int).Add(b, bi(10))},
			{new(big.Int).Sub(b, bi(1)), cp(b)},
			{new(big.Int).Sub(b, bi(10)), cp(b)},
			{cp(b), nil},
			{nil, cp(b)},
		}
		if b.BitLen() > 2 {
			// zero-anchored and sign-straddling
			ab := new(big.Int).Abs(b)
			if b.Sign() > 0 {
				shapes = append(shapes, IR{bi(0), cp(b)}, IR{bi(1), cp(b)})
			} else {
				shapes = append(shapes, IR{cp(b), bi(0)}, IR{cp(b), bi(-1)})
			}
			shapes = append(shapes, IR{new(big.Int).Neg(ab), ab})
		}
		for _, x := range shapes {
			for _, op := range ops {
				ys := smallY
				switch op {
				case "lsh", "rsh":
					ys = shiftY
				case "add", "sub", "unite", "intersect":
					ys = fewY
				}
				for _, y := range ys {
					q.api(op, cpR(x), cpR(y), 12)
					r.Count("boundary:api")
					// the other way round, where the operator is not symmetric and the result stays small
					switch op {
					case "sub", "quo", "and", "or", "mul":
						q.api(op, cpR(y), cpR(x), 12)
						r.Count("boundary:api")
					}
				}
			}
			// boundary shift counts up to 2^32-1 are cheap for >> (not for <<)
			if x[0] != nil && x[1] != nil && x[0].Sign() >= 0 && x[1].Cmp(bi(0xFFFFFFFF)) <= 0 {
				q.api("rsh", IR{bi(-9), bi(int64(bIdx))}, cpR(x), 12)
				q.api("rsh", IR{new(big.Int).Neg(pow2(64, 0)), pow2(64, 1)}, cpR(x), 12)
				r.Count("boundary:api-rsh-bigcount")
			}
		}
	}
	// boundary against boundary
	for i := 0; i < nBoundaryPairs; i++ {
		op := ops[rng.Intn(len(ops))]
		mk := func() IR {
			b := bvals[rng.Intn(len(bvals))]
			switch rng.Intn(6) {
			case 0:
				return IR{cp(b), cp(b)}
			case 1:
				return IR{cp(b), new(big.Int).Add(b, bi(int64(rng.Intn(12))))}
			case 2:
				return IR{new(big.Int).Sub(b, bi(int64(rng.Intn(12)))), cp(b)}
			case 3:
				c := bvals[rng.Intn(len(bvals))]
				if c.Cmp(b) < 0 {
					b, c = c, b
				}
				return IR{cp(b), cp(c)}
			case 4:
				return IR{cp(b), nil}
			default:
				return IR{nil, cp(b)}
			}
		}
		x, y := mk(), mk()
		if op == "lsh" || op == "rsh" {
			y = shiftY[rng.Intn(len(shiftY))]
		}
		q.api(op, x, cpR(y), 12)
		r.Count("boundary:api-pair")
	}
	q.flush()
	r.Count("phase:boundary-api")

	// 7. every helper directly, with boundary operands
	smallInts := []int64{-3, -2, -1, 0, 1, 2, 3}
	shiftCounts := []int64{-2, -1, 0, 1, 2}
	for _, k := range boundaryKs {
		shiftCounts = append(shiftCounts, int64(k)-1, int64(k), int64(k)+1)
	}
	scalar := func(kind string, a, b *big.Int) { q.add(&item{kind: kind, a: a, b: b}) }
	for _, b := range bvals {
		for _, sv := range smallInts {
			sm := bi(sv)
			scalar("bquo", cp(b), sm)
			scalar("bquo", sm, cp(b))
			scalar("bmul", cp(b), sm)
			scalar("bmul", sm, cp(b))
		}
		for _, sc := range shiftCounts {
			scalar("blsh", cp(b), bi(sc))
			scalar("brsh", cp(b), bi(sc))
		}
		if b.Sign() >= 0 && b.Cmp(bi(0xFFFFFFFF)) <= 0 {
			for _, sv := range smallInts { // big counts on small values: the uint32 threshold of bigIntRsh
				scalar("brsh", bi(sv), cp(b))
			}
			scalar("brsh", cp(bvals[rng.Intn(len(bvals))]), cp(b))
		}
		q.add(&item{kind: "bset", a: cp(b)})
		q.add(&item{kind: "bnot", a: cp(b)})
		q.add(&item{kind: "bfr", n: new(big.Int).Abs(b)})
		if rng.Chance(1, 8) {
			q.add(&item{kind: "bfr", n: cp(b)}) // negative ones panic
		}
		r.Count("boundary:helper-value")
	}
	q.add(&item{kind: "bset"})
	q.add(&item{kind: "bnot"})
	q.add(&item{kind: "mkempty"})
	q.add(&item{kind: "newbip"})
	nPairsH := 3000
	if r.Thorough {
		nPairsH = 100000
	}
	for i := 0; i < nPairsH; i++ {
		a, b := bvals[rng.Intn(len(bvals))], bvals[rng.Intn(len(bvals))]
		if rng.Chance(1, 4) {
			a = randMag(rng)
		}
		if rng.Chance(1, 4) {
			b = randMag(rng)
		}
		scalar("bquo", cp(a), cp(b))
		scalar("bmul", cp(a), cp(b))
	}
	// bitMask: every n up to 140 (the table edge is in there, wherever it is), and boundary widths
	for n := 0; n <= 140; n++ {
		q.add(&item{kind: "bmask", n0: n, n1: rng.Intn(n + 1)})
		q.add(&item{kind: "bmask", n0: rng.Intn(n + 1), n1: n})
		q.add(&item{kind: "bmask", n0: n, n1: n})
	}
	for _, n := range []int{255, 256, 257, 1023, 1024, 4095, 4096, 65535, 65536} {
		q.add(&item{kind: "bmask", n0: n, n1: 0})
	}
	// biggerIntPair: lowerMin / raiseMax / toIntRange / fromIntRange over {-inf, +inf, values}
	var bis []bigger
	bis = append(bis, bigger{Extra: -1}, bigger{Extra: +1})
	for _, v := range []int64{-2, -1, 0, 1, 2} {
		bis = append(bis, bigger{I: bi(v)})
	}
	for i := 0; i < 6; i++ {
		bis = append(bis, bigger{I: cp(bvals[rng.Intn(len(bvals))])})
	}
	for _, lo := range bis {
		for _, hi := range bis {
			q.add(&item{kind: "toir", bip: [2]bigger{lo, hi}})
			for _, yv := range bis {
				q.add(&item{kind: "lowermin", bip: [2]bigger{lo, hi}, by: yv})
				q.add(&item{kind: "raisemax", bip: [2]bigger{lo, hi}, by: yv})
			}
		}
	}
	// ranges for the predicates, String, justZero, fromIntRange, mulLsh called directly
	var rvals []bound
	rvals = append(rvals, nil)
	for _, v := range []int64{-2, -1, 0, 1, 2} {
		rvals = append(rvals, bi(v))
	}
	for _, k := range []int{63, 64} {
		rvals = append(rvals, pow2(k, 0), new(big.Int).Neg(pow2(k, 0)))
	}
	var rr []IR
	for _, a := range rvals {
		for _, b := range rvals {
			rr = append(rr, IR{cp(a), cp(b)})
		}
	}
	for _, x := range rr {
		q.add(&item{kind: "jz", x: x})
		q.add(&item{kind: "str", x: x})
		q.add(&item{kind: "fromir", x: x})
		for _, v := range []int64{-1, 0, 1} {
			q.add(&item{kind: "preds", x: x, a: bi(v)})
		}
		q.add(&item{kind: "preds", x: x, a: cp(bvals[rng.Intn(len(bvals))])})
		for _, y := range rr {
			q.add(&item{kind: "rel", x: x, y: y})
		}
	}
	nMulLsh := 4000
	if r.Thorough {
		nMulLsh = 100000
	}
	for i := 0; i < nMulLsh; i++ {
		sm := rng.Chance(1, 2)
		x, y := randRange(rng, sm), randRange(rng, sm)
		sh := "0"
		if rng.Bool() {
			// shift = true, including the "unreachable" negative-count blocks; counts kept small
			sh = "1"
			y = shiftRange(rng)
			if rng.Chance(1, 3) {
				y = IR{bi(int64(rng.Intn(9) - 6)), bi(int64(rng.Intn(9) - 2))}
			}
			if y[1] == nil && rng.Bool() {
				y[1] = bi(40)
			}
		}
		q.add(&item{kind: "mullsh", op: sh, x: x, y: y})
	}
	q.flush()
	r.Count("phase:helpers")

	r.Finish("corpus lines first; systematic: all 10 ops x bounds in [-B,B]∪{inf} (B=3 quick, 9 thorough) incl. empty intervals; " +
		"random: magnitudes around 2^k±2 up to k=135, sign-straddling, half-infinite; bit patterns: prefix-sharing / adjacent / touching / " +
		"complementary non-negative ranges (1..131 bits) through andMax/orMax and through And/Or plain, complemented and straddling; " +
		"half-infinite and/or; shifts: every count 0..200, 2^32 threshold with x=[0,0]/empty only; " +
		"machine-word boundaries: bounds ±2^k+{-1..1} (±2 at the word sizes 31,32,63,64) for k in 7,8,15,16,31,32,62,63,64,65,127,128 (7-10 range shapes each, incl. zero-anchored and sign-straddling) against small " +
		"divisors/factors/shift counts (-1,0,1,..) through all 10 ops, and boundary against boundary; every unexported helper directly " +
		"(bigIntQuo/Mul/Lsh/Rsh/NewSet/NewNot, bitMask 0..140, biggerIntPair ops, predicates, String, justZero, mulLsh incl. negative counts). " +
		"non-trivial = both operands non-empty; distinct = distinct op line")
}
