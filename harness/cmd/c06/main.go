// C06 harness: lib/interval vs the Lean model (Model/Interval.lean), plus the
// property's own oracle (containment, tightness, exact failure, freshness)
// evaluated on the implementation with math/big.
package main

import (
	"fmt"
	"math/big"
	"strings"

	"github.com/google/wuffs/lib/interval"
	"wvh/hlib"
)

type bound = *big.Int // nil = infinite

func showB(b bound) string {
	if b == nil {
		return "inf"
	}
	return b.String()
}
func showR(r interval.IntRange) string { return showB(r[0]) + " " + showB(r[1]) }

var ops = []string{"add", "sub", "mul", "quo", "lsh", "rsh", "and", "or", "unite", "intersect"}

func cp(b bound) bound {
	if b == nil {
		return nil
	}
	return new(big.Int).Set(b)
}

func apply(op string, x, y interval.IntRange) (z interval.IntRange, ok bool) {
	switch op {
	case "add":
		return x.TryAdd(y)
	case "sub":
		return x.TrySub(y)
	case "mul":
		return x.TryMul(y)
	case "quo":
		return x.TryQuo(y)
	case "lsh":
		return x.TryLsh(y)
	case "rsh":
		return x.TryRsh(y)
	case "and":
		return x.TryAnd(y)
	case "or":
		return x.TryOr(y)
	case "unite":
		return x.TryUnite(y)
	case "intersect":
		return x.TryIntersect(y)
	}
	panic("bad op")
}

// concrete semantics, independent of the package under test
func concrete(op string, a, b *big.Int) (*big.Int, bool) {
	z := new(big.Int)
	switch op {
	case "add":
		return z.Add(a, b), true
	case "sub":
		return z.Sub(a, b), true
	case "mul":
		return z.Mul(a, b), true
	case "quo":
		if b.Sign() == 0 {
			return nil, false
		}
		return z.Quo(a, b), true
	case "lsh":
		if b.Sign() < 0 {
			return nil, false
		}
		if a.Sign() == 0 {
			return z, true
		}
		if !b.IsInt64() || b.Int64() > 4096 {
			return nil, true // too big to evaluate; skip this member
		}
		return z.Lsh(a, uint(b.Int64())), true
	case "rsh":
		if b.Sign() < 0 {
			return nil, false
		}
		if !b.IsInt64() || b.Int64() > 1<<20 {
			if a.Sign() < 0 {
				return z.SetInt64(-1), true
			}
			return z, true
		}
		return z.Rsh(a, uint(b.Int64())), true
	case "and":
		return z.And(a, b), true
	case "or":
		return z.Or(a, b), true
	}
	panic("bad op")
}

func empty(r interval.IntRange) bool { return r[0] != nil && r[1] != nil && r[0].Cmp(r[1]) > 0 }

func contains(r interval.IntRange, v *big.Int) bool {
	return (r[0] == nil || r[0].Cmp(v) <= 0) && (r[1] == nil || r[1].Cmp(v) >= 0)
}

// members returns sample members of r: corners, near-corners, zero-crossings,
// and (when the width is small) all members.
func members(rng *hlib.Rand, r interval.IntRange, exhaustiveWidth int64) []*big.Int {
	if empty(r) {
		return nil
	}
	var out []*big.Int
	add := func(v *big.Int) {
		if contains(r, v) {
			out = append(out, v)
		}
	}
	if r[0] != nil && r[1] != nil {
		w := new(big.Int).Sub(r[1], r[0])
		if w.IsInt64() && w.Int64() <= exhaustiveWidth {
			for i := int64(0); i <= w.Int64(); i++ {
				out = append(out, new(big.Int).Add(r[0], big.NewInt(i)))
			}
			return out
		}
	}
	for _, c := range []int64{-2, -1, 0, 1, 2} {
		add(big.NewInt(c))
	}
	for _, b := range []*big.Int{r[0], r[1]} {
		if b == nil {
			continue
		}
		for _, d := range []int64{0, 1, 2, 3, -1, -2, -3} {
			add(new(big.Int).Add(b, big.NewInt(d)))
		}
	}
	// random members
	for i := 0; i < 6; i++ {
		var v *big.Int
		switch {
		case r[0] != nil && r[1] != nil:
			w := new(big.Int).Sub(r[1], r[0])
			w.Add(w, big.NewInt(1))
			v = new(big.Int).SetUint64(rng.Uint64())
			v.Mul(v, new(big.Int).SetUint64(rng.Uint64()))
			v.Mul(v, new(big.Int).SetUint64(rng.Uint64()))
			v.Mod(v, w)
			v.Add(v, r[0])
		case r[0] != nil:
			v = new(big.Int).Add(r[0], randMag(rng).Abs(randMag(rng)))
		case r[1] != nil:
			v = new(big.Int).Sub(r[1], randMag(rng).Abs(randMag(rng)))
		default:
			v = randMag(rng)
		}
		add(v)
	}
	return out
}

func randMag(rng *hlib.Rand) *big.Int {
	k := rng.Intn(70)
	if rng.Chance(1, 8) {
		k = 60 + rng.Intn(75)
	}
	v := new(big.Int).Lsh(big.NewInt(1), uint(k))
	v.Add(v, big.NewInt(int64(rng.Intn(5)-2)))
	if rng.Chance(1, 3) {
		v.Sub(v, new(big.Int).SetUint64(rng.Uint64()>>uint(64-min(k, 63)+0)))
	}
	if rng.Bool() {
		v.Neg(v)
	}
	return v
}

func min(a, b int) int {
	if a < b {
		return a
	}
	return b
}

func randBound(rng *hlib.Rand, small bool) bound {
	if rng.Chance(1, 7) {
		return nil
	}
	if small {
		return big.NewInt(int64(rng.Intn(41) - 20))
	}
	switch rng.Intn(4) {
	case 0:
		return big.NewInt(int64(rng.Intn(41) - 20))
	case 1:
		return big.NewInt(int64(rng.Intn(2001) - 1000))
	default:
		return randMag(rng)
	}
}

func randRange(rng *hlib.Rand, small bool) interval.IntRange {
	a, b := randBound(rng, small), randBound(rng, small)
	if a != nil && b != nil && a.Cmp(b) > 0 && !rng.Chance(1, 10) {
		a, b = b, a // mostly non-empty
	}
	if rng.Chance(1, 4) && a != nil {
		// narrow range near a
		b = new(big.Int).Add(a, big.NewInt(int64(rng.Intn(40))))
	}
	return interval.IntRange{a, b}
}

// for shifts: keep counts small unless the shifted value makes it cheap.
func shiftRange(rng *hlib.Rand) interval.IntRange {
	a := big.NewInt(int64(rng.Intn(12) - 2))
	if rng.Chance(1, 6) {
		a = big.NewInt(int64(rng.Intn(200)))
	}
	var b bound = new(big.Int).Add(a, big.NewInt(int64(rng.Intn(10))))
	if rng.Chance(1, 8) {
		b = nil
	}
	if rng.Chance(1, 12) {
		return interval.IntRange{nil, b}
	}
	if rng.Chance(1, 20) {
		a, b = b, a
		if a == nil {
			a = big.NewInt(3)
		}
	}
	return interval.IntRange{a, b}
}

type caseT struct {
	op   string
	x, y interval.IntRange
}

func (c caseT) line() string { return c.op + " " + showR(c.x) + " " + showR(c.y) }

func run1(r *hlib.Run, c caseT, exhaustiveWidth int64) {
	xs := interval.IntRange{cp(c.x[0]), cp(c.x[1])}
	ys := interval.IntRange{cp(c.y[0]), cp(c.y[1])}
	var z interval.IntRange
	var ok bool
	out, msg := hlib.GuardMsg(func() string {
		z, ok = apply(c.op, c.x, c.y)
		if !ok {
			return "fail"
		}
		return "ok " + showR(z)
	})
	r.Op(c.line(), out)
	r.Count("op:" + c.op)
	r.Count("out:" + strings.SplitN(out, " ", 2)[0])
	line := c.line()
	if out == "panic" {
		r.Fail("panic:"+c.op, "interval op panicked: "+msg, line)
		return
	}
	// operands unchanged
	if showR(xs) != showR(c.x) || showR(ys) != showR(c.y) {
		r.Fail("operand-mutated:"+c.op, "operation changed an operand", line)
	}
	xe, ye := empty(c.x), empty(c.y)
	nontrivial := !xe && !ye
	// exact-failure clause
	if c.op == "quo" || c.op == "lsh" || c.op == "rsh" {
		undefined := false
		if !xe && !ye {
			if c.op == "quo" {
				undefined = contains(c.y, big.NewInt(0))
			} else {
				undefined = c.y[0] == nil || c.y[0].Sign() < 0
			}
		}
		if undefined == ok {
			r.Fail("exact-failure:"+c.op, fmt.Sprintf("ok=%v but some pair undefined=%v", ok, undefined), line)
		}
	} else if !ok {
		r.Fail("spurious-failure:"+c.op, "operation that cannot fail reported failure", line)
	}
	if !ok {
		if nontrivial {
			r.Nontrivial(line)
		}
		return
	}
	// freshness: result pointers distinct from operands and package-level values
	for _, p := range z {
		if p == nil {
			continue
		}
		if p == c.x[0] || p == c.x[1] || p == c.y[0] || p == c.y[1] || interval.VerifShared(p) {
			r.Fail("shared-storage:"+c.op, "result shares a *big.Int with an operand or a package-level value", line)
		}
	}
	if z[0] != nil && z[0] == z[1] {
		r.Fail("shared-storage:"+c.op, "result bounds share one *big.Int", line)
	}
	if xe || ye {
		if c.op != "unite" && !empty(z) {
			r.Fail("empty-in-nonempty-out:"+c.op, "empty operand gave non-empty result "+showR(z), line)
		}
		if c.op != "unite" {
			return
		}
	}
	if c.op == "unite" || c.op == "intersect" {
		for _, v := range append(members(r.Rand, c.x, exhaustiveWidth), members(r.Rand, c.y, exhaustiveWidth)...) {
			inX, inY := contains(c.x, v) && !xe, contains(c.y, v) && !ye
			if c.op == "unite" && (inX || inY) && !contains(z, v) {
				r.Fail("containment:unite", "member "+v.String()+" not in union "+showR(z), line)
			}
			if c.op == "intersect" && (inX && inY) != contains(z, v) {
				r.Fail("containment:intersect", "member "+v.String()+" wrongly classified by "+showR(z), line)
			}
		}
		if c.op == "unite" && !xe && !ye {
			// tightest: bounds are the min/max of the operands' bounds
			for k := 0; k < 2; k++ {
				if z[k] != nil && !(z[k].Cmp(c.x[k]) == 0 || z[k].Cmp(c.y[k]) == 0) {
					r.Fail("tightness:unite", "bound not attained", line)
				}
			}
		}
		r.Nontrivial(line)
		return
	}
	mx, my := members(r.Rand, c.x, exhaustiveWidth), members(r.Rand, c.y, exhaustiveWidth)
	allFinite := c.x[0] != nil && c.x[1] != nil && c.y[0] != nil && c.y[1] != nil
	exh := false
	if allFinite {
		wx := new(big.Int).Sub(c.x[1], c.x[0])
		wy := new(big.Int).Sub(c.y[1], c.y[0])
		exh = wx.IsInt64() && wy.IsInt64() && wx.Int64() <= exhaustiveWidth && wy.Int64() <= exhaustiveWidth
	}
	var lo, hi *big.Int
	for _, a := range mx {
		for _, b := range my {
			v, def := concrete(c.op, a, b)
			if !def {
				r.Fail("exact-failure:"+c.op, fmt.Sprintf("ok but %v %s %v undefined", a, c.op, b), line)
				continue
			}
			if v == nil {
				continue
			}
			if !contains(z, v) {
				r.Fail("containment:"+c.op, fmt.Sprintf("%v %s %v = %v not in %s", a, c.op, b, v, showR(z)), line)
			}
			if lo == nil || v.Cmp(lo) < 0 {
				lo = v
			}
			if hi == nil || v.Cmp(hi) > 0 {
				hi = v
			}
		}
	}
	if exh && lo != nil {
		r.Count("tightness-checked")
		if z[0] == nil || z[1] == nil || z[0].Cmp(lo) != 0 || z[1].Cmp(hi) != 0 {
			r.Fail("tightness:"+c.op, fmt.Sprintf("tightest is %v %v, got %s", lo, hi, showR(z)), line)
		}
	}
	r.Nontrivial(line)
}

func internals(r *hlib.Run, rng *hlib.Rand) {
	// andMax / orMax / bitFillRight / split on non-negative finite ranges
	nn := func() (interval.IntRange, []string) {
		a := new(big.Int).Abs(randBound2(rng))
		b := new(big.Int).Add(a, new(big.Int).Abs(randBound2(rng)))
		if rng.Chance(1, 3) {
			b = new(big.Int).Add(a, big.NewInt(int64(rng.Intn(9))))
		}
		return interval.IntRange{a, b}, nil
	}
	x, _ := nn()
	y, _ := nn()
	for _, op := range []string{"andmax", "ormax"} {
		out := hlib.Guard(func() string {
			if op == "andmax" {
				return "v " + interval.VerifAndMax(x, y).String()
			}
			return "v " + interval.VerifOrMax(x, y).String()
		})
		r.Op(op+" "+showR(x)+" "+showR(y), out)
		r.Count("op:" + op)
	}
	n := new(big.Int).Abs(randBound2(rng))
	s := n.String()
	r.Op("bfr "+s, hlib.Guard(func() string { interval.VerifBitFillRight(n); return "v " + n.String() }))
	z := randRange(rng, rng.Bool())
	r.Op("split2 "+showR(z), hlib.Guard(func() string {
		a, b, c, d := interval.VerifSplit2Ways(z)
		return fmt.Sprintf("s %s %s %v %v", showR(a), showR(b), c, d)
	}))
	r.Op("split3 "+showR(z), hlib.Guard(func() string {
		a, b, c, d, e := interval.VerifSplit3Ways(z)
		return fmt.Sprintf("s %s %s %v %v %v", showR(a), showR(b), c, d, e)
	}))
}

func randBound2(rng *hlib.Rand) *big.Int {
	b := randBound(rng, rng.Chance(1, 3))
	if b == nil {
		return big.NewInt(int64(rng.Intn(64)))
	}
	return b
}

func main() {
	r := hlib.Start("C06")
	rng := r.Rand
	// 1. systematic small boxes, all ops (bounds in [-B, B] plus infinite, incl. empties)
	B := int64(3)
	nRandom := 12000
	if r.Thorough {
		B = 6
		nRandom = 400000
	}
	var vals []bound
	vals = append(vals, nil)
	for i := -B; i <= B; i++ {
		vals = append(vals, big.NewInt(i))
	}
	for _, op := range ops {
		for _, a := range vals {
			for _, b := range vals {
				for _, c := range vals {
					for _, d := range vals {
						if (op == "lsh") && false {
							continue
						}
						run1(r, caseT{op, interval.IntRange{cp(a), cp(b)}, interval.IntRange{cp(c), cp(d)}}, 64)
					}
				}
			}
		}
	}
	r.Count("phase:systematic")
	// 2. random, structured
	for i := 0; i < nRandom; i++ {
		op := ops[rng.Intn(len(ops))]
		small := rng.Chance(1, 3)
		c := caseT{op: op, x: randRange(rng, small), y: randRange(rng, small)}
		if op == "lsh" || op == "rsh" {
			c.y = shiftRange(rng)
			if op == "lsh" && rng.Chance(1, 2) {
				c.x = randRange(rng, true)
			}
		}
		if i < 4 {
			r.Sample(c.line())
		}
		run1(r, c, 24)
		if i%4 == 0 {
			internals(r, rng)
		}
	}
	r.Finish("systematic: all 10 ops x bounds in [-B,B]∪{inf} (B=3 quick, 6 thorough) incl. empty intervals; random: magnitudes around 2^k±2 up to k=135, sign-straddling, half-infinite; non-trivial = both operands non-empty; distinct = distinct op line")
}
