// C14 harness: rac.Reader (sequential and concurrent) vs (a) the Lean model of reader.go
// (Model/Rac/Reader.lean, line by line) and (b) the property's own oracle: the same calls on an
// in-memory reader (bytes.Reader + limit) over the fully decoded data; a 20 s watchdog on
// every call; goroutine count back to the baseline after Close.
package main

import (
	"bytes"
	"fmt"
	"io"
	"os"
	"os/exec"
	"path/filepath"
	"runtime"
	"strings"
	"sync"
	"sync/atomic"
	"time"

	"github.com/google/wuffs/lib/rac"
	"wvh/hlib"
)

const watchdog = 20 * time.Second

// -1 stands for Concurrency 0 over a source that is only an io.ReadSeeker (no ReadAt): the path
// that does not go through lib/readerat.
var concLevels = []int{0, -1, 1, 2, 3, 8}

type plainReadSeeker struct{ r *bytes.Reader }

func (p plainReadSeeker) Read(b []byte) (int, error)                { return p.r.Read(b) }
func (p plainReadSeeker) Seek(off int64, whence int) (int64, error) { return p.r.Seek(off, whence) }

// ---- ops

type op struct {
	kind   string // read | seek | seekrange | close
	a, b   int64
	pauseU int // microseconds to sleep before the call (scheduling diversity; no effect on results)
}

// call is the op in the syntax of the driver's `dsched` line (CloseWithoutWaiting: the model has Close only;
// the results are the same)
func (o op) call() string {
	switch o.kind {
	case "read":
		return fmt.Sprintf("read:%d", o.a)
	case "seek":
		return fmt.Sprintf("seek:%d:%d", o.a, o.b)
	case "seekrange":
		return fmt.Sprintf("seekrange:%d:%d", o.a, o.b)
	}
	return "close"
}

func (o op) line() string {
	switch o.kind {
	case "read":
		return fmt.Sprintf("read %d", o.a)
	case "seek":
		return fmt.Sprintf("seek %d %d", o.a, o.b)
	case "seekrange":
		return fmt.Sprintf("seekrange %d %d", o.a, o.b)
	case "closenw":
		return "closenw"
	}
	return "close"
}

const (
	maxI64 = int64(^uint64(0) >> 1)
	minI64 = -maxI64 - 1
)

// interesting positions of a file: chunk boundaries, worker-buffer boundaries, ends
func interesting(tf *testFile) []int64 {
	pts := []int64{0, 1, tf.size, tf.size - 1, tf.size + 1, tf.size / 2, tf.size + 1000}
	for i, c := range tf.chunks {
		if i > 40 && i%17 != 0 {
			continue
		}
		pts = append(pts, c.lo, c.lo+1, c.hi-1, c.lo+int64(len(c.data)), c.lo+int64(len(c.data))-1)
	}
	for k := int64(1); k*rac.VerifRBufferSize <= tf.size+rac.VerifRBufferSize; k++ {
		if k > 8 {
			break
		}
		pts = append(pts, k*rac.VerifRBufferSize-1, k*rac.VerifRBufferSize, k*rac.VerifRBufferSize+1)
	}
	out := pts[:0]
	for _, p := range pts {
		if p >= 0 {
			out = append(out, p)
		}
	}
	return out
}

func pickPos(rng *hlib.Rand, tf *testFile, pts []int64) int64 {
	switch rng.Intn(10) {
	case 0, 1, 2, 3, 4:
		return pts[rng.Intn(len(pts))]
	case 5:
		return tf.size + int64(rng.Intn(5000))
	default:
		if tf.size == 0 {
			return 0
		}
		return int64(rng.Uint64() % uint64(tf.size))
	}
}

func pickLen(rng *hlib.Rand, tf *testFile) int64 {
	switch rng.Intn(12) {
	case 0:
		return 0
	case 1:
		return 1
	case 2:
		return int64(1 + rng.Intn(16))
	case 3:
		return tf.size + int64(rng.Intn(20)) // huge: more than the whole file
	case 4:
		return int64(rac.VerifRBufferSize) + int64(rng.Range(-1, 1))
	case 5:
		return int64(2*rac.VerifRBufferSize) + int64(rng.Range(-2, 2))
	case 6:
		if len(tf.chunks) > 0 {
			c := tf.chunks[rng.Intn(len(tf.chunks))]
			return c.hi - c.lo + int64(rng.Range(-1, 1))
		}
		return 3
	case 7:
		return int64(rng.Intn(3000))
	case 8:
		return tf.size/2 + 1
	default:
		return int64(1 + rng.Intn(600))
	}
}

// genOps makes one call sequence. `invalid` allows invalid calls (bad whence, negative
// positions / ranges, overflowing offsets).
func genOps(rng *hlib.Rand, tf *testFile, invalid bool) []op {
	pts := interesting(tf)
	n := 3 + rng.Intn(22)
	var ops []op
	pos, lim := int64(0), tf.size // where the reader will be, to aim relative seeks
	closed := false
	didRead := func(n int64) {
		if pos < lim {
			if n > lim-pos {
				n = lim - pos
			}
			pos += n
		}
	}
	if rng.Chance(1, 30) { // Close before anything else
		ops = append(ops, op{kind: "close"})
		closed = true
	}
	for len(ops) < n {
		var o op
		k := rng.Intn(100)
		switch {
		case k < 45:
			o = op{kind: "read", a: pickLen(rng, tf)}
			didRead(o.a)
		case k < 75:
			target := pickPos(rng, tf, pts)
			switch rng.Intn(4) {
			case 0, 1:
				o = op{kind: "seek", a: target, b: 0}
			case 2:
				o = op{kind: "seek", a: target - pos, b: 1}
			default:
				o = op{kind: "seek", a: target - tf.size, b: 2}
			}
			if rng.Chance(1, 6) { // position query / no-op seek
				o = op{kind: "seek", a: 0, b: 1}
				target = pos
			}
			pos, lim = target, tf.size
		case k < 93:
			lo := pickPos(rng, tf, pts)
			if rng.Chance(1, 4) {
				lo = pos // same position, different limit
			}
			hi := lo + pickLen(rng, tf)
			switch rng.Intn(8) {
			case 0:
				hi = lo
			case 1:
				hi = maxI64
			case 2:
				hi = tf.size
			}
			o = op{kind: "seekrange", a: lo, b: hi}
			pos, lim = lo, hi
			if lim > tf.size {
				lim = tf.size
			}
		case k < 96 && invalid && len(ops) >= n/2:
			switch rng.Intn(8) {
			case 0:
				o = op{kind: "seek", a: int64(rng.Intn(10)), b: int64(3 + rng.Intn(3))}
			case 1:
				o = op{kind: "seek", a: 0, b: -1}
			case 2:
				o = op{kind: "seek", a: -1 - int64(rng.Intn(5)), b: 0}
			case 3:
				o = op{kind: "seek", a: -tf.size - 1 - int64(rng.Intn(5)), b: 2}
			case 4:
				o = op{kind: "seek", a: maxI64, b: int64(1 + rng.Intn(2))} // wraps negative unless pos = 0
			case 5:
				o = op{kind: "seek", a: minI64, b: int64(rng.Intn(3))}
			case 6:
				o = op{kind: "seekrange", a: 10, b: 9 - int64(rng.Intn(12))}
			default:
				o = op{kind: "seekrange", a: -1 - int64(rng.Intn(3)), b: int64(rng.Intn(5))}
			}
		case k < 98 && !closed && len(ops) > n/2:
			o = op{kind: "close"}
			if rng.Chance(1, 3) {
				o.kind = "closenw"
			}
			closed = true
		default:
			o = op{kind: "read", a: int64(1 + rng.Intn(100))}
			didRead(o.a)
		}
		if rng.Chance(1, 5) {
			o.pauseU = rng.Intn(400)
		}
		ops = append(ops, o)
	}
	if !closed && rng.Chance(1, 6) {
		ops = append(ops, op{kind: "closenw"}) // CloseWithoutWaiting: the goroutines must still end
	} else {
		ops = append(ops, op{kind: "close"})
	}
	if rng.Chance(1, 4) {
		ops = append(ops, op{kind: "close"})
		ops = append(ops, op{kind: "read", a: 1})
	}
	return ops
}

// ---- canonical output

func fnv1a64(b []byte) uint64 {
	h := uint64(14695981039346656037)
	for _, x := range b {
		h = (h ^ uint64(x)) * 1099511628211
	}
	return h
}

func showBytes(b []byte) string {
	if len(b) <= 48 {
		return hlib.Hex(b)
	}
	return fmt.Sprintf("#%016x", fnv1a64(b))
}

func errWord(err error) string {
	if err == nil {
		return "nil"
	}
	if err == io.EOF {
		return "eof"
	}
	if err == io.ErrUnexpectedEOF {
		return "ueof"
	}
	switch err.Error() {
	case "rac: seek to invalid whence":
		return "whence"
	case "rac: seek to negative position":
		return "negpos"
	case "rac: seek to negative range":
		return "negrange"
	case "rac: already closed":
		return "closed"
	case "rac: invalid chunk (too large)":
		return "toolarge"
	case "rac: invalid chunk (truncated)":
		return "truncated"
	case "rac: internal error: inconsistent position":
		return "inconsistent"
	}
	return "other(" + strings.ReplaceAll(err.Error(), " ", "_") + ")"
}

// ---- the reference: an in-memory reader with a limit

type refReader struct {
	br   *bytes.Reader
	size int64
	lim  int64
}

func (f *refReader) pos() int64 { p, _ := f.br.Seek(0, io.SeekCurrent); return p }

func (f *refReader) read(n int64) ([]byte, bool) { // bytes, eof (only with 0 bytes)
	p := f.pos()
	if p >= f.lim {
		return nil, true
	}
	if n > f.lim-p {
		n = f.lim - p
	}
	buf := make([]byte, n)
	k, _ := io.ReadFull(f.br, buf)
	return buf[:k], false
}

func (f *refReader) seek(off int64, whence int) (int64, error) {
	p, err := f.br.Seek(off, whence)
	if err == nil {
		f.lim = f.size
	}
	return p, err
}

func (f *refReader) seekRange(lo, hi int64) error {
	if lo > hi {
		return fmt.Errorf("negative range")
	}
	if _, err := f.br.Seek(lo, io.SeekStart); err != nil {
		return err
	}
	f.lim = hi
	if f.lim > f.size {
		f.lim = f.size
	}
	return nil
}

// ---- running one sequence on one Reader

type failure struct{ key, desc string }

type seqResult struct {
	outs     []string // one per op actually issued
	fails    []failure
	hung     bool
	gotBytes bool // some Read after a Seek/SeekRange returned data
}

func runSeq(tf *testFile, conc int, ops []op, leakCheck bool) seqResult {
	var res seqResult
	base := runtime.NumGoroutine()
	r := &rac.Reader{
		ReadSeeker:     bytes.NewReader(tf.enc),
		CompressedSize: int64(len(tf.enc)),
		CodecReaders:   tf.codecReaders(),
		Concurrency:    conc,
	}
	if conc < 0 {
		r.ReadSeeker = plainReadSeeker{bytes.NewReader(tf.enc)}
		r.Concurrency = 0
		conc = 0
	}
	var ref *refReader
	if tf.valid {
		ref = &refReader{br: bytes.NewReader(tf.decoded), size: tf.size, lim: tf.size}
	}
	refLive := ref != nil // false once an invalid call or Close has been made
	closedOK := false
	failf := func(key, format string, a ...interface{}) {
		res.fails = append(res.fails, failure{key, fmt.Sprintf("c=%d ", conc) + fmt.Sprintf(format, a...)})
	}
	prevKind, sinceRead := "", ""
	for i, o := range ops {
		if o.pauseU > 0 {
			time.Sleep(time.Duration(o.pauseU) * time.Microsecond)
		}
		var n int
		var data []byte
		var pos int64
		var err error
		out, ok := hlib.WithTimeout(watchdog, func() string {
			switch o.kind {
			case "read":
				buf := make([]byte, o.a)
				for i := range buf {
					buf[i] = 0xAA // the Reader must overwrite what it reports as read (implicit zeroes too)
				}
				n, err = r.Read(buf)
				data = buf[:n]
				w := errWord(err)
				if n > 0 && err == io.EOF {
					w = "nil" // (n>0, EOF) == (n, nil) then (0, EOF)
				}
				return fmt.Sprintf("n=%d bytes=%s err=%s", n, showBytes(data), w)
			case "seek":
				pos, err = r.Seek(o.a, int(o.b))
				return fmt.Sprintf("pos=%d err=%s", pos, errWord(err))
			case "seekrange":
				err = r.SeekRange(o.a, o.b)
				return "err=" + errWord(err)
			case "closenw":
				err = r.CloseWithoutWaiting()
				return "err=" + errWord(err)
			default:
				err = r.Close()
				return "err=" + errWord(err)
			}
		})
		res.outs = append(res.outs, out)
		if !ok {
			res.hung = true
			key := "deadlock:" + o.kind
			if conc > 1 {
				switch {
				case o.kind == "read" && strings.Contains(sinceRead, "seek"):
					key = "deadlock:read-after-seek-with-work-in-flight"
				case o.kind == "close":
					key = "deadlock:close"
				}
			}
			failf(key, "call %d (%s) did not return within %v", i, o.line(), watchdog)
			return res // the Reader is abandoned
		}
		if out == "panic" {
			failf("panic:"+o.kind, "call %d (%s) panicked", i, o.line())
			return res
		}
		// the property's own oracle
		switch {
		case closedOK:
			if err == nil {
				failf("mismatch:call-after-close-succeeds", "call %d (%s) after Close returned no error", i, o.line())
			}
		case o.kind == "close" || o.kind == "closenw":
			closedOK = true
			if refLive && err != nil {
				failf("mismatch:close-error", "Close returned %v", err)
			}
		case refLive:
			switch o.kind {
			case "read":
				want, wantEOF := ref.read(o.a)
				gotEOF := err == io.EOF && n == 0
				switch {
				case err != nil && err != io.EOF:
					failf("mismatch:read-error", "call %d (%s): error %v on a valid file", i, o.line(), err)
					refLive = false
				case n != len(want):
					failf("mismatch:read-count", "call %d (%s) at pos %d: got %d bytes, in-memory reader gives %d", i, o.line(), ref.pos()-int64(len(want)), n, len(want))
					refLive = false
				case !bytes.Equal(data, want):
					failf("mismatch:read-bytes", "call %d (%s): bytes differ from the decoded data at pos %d", i, o.line(), ref.pos()-int64(len(want)))
					refLive = false
				case gotEOF != wantEOF:
					failf("mismatch:eof", "call %d (%s): EOF=%v, in-memory reader EOF=%v", i, o.line(), gotEOF, wantEOF)
					refLive = false
				}
				if n > 0 && strings.Contains(sinceRead, "seek") {
					res.gotBytes = true
				}
			case "seek":
				want, werr := ref.seek(o.a, int(o.b))
				switch {
				case werr != nil:
					refLive = false
					if err == nil {
						failf("mismatch:invalid-seek-accepted", "call %d (%s): accepted, in-memory reader rejects it (%v)", i, o.line(), werr)
					}
				case err != nil:
					failf("mismatch:seek-error", "call %d (%s): error %v, in-memory reader returns %d", i, o.line(), err, want)
					refLive = false
				case pos != want:
					failf("mismatch:seek-pos", "call %d (%s): position %d, in-memory reader %d", i, o.line(), pos, want)
					refLive = false
				}
			case "seekrange":
				werr := ref.seekRange(o.a, o.b)
				switch {
				case werr != nil:
					refLive = false
					if err == nil {
						failf("mismatch:invalid-seekrange-accepted", "call %d (%s): accepted", i, o.line())
					}
				case err != nil:
					failf("mismatch:seekrange-error", "call %d (%s): error %v", i, o.line(), err)
					refLive = false
				}
			}
		}
		if o.kind == "read" {
			sinceRead = ""
		} else {
			sinceRead += o.kind + " "
		}
		prevKind = o.kind
	}
	_ = prevKind
	if leakCheck {
		deadline := time.Now().Add(5 * time.Second)
		for runtime.NumGoroutine() > base && time.Now().Before(deadline) {
			time.Sleep(2 * time.Millisecond)
		}
		if g := runtime.NumGoroutine(); g > base {
			failf("leak:goroutines-after-close", "%d goroutines before the Reader existed, %d five seconds after Close", base, g)
		}
	}
	return res
}

// ---- cases

type testCase struct {
	id      int
	tf      *testFile
	ops     []op
	levels  []int
	skipped string
}

type caseOut struct {
	lines   [][2]string // op line, impl output
	fails   []failure
	hung    int
	sigs    []string
	got     bool
	dsched  int
	perfunc int
}

func (c *testCase) replay(upto int) string {
	var sb strings.Builder
	fmt.Fprintf(&sb, "# %s; %d compressed bytes; run: ./check C14 (same seed and tier), or feed the lines below to lean/.lake/build/bin/wv_c14\n", c.tf.desc, len(c.tf.enc))
	line := c.tf.caseLine(c.id)
	if len(line) > 20000 {
		line = line[:20000] + "…(cut; the harness regenerates the file from the seed)"
	}
	sb.WriteString(line + "\n")
	for i, o := range c.ops {
		if upto >= 0 && i > upto {
			break
		}
		sb.WriteString(o.line() + "\n")
	}
	return sb.String()
}

// hungTotal counts Readers abandoned by the watchdog; after a few, the concurrent levels of the
// remaining cases are skipped (the run has failed already; every further hang costs 20 s).
var hungTotal int32

func runCase(c *testCase, leakCheck bool) caseOut {
	var out caseOut
	out.lines = append(out.lines, [2]string{c.tf.caseLine(c.id), fmt.Sprintf("ok chunks=%d size=%d valid=%v", len(c.tf.chunks), c.tf.size, c.tf.valid)})
	markStart(c.id, c.replay(-1)+"# (during the per-function runs of runRManager / runRWorker on this file)")
	pf := perFunction(c, hlib.NewRand(c.tf.seed^uint64(c.id)*0x9E3779B97F4A7C15))
	markDone(c.id)
	out.lines = append(out.lines, pf.lines...)
	out.fails = append(out.fails, pf.fails...)
	out.perfunc = len(pf.lines)
	for _, lv := range c.levels {
		if lv > 1 && atomic.LoadInt32(&hungTotal) >= 3 {
			continue
		}
		shown := lv
		if shown < 0 {
			shown = 0
		}
		out.lines = append(out.lines, [2]string{fmt.Sprintf("open c=%d", shown), "ok"})
		markStart(c.id, strings.Replace(c.replay(-1), "\n", fmt.Sprintf("\n# c=%d\n", shown), 1))
		res := runSeq(c.tf, lv, c.ops, leakCheck && atomic.LoadInt32(&hungTotal) == 0)
		markDone(c.id)
		for i, o := range res.outs {
			out.lines = append(out.lines, [2]string{c.ops[i].line(), o})
		}
		out.fails = append(out.fails, res.fails...)
		if res.hung {
			out.hung++
			atomic.AddInt32(&hungTotal, 1)
		}
		out.got = out.got || res.gotBytes
		// The same calls through the concurrent MODEL (Model/Rac/ConcData.lean) under a pseudo-random
		// schedule: it must print what the real concurrent Reader returned.
		if lv == 2 && c.tf.valid && !res.hung && len(res.fails) == 0 && len(res.outs) == len(c.ops) &&
			c.tf.size <= 400000 && len(c.tf.chunks) <= 450 {
			seed := uint64(c.id)*7919 + c.tf.seed%1000003
			calls := make([]string, len(c.ops))
			for i, o := range c.ops {
				calls[i] = o.call()
			}
			out.lines = append(out.lines, [2]string{
				fmt.Sprintf("dsched n=%d seed=%d %s", 1+seed%3, seed, strings.Join(calls, " ")),
				strings.Join(res.outs, " | ")})
			out.dsched++
		}
	}
	return out
}

func opSig(ops []op) string {
	var sb strings.Builder
	for _, o := range ops {
		sb.WriteString(o.line())
		sb.WriteByte(';')
	}
	return fmt.Sprintf("%016x", fnv1a64([]byte(sb.String())))
}

// fixed regression cases (run first in every tier)
func corpusCases(rng *hlib.Rand) []*testCase {
	var out []*testCase
	mk := func(nChunks, chunk int, ops []op) {
		seed := rng.Uint64()
		src := genData(seed, 0, nChunks*chunk)
		buf := &bytes.Buffer{}
		w := &rac.Writer{Writer: buf, CodecWriter: newZlibWriter(), DChunkSize: uint64(chunk)}
		w.Write(src)
		if err := w.Close(); err != nil {
			return
		}
		tf := &testFile{family: "F1", enc: buf.Bytes(), desc: fmt.Sprintf("corpus chunks=%d dchunk=%d", nChunks, chunk), seed: seed}
		c := &testCase{tf: tf, ops: ops, levels: concLevels}
		if e := tf.describe(); e != "" {
			c.skipped = e
		} else if !bytes.Equal(tf.decoded, src) {
			c.skipped = "writer output does not decode to its input"
		}
		out = append(out, c)
	}
	// design-phase probe: read, seek while hundreds of chunks are in flight, read
	mk(400, 1000, []op{{kind: "read", a: 500}, {kind: "seek", a: 100000, b: 0}, {kind: "read", a: 500}, {kind: "close"}})
	// limit moved without moving the position
	mk(50, 1000, []op{{kind: "seekrange", a: 0, b: 1000}, {kind: "read", a: 10}, {kind: "seekrange", a: 10, b: 20}, {kind: "read", a: 100},
		{kind: "seek", a: 0, b: 1}, {kind: "read", a: 100}, {kind: "close"}})
	mk(50, 1000, []op{{kind: "seekrange", a: 0, b: 100}, {kind: "read", a: 50}, {kind: "seek", a: 0, b: 1}, {kind: "read", a: 100}, {kind: "read", a: 100}, {kind: "close"}})
	// read to the end, seek back
	mk(20, 100, []op{{kind: "seek", a: -10, b: 2}, {kind: "read", a: 100}, {kind: "read", a: 1}, {kind: "seek", a: 0, b: 0}, {kind: "read", a: 100}, {kind: "close"}})
	// chunks larger than a Worker's two buffers (2 x 64 KiB), more chunks than reqc + Workers can hold: after a short
	// Read the Manager has filled reqc and every Worker is waiting for a buffer; then seek far away, twice
	mk(12, 262144, []op{{kind: "read", a: 100}, {kind: "seek", a: 7*262144 + 5, b: 0}, {kind: "read", a: 100},
		{kind: "seek", a: 2*262144 - 50, b: 0}, {kind: "read", a: 300000}, {kind: "seekrange", a: 11 * 262144, b: 11*262144 + 10},
		{kind: "read", a: 100}, {kind: "close"}})
	// many cancellations in a row
	var ops []op
	for i := 0; i < 40; i++ {
		ops = append(ops, op{kind: "seek", a: int64((i * 7919) % 300000), b: 0}, op{kind: "read", a: int64(1 + i*37)})
	}
	ops = append(ops, op{kind: "close"})
	mk(300, 1000, ops)
	return out
}

func main() {
	if supervise() {
		return
	}
	r := hlib.Start("C14")
	if r.Mode == "race" {
		raceMain(r)
		return
	}
	nCases := 130
	if r.Thorough {
		nCases = 4000
	}
	// ---- generate
	var cases []*testCase
	cases = append(cases, corpusCases(r.Rand.Fork())...)
	for len(cases) < nCases {
		rng := r.Rand.Fork()
		var tf *testFile
		var src []byte
		var e string
		levels := concLevels
		k := rng.Intn(100)
		switch {
		case k < 50:
			tf, src, e = genWriterFile(rng, r.Thorough && rng.Chance(1, 10))
		case k < 58:
			tf, e = genChunkFile(rng, "zlib")
		case k < 65:
			tf, e = genChunkFile(rng, "zlib-dict")
		case k < 75:
			tf, e = genChunkFile(rng, "zeroes")
		case k < 92:
			tf, e = genChunkFile(rng, "stored")
		default:
			tf, e = genChunkFile(rng, "stored-bad")
			levels = []int{0, -1, 1} // the order in which workers meet a bad chunk is not part of the property
		}
		c := &testCase{tf: tf, levels: levels}
		if e == "" {
			e = tf.describe()
		}
		if e == "" && src != nil && !bytes.Equal(tf.decoded, src) {
			e = "writer output does not decode to its input"
		}
		if e != "" {
			c.skipped = e
			if tf == nil {
				c.tf = &testFile{desc: "ungenerated"}
			}
		} else {
			c.ops = genOps(rng, tf, rng.Chance(1, 4))
		}
		cases = append(cases, c)
	}
	for i, c := range cases {
		c.id = i
	}
	// ---- execute (quick: sequentially, with a goroutine-leak check per Reader;
	// thorough: 16 in parallel, leak check for the whole batch at the end)
	outs := make([]caseOut, len(cases))
	baseG := runtime.NumGoroutine()
	if !r.Thorough {
		for i, c := range cases {
			if c.skipped == "" {
				outs[i] = runCase(c, true)
			}
		}
	} else {
		// every 20th case runs alone first (per-Reader leak check), the rest in parallel
		for i, c := range cases {
			if c.skipped == "" && i%20 == 0 {
				outs[i] = runCase(c, true)
			}
		}
		var wg sync.WaitGroup
		sem := make(chan struct{}, 16)
		for i, c := range cases {
			if c.skipped != "" || i%20 == 0 {
				continue
			}
			wg.Add(1)
			sem <- struct{}{}
			go func(i int, c *testCase) {
				defer wg.Done()
				outs[i] = runCase(c, false)
				<-sem
			}(i, c)
		}
		wg.Wait()
		hung := 0
		for _, o := range outs {
			hung += o.hung
		}
		if hung == 0 {
			deadline := time.Now().Add(10 * time.Second)
			for runtime.NumGoroutine() > baseG && time.Now().Before(deadline) {
				time.Sleep(5 * time.Millisecond)
			}
			if g := runtime.NumGoroutine(); g > baseG {
				r.Fail("leak:goroutines-after-close", fmt.Sprintf("%d goroutines at start, %d after every Reader of the parallel batch was closed", baseG, g), "# whole parallel batch; rerun the quick tier or single cases to attribute")
			}
		}
	}
	// two fixed protocol traces through the compiled Conc model (consistency of driver and proofs):
	// "read, seek, read" with one worker is a path of the repaired protocol; the continuation that
	// the original code takes (stale request sent after the cancel) is not.
	const tr = "firstRead roi mgrMake:1 mgrSend wRecv:0 mgrMake:1 mgrSend mgrMake:1 wMake:0:0 wSend:0 wMake:0:0 wSend:0 readDone " +
		"cancel stopMgr stopW:0 recycle ackMgr ackW:0 ackDone"
	r.Op("trace n=1 "+tr+" roi mgrMake:1 mgrSend wRecycle:0 wRecv:0 wMake:0:1 wSend:0 recvRes take:0 recycleCurr readDone close stopW:0 stopMgr recycle ackW:0 ackMgr ackDone", "accepted")
	r.Op("trace n=1 "+tr+" mgrSend", "rejected at 20 mgrSend")
	// ---- emit in order
	fullReplays := 0
	for i, c := range cases {
		if c.skipped != "" {
			r.Count("skipped:" + strings.SplitN(c.skipped, ":", 2)[0])
			r.Note(fmt.Sprintf("case %d (%s) skipped: %s", i, c.tf.desc, c.skipped))
			continue
		}
		o := outs[i]
		for _, l := range o.lines {
			r.Op(l[0], l[1])
		}
		r.Count("family:" + c.tf.family)
		r.Count(fmt.Sprintf("chunks:%s", bucket(len(c.tf.chunks))))
		r.Count(fmt.Sprintf("size:%s", bucket(int(c.tf.size))))
		if !c.tf.valid {
			r.Count("file:invalid-chunk")
		}
		if o.dsched > 0 {
			r.Count("model-schedule:dsched-lines")
		}
		r.CountN("per-function:cseek+mgr+wrk-lines", o.perfunc)
		for _, op := range c.ops {
			r.Count("op:" + op.kind)
		}
		r.Count("kind:" + strings.SplitN(c.tf.desc, " ", 2)[0])
		for _, l := range o.lines {
			switch {
			case strings.Contains(l[1], "err=eof"):
				r.Count("result:eof")
			case strings.Contains(l[1], "err=nil"), l[1] == "ok", strings.HasPrefix(l[1], "ok "):
			case strings.Contains(l[1], "err="):
				r.Count("result:" + l[1][strings.LastIndex(l[1], "err="):])
			default:
				r.Count("result:" + l[1])
			}
		}
		if o.got {
			for _, lv := range c.levels {
				r.Nontrivial(fmt.Sprintf("%s/%d/%d/%s", c.tf.family, len(c.tf.chunks), lv, opSig(c.ops)))
			}
		}
		if i < 4 {
			r.Sample(fmt.Sprintf("%s | %s", c.tf.desc, strings.Join(opLines(c.ops), "; ")))
		}
		for _, f := range o.fails {
			rp := "# (replay omitted: see the first failures)"
			if fullReplays < 3 {
				rp = c.replay(-1)
				fullReplays++
			}
			r.Fail(f.key, fmt.Sprintf("case %d [%s]: %s", c.id, c.tf.desc, f.desc), rp)
		}
	}
	if r.Thorough {
		raceSupport(r)
	}
	r.Extra("concurrency_levels", concLevels)
	r.Finish("cases = (file, call sequence) run on a fresh rac.Reader for each Concurrency in {0,1,2,3,8}, and (valid files up to 400 kB) through the concurrent Lean model under a pseudo-random schedule (dsched); files from rac.Writer+raczlib, " +
		"ChunkWriter+zlib with implicit-zero tails, CodecZeroes, and a harness 'stored' codec (short reads, late EOF, too-large/truncated chunks: Concurrency 0,1 only); " +
		"positions/lengths aimed at chunk and 64 KiB worker-buffer boundaries, file end, limits; non-trivial = a Read that returns bytes after a Seek/SeekRange; " +
		"distinct = (family, chunk count, concurrency, op-sequence hash)")
}

func opLines(ops []op) []string {
	var s []string
	for _, o := range ops {
		s = append(s, o.line())
	}
	return s
}

func bucket(n int) string {
	switch {
	case n == 0:
		return "0"
	case n == 1:
		return "1"
	case n < 10:
		return "2-9"
	case n < 100:
		return "10-99"
	case n < 256:
		return "100-255"
	case n < 1000:
		return "256-999"
	case n < 65536:
		return "1000-65535"
	default:
		return "65536+"
	}
}

// ---- -race support (thorough tier): build this harness with -race and run a reduced
// sequence set with it; a reported data race is an oracle failure.

func raceSupport(r *hlib.Run) {
	exe, _ := os.Executable()
	hdir := filepath.Join(filepath.Dir(filepath.Dir(exe)), "harness")
	bin := filepath.Join(filepath.Dir(exe), "wvh_c14_race")
	cmd := exec.Command("go", "build", "-race", "-tags", "verif", "-o", bin, "./cmd/c14")
	cmd.Dir = hdir
	cmd.Env = append(os.Environ(), "GOFLAGS=-mod=mod", "GOPROXY=off", "GOSUMDB=off", "GOTOOLCHAIN=local")
	if out, err := cmd.CombinedOutput(); err != nil {
		r.Count("race-build:unavailable")
		r.Note("race build skipped: " + strings.TrimSpace(string(out)))
		return
	}
	tmp := filepath.Join(r.OutDir, "race")
	os.MkdirAll(tmp, 0o755)
	run := exec.Command(bin, "-mode", "race", "-tier", "thorough", "-seed", fmt.Sprint(r.Seed), "-out", tmp, "-repo", r.Repo)
	run.Env = append(os.Environ(), "GORACE=halt_on_error=0 exitcode=66")
	out, err := run.CombinedOutput()
	s := string(out)
	r.Count("race-build:ran")
	if strings.Contains(s, "WARNING: DATA RACE") {
		i := strings.Index(s, "WARNING: DATA RACE")
		end := i + 3000
		if end > len(s) {
			end = len(s)
		}
		r.Fail("race:data-race", "the race detector reports a data race in a Reader run", s[i:end])
	} else if err != nil {
		r.Note("race run ended with " + err.Error() + ": " + lastLines(s, 5))
	}
	if i := strings.Index(s, "race-cases="); i >= 0 {
		var n int
		fmt.Sscanf(s[i:], "race-cases=%d", &n)
		r.Extra("race_cases", n)
	}
	os.RemoveAll(tmp)
}

func lastLines(s string, n int) string {
	l := strings.Split(strings.TrimSpace(s), "\n")
	if len(l) > n {
		l = l[len(l)-n:]
	}
	return strings.Join(l, " | ")
}

// raceMain is what the -race build runs: concurrent Readers only, results unchecked here
// (the normal run checks them); the race detector does the work.
func raceMain(r *hlib.Run) {
	n := 0
	deadline := time.Now().Add(4 * time.Minute)
	for i := 0; i < 600 && time.Now().Before(deadline); i++ {
		rng := r.Rand.Fork()
		var tf *testFile
		var e string
		if rng.Bool() {
			tf, _, e = genWriterFile(rng, false)
		} else {
			tf, e = genChunkFile(rng, []string{"zlib", "zlib-dict", "zeroes", "stored"}[rng.Intn(4)])
		}
		if e != "" || tf.describe() != "" {
			continue
		}
		ops := genOps(rng, tf, false)
		for _, lv := range []int{2, 8} {
			runSeq(tf, lv, ops, false)
		}
		n++
	}
	fmt.Printf("race-cases=%d\n", n)
}
