package main

// A panic in a Manager or Worker goroutine of the code under test cannot be recovered by the
// harness: it kills the process. So the harness runs its real work in a child process, which
// records the sequences in flight (progress file); when the child dies, the parent reports an
// oracle failure with those sequences as the failing input, instead of an empty run.

import (
	"bytes"
	"fmt"
	"io"
	"os"
	"os/exec"
	"path/filepath"
	"sort"
	"strings"
	"sync"

	"wvh/hlib"
)

const childEnv = "WVH_C14_CHILD"

func argValue(name string) string {
	for i, a := range os.Args {
		if (a == "-"+name || a == "--"+name) && i+1 < len(os.Args) {
			return os.Args[i+1]
		}
		if strings.HasPrefix(a, "-"+name+"=") {
			return a[len(name)+2:]
		}
		if strings.HasPrefix(a, "--"+name+"=") {
			return a[len(name)+3:]
		}
	}
	return ""
}

func progressPath() string {
	out := argValue("out")
	if out == "" {
		return ""
	}
	return filepath.Join(out, "c14-in-flight.txt")
}

var (
	progressMu sync.Mutex
	inFlight   = map[int]string{}
)

// markStart / markDone keep the progress file up to date (child only).
func markStart(id int, text string) {
	if os.Getenv(childEnv) == "" {
		return
	}
	progressMu.Lock()
	inFlight[id] = text
	writeProgress()
	progressMu.Unlock()
}

func markDone(id int) {
	if os.Getenv(childEnv) == "" {
		return
	}
	progressMu.Lock()
	delete(inFlight, id)
	writeProgress()
	progressMu.Unlock()
}

func writeProgress() {
	p := progressPath()
	if p == "" {
		return
	}
	ids := make([]int, 0, len(inFlight))
	for id := range inFlight {
		ids = append(ids, id)
	}
	sort.Ints(ids)
	var sb strings.Builder
	for _, id := range ids {
		sb.WriteString(inFlight[id])
		sb.WriteString("\n")
	}
	os.WriteFile(p, []byte(sb.String()), 0o644)
}

// supervise returns true when this process was the parent and everything has been done.
func supervise() bool {
	mode := argValue("mode")
	if os.Getenv(childEnv) != "" || (mode != "" && mode != "run") || progressPath() == "" {
		return false
	}
	os.Remove(progressPath())
	cmd := exec.Command(os.Args[0], os.Args[1:]...)
	cmd.Env = append(os.Environ(), childEnv+"=1")
	cmd.Stdout = os.Stdout
	var errBuf bytes.Buffer
	cmd.Stderr = io.MultiWriter(os.Stderr, &errBuf)
	err := cmd.Run()
	if err == nil {
		os.Remove(progressPath())
		return true
	}
	// the child died: report it as a failure of the property (a crash of the code under test)
	text, _ := os.ReadFile(progressPath())
	os.Remove(progressPath())
	stderr := errBuf.String()
	key := "crash:harness-process"
	if i := strings.Index(stderr, "panic: "); i >= 0 {
		line := stderr[i+7:]
		if j := strings.IndexByte(line, '\n'); j >= 0 {
			line = line[:j]
		}
		key = "panic:goroutine:" + strings.ReplaceAll(strings.TrimSpace(line), " ", "_")
	} else if strings.Contains(stderr, "fatal error: all goroutines are asleep") {
		key = "deadlock:all-goroutines-asleep"
	}
	r := hlib.Start("C14")
	tail := stderr
	if len(tail) > 1500 {
		tail = tail[len(tail)-1500:]
	}
	replay := string(text)
	if replay == "" {
		replay = "# (no sequence was in flight)\n"
	}
	r.Fail(key, fmt.Sprintf("the harness process died (%v) while the sequences of the replay were running; stderr ends: %s", err, tail),
		"# sequences in flight when the process died (each: case line, then `# c=<concurrency>`, then the calls)\n"+replay)
	r.Finish("the child process that runs the cases died; nothing else was recorded")
	return true
}
