package main

// Per-function correspondence for the concurrent model (Model/Rac/ConcData.lean): the real
// goroutine functions runRManager and runRWorker, run alone through the hooks of
// /repo/lib/rac/verif_export_c14.go, and concReader.seek, against the model's steps
// (driver ops `mgr`, `wrk`, `cseek`).

import (
	"bytes"
	"fmt"
	"strings"
	"sync/atomic"

	"github.com/google/wuffs/lib/rac"
	"wvh/hlib"
)

func freshReader(tf *testFile) *rac.Reader {
	return &rac.Reader{
		ReadSeeker:     bytes.NewReader(tf.enc),
		CompressedSize: int64(len(tf.enc)),
		CodecReaders:   tf.codecReaders(),
	}
}

func rangesText(rs []rac.Range) string {
	if len(rs) == 0 {
		return "-"
	}
	parts := make([]string, len(rs))
	for i, r := range rs {
		parts[i] = fmt.Sprintf("%d-%d", r[0], r[1])
	}
	return strings.Join(parts, " ")
}

// managerRequests: what runRManager sends for the region of interest [lo, hi)
func managerRequests(tf *testFile, lo, hi int64) ([]rac.Range, string, bool) {
	var rs []rac.Range
	out, ok := hlib.WithTimeout(watchdog, func() string {
		var err error
		rs, err = rac.VerifManagerRequests(freshReader(tf), rac.Range{lo, hi}, len(tf.chunks)+4)
		if err != nil {
			return rangesText(rs) + " err=" + errWord(err)
		}
		return rangesText(rs)
	})
	return rs, out, ok
}

// pfHung counts per-function runs abandoned by the watchdog; after a few, the remaining ones are skipped
// (the run has failed already; every further hang costs 20 s and leaves a goroutine behind).
var pfHung int32

// workerPieces: what runRWorker sends back for the requests
func workerPieces(tf *testFile, reqs []rac.Range, ps *[]rac.VerifPiece) (string, bool) {
	return hlib.WithTimeout(watchdog, func() string {
		*ps = rac.VerifWorkerPieces(freshReader(tf), reqs)
		ps := *ps
		if len(ps) == 0 {
			return "-"
		}
		if len(ps) > 2000 {
			return fmt.Sprintf("!%d-pieces", len(ps))
		}
		parts := make([]string, len(ps))
		for i, p := range ps {
			if p.Err != nil {
				parts[i] = fmt.Sprintf("%d-%d:!%s", p.DRange[0], p.DRange[1], errWord(p.Err))
			} else {
				parts[i] = fmt.Sprintf("%d-%d:%s", p.DRange[0], p.DRange[1], showBytes(p.Data))
			}
		}
		return strings.Join(parts, " ")
	})
}

func pickRegion(rng *hlib.Rand, tf *testFile, pts []int64) (int64, int64) {
	lo := pickPos(rng, tf, pts)
	hi := lo + pickLen(rng, tf)
	switch rng.Intn(6) {
	case 0:
		hi = tf.size
	case 1:
		lo, hi = 0, tf.size
	}
	if hi > tf.size {
		hi = tf.size
	}
	if lo > hi {
		lo = hi
	}
	return lo, hi
}

type pfOut struct {
	lines [][2]string
	fails []failure
}

func perFunction(c *testCase, rng *hlib.Rand) pfOut {
	var out pfOut
	if atomic.LoadInt32(&pfHung) >= 3 {
		return out
	}
	tf := c.tf
	pts := interesting(tf)
	fail := func(key, format string, a ...interface{}) {
		out.fails = append(out.fails, failure{key, fmt.Sprintf(format, a...)})
	}
	// concReader.seek
	for k := 0; k < 4; k++ {
		pos := pickPos(rng, tf, pts)
		lim := pickPos(rng, tf, pts)
		if lim > tf.size {
			lim = tf.size
		}
		resolved := rng.Bool()
		var off int64
		whence := rng.Intn(3)
		switch rng.Intn(8) {
		case 0:
			off = 0
		case 1:
			off = maxI64
		case 2:
			off = minI64
		case 3:
			off = -int64(rng.Intn(40))
		case 4:
			off = pos // SeekStart to the same position
			whence = 0
		default:
			off = pickPos(rng, tf, pts)
			if whence == 2 {
				off -= tf.size
			} else if whence == 1 {
				off -= pos
			}
		}
		if rng.Chance(1, 10) {
			whence = 3 + rng.Intn(3)
		}
		limit := maxI64
		switch rng.Intn(4) {
		case 0:
			limit = lim // unchanged
		case 1:
			limit = pickPos(rng, tf, pts)
		}
		res := 0
		if resolved {
			res = 1
		}
		np, nl, nr, ret, err := rac.VerifConcSeek(pos, lim, tf.size, resolved, off, whence, limit)
		nri := 0
		if nr {
			nri = 1
		}
		out.lines = append(out.lines, [2]string{
			fmt.Sprintf("cseek %d %d %d %d %d %d %d", pos, lim, tf.size, res, off, whence, limit),
			fmt.Sprintf("pos=%d lim=%d resolved=%d ret=%d err=%s", np, nl, nri, ret, errWord(err))})
	}
	// runRManager
	var firstReqs []rac.Range
	for k := 0; k < 3; k++ {
		lo, hi := pickRegion(rng, tf, pts)
		rs, text, ok := managerRequests(tf, lo, hi)
		out.lines = append(out.lines, [2]string{fmt.Sprintf("mgr %d %d", lo, hi), text})
		if !ok {
			atomic.AddInt32(&pfHung, 1)
			fail("deadlock:manager-alone", "runRManager did not finish the region [%d, %d) within %v", lo, hi, watchdog)
			return out
		}
		if text == "panic" {
			fail("panic:manager-alone", "runRManager panicked on the region [%d, %d)", lo, hi)
			return out
		}
		// the property's own oracle for the Manager: the requests tile the region, in order
		at := lo
		for _, r := range rs {
			if r[0] != at || r[1] <= r[0] {
				fail("mismatch:manager-requests", "region [%d, %d): request %v does not continue at %d", lo, hi, r, at)
				break
			}
			at = r[1]
		}
		if at != hi && !strings.Contains(text, "err=") && lo < hi {
			fail("mismatch:manager-requests", "region [%d, %d): the requests end at %d", lo, hi, at)
		}
		if k == 0 {
			firstReqs = rs
		}
	}
	// runRWorker (valid files: a bad chunk makes the Worker report an error that the model does not describe)
	if tf.valid {
		for k := 0; k < 2; k++ {
			var reqs []rac.Range
			if k == 0 && len(firstReqs) > 0 {
				reqs = firstReqs
				if len(reqs) > 6 {
					reqs = reqs[:6]
				}
			} else {
				for j := 0; j < 1+rng.Intn(3); j++ {
					lo, hi := pickRegion(rng, tf, pts)
					if lo < hi {
						reqs = append(reqs, rac.Range{lo, hi})
					}
				}
			}
			if len(reqs) == 0 {
				continue
			}
			var ps []rac.VerifPiece
			text, ok := workerPieces(tf, reqs, &ps)
			out.lines = append(out.lines, [2]string{"wrk " + rangesText(reqs), text})
			if !ok {
				atomic.AddInt32(&pfHung, 1)
				fail("deadlock:worker-alone", "runRWorker did not finish the requests %v within %v", reqs, watchdog)
				return out
			}
			if text == "panic" {
				fail("panic:worker-alone", "runRWorker panicked on the requests %v", reqs)
				return out
			}
			// the property's own oracle for the Worker: the pieces tile the requests in order, none is empty or
			// longer than a buffer, and each carries the decoded file's bytes of its range
			k := 0
			for _, rq := range reqs {
				at := rq[0]
				for at < rq[1] {
					if k >= len(ps) {
						fail("mismatch:worker-pieces", "requests %v: the pieces end at %d inside the request %v", reqs, at, rq)
						break
					}
					p := ps[k]
					k++
					n := p.DRange[1] - p.DRange[0]
					if p.Err != nil || p.DRange[0] != at || n <= 0 || n > rac.VerifRBufferSize || p.DRange[1] > rq[1] ||
						int64(len(p.Data)) != n || !bytes.Equal(p.Data, tf.decoded[p.DRange[0]:p.DRange[1]]) {
						fail("mismatch:worker-pieces", "requests %v: piece %v (error %v, %d bytes) is not the decoded data at %d", reqs, p.DRange, p.Err, len(p.Data), at)
						at = rq[1]
						k = len(ps) + 1
						break
					}
					at = p.DRange[1]
				}
			}
			if k < len(ps) {
				fail("mismatch:worker-pieces", "requests %v: %d pieces too many", reqs, len(ps)-k)
			}
		}
	}
	return out
}
