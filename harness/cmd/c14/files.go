package main

// Test files for C14: three families.
//   F1  rac.Writer + raczlib.CodecWriter (optionally shared dictionaries, index at start/end,
//       DChunkSize or CChunkSize) — what real users produce.
//   F2  rac.ChunkWriter with hand-made zlib primaries whose decoded length is shorter than the
//       DRange (implicit zero tails), or CodecZeroes chunks (huge DRanges for little data).
//   F3  rac.ChunkWriter with a harness-side "stored" codec: full control over how the
//       decompressor splits its reads, when it reports EOF, truncation and too-large chunks.
// Every file is re-read through rac.ChunkReader and each chunk is decoded on its own (Go's
// compress/zlib, not the cgo zlib the Reader uses): that chunk list is what the Lean model
// gets, and its concatenation is the reference "fully decompressed data".

import (
	"bytes"
	"compress/zlib"
	"encoding/binary"
	"encoding/hex"
	"fmt"
	"hash/crc32"
	"io"
	"strings"

	"github.com/google/wuffs/lib/rac"
	"github.com/google/wuffs/lib/raczlib"
	"wvh/hlib"
)

type chunkDesc struct {
	lo, hi int64
	data   []byte // explicit decoded bytes (before clamping to the DRange)
	trunc  bool   // decompressor ends with io.ErrUnexpectedEOF
}

type testFile struct {
	family  string
	enc     []byte
	chunks  []chunkDesc
	size    int64  // decompressedSize
	decoded []byte // concatenation of the chunk blocks (valid files only)
	valid   bool
	stored  bool   // uses the harness "stored" codec instead of raczlib
	seed    uint64 // chunk data are slices of the genByte stream `seed` (checked in caseLine)
	desc    string
}

func (tf *testFile) codecReaders() []rac.CodecReader {
	if tf.stored {
		return []rac.CodecReader{&storedCodec{}}
	}
	return []rac.CodecReader{&raczlib.CodecReader{}}
}

func newZlibWriter() rac.CodecWriter { return &raczlib.CodecWriter{} }

// ---- the line given to the model

func dataSpec(b []byte) string {
	if len(b) == 0 {
		return "-"
	}
	var parts []string
	i := 0
	for i < len(b) {
		// a run of >= 16 zero bytes becomes z<count>
		j := i
		for j < len(b) && b[j] == 0 {
			j++
		}
		if j-i >= 16 {
			parts = append(parts, fmt.Sprintf("z%d", j-i))
			i = j
			continue
		}
		// literal up to the next long zero run
		k := i
		for k < len(b) {
			if b[k] == 0 {
				m := k
				for m < len(b) && b[m] == 0 {
					m++
				}
				if m-k >= 16 {
					break
				}
				k = m
				continue
			}
			k++
		}
		parts = append(parts, hex.EncodeToString(b[i:k]))
		i = k
	}
	return strings.Join(parts, ".")
}

func (tf *testFile) caseLine(id int) string {
	var sb strings.Builder
	fmt.Fprintf(&sb, "case %d size=%d", id, tf.size)
	for _, c := range tf.chunks {
		t := "e"
		if c.trunc {
			t = "u"
		}
		spec := ""
		if len(c.data) >= 8 && bytes.Equal(c.data, genData(tf.seed, c.lo, len(c.data))) {
			spec = fmt.Sprintf("g%d@%d+%d", tf.seed, c.lo, len(c.data))
		} else {
			spec = dataSpec(c.data)
		}
		fmt.Fprintf(&sb, " %d:%d:%s:%s", c.lo, c.hi, t, spec)
	}
	return sb.String()
}

// ---- the "stored" codec (family F3)

const (
	stEOFLater = 1 << 0 // report io.EOF on the call after the last byte
	stShort7   = 1 << 1 // at most 7 bytes per Read
	stShort3   = 1 << 2 // at most 3 bytes per Read
	stCloser   = 1 << 3 // the decompressor is an io.Closer
	stTrunc    = 1 << 7 // end with io.ErrUnexpectedEOF (always together with the last read)
)

type storedCodec struct{}

func (*storedCodec) Close() error             { return nil }
func (*storedCodec) Accepts(c rac.Codec) bool { return c == rac.CodecLZ4 }
func (*storedCodec) Clone() rac.CodecReader   { return &storedCodec{} }
func storedPrimary(style byte, payload []byte) []byte {
	b := make([]byte, 5+len(payload))
	b[0] = style
	binary.LittleEndian.PutUint32(b[1:], uint32(len(payload)))
	copy(b[5:], payload)
	return b
}

type storedReader struct {
	style byte
	rest  []byte
}

type storedReadCloser struct{ storedReader }

func (s *storedReadCloser) Close() error { return nil }

func (s *storedReader) Read(p []byte) (int, error) {
	end := error(io.EOF)
	if s.style&stTrunc != 0 {
		end = io.ErrUnexpectedEOF
	}
	if len(s.rest) == 0 {
		return 0, end
	}
	n := len(p)
	if s.style&stShort7 != 0 && n > 7 {
		n = 7
	}
	if s.style&stShort3 != 0 && n > 3 {
		n = 3
	}
	if n > len(s.rest) {
		n = len(s.rest)
	}
	copy(p, s.rest[:n])
	s.rest = s.rest[n:]
	if len(s.rest) == 0 && (s.style&stEOFLater == 0 || s.style&stTrunc != 0) {
		return n, end
	}
	return n, nil
}

func (*storedCodec) MakeDecompressor(f io.ReadSeeker, c rac.Chunk) (io.Reader, error) {
	if _, err := f.Seek(c.CPrimary[0], io.SeekStart); err != nil {
		return nil, err
	}
	var hdr [5]byte
	if _, err := io.ReadFull(f, hdr[:]); err != nil {
		return nil, err
	}
	payload := make([]byte, binary.LittleEndian.Uint32(hdr[1:]))
	if _, err := io.ReadFull(f, payload); err != nil {
		return nil, err
	}
	sr := storedReader{style: hdr[0], rest: payload}
	if hdr[0]&stCloser != 0 {
		return &storedReadCloser{sr}, nil
	}
	return &sr, nil
}

// ---- re-reading a file: chunk list + independent per-chunk decode

func readAllPieces(r io.Reader) ([]byte, error) {
	var out []byte
	buf := make([]byte, 4096)
	for {
		n, err := r.Read(buf)
		out = append(out, buf[:n]...)
		if err != nil {
			return out, err
		}
	}
}

// describe fills tf.chunks/size/decoded/valid from tf.enc. It returns an error text when the
// file cannot be described (then the case is skipped and counted; that is not a C14 matter).
func (tf *testFile) describe() string {
	cr := &rac.ChunkReader{ReadSeeker: bytes.NewReader(tf.enc), CompressedSize: int64(len(tf.enc))}
	size, err := cr.DecompressedSize()
	if err != nil {
		return "DecompressedSize: " + err.Error()
	}
	tf.size = size
	tf.valid = true
	prev := int64(0)
	for {
		c, err := cr.NextChunk()
		if err == io.EOF {
			break
		}
		if err != nil {
			return "NextChunk: " + err.Error()
		}
		if c.DRange[0] != prev || c.DRange[1] <= c.DRange[0] {
			return fmt.Sprintf("chunk list not contiguous at %d: %v", prev, c.DRange)
		}
		prev = c.DRange[1]
		d := chunkDesc{lo: c.DRange[0], hi: c.DRange[1]}
		switch {
		case c.Codec == rac.CodecZeroes || c.Codec == rac.Codec(1<<63):
			d.data = make([]byte, c.DRange.Size())
		case c.Codec == rac.CodecLZ4 && tf.stored:
			p := tf.enc[c.CPrimary[0]:]
			n := binary.LittleEndian.Uint32(p[1:])
			d.data = append([]byte(nil), p[5:5+n]...)
			d.trunc = p[0]&stTrunc != 0
		case c.Codec == rac.CodecZlib:
			var dict []byte
			if !c.CSecondary.Empty() {
				s := tf.enc[c.CSecondary[0]:c.CSecondary[1]]
				if len(s) < 8 {
					return "short dictionary resource"
				}
				n := int(binary.LittleEndian.Uint32(s))
				if n+8 > len(s) {
					return "bad dictionary length"
				}
				dict = s[4 : 4+n]
				if crc32.ChecksumIEEE(dict) != binary.LittleEndian.Uint32(s[4+n:]) {
					return "bad dictionary checksum"
				}
			}
			zr, err := zlib.NewReaderDict(bytes.NewReader(tf.enc[c.CPrimary[0]:c.CPrimary[1]]), dict)
			if err != nil {
				return "zlib header: " + err.Error()
			}
			data, err := readAllPieces(zr)
			if err != io.EOF {
				return "zlib body: " + err.Error()
			}
			d.data = data
		default:
			return fmt.Sprintf("unexpected codec %x", uint64(c.Codec))
		}
		if int64(len(d.data)) > d.hi-d.lo || d.trunc {
			tf.valid = false
		}
		tf.chunks = append(tf.chunks, d)
	}
	if prev != size {
		return fmt.Sprintf("chunks end at %d, decompressedSize %d", prev, size)
	}
	if tf.valid {
		tf.decoded = make([]byte, 0, size)
		for _, c := range tf.chunks {
			tf.decoded = append(tf.decoded, c.data...)
			tf.decoded = append(tf.decoded, make([]byte, c.hi-c.lo-int64(len(c.data)))...)
		}
	}
	return ""
}

// ---- generators

// genByte is byte i of the pseudo-random stream `seed`: 64-byte blocks that are all zero,
// incompressible, or text-like. Model/Driver side: genByte in lean/Driver/C14.lean (so a chunk
// whose decoded data is a slice of the stream is described to the model as g<seed>@<off>+<len>).
func mix64(z uint64) uint64 {
	z = (z ^ (z >> 30)) * 0xBF58476D1CE4E5B9
	z = (z ^ (z >> 27)) * 0x94D049BB133111EB
	return z ^ (z >> 31)
}

func genByte(seed uint64, i int64) byte {
	h := mix64(seed + uint64(i/64)*0x9E3779B97F4A7C15)
	switch h % 8 {
	case 0:
		return 0
	case 1:
		return byte(mix64(h + uint64(i%64)))
	}
	return byte(97 + (h>>8)%20 + mix64(h+uint64(i%64))%5)
}

// genData returns bytes off..off+n of the stream `seed`.
func genData(seed uint64, off int64, n int) []byte {
	b := make([]byte, n)
	for i := range b {
		b[i] = genByte(seed, off+int64(i))
	}
	return b
}

var dchunkSizes = []int{1, 2, 7, 37, 100, 1000, 1024, 4096, 30000, 65535, 65536, 65537, 100000, 200000}

// genWriterFile: family F1.
func genWriterFile(rng *hlib.Rand, big bool) (*testFile, []byte, string) {
	dcs := dchunkSizes[rng.Intn(len(dchunkSizes))]
	maxChunks := 40
	if big || rng.Chance(1, 8) {
		maxChunks = 600 // > 255 children: multi-level index
	}
	nChunks := 1 + rng.Intn(maxChunks)
	if rng.Chance(1, 25) {
		nChunks = 0
	}
	n := dcs * nChunks
	if n > 0 && rng.Chance(1, 2) {
		n -= rng.Intn(dcs) // last chunk short
	}
	maxN := 250000
	if big || rng.Chance(1, 6) {
		maxN = 700000
	}
	for n > maxN {
		n /= 2
	}
	if rng.Chance(1, 30) {
		// chunks larger than a Worker's two 64 KiB buffers, and more of them than reqc and the Workers can hold
		// at Concurrency 2 and 3: the whole pipeline fills up after a short Read
		dcs = []int{131073, 150000, 262144}[rng.Intn(3)]
		n = dcs*(7+rng.Intn(6)) - rng.Intn(1000)
	}
	seed := rng.Uint64()
	src := genData(seed, 0, n)
	buf := &bytes.Buffer{}
	w := &rac.Writer{Writer: buf, CodecWriter: &raczlib.CodecWriter{}}
	desc := fmt.Sprintf("F1 n=%d", n)
	if rng.Chance(1, 6) {
		w.CChunkSize = uint64(256 << uint(rng.Intn(6)))
		desc += fmt.Sprintf(" cchunk=%d", w.CChunkSize)
	} else {
		w.DChunkSize = uint64(dcs)
		desc += fmt.Sprintf(" dchunk=%d", dcs)
	}
	if rng.Chance(1, 3) {
		w.IndexLocation = rac.IndexLocationAtStart
		w.TempFile = &bytes.Buffer{}
		desc += " ila=start"
	}
	if rng.Chance(1, 5) {
		w.CPageSize = uint64(16 << uint(rng.Intn(5)))
		desc += fmt.Sprintf(" cpage=%d", w.CPageSize)
	}
	// (CChunkSize together with shared dictionaries makes Writer.Write fail in flatecut: not a C14 matter)
	if rng.Chance(1, 4) && n > 2000 && w.CChunkSize == 0 {
		w.ResourcesData = [][]byte{src[:1000], genData(seed+1, 0, 500)}
		desc += " dict"
	}
	if _, err := w.Write(src); err != nil {
		return nil, nil, "Writer.Write: " + err.Error()
	}
	if err := w.Close(); err != nil {
		return nil, nil, "Writer.Close: " + err.Error()
	}
	return &testFile{family: "F1", enc: buf.Bytes(), desc: desc, seed: seed}, src, ""
}

func zlibCompressDict(b []byte, dict []byte) []byte {
	buf := &bytes.Buffer{}
	zw, err := zlib.NewWriterLevelDict(buf, zlib.BestCompression, dict)
	if err != nil {
		panic(err)
	}
	zw.Write(b)
	zw.Close()
	return buf.Bytes()
}

func zlibCompress(b []byte) []byte {
	buf := &bytes.Buffer{}
	zw := zlib.NewWriter(buf)
	zw.Write(b)
	zw.Close()
	return buf.Bytes()
}

// genChunkFile: families F2 and F3, through rac.ChunkWriter.
// kind: "zlib" (implicit zero tails), "zeroes" (CodecZeroes), "stored" (valid), "stored-bad"
// (some chunk too large or truncated).
func genChunkFile(rng *hlib.Rand, kind string) (*testFile, string) {
	buf := &bytes.Buffer{}
	w := &rac.ChunkWriter{Writer: buf}
	if rng.Chance(1, 4) {
		w.IndexLocation = rac.IndexLocationAtStart
		w.TempFile = &bytes.Buffer{}
	}
	nChunks := 1 + rng.Intn(12)
	if rng.Chance(1, 6) {
		nChunks = 200 + rng.Intn(200)
	}
	sizes := []int{1, 2, 3, 8, 50, 300, 5000}
	if kind == "zeroes" {
		sizes = []int{1, 5, 1000, 65535, 65536, 65537, 131072, 200000}
		if nChunks > 8 {
			nChunks = 1 + nChunks%8
		}
	}
	if kind != "zeroes" && nChunks < 20 && rng.Chance(1, 5) {
		sizes = append(sizes, 65536, 70000, 140000)
	}
	bad := -1
	if kind == "stored-bad" {
		bad = rng.Intn(nChunks)
	}
	desc := fmt.Sprintf("%s chunks=%d", kind, nChunks)
	seed := rng.Uint64()
	dpos := int64(0)
	zeroCodec := rac.CodecZeroes
	if kind == "zeroes" && rng.Chance(1, 3) {
		zeroCodec = rac.Codec(1 << 63) // codecLongZeroes
		desc += " long"
	}
	var dicts [][]byte
	var dictIDs []rac.OptResource
	if kind == "zlib-dict" {
		// dictionaries are slices of the same stream the chunks are cut from, so they do help
		for _, n := range []int{3000, 40, 700}[:1+rng.Intn(3)] {
			d := genData(seed, int64(rng.Intn(2000)), n)
			wrapped, werr := (&raczlib.CodecWriter{}).WrapResource(d)
			if werr != nil {
				return nil, "WrapResource: " + werr.Error()
			}
			id, aerr := w.AddResource(wrapped)
			if aerr != nil {
				return nil, "AddResource: " + aerr.Error()
			}
			dicts = append(dicts, d)
			dictIDs = append(dictIDs, id)
		}
		desc += fmt.Sprintf(" dicts=%d", len(dicts))
	}
	for i := 0; i < nChunks; i++ {
		dsize := sizes[rng.Intn(len(sizes))]
		if rng.Chance(1, 3) {
			dsize += rng.Intn(5)
		}
		var err error
		switch kind {
		case "zeroes":
			err = w.AddChunk(uint64(dsize), zeroCodec, nil, 0, 0)
		case "zlib-dict":
			// hand-made shared dictionaries of different sizes, chosen per chunk (exercises
			// racdict.Loader's cache and buffer re-use): 0 = none, 1.. = resource
			explicit := dsize
			if rng.Chance(1, 3) {
				explicit = rng.Intn(dsize + 1)
			}
			which := rng.Intn(len(dicts) + 1)
			if which == 0 {
				err = w.AddChunk(uint64(dsize), rac.CodecZlib, zlibCompress(genData(seed, dpos, explicit)), 0, 0)
			} else {
				err = w.AddChunk(uint64(dsize), rac.CodecZlib, zlibCompressDict(genData(seed, dpos, explicit), dicts[which-1]), dictIDs[which-1], 0)
			}
		case "zlib":
			explicit := dsize
			switch rng.Intn(4) {
			case 0:
				explicit = 0
			case 1:
				explicit = rng.Intn(dsize + 1)
			}
			err = w.AddChunk(uint64(dsize), rac.CodecZlib, zlibCompress(genData(seed, dpos, explicit)), 0, 0)
		default: // stored
			explicit := dsize
			switch rng.Intn(4) {
			case 0:
				explicit = 0
			case 1:
				explicit = rng.Intn(dsize + 1)
			}
			style := byte(0)
			if rng.Chance(1, 2) {
				style |= stEOFLater
			}
			switch rng.Intn(5) {
			case 0:
				style |= stShort7
			case 1:
				style |= stShort3
			}
			if rng.Chance(1, 3) {
				style |= stCloser
			}
			if i == bad {
				if rng.Bool() {
					explicit = dsize + 1 + rng.Intn(10) // too large
					desc += fmt.Sprintf(" toolarge@%d", i)
				} else {
					style |= stTrunc
					style &^= stEOFLater
					desc += fmt.Sprintf(" trunc@%d", i)
				}
			}
			err = w.AddChunk(uint64(dsize), rac.CodecLZ4, storedPrimary(style, genData(seed, dpos, explicit)), 0, 0)
		}
		if err != nil {
			return nil, "AddChunk: " + err.Error()
		}
		dpos += int64(dsize)
	}
	if err := w.Close(); err != nil {
		return nil, "ChunkWriter.Close: " + err.Error()
	}
	fam := "F2"
	if strings.HasPrefix(kind, "stored") {
		fam = "F3"
	}
	return &testFile{family: fam, enc: buf.Bytes(), stored: fam == "F3", desc: desc, seed: seed}, ""
}
