// Package hlib is the shared part of the /verif Go harness: one PRNG, the
// ops/impl line writers, oracle-failure records, statistics for the evidence.
package hlib

import (
	"bufio"
	"encoding/hex"
	"encoding/json"
	"flag"
	"fmt"
	"os"
	"path/filepath"
	"sort"
	"time"
)

// ---- PRNG (splitmix64); every random choice of a run derives from one seed.

type Rand struct{ s uint64 }

func NewRand(seed uint64) *Rand {
	// mix the seed through the splitmix64 finaliser first: with s = seed*G + c the
	// streams of consecutive seeds would be the same stream shifted by one draw.
	z := seed + 0x632BE59BD9B4E019
	z = (z ^ (z >> 30)) * 0xBF58476D1CE4E5B9
	z = (z ^ (z >> 27)) * 0x94D049BB133111EB
	z ^= z >> 31
	return &Rand{s: z}
}

func (r *Rand) Uint64() uint64 {
	r.s += 0x9E3779B97F4A7C15
	z := r.s
	z = (z ^ (z >> 30)) * 0xBF58476D1CE4E5B9
	z = (z ^ (z >> 27)) * 0x94D049BB133111EB
	return z ^ (z >> 31)
}

// Intn returns a value in [0, n). n must be > 0.
func (r *Rand) Intn(n int) int { return int(r.Uint64() % uint64(n)) }
func (r *Rand) Bool() bool     { return r.Uint64()&1 == 1 }

// Chance returns true with probability num/den.
func (r *Rand) Chance(num, den int) bool { return r.Intn(den) < num }

// Range returns a value in [lo, hi] inclusive.
func (r *Rand) Range(lo, hi int) int { return lo + r.Intn(hi-lo+1) }

func (r *Rand) Bytes(n int) []byte {
	b := make([]byte, n)
	for i := range b {
		b[i] = byte(r.Uint64())
	}
	return b
}

// Fork derives an independent generator (for a shard / a case).
func (r *Rand) Fork() *Rand { return NewRand(r.Uint64()) }

// ---- Run

type Failure struct {
	Key    string `json:"key"`    // stable signature used by KNOWN_FINDINGS.txt
	Desc   string `json:"desc"`   // what fails
	Replay string `json:"replay"` // self-contained text of the failing input
}

type Run struct {
	Prop     string
	Tier     string
	Seed     int64
	OutDir   string
	Repo     string
	Replay   string // non-empty: replay this file instead of generating
	Mode     string // "run" (default) or "gen"
	Rand     *Rand
	Thorough bool

	ops, impl   *bufio.Writer
	opsF, implF *os.File
	nOps        int
	failures    []Failure
	hist        map[string]int
	distinct    map[string]bool
	samples     []string
	notes       []string
	extra       map[string]interface{}
	start       time.Time
}

// Start parses the common flags: -tier quick|thorough -seed N -out DIR -repo DIR [-replay FILE]
func Start(prop string) *Run {
	r := &Run{Prop: prop, hist: map[string]int{}, distinct: map[string]bool{}, extra: map[string]interface{}{}, start: time.Now()}
	flag.StringVar(&r.Tier, "tier", "quick", "quick|thorough")
	flag.Int64Var(&r.Seed, "seed", 1, "seed")
	flag.StringVar(&r.OutDir, "out", "", "output directory")
	flag.StringVar(&r.Repo, "repo", "/repo", "repository root")
	flag.StringVar(&r.Replay, "replay", "", "replay file")
	flag.StringVar(&r.Mode, "mode", "run", "run|gen")
	flag.Parse()
	if r.OutDir == "" {
		fmt.Fprintln(os.Stderr, "missing -out")
		os.Exit(2)
	}
	r.Thorough = r.Tier == "thorough"
	r.Rand = NewRand(uint64(r.Seed))
	must(os.MkdirAll(r.OutDir, 0o755))
	if r.Mode == "gen" {
		return r
	}
	var err error
	r.opsF, err = os.Create(filepath.Join(r.OutDir, "ops.txt"))
	must(err)
	r.implF, err = os.Create(filepath.Join(r.OutDir, "impl.txt"))
	must(err)
	r.ops = bufio.NewWriterSize(r.opsF, 1<<20)
	r.impl = bufio.NewWriterSize(r.implF, 1<<20)
	return r
}

func must(err error) {
	if err != nil {
		fmt.Fprintln(os.Stderr, "harness:", err)
		os.Exit(2)
	}
}

// IsGen reports whether the binary was asked to regenerate Gen/*.lean files
// (then main should write them with WriteGen and return without calling Finish).
func (r *Run) IsGen() bool { return r.Mode == "gen" }

// WriteGen writes one generated Lean file (name must start with the property id).
func (r *Run) WriteGen(name string, content string) {
	must(os.WriteFile(filepath.Join(r.OutDir, name), []byte(content), 0o644))
}

// Op records one op line for the Lean model and what the implementation answered.
// Neither string may contain a newline.
func (r *Run) Op(op string, implOut string) {
	r.ops.WriteString(op)
	r.ops.WriteByte('\n')
	r.impl.WriteString(implOut)
	r.impl.WriteByte('\n')
	r.nOps++
}

func (r *Run) NOps() int { return r.nOps }

// Fail records a failure of the property's own oracle on the implementation.
func (r *Run) Fail(key, desc, replay string) {
	if len(r.failures) < 200 {
		r.failures = append(r.failures, Failure{key, desc, replay})
	}
	r.hist["oracle-failure"]++
}

func (r *Run) Count(bucket string)         { r.hist[bucket]++ }
func (r *Run) CountN(bucket string, n int) { r.hist[bucket] += n }

// Nontrivial records the signature of a case that is non-trivial by the
// property's stated rule; distinct signatures are counted.
func (r *Run) Nontrivial(sig string) {
	if len(r.distinct) < 5_000_000 {
		r.distinct[sig] = true
	}
}

func (r *Run) Sample(s string) {
	if len(r.samples) < 8 {
		r.samples = append(r.samples, s)
	}
}
func (r *Run) Note(s string)                 { r.notes = append(r.notes, s) }
func (r *Run) Extra(k string, v interface{}) { r.extra[k] = v }

// Finish flushes and writes stats.json + oracle.json. Always exits 0: the
// verdict is taken by /verif/check.
func (r *Run) Finish(rule string) {
	must(r.ops.Flush())
	must(r.impl.Flush())
	r.opsF.Close()
	r.implF.Close()
	keys := make([]string, 0, len(r.hist))
	for k := range r.hist {
		keys = append(keys, k)
	}
	sort.Strings(keys)
	st := map[string]interface{}{
		"property":            r.Prop,
		"tier":                r.Tier,
		"seed":                r.Seed,
		"ops":                 r.nOps,
		"distinct_nontrivial": len(r.distinct),
		"rule":                rule,
		"histogram":           r.hist,
		"samples":             r.samples,
		"notes":               r.notes,
		"extra":               r.extra,
		"failures":            r.failures,
		"wall_s":              time.Since(r.start).Seconds(),
	}
	b, _ := json.MarshalIndent(st, "", " ")
	must(os.WriteFile(filepath.Join(r.OutDir, "stats.json"), b, 0o644))
}

// ---- helpers

func Hex(b []byte) string {
	if len(b) == 0 {
		return "-"
	}
	return hex.EncodeToString(b)
}

func UnHex(s string) []byte {
	if s == "-" {
		return nil
	}
	b, err := hex.DecodeString(s)
	must(err)
	return b
}

// Guard runs f and maps a panic to "panic".
func Guard(f func() string) (out string) {
	defer func() {
		if e := recover(); e != nil {
			out = "panic"
		}
	}()
	return f()
}

// GuardMsg is Guard, but also returns the panic text (for replays).
func GuardMsg(f func() string) (out string, msg string) {
	defer func() {
		if e := recover(); e != nil {
			out = "panic"
			msg = fmt.Sprint(e)
		}
	}()
	return f(), ""
}

// WithTimeout runs f in a goroutine; returns ("timeout", false) if it does not
// finish within d (the goroutine is abandoned).
func WithTimeout(d time.Duration, f func() string) (string, bool) {
	ch := make(chan string, 1)
	go func() { ch <- Guard(f) }()
	select {
	case s := <-ch:
		return s, true
	case <-time.After(d):
		return "timeout", false
	}
}
