// Package cdrv builds and talks to wvcdrv, the generic line-protocol C driver
// linked against the Wuffs standard library REGENERATED from a repository's
// working tree. See README.md in this directory.
//
//	d, err := cdrv.Build("/repo", cdrv.AsanUbsan)   // ~15-45 s the first time, cached per process
//	defer d.Close()
//	line, err := d.Run("run zlib src=1 dst=7 " + hex) // one result line; *CrashError if the process died
//	res, _ := cdrv.ParseResult(line)
package cdrv

import (
	"bufio"
	"bytes"
	"crypto/sha256"
	"embed"
	"encoding/hex"
	"errors"
	"fmt"
	"io"
	"os"
	"os/exec"
	"path/filepath"
	"regexp"
	"sort"
	"strconv"
	"strings"
	"sync"
	"time"

	"wvh/hlib"
)

//go:embed c/wv_peek.c c/wvcdrv.c c/wv_util.h c/wv_codecs.h c/wv_io.h c/wv_run.h c/wv_proto.h
var csrc embed.FS

var cFiles = []string{"wv_peek.c", "wvcdrv.c", "wv_util.h", "wv_codecs.h", "wv_io.h", "wv_run.h", "wv_proto.h"}

// Flavour names a way of compiling the snapshot + driver.
type Flavour string

const (
	AsanUbsan Flavour = "asan-ubsan" // clang -fsanitize=address,undefined -fno-sanitize-recover=all -O1 -g
	PlainGcc  Flavour = "plain-gcc"  // gcc -O2, malloc/calloc/realloc/free wrapped and counted
	NoArch    Flavour = "noarch"     // gcc -O2 -DWUFFS_CONFIG__AVOID_CPU_ARCH, allocator wrapped and counted
	Msan      Flavour = "msan"       // clang -fsanitize=memory -fno-sanitize-recover=all -O1 -g (optional)
)

type flavourSpec struct {
	cc      string
	cflags  []string // for the snapshot TUs and the driver
	ldflags []string
	drvDefs []string // extra -D for wvcdrv.c only
	env     []string // run-time environment
}

var wrapLd = []string{"-Wl,--wrap=malloc,--wrap=calloc,--wrap=realloc,--wrap=free"}

func spec(f Flavour) (flavourSpec, error) {
	switch f {
	case AsanUbsan:
		return flavourSpec{cc: "clang",
			cflags: []string{"-fsanitize=address,undefined", "-fno-sanitize-recover=all", "-fno-omit-frame-pointer", "-O1", "-g"},
			env:    []string{"ASAN_OPTIONS=detect_leaks=0:abort_on_error=0:allocator_may_return_null=1:symbolize=1:quarantine_size_mb=8:malloc_context_size=3", "UBSAN_OPTIONS=print_stacktrace=1"}}, nil
	case PlainGcc:
		return flavourSpec{cc: "gcc", cflags: []string{"-O2"}, ldflags: wrapLd, drvDefs: []string{"-DWVCDRV_WRAP_ALLOC"}}, nil
	case NoArch:
		return flavourSpec{cc: "gcc", cflags: []string{"-O2", "-DWUFFS_CONFIG__AVOID_CPU_ARCH"}, ldflags: wrapLd, drvDefs: []string{"-DWVCDRV_WRAP_ALLOC"}}, nil
	case Msan:
		return flavourSpec{cc: "clang",
			cflags: []string{"-fsanitize=memory", "-fno-sanitize-recover=all", "-fno-omit-frame-pointer", "-O1", "-g"},
			env:    []string{"MSAN_OPTIONS=abort_on_error=0:symbolize=1"}}, nil
	}
	return flavourSpec{}, fmt.Errorf("cdrv: unknown flavour %q", f)
}

// ---- codec table of wvcdrv.c: name -> the sizeof function that must be declared by the snapshot.
var codecSyms = map[string]string{
	"deflate": "sizeof__wuffs_deflate__decoder", "zlib": "sizeof__wuffs_zlib__decoder", "gzip": "sizeof__wuffs_gzip__decoder",
	"lzw": "sizeof__wuffs_lzw__decoder", "bzip2": "sizeof__wuffs_bzip2__decoder", "lzma": "sizeof__wuffs_lzma__decoder",
	"xz": "sizeof__wuffs_xz__decoder", "lzip": "sizeof__wuffs_lzip__decoder",
	"adler32": "sizeof__wuffs_adler32__hasher", "crc32": "sizeof__wuffs_crc32__ieee_hasher", "xxhash32": "sizeof__wuffs_xxhash32__hasher",
	"crc64": "sizeof__wuffs_crc64__ecma_hasher", "xxhash64": "sizeof__wuffs_xxhash64__hasher", "sha256": "sizeof__wuffs_sha256__hasher",
	"bmp": "sizeof__wuffs_bmp__decoder", "etc2": "sizeof__wuffs_etc2__decoder", "gif": "sizeof__wuffs_gif__decoder",
	"handsum": "sizeof__wuffs_handsum__decoder", "jpeg": "sizeof__wuffs_jpeg__decoder", "netpbm": "sizeof__wuffs_netpbm__decoder",
	"nie": "sizeof__wuffs_nie__decoder", "png": "sizeof__wuffs_png__decoder", "qoi": "sizeof__wuffs_qoi__decoder",
	"targa": "sizeof__wuffs_targa__decoder", "thumbhash": "sizeof__wuffs_thumbhash__decoder", "vp8": "sizeof__wuffs_vp8__decoder",
	"wbmp": "sizeof__wuffs_wbmp__decoder", "webp": "sizeof__wuffs_webp__decoder",
	"json": "sizeof__wuffs_json__decoder", "cbor": "sizeof__wuffs_cbor__decoder",
}

// translation-unit groups (modules compiled together); anything not listed goes to the last group.
var tuGroups = [][]string{
	{"BASE"},
	{"JPEG"},
	{"PNG", "WEBP", "VP8", "ZLIB", "DEFLATE", "ADLER32", "CRC32"},
	{"LZMA", "XZ", "LZIP", "BZIP2", "GZIP", "LZW", "CRC64", "SHA256", "XXHASH32", "XXHASH64"},
	{"GIF", "BMP", "TARGA", "WBMP", "NIE", "QOI", "NETPBM", "ETC2", "HANDSUM", "THUMBHASH", "JSON", "CBOR"},
}

// ---- per-process build cache

type stdState struct {
	sb       *hlib.StdBuild
	dir      string // scratch dir for objects / binaries
	cleanup  func()
	have     []string   // -DWV_HAVE_x
	groups   [][]string // module groups (nil = monolithic)
	genTime  time.Duration
	cacheHit bool
	haveCS   []string // -DWV_CS_x
	bins     map[Flavour]*binState
}

type binState struct {
	once sync.Once
	path string
	err  error
	took time.Duration
}

var (
	mu       sync.Mutex
	states   = map[string]*stdState{} // by repo
	stateErr = map[string]error{}
	live     = map[string]int{} // live drivers per repo
	jobs     chan struct{}
	jobsOnce sync.Once
)

func acquireJob() func() {
	jobsOnce.Do(func() {
		n := 8
		if s := os.Getenv("VERIF_CDRV_JOBS"); s != "" {
			if v, err := strconv.Atoi(s); err == nil && v > 0 {
				n = v
			}
		}
		jobs = make(chan struct{}, n)
	})
	jobs <- struct{}{}
	return func() { <-jobs }
}

var moduleRe = regexp.MustCompile(`defined\(WUFFS_CONFIG__MODULE__([A-Z0-9]+)\) \|\| defined\(WUFFS_NONMONOLITHIC\)`)

func getState(repo string) (*stdState, error) {
	mu.Lock()
	defer mu.Unlock()
	if st := states[repo]; st != nil {
		return st, nil
	}
	t0 := time.Now()
	sb, err := hlib.GenStd(repo)
	if err != nil {
		return nil, fmt.Errorf("cdrv: regenerating std from %s: %w", repo, err)
	}
	dir, cleanup := hlib.NewScratchDir("cdrv")
	st := &stdState{sb: sb, dir: dir, cleanup: cleanup, genTime: time.Since(t0), bins: map[Flavour]*binState{}}
	snap, err := os.ReadFile(sb.Snapshot)
	if err != nil {
		sb.Cleanup()
		cleanup()
		return nil, err
	}
	names := make([]string, 0, len(codecSyms))
	for n := range codecSyms {
		names = append(names, n)
	}
	sort.Strings(names)
	for _, n := range names {
		if bytes.Contains(snap, []byte(codecSyms[n]+"(")) {
			st.have = append(st.have, "-DWV_HAVE_"+n)
		}
	}
	for _, n := range names {
		i := bytes.Index(snap, []byte("struct wuffs_"+n+"__decoder__struct {"))
		if i < 0 {
			continue
		}
		j := bytes.Index(snap[i:], []byte("} private_impl;"))
		if j > 0 && bytes.Contains(snap[i:i+j], []byte("uint8_t f_call_sequence;")) {
			st.haveCS = append(st.haveCS, "-DWV_CS_"+n)
		}
	}
	// modules present in this snapshot
	mods := map[string]bool{}
	for _, m := range moduleRe.FindAllSubmatch(snap, -1) {
		mods[string(m[1])] = true
	}
	if len(mods) > 0 && bytes.Contains(snap, []byte("WUFFS_CONFIG__MODULE__BASE")) {
		mods["BASE"] = true
		used := map[string]bool{}
		for _, g := range tuGroups {
			var gg []string
			for _, m := range g {
				if mods[m] {
					gg = append(gg, m)
					used[m] = true
				}
			}
			st.groups = append(st.groups, gg)
		}
		var rest []string
		for m := range mods {
			if !used[m] {
				rest = append(rest, m)
			}
		}
		sort.Strings(rest)
		last := len(st.groups) - 1
		st.groups[last] = append(st.groups[last], rest...)
	}
	for _, f := range cFiles {
		b, err := csrc.ReadFile("c/" + f)
		if err == nil {
			err = os.WriteFile(filepath.Join(dir, f), b, 0o644)
		}
		if err != nil {
			sb.Cleanup()
			cleanup()
			return nil, err
		}
	}
	states[repo] = st
	return st, nil
}

// Snapshot returns the path of the regenerated wuffs-unsupported-snapshot.c and the
// scratch repo copy (valid until the last Driver is closed / Cleanup is called).
func Snapshot(repo string) (snapshot string, scratchRepo string, err error) {
	st, err := getState(repo)
	if err != nil {
		return "", "", err
	}
	return st.sb.Snapshot, st.sb.Scratch, nil
}

// ToolsDir returns the directory holding `wuffs` and `wuffs-c` built from repo's working tree.
func ToolsDir(repo string) (string, error) {
	st, err := getState(repo)
	if err != nil {
		return "", err
	}
	return st.sb.BinDir, nil
}

func (st *stdState) build(fl Flavour) (string, time.Duration, error) {
	mu.Lock()
	b := st.bins[fl]
	if b == nil {
		b = &binState{}
		st.bins[fl] = b
	}
	mu.Unlock()
	b.once.Do(func() {
		t0 := time.Now()
		b.path, b.err = st.cachedCompile(fl)
		b.took = time.Since(t0)
	})
	return b.path, b.took, b.err
}

// ---- cross-process binary cache (content addressed; a pure accelerator).
// Key = sha256(snapshot text, driver sources, flavour flags, compiler version).
// Location: $VERIF_CDRV_CACHE or <ScratchRoot>/wuffs-verif.cdrv-cache; "off" disables.
// At most cacheKeep entries are kept (oldest use evicted).
const cacheKeep = 16

func cacheDir() string {
	s := os.Getenv("VERIF_CDRV_CACHE")
	if s == "off" || s == "0" {
		return ""
	}
	if s == "" {
		s = filepath.Join(hlib.ScratchRoot(), "wuffs-verif.cdrv-cache")
	}
	if os.MkdirAll(s, 0o755) != nil {
		return ""
	}
	return s
}

func (st *stdState) cacheKey(fl Flavour, sp flavourSpec) string {
	h := sha256.New()
	snap, _ := os.ReadFile(st.sb.Snapshot)
	h.Write(snap)
	for _, f := range cFiles {
		b, _ := csrc.ReadFile("c/" + f)
		h.Write(b)
	}
	ver, _, _ := hlib.RunCmd(time.Minute, "", nil, nil, sp.cc, "--version")
	fmt.Fprintf(h, "|%s|%q|%q|%q|%q|%q|%s", fl, sp.cflags, sp.ldflags, sp.drvDefs, append(append([]string{}, st.have...), st.haveCS...), st.groups, ver)
	return hex.EncodeToString(h.Sum(nil))[:32]
}

func copyFile(src, dst string) error {
	if os.Link(src, dst) == nil {
		return nil
	}
	b, err := os.ReadFile(src)
	if err != nil {
		return err
	}
	return os.WriteFile(dst, b, 0o755)
}

func (st *stdState) cachedCompile(fl Flavour) (string, error) {
	sp, err := spec(fl)
	if err != nil {
		return "", err
	}
	cd := cacheDir()
	if cd == "" {
		return st.compile(fl)
	}
	entry := filepath.Join(cd, st.cacheKey(fl, sp)+"-"+string(fl))
	odir := filepath.Join(st.dir, string(fl))
	if err := os.MkdirAll(odir, 0o755); err != nil {
		return "", err
	}
	bin := filepath.Join(odir, "wvcdrv")
	if _, err := os.Stat(entry); err == nil {
		os.Remove(bin)
		if copyFile(entry, bin) == nil {
			now := time.Now()
			os.Chtimes(entry, now, now)
			st.cacheHit = true
			return bin, nil
		}
	}
	bin, err = st.compile(fl)
	if err != nil {
		return "", err
	}
	tmp := fmt.Sprintf("%s.tmp.%d", entry, os.Getpid())
	if copyFile(bin, tmp) == nil {
		os.Rename(tmp, entry)
	}
	// evict
	if es, err := os.ReadDir(cd); err == nil && len(es) > cacheKeep {
		type ent struct {
			name string
			t    time.Time
		}
		var l []ent
		for _, e := range es {
			if i, err := e.Info(); err == nil {
				l = append(l, ent{e.Name(), i.ModTime()})
			}
		}
		sort.Slice(l, func(i, j int) bool { return l[i].t.Before(l[j].t) })
		for i := 0; i < len(l)-cacheKeep; i++ {
			os.Remove(filepath.Join(cd, l[i].name))
		}
	}
	return bin, nil
}

func (st *stdState) compile(fl Flavour) (string, error) {
	sp, err := spec(fl)
	if err != nil {
		return "", err
	}
	if _, err := exec.LookPath(sp.cc); err != nil {
		return "", fmt.Errorf("cdrv: compiler %s not found", sp.cc)
	}
	odir := filepath.Join(st.dir, string(fl))
	if err := os.MkdirAll(odir, 0o755); err != nil {
		return "", err
	}
	type job struct {
		args []string
		out  string
	}
	var js []job
	if st.groups == nil {
		o := filepath.Join(odir, "std.o")
		js = append(js, job{append(append([]string{"-x", "c"}, sp.cflags...), "-DWUFFS_IMPLEMENTATION", "-c", st.sb.Snapshot, "-o", o), o})
	} else {
		for i, g := range st.groups {
			if len(g) == 0 {
				continue
			}
			o := filepath.Join(odir, fmt.Sprintf("std%d.o", i))
			a := append([]string{"-x", "c"}, sp.cflags...)
			a = append(a, "-DWUFFS_IMPLEMENTATION", "-DWUFFS_CONFIG__MODULES", "-DWUFFS_NONMONOLITHIC")
			for _, m := range g {
				a = append(a, "-DWUFFS_CONFIG__MODULE__"+m)
			}
			a = append(a, "-c", st.sb.Snapshot, "-o", o)
			js = append(js, job{a, o})
		}
	}
	drvO := filepath.Join(odir, "wvcdrv.o")
	da := append([]string{}, sp.cflags...)
	da = append(da, sp.drvDefs...)
	da = append(da, st.have...)
	da = append(da, `-DWVCDRV_FLAVOUR="`+string(fl)+`"`, "-include", st.sb.Snapshot, "-I", st.dir, "-c", filepath.Join(st.dir, "wvcdrv.c"), "-o", drvO)
	js = append(js, job{da, drvO})
	peekO := filepath.Join(odir, "wv_peek.o")
	pa := append([]string{}, sp.cflags...)
	pa = append(pa, st.haveCS...)
	pa = append(pa, "-DWUFFS_IMPLEMENTATION", "-DWUFFS_CONFIG__MODULES", "-DWUFFS_NONMONOLITHIC", "-include", st.sb.Snapshot, "-c", filepath.Join(st.dir, "wv_peek.c"), "-o", peekO)
	js = append(js, job{pa, peekO})

	errs := make([]error, len(js))
	var wg sync.WaitGroup
	for i := range js {
		wg.Add(1)
		go func(i int) {
			defer wg.Done()
			rel := acquireJob()
			defer rel()
			errs[i] = hlib.CC(sp.cc, js[i].args...)
		}(i)
	}
	wg.Wait()
	for _, e := range errs {
		if e != nil {
			return "", e
		}
	}
	bin := filepath.Join(odir, "wvcdrv")
	la := append([]string{}, sp.cflags...)
	for _, j := range js {
		la = append(la, j.out)
	}
	la = append(la, sp.ldflags...)
	la = append(la, "-o", bin)
	if err := hlib.CC(sp.cc, la...); err != nil {
		return "", err
	}
	return bin, nil
}

// ---- Driver

// CrashError is returned by Run when the driver process died (sanitizer abort,
// segfault) or did not answer in time. Cmd is the command that killed it.
type CrashError struct {
	Cmd     string
	Report  string // stderr of the process (sanitizer report), truncated to 256 KiB
	Timeout bool
	Wait    string // exit status text
}

func (e *CrashError) Error() string {
	what := "driver process died"
	if e.Timeout {
		what = "driver process timed out"
	}
	c := e.Cmd
	if len(c) > 200 {
		c = c[:200] + "…"
	}
	r := e.Report
	if len(r) > 1500 {
		r = r[:1500] + "…"
	}
	return fmt.Sprintf("cdrv: %s (%s) on command %q\n%s", what, e.Wait, c, r)
}

// Kind classifies the report: "asan:<bug type>", "ubsan", "msan", "timeout", "signal", "exit".
func (e *CrashError) Kind() string {
	if e.Timeout {
		return "timeout"
	}
	if m := regexp.MustCompile(`AddressSanitizer: ([a-zA-Z-]+)`).FindStringSubmatch(e.Report); m != nil {
		return "asan:" + m[1]
	}
	if strings.Contains(e.Report, "MemorySanitizer") {
		return "msan"
	}
	if strings.Contains(e.Report, "runtime error:") {
		return "ubsan"
	}
	if strings.Contains(e.Wait, "signal") {
		return "signal"
	}
	return "exit"
}

type Driver struct {
	Flavour   Flavour
	Timeout   time.Duration // per command; default 120 s
	BuildTime time.Duration // wall time of compiling this flavour (0 when it was cached)
	GenTime   time.Duration // wall time of regenerating std (hlib.GenStd)
	Restarts  int           // number of times the process had to be restarted

	repo   string
	bin    string
	env    []string
	mu     sync.Mutex
	cmd    *exec.Cmd
	stdin  io.WriteCloser
	lines  chan string
	stderr *capBuf
	closed bool
}

type capBuf struct {
	mu sync.Mutex
	b  bytes.Buffer
}

func (c *capBuf) Write(p []byte) (int, error) {
	c.mu.Lock()
	defer c.mu.Unlock()
	if room := 256<<10 - c.b.Len(); room > 0 {
		if len(p) > room {
			c.b.Write(p[:room])
		} else {
			c.b.Write(p)
		}
	}
	return len(p), nil
}
func (c *capBuf) String() string { c.mu.Lock(); defer c.mu.Unlock(); return c.b.String() }

// Build regenerates std from repo's working tree (once per process and repo),
// compiles the snapshot and the driver in the given flavour (once per process),
// and returns a Driver (one child process, started lazily).
func Build(repo string, fl Flavour) (*Driver, error) {
	st, err := getState(repo)
	if err != nil {
		return nil, err
	}
	sp, err := spec(fl)
	if err != nil {
		return nil, err
	}
	bin, took, err := st.build(fl)
	if err != nil {
		return nil, err
	}
	mu.Lock()
	live[repo]++
	mu.Unlock()
	return &Driver{Flavour: fl, Timeout: 120 * time.Second, BuildTime: took, GenTime: st.genTime, repo: repo, bin: bin, env: sp.env}, nil
}

// BuildAll builds several flavours in parallel. Flavours whose compiler is missing
// or that fail to build are reported in errs and absent from the map.
func BuildAll(repo string, fls ...Flavour) (map[Flavour]*Driver, map[Flavour]error) {
	out := map[Flavour]*Driver{}
	errs := map[Flavour]error{}
	if _, err := getState(repo); err != nil {
		for _, f := range fls {
			errs[f] = err
		}
		return out, errs
	}
	var wg sync.WaitGroup
	var m sync.Mutex
	for _, f := range fls {
		wg.Add(1)
		go func(f Flavour) {
			defer wg.Done()
			d, err := Build(repo, f)
			m.Lock()
			defer m.Unlock()
			if err != nil {
				errs[f] = err
			} else {
				out[f] = d
			}
		}(f)
	}
	wg.Wait()
	return out, errs
}

// Spawn returns another Driver (own child process) for the same binary, for use
// from another goroutine. It must be closed too.
func (d *Driver) Spawn() *Driver {
	mu.Lock()
	live[d.repo]++
	mu.Unlock()
	return &Driver{Flavour: d.Flavour, Timeout: d.Timeout, GenTime: d.GenTime, repo: d.repo, bin: d.bin, env: d.env}
}

// Binary returns the path of the compiled driver executable.
func (d *Driver) Binary() string { return d.bin }

func (d *Driver) start() error {
	cmd := exec.Command(d.bin)
	cmd.Env = append(os.Environ(), d.env...)
	in, err := cmd.StdinPipe()
	if err != nil {
		return err
	}
	out, err := cmd.StdoutPipe()
	if err != nil {
		return err
	}
	d.stderr = &capBuf{}
	cmd.Stderr = d.stderr
	if err := cmd.Start(); err != nil {
		return err
	}
	d.cmd, d.stdin = cmd, in
	lines := make(chan string, 1)
	d.lines = lines
	go func() {
		r := bufio.NewReaderSize(out, 1<<20)
		for {
			s, err := r.ReadString('\n')
			if err != nil {
				close(lines)
				return
			}
			lines <- strings.TrimRight(s, "\r\n")
		}
	}()
	return nil
}

func (d *Driver) reap(cmdline string, timeout bool) error {
	if d.cmd == nil {
		return errors.New("cdrv: no process")
	}
	d.stdin.Close()
	if timeout {
		d.cmd.Process.Kill()
	}
	done := make(chan error, 1)
	go func() { done <- d.cmd.Wait() }()
	var werr error
	select {
	case werr = <-done:
	case <-time.After(10 * time.Second):
		d.cmd.Process.Kill()
		werr = <-done
	}
	ws := "exit 0"
	if werr != nil {
		ws = werr.Error()
	}
	e := &CrashError{Cmd: cmdline, Report: d.stderr.String(), Timeout: timeout, Wait: ws}
	d.cmd, d.stdin, d.lines = nil, nil, nil
	d.Restarts++
	return e
}

// Run sends one command line and returns the one result line. If the process
// dies or times out, the error is a *CrashError naming the command and carrying
// the sanitizer report; the next Run starts a fresh process.
func (d *Driver) Run(cmdline string) (string, error) {
	d.mu.Lock()
	defer d.mu.Unlock()
	if d.closed {
		return "", errors.New("cdrv: driver closed")
	}
	if strings.ContainsAny(cmdline, "\n\r") {
		return "", errors.New("cdrv: command contains a newline")
	}
	if d.cmd == nil {
		if err := d.start(); err != nil {
			return "", err
		}
	}
	if _, err := io.WriteString(d.stdin, cmdline+"\n"); err != nil {
		return "", d.reap(cmdline, false)
	}
	to := d.Timeout
	if to <= 0 {
		to = 120 * time.Second
	}
	t := time.NewTimer(to)
	defer t.Stop()
	select {
	case s, ok := <-d.lines:
		if !ok {
			return "", d.reap(cmdline, false)
		}
		return s, nil
	case <-t.C:
		return "", d.reap(cmdline, true)
	}
}

// Close stops the child process. When the last Driver of a repo is closed the
// scratch directories (regenerated std, objects, binaries) are removed.
func (d *Driver) Close() {
	d.mu.Lock()
	if d.closed {
		d.mu.Unlock()
		return
	}
	d.closed = true
	if d.cmd != nil {
		io.WriteString(d.stdin, "quit\n")
		d.stdin.Close()
		done := make(chan struct{})
		go func() { d.cmd.Wait(); close(done) }()
		select {
		case <-done:
		case <-time.After(5 * time.Second):
			d.cmd.Process.Kill()
			<-done
		}
		d.cmd = nil
	}
	d.mu.Unlock()
	mu.Lock()
	live[d.repo]--
	n := live[d.repo]
	mu.Unlock()
	if n <= 0 {
		cleanupRepo(d.repo)
	}
}

func cleanupRepo(repo string) {
	mu.Lock()
	st := states[repo]
	delete(states, repo)
	delete(live, repo)
	mu.Unlock()
	if st != nil {
		st.cleanup()
		st.sb.Cleanup()
	}
}

// Cleanup removes every scratch directory made by this package (idempotent). Call
// it (deferred) from main if Drivers may be leaked on an early return.
func Cleanup() {
	mu.Lock()
	var repos []string
	for r := range states {
		repos = append(repos, r)
	}
	mu.Unlock()
	for _, r := range repos {
		cleanupRepo(r)
	}
}

// ---- result parsing

// Result is a parsed `run` result line.
type Result struct {
	Raw       string
	KV        map[string]string
	Status    string // "ok", or the status text with '_' for spaces, or "driver:<why>"
	Stage     string // "init" when initialize failed
	Ri        uint64
	OutLen    int
	OutHex    string // "-" or hex, empty when only a digest was printed
	OutDigest string // "fnv64:<16 hex>" when digested
	Calls     int
	Trace     string
	Checks    []string // empty = all I/O-contract checks passed
	Flags     []string
	Allocs    int // -1 = not counted in this flavour
}

// ParseKV splits "ok k=v k=v ..." into a map (first word under key "").
func ParseKV(line string) map[string]string {
	m := map[string]string{}
	for i, f := range strings.Fields(line) {
		if i == 0 {
			m[""] = f
			continue
		}
		if j := strings.IndexByte(f, '='); j > 0 {
			m[f[:j]] = f[j+1:]
		}
	}
	return m
}

func ParseResult(line string) (*Result, error) {
	if !strings.HasPrefix(line, "ok ") {
		return nil, fmt.Errorf("cdrv: not a result line: %.80s", line)
	}
	kv := ParseKV(line)
	r := &Result{Raw: line, KV: kv, Status: kv["status"], Stage: kv["stage"], Allocs: -1}
	r.Ri, _ = strconv.ParseUint(kv["ri"], 10, 64)
	if o := kv["out"]; o != "" {
		p := strings.SplitN(o, ":", 2)
		r.OutLen, _ = strconv.Atoi(p[0])
		if len(p) == 2 {
			if strings.HasPrefix(p[1], "fnv64:") {
				r.OutDigest = p[1]
			} else {
				r.OutHex = p[1]
			}
		}
	}
	r.Calls, _ = strconv.Atoi(kv["calls"])
	r.Trace = kv["trace"]
	if c := kv["checks"]; c != "" && c != "ok" {
		r.Checks = strings.Split(c, ",")
	}
	if f := kv["flags"]; f != "" && f != "-" {
		r.Flags = strings.Split(f, ",")
	}
	if a := kv["allocs"]; a != "" && a != "na" {
		r.Allocs, _ = strconv.Atoi(a)
	}
	return r, nil
}

// HasFlag reports whether a flag (name without the @call suffix) is present.
func (r *Result) HasFlag(name string) bool {
	for _, f := range r.Flags {
		if f == name || strings.HasPrefix(f, name+"@") {
			return true
		}
	}
	return false
}

// FNV64 computes the digest the driver prints for long outputs ("fnv64:%016x").
func FNV64(b []byte) string {
	h := uint64(0xCBF29CE484222325)
	for _, c := range b {
		h ^= uint64(c)
		h *= 0x100000001B3
	}
	return fmt.Sprintf("fnv64:%016x", h)
}
