// wv_peek.c - part of the wvcdrv build. Compiled WITH -DWUFFS_IMPLEMENTATION
// -DWUFFS_CONFIG__MODULES -DWUFFS_NONMONOLITHIC (and no module selected), so that
// the struct bodies are visible but nothing is implemented here. It exposes the
// private `call_sequence` byte of the image decoders that have one (for C08).
// A codec is handled only when the Go side found `f_call_sequence` in its
// private_impl (-DWV_CS_<name>).

#ifndef WUFFS_INCLUDE_GUARD
#error "compile with -include <snapshot.c>"
#endif
#include <string.h>

#define CS(NAME, PKG) \
  if (!strcmp(codec, #NAME)) return (int)((const wuffs_##PKG##__decoder*)obj)->private_impl.f_call_sequence;

// wv_call_sequence returns the byte, or -1 when the codec has no such field.
int wv_call_sequence(const char* codec, const void* obj) {
  if (!obj) return -1;
#ifdef WV_CS_bmp
  CS(bmp, bmp)
#endif
#ifdef WV_CS_etc2
  CS(etc2, etc2)
#endif
#ifdef WV_CS_gif
  CS(gif, gif)
#endif
#ifdef WV_CS_handsum
  CS(handsum, handsum)
#endif
#ifdef WV_CS_jpeg
  CS(jpeg, jpeg)
#endif
#ifdef WV_CS_netpbm
  CS(netpbm, netpbm)
#endif
#ifdef WV_CS_nie
  CS(nie, nie)
#endif
#ifdef WV_CS_png
  CS(png, png)
#endif
#ifdef WV_CS_qoi
  CS(qoi, qoi)
#endif
#ifdef WV_CS_targa
  CS(targa, targa)
#endif
#ifdef WV_CS_thumbhash
  CS(thumbhash, thumbhash)
#endif
#ifdef WV_CS_vp8
  CS(vp8, vp8)
#endif
#ifdef WV_CS_wbmp
  CS(wbmp, wbmp)
#endif
#ifdef WV_CS_webp
  CS(webp, webp)
#endif
  (void)codec;
  return -1;
}
