// wvcdrv.c - generic line-protocol driver for the Wuffs standard library as
// REGENERATED from /repo's working tree. See README.md in this directory for
// the protocol. Built by the Go package wvh/cdrv:
//
//   cc <flavour flags> -include <snapshot.c> -DWV_HAVE_<codec>... -c wvcdrv.c
//   cc <flavour flags> wvcdrv.o <snapshot objects compiled with -DWUFFS_IMPLEMENTATION>
//
// Only DECLARATIONS of the library are visible here (WUFFS_IMPLEMENTATION is
// not defined), so the library's struct bodies are opaque: objects are raw
// heap blocks of sizeof__wuffs_<pkg>__<type>() bytes.
//
// One command per stdin line; exactly one result line per command, flushed.

#ifndef WUFFS_INCLUDE_GUARD
#error "compile with -include <path of the regenerated wuffs-unsupported-snapshot.c>"
#endif
#ifdef WUFFS_IMPLEMENTATION
#error "wvcdrv.c must see declarations only; compile the snapshot separately"
#endif

#ifndef WVCDRV_FLAVOUR
#define WVCDRV_FLAVOUR "unknown"
#endif

// clang-format off
#include "wv_util.h"
#include "wv_codecs.h"
#include "wv_io.h"
#include "wv_run.h"
#include "wv_proto.h"
// clang-format on

static void cmd_codecs(bytes* line) {
  bytes_adds(line, "ok");
  for (int i = 0; g_codecs[i]; i++) {
    bytes_addf(line, " %s:%c", g_codecs[i]->name, g_codecs[i]->kind);
  }
}

static void cmd_sizeof(bytes* line, char** f, int nf) {
  const codec* c = nf == 1 ? find_codec(f[0]) : NULL;
  if (!c) {
    bytes_adds(line, "bad-op");
    return;
  }
  bytes_addf(line, "ok %zu", c->size_of());
}

int main(void) {
  char* buf = NULL;
  size_t cap = 0;
  ssize_t n;
  bytes line = {0};
  while ((n = getline(&buf, &cap, stdin)) >= 0) {
    while (n > 0 && (buf[n - 1] == '\n' || buf[n - 1] == '\r')) buf[--n] = 0;
    // split on single spaces
    char* f[64];
    int nf = 0;
    char* save = NULL;
    for (char* t = strtok_r(buf, " ", &save); t && nf < 64; t = strtok_r(NULL, " ", &save)) f[nf++] = t;
    line.n = 0;
    if (nf == 0) {
      bytes_adds(&line, "bad-op");
    } else if (!strcmp(f[0], "ping")) {
      bytes_adds(&line, "ok pong");
    } else if (!strcmp(f[0], "version")) {
      bytes_addf(&line, "ok wuffs=%s flavour=%s alloc_counted=%d msan=%d", WUFFS_VERSION_STRING, WVCDRV_FLAVOUR,
                 WV_ALLOC_COUNTED, WV_MSAN);
    } else if (!strcmp(f[0], "codecs")) {
      cmd_codecs(&line);
    } else if (!strcmp(f[0], "sizeof")) {
      cmd_sizeof(&line, f + 1, nf - 1);
    } else if (!strcmp(f[0], "run")) {
      cmd_run(&line, f + 1, nf - 1);
    } else if (!strcmp(f[0], "hash")) {
      cmd_hash(&line, f + 1, nf - 1);
    } else if (!strcmp(f[0], "proto")) {
      cmd_proto(&line, f + 1, nf - 1);
    } else if (!strcmp(f[0], "selftest") && nf == 2) {
      // deliberate faults, to test the caller's crash handling
      if (!strcmp(f[1], "overflow")) {
        volatile uint8_t* q = xalloc(8);
        volatile size_t i = 8;
        bytes_addf(&line, "ok %d", q[i]);  // heap-buffer-overflow under ASan
        free((void*)q);
      } else if (!strcmp(f[1], "abort")) {
        fprintf(stderr, "wvcdrv: selftest abort\n");
        abort();
      } else if (!strcmp(f[1], "hang")) {
        for (volatile int z = 0;; z++) {
        }
      } else if (!strcmp(f[1], "alloc")) {
        void* q;
        LIB(q = malloc(16));
        LIB(free(q));
        bytes_addf(&line, "ok lib_allocs=%" PRIu64, (uint64_t)g_lib_allocs);
      } else {
        bytes_adds(&line, "bad-op");
      }
    } else if (!strcmp(f[0], "quit")) {
      break;
    } else {
      bytes_adds(&line, "bad-op");
    }
    bytes_add(&line, "\n", 1);
    fwrite(line.p, 1, line.n, stdout);
    fflush(stdout);
  }
  free(buf);
  bytes_free(&line);
  return 0;
}
